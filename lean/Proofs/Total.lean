import Plenc.Typing
import Proofs.Wire
/-
  Proofs.Total — decoding arbitrary bytes is total (helper lemmas and the main
  theorem for property C04): `Ty.read` returns a value or an error, never
  `panic` (Go panic) and never `hang` (a loop combinator out of fuel), and never
  reports more bytes consumed than it was given.
-/

namespace Total

/-! ### outcomes -/

theorem fine_cases {α : Type} {r : Res α} (h : r.fine) : (∃ a, r = .ok a) ∨ r = .err := by
  cases r with
  | ok a => exact .inl ⟨a, rfl⟩
  | err => exact .inr rfl
  | panic => exact absurd h (by simp [Res.fine])
  | hang => exact absurd h (by simp [Res.fine])

theorem fine_ok {α : Type} (a : α) : (Res.ok a).fine := trivial
theorem fine_err {α : Type} : (Res.err : Res α).fine := trivial

/-- the unchecked varint read never reports more than the input. -/
theorem readVarUint_toNat_le (d : Bytes) : (readVarUint d).2.toNat ≤ d.length := by
  have := readVarUint_le d
  simp only [Int.ofNat_eq_natCast] at this
  omega

/-! ### the prior-value shape -/

mutual
/-- what `Ty.read` needs of the prior value of its target: a struct prior has
one value per field (recursively); the values already stored in a map prior
have the shape of the value codec (entries are read into the existing slot);
a pointer prior's pointee has the pointee's shape.  Everything else is
arbitrary: the other arms ignore the prior, or replace a prior of the wrong
kind by the zero value. -/
def Shape : Ty → Val → Prop
  | .ptr t, p => match p with
      | .ptr (some x) => Shape t x
      | _ => True
  | .struct _ fs, p => match p with
      | .struct vs => ShapeL fs vs
      | _ => True
  | .map _ v _, p => match p with
      | .map (some es) => ∀ e ∈ es, Shape v e.2
      | _ => True
  | _, _ => True
def ShapeL : Fields → List Val → Prop
  | [], vs => vs = []
  | (_, _, t) :: r, vs => match vs with
      | v :: vs => Shape t v ∧ ShapeL r vs
      | [] => False
end

mutual
theorem shape_zero : (t : Ty) → Shape t t.zero
  | .bool | .int _ | .uint _ | .flat _ | .f32 | .f64 | .str _ | .bytes | .time _ => by simp [Shape]
  | .vslice _ | .fslice _ | .lslice _ | .pslice _ => by simp [Shape]
  | .ptr _ => by simp [Shape, Ty.zero]
  | .map _ _ _ => by simp [Shape, Ty.zero]
  | .struct _ fs => by simp only [Ty.zero, Shape]; exact shapeL_zeros fs
theorem shapeL_zeros : (fs : Fields) → ShapeL fs (zeros fs)
  | [] => by simp [zeros, ShapeL]
  | (_, _, t) :: r => by simp only [zeros, ShapeL]; exact ⟨shape_zero t, shapeL_zeros r⟩
end

/-! ### what totality of one reader means -/

/-- `rd` is total on every input, stays inside it, and establishes `P`. -/
def GoodRd (rd : Bytes → Res (Val × Nat)) (P : Val → Prop) : Prop :=
  ∀ b, (rd b).fine ∧ ∀ v n, rd b = .ok (v, n) → n ≤ b.length ∧ P v

def Good (t : Ty) : Prop :=
  ∀ (wt : WT) (d : Bytes) (p : Val), Shape t p →
    (t.read wt d p).fine ∧ ∀ v n, t.read wt d p = .ok (v, n) → n ≤ d.length ∧ Shape t v

def GoodField (fs : Fields) : Prop :=
  ∀ acc idx wt body, ShapeL fs acc →
    (readField fs acc idx wt body).fine ∧
    ∀ acc' m, readField fs acc idx wt body = .ok (acc', m) → m ≤ body.length ∧ ShapeL fs acc'

/-! ### loop combinators -/

/-- `structLoop`: with fuel above the remaining input the loop ends, keeps the
invariant and reports an offset inside the input. -/
theorem structLoop_total (rd : Nat → WT → Bytes → List Val → Res (List Val × Nat))
    (I : List Val → Prop)
    (hrd : ∀ idx wt body acc, I acc → (rd idx wt body acc).fine ∧
      ∀ acc' m, rd idx wt body acc = .ok (acc', m) → m ≤ body.length ∧ I acc') :
    ∀ fuel data off acc, data.length < fuel → I acc →
      (structLoop rd fuel data off acc).fine ∧
      ∀ acc' n, structLoop rd fuel data off acc = .ok (acc', n) → n ≤ off + data.length ∧ I acc' := by
  intro fuel
  induction fuel with
  | zero => intro data off acc h; omega
  | succ f ih =>
    intro data off acc hl hs
    rw [structLoop]
    by_cases hd : data.isEmpty
    · simp only [hd, ↓reduceIte, Res.fine, true_and]
      intro acc' n h
      injection h with h; injection h with h1 h2
      subst h1; subst h2
      exact ⟨by omega, hs⟩
    · simp only [hd]
      unfold readTag
      cases hr : readU data with
      | none => simp [Res.fine]
      | some q =>
        obtain ⟨tag, n⟩ := q
        have ⟨hn0, hnl⟩ := readU_le data tag n hr
        simp only
        have hg := hrd (tag / 8) (WT.ofCode (tag % 8)) (data.drop n) acc hs
        rcases fine_cases hg.1 with ⟨⟨acc', m⟩, e⟩ | e
        · have ⟨hm, hs'⟩ := hg.2 acc' m e
          simp only [List.length_drop] at hm
          simp only [e]
          have := ih (data.drop (n + m)) (off + (n + m)) acc'
            (by simp only [List.length_drop]; omega) hs'
          refine ⟨this.1, fun a k h => ?_⟩
          have := this.2 a k h
          simp only [List.length_drop] at this
          exact ⟨by omega, this.2⟩
        · simp [e, Res.fine]

theorem countVarints_fine : ∀ fuel data c, data.length < fuel → (countVarints fuel data c).fine := by
  intro fuel
  induction fuel with
  | zero => intro data c h; omega
  | succ f ih =>
    intro data c hl
    rw [countVarints]
    by_cases hd : data.isEmpty
    · simp [hd, Res.fine]
    · simp only [hd]
      cases hr : readU data with
      | none => simp [Res.fine]
      | some q =>
        obtain ⟨x, n⟩ := q
        have ⟨hn0, hnl⟩ := readU_le data x n hr
        simp only
        exact ih _ _ (by simp only [List.length_drop]; omega)

theorem readN_total (rd : Bytes → Res (Val × Nat)) (P : Val → Prop) (hrd : GoodRd rd P) :
    ∀ c data, (readN rd c data).fine ∧ ∀ vs n, readN rd c data = .ok (vs, n) → n ≤ data.length := by
  intro c
  induction c with
  | zero =>
    intro data
    simp only [readN, Res.fine, true_and]
    intro vs n h; injection h with h; injection h with h1 h2; omega
  | succ c ih =>
    intro data
    rw [readN]
    rcases fine_cases (hrd data).1 with ⟨⟨v, m⟩, e⟩ | e
    · have ⟨hm, _⟩ := (hrd data).2 v m e
      simp only [e]
      have hi := ih (data.drop m)
      rcases fine_cases hi.1 with ⟨⟨vs, k⟩, e2⟩ | e2
      · have hk := hi.2 vs k e2
        simp only [List.length_drop] at hk
        simp only [e2, Res.fine, true_and]
        intro vs' n h; injection h with h; injection h with h1 h2; omega
      · simp [e2, Res.fine]
    · simp [e, Res.fine]

theorem elemLoop_total (rd : Bytes → Res (Val × Nat)) (P : Val → Prop) (hrd : GoodRd rd P) :
    ∀ c data, (elemLoop rd c data).fine ∧ ∀ vs n, elemLoop rd c data = .ok (vs, n) → n ≤ data.length := by
  intro c
  induction c with
  | zero =>
    intro data
    simp only [elemLoop, Res.fine, true_and]
    intro vs n h; injection h with h; injection h with h1 h2; omega
  | succ c ih =>
    intro data
    rw [elemLoop]
    cases hr : readU data with
    | none => simp [Res.fine]
    | some q =>
      obtain ⟨s, n⟩ := q
      have ⟨hn0, hnl⟩ := readU_le data s n hr
      simp only
      by_cases hs : s > (data.drop n).length
      · rw [if_pos hs]; simp [Res.fine]
      · rw [if_neg hs]
        have hg := hrd ((data.drop n).take s)
        rcases fine_cases hg.1 with ⟨⟨v, m⟩, e⟩ | e
        · have ⟨hm, _⟩ := hg.2 v m e
          simp only [List.length_take, List.length_drop] at hm hs
          simp only [e]
          have hi := ih (data.drop (n + m))
          rcases fine_cases hi.1 with ⟨⟨vs, k⟩, e2⟩ | e2
          · have hk := hi.2 vs k e2
            simp only [List.length_drop] at hk
            simp only [e2, Res.fine, true_and]
            intro vs' n' h; injection h with h; injection h with h1 h2; omega
          · simp [e2, Res.fine]
        · simp [e, Res.fine]

theorem mapLoop_total (rdE : Bytes → List (Val × Val) → Res (List (Val × Val) × Nat))
    (I : List (Val × Val) → Prop)
    (hrd : ∀ b es, I es → (rdE b es).fine ∧
      ∀ es' m, rdE b es = .ok (es', m) → m ≤ b.length ∧ I es') :
    ∀ c data off es, I es →
      (mapLoop rdE c data off es).fine ∧
      ∀ es' n, mapLoop rdE c data off es = .ok (es', n) → n ≤ off + data.length ∧ I es' := by
  intro c
  induction c with
  | zero =>
    intro data off es hI
    simp only [mapLoop, Res.fine, true_and]
    intro es' n h; injection h with h; injection h with h1 h2
    subst h1; subst h2
    exact ⟨by omega, hI⟩
  | succ c ih =>
    intro data off es hI
    rw [mapLoop]
    cases hr : readU data with
    | none => simp [Res.fine]
    | some q =>
      obtain ⟨el, n⟩ := q
      have ⟨hn0, hnl⟩ := readU_le data el n hr
      simp only
      by_cases hs : el > (data.drop n).length
      · rw [if_pos hs]; simp [Res.fine]
      · rw [if_neg hs]
        have hg := hrd ((data.drop n).take el) es hI
        rcases fine_cases hg.1 with ⟨⟨es1, m⟩, e⟩ | e
        · have ⟨hm, hI1⟩ := hg.2 es1 m e
          simp only [List.length_take, List.length_drop] at hm hs
          simp only [e]
          have hi := ih (data.drop (n + m)) (off + (n + m)) es1 hI1
          refine ⟨hi.1, fun a k h => ?_⟩
          have := hi.2 a k h
          simp only [List.length_drop] at this
          exact ⟨by omega, this.2⟩
        · simp [e, Res.fine]

/-! ### map entries -/

theorem readTagAndLength_le (d : Bytes) (wt : WT) (idx off fl : Nat)
    (h : readTagAndLength d = some (wt, idx, off, fl)) : off + fl ≤ d.length := by
  unfold readTagAndLength readTagRaw at h
  have hle := readVarUint_toNat_le d
  simp only at h
  split at h
  · simp at h
  · split at h
    · cases hr : readU (d.drop (readVarUint d).2.toNat) with
      | none => simp [hr] at h
      | some q =>
        obtain ⟨l, m⟩ := q
        have ⟨_, hml⟩ := readU_le _ l m hr
        simp only [hr] at h
        split at h
        · simp at h
        · rename_i hfl
          injection h with h; injection h with _ h; injection h with _ h; injection h with h1 h2
          simp only [List.length_drop] at hfl hml
          omega
    · injection h with h; injection h with _ h; injection h with _ h; injection h with h1 h2
      simp only [List.length_drop] at h2
      omega

theorem mapLookup_mem (k : Val) : ∀ (es : List (Val × Val)) (v : Val),
    mapLookup k es = some v → ∃ e ∈ es, e.2 = v
  | [], v, h => by simp [mapLookup] at h
  | (k', v') :: r, v, h => by
    simp only [mapLookup] at h
    split at h
    · injection h with h; exact ⟨(k', v'), by simp, h⟩
    · obtain ⟨e, he, hv⟩ := mapLookup_mem k r v h
      exact ⟨e, by simp [he], hv⟩

theorem mapSet_all (P : Val → Prop) (k v : Val) (hv : P v) : ∀ (es : List (Val × Val)),
    (∀ e ∈ es, P e.2) → ∀ e ∈ mapSet k v es, P e.2
  | [], _ => by simp [mapSet, hv]
  | (k', v') :: r, h => by
    simp only [mapSet]
    split
    · intro e he
      rcases List.mem_cons.mp he with h1 | h1
      · subst h1; exact hv
      · exact h e (by simp [h1])
    · intro e he
      rcases List.mem_cons.mp he with h1 | h1
      · subst h1; exact h (k', v') (by simp)
      · exact mapSet_all P k v hv r (fun e he => h e (by simp [he])) e h1

theorem readMapEntry_total (rdK : WT → Bytes → Res (Val × Nat))
    (rdV : WT → Bytes → Val → Res (Val × Nat)) (kz vz : Val) (P : Val → Prop)
    (hK : ∀ wt b, (rdK wt b).fine ∧ ∀ k n, rdK wt b = .ok (k, n) → n ≤ b.length)
    (hV : ∀ wt b s, P s → (rdV wt b s).fine ∧ ∀ v n, rdV wt b s = .ok (v, n) → n ≤ b.length ∧ P v)
    (hvz : P vz) (d : Bytes) (es : List (Val × Val)) (hes : ∀ e ∈ es, P e.2) :
    (readMapEntry rdK rdV kz vz d es).fine ∧
    ∀ es' m, readMapEntry rdK rdV kz vz d es = .ok (es', m) → m ≤ d.length ∧ ∀ e ∈ es', P e.2 := by
  -- the slot the value is read into has the value shape
  have hslot : ∀ k, P ((mapLookup k es).getD vz) := by
    intro k
    cases hl : mapLookup k es with
    | none => simpa using hvz
    | some v =>
      obtain ⟨e, he, hv⟩ := mapLookup_mem k es v hl
      simp only [Option.getD_some]
      rw [← hv]; exact hes e he
  -- the part after the key is known: `k` read, `off ≤ |d|` consumed so far
  have tail : ∀ (wt : WT) (idx fl : Nat) (k : Val) (off off0 : Nat), off ≤ d.length → off0 + fl ≤ d.length →
      (idx ≠ 1 → off = off0) →
      let slot := (mapLookup k es).getD vz
      let r : Res (List (Val × Val) × Nat) :=
        if off < d.length ∨ idx = 2 then
          if idx = 1 then
            match readTagAndLength (d.drop off) with
            | none => .err
            | some (wt2, _, off2, fl2) =>
              (match rdV wt2 ((d.drop (off + off2)).take fl2) slot with
               | .ok (v, n) => .ok (mapSet k v es, (off + off2) + n)
               | .err => .err | .panic => .panic | .hang => .hang)
          else
            (match rdV wt ((d.drop off).take fl) slot with
             | .ok (v, n) => .ok (mapSet k v es, off + n)
             | .err => .err | .panic => .panic | .hang => .hang)
        else .ok (mapSet k vz es, off)
      r.fine ∧ ∀ es' m, r = .ok (es', m) → m ≤ d.length ∧ ∀ e ∈ es', P e.2 := by
    intro wt idx fl k off off0 hoff hfl hidx
    simp only
    split
    · split
      · cases hr : readTagAndLength (d.drop off) with
        | none => simp [Res.fine]
        | some q =>
          obtain ⟨wt2, i2, off2, fl2⟩ := q
          have hle := readTagAndLength_le _ _ _ _ _ hr
          simp only [List.length_drop] at hle
          simp only
          have hg := hV wt2 ((d.drop (off + off2)).take fl2) _ (hslot k)
          rcases fine_cases hg.1 with ⟨⟨v, n⟩, e⟩ | e
          · have ⟨hn, hPv⟩ := hg.2 v n e
            simp only [List.length_take, List.length_drop] at hn
            simp only [e, Res.fine, true_and]
            intro es' m h; injection h with h; injection h with h1 h2
            subst h1; subst h2
            exact ⟨by omega, mapSet_all P k v hPv es hes⟩
          · simp [e, Res.fine]
      · rename_i hi1
        have := hidx hi1; subst this
        have hg := hV wt ((d.drop off).take fl) _ (hslot k)
        rcases fine_cases hg.1 with ⟨⟨v, n⟩, e⟩ | e
        · have ⟨hn, hPv⟩ := hg.2 v n e
          simp only [List.length_take, List.length_drop] at hn
          simp only [e, Res.fine, true_and]
          intro es' m h; injection h with h; injection h with h1 h2
          subst h1; subst h2
          exact ⟨by omega, mapSet_all P k v hPv es hes⟩
        · simp [e, Res.fine]
    · simp only [Res.fine, true_and]
      intro es' m h; injection h with h; injection h with h1 h2
      subst h1; subst h2
      exact ⟨hoff, mapSet_all P k vz hvz es hes⟩
  unfold readMapEntry
  cases hr : readTagAndLength d with
  | none => simp [Res.fine]
  | some q =>
    obtain ⟨wt, idx, off, fl⟩ := q
    have hle := readTagAndLength_le _ _ _ _ _ hr
    simp only
    by_cases hi : idx = 1
    · subst hi
      rw [if_pos rfl]
      have hg := hK wt ((d.drop off).take fl)
      rcases fine_cases hg.1 with ⟨⟨k, n⟩, e⟩ | e
      · have hn := hg.2 k n e
        simp only [List.length_take, List.length_drop] at hn
        simp only [e]
        exact tail wt 1 fl k (off + n) off (by omega) hle (by simp)
      · simp [e, Res.fine]
    · rw [if_neg hi]
      exact tail wt idx fl kz off off (by omega) hle (by simp)

/-! ### time -/

def TimeAcc (acc : List Val) : Prop := ∃ s ns, acc = [.int s, .int ns]

theorem timeField_total (c : Bool) (idx : Nat) (wt : WT) (body : Bytes) (acc : List Val)
    (h : TimeAcc acc) :
    (timeField c idx wt body acc).fine ∧
    ∀ acc' m, timeField c idx wt body acc = .ok (acc', m) → m ≤ body.length ∧ TimeAcc acc' := by
  obtain ⟨s, ns, rfl⟩ := h
  have hle := readVarUint_toNat_le body
  simp only [timeField]
  split
  · split
    · simp [Res.fine]
    · simp only [Res.fine, true_and]
      intro acc' m h; injection h with h; injection h with h1 h2
      subst h1; subst h2
      exact ⟨hle, _, _, rfl⟩
  · split
    · split
      · simp [Res.fine]
      · simp only [Res.fine, true_and]
        intro acc' m h; injection h with h; injection h with h1 h2
        subst h1; subst h2
        exact ⟨hle, _, _, rfl⟩
    · have hs := skip_total body wt
      rcases fine_cases hs.1 with ⟨n, e⟩ | e
      · have := hs.2 n e
        simp only [e, Res.fine, true_and]
        intro acc' m h; injection h with h; injection h with h1 h2
        subst h1; subst h2
        exact ⟨this, _, _, rfl⟩
      · simp [e, Res.fine]

/-! ### struct fields -/

theorem goodField_of (fs : Fields) (hall : ∀ f ∈ fs, Good f.2.2) : GoodField fs := by
  induction fs with
  | nil =>
    intro acc idx wt body _
    simp only [readField]
    have hs := skip_total body wt
    rcases fine_cases hs.1 with ⟨n, e⟩ | e
    · have := hs.2 n e
      simp only [e, Res.fine, true_and]
      intro acc' m h; injection h with h; injection h with h1 h2
      subst h1; subst h2
      exact ⟨this, by simp [ShapeL]⟩
    · simp [e, Res.fine]
  | cons f r ih =>
    obtain ⟨i, nm, t⟩ := f
    intro acc idx wt body hs
    cases acc with
    | nil => simp [ShapeL] at hs
    | cons a as =>
      simp only [ShapeL] at hs
      have hgt : Good t := hall (i, nm, t) (by simp)
      rw [readField]
      by_cases hi : i = idx
      · rw [if_pos hi]
        by_cases hw : wt = .len
        · rw [if_pos hw]
          cases hr : readU body with
          | none => simp [Res.fine]
          | some q =>
            obtain ⟨l, n⟩ := q
            have ⟨hn0, hnl⟩ := readU_le body l n hr
            simp only
            by_cases hgt2 : l > (body.drop n).length
            · rw [if_pos hgt2]; simp [Res.fine]
            · rw [if_neg hgt2]
              have hg := hgt wt ((body.drop n).take l) a hs.1
              rcases fine_cases hg.1 with ⟨⟨v, m⟩, e⟩ | e
              · have ⟨hm, hsv⟩ := hg.2 v m e
                simp only [e, Res.mapFst, Res.addN, Res.fine, true_and]
                intro acc' m' h
                injection h with h; injection h with h1 h2
                subst h1; subst h2
                simp only [List.length_take, List.length_drop] at hm hgt2
                refine ⟨by omega, ?_⟩
                simp only [ShapeL]; exact ⟨hsv, hs.2⟩
              · simp [e, Res.mapFst, Res.addN, Res.fine]
        · rw [if_neg hw]
          have hg := hgt wt body a hs.1
          rcases fine_cases hg.1 with ⟨⟨v, m⟩, e⟩ | e
          · have ⟨hm, hsv⟩ := hg.2 v m e
            simp only [e, Res.mapFst, Res.fine, true_and]
            intro acc' m' h
            injection h with h; injection h with h1 h2
            subst h1; subst h2
            exact ⟨hm, by simp only [ShapeL]; exact ⟨hsv, hs.2⟩⟩
          · simp [e, Res.mapFst, Res.fine]
      · rw [if_neg hi]
        have hgr := ih (fun p hp => hall p (by simp [hp])) as idx wt body hs.2
        rcases fine_cases hgr.1 with ⟨⟨as', m⟩, e⟩ | e
        · have ⟨hm, hsr⟩ := hgr.2 as' m e
          simp only [e, Res.mapFst, Res.fine, true_and]
          intro acc' m' h
          injection h with h; injection h with h1 h2
          subst h1; subst h2
          exact ⟨hm, by simp only [ShapeL]; exact ⟨hs.1, hsr⟩⟩
        · simp [e, Res.mapFst, Res.fine]

/-! ### the only arithmetic precondition: no packed fixed-size slice of a zero-size element -/

mutual
/-- every `WTFixedSliceWrapper` in the tree has an element codec whose
`Size` is not zero (`Read` divides the input length by it). This is all that
totality of `Ty.read` needs from `Ty.wf`. -/
def NoDiv0 : Ty → Prop
  | .ptr t | .vslice t | .lslice t | .pslice t => NoDiv0 t
  | .fslice t => t.size t.zero [] ≠ 0 ∧ NoDiv0 t
  | .struct _ fs => NoDiv0L fs
  | .map k v _ => NoDiv0 k ∧ NoDiv0 v
  | _ => True
def NoDiv0L : Fields → Prop
  | [] => True
  | (_, _, t) :: r => NoDiv0 t ∧ NoDiv0L r
end

mutual
theorem noDiv0_of_wf : (t : Ty) → t.wf → NoDiv0 t
  | .bool | .int _ | .uint _ | .flat _ | .f32 | .f64 | .str _ | .bytes | .time _ => by simp [NoDiv0]
  | .ptr t => by intro h; simp only [Ty.wf] at h; simp only [NoDiv0]; exact noDiv0_of_wf t h.1
  | .vslice t => by intro h; simp only [Ty.wf] at h; simp only [NoDiv0]; exact noDiv0_of_wf t h.1
  | .lslice t => by intro h; simp only [Ty.wf] at h; simp only [NoDiv0]; exact noDiv0_of_wf t h.1
  | .pslice t => by intro h; simp only [Ty.wf] at h; simp only [NoDiv0]; exact noDiv0_of_wf t h.1
  | .fslice t => by
      intro h; simp only [Ty.wf] at h
      rcases h with h | h <;> subst h <;> simp [NoDiv0, Ty.size, Ty.zero]
  | .struct _ fs => by
      intro h; simp only [Ty.wf] at h; simp only [NoDiv0]; exact noDiv0L_of_wf fs h.2.2
  | .map k v _ => by
      intro h; simp only [Ty.wf] at h; simp only [NoDiv0]
      exact ⟨noDiv0_of_wf k h.1, noDiv0_of_wf v h.2.1⟩
theorem noDiv0L_of_wf : (fs : Fields) → fieldsWf fs → NoDiv0L fs
  | [] => by simp [NoDiv0L]
  | (_, _, t) :: r => by
      intro h; simp only [fieldsWf] at h; simp only [NoDiv0L]
      exact ⟨noDiv0_of_wf t h.1, noDiv0L_of_wf r h.2⟩
end

/-! ### the readers -/

/-- the four varint scalars: `readVarUint` then a conversion. -/
theorem varint_arm (d : Bytes) (f : Nat → Val) (Q : Val → Prop) (hQ : ∀ x, Q (f x)) :
    let r : Res (Val × Nat) :=
      if (readVarUint d).2 < 0 then .err else .ok (f (readVarUint d).1, (readVarUint d).2.toNat)
    r.fine ∧ ∀ v n, r = .ok (v, n) → n ≤ d.length ∧ Q v := by
  have hle := readVarUint_toNat_le d
  simp only
  split
  · simp [Res.fine]
  · simp only [Res.fine, true_and]
    intro v n h; injection h with h; injection h with h1 h2
    subst h1; subst h2
    exact ⟨hle, hQ _⟩

/-- lift a `Good` codec to a `GoodRd` reader at a fixed wire type and zero prior. -/
theorem goodRd_of (t : Ty) (h : Good t) (wt : WT) :
    GoodRd (fun b => t.read wt b t.zero) (fun _ => True) := by
  intro b
  have := h wt b t.zero (shape_zero t)
  exact ⟨this.1, fun v n e => ⟨(this.2 v n e).1, trivial⟩⟩

/-! prior normalisation: each wrapper arm first projects the prior value; these
lemmas restate that projection with a definition of this file, so the arms can
be unfolded on a constructor-headed prior. -/

def ptrPrior (t : Ty) : Val → Val
  | .ptr (some x) => x
  | _ => t.zero

def structPrior (fs : Fields) : Val → List Val
  | .struct vs => vs
  | _ => zeros fs

def mapPrior : Val → List (Val × Val)
  | .map (some es) => es
  | _ => []

theorem read_ptr_norm (t : Ty) (wt : WT) (d : Bytes) (p : Val) :
    (Ty.ptr t).read wt d p = (Ty.ptr t).read wt d (.ptr (some (ptrPrior t p))) := by
  cases p with
  | ptr o => cases o <;> simp only [Ty.read, ptrPrior]
  | _ => simp only [Ty.read, ptrPrior]

theorem read_struct_norm (nm : String) (fs : Fields) (wt : WT) (d : Bytes) (p : Val) :
    (Ty.struct nm fs).read wt d p = (Ty.struct nm fs).read wt d (.struct (structPrior fs p)) := by
  cases p <;> simp only [Ty.read, structPrior]

theorem read_pmap_norm (k v : Ty) (wt : WT) (d : Bytes) (p : Val) :
    (Ty.map k v true).read wt d p = (Ty.map k v true).read wt d (.map (some (mapPrior p))) := by
  cases p with
  | map o => cases o <;> simp only [Ty.read, mapPrior]
  | _ => simp only [Ty.read, mapPrior]

theorem read_map_norm (k v : Ty) (wt : WT) (d : Bytes) (p : Val) (hd : d.isEmpty = false) :
    (Ty.map k v false).read wt d p = (Ty.map k v false).read wt d (.map (some (mapPrior p))) := by
  cases p with
  | map o => cases o <;> simp only [Ty.read, mapPrior, hd, Bool.false_eq_true, ↓reduceIte]
  | _ => simp only [Ty.read, mapPrior, hd, Bool.false_eq_true, ↓reduceIte]

theorem ptrPrior_shape (t : Ty) (p : Val) (hp : Shape (.ptr t) p) : Shape t (ptrPrior t p) := by
  unfold ptrPrior
  split
  · simpa [Shape] using hp
  · exact shape_zero t

theorem structPrior_shape (nm : String) (fs : Fields) (p : Val) (hp : Shape (.struct nm fs) p) :
    ShapeL fs (structPrior fs p) := by
  unfold structPrior
  split
  · simpa [Shape] using hp
  · exact shapeL_zeros fs

theorem mapPrior_shape (k v : Ty) (b : Bool) (p : Val) (hp : Shape (.map k v b) p) :
    ∀ e ∈ mapPrior p, Shape v e.2 := by
  unfold mapPrior
  split
  · simpa [Shape] using hp
  · simp

theorem mapEntry_arm (k v : Ty) (hk : Good k) (hv : Good v) (d : Bytes) (es : List (Val × Val))
    (hes : ∀ e ∈ es, Shape v e.2) :
    (readMapEntry (fun wt b => k.read wt b k.zero) (fun wt b s => v.read wt b s) k.zero v.zero d es).fine ∧
    ∀ es' m, readMapEntry (fun wt b => k.read wt b k.zero) (fun wt b s => v.read wt b s) k.zero v.zero d es
        = .ok (es', m) → m ≤ d.length ∧ ∀ e ∈ es', Shape v e.2 :=
  readMapEntry_total _ _ _ _ (Shape v)
    (fun wt b => ⟨(hk wt b k.zero (shape_zero k)).1, fun x n e => ((hk wt b k.zero (shape_zero k)).2 x n e).1⟩)
    (fun wt b s hs => hv wt b s hs) (shape_zero v) d es hes

mutual
theorem good_ty : (t : Ty) → NoDiv0 t → Good t
  | .bool => by
      intro _ wt d p _; simp only [Ty.read]
      exact varint_arm d (fun x => .bool (x != 0)) _ (fun _ => by simp [Shape])
  | .int w => by
      intro _ wt d p _; simp only [Ty.read]
      exact varint_arm d (fun x => .int (wrapS w (zagZig x))) _ (fun _ => by simp [Shape])
  | .uint w => by
      intro _ wt d p _; simp only [Ty.read]
      exact varint_arm d (fun x => .uint (wrapU w x)) _ (fun _ => by simp [Shape])
  | .flat w => by
      intro _ wt d p _; simp only [Ty.read]
      exact varint_arm d (fun x => .int (wrapS w x)) _ (fun _ => by simp [Shape])
  | .f32 => by
      intro _ wt d p _; simp only [Ty.read]
      split
      · split
        · simp only [Res.fine, true_and]
          intro v n h; injection h with h; injection h with h1 h2
          subst h1; subst h2; exact ⟨by omega, by simp [Shape]⟩
        · simp [Res.fine]
      · simp only [Res.fine, true_and]
        intro v n h; injection h with h; injection h with h1 h2
        subst h1; subst h2; exact ⟨by omega, by simp [Shape]⟩
  | .f64 => by
      intro _ wt d p _; simp only [Ty.read]
      split
      · split
        · simp only [Res.fine, true_and]
          intro v n h; injection h with h; injection h with h1 h2
          subst h1; subst h2; exact ⟨by omega, by simp [Shape]⟩
        · simp [Res.fine]
      · simp only [Res.fine, true_and]
        intro v n h; injection h with h; injection h with h1 h2
        subst h1; subst h2; exact ⟨by omega, by simp [Shape]⟩
  | .str _ => by
      intro _ wt d p _; simp only [Ty.read, Res.fine, true_and]
      intro v n h; injection h with h; injection h with h1 h2
      subst h1; subst h2; exact ⟨Nat.le_refl _, by simp [Shape]⟩
  | .bytes => by
      intro _ wt d p _; simp only [Ty.read, Res.fine, true_and]
      intro v n h; injection h with h; injection h with h1 h2
      subst h1; subst h2; exact ⟨Nat.le_refl _, by simp [Shape]⟩
  | .time c => by
      intro _ wt d p _; simp only [Ty.read]
      split
      · simp only [Res.fine, true_and]
        intro v n h; injection h with h; injection h with h1 h2
        subst h1; subst h2; exact ⟨by omega, by simp [Shape]⟩
      · have hl := structLoop_total (timeField c) TimeAcc (timeField_total c)
          (d.length + 1) d 0 [.int 0, .int 0] (by omega) ⟨0, 0, rfl⟩
        rcases fine_cases hl.1 with ⟨⟨acc, n⟩, e⟩ | e
        · obtain ⟨hn, s, ns, rfl⟩ := hl.2 acc n e
          simp only [e, Res.fine, true_and]
          intro v n' h; injection h with h; injection h with h1 h2
          subst h1; subst h2; exact ⟨by omega, by simp [Shape]⟩
        · simp [e, Res.fine]
  | .ptr t => by
      intro hok wt d p hp
      simp only [NoDiv0] at hok
      rw [read_ptr_norm]
      simp only [Ty.read]
      have hg := good_ty t hok wt d _ (ptrPrior_shape t p hp)
      rcases fine_cases hg.1 with ⟨⟨a, n⟩, e⟩ | e
      · have ⟨hn, hs⟩ := hg.2 a n e
        simp only [e, Res.fine, true_and]
        intro v' n' h; injection h with h; injection h with h1 h2
        subst h1; subst h2; exact ⟨hn, by simpa [Shape] using hs⟩
      · simp [e, Res.fine]
  | .vslice t => by
      intro hok wt d p _
      simp only [NoDiv0] at hok
      simp only [Ty.read]
      have hc := countVarints_fine (d.length + 1) d 0 (by omega)
      rcases fine_cases hc with ⟨count, e⟩ | e
      · simp only [e]
        have hr := readN_total _ _ (goodRd_of t (good_ty t hok) .varint) count d
        rcases fine_cases hr.1 with ⟨⟨a, n⟩, e⟩ | e
        · have hn := hr.2 a n e
          simp only [e, Res.fine, true_and]
          intro v' n' h; injection h with h; injection h with h1 h2
          subst h1; subst h2; exact ⟨hn, by simp [Shape]⟩
        · simp [e, Res.fine]
      · simp [e, Res.fine]
  | .fslice t => by
      intro hok wt d p _
      simp only [NoDiv0] at hok
      simp only [Ty.read]
      rw [if_neg hok.1]
      have hr := readN_total _ _ (goodRd_of t (good_ty t hok.2) t.wt) (d.length / t.size t.zero []) d
      rcases fine_cases hr.1 with ⟨⟨a, n⟩, e⟩ | e
      · have hn := hr.2 a n e
        simp only [e, Res.fine, true_and]
        intro v' n' h; injection h with h; injection h with h1 h2
        subst h1; subst h2; exact ⟨hn, by simp [Shape]⟩
      · simp [e, Res.fine]
  | .lslice t => by
      intro hok wt d p _
      simp only [NoDiv0] at hok
      simp only [Ty.read]
      split
      · have hg := good_ty t hok .len d t.zero (shape_zero t)
        rcases fine_cases hg.1 with ⟨⟨a, n⟩, e⟩ | e
        · have ⟨hn, _⟩ := hg.2 a n e
          simp only [e, Res.fine, true_and]
          intro v' n' h; injection h with h; injection h with h1 h2
          subst h1; subst h2; exact ⟨hn, by simp [Shape]⟩
        · simp [e, Res.fine]
      · split
        · simp [Res.fine]
        · have hle := readVarUint_toNat_le d
          split
          · simp [Res.fine]
          · have hr := elemLoop_total _ _ (goodRd_of t (good_ty t hok) .len) (readVarUint d).1
              (d.drop (readVarUint d).2.toNat)
            rcases fine_cases hr.1 with ⟨⟨a, n⟩, e⟩ | e
            · have hn := hr.2 a n e
              simp only [List.length_drop] at hn
              simp only [e, Res.fine, true_and]
              intro v' n' h; injection h with h; injection h with h1 h2
              subst h1; subst h2; exact ⟨by omega, by simp [Shape]⟩
            · simp [e, Res.fine]
  | .pslice t => by
      intro hok wt d p _
      simp only [NoDiv0] at hok
      simp only [Ty.read]
      have hg := good_ty t hok .len d t.zero (shape_zero t)
      rcases fine_cases hg.1 with ⟨⟨a, n⟩, e⟩ | e
      · have ⟨hn, _⟩ := hg.2 a n e
        simp only [e, Res.fine, true_and]
        intro v' n' h; injection h with h; injection h with h1 h2
        subst h1; subst h2; exact ⟨hn, by simp [Shape]⟩
      · simp [e, Res.fine]
  | .struct nm fs => by
      intro hok wt d p hp
      simp only [NoDiv0] at hok
      rw [read_struct_norm]
      simp only [Ty.read]
      have hgf := goodField_of fs (good_fields fs hok)
      have hl := structLoop_total (fun idx wt body acc => readField fs acc idx wt body) (ShapeL fs)
        (fun idx wt body acc h => hgf acc idx wt body h) (d.length + 1) d 0 _ (by omega)
        (structPrior_shape nm fs p hp)
      rcases fine_cases hl.1 with ⟨⟨a, n⟩, e⟩ | e
      · have ⟨hn, hs⟩ := hl.2 a n e
        simp only [e, Res.fine, true_and]
        intro v' n' h; injection h with h; injection h with h1 h2
        subst h1; subst h2; exact ⟨by omega, by simpa [Shape] using hs⟩
      · simp [e, Res.fine]
  | .map k v false => by
      intro hok wt d p hp
      simp only [NoDiv0] at hok
      by_cases hd : d.isEmpty
      · simp only [Ty.read, hd, ↓reduceIte, Res.fine, true_and]
        intro v' n' h; injection h with h; injection h with h1 h2
        subst h1; subst h2; exact ⟨by omega, hp⟩
      · have hd : d.isEmpty = false := by simpa using hd
        rw [read_map_norm k v wt d p hd]
        simp only [Ty.read, hd, Bool.false_eq_true, ↓reduceIte]
        cases hr : readU d with
        | none => simp [Res.fine]
        | some q =>
          obtain ⟨count, n⟩ := q
          have ⟨hn0, hnl⟩ := readU_le d count n hr
          simp only
          split
          · simp [Res.fine]
          · have hl := mapLoop_total _ (fun es => ∀ e ∈ es, Shape v e.2)
              (fun b es h => mapEntry_arm k v (good_ty k hok.1) (good_ty v hok.2) b es h)
              count (d.drop n) n _ (mapPrior_shape k v false p hp)
            rcases fine_cases hl.1 with ⟨⟨a, m⟩, e⟩ | e
            · have ⟨hm, hs⟩ := hl.2 a m e
              simp only [List.length_drop] at hm
              simp only [e, Res.fine, true_and]
              intro v' n' h; injection h with h; injection h with h1 h2
              subst h1; subst h2; exact ⟨by omega, by simpa [Shape] using hs⟩
            · simp [e, Res.fine]
  | .map k v true => by
      intro hok wt d p hp
      simp only [NoDiv0] at hok
      rw [read_pmap_norm]
      simp only [Ty.read]
      have hl := mapEntry_arm k v (good_ty k hok.1) (good_ty v hok.2) d _ (mapPrior_shape k v true p hp)
      rcases fine_cases hl.1 with ⟨⟨a, m⟩, e⟩ | e
      · have ⟨hm, hs⟩ := hl.2 a m e
        simp only [e, Res.fine, true_and]
        intro v' n' h; injection h with h; injection h with h1 h2
        subst h1; subst h2; exact ⟨hm, by simpa [Shape] using hs⟩
      · simp [e, Res.fine]
theorem good_fields : (fs : Fields) → NoDiv0L fs → ∀ f ∈ fs, Good f.2.2
  | [] => by simp
  | (i, nm, t) :: r => by
      intro hok f hf
      simp only [NoDiv0L] at hok
      rcases List.mem_cons.mp hf with h | h
      · subst h; exact good_ty t hok.1
      · exact good_fields r hok.2 f h
end

/-! ### main theorems -/

/-- Totality of `Ty.read` under the weakest hypothesis the proof uses. -/
theorem read_total_of_noDiv0 (t : Ty) (h : NoDiv0 t) : ∀ (wt : WT) (d : Bytes) (p : Val), Shape t p →
    (t.read wt d p).fine ∧ ∀ v n, t.read wt d p = .ok (v, n) → n ≤ d.length ∧ Shape t v :=
  good_ty t h

/-- **C04, codec level.** For every codec tree the builder can produce, every
wire type, EVERY byte string and every well-shaped prior value: `Read` returns a
value or an error (no panic, no hang), reports at most `|d|` bytes consumed, and
the value is again well-shaped. -/
theorem read_total (t : Ty) (hwf : t.wf) : ∀ (wt : WT) (d : Bytes) (p : Val), Shape t p →
    (t.read wt d p).fine ∧ ∀ v n, t.read wt d p = .ok (v, n) → n ≤ d.length ∧ Shape t v :=
  good_ty t (noDiv0_of_wf t hwf)

/-- `Unmarshal` into any well-shaped target. -/
theorem unmarshal_total_of_shape (t : Ty) (hwf : t.wf) (d : Bytes) (p : Val) (hp : Shape t p) :
    (unmarshal t d p).fine ∧ ∀ v, unmarshal t d p = .ok v → Shape t v := by
  have h := read_total t hwf t.wt d p hp
  unfold unmarshal
  rcases fine_cases h.1 with ⟨⟨v, n⟩, e⟩ | e
  · have := (h.2 v n e).2
    simp only [e, Res.fine, true_and]
    intro v' h; injection h with h; subst h; exact this
  · simp [e, Res.fine]

/-- `Unmarshal` into a fresh (zero) target. -/
theorem unmarshal_total (t : Ty) (hwf : t.wf) (d : Bytes) : (unmarshal t d t.zero).fine :=
  (unmarshal_total_of_shape t hwf d t.zero (shape_zero t)).1

end Total


namespace Total

/-! ## Stretch (a): a steps bound

`stepsAt lvl t wt d p` counts the loop-body executions at loop-nesting depth
`lvl` during `t.read wt d p`: the loops are `structLoop` (struct and time),
`countVarints`, `readN`, `elemLoop`, `mapLoop` and the `WTSlice` loop of `Skip`.
The counters follow the run of the reader itself (the next state of a loop is
the one the reader computes), they do not look at the fuel except to stop where
the reader stops, and the bounds below hold for every fuel: they come from the
progress of the loops (every iteration consumes at least one byte), not from the
fuel.  Pointers and the protobuf "one element" forms are not loops and do not
open a level. -/

/-- weight of one loop iteration when looking at level `lvl`. -/
def lvlW (lvl : Nat) : Nat := if lvl = 0 then 1 else 0
/-- cost of what runs inside a loop body when looking at level `lvl`. -/
def below (lvl : Nat) (f : Nat → Nat) : Nat := match lvl with | 0 => 0 | l+1 => f l

theorem lvlW_le (lvl : Nat) : lvlW lvl ≤ 1 := by unfold lvlW; split <;> omega

/-! ### counters for the loop combinators -/

def structLoopSum (rd : Nat → WT → Bytes → List Val → Res (List Val × Nat)) (w : Nat)
    (c : Nat → WT → Bytes → List Val → Nat) : (fuel : Nat) → Bytes → List Val → Nat
  | 0, _, _ => 0
  | fuel+1, data, acc =>
    if data.isEmpty then 0 else
    match readTag data with
    | none => w
    | some (wt, idx, n) =>
      w + c idx wt (data.drop n) acc +
      match rd idx wt (data.drop n) acc with
      | .ok (acc', m) => structLoopSum rd w c fuel (data.drop (n + m)) acc'
      | _ => 0

def countIters : (fuel : Nat) → Bytes → Nat
  | 0, _ => 0
  | fuel+1, data =>
    if data.isEmpty then 0 else
    match readU data with
    | none => 1
    | some (_, n) => 1 + countIters fuel (data.drop n)

def readNSum (rd : Bytes → Res (Val × Nat)) (w : Nat) (c : Bytes → Nat) : (count : Nat) → Bytes → Nat
  | 0, _ => 0
  | k+1, data =>
    w + c data +
    match rd data with
    | .ok (_, m) => readNSum rd w c k (data.drop m)
    | _ => 0

def elemLoopSum (rd : Bytes → Res (Val × Nat)) (w : Nat) (c : Bytes → Nat) : (count : Nat) → Bytes → Nat
  | 0, _ => 0
  | k+1, data =>
    match readU data with
    | none => w
    | some (s, n) =>
      if s > (data.drop n).length then w else
      w + c ((data.drop n).take s) +
      match rd ((data.drop n).take s) with
      | .ok (_, m) => elemLoopSum rd w c k (data.drop (n + m))
      | _ => 0

def mapLoopSum (rdE : Bytes → List (Val × Val) → Res (List (Val × Val) × Nat)) (w : Nat)
    (c : Bytes → List (Val × Val) → Nat) : (count : Nat) → Bytes → List (Val × Val) → Nat
  | 0, _, _ => 0
  | k+1, data, es =>
    match readU data with
    | none => w
    | some (el, n) =>
      if el > (data.drop n).length then w else
      w + c ((data.drop n).take el) es +
      match rdE ((data.drop n).take el) es with
      | .ok (es', m) => mapLoopSum rdE w c k (data.drop (n + m)) es'
      | _ => 0

def skipEntriesIters : (fuel : Nat) → (count : Nat) → Bytes → (offset : Nat) → Nat
  | 0, _, _, _ => 0
  | fuel+1, count, d, offset =>
    if count = 0 then 0 else
    if offset ≥ d.length then 1 else
    match readU (d.drop offset) with
    | none => 1
    | some (l, n) =>
      if l > d.length - offset - n then 1
      else 1 + skipEntriesIters fuel (count - 1) d (offset + (l + n))

/-- iterations of the `WTSlice` loop of `Skip` (the other arms have no
data-dependent loop beyond the ≤ 10 byte varint scan). -/
def skipIters (d : Bytes) (wt : WT) : Nat :=
  match wt with
  | .slice =>
    (match readU d with
     | none => 0
     | some (count, n) => skipEntriesIters (d.length + 1) count d n)
  | _ => 0

/-- the cost inside one map entry: mirrors `readMapEntry`. -/
def entryCost (rdK : WT → Bytes → Res (Val × Nat)) (cK : WT → Bytes → Nat)
    (cV : WT → Bytes → Val → Nat) (kz vz : Val) (d : Bytes) (es : List (Val × Val)) : Nat :=
  match readTagAndLength d with
  | none => 0
  | some (wt, idx, off, fl) =>
    if idx = 1 then
      cK wt ((d.drop off).take fl) +
      (match rdK wt ((d.drop off).take fl) with
       | .ok (k, n) =>
         if off + n < d.length then
           (match readTagAndLength (d.drop (off + n)) with
            | none => 0
            | some (wt2, _, off2, fl2) =>
              cV wt2 ((d.drop (off + n + off2)).take fl2) ((mapLookup k es).getD vz))
         else 0
       | _ => 0)
    else
      if off < d.length ∨ idx = 2 then cV wt ((d.drop off).take fl) ((mapLookup kz es).getD vz) else 0

/-- cost inside a time field body: only an unknown field runs a loop (`Skip`). -/
def timeFieldCost (lvl : Nat) (idx : Nat) (wt : WT) (body : Bytes) : Nat :=
  if idx = 1 ∨ idx = 2 then 0 else if lvl = 0 then skipIters body wt else 0

mutual
def stepsAt : Nat → Ty → WT → Bytes → Val → Nat
  | lvl, .time c, _, d, _ =>
      if d.isEmpty then 0 else
      structLoopSum (timeField c) (lvlW lvl)
        (fun idx wt body _ => below lvl (fun l => timeFieldCost l idx wt body))
        (d.length + 1) d [.int 0, .int 0]
  | lvl, .ptr t, wt, d, p => stepsAt lvl t wt d (ptrPrior t p)
  | lvl, .vslice t, _, d, _ =>
      (if lvl = 0 then countIters (d.length + 1) d else 0) +
      (match countVarints (d.length + 1) d 0 with
       | .ok count =>
         readNSum (fun b => t.read .varint b t.zero) (lvlW lvl)
           (fun b => below lvl (fun l => stepsAt l t .varint b t.zero)) count d
       | _ => 0)
  | lvl, .fslice t, _, d, _ =>
      readNSum (fun b => t.read t.wt b t.zero) (lvlW lvl)
        (fun b => below lvl (fun l => stepsAt l t t.wt b t.zero)) (d.length / t.size t.zero []) d
  | lvl, .lslice t, wt, d, _ =>
      if wt = .len then stepsAt lvl t .len d t.zero else
      if (readVarUint d).2 < 0 then 0 else
      if (readVarUint d).1 > d.length - (readVarUint d).2.toNat then 0 else
      elemLoopSum (fun b => t.read .len b t.zero) (lvlW lvl)
        (fun b => below lvl (fun l => stepsAt l t .len b t.zero))
        (readVarUint d).1 (d.drop (readVarUint d).2.toNat)
  | lvl, .pslice t, _, d, _ => stepsAt lvl t .len d t.zero
  | lvl, .struct _ fs, _, d, p =>
      structLoopSum (fun idx wt body acc => readField fs acc idx wt body) (lvlW lvl)
        (fun idx wt body acc => below lvl (fun l => fieldStepsAt l fs acc idx wt body))
        (d.length + 1) d (structPrior fs p)
  | lvl, .map k v false, _, d, p =>
      if d.isEmpty then 0 else
      match readU d with
      | none => 0
      | some (count, n) =>
        if count > d.length - n then 0 else
        mapLoopSum (readMapEntry (fun wt b => k.read wt b k.zero) (fun wt b s => v.read wt b s) k.zero v.zero)
          (lvlW lvl)
          (fun b es => below lvl (fun l =>
            entryCost (fun wt b => k.read wt b k.zero) (fun wt b => stepsAt l k wt b k.zero)
              (fun wt b s => stepsAt l v wt b s) k.zero v.zero b es))
          count (d.drop n) (mapPrior p)
  | lvl, .map k v true, _, d, p =>
      entryCost (fun wt b => k.read wt b k.zero) (fun wt b => stepsAt lvl k wt b k.zero)
        (fun wt b s => stepsAt lvl v wt b s) k.zero v.zero d (mapPrior p)
  | _, _, _, _, _ => 0
/-- cost inside one struct field body: mirrors `readField`. -/
def fieldStepsAt : Nat → Fields → List Val → Nat → WT → Bytes → Nat
  | lvl, [], _, _, wt, body => if lvl = 0 then skipIters body wt else 0
  | lvl, (i, _, t) :: r, a :: as, idx, wt, body =>
      if i = idx then
        if wt = .len then
          match readU body with
          | none => 0
          | some (l, n) =>
            if l > (body.drop n).length then 0 else stepsAt lvl t wt ((body.drop n).take l) a
        else stepsAt lvl t wt body a
      else fieldStepsAt lvl r as idx wt body
  | _, _ :: _, [], _, _, _ => 0
end

/-! ### bounds for the loop counters (any fuel) -/

/-- a struct loop that returns has consumed all its input. -/
theorem structLoop_ok_all (rd : Nat → WT → Bytes → List Val → Res (List Val × Nat))
    (I : List Val → Prop)
    (hrd : ∀ idx wt body acc, I acc →
      ∀ acc' m, rd idx wt body acc = .ok (acc', m) → m ≤ body.length ∧ I acc') :
    ∀ fuel data off acc, I acc → ∀ acc' n,
      structLoop rd fuel data off acc = .ok (acc', n) → n = off + data.length := by
  intro fuel
  induction fuel with
  | zero => intro data off acc _ acc' n h; simp [structLoop] at h
  | succ f ih =>
    intro data off acc hI acc' n h
    rw [structLoop] at h
    by_cases hd : data.isEmpty
    · simp only [hd, ↓reduceIte] at h
      injection h with h; injection h with h1 h2
      have : data.length = 0 := by simpa using hd
      omega
    · simp only [hd] at h
      unfold readTag at h
      cases hr : readU data with
      | none => simp [hr] at h
      | some q =>
        obtain ⟨tag, k⟩ := q
        have ⟨hk0, hkl⟩ := readU_le data tag k hr
        simp only [hr] at h
        cases hrd' : rd (tag / 8) (WT.ofCode (tag % 8)) (data.drop k) acc with
        | ok r =>
          obtain ⟨acc1, m⟩ := r
          have ⟨hm, hI1⟩ := hrd _ _ _ _ hI acc1 m hrd'
          simp only [List.length_drop] at hm
          simp only [hrd'] at h
          have := ih _ _ _ hI1 acc' n h
          simp only [List.length_drop] at this
          omega
        | err => simp [hrd'] at h
        | panic => simp [hrd'] at h
        | hang => simp [hrd'] at h

theorem structLoopSum_le (rd : Nat → WT → Bytes → List Val → Res (List Val × Nat)) (w : Nat)
    (c : Nat → WT → Bytes → List Val → Nat) (I : List Val → Prop) (hw : w ≤ 1)
    (h : ∀ idx wt body acc, I acc → c idx wt body acc ≤ 2 * body.length ∧
      ∀ acc' m, rd idx wt body acc = .ok (acc', m) →
        m ≤ body.length ∧ I acc' ∧ c idx wt body acc ≤ 2 * m) :
    ∀ fuel data acc, I acc → structLoopSum rd w c fuel data acc ≤ 2 * data.length := by
  intro fuel
  induction fuel with
  | zero => intro data acc _; simp [structLoopSum]
  | succ f ih =>
    intro data acc hI
    rw [structLoopSum]
    by_cases hd : data.isEmpty
    · simp [hd]
    · have hpos : 0 < data.length := by
        cases data with
        | nil => simp at hd
        | cons _ _ => simp
      simp only [hd, Bool.false_eq_true, ↓reduceIte]
      unfold readTag
      cases hr : readU data with
      | none => simp only; omega
      | some q =>
        obtain ⟨tag, k⟩ := q
        have ⟨hk0, hkl⟩ := readU_le data tag k hr
        simp only
        have hc := h (tag / 8) (WT.ofCode (tag % 8)) (data.drop k) acc hI
        simp only [List.length_drop] at hc
        cases hrd' : rd (tag / 8) (WT.ofCode (tag % 8)) (data.drop k) acc with
        | ok r =>
          obtain ⟨acc1, m⟩ := r
          have ⟨hm, hI1, hcm⟩ := hc.2 acc1 m hrd'
          have := ih (data.drop (k + m)) acc1 hI1
          simp only [List.length_drop] at this
          simp only
          omega
        | err => simp only; omega
        | panic => simp only; omega
        | hang => simp only; omega

theorem countIters_le : ∀ fuel data, countIters fuel data ≤ data.length := by
  intro fuel
  induction fuel with
  | zero => intro data; simp [countIters]
  | succ f ih =>
    intro data
    rw [countIters]
    by_cases hd : data.isEmpty
    · simp [hd]
    · have hpos : 0 < data.length := by
        cases data with
        | nil => simp at hd
        | cons _ _ => simp
      simp only [hd, Bool.false_eq_true, ↓reduceIte]
      cases hr : readU data with
      | none => simp only; omega
      | some q =>
        obtain ⟨x, n⟩ := q
        have ⟨hn0, hnl⟩ := readU_le data x n hr
        have := ih (data.drop n)
        simp only [List.length_drop] at this
        simp only
        omega

/-- a reader that, on data starting with a valid varint, consumes exactly it. -/
def VarintLike (rd : Bytes → Res (Val × Nat)) : Prop :=
  ∀ b x n, readU b = some (x, n) → ∃ v, rd b = .ok (v, n)

/-- the count pass succeeded: the data is `k` valid varints back to back, so the
read pass over `k` varint elements consumes exactly the data. -/
theorem countVarints_exact : ∀ fuel data c c', countVarints fuel data c = .ok c' →
    ∃ k, c' = c + k ∧ k ≤ data.length ∧
      ∀ rd, VarintLike rd → ∃ vs, readN rd k data = .ok (vs, data.length) := by
  intro fuel
  induction fuel with
  | zero => intro data c c' h; simp [countVarints] at h
  | succ f ih =>
    intro data c c' h
    rw [countVarints] at h
    by_cases hd : data.isEmpty
    · simp only [hd, ↓reduceIte] at h
      injection h with h
      have : data.length = 0 := by simpa using hd
      exact ⟨0, by omega, by omega, fun rd _ => ⟨[], by simp [readN, this]⟩⟩
    · simp only [hd] at h
      cases hr : readU data with
      | none => simp [hr] at h
      | some q =>
        obtain ⟨x, n⟩ := q
        have ⟨hn0, hnl⟩ := readU_le data x n hr
        simp only [hr] at h
        obtain ⟨k, hk, hkl, hrn⟩ := ih _ _ _ h
        simp only [List.length_drop] at hkl hrn
        refine ⟨k + 1, by omega, by omega, fun rd hvl => ?_⟩
        obtain ⟨v, hv⟩ := hvl data x n hr
        obtain ⟨vs, hvs⟩ := hrn rd hvl
        refine ⟨v :: vs, ?_⟩
        rw [readN]
        simp only [hv, hvs]
        congr 2; omega

/-- nested level of a counted read loop: the inner costs add up to the input. -/
theorem readNSum_nested (rd : Bytes → Res (Val × Nat)) (c : Bytes → Nat)
    (h : ∀ b, c b ≤ 2 * b.length ∧ ∀ v m, rd b = .ok (v, m) → m ≤ b.length ∧ c b ≤ 2 * m) :
    ∀ k data, readNSum rd 0 c k data ≤ 2 * data.length ∧
      ∀ vs n, readN rd k data = .ok (vs, n) → readNSum rd 0 c k data ≤ 2 * n := by
  intro k
  induction k with
  | zero => intro data; simp [readNSum]
  | succ k ih =>
    intro data
    rw [readNSum, readN]
    have hc := h data
    cases hrd : rd data with
    | ok r =>
      obtain ⟨v, m⟩ := r
      have ⟨hm, hcm⟩ := hc.2 v m hrd
      have hi := ih (data.drop m)
      simp only [List.length_drop] at hi
      simp only
      refine ⟨by omega, fun vs n hn => ?_⟩
      cases hrn : readN rd k (data.drop m) with
      | ok r2 =>
        obtain ⟨vs2, n2⟩ := r2
        simp only [hrn] at hn
        injection hn with hn; injection hn with h1 h2
        have := hi.2 vs2 n2 hrn
        omega
      | err => simp [hrn] at hn
      | panic => simp [hrn] at hn
      | hang => simp [hrn] at hn
    | err => simp only [Nat.add_zero, Nat.zero_add]; exact ⟨hc.1, fun _ _ hn => by simp at hn⟩
    | panic => simp only [Nat.add_zero, Nat.zero_add]; exact ⟨hc.1, fun _ _ hn => by simp at hn⟩
    | hang => simp only [Nat.add_zero, Nat.zero_add]; exact ⟨hc.1, fun _ _ hn => by simp at hn⟩

/-- top level of a counted read loop: at most `count` iterations. -/
theorem readNSum_iters (rd : Bytes → Res (Val × Nat)) :
    ∀ k data, readNSum rd 1 (fun _ => 0) k data ≤ k := by
  intro k
  induction k with
  | zero => intro data; simp [readNSum]
  | succ k ih =>
    intro data
    rw [readNSum]
    cases hrd : rd data with
    | ok r => obtain ⟨v, m⟩ := r; have := ih (data.drop m); simp only; omega
    | err => simp only; omega
    | panic => simp only; omega
    | hang => simp only; omega

theorem elemLoopSum_le (rd : Bytes → Res (Val × Nat)) (w : Nat) (c : Bytes → Nat) (hw : w ≤ 1)
    (h : ∀ b, c b ≤ 2 * b.length ∧ ∀ v m, rd b = .ok (v, m) → m ≤ b.length ∧ c b ≤ 2 * m) :
    ∀ k data, (0 < k → 0 < data.length) → elemLoopSum rd w c k data ≤ 2 * data.length ∧
      ∀ vs n, elemLoop rd k data = .ok (vs, n) → elemLoopSum rd w c k data ≤ 2 * n := by
  intro k
  induction k with
  | zero => intro data _; simp [elemLoopSum]
  | succ k ih =>
    intro data hpos
    have hpos := hpos (by omega)
    rw [elemLoopSum, elemLoop]
    cases hr : readU data with
    | none => simp only; exact ⟨by omega, fun _ _ hn => by simp at hn⟩
    | some q =>
      obtain ⟨s, n⟩ := q
      have ⟨hn0, hnl⟩ := readU_le data s n hr
      simp only
      by_cases hs : s > (data.drop n).length
      · rw [if_pos hs, if_pos hs]; exact ⟨by omega, fun _ _ hn => by simp at hn⟩
      · rw [if_neg hs, if_neg hs]
        have hc := h ((data.drop n).take s)
        simp only [List.length_take, List.length_drop] at hc hs
        cases hrd : rd ((data.drop n).take s) with
        | ok r =>
          obtain ⟨v, m⟩ := r
          have ⟨hm, hcm⟩ := hc.2 v m hrd
          simp only
          -- the remaining count is positive only if there is data left? not needed: use the weak bound
          by_cases hk : 0 < k → 0 < (data.drop (n + m)).length
          · have hi := ih (data.drop (n + m)) hk
            simp only [List.length_drop] at hi
            refine ⟨by omega, fun vs n' hn => ?_⟩
            cases hrn : elemLoop rd k (data.drop (n + m)) with
            | ok r2 =>
              obtain ⟨vs2, n2⟩ := r2
              simp only [hrn] at hn
              injection hn with hn; injection hn with h1 h2
              have := hi.2 vs2 n2 hrn
              omega
            | err => simp [hrn] at hn
            | panic => simp [hrn] at hn
            | hang => simp [hrn] at hn
          · -- count left but no data left: the next iteration fails on its length varint
            have hk0 : 0 < k := by
              rcases Nat.eq_zero_or_pos k with h0 | h0
              · exact absurd (fun h => absurd h (by omega)) hk
              · exact h0
            have hlen : (data.drop (n + m)).length = 0 := by
              rcases Nat.eq_zero_or_pos (data.drop (n + m)).length with h0 | h0
              · exact h0
              · exact absurd (fun _ => h0) hk
            have hnil : data.drop (n + m) = [] := List.length_eq_zero_iff.mp hlen
            obtain ⟨k', rfl⟩ : ∃ k', k = k' + 1 := ⟨k - 1, by omega⟩
            rw [hnil]
            simp only [elemLoopSum, elemLoop, readU_nil]
            exact ⟨by omega, fun _ _ hn => by simp at hn⟩
        | err => simp only; exact ⟨by omega, fun _ _ hn => by simp at hn⟩
        | panic => simp only; exact ⟨by omega, fun _ _ hn => by simp at hn⟩
        | hang => simp only; exact ⟨by omega, fun _ _ hn => by simp at hn⟩

theorem mapLoopSum_le (rdE : Bytes → List (Val × Val) → Res (List (Val × Val) × Nat)) (w : Nat)
    (c : Bytes → List (Val × Val) → Nat) (I : List (Val × Val) → Prop) (hw : w ≤ 1)
    (h : ∀ b es, I es → c b es ≤ 2 * b.length ∧
      ∀ es' m, rdE b es = .ok (es', m) → m ≤ b.length ∧ I es' ∧ c b es ≤ 2 * m) :
    ∀ k data off es, I es → (0 < k → 0 < data.length) →
      mapLoopSum rdE w c k data es ≤ 2 * data.length ∧
      ∀ es' n, mapLoop rdE k data off es = .ok (es', n) → mapLoopSum rdE w c k data es + 2 * off ≤ 2 * n := by
  intro k
  induction k with
  | zero =>
    intro data off es _ _
    simp only [mapLoopSum, mapLoop, Nat.zero_le, true_and]
    intro es' n hn; injection hn with hn; injection hn with h1 h2; omega
  | succ k ih =>
    intro data off es hI hpos
    have hpos := hpos (by omega)
    rw [mapLoopSum, mapLoop]
    cases hr : readU data with
    | none => simp only; exact ⟨by omega, fun _ _ hn => by simp at hn⟩
    | some q =>
      obtain ⟨s, n⟩ := q
      have ⟨hn0, hnl⟩ := readU_le data s n hr
      simp only
      by_cases hs : s > (data.drop n).length
      · rw [if_pos hs, if_pos hs]; exact ⟨by omega, fun _ _ hn => by simp at hn⟩
      · rw [if_neg hs, if_neg hs]
        have hc := h ((data.drop n).take s) es hI
        simp only [List.length_take, List.length_drop] at hc hs
        cases hrd : rdE ((data.drop n).take s) es with
        | ok r =>
          obtain ⟨es1, m⟩ := r
          have ⟨hm, hI1, hcm⟩ := hc.2 es1 m hrd
          simp only
          by_cases hk : 0 < k → 0 < (data.drop (n + m)).length
          · have hi := ih (data.drop (n + m)) (off + (n + m)) es1 hI1 hk
            simp only [List.length_drop] at hi
            refine ⟨by omega, fun es' n' hn => ?_⟩
            have := hi.2 es' n' hn
            omega
          · have hk0 : 0 < k := by
              rcases Nat.eq_zero_or_pos k with h0 | h0
              · exact absurd (fun h => absurd h (by omega)) hk
              · exact h0
            have hlen : (data.drop (n + m)).length = 0 := by
              rcases Nat.eq_zero_or_pos (data.drop (n + m)).length with h0 | h0
              · exact h0
              · exact absurd (fun _ => h0) hk
            have hnil : data.drop (n + m) = [] := List.length_eq_zero_iff.mp hlen
            obtain ⟨k', rfl⟩ : ∃ k', k = k' + 1 := ⟨k - 1, by omega⟩
            rw [hnil]
            simp only [mapLoopSum, mapLoop, readU_nil]
            exact ⟨by omega, fun _ _ hn => by simp at hn⟩
        | err => simp only; exact ⟨by omega, fun _ _ hn => by simp at hn⟩
        | panic => simp only; exact ⟨by omega, fun _ _ hn => by simp at hn⟩
        | hang => simp only; exact ⟨by omega, fun _ _ hn => by simp at hn⟩

theorem skipEntriesIters_le (d : Bytes) : ∀ fuel count offset, offset ≤ d.length →
    skipEntriesIters fuel count d offset ≤ d.length - offset + 1 ∧
    ∀ r, skipEntries fuel count d offset = .ok r → skipEntriesIters fuel count d offset + offset ≤ r := by
  intro fuel
  induction fuel with
  | zero => intro count offset _; simp [skipEntriesIters, skipEntries]
  | succ f ih =>
    intro count offset ho
    rw [skipEntriesIters, skipEntries]
    by_cases hc : count = 0
    · simp only [hc, ↓reduceIte, Nat.zero_le, true_and]
      intro r hr; injection hr with hr; omega
    · simp only [hc, ↓reduceIte]
      by_cases hge : offset ≥ d.length
      · simp only [hge, ↓reduceIte]; exact ⟨by omega, fun _ hr => by simp at hr⟩
      · simp only [hge, ↓reduceIte]
        cases hr : readU (d.drop offset) with
        | none => simp only; exact ⟨by omega, fun _ hr => by simp at hr⟩
        | some q =>
          obtain ⟨l, n⟩ := q
          have ⟨hn0, hnl⟩ := readU_le _ l n hr
          simp only [List.length_drop] at hnl
          simp only
          by_cases hl : l > d.length - offset - n
          · simp only [hl, ↓reduceIte]; exact ⟨by omega, fun _ hr => by simp at hr⟩
          · simp only [hl, ↓reduceIte]
            have hi := ih (count - 1) (offset + (l + n)) (by omega)
            refine ⟨by omega, fun r hr => ?_⟩
            have := hi.2 r hr
            omega

theorem skipIters_le (d : Bytes) (wt : WT) :
    skipIters d wt ≤ 2 * d.length ∧ ∀ n, skip d wt = .ok n → skipIters d wt ≤ 2 * n := by
  cases wt <;> simp only [skipIters, skip, Nat.zero_le, implies_true, and_self]
  cases hr : readU d with
  | none => simp
  | some q =>
    obtain ⟨c, n⟩ := q
    have ⟨hn0, hnl⟩ := readU_le d c n hr
    have := skipEntriesIters_le d (d.length + 1) c n hnl
    simp only
    exact ⟨by omega, fun r hr => by have := this.2 r hr; omega⟩

theorem entryCost_le (rdK : WT → Bytes → Res (Val × Nat)) (cK : WT → Bytes → Nat)
    (rdV : WT → Bytes → Val → Res (Val × Nat)) (cV : WT → Bytes → Val → Nat)
    (kz vz : Val) (P : Val → Prop)
    (hK : ∀ wt b, cK wt b ≤ 2 * b.length ∧
      ∀ k n, rdK wt b = .ok (k, n) → n ≤ b.length ∧ cK wt b ≤ 2 * n)
    (hV : ∀ wt b s, P s → cV wt b s ≤ 2 * b.length ∧
      ∀ v n, rdV wt b s = .ok (v, n) → cV wt b s ≤ 2 * n)
    (hvz : P vz) (d : Bytes) (es : List (Val × Val)) (hes : ∀ e ∈ es, P e.2) :
    entryCost rdK cK cV kz vz d es ≤ 2 * d.length ∧
    ∀ es' m, readMapEntry rdK rdV kz vz d es = .ok (es', m) → entryCost rdK cK cV kz vz d es ≤ 2 * m := by
  have hslot : ∀ k, P ((mapLookup k es).getD vz) := by
    intro k
    cases hl : mapLookup k es with
    | none => simpa using hvz
    | some v =>
      obtain ⟨e, he, hv⟩ := mapLookup_mem k es v hl
      simp only [Option.getD_some]
      rw [← hv]; exact hes e he
  unfold entryCost readMapEntry
  cases hr : readTagAndLength d with
  | none => simp
  | some q =>
    obtain ⟨wt, idx, off, fl⟩ := q
    have hle := readTagAndLength_le _ _ _ _ _ hr
    simp only
    by_cases hi : idx = 1
    · subst hi
      simp only [↓reduceIte]
      have hk := hK wt ((d.drop off).take fl)
      simp only [List.length_take, List.length_drop] at hk
      cases hrk : rdK wt ((d.drop off).take fl) with
      | ok r =>
        obtain ⟨k, n⟩ := r
        have ⟨hn, hck⟩ := hk.2 k n hrk
        simp only [Nat.reduceEqDiff, or_false]
        by_cases hlt : off + n < d.length
        · simp only [hlt, ↓reduceIte]
          cases hr2 : readTagAndLength (d.drop (off + n)) with
          | none => simp only; exact ⟨by omega, fun _ _ h => by simp at h⟩
          | some q2 =>
            obtain ⟨wt2, i2, off2, fl2⟩ := q2
            have hle2 := readTagAndLength_le _ _ _ _ _ hr2
            simp only [List.length_drop] at hle2
            simp only
            have hv := hV wt2 ((d.drop (off + n + off2)).take fl2) _ (hslot k)
            simp only [List.length_take, List.length_drop] at hv
            refine ⟨by omega, fun es' m h => ?_⟩
            cases hrv : rdV wt2 ((d.drop (off + n + off2)).take fl2) ((mapLookup k es).getD vz) with
            | ok r2 =>
              obtain ⟨v, nv⟩ := r2
              have := hv.2 v nv hrv
              simp only [hrv] at h
              injection h with h; injection h with h1 h2
              omega
            | err => simp [hrv] at h
            | panic => simp [hrv] at h
            | hang => simp [hrv] at h
        · simp only [hlt, ↓reduceIte, Nat.add_zero]
          refine ⟨by omega, fun es' m h => ?_⟩
          injection h with h; injection h with h1 h2
          omega
      | err => simp only [Nat.add_zero]; exact ⟨by omega, fun _ _ h => by simp at h⟩
      | panic => simp only [Nat.add_zero]; exact ⟨by omega, fun _ _ h => by simp at h⟩
      | hang => simp only [Nat.add_zero]; exact ⟨by omega, fun _ _ h => by simp at h⟩
    · simp only [hi, ↓reduceIte]
      by_cases hc : off < d.length ∨ idx = 2
      · simp only [hc, ↓reduceIte]
        have hv := hV wt ((d.drop off).take fl) _ (hslot kz)
        simp only [List.length_take, List.length_drop] at hv
        refine ⟨by omega, fun es' m h => ?_⟩
        cases hrv : rdV wt ((d.drop off).take fl) ((mapLookup kz es).getD vz) with
        | ok r2 =>
          obtain ⟨v, nv⟩ := r2
          have := hv.2 v nv hrv
          simp only [hrv] at h
          injection h with h; injection h with h1 h2
          omega
        | err => simp [hrv] at h
        | panic => simp [hrv] at h
        | hang => simp [hrv] at h
      · simp only [hc, ↓reduceIte, Nat.zero_le, true_and]
        intro _ _ _; trivial

/-! ### the readers -/

theorem below_le (lvl : Nat) (f : Nat → Nat) (B : Nat) (h : ∀ l, f l ≤ B) : below lvl f ≤ B := by
  cases lvl with
  | zero => simp [below]
  | succ l => simpa [below] using h l

def StepsGood (t : Ty) : Prop :=
  ∀ lvl wt d p, Shape t p →
    stepsAt lvl t wt d p ≤ 2 * d.length ∧
    ∀ v n, t.read wt d p = .ok (v, n) → stepsAt lvl t wt d p ≤ 2 * n

def StepsField (fs : Fields) : Prop :=
  ∀ lvl acc idx wt body, ShapeL fs acc →
    fieldStepsAt lvl fs acc idx wt body ≤ 2 * body.length ∧
    ∀ acc' m, readField fs acc idx wt body = .ok (acc', m) → fieldStepsAt lvl fs acc idx wt body ≤ 2 * m

theorem timeFieldCost_le (c : Bool) (lvl idx : Nat) (wt : WT) (body : Bytes) (acc : List Val)
    (hacc : TimeAcc acc) :
    below lvl (fun l => timeFieldCost l idx wt body) ≤ 2 * body.length ∧
    ∀ acc' m, timeField c idx wt body acc = .ok (acc', m) →
      below lvl (fun l => timeFieldCost l idx wt body) ≤ 2 * m := by
  obtain ⟨s, ns, rfl⟩ := hacc
  have hs := skipIters_le body wt
  constructor
  · apply below_le
    intro l; unfold timeFieldCost
    split
    · omega
    · split
      · exact hs.1
      · omega
  · intro acc' m h
    apply below_le
    intro l; unfold timeFieldCost
    split
    · omega
    · rename_i hidx
      split
      · simp only [timeField] at h
        have h1 : ¬ idx = 1 := fun e => hidx (.inl e)
        have h2 : ¬ idx = 2 := fun e => hidx (.inr e)
        simp only [h1, h2, ↓reduceIte] at h
        cases hsk : skip body wt with
        | ok n =>
          simp only [hsk] at h
          injection h with h; injection h with _ h
          subst h; exact hs.2 n hsk
        | err => simp [hsk] at h
        | panic => simp [hsk] at h
        | hang => simp [hsk] at h
      · omega

theorem stepsField_of (fs : Fields) (hall : ∀ f ∈ fs, StepsGood f.2.2) : StepsField fs := by
  induction fs with
  | nil =>
    intro lvl acc idx wt body _
    simp only [fieldStepsAt, readField]
    have hs := skipIters_le body wt
    split
    · refine ⟨hs.1, fun acc' m h => ?_⟩
      cases hsk : skip body wt with
      | ok n =>
        simp only [hsk] at h
        injection h with h; injection h with _ h
        subst h; exact hs.2 n hsk
      | err => simp [hsk] at h
      | panic => simp [hsk] at h
      | hang => simp [hsk] at h
    · exact ⟨by omega, fun _ _ _ => by omega⟩
  | cons f r ih =>
    obtain ⟨i, nm, t⟩ := f
    intro lvl acc idx wt body hs
    cases acc with
    | nil => simp [ShapeL] at hs
    | cons a as =>
      simp only [ShapeL] at hs
      have hgt : StepsGood t := hall (i, nm, t) (by simp)
      rw [fieldStepsAt, readField]
      by_cases hi : i = idx
      · rw [if_pos hi, if_pos hi]
        by_cases hw : wt = .len
        · rw [if_pos hw, if_pos hw]
          cases hr : readU body with
          | none => simp
          | some q =>
            obtain ⟨l, n⟩ := q
            have ⟨hn0, hnl⟩ := readU_le body l n hr
            simp only
            by_cases hgt2 : l > (body.drop n).length
            · rw [if_pos hgt2, if_pos hgt2]; simp
            · rw [if_neg hgt2, if_neg hgt2]
              have hg := hgt lvl wt ((body.drop n).take l) a hs.1
              simp only [List.length_take, List.length_drop] at hg hgt2
              refine ⟨by omega, fun acc' m h => ?_⟩
              cases hrd : t.read wt ((body.drop n).take l) a with
              | ok r2 =>
                obtain ⟨v, m'⟩ := r2
                have := hg.2 v m' hrd
                simp only [hrd, Res.mapFst, Res.addN] at h
                injection h with h; injection h with _ h
                omega
              | err => simp [hrd, Res.mapFst, Res.addN] at h
              | panic => simp [hrd, Res.mapFst, Res.addN] at h
              | hang => simp [hrd, Res.mapFst, Res.addN] at h
        · rw [if_neg hw, if_neg hw]
          have hg := hgt lvl wt body a hs.1
          refine ⟨hg.1, fun acc' m h => ?_⟩
          cases hrd : t.read wt body a with
          | ok r2 =>
            obtain ⟨v, m'⟩ := r2
            have := hg.2 v m' hrd
            simp only [hrd, Res.mapFst] at h
            injection h with h; injection h with _ h
            omega
          | err => simp [hrd, Res.mapFst] at h
          | panic => simp [hrd, Res.mapFst] at h
          | hang => simp [hrd, Res.mapFst] at h
      · rw [if_neg hi, if_neg hi]
        have hgr := ih (fun p hp => hall p (by simp [hp])) lvl as idx wt body hs.2
        refine ⟨hgr.1, fun acc' m h => ?_⟩
        cases hrr : readField r as idx wt body with
        | ok r2 =>
          obtain ⟨as', m'⟩ := r2
          have := hgr.2 as' m' hrr
          simp only [hrr, Res.mapFst] at h
          injection h with h; injection h with _ h
          omega
        | err => simp [hrr, Res.mapFst] at h
        | panic => simp [hrr, Res.mapFst] at h
        | hang => simp [hrr, Res.mapFst] at h

/-- varint-wire codecs (bool, the integers, pointers to them) consume exactly
the varint at the head of their input. -/
theorem varintLike_of : (t : Ty) → t.wt = .varint → ∀ wt p, VarintLike (fun b => t.read wt b p)
  | .bool, _, wt, p => by
      intro b x n h
      unfold readU at h; split at h
      · simp at h
      · rename_i hpos
        injection h with h; injection h with h1 h2
        have : ¬ (readVarUint b).2 < 0 := by omega
        simp only [Ty.read, this, ↓reduceIte, h2]; exact ⟨_, rfl⟩
  | .int w, _, wt, p => by
      intro b x n h
      unfold readU at h; split at h
      · simp at h
      · rename_i hpos
        injection h with h; injection h with h1 h2
        have : ¬ (readVarUint b).2 < 0 := by omega
        simp only [Ty.read, this, ↓reduceIte, h2]; exact ⟨_, rfl⟩
  | .uint w, _, wt, p => by
      intro b x n h
      unfold readU at h; split at h
      · simp at h
      · rename_i hpos
        injection h with h; injection h with h1 h2
        have : ¬ (readVarUint b).2 < 0 := by omega
        simp only [Ty.read, this, ↓reduceIte, h2]; exact ⟨_, rfl⟩
  | .flat w, _, wt, p => by
      intro b x n h
      unfold readU at h; split at h
      · simp at h
      · rename_i hpos
        injection h with h; injection h with h1 h2
        have : ¬ (readVarUint b).2 < 0 := by omega
        simp only [Ty.read, this, ↓reduceIte, h2]; exact ⟨_, rfl⟩
  | .ptr t, hw, wt, p => by
      intro b x n h
      simp only [Ty.wt] at hw
      obtain ⟨v, hv⟩ := varintLike_of t hw wt (ptrPrior t p) b x n h
      simp only at hv
      refine ⟨.ptr (some v), ?_⟩
      simp only
      rw [read_ptr_norm]
      simp only [Ty.read, hv]
  | .f32, hw, _, _ | .f64, hw, _, _ | .str _, hw, _, _ | .bytes, hw, _, _ | .time _, hw, _, _
  | .vslice _, hw, _, _ | .fslice _, hw, _, _ | .lslice _, hw, _, _ | .pslice _, hw, _, _
  | .struct _ _, hw, _, _ | .map _ _ false, hw, _, _ | .map _ _ true, hw, _, _ => by
      simp [Ty.wt] at hw

/-- fixed-width element readers: with `sz` bytes available, exactly `sz` are consumed. -/
def FixedLike (sz : Nat) (rd : Bytes → Res (Val × Nat)) : Prop :=
  ∀ b, sz ≤ b.length → ∃ v, rd b = .ok (v, sz)

theorem readN_fixed (sz : Nat) (rd : Bytes → Res (Val × Nat)) (h : FixedLike sz rd) :
    ∀ k data, sz * k ≤ data.length → ∃ vs, readN rd k data = .ok (vs, sz * k) := by
  intro k
  induction k with
  | zero => intro data _; exact ⟨[], by simp [readN]⟩
  | succ k ih =>
    intro data hl
    rw [Nat.mul_succ] at hl ⊢
    obtain ⟨v, hv⟩ := h data (by omega)
    obtain ⟨vs, hvs⟩ := ih (data.drop sz) (by simp only [List.length_drop]; omega)
    refine ⟨v :: vs, ?_⟩
    rw [readN]
    simp only [hv, hvs]
    congr 2; omega

theorem fixedLike_f32 (wt : WT) (p : Val) : FixedLike 4 (fun b => Ty.f32.read wt b p) := by
  intro b hb
  have : ¬ b.length < 4 := by omega
  simp only [Ty.read, this, ↓reduceIte]; exact ⟨_, rfl⟩

theorem fixedLike_f64 (wt : WT) (p : Val) : FixedLike 8 (fun b => Ty.f64.read wt b p) := by
  intro b hb
  have : ¬ b.length < 8 := by omega
  simp only [Ty.read, this, ↓reduceIte]; exact ⟨_, rfl⟩

/-- the `m ≤ |b|` half of `Good`, for a reader at fixed wire type and zero prior. -/
theorem read_le_of_good (t : Ty) (hg : Good t) (wt : WT) (b : Bytes) (p : Val) (hp : Shape t p) :
    ∀ v m, t.read wt b p = .ok (v, m) → m ≤ b.length :=
  fun v m h => ((hg wt b p hp).2 v m h).1

mutual
theorem steps_ty : (t : Ty) → t.wf → StepsGood t
  | .bool | .int _ | .uint _ | .flat _ | .f32 | .f64 | .str _ | .bytes => by
      intro _ lvl wt d p _; simp [stepsAt]
  | .time c => by
      intro _ lvl wt d p _
      simp only [stepsAt]
      by_cases hd : d.isEmpty
      · simp [hd]
      · have hd : d.isEmpty = false := by simpa using hd
        simp only [hd, Bool.false_eq_true, ↓reduceIte]
        have hA := structLoopSum_le (timeField c) (lvlW lvl)
          (fun idx wt body _ => below lvl (fun l => timeFieldCost l idx wt body)) TimeAcc (lvlW_le lvl)
          (fun idx wt body acc hacc =>
            ⟨(timeFieldCost_le c lvl idx wt body acc hacc).1, fun acc' m h =>
              ⟨((timeField_total c idx wt body acc hacc).2 acc' m h).1,
               ((timeField_total c idx wt body acc hacc).2 acc' m h).2,
               (timeFieldCost_le c lvl idx wt body acc hacc).2 acc' m h⟩⟩)
          (d.length + 1) d [.int 0, .int 0] ⟨0, 0, rfl⟩
        refine ⟨hA, fun v n h => ?_⟩
        simp only [Ty.read, hd, Bool.false_eq_true, ↓reduceIte] at h
        have hall := structLoop_ok_all (timeField c) TimeAcc
          (fun idx wt body acc hacc => (timeField_total c idx wt body acc hacc).2)
          (d.length + 1) d 0 [.int 0, .int 0] ⟨0, 0, rfl⟩
        split at h
        · rename_i s ns n' heq
          injection h with h; injection h with _ h
          have := hall _ _ heq
          omega
        · simp at h
        · simp at h
        · simp at h
        · simp at h
  | .ptr t => by
      intro hwf lvl wt d p hp
      simp only [Ty.wf] at hwf
      simp only [stepsAt]
      have hg := steps_ty t hwf.1 lvl wt d (ptrPrior t p) (ptrPrior_shape t p hp)
      refine ⟨hg.1, fun v n h => ?_⟩
      rw [read_ptr_norm] at h
      simp only [Ty.read] at h
      split at h
      · rename_i v' n' heq
        injection h with h; injection h with _ h
        subst h; exact hg.2 v' n' heq
      · simp at h
      · simp at h
      · simp at h
  | .vslice t => by
      intro hwf lvl wt d p _
      simp only [Ty.wf] at hwf
      have hgood : Good t := read_total t hwf.1
      have hst := steps_ty t hwf.1
      have hci := countIters_le (d.length + 1) d
      simp only [stepsAt]
      cases hcv : countVarints (d.length + 1) d 0 with
      | ok count =>
        obtain ⟨k, hk, hkl, hex⟩ := countVarints_exact _ _ _ _ hcv
        obtain ⟨vs, hvs⟩ := hex _ (varintLike_of t hwf.2.1 .varint t.zero)
        have hk : count = k := by omega
        subst hk
        simp only
        cases lvl with
        | zero =>
          have := readNSum_iters (fun b => t.read .varint b t.zero) count d
          simp only [↓reduceIte, lvlW, below]
          refine ⟨by omega, fun v n h => ?_⟩
          simp only [Ty.read, hcv, hvs] at h
          injection h with h; injection h with _ h
          omega
        | succ l =>
          have hn := readNSum_nested (fun b => t.read .varint b t.zero)
            (fun b => stepsAt l t .varint b t.zero)
            (fun b => ⟨(hst l .varint b t.zero (shape_zero t)).1, fun v m h =>
              ⟨read_le_of_good t hgood .varint b t.zero (shape_zero t) v m h,
               (hst l .varint b t.zero (shape_zero t)).2 v m h⟩⟩) count d
          simp only [Nat.succ_ne_zero, ↓reduceIte, lvlW, below, Nat.zero_add]
          refine ⟨hn.1, fun v n h => ?_⟩
          simp only [Ty.read, hcv, hvs] at h
          injection h with h; injection h with _ h
          have := hn.2 vs d.length hvs
          omega
      | err =>
        simp only [Nat.add_zero]
        refine ⟨by split <;> omega, fun v n h => ?_⟩
        simp [Ty.read, hcv] at h
      | panic =>
        simp only [Nat.add_zero]
        refine ⟨by split <;> omega, fun v n h => ?_⟩
        simp [Ty.read, hcv] at h
      | hang =>
        simp only [Nat.add_zero]
        refine ⟨by split <;> omega, fun v n h => ?_⟩
        simp [Ty.read, hcv] at h
  | .fslice t => by
      intro hwf lvl wt d p _
      simp only [Ty.wf] at hwf
      have htwf : t.wf := by rcases hwf with h | h <;> subst h <;> simp [Ty.wf]
      have hgood : Good t := read_total t htwf
      have hst := steps_ty t htwf
      -- the element size and exactness of the element reader
      have hfix : ∃ sz, 0 < sz ∧ t.size t.zero [] = sz ∧ FixedLike sz (fun b => t.read t.wt b t.zero) := by
        rcases hwf with h | h <;> subst h
        · exact ⟨4, by omega, by simp [Ty.size, Ty.zero], fixedLike_f32 _ _⟩
        · exact ⟨8, by omega, by simp [Ty.size, Ty.zero], fixedLike_f64 _ _⟩
      obtain ⟨sz, hsz0, hsz, hfl⟩ := hfix
      simp only [stepsAt, hsz]
      have hdiv : sz * (d.length / sz) ≤ d.length := Nat.mul_div_le _ _
      have hcnt : d.length / sz ≤ sz * (d.length / sz) := Nat.le_mul_of_pos_left _ hsz0
      obtain ⟨vs, hvs⟩ := readN_fixed sz _ hfl (d.length / sz) d hdiv
      have hne : ¬ sz = 0 := by omega
      cases lvl with
      | zero =>
        have := readNSum_iters (fun b => t.read t.wt b t.zero) (d.length / sz) d
        simp only [lvlW, ↓reduceIte, below]
        refine ⟨by omega, fun v n h => ?_⟩
        simp only [Ty.read, hsz, hne, ↓reduceIte, hvs] at h
        injection h with h; injection h with _ h
        omega
      | succ l =>
        have hn := readNSum_nested (fun b => t.read t.wt b t.zero)
          (fun b => stepsAt l t t.wt b t.zero)
          (fun b => ⟨(hst l t.wt b t.zero (shape_zero t)).1, fun v m h =>
            ⟨read_le_of_good t hgood t.wt b t.zero (shape_zero t) v m h,
             (hst l t.wt b t.zero (shape_zero t)).2 v m h⟩⟩) (d.length / sz) d
        simp only [lvlW, Nat.succ_ne_zero, ↓reduceIte, below]
        refine ⟨hn.1, fun v n h => ?_⟩
        simp only [Ty.read, hsz, hne, ↓reduceIte, hvs] at h
        injection h with h; injection h with _ h
        have := hn.2 vs _ hvs
        omega
  | .lslice t => by
      intro hwf lvl wt d p _
      simp only [Ty.wf] at hwf
      have hgood : Good t := read_total t hwf.1
      have hst := steps_ty t hwf.1
      simp only [stepsAt]
      by_cases hw : wt = .len
      · simp only [hw, ↓reduceIte]
        have hg := hst lvl .len d t.zero (shape_zero t)
        refine ⟨hg.1, fun v n h => ?_⟩
        simp only [Ty.read, ↓reduceIte] at h
        split at h
        · rename_i v' n' heq
          injection h with h; injection h with _ h
          subst h; exact hg.2 v' n' heq
        · simp at h
        · simp at h
        · simp at h
      · simp only [hw, ↓reduceIte]
        have hle := readVarUint_toNat_le d
        by_cases h1 : (readVarUint d).2 < 0
        · simp only [h1, ↓reduceIte, Nat.zero_le, true_and]
          intro v n h; simp [Ty.read, hw, h1] at h
        · simp only [h1, ↓reduceIte]
          by_cases h2 : (readVarUint d).1 > d.length - (readVarUint d).2.toNat
          · simp only [h2, ↓reduceIte, Nat.zero_le, true_and]
            intro v n h; simp [Ty.read, hw, h1, h2] at h
          · simp only [h2, ↓reduceIte]
            have hl := elemLoopSum_le (fun b => t.read .len b t.zero) (lvlW lvl)
              (fun b => below lvl (fun l => stepsAt l t .len b t.zero)) (lvlW_le lvl)
              (fun b => ⟨below_le _ _ _ (fun l => (hst l .len b t.zero (shape_zero t)).1), fun v m h =>
                ⟨read_le_of_good t hgood .len b t.zero (shape_zero t) v m h,
                 below_le _ _ _ (fun l => (hst l .len b t.zero (shape_zero t)).2 v m h)⟩⟩)
              (readVarUint d).1 (d.drop (readVarUint d).2.toNat)
              (by simp only [List.length_drop]; omega)
            simp only [List.length_drop] at hl
            refine ⟨by omega, fun v n h => ?_⟩
            simp only [Ty.read, hw, h1, h2, ↓reduceIte] at h
            split at h
            · rename_i vs k heq
              injection h with h; injection h with _ h
              have := hl.2 vs k heq
              omega
            · simp at h
            · simp at h
            · simp at h
  | .pslice t => by
      intro hwf lvl wt d p _
      simp only [Ty.wf] at hwf
      simp only [stepsAt]
      have hg := steps_ty t hwf.1 lvl .len d t.zero (shape_zero t)
      refine ⟨hg.1, fun v n h => ?_⟩
      simp only [Ty.read] at h
      split at h
      · rename_i v' n' heq
        injection h with h; injection h with _ h
        subst h; exact hg.2 v' n' heq
      · simp at h
      · simp at h
      · simp at h
  | .struct nm fs => by
      intro hwf lvl wt d p hp
      simp only [Ty.wf] at hwf
      have hnd : NoDiv0L fs := noDiv0L_of_wf fs hwf.2.2
      have hgf := goodField_of fs (good_fields fs hnd)
      have hsf := stepsField_of fs (steps_fields fs hwf.2.2)
      simp only [stepsAt]
      have hA := structLoopSum_le (fun idx wt body acc => readField fs acc idx wt body) (lvlW lvl)
        (fun idx wt body acc => below lvl (fun l => fieldStepsAt l fs acc idx wt body)) (ShapeL fs)
        (lvlW_le lvl)
        (fun idx wt body acc hacc =>
          ⟨below_le _ _ _ (fun l => (hsf l acc idx wt body hacc).1), fun acc' m h =>
            ⟨((hgf acc idx wt body hacc).2 acc' m h).1, ((hgf acc idx wt body hacc).2 acc' m h).2,
             below_le _ _ _ (fun l => (hsf l acc idx wt body hacc).2 acc' m h)⟩⟩)
        (d.length + 1) d (structPrior fs p) (structPrior_shape nm fs p hp)
      refine ⟨hA, fun v n h => ?_⟩
      rw [read_struct_norm] at h
      simp only [Ty.read] at h
      have hall := structLoop_ok_all (fun idx wt body acc => readField fs acc idx wt body) (ShapeL fs)
        (fun idx wt body acc hacc => (hgf acc idx wt body hacc).2)
        (d.length + 1) d 0 (structPrior fs p) (structPrior_shape nm fs p hp)
      split at h
      · rename_i vs n' heq
        injection h with h; injection h with _ h
        have := hall _ _ heq
        omega
      · simp at h
      · simp at h
      · simp at h
  | .map k v false => by
      intro hwf lvl wt d p hp
      simp only [Ty.wf] at hwf
      have hgk : Good k := read_total k hwf.1
      have hgv : Good v := read_total v hwf.2.1
      have hsk := steps_ty k hwf.1
      have hsv := steps_ty v hwf.2.1
      simp only [stepsAt]
      by_cases hd : d.isEmpty
      · simp [hd]
      · have hd : d.isEmpty = false := by simpa using hd
        simp only [hd, Bool.false_eq_true, ↓reduceIte]
        cases hr : readU d with
        | none => simp
        | some q =>
          obtain ⟨count, n⟩ := q
          have ⟨hn0, hnl⟩ := readU_le d count n hr
          simp only
          by_cases hc : count > d.length - n
          · simp only [hc, ↓reduceIte, Nat.zero_le, true_and]
            intro v' n' h
            rw [read_map_norm k v wt d p hd] at h
            simp [Ty.read, hd, hr, hc] at h
          · simp only [hc, ↓reduceIte]
            have hl := mapLoopSum_le
              (readMapEntry (fun wt b => k.read wt b k.zero) (fun wt b s => v.read wt b s) k.zero v.zero)
              (lvlW lvl)
              (fun b es => below lvl (fun l =>
                entryCost (fun wt b => k.read wt b k.zero) (fun wt b => stepsAt l k wt b k.zero)
                  (fun wt b s => stepsAt l v wt b s) k.zero v.zero b es))
              (fun es => ∀ e ∈ es, Shape v e.2) (lvlW_le lvl)
              (fun b es hes =>
                ⟨below_le _ _ _ (fun l => (entryCost_le _ _ (fun wt b s => v.read wt b s) _ k.zero v.zero (Shape v)
                    (fun wt b => ⟨(hsk l wt b k.zero (shape_zero k)).1, fun x m h =>
                      ⟨read_le_of_good k hgk wt b k.zero (shape_zero k) x m h,
                       (hsk l wt b k.zero (shape_zero k)).2 x m h⟩⟩)
                    (fun wt b s hs => hsv l wt b s hs) (shape_zero v) b es hes).1),
                 fun es' m h =>
                  ⟨((mapEntry_arm k v hgk hgv b es hes).2 es' m h).1,
                   ((mapEntry_arm k v hgk hgv b es hes).2 es' m h).2,
                   below_le _ _ _ (fun l => (entryCost_le _ _ (fun wt b s => v.read wt b s) _ k.zero v.zero (Shape v)
                    (fun wt b => ⟨(hsk l wt b k.zero (shape_zero k)).1, fun x m h =>
                      ⟨read_le_of_good k hgk wt b k.zero (shape_zero k) x m h,
                       (hsk l wt b k.zero (shape_zero k)).2 x m h⟩⟩)
                    (fun wt b s hs => hsv l wt b s hs) (shape_zero v) b es hes).2 es' m h)⟩⟩)
              count (d.drop n) n (mapPrior p) (mapPrior_shape k v false p hp)
              (by simp only [List.length_drop]; omega)
            simp only [List.length_drop] at hl
            refine ⟨by omega, fun v' n' h => ?_⟩
            rw [read_map_norm k v wt d p hd] at h
            simp only [Ty.read, hd, Bool.false_eq_true, ↓reduceIte, hr, hc] at h
            split at h
            · rename_i es' off heq
              injection h with h; injection h with _ h
              have := hl.2 es' off heq
              omega
            · simp at h
            · simp at h
            · simp at h
  | .map k v true => by
      intro hwf lvl wt d p hp
      simp only [Ty.wf] at hwf
      have hgk : Good k := read_total k hwf.1
      have hsk := steps_ty k hwf.1
      have hsv := steps_ty v hwf.2.1
      simp only [stepsAt]
      have he := entryCost_le (fun wt b => k.read wt b k.zero) (fun wt b => stepsAt lvl k wt b k.zero)
        (fun wt b s => v.read wt b s) (fun wt b s => stepsAt lvl v wt b s) k.zero v.zero (Shape v)
        (fun wt b => ⟨(hsk lvl wt b k.zero (shape_zero k)).1, fun x m h =>
          ⟨read_le_of_good k hgk wt b k.zero (shape_zero k) x m h,
           (hsk lvl wt b k.zero (shape_zero k)).2 x m h⟩⟩)
        (fun wt b s hs => hsv lvl wt b s hs) (shape_zero v) d (mapPrior p) (mapPrior_shape k v true p hp)
      refine ⟨he.1, fun v' n' h => ?_⟩
      rw [read_pmap_norm] at h
      simp only [Ty.read] at h
      split at h
      · rename_i es' m heq
        injection h with h; injection h with _ h
        subst h; exact he.2 es' m heq
      · simp at h
      · simp at h
      · simp at h
theorem steps_fields : (fs : Fields) → fieldsWf fs → ∀ f ∈ fs, StepsGood f.2.2
  | [] => by simp
  | (i, nm, t) :: r => by
      intro hwf f hf
      simp only [fieldsWf] at hwf
      rcases List.mem_cons.mp hf with h | h
      · subst h; exact steps_ty t hwf.1
      · exact steps_fields r hwf.2 f h
end

/-! ### all levels: the loop depth of a codec tree, and the total -/

mutual
/-- number of loop-nesting levels `t.read` can open. -/
def loopDepth : Ty → Nat
  | .time _ => 2                                    -- field loop, `Skip`'s loop inside it
  | .ptr t | .pslice t => loopDepth t
  | .vslice t | .fslice t | .lslice t => 1 + loopDepth t
  | .struct _ fs => 1 + fieldsLoopDepth fs
  | .map k v false => 1 + max (loopDepth k) (loopDepth v)
  | .map k v true => max (loopDepth k) (loopDepth v)
  | _ => 0
def fieldsLoopDepth : Fields → Nat
  | [] => 1                                         -- `Skip`'s loop for an unknown field
  | (_, _, t) :: r => max (loopDepth t) (fieldsLoopDepth r)
end

theorem structLoopSum_zero (rd : Nat → WT → Bytes → List Val → Res (List Val × Nat))
    (c : Nat → WT → Bytes → List Val → Nat) (hc : ∀ idx wt body acc, c idx wt body acc = 0) :
    ∀ fuel data acc, structLoopSum rd 0 c fuel data acc = 0 := by
  intro fuel
  induction fuel with
  | zero => intro data acc; simp [structLoopSum]
  | succ f ih =>
    intro data acc
    rw [structLoopSum]
    split
    · rfl
    · split
      · rfl
      · simp only [hc, Nat.zero_add]
        split
        · exact ih _ _
        · rfl

theorem readNSum_zero (rd : Bytes → Res (Val × Nat)) (c : Bytes → Nat) (hc : ∀ b, c b = 0) :
    ∀ k data, readNSum rd 0 c k data = 0 := by
  intro k
  induction k with
  | zero => intro data; simp [readNSum]
  | succ k ih =>
    intro data
    rw [readNSum]
    simp only [hc, Nat.zero_add]
    split
    · exact ih _
    · rfl

theorem elemLoopSum_zero (rd : Bytes → Res (Val × Nat)) (c : Bytes → Nat) (hc : ∀ b, c b = 0) :
    ∀ k data, elemLoopSum rd 0 c k data = 0 := by
  intro k
  induction k with
  | zero => intro data; simp [elemLoopSum]
  | succ k ih =>
    intro data
    rw [elemLoopSum]
    split
    · rfl
    · split
      · rfl
      · simp only [hc, Nat.zero_add]
        split
        · exact ih _
        · rfl

theorem mapLoopSum_zero (rdE : Bytes → List (Val × Val) → Res (List (Val × Val) × Nat))
    (c : Bytes → List (Val × Val) → Nat) (hc : ∀ b es, c b es = 0) :
    ∀ k data es, mapLoopSum rdE 0 c k data es = 0 := by
  intro k
  induction k with
  | zero => intro data es; simp [mapLoopSum]
  | succ k ih =>
    intro data es
    rw [mapLoopSum]
    split
    · rfl
    · split
      · rfl
      · simp only [hc, Nat.zero_add]
        split
        · exact ih _ _
        · rfl

theorem entryCost_zero (rdK : WT → Bytes → Res (Val × Nat)) (cK : WT → Bytes → Nat)
    (cV : WT → Bytes → Val → Nat) (kz vz : Val) (hK : ∀ wt b, cK wt b = 0) (hV : ∀ wt b s, cV wt b s = 0)
    (d : Bytes) (es : List (Val × Val)) : entryCost rdK cK cV kz vz d es = 0 := by
  unfold entryCost
  simp only [hK, hV, Nat.zero_add, ite_self]
  split
  · rfl
  · split
    · split
      · split
        · split <;> rfl
        · rfl
      · rfl
    · rfl

theorem lvlW_pos (lvl : Nat) (h : 0 < lvl) : lvlW lvl = 0 := by
  unfold lvlW; split <;> omega

theorem below_zero (lvl : Nat) (f : Nat → Nat) (h : ∀ l, l + 1 = lvl → f l = 0) : below lvl f = 0 := by
  cases lvl with
  | zero => rfl
  | succ l => exact h l rfl

mutual
/-- no loop runs deeper than `loopDepth t`. -/
theorem stepsAt_deep : (t : Ty) → ∀ lvl, loopDepth t ≤ lvl → ∀ wt d p, stepsAt lvl t wt d p = 0
  | .bool | .int _ | .uint _ | .flat _ | .f32 | .f64 | .str _ | .bytes => by
      intro lvl _ wt d p; simp [stepsAt]
  | .time c => by
      intro lvl h wt d p
      simp only [loopDepth] at h
      simp only [stepsAt]
      split
      · rfl
      · rw [lvlW_pos lvl (by omega)]
        apply structLoopSum_zero
        intro idx wt body acc
        apply below_zero
        intro l hl
        unfold timeFieldCost
        have : ¬ l = 0 := by omega
        simp [this]
  | .ptr t => by
      intro lvl h wt d p
      simp only [loopDepth] at h
      simp only [stepsAt]
      exact stepsAt_deep t lvl h _ _ _
  | .pslice t => by
      intro lvl h wt d p
      simp only [loopDepth] at h
      simp only [stepsAt]
      exact stepsAt_deep t lvl h _ _ _
  | .vslice t => by
      intro lvl h wt d p
      simp only [loopDepth] at h
      simp only [stepsAt]
      have : ¬ lvl = 0 := by omega
      rw [lvlW_pos lvl (by omega)]
      simp only [this, ↓reduceIte, Nat.zero_add]
      split
      · apply readNSum_zero
        intro b; apply below_zero
        intro l hl; exact stepsAt_deep t l (by omega) _ _ _
      · rfl
  | .fslice t => by
      intro lvl h wt d p
      simp only [loopDepth] at h
      simp only [stepsAt]
      rw [lvlW_pos lvl (by omega)]
      apply readNSum_zero
      intro b; apply below_zero
      intro l hl; exact stepsAt_deep t l (by omega) _ _ _
  | .lslice t => by
      intro lvl h wt d p
      simp only [loopDepth] at h
      simp only [stepsAt]
      rw [lvlW_pos lvl (by omega)]
      split
      · exact stepsAt_deep t lvl (by omega) _ _ _
      · split
        · rfl
        · split
          · rfl
          · apply elemLoopSum_zero
            intro b; apply below_zero
            intro l hl; exact stepsAt_deep t l (by omega) _ _ _
  | .struct _ fs => by
      intro lvl h wt d p
      simp only [loopDepth] at h
      simp only [stepsAt]
      rw [lvlW_pos lvl (by omega)]
      apply structLoopSum_zero
      intro idx wt body acc
      apply below_zero
      intro l hl; exact fieldStepsAt_deep fs l (by omega) _ _ _ _
  | .map k v false => by
      intro lvl h wt d p
      simp only [loopDepth] at h
      simp only [stepsAt]
      rw [lvlW_pos lvl (by omega)]
      split
      · rfl
      · split
        · rfl
        · split
          · rfl
          · apply mapLoopSum_zero
            intro b es; apply below_zero
            intro l hl
            apply entryCost_zero
            · intro wt b; exact stepsAt_deep k l (by omega) _ _ _
            · intro wt b s; exact stepsAt_deep v l (by omega) _ _ _
  | .map k v true => by
      intro lvl h wt d p
      simp only [loopDepth] at h
      simp only [stepsAt]
      apply entryCost_zero
      · intro wt b; exact stepsAt_deep k lvl (by omega) _ _ _
      · intro wt b s; exact stepsAt_deep v lvl (by omega) _ _ _
theorem fieldStepsAt_deep : (fs : Fields) → ∀ lvl, fieldsLoopDepth fs ≤ lvl →
    ∀ acc idx wt body, fieldStepsAt lvl fs acc idx wt body = 0
  | [] => by
      intro lvl h acc idx wt body
      simp only [fieldsLoopDepth] at h
      have : ¬ lvl = 0 := by omega
      simp [fieldStepsAt, this]
  | (i, nm, t) :: r => by
      intro lvl h acc idx wt body
      simp only [fieldsLoopDepth] at h
      cases acc with
      | nil => simp [fieldStepsAt]
      | cons a as =>
        rw [fieldStepsAt]
        split
        · split
          · split
            · rfl
            · split
              · rfl
              · exact stepsAt_deep t lvl (by omega) _ _ _
          · exact stepsAt_deep t lvl (by omega) _ _ _
        · exact fieldStepsAt_deep r lvl (by omega) _ _ _ _
end

/-- `f 0 + … + f (k-1)`. -/
def sumBelow (f : Nat → Nat) : Nat → Nat
  | 0 => 0
  | k+1 => sumBelow f k + f k

theorem sumBelow_le (f : Nat → Nat) (B : Nat) (h : ∀ l, f l ≤ B) : ∀ k, sumBelow f k ≤ k * B := by
  intro k
  induction k with
  | zero => simp [sumBelow]
  | succ k ih =>
    rw [sumBelow, Nat.succ_mul]
    exact Nat.add_le_add ih (h k)

/-- all loop-body executions during `t.read wt d p`, over all nesting levels. -/
def steps (t : Ty) (wt : WT) (d : Bytes) (p : Val) : Nat :=
  sumBelow (fun lvl => stepsAt lvl t wt d p) (loopDepth t)

/-- **steps bound, per level**: at every loop-nesting level the number of
loop-body executions is at most twice the input length (`2·` because the packed
varint slice makes two passes), and at most twice the bytes consumed when the
read succeeds. -/
theorem stepsAt_le (t : Ty) (hwf : t.wf) (lvl : Nat) (wt : WT) (d : Bytes) (p : Val) (hp : Shape t p) :
    stepsAt lvl t wt d p ≤ 2 * d.length ∧
    ∀ v n, t.read wt d p = .ok (v, n) → stepsAt lvl t wt d p ≤ 2 * n :=
  steps_ty t hwf lvl wt d p hp

/-- **steps bound, total**: linear in the input, the constant depends on the
codec tree only. -/
theorem steps_le (t : Ty) (hwf : t.wf) (wt : WT) (d : Bytes) (p : Val) (hp : Shape t p) :
    steps t wt d p ≤ loopDepth t * (2 * d.length) :=
  sumBelow_le _ _ (fun lvl => (stepsAt_le t hwf lvl wt d p hp).1) _

end Total


namespace Total

/-! ## Stretch (b): an allocation bound

`allocAt lvl t wt d p` counts what `t.read wt d p` creates at container-nesting
depth `lvl` of the target value, following plenccodec: slice elements
(`unsafe_NewArray(count)` in the three counted slice readers, one element in the
protobuf "append" readers), map entries (`MakeMapWithSize(count)`, one
`mapassign` in the protobuf form), bytes of strings / `[]byte` (`string(data)`,
`append([]byte(nil), data...)`) and pointees (`Underlying.New()`).
The counted forms are charged their full `count` up front, as the Go code
allocates before reading the elements.

Not modelled (the model has no capacities and no intern table; see the report):
the capacity *doubling* of the append readers (amortised factor ≤ 8 per appended
element when starting from nil), and the copy-on-miss table of
`InternedStringCodec` (which is NOT linear: every new string copies the table). -/

/-! ### more facts about the loop combinators -/

theorem uvarintAux_zero : ∀ (d : Bytes) (i s x : Nat), (uvarintAux d i s x).2 ≤ 0 → (uvarintAux d i s x).1 = 0
  | [], i, s, x => by simp [uvarintAux]
  | b :: rest, i, s, x => by
    have ih := uvarintAux_zero rest (i + 1) (s + 7) (x ||| ((b.toNat &&& 127) <<< s))
    simp only [uvarintAux]
    split
    · simp
    · split
      · split
        · simp
        · simp only [Int.ofNat_eq_natCast]; omega
      · exact ih

/-- a tag with a non-zero field index took at least one byte. -/
theorem readTagAndLength_pos (d : Bytes) (wt : WT) (idx off fl : Nat)
    (h : readTagAndLength d = some (wt, idx, off, fl)) (hidx : idx ≠ 0) : 1 ≤ off := by
  unfold readTagAndLength readTagRaw at h
  simp only at h
  have hz := uvarintAux_zero d 0 0 0
  rw [← readVarUint.eq_1] at hz
  split at h
  · simp at h
  · rename_i hneg
    have hpos : 1 ≤ (readVarUint d).2.toNat := by
      by_cases h0 : 0 < (readVarUint d).2
      · omega
      · have := hz (by omega)
        split at h
        · cases hr : readU (d.drop (readVarUint d).2.toNat) with
          | none => simp [hr] at h
          | some q =>
            simp only [hr] at h
            split at h
            · simp at h
            · injection h with h; injection h with _ h; injection h with h1 _
              rw [this] at h1; simp at h1; exact absurd h1.symm hidx
        · injection h with h; injection h with _ h; injection h with h1 _
          rw [this] at h1; simp at h1; exact absurd h1.symm hidx
    split at h
    · cases hr : readU (d.drop (readVarUint d).2.toNat) with
      | none => simp [hr] at h
      | some q =>
        simp only [hr] at h
        split at h
        · simp at h
        · injection h with h; injection h with _ h; injection h with _ h; injection h with h1 _
          omega
    · injection h with h; injection h with _ h; injection h with _ h; injection h with h1 _
      omega

theorem structLoopSum_le1 (rd : Nat → WT → Bytes → List Val → Res (List Val × Nat))
    (c : Nat → WT → Bytes → List Val → Nat) (I : List Val → Prop)
    (h : ∀ idx wt body acc, I acc → c idx wt body acc ≤ 2 * body.length + 1 ∧
      ∀ acc' m, rd idx wt body acc = .ok (acc', m) →
        m ≤ body.length ∧ I acc' ∧ c idx wt body acc ≤ 2 * m + 1) :
    ∀ fuel data acc, I acc → structLoopSum rd 0 c fuel data acc ≤ 2 * data.length := by
  intro fuel
  induction fuel with
  | zero => intro data acc _; simp [structLoopSum]
  | succ f ih =>
    intro data acc hI
    rw [structLoopSum]
    by_cases hd : data.isEmpty
    · simp [hd]
    · simp only [hd, Bool.false_eq_true, ↓reduceIte]
      unfold readTag
      cases hr : readU data with
      | none => simp only; omega
      | some q =>
        obtain ⟨tag, k⟩ := q
        have ⟨hk0, hkl⟩ := readU_le data tag k hr
        simp only
        have hc := h (tag / 8) (WT.ofCode (tag % 8)) (data.drop k) acc hI
        simp only [List.length_drop] at hc
        cases hrd' : rd (tag / 8) (WT.ofCode (tag % 8)) (data.drop k) acc with
        | ok r =>
          obtain ⟨acc1, m⟩ := r
          have ⟨hm, hI1, hcm⟩ := hc.2 acc1 m hrd'
          have := ih (data.drop (k + m)) acc1 hI1
          simp only [List.length_drop] at this
          simp only
          omega
        | err => simp only; omega
        | panic => simp only; omega
        | hang => simp only; omega

theorem elemLoopSum_le1 (rd : Bytes → Res (Val × Nat)) (c : Bytes → Nat)
    (h : ∀ b, c b ≤ 2 * b.length + 1 ∧ ∀ v m, rd b = .ok (v, m) → m ≤ b.length ∧ c b ≤ 2 * m + 1) :
    ∀ k data, elemLoopSum rd 0 c k data ≤ 2 * data.length ∧
      ∀ vs n, elemLoop rd k data = .ok (vs, n) → elemLoopSum rd 0 c k data ≤ 2 * n ∧ k ≤ n := by
  intro k
  induction k with
  | zero => intro data; simp [elemLoopSum]
  | succ k ih =>
    intro data
    rw [elemLoopSum, elemLoop]
    cases hr : readU data with
    | none => simp only; exact ⟨by omega, fun _ _ hn => by simp at hn⟩
    | some q =>
      obtain ⟨s, n⟩ := q
      have ⟨hn0, hnl⟩ := readU_le data s n hr
      simp only
      by_cases hs : s > (data.drop n).length
      · rw [if_pos hs, if_pos hs]; exact ⟨by omega, fun _ _ hn => by simp at hn⟩
      · rw [if_neg hs, if_neg hs]
        have hc := h ((data.drop n).take s)
        simp only [List.length_take, List.length_drop] at hc hs
        cases hrd : rd ((data.drop n).take s) with
        | ok r =>
          obtain ⟨v, m⟩ := r
          have ⟨hm, hcm⟩ := hc.2 v m hrd
          have hi := ih (data.drop (n + m))
          simp only [List.length_drop] at hi
          simp only
          refine ⟨by omega, fun vs n' hn => ?_⟩
          cases hrn : elemLoop rd k (data.drop (n + m)) with
          | ok r2 =>
            obtain ⟨vs2, n2⟩ := r2
            simp only [hrn] at hn
            injection hn with hn; injection hn with h1 h2
            have := hi.2 vs2 n2 hrn
            omega
          | err => simp [hrn] at hn
          | panic => simp [hrn] at hn
          | hang => simp [hrn] at hn
        | err => simp only; exact ⟨by omega, fun _ _ hn => by simp at hn⟩
        | panic => simp only; exact ⟨by omega, fun _ _ hn => by simp at hn⟩
        | hang => simp only; exact ⟨by omega, fun _ _ hn => by simp at hn⟩

theorem mapLoopSum_le1 (rdE : Bytes → List (Val × Val) → Res (List (Val × Val) × Nat))
    (c : Bytes → List (Val × Val) → Nat) (I : List (Val × Val) → Prop)
    (h : ∀ b es, I es → c b es ≤ 2 * b.length + 1 ∧
      ∀ es' m, rdE b es = .ok (es', m) → m ≤ b.length ∧ I es' ∧ c b es ≤ 2 * m + 1) :
    ∀ k data off es, I es →
      mapLoopSum rdE 0 c k data es ≤ 2 * data.length ∧
      ∀ es' n, mapLoop rdE k data off es = .ok (es', n) →
        mapLoopSum rdE 0 c k data es + 2 * off ≤ 2 * n ∧ off + k ≤ n := by
  intro k
  induction k with
  | zero =>
    intro data off es _
    simp only [mapLoopSum, mapLoop, Nat.zero_le, true_and]
    intro es' n hn; injection hn with hn; injection hn with h1 h2; omega
  | succ k ih =>
    intro data off es hI
    rw [mapLoopSum, mapLoop]
    cases hr : readU data with
    | none => simp only; exact ⟨by omega, fun _ _ hn => by simp at hn⟩
    | some q =>
      obtain ⟨s, n⟩ := q
      have ⟨hn0, hnl⟩ := readU_le data s n hr
      simp only
      by_cases hs : s > (data.drop n).length
      · rw [if_pos hs, if_pos hs]; exact ⟨by omega, fun _ _ hn => by simp at hn⟩
      · rw [if_neg hs, if_neg hs]
        have hc := h ((data.drop n).take s) es hI
        simp only [List.length_take, List.length_drop] at hc hs
        cases hrd : rdE ((data.drop n).take s) es with
        | ok r =>
          obtain ⟨es1, m⟩ := r
          have ⟨hm, hI1, hcm⟩ := hc.2 es1 m hrd
          have hi := ih (data.drop (n + m)) (off + (n + m)) es1 hI1
          simp only [List.length_drop] at hi
          simp only
          refine ⟨by omega, fun es' n' hn => ?_⟩
          have := hi.2 es' n' hn
          omega
        | err => simp only; exact ⟨by omega, fun _ _ hn => by simp at hn⟩
        | panic => simp only; exact ⟨by omega, fun _ _ hn => by simp at hn⟩
        | hang => simp only; exact ⟨by omega, fun _ _ hn => by simp at hn⟩

/-- the read pass of the packed varint slice: every element takes at least its
one byte, so element costs bounded by twice the bytes taken add up. -/
theorem readNSum_run (rd : Bytes → Res (Val × Nat)) (c : Bytes → Nat) (hvl : VarintLike rd)
    (hc : ∀ b x n, readU b = some (x, n) → c b ≤ 2 * n) :
    ∀ fuel data c0 c', countVarints fuel data c0 = .ok c' →
      ∀ k, c' = c0 + k → readNSum rd 0 c k data ≤ 2 * data.length := by
  intro fuel
  induction fuel with
  | zero => intro data c0 c' h; simp [countVarints] at h
  | succ f ih =>
    intro data c0 c' h k hk
    rw [countVarints] at h
    by_cases hd : data.isEmpty
    · simp only [hd, ↓reduceIte] at h
      injection h with h
      have : k = 0 := by omega
      subst this; simp [readNSum]
    · simp only [hd] at h
      cases hr : readU data with
      | none => simp [hr] at h
      | some q =>
        obtain ⟨x, n⟩ := q
        have ⟨hn0, hnl⟩ := readU_le data x n hr
        simp only [hr] at h
        obtain ⟨k', hk', _, _⟩ := countVarints_exact _ _ _ _ h
        have hk1 : k = k' + 1 := by omega
        subst hk1
        rw [readNSum]
        obtain ⟨v, hv⟩ := hvl data x n hr
        have := ih _ _ _ h k' hk'
        simp only [List.length_drop] at this
        have hcb := hc data x n hr
        simp only [hv, Nat.zero_add]
        omega

/-! ### the allocation counter -/

/-- cost inside one map entry when the key and value costs may carry the `+1`. -/
theorem entryCost_le1 (rdK : WT → Bytes → Res (Val × Nat)) (cK : WT → Bytes → Nat)
    (rdV : WT → Bytes → Val → Res (Val × Nat)) (cV : WT → Bytes → Val → Nat)
    (kz vz : Val) (P : Val → Prop)
    (hK : ∀ wt b, cK wt b ≤ 2 * b.length + 1 ∧
      ∀ k n, rdK wt b = .ok (k, n) → n ≤ b.length ∧ cK wt b ≤ 2 * n + 1)
    (hV : ∀ wt b s, P s → cV wt b s ≤ 2 * b.length + 1 ∧
      ∀ v n, rdV wt b s = .ok (v, n) → cV wt b s ≤ 2 * n + 1 ∧ (1 ≤ n → cV wt b s ≤ 2 * n))
    (hvz : P vz) (d : Bytes) (es : List (Val × Val)) (hes : ∀ e ∈ es, P e.2) :
    entryCost rdK cK cV kz vz d es ≤ 2 * d.length + 1 ∧
    ∀ es' m, readMapEntry rdK rdV kz vz d es = .ok (es', m) →
      entryCost rdK cK cV kz vz d es ≤ 2 * m + 1 ∧ (1 ≤ m → entryCost rdK cK cV kz vz d es ≤ 2 * m) := by
  have hslot : ∀ k, P ((mapLookup k es).getD vz) := by
    intro k
    cases hl : mapLookup k es with
    | none => simpa using hvz
    | some v =>
      obtain ⟨e, he, hv⟩ := mapLookup_mem k es v hl
      simp only [Option.getD_some]
      rw [← hv]; exact hes e he
  unfold entryCost readMapEntry
  cases hr : readTagAndLength d with
  | none => simp
  | some q =>
    obtain ⟨wt, idx, off, fl⟩ := q
    have hle := readTagAndLength_le _ _ _ _ _ hr
    have hpos := readTagAndLength_pos _ _ _ _ _ hr
    simp only
    by_cases hi : idx = 1
    · subst hi
      have hoff : 1 ≤ off := hpos (by omega)
      simp only [↓reduceIte]
      have hk := hK wt ((d.drop off).take fl)
      simp only [List.length_take, List.length_drop] at hk
      cases hrk : rdK wt ((d.drop off).take fl) with
      | ok r =>
        obtain ⟨k, n⟩ := r
        have ⟨hn, hck⟩ := hk.2 k n hrk
        simp only [Nat.reduceEqDiff, or_false]
        by_cases hlt : off + n < d.length
        · simp only [hlt, ↓reduceIte]
          cases hr2 : readTagAndLength (d.drop (off + n)) with
          | none => simp only; exact ⟨by omega, fun _ _ h => by simp at h⟩
          | some q2 =>
            obtain ⟨wt2, i2, off2, fl2⟩ := q2
            have hle2 := readTagAndLength_le _ _ _ _ _ hr2
            simp only [List.length_drop] at hle2
            simp only
            have hv := hV wt2 ((d.drop (off + n + off2)).take fl2) _ (hslot k)
            simp only [List.length_take, List.length_drop] at hv
            refine ⟨by omega, fun es' m h => ?_⟩
            cases hrv : rdV wt2 ((d.drop (off + n + off2)).take fl2) ((mapLookup k es).getD vz) with
            | ok r2 =>
              obtain ⟨v, nv⟩ := r2
              have := hv.2 v nv hrv
              simp only [hrv] at h
              injection h with h; injection h with h1 h2
              omega
            | err => simp [hrv] at h
            | panic => simp [hrv] at h
            | hang => simp [hrv] at h
        · simp only [hlt, ↓reduceIte, Nat.add_zero]
          refine ⟨by omega, fun es' m h => ?_⟩
          injection h with h; injection h with h1 h2
          omega
      | err => simp only [Nat.add_zero]; exact ⟨by omega, fun _ _ h => by simp at h⟩
      | panic => simp only [Nat.add_zero]; exact ⟨by omega, fun _ _ h => by simp at h⟩
      | hang => simp only [Nat.add_zero]; exact ⟨by omega, fun _ _ h => by simp at h⟩
    · simp only [hi, ↓reduceIte]
      by_cases hc : off < d.length ∨ idx = 2
      · simp only [hc, ↓reduceIte]
        have hv := hV wt ((d.drop off).take fl) _ (hslot kz)
        simp only [List.length_take, List.length_drop] at hv
        refine ⟨by omega, fun es' m h => ?_⟩
        cases hrv : rdV wt ((d.drop off).take fl) ((mapLookup kz es).getD vz) with
        | ok r2 =>
          obtain ⟨v, nv⟩ := r2
          have := hv.2 v nv hrv
          simp only [hrv] at h
          injection h with h; injection h with h1 h2
          omega
        | err => simp [hrv] at h
        | panic => simp [hrv] at h
        | hang => simp [hrv] at h
      · simp only [hc, ↓reduceIte, Nat.zero_le, true_and]
        intro _ _ _ _; trivial

mutual
def allocAt : Nat → Ty → WT → Bytes → Val → Nat
  | lvl, .str _, _, d, _ => if lvl = 0 then d.length else 0
  | lvl, .bytes, _, d, _ => if lvl = 0 then d.length else 0
  | lvl, .ptr t, wt, d, p =>
      match lvl with
      | 0 => (match p with | .ptr (some _) => 0 | _ => 1)          -- `Underlying.New()` when nil
      | l+1 => allocAt l t wt d (ptrPrior t p)
  | lvl, .vslice t, _, d, _ =>
      match countVarints (d.length + 1) d 0 with
      | .ok count =>
        (match lvl with
         | 0 => count                                              -- unsafe_NewArray(count)
         | l+1 => readNSum (fun b => t.read .varint b t.zero) 0
                    (fun b => allocAt l t .varint b t.zero) count d)
      | _ => 0
  | lvl, .fslice t, _, d, _ =>
      match lvl with
      | 0 => d.length / t.size t.zero []
      | l+1 => readNSum (fun b => t.read t.wt b t.zero) 0
                 (fun b => allocAt l t t.wt b t.zero) (d.length / t.size t.zero []) d
  | lvl, .lslice t, wt, d, _ =>
      if wt = .len then
        (match lvl with | 0 => 1 | l+1 => allocAt l t .len d t.zero)   -- one element appended
      else
      if (readVarUint d).2 < 0 then 0 else
      if (readVarUint d).1 > d.length - (readVarUint d).2.toNat then 0 else
      match lvl with
      | 0 => (readVarUint d).1                                    -- unsafe_NewArray(count)
      | l+1 => elemLoopSum (fun b => t.read .len b t.zero) 0
                 (fun b => allocAt l t .len b t.zero)
                 (readVarUint d).1 (d.drop (readVarUint d).2.toNat)
  | lvl, .pslice t, _, d, _ =>
      match lvl with | 0 => 1 | l+1 => allocAt l t .len d t.zero
  | lvl, .struct _ fs, _, d, p =>
      structLoopSum (fun idx wt body acc => readField fs acc idx wt body) 0
        (fun idx wt body acc => fieldAllocAt lvl fs acc idx wt body)
        (d.length + 1) d (structPrior fs p)
  | lvl, .map k v false, _, d, p =>
      if d.isEmpty then 0 else
      match readU d with
      | none => 0
      | some (count, n) =>
        if count > d.length - n then 0 else
        match lvl with
        | 0 => count                                              -- MakeMapWithSize(count)
        | l+1 =>
          mapLoopSum (readMapEntry (fun wt b => k.read wt b k.zero) (fun wt b s => v.read wt b s) k.zero v.zero)
            0
            (fun b es =>
              entryCost (fun wt b => k.read wt b k.zero) (fun wt b => allocAt l k wt b k.zero)
                (fun wt b s => allocAt l v wt b s) k.zero v.zero b es)
            count (d.drop n) (mapPrior p)
  | lvl, .map k v true, _, d, p =>
      match lvl with
      | 0 => 1                                                    -- one mapassign
      | l+1 =>
        entryCost (fun wt b => k.read wt b k.zero) (fun wt b => allocAt l k wt b k.zero)
          (fun wt b s => allocAt l v wt b s) k.zero v.zero d (mapPrior p)
  | _, _, _, _, _ => 0
/-- what one struct field body allocates: mirrors `readField` (a struct is laid
out inline: it does not open a level). -/
def fieldAllocAt : Nat → Fields → List Val → Nat → WT → Bytes → Nat
  | _, [], _, _, _, _ => 0
  | lvl, (i, _, t) :: r, a :: as, idx, wt, body =>
      if i = idx then
        if wt = .len then
          match readU body with
          | none => 0
          | some (l, n) =>
            if l > (body.drop n).length then 0 else allocAt lvl t wt ((body.drop n).take l) a
        else allocAt lvl t wt body a
      else fieldAllocAt lvl r as idx wt body
  | _, _ :: _, [], _, _, _ => 0
end

def AllocGood (t : Ty) : Prop :=
  ∀ lvl wt d p, Shape t p →
    allocAt lvl t wt d p ≤ 2 * d.length + 1 ∧
    ∀ v n, t.read wt d p = .ok (v, n) →
      allocAt lvl t wt d p ≤ 2 * n + 1 ∧ (1 ≤ n → allocAt lvl t wt d p ≤ 2 * n)

def AllocField (fs : Fields) : Prop :=
  ∀ lvl acc idx wt body, ShapeL fs acc →
    fieldAllocAt lvl fs acc idx wt body ≤ 2 * body.length + 1 ∧
    ∀ acc' m, readField fs acc idx wt body = .ok (acc', m) →
      fieldAllocAt lvl fs acc idx wt body ≤ 2 * m + 1

theorem allocField_of (fs : Fields) (hall : ∀ f ∈ fs, AllocGood f.2.2) : AllocField fs := by
  induction fs with
  | nil =>
    intro lvl acc idx wt body _
    simp [fieldAllocAt]
  | cons f r ih =>
    obtain ⟨i, nm, t⟩ := f
    intro lvl acc idx wt body hs
    cases acc with
    | nil => simp [ShapeL] at hs
    | cons a as =>
      simp only [ShapeL] at hs
      have hgt : AllocGood t := hall (i, nm, t) (by simp)
      rw [fieldAllocAt, readField]
      by_cases hi : i = idx
      · rw [if_pos hi, if_pos hi]
        by_cases hw : wt = .len
        · rw [if_pos hw, if_pos hw]
          cases hr : readU body with
          | none => simp
          | some q =>
            obtain ⟨l, n⟩ := q
            have ⟨hn0, hnl⟩ := readU_le body l n hr
            simp only
            by_cases hgt2 : l > (body.drop n).length
            · rw [if_pos hgt2, if_pos hgt2]; simp
            · rw [if_neg hgt2, if_neg hgt2]
              have hg := hgt lvl wt ((body.drop n).take l) a hs.1
              simp only [List.length_take, List.length_drop] at hg hgt2
              refine ⟨by omega, fun acc' m h => ?_⟩
              cases hrd : t.read wt ((body.drop n).take l) a with
              | ok r2 =>
                obtain ⟨v, m'⟩ := r2
                have := hg.2 v m' hrd
                simp only [hrd, Res.mapFst, Res.addN] at h
                injection h with h; injection h with _ h
                omega
              | err => simp [hrd, Res.mapFst, Res.addN] at h
              | panic => simp [hrd, Res.mapFst, Res.addN] at h
              | hang => simp [hrd, Res.mapFst, Res.addN] at h
        · rw [if_neg hw, if_neg hw]
          have hg := hgt lvl wt body a hs.1
          refine ⟨hg.1, fun acc' m h => ?_⟩
          cases hrd : t.read wt body a with
          | ok r2 =>
            obtain ⟨v, m'⟩ := r2
            have := hg.2 v m' hrd
            simp only [hrd, Res.mapFst] at h
            injection h with h; injection h with _ h
            omega
          | err => simp [hrd, Res.mapFst] at h
          | panic => simp [hrd, Res.mapFst] at h
          | hang => simp [hrd, Res.mapFst] at h
      · rw [if_neg hi, if_neg hi]
        have hgr := ih (fun p hp => hall p (by simp [hp])) lvl as idx wt body hs.2
        refine ⟨hgr.1, fun acc' m h => ?_⟩
        cases hrr : readField r as idx wt body with
        | ok r2 =>
          obtain ⟨as', m'⟩ := r2
          have := hgr.2 as' m' hrr
          simp only [hrr, Res.mapFst] at h
          injection h with h; injection h with _ h
          omega
        | err => simp [hrr, Res.mapFst] at h
        | panic => simp [hrr, Res.mapFst] at h
        | hang => simp [hrr, Res.mapFst] at h

/-- hypotheses of `entryCost_le1` from `AllocGood` of the key and value codecs. -/
theorem entry_alloc (k v : Ty) (hgk : Good k) (hak : AllocGood k) (hav : AllocGood v) (l : Nat)
    (d : Bytes) (es : List (Val × Val)) (hes : ∀ e ∈ es, Shape v e.2) :
    let c := entryCost (fun wt b => k.read wt b k.zero) (fun wt b => allocAt l k wt b k.zero)
        (fun wt b s => allocAt l v wt b s) k.zero v.zero d es
    c ≤ 2 * d.length + 1 ∧
    ∀ es' m, readMapEntry (fun wt b => k.read wt b k.zero) (fun wt b s => v.read wt b s) k.zero v.zero d es
        = .ok (es', m) → c ≤ 2 * m + 1 ∧ (1 ≤ m → c ≤ 2 * m) :=
  entryCost_le1 _ _ (fun wt b s => v.read wt b s) _ k.zero v.zero (Shape v)
    (fun wt b => ⟨(hak l wt b k.zero (shape_zero k)).1, fun x m h =>
      ⟨read_le_of_good k hgk wt b k.zero (shape_zero k) x m h,
       ((hak l wt b k.zero (shape_zero k)).2 x m h).1⟩⟩)
    (fun wt b s hs => hav l wt b s hs) (shape_zero v) d es hes

mutual
theorem alloc_ty : (t : Ty) → t.wf → AllocGood t
  | .bool | .int _ | .uint _ | .flat _ | .f32 | .f64 | .time _ => by
      intro _ lvl wt d p _; simp [allocAt]
  | .str _ => by
      intro _ lvl wt d p _
      simp only [allocAt, Ty.read]
      refine ⟨by split <;> omega, fun v n h => ?_⟩
      injection h with h; injection h with _ h
      split <;> omega
  | .bytes => by
      intro _ lvl wt d p _
      simp only [allocAt, Ty.read]
      refine ⟨by split <;> omega, fun v n h => ?_⟩
      injection h with h; injection h with _ h
      split <;> omega
  | .ptr t => by
      intro hwf lvl wt d p hp
      simp only [Ty.wf] at hwf
      cases lvl with
      | zero =>
        simp only [allocAt]
        have h1 : (match p with | .ptr (some _) => 0 | _ => 1) ≤ 1 := by split <;> omega
        exact ⟨by omega, fun v n _ => ⟨by omega, fun _ => by omega⟩⟩
      | succ l =>
        simp only [allocAt]
        have hg := alloc_ty t hwf.1 l wt d (ptrPrior t p) (ptrPrior_shape t p hp)
        refine ⟨hg.1, fun v n h => ?_⟩
        rw [read_ptr_norm] at h
        simp only [Ty.read] at h
        split at h
        · rename_i v' n' heq
          injection h with h; injection h with _ h
          subst h; exact hg.2 v' n' heq
        · simp at h
        · simp at h
        · simp at h
  | .vslice t => by
      intro hwf lvl wt d p _
      simp only [Ty.wf] at hwf
      have hat := alloc_ty t hwf.1
      have hvl := varintLike_of t hwf.2.1 .varint t.zero
      simp only [allocAt]
      cases hcv : countVarints (d.length + 1) d 0 with
      | ok count =>
        obtain ⟨k, hk, hkl, hex⟩ := countVarints_exact _ _ _ _ hcv
        obtain ⟨vs, hvs⟩ := hex _ hvl
        have hk : count = k := by omega
        subst hk
        simp only
        have hn : ∀ v n, (Ty.vslice t).read wt d p = .ok (v, n) → n = d.length := by
          intro v n h
          simp only [Ty.read, hcv, hvs] at h
          injection h with h; injection h with _ h
          omega
        cases lvl with
        | zero =>
          simp only
          exact ⟨by omega, fun v n h => by have := hn v n h; omega⟩
        | succ l =>
          simp only
          have := readNSum_run (fun b => t.read .varint b t.zero) (fun b => allocAt l t .varint b t.zero) hvl
            (fun b x n hr => by
              obtain ⟨v, hv⟩ := hvl b x n hr
              have := readU_le b x n hr
              exact ((hat l .varint b t.zero (shape_zero t)).2 v n hv).2 (by omega))
            (d.length + 1) d 0 count hcv count (by omega)
          exact ⟨by omega, fun v n h => by have := hn v n h; omega⟩
      | err => simp only [Nat.zero_le, true_and]; intro v n h; simp [Ty.read, hcv] at h
      | panic => simp only [Nat.zero_le, true_and]; intro v n h; simp [Ty.read, hcv] at h
      | hang => simp only [Nat.zero_le, true_and]; intro v n h; simp [Ty.read, hcv] at h
  | .fslice t => by
      intro hwf lvl wt d p _
      simp only [Ty.wf] at hwf
      have hfix : ∃ sz, 0 < sz ∧ t.size t.zero [] = sz ∧ FixedLike sz (fun b => t.read t.wt b t.zero)
          ∧ ∀ l wt b p, allocAt l t wt b p = 0 := by
        rcases hwf with h | h <;> subst h
        · exact ⟨4, by omega, by simp [Ty.size, Ty.zero], fixedLike_f32 _ _, by simp [allocAt]⟩
        · exact ⟨8, by omega, by simp [Ty.size, Ty.zero], fixedLike_f64 _ _, by simp [allocAt]⟩
      obtain ⟨sz, hsz0, hsz, hfl, hz⟩ := hfix
      have hdiv : sz * (d.length / sz) ≤ d.length := Nat.mul_div_le _ _
      have hcnt : d.length / sz ≤ sz * (d.length / sz) := Nat.le_mul_of_pos_left _ hsz0
      obtain ⟨vs, hvs⟩ := readN_fixed sz _ hfl (d.length / sz) d hdiv
      have hne : ¬ sz = 0 := by omega
      have hn : ∀ v n, (Ty.fslice t).read wt d p = .ok (v, n) → n = sz * (d.length / sz) := by
        intro v n h
        simp only [Ty.read, hsz, hne, ↓reduceIte, hvs] at h
        injection h with h; injection h with _ h
        omega
      cases lvl with
      | zero =>
        simp only [allocAt, hsz]
        exact ⟨by omega, fun v n h => by have := hn v n h; omega⟩
      | succ l =>
        simp only [allocAt, hsz]
        rw [readNSum_zero _ _ (fun b => hz l _ b _)]
        exact ⟨by omega, fun v n h => ⟨by omega, fun _ => by omega⟩⟩
  | .lslice t => by
      intro hwf lvl wt d p _
      simp only [Ty.wf] at hwf
      have hgood : Good t := read_total t hwf.1
      have hat := alloc_ty t hwf.1
      simp only [allocAt]
      by_cases hw : wt = .len
      · simp only [hw, ↓reduceIte]
        cases lvl with
        | zero => simp only; exact ⟨by omega, fun v n _ => ⟨by omega, fun _ => by omega⟩⟩
        | succ l =>
          simp only
          have hg := hat l .len d t.zero (shape_zero t)
          refine ⟨hg.1, fun v n h => ?_⟩
          simp only [Ty.read, ↓reduceIte] at h
          split at h
          · rename_i v' n' heq
            injection h with h; injection h with _ h
            subst h; exact hg.2 v' n' heq
          · simp at h
          · simp at h
          · simp at h
      · simp only [hw, ↓reduceIte]
        have hle := readVarUint_toNat_le d
        by_cases h1 : (readVarUint d).2 < 0
        · simp only [h1, ↓reduceIte, Nat.zero_le, true_and]
          intro v n h; simp [Ty.read, hw, h1] at h
        · simp only [h1, ↓reduceIte]
          by_cases h2 : (readVarUint d).1 > d.length - (readVarUint d).2.toNat
          · simp only [h2, ↓reduceIte, Nat.zero_le, true_and]
            intro v n h; simp [Ty.read, hw, h1, h2] at h
          · simp only [h2, ↓reduceIte]
            -- what a successful read consumed, and the loop result behind it
            have hrd : ∀ v n, (Ty.lslice t).read wt d p = .ok (v, n) →
                ∃ vs k, elemLoop (fun b => t.read .len b t.zero) (readVarUint d).1
                  (d.drop (readVarUint d).2.toNat) = .ok (vs, k) ∧ n = (readVarUint d).2.toNat + k := by
              intro v n h
              simp only [Ty.read, hw, h1, h2, ↓reduceIte] at h
              split at h
              · rename_i vs k heq
                injection h with h; injection h with _ h
                exact ⟨vs, k, heq, by omega⟩
              · simp at h
              · simp at h
              · simp at h
            cases lvl with
            | zero =>
              simp only
              have hl := elemLoopSum_le1 (fun b => t.read .len b t.zero) (fun _ => 0)
                (fun b => ⟨by omega, fun v m h =>
                  ⟨read_le_of_good t hgood .len b t.zero (shape_zero t) v m h, by omega⟩⟩)
                (readVarUint d).1 (d.drop (readVarUint d).2.toNat)
              refine ⟨by omega, fun v n h => ?_⟩
              obtain ⟨vs, k, heq, hnk⟩ := hrd v n h
              have := (hl.2 vs k heq).2
              omega
            | succ l =>
              simp only
              have hl := elemLoopSum_le1 (fun b => t.read .len b t.zero)
                (fun b => allocAt l t .len b t.zero)
                (fun b => ⟨(hat l .len b t.zero (shape_zero t)).1, fun v m h =>
                  ⟨read_le_of_good t hgood .len b t.zero (shape_zero t) v m h,
                   ((hat l .len b t.zero (shape_zero t)).2 v m h).1⟩⟩)
                (readVarUint d).1 (d.drop (readVarUint d).2.toNat)
              simp only [List.length_drop] at hl
              refine ⟨by omega, fun v n h => ?_⟩
              obtain ⟨vs, k, heq, hnk⟩ := hrd v n h
              have := (hl.2 vs k heq).1
              omega
  | .pslice t => by
      intro hwf lvl wt d p _
      simp only [Ty.wf] at hwf
      simp only [allocAt]
      cases lvl with
      | zero => simp only; exact ⟨by omega, fun v n _ => ⟨by omega, fun _ => by omega⟩⟩
      | succ l =>
        simp only
        have hg := alloc_ty t hwf.1 l .len d t.zero (shape_zero t)
        refine ⟨hg.1, fun v n h => ?_⟩
        simp only [Ty.read] at h
        split at h
        · rename_i v' n' heq
          injection h with h; injection h with _ h
          subst h; exact hg.2 v' n' heq
        · simp at h
        · simp at h
        · simp at h
  | .struct nm fs => by
      intro hwf lvl wt d p hp
      simp only [Ty.wf] at hwf
      have hnd : NoDiv0L fs := noDiv0L_of_wf fs hwf.2.2
      have hgf := goodField_of fs (good_fields fs hnd)
      have haf := allocField_of fs (alloc_fields fs hwf.2.2)
      simp only [allocAt]
      have hA := structLoopSum_le1 (fun idx wt body acc => readField fs acc idx wt body)
        (fun idx wt body acc => fieldAllocAt lvl fs acc idx wt body) (ShapeL fs)
        (fun idx wt body acc hacc =>
          ⟨(haf lvl acc idx wt body hacc).1, fun acc' m h =>
            ⟨((hgf acc idx wt body hacc).2 acc' m h).1, ((hgf acc idx wt body hacc).2 acc' m h).2,
             (haf lvl acc idx wt body hacc).2 acc' m h⟩⟩)
        (d.length + 1) d (structPrior fs p) (structPrior_shape nm fs p hp)
      refine ⟨by omega, fun v n h => ?_⟩
      rw [read_struct_norm] at h
      simp only [Ty.read] at h
      have hall := structLoop_ok_all (fun idx wt body acc => readField fs acc idx wt body) (ShapeL fs)
        (fun idx wt body acc hacc => (hgf acc idx wt body hacc).2)
        (d.length + 1) d 0 (structPrior fs p) (structPrior_shape nm fs p hp)
      split at h
      · rename_i vs n' heq
        injection h with h; injection h with _ h
        have := hall _ _ heq
        omega
      · simp at h
      · simp at h
      · simp at h
  | .map k v false => by
      intro hwf lvl wt d p hp
      simp only [Ty.wf] at hwf
      have hgk : Good k := read_total k hwf.1
      have hgv : Good v := read_total v hwf.2.1
      have hak := alloc_ty k hwf.1
      have hav := alloc_ty v hwf.2.1
      simp only [allocAt]
      by_cases hd : d.isEmpty
      · simp [hd]
      · have hd : d.isEmpty = false := by simpa using hd
        simp only [hd, Bool.false_eq_true, ↓reduceIte]
        cases hr : readU d with
        | none => simp
        | some q =>
          obtain ⟨count, n⟩ := q
          have ⟨hn0, hnl⟩ := readU_le d count n hr
          simp only
          by_cases hc : count > d.length - n
          · simp only [hc, ↓reduceIte, Nat.zero_le, true_and]
            intro v' n' h
            rw [read_map_norm k v wt d p hd] at h
            simp [Ty.read, hd, hr, hc] at h
          · simp only [hc, ↓reduceIte]
            have hrd : ∀ v' n', (Ty.map k v false).read wt d p = .ok (v', n') →
                ∃ es', mapLoop (readMapEntry (fun wt b => k.read wt b k.zero) (fun wt b s => v.read wt b s)
                  k.zero v.zero) count (d.drop n) n (mapPrior p) = .ok (es', n') := by
              intro v' n' h
              rw [read_map_norm k v wt d p hd] at h
              simp only [Ty.read, hd, Bool.false_eq_true, ↓reduceIte, hr, hc] at h
              split at h
              · rename_i es' off heq
                injection h with h; injection h with _ h
                subst h; exact ⟨es', heq⟩
              · simp at h
              · simp at h
              · simp at h
            cases lvl with
            | zero =>
              simp only
              have hl := mapLoopSum_le1
                (readMapEntry (fun wt b => k.read wt b k.zero) (fun wt b s => v.read wt b s) k.zero v.zero)
                (fun _ _ => 0) (fun es => ∀ e ∈ es, Shape v e.2)
                (fun b es hes => ⟨by omega, fun es' m h =>
                  ⟨((mapEntry_arm k v hgk hgv b es hes).2 es' m h).1,
                   ((mapEntry_arm k v hgk hgv b es hes).2 es' m h).2, by omega⟩⟩)
                count (d.drop n) n (mapPrior p) (mapPrior_shape k v false p hp)
              refine ⟨by omega, fun v' n' h => ?_⟩
              obtain ⟨es', heq⟩ := hrd v' n' h
              have := (hl.2 es' n' heq).2
              omega
            | succ l =>
              simp only
              have hl := mapLoopSum_le1
                (readMapEntry (fun wt b => k.read wt b k.zero) (fun wt b s => v.read wt b s) k.zero v.zero)
                (fun b es =>
                  entryCost (fun wt b => k.read wt b k.zero) (fun wt b => allocAt l k wt b k.zero)
                    (fun wt b s => allocAt l v wt b s) k.zero v.zero b es)
                (fun es => ∀ e ∈ es, Shape v e.2)
                (fun b es hes => ⟨(entry_alloc k v hgk hak hav l b es hes).1, fun es' m h =>
                  ⟨((mapEntry_arm k v hgk hgv b es hes).2 es' m h).1,
                   ((mapEntry_arm k v hgk hgv b es hes).2 es' m h).2,
                   ((entry_alloc k v hgk hak hav l b es hes).2 es' m h).1⟩⟩)
                count (d.drop n) n (mapPrior p) (mapPrior_shape k v false p hp)
              simp only [List.length_drop] at hl
              refine ⟨by omega, fun v' n' h => ?_⟩
              obtain ⟨es', heq⟩ := hrd v' n' h
              have := (hl.2 es' n' heq).1
              omega
  | .map k v true => by
      intro hwf lvl wt d p hp
      simp only [Ty.wf] at hwf
      have hgk : Good k := read_total k hwf.1
      have hak := alloc_ty k hwf.1
      have hav := alloc_ty v hwf.2.1
      simp only [allocAt]
      cases lvl with
      | zero => simp only; exact ⟨by omega, fun v n _ => ⟨by omega, fun _ => by omega⟩⟩
      | succ l =>
        simp only
        have he := entry_alloc k v hgk hak hav l d (mapPrior p) (mapPrior_shape k v true p hp)
        refine ⟨he.1, fun v' n' h => ?_⟩
        rw [read_pmap_norm] at h
        simp only [Ty.read] at h
        split at h
        · rename_i es' m heq
          injection h with h; injection h with _ h
          subst h; exact he.2 es' m heq
        · simp at h
        · simp at h
        · simp at h
theorem alloc_fields : (fs : Fields) → fieldsWf fs → ∀ f ∈ fs, AllocGood f.2.2
  | [] => by simp
  | (i, nm, t) :: r => by
      intro hwf f hf
      simp only [fieldsWf] at hwf
      rcases List.mem_cons.mp hf with h | h
      · subst h; exact alloc_ty t hwf.1
      · exact alloc_fields r hwf.2 f h
end

/-! ### all levels -/

mutual
/-- container-nesting depth of the values of a codec tree. -/
def allocDepth : Ty → Nat
  | .str _ | .bytes => 1
  | .ptr t | .vslice t | .fslice t | .lslice t | .pslice t => 1 + allocDepth t
  | .struct _ fs => fieldsAllocDepth fs
  | .map k v _ => 1 + max (allocDepth k) (allocDepth v)
  | _ => 0
def fieldsAllocDepth : Fields → Nat
  | [] => 0
  | (_, _, t) :: r => max (allocDepth t) (fieldsAllocDepth r)
end

mutual
theorem allocAt_deep : (t : Ty) → ∀ lvl, allocDepth t ≤ lvl → ∀ wt d p, allocAt lvl t wt d p = 0
  | .bool | .int _ | .uint _ | .flat _ | .f32 | .f64 | .time _ => by
      intro lvl _ wt d p; simp [allocAt]
  | .str _ => by
      intro lvl h wt d p
      simp only [allocDepth] at h
      have : ¬ lvl = 0 := by omega
      simp [allocAt, this]
  | .bytes => by
      intro lvl h wt d p
      simp only [allocDepth] at h
      have : ¬ lvl = 0 := by omega
      simp [allocAt, this]
  | .ptr t => by
      intro lvl h wt d p
      simp only [allocDepth] at h
      obtain ⟨l, rfl⟩ : ∃ l, lvl = l + 1 := ⟨lvl - 1, by omega⟩
      simp only [allocAt]
      exact allocAt_deep t l (by omega) _ _ _
  | .pslice t => by
      intro lvl h wt d p
      simp only [allocDepth] at h
      obtain ⟨l, rfl⟩ : ∃ l, lvl = l + 1 := ⟨lvl - 1, by omega⟩
      simp only [allocAt]
      exact allocAt_deep t l (by omega) _ _ _
  | .vslice t => by
      intro lvl h wt d p
      simp only [allocDepth] at h
      obtain ⟨l, rfl⟩ : ∃ l, lvl = l + 1 := ⟨lvl - 1, by omega⟩
      simp only [allocAt]
      split
      · exact readNSum_zero _ _ (fun b => allocAt_deep t l (by omega) _ _ _) _ _
      · rfl
  | .fslice t => by
      intro lvl h wt d p
      simp only [allocDepth] at h
      obtain ⟨l, rfl⟩ : ∃ l, lvl = l + 1 := ⟨lvl - 1, by omega⟩
      simp only [allocAt]
      exact readNSum_zero _ _ (fun b => allocAt_deep t l (by omega) _ _ _) _ _
  | .lslice t => by
      intro lvl h wt d p
      simp only [allocDepth] at h
      obtain ⟨l, rfl⟩ : ∃ l, lvl = l + 1 := ⟨lvl - 1, by omega⟩
      simp only [allocAt]
      split
      · exact allocAt_deep t l (by omega) _ _ _
      · split
        · rfl
        · split
          · rfl
          · exact elemLoopSum_zero _ _ (fun b => allocAt_deep t l (by omega) _ _ _) _ _
  | .struct _ fs => by
      intro lvl h wt d p
      simp only [allocDepth] at h
      simp only [allocAt]
      exact structLoopSum_zero _ _ (fun idx wt body acc => fieldAllocAt_deep fs lvl h _ _ _ _) _ _ _
  | .map k v false => by
      intro lvl h wt d p
      simp only [allocDepth] at h
      obtain ⟨l, rfl⟩ : ∃ l, lvl = l + 1 := ⟨lvl - 1, by omega⟩
      simp only [allocAt]
      split
      · rfl
      · split
        · rfl
        · split
          · rfl
          · exact mapLoopSum_zero _ _ (fun b es => entryCost_zero _ _ _ _ _
              (fun wt b => allocAt_deep k l (by omega) _ _ _)
              (fun wt b s => allocAt_deep v l (by omega) _ _ _) _ _) _ _ _
  | .map k v true => by
      intro lvl h wt d p
      simp only [allocDepth] at h
      obtain ⟨l, rfl⟩ : ∃ l, lvl = l + 1 := ⟨lvl - 1, by omega⟩
      simp only [allocAt]
      exact entryCost_zero _ _ _ _ _
        (fun wt b => allocAt_deep k l (by omega) _ _ _)
        (fun wt b s => allocAt_deep v l (by omega) _ _ _) _ _
theorem fieldAllocAt_deep : (fs : Fields) → ∀ lvl, fieldsAllocDepth fs ≤ lvl →
    ∀ acc idx wt body, fieldAllocAt lvl fs acc idx wt body = 0
  | [] => by intro lvl _ acc idx wt body; simp [fieldAllocAt]
  | (i, nm, t) :: r => by
      intro lvl h acc idx wt body
      simp only [fieldsAllocDepth] at h
      cases acc with
      | nil => simp [fieldAllocAt]
      | cons a as =>
        rw [fieldAllocAt]
        split
        · split
          · split
            · rfl
            · split
              · rfl
              · exact allocAt_deep t lvl (by omega) _ _ _
          · exact allocAt_deep t lvl (by omega) _ _ _
        · exact fieldAllocAt_deep r lvl (by omega) _ _ _ _
end

/-- everything `t.read wt d p` creates, over all nesting levels of the value. -/
def alloc (t : Ty) (wt : WT) (d : Bytes) (p : Val) : Nat :=
  sumBelow (fun lvl => allocAt lvl t wt d p) (allocDepth t)

/-- **allocation bound, per level.** -/
theorem allocAt_le (t : Ty) (hwf : t.wf) (lvl : Nat) (wt : WT) (d : Bytes) (p : Val) (hp : Shape t p) :
    allocAt lvl t wt d p ≤ 2 * d.length + 1 ∧
    ∀ v n, t.read wt d p = .ok (v, n) →
      allocAt lvl t wt d p ≤ 2 * n + 1 ∧ (1 ≤ n → allocAt lvl t wt d p ≤ 2 * n) :=
  alloc_ty t hwf lvl wt d p hp

/-- **allocation bound, total**: `alloc ≤ K t * (|d| + 1)` with `K t = 2 * allocDepth t`. -/
theorem alloc_le (t : Ty) (hwf : t.wf) (wt : WT) (d : Bytes) (p : Val) (hp : Shape t p) :
    alloc t wt d p ≤ (2 * allocDepth t) * (d.length + 1) := by
  have := sumBelow_le (fun lvl => allocAt lvl t wt d p) (2 * d.length + 1)
    (fun lvl => (allocAt_le t hwf lvl wt d p hp).1) (allocDepth t)
  unfold alloc
  have h2 : allocDepth t * (2 * d.length + 1) ≤ (2 * allocDepth t) * (d.length + 1) := by
    rw [Nat.mul_assoc, Nat.mul_comm 2 (allocDepth t * (d.length + 1)), Nat.mul_assoc]
    apply Nat.mul_le_mul_left
    omega
  exact Nat.le_trans this h2

end Total


#print axioms Total.read_total
#print axioms Total.unmarshal_total
#print axioms Total.unmarshal_total_of_shape
#print axioms Total.stepsAt_le
#print axioms Total.steps_le
#print axioms Total.stepsAt_deep
#print axioms Total.allocAt_le
#print axioms Total.alloc_le
#print axioms Total.allocAt_deep
