import Proofs.RoundTripScalars
/-
  Proofs.RoundTripLoops — round trip of the wrappers: pointer, packed slices
  (varint, fixed), length-prefixed slices, and the struct field loop including
  the repeated-field form (`ProtoSliceWrapper`) in field position.
-/
namespace RT

/-! ### pointer -/

theorem rt_ptr (u : Ty) (hu : u.isPtr = false) (hm : u.isMap = false) (h : RTVal u) : RTVal (.ptr u) := by
  intro v hty hv _ hsz
  cases v with
  | ptr o =>
    cases o with
    | none => exact absurd rfl hv
    | some x =>
      simp only [Ty.hasTy] at hty
      have hx : x ≠ .ptr none := ne_ptr_none_of_not_ptr u hu x hty
      simp only [Ty.app] at hsz
      have := h x hty hx (ne_map_none_of_not_map u hm x hty) hsz
      simp only [Ty.wt, Ty.app, Ty.zero, Ty.norm]
      refine ⟨fun hl => ?_, fun hl rest => ?_⟩
      · simp only [Ty.read, this.1 hl]
      · simp only [Ty.read, this.2 hl rest]
  | _ => simp [Ty.hasTy] at hty

/-! ### packed varint slices -/

/-- the filter inside `Ty.norm` for `vslice`: nil pointer entries are dropped. -/
def nonNil (v : Val) : Bool :=
  match v with
  | .ptr none => false
  | _ => true

theorem norm_vslice (t : Ty) (vs : List Val) :
    (Ty.vslice t).norm (.slice vs) = .slice ((vs.filter nonNil).map t.norm) := by
  simp only [Ty.norm]; rfl

theorem nonNil_true (v : Val) (h : v ≠ .ptr none) : nonNil v = true := by
  cases v with
  | ptr o =>
    cases o with
    | none => exact absurd rfl h
    | some x => rfl
  | _ => rfl

theorem flatMap_filter_nonNil (g : Val → Bytes) (hg : g (.ptr none) = []) (vs : List Val) :
    vs.flatMap g = (vs.filter nonNil).flatMap g := by
  induction vs with
  | nil => rfl
  | cons v vs ih =>
    by_cases hv : v = .ptr none
    · subst hv
      have : nonNil (.ptr none) = false := rfl
      simp only [List.flatMap_cons, hg, List.nil_append, ih, List.filter_cons, this]
      rfl
    · rw [List.filter_cons_of_pos (nonNil_true v hv)]
      simp only [List.flatMap_cons, ih]

theorem mem_filter_nonNil (vs : List Val) (v : Val) (h : v ∈ vs.filter nonNil) :
    v ∈ vs ∧ v ≠ .ptr none := by
  have := List.mem_filter.mp h
  refine ⟨this.1, ?_⟩
  intro e; subst e
  have h2 : nonNil (.ptr none) = false := rfl
  rw [h2] at this
  exact absurd this.2 (by simp)

/-- a present value of a varint-kind codec is appended as exactly one varint. -/
theorem varint_shape0 (t : Ty) (hp : t.isPtr = false) (hwt : t.wt = .varint) (hwf : t.wf) (v : Val)
    (hty : t.hasTy v) : ∃ u, u < 2 ^ 64 ∧ t.app v [] = appendVarUint u := by
  cases t with
  | bool =>
    cases v with
    | bool b => exact ⟨if b then 1 else 0, by cases b <;> simp, by simp [Ty.app]⟩
    | _ => simp [Ty.hasTy] at hty
  | int w =>
    cases v with
    | int i => exact ⟨zigZag i, zigZag_lt_of_range w i hwf hty, by simp [Ty.app, appendVarInt]⟩
    | _ => simp [Ty.hasTy] at hty
  | uint w =>
    cases v with
    | uint n =>
      refine ⟨n, ?_, by simp [Ty.app]⟩
      simp only [Ty.wf] at hwf
      simp only [Ty.hasTy] at hty
      rcases hwf with rfl | rfl | rfl | rfl <;> omega
    | _ => simp [Ty.hasTy] at hty
  | flat w =>
    cases v with
    | int i => exact ⟨wrapU w i, wrapU_lt w i hwf, by simp [Ty.app]⟩
    | _ => simp [Ty.hasTy] at hty
  | ptr u => simp [Ty.isPtr] at hp
  | map k x p => cases p <;> simp [Ty.wt] at hwt
  | _ => simp [Ty.wt] at hwt

theorem varint_shape (t : Ty) (hs : Ty.rtShape false t) (hwt : t.wt = .varint) (hwf : t.wf) (v : Val)
    (hty : t.hasTy v) (hv : v ≠ .ptr none) : ∃ u, u < 2 ^ 64 ∧ t.app v [] = appendVarUint u := by
  cases t with
  | ptr u =>
    cases v with
    | ptr o =>
      cases o with
      | none => exact absurd rfl hv
      | some x =>
        simp only [Ty.rtShape] at hs
        simp only [Ty.wf] at hwf
        simp only [Ty.hasTy] at hty
        simp only [Ty.wt] at hwt
        simp only [Ty.app]
        exact varint_shape0 u hs.1 hwt hwf.1 x hty
    | _ => simp [Ty.hasTy] at hty
  | _ => exact varint_shape0 _ rfl hwt hwf v hty

theorem app_ptr_none (t : Ty) (tag : Bytes) : t.app (.ptr none) tag = [] :=
  app_absent t (.ptr none) tag rfl

theorem rt_vslice (t : Ty) (hwf : (Ty.vslice t).wf) (hs : Ty.rtShape false t) (ih : RTVal t) :
    RTVal (.vslice t) := by
  intro v hty _ _ hsz
  cases v with
  | slice vs =>
    refine ⟨fun _ => ?_, fun h => by simp [Ty.wt] at h⟩
    simp only [Ty.wf] at hwf
    obtain ⟨hwft, hwt, hmap⟩ := hwf
    simp only [Ty.hasTy] at hty
    simp only [Ty.app, frame_nil] at hsz ⊢
    rw [norm_vslice]
    rw [flatMap_filter_nonNil (fun v => t.app v []) (app_ptr_none t []) vs] at hsz ⊢
    generalize hws : vs.filter nonNil = ws at hsz ⊢
    have hmem : ∀ v ∈ ws, v ∈ vs ∧ v ≠ .ptr none := by
      intro v hv; rw [← hws] at hv; exact mem_filter_nonNil vs v hv
    have hcount := countVarints_flatMap (fun v => t.app v []) ws
      ((ws.flatMap fun v => t.app v []).length + 1) 0
      (fun v hv => varint_shape t hs hwt hwft v (hty v (hmem v hv).1) (hmem v hv).2) (by omega)
    have hne : t.wt ≠ .len := by rw [hwt]; decide
    have hread := readN_flatMap (fun b => t.read .varint b t.zero) (fun v => t.app v []) t.norm ws []
      (fun v hv r => by
        have hl : (t.app v []).length < 2 ^ 64 := by
          have := length_le_flatMap_of_mem (fun v => t.app v []) ws v hv
          omega
        have := (ih v (hty v (hmem v hv).1) (hmem v hv).2
          (ne_map_none_of_not_map t hmap v (hty v (hmem v hv).1)) hl).2 hne r
        rw [hwt] at this
        exact this)
    rw [List.append_nil] at hread
    simp only [Ty.read, hcount, Nat.zero_add, hread]
  | _ => simp [Ty.hasTy] at hty

/-! ### packed fixed-width slices -/

theorem length_flatMap_const {α β} (g : α → List β) (k : Nat) (l : List α)
    (h : ∀ x ∈ l, (g x).length = k) : (l.flatMap g).length = k * l.length := by
  induction l with
  | nil => simp
  | cons a l ih =>
    simp only [List.flatMap_cons, List.length_append, List.length_cons, h a (by simp),
      ih (fun x hx => h x (by simp [hx])), Nat.mul_succ]
    omega

theorem map_id' {α} (f : α → α) (l : List α) (h : ∀ x ∈ l, f x = x) : l.map f = l := by
  induction l with
  | nil => rfl
  | cons a l ih => simp only [List.map_cons, h a (by simp), ih (fun x hx => h x (by simp [hx]))]

theorem rt_fslice (t : Ty) (hwf : (Ty.fslice t).wf) : RTVal (.fslice t) := by
  intro v hty _ _ hsz
  cases v with
  | slice vs =>
    refine ⟨fun _ => ?_, fun h => by simp [Ty.wt] at h⟩
    simp only [Ty.hasTy] at hty
    simp only [Ty.app, frame_nil]
    have hsc : t.isScalar = true := by rcases hwf with rfl | rfl <;> rfl
    have hwft : t.wf := by rcases hwf with rfl | rfl <;> simp [Ty.wf]
    obtain ⟨k, hk0, hksz, hklen⟩ : ∃ k, 0 < k ∧ t.size t.zero [] = k ∧ ∀ v, t.hasTy v → (t.app v []).length = k := by
      rcases hwf with rfl | rfl
      · refine ⟨4, by omega, by simp [Ty.size, Ty.zero], fun v hv => ?_⟩
        cases v <;> simp_all [Ty.hasTy, Ty.app, leBytes_length]
      · refine ⟨8, by omega, by simp [Ty.size, Ty.zero], fun v hv => ?_⟩
        cases v <;> simp_all [Ty.hasTy, Ty.app, leBytes_length]
    have hlen := length_flatMap_const (fun v => t.app v []) k vs (fun v hv => hklen v (hty v hv))
    have hdiv : (vs.flatMap fun v => t.app v []).length / k = vs.length := by
      rw [hlen]; exact Nat.mul_div_cancel_left _ hk0
    have hread := readN_flatMap (fun b => t.read t.wt b t.zero) (fun v => t.app v []) t.norm vs []
      (fun v hv r => by
        rw [scalar_read_exact t v t.wt r t.zero hsc hwft (hty v hv), norm_scalar t hsc])
    rw [List.append_nil] at hread
    have hk0' : ¬ (k = 0) := by omega
    simp only [Ty.read, hksz, hk0', ↓reduceIte, hdiv, hread, Ty.norm]
  | _ => simp [Ty.hasTy] at hty

/-! ### length-prefixed slices -/

/-- normalisation of an element of a slice of length-delimited elements: a nil
pointer comes back as a pointer to the zero value. (The `match` is the one inside
`Ty.norm` for `lslice` / `pslice`.) -/
def elemNorm (t : Ty) (v : Val) : Val :=
  match t, v with
  | .ptr u, .ptr none => .ptr (some u.zero)
  | _, v => t.norm v

theorem norm_lslice (t : Ty) (vs : List Val) :
    (Ty.lslice t).norm (.slice vs) = .slice (vs.map (elemNorm t)) := by
  simp only [Ty.norm]; rfl

theorem norm_pslice (t : Ty) (vs : List Val) :
    (Ty.pslice t).norm (.slice vs) = .slice (vs.map (elemNorm t)) := by
  simp only [Ty.norm]; rfl

theorem elemNorm_present (t : Ty) (v : Val) (hv : v ≠ .ptr none) : elemNorm t v = t.norm v := by
  cases t with
  | ptr u =>
    cases v with
    | ptr o =>
      cases o with
      | none => exact absurd rfl hv
      | some x => rfl
    | _ => rfl
  | _ => rfl

/-- one element of a slice of length-delimited elements, read from exactly its
own bytes. -/
theorem rt_elem (t : Ty) (hwf : t.wf) (hs : Ty.rtShape false t) (hwt : t.wt = .len) (hm : t.isMap = false)
    (ih : RTVal t)
    (v : Val) (hty : t.hasTy v) (hsz : (t.app v []).length < 2 ^ 64) :
    t.read .len (t.app v []) t.zero = .ok (elemNorm t v, (t.app v []).length) := by
  by_cases hv : v = .ptr none
  · subst hv
    cases t with
    | ptr u =>
      simp only [Ty.rtShape] at hs
      simp only [Ty.wf] at hwf
      simp only [Ty.wt] at hwt
      have := read_nil u hwf.1 hs.2 hs.1
      rw [hwt] at this
      simp only [Ty.app, Ty.zero, Ty.read, this, elemNorm, List.length_nil]
    | _ => simp [Ty.hasTy] at hty
  · rw [elemNorm_present t v hv]
    exact (ih v hty hv (ne_map_none_of_not_map t hm v hty) hsz).1 hwt

theorem rt_lslice (t : Ty) (hwf : (Ty.lslice t).wf) (hs : Ty.rtShape false t) (ih : RTVal t) :
    RTVal (.lslice t) := by
  intro v hty _ _ hsz
  cases v with
  | slice vs =>
    refine ⟨fun h => by simp [Ty.wt] at h, fun _ rest => ?_⟩
    have he := lslice_entries t vs [] hwf hty
    simp only [List.nil_append] at he
    rw [he] at hsz ⊢
    simp only [Ty.wf] at hwf
    obtain ⟨hwft, hwt, hmap, _⟩ := hwf
    simp only [Ty.hasTy] at hty
    generalize hE : (vs.flatMap fun v => appendVarUint (t.app v []).length ++ t.app v []) = E at hsz ⊢
    have hcnt : vs.length ≤ E.length := by
      rw [← hE]
      apply length_le_flatMap_length
      intro x _
      have := append_len_pos (t.app x []).length
      simp only [List.length_append]; omega
    simp only [List.length_append] at hsz
    have hn : vs.length < 2 ^ 64 := by omega
    have ⟨h1, h2, h3⟩ := readVarUint_app vs.length hn (E ++ rest)
    have hloop := elemLoop_flatMap (fun b => t.read .len b t.zero) (fun v => t.app v []) (elemNorm t) vs rest
      (fun x hx => by
        have hl : (t.app x []).length < 2 ^ 64 := by
          have := length_le_flatMap_of_mem (fun v => appendVarUint (t.app v []).length ++ t.app v []) vs x hx
          simp only [List.length_append] at this
          rw [hE] at this
          omega
        exact ⟨hl, rt_elem t hwft hs hwt hmap ih x (hty x hx) hl⟩)
    rw [hE] at hloop
    have hw : ¬ (WT.slice = WT.len) := by decide
    have hc : ¬ (vs.length > (appendVarUint vs.length).length + (E.length + rest.length)
        - (appendVarUint vs.length).length) := by
      omega
    simp only [Ty.wt, Ty.read, hw, ↓reduceIte, List.append_assoc, h1, h2, h3, hc,
      drop_append_len _ _ _ rfl, hloop, norm_lslice, List.length_append]
  | _ => simp [Ty.hasTy] at hty

/-! ### the struct field loop -/

/-- what `readField` does once it has found the field: frame a length-delimited
payload, then call the codec with the field's current value as prior. -/
def fieldRead (t : Ty) (wt : WT) (body : Bytes) (a : Val) : Res (Val × Nat) :=
  if wt = .len then
    match readU body with
    | none => .err
    | some (l, n) =>
      if l > (body.drop n).length then .err else Res.addN n (t.read wt ((body.drop n).take l) a)
  else t.read wt body a

theorem readField_at (pre : Fields) (i : Nat) (nm : String) (t : Ty) (suf : Fields)
    (hni : i ∉ pre.map (·.1)) :
    ∀ (apre : List Val), apre.length = pre.length → ∀ (a : Val) (asuf : List Val) (wt : WT) (body : Bytes),
    readField (pre ++ (i, nm, t) :: suf) (apre ++ a :: asuf) i wt body
      = Res.mapFst (fun x => apre ++ x :: asuf) (fieldRead t wt body a) := by
  induction pre with
  | nil =>
    intro apre hl a asuf wt body
    cases apre with
    | nil =>
      simp only [List.nil_append, readField, ↓reduceIte, fieldRead]
      by_cases hw : wt = .len
      · simp only [hw, ↓reduceIte]
        cases readU body with
        | none => rfl
        | some p =>
          obtain ⟨l, n⟩ := p
          simp only
          split
          · rfl
          · rw [Res.mapFst_addN]
      · simp only [hw, ↓reduceIte]
    | cons _ _ => simp at hl
  | cons p pre ih =>
    obtain ⟨j, nj, tj⟩ := p
    intro apre hl a asuf wt body
    cases apre with
    | nil => simp at hl
    | cons b apre =>
      have hl' : apre.length = pre.length := by simpa using hl
      have hji : ¬ j = i := by
        intro h; apply hni; simp [h]
      have hni' : i ∉ pre.map (·.1) := by
        intro h; apply hni; simp only [List.map_cons, List.mem_cons]; exact Or.inr h
      simp only [List.cons_append]
      rw [readField]
      simp only [hji, ↓reduceIte]
      rw [ih hni' apre hl', Res.mapFst_mapFst]

/-- Round trip of one struct field: the struct loop, started on the field's
encoding (one frame, or several for the repeated forms) with the field at its
zero value, continues on the following bytes with the field at the normalised
value. `put` places a field value into the accumulator. -/
def RTField (t : Ty) : Prop :=
  ∀ (i : Nat) (v : Val), i < 2 ^ 61 → t.hasTy v → v.omit = false →
    (t.app v (appendTag t.wt i)).length < 2 ^ 64 →
    ∀ (rd : Nat → WT → Bytes → List Val → Res (List Val × Nat)) (put : Val → List Val),
      (∀ wt body a, rd i wt body (put a) = Res.mapFst put (fieldRead t wt body a)) →
      ∀ (fuel : Nat) (rest : Bytes) (off : Nat), (t.app v (appendTag t.wt i) ++ rest).length < fuel →
        structLoop rd fuel (t.app v (appendTag t.wt i) ++ rest) off (put t.zero)
          = structLoop rd fuel rest (off + (t.app v (appendTag t.wt i)).length) (put (t.norm v))

/-- `fieldRead` on a length-delimited frame. -/
theorem fieldRead_len (t : Ty) (B rest : Bytes) (a : Val) (hB : B.length < 2 ^ 64) :
    fieldRead t .len (appendVarUint B.length ++ (B ++ rest)) a
      = Res.addN (appendVarUint B.length).length (t.read .len B a) := by
  have hgt : ¬ (B.length > (B ++ rest).length) := by simp only [List.length_append]; omega
  simp only [fieldRead, ↓reduceIte, readU_append _ hB, drop_append_len _ _ _ rfl, hgt,
    take_append_len _ _ _ rfl]

theorem fieldRead_other (t : Ty) (wt : WT) (hw : wt ≠ .len) (body : Bytes) (a : Val) :
    fieldRead t wt body a = t.read wt body a := by
  simp only [fieldRead, hw, ↓reduceIte]

/-- a single-frame field (every codec but the two repeated forms). -/
theorem rtField_of_val (t : Ty) (hwf : t.wf) (hs : Ty.rtShape false t) (h : RTVal t) : RTField t := by
  intro i v hi hty hom hsz rd put hrd fuel rest off hf
  have hv := ne_ptr_none_of_not_omit v hom
  have hv2 := ne_map_none_of_not_omit v hom
  have hpres := present_of_shape t hs v hty hv
  have htag := appendTag_ne_nil t.wt i
  by_cases hw : t.wt = .len
  · have hE := app_frame_len t v (appendTag t.wt i) hwf hty hpres hw (deref_not_rep t hs) htag
    rw [hE] at hsz hf ⊢
    generalize hB : t.app v [] = B at hsz hf h ⊢
    simp only [List.length_append] at hsz
    have hBl : B.length < 2 ^ 64 := by omega
    have hread := (h v hty hv hv2 (by rw [hB]; exact hBl)).1 hw
    rw [hB] at hread
    simp only [List.append_assoc] at hf ⊢
    have hstep : rd i t.wt (appendVarUint B.length ++ (B ++ rest)) (put t.zero)
        = .ok (put (t.norm v), (appendVarUint B.length).length + B.length) := by
      rw [hrd, hw, fieldRead_len t B rest _ hBl, hread]; rfl
    rw [structLoop_step rd fuel t.wt i hi _ off _ _ _ (by simp only [List.length_append]; omega) hstep hf]
    have hd : (appendVarUint B.length ++ (B ++ rest)).drop ((appendVarUint B.length).length + B.length) = rest := by
      rw [← List.append_assoc]; exact drop_append_len _ _ _ (by simp only [List.length_append])
    rw [hd]
    simp only [List.length_append]
  · have hE := app_frame_other t v (appendTag t.wt i) hwf hty hpres hw
    rw [hE] at hsz hf ⊢
    generalize hB : t.app v [] = B at hsz hf h ⊢
    simp only [List.length_append] at hsz
    have hBl : B.length < 2 ^ 64 := by omega
    have hread := (h v hty hv hv2 (by rw [hB]; exact hBl)).2 hw rest
    rw [hB] at hread
    simp only [List.append_assoc] at hf ⊢
    have hstep : rd i t.wt (B ++ rest) (put t.zero) = .ok (put (t.norm v), B.length) := by
      rw [hrd, fieldRead_other t t.wt hw, hread]; rfl
    rw [structLoop_step rd fuel t.wt i hi _ off _ _ _ (by simp only [List.length_append]; omega) hstep hf]
    rw [drop_append_len _ _ _ rfl]
    simp only [List.length_append]

/-! ### repeated fields: `ProtoSliceWrapper` in field position -/

theorem pslice_loop (t : Ty) (hwf : t.wf) (hs : Ty.rtShape false t) (hwt : t.wt = .len) (hm : t.isMap = false)
    (ih : RTVal t)
    (i : Nat) (hi : i < 2 ^ 61)
    (rd : Nat → WT → Bytes → List Val → Res (List Val × Nat)) (put : Val → List Val)
    (hrd : ∀ wt body a, rd i wt body (put a) = Res.mapFst put (fieldRead (.pslice t) wt body a)) :
    ∀ (vs done : List Val) (fuel : Nat) (rest : Bytes) (off : Nat),
      (∀ v ∈ vs, t.hasTy v) →
      (vs.flatMap fun v => elemFrame t v (appendTag .len i)).length < 2 ^ 64 →
      ((vs.flatMap fun v => elemFrame t v (appendTag .len i)) ++ rest).length < fuel →
      structLoop rd fuel ((vs.flatMap fun v => elemFrame t v (appendTag .len i)) ++ rest) off (put (.slice done))
        = structLoop rd fuel rest (off + (vs.flatMap fun v => elemFrame t v (appendTag .len i)).length)
            (put (.slice (done ++ vs.map (elemNorm t)))) := by
  intro vs
  induction vs with
  | nil => intro done fuel rest off _ _ _; simp
  | cons v vs ihvs =>
    intro done fuel rest off hty hsz hf
    simp only [List.flatMap_cons, List.length_append, elemFrame, List.append_assoc] at hsz hf ⊢
    generalize hB : t.app v [] = B at hsz hf ⊢
    generalize hE : (vs.flatMap fun v => appendTag WT.len i ++ (appendVarUint (t.app v []).length ++ t.app v [])) = E
      at hsz hf ⊢
    have hBl : B.length < 2 ^ 64 := by omega
    have hread := rt_elem t hwf hs hwt hm ih v (hty v (by simp)) (by rw [hB]; exact hBl)
    rw [hB] at hread
    have hstep : rd i .len (appendVarUint B.length ++ (B ++ (E ++ rest))) (put (.slice done))
        = .ok (put (.slice (done ++ [elemNorm t v])), (appendVarUint B.length).length + B.length) := by
      rw [hrd, fieldRead_len _ B _ _ hBl]
      simp only [Ty.read, hread]; rfl
    rw [structLoop_step rd fuel .len i hi _ off _ _ _ (by simp only [List.length_append]; omega) hstep
      (by simp only [List.length_append]; omega)]
    have hd : (appendVarUint B.length ++ (B ++ (E ++ rest))).drop ((appendVarUint B.length).length + B.length)
        = E ++ rest := by
      rw [← List.append_assoc]; exact drop_append_len _ _ _ (by simp only [List.length_append])
    rw [hd]
    have := ihvs (done ++ [elemNorm t v]) fuel rest
      (off + ((appendTag WT.len i).length + ((appendVarUint B.length).length + B.length)))
      (fun x hx => hty x (by simp [hx]))
    simp only [elemFrame, List.append_assoc, hE] at this
    rw [this (by omega) (by simp only [List.length_append]; omega)]
    simp only [List.map_cons, List.singleton_append, Nat.add_assoc]

theorem rtField_pslice (t : Ty) (hwf : (Ty.pslice t).wf) (hs : Ty.rtShape false t) (ih : RTVal t) :
    RTField (.pslice t) := by
  intro i v hi hty hom hsz rd put hrd fuel rest off hf
  cases v with
  | slice vs =>
    have hE := pslice_frames t vs (appendTag (Ty.pslice t).wt i) hwf hty (deref_not_rep t hs)
      (appendTag_ne_nil _ _)
    rw [hE] at hsz hf ⊢
    simp only [Ty.wf] at hwf
    simp only [Ty.hasTy] at hty
    simp only [Ty.wt] at hsz hf hrd ⊢
    have := pslice_loop t hwf.1 hs hwf.2.1 hwf.2.2.1 ih i hi rd put hrd vs [] fuel rest off hty hsz hf
    simp only [Ty.zero, norm_pslice]
    simpa using this
  | _ => simp [Ty.hasTy] at hty

/-! ### structs -/

theorem struct_loop (fs : Fields) (hnd : (fs.map (·.1)).Nodup) (hidx : ∀ f ∈ fs, f.1 < 2 ^ 61)
    (hall : ∀ f ∈ fs, RTField f.2.2) :
    ∀ (suf : Fields) (vsuf : List Val) (pre : Fields) (apre : List Val),
      fs = pre ++ suf → apre.length = pre.length → fieldsHaveTy suf vsuf →
      ∀ (fuel off : Nat), (fieldsApp suf vsuf).length < fuel → (fieldsApp suf vsuf).length < 2 ^ 64 →
      structLoop (fun idx wt body acc => readField fs acc idx wt body) fuel (fieldsApp suf vsuf) off
          (apre ++ zeros suf)
        = .ok (apre ++ fieldsNorm suf vsuf, off + (fieldsApp suf vsuf).length) := by
  intro suf
  induction suf with
  | nil =>
    intro vsuf pre apre _ _ hty fuel off hf _
    cases vsuf with
    | nil =>
      simp only [fieldsApp, zeros, fieldsNorm, List.length_nil, Nat.add_zero]
      exact structLoop_nil _ _ _ _ (by omega)
    | cons _ _ => simp [fieldsHaveTy] at hty
  | cons f suf ih =>
    obtain ⟨i, nm, t⟩ := f
    intro vsuf pre apre hfs hl hty fuel off hf hsz
    cases vsuf with
    | nil => simp [fieldsHaveTy] at hty
    | cons v vs =>
      simp only [fieldsHaveTy] at hty
      obtain ⟨htv, htr⟩ := hty
      have hfs' : fs = (pre ++ [(i, nm, t)]) ++ suf := by simp [hfs]
      have hmem : (i, nm, t) ∈ fs := by simp [hfs]
      have hni : i ∉ pre.map (·.1) := by
        rw [hfs] at hnd
        simp only [List.map_append, List.map_cons] at hnd
        have := (List.nodup_append.mp hnd).2.2
        intro hm
        exact this i hm i (by simp) rfl
      cases ho : v.omit with
      | true =>
        have e1 : fieldsApp ((i, nm, t) :: suf) (v :: vs) = fieldsApp suf vs := by
          simp [fieldsApp, ho]
        have e2 : apre ++ zeros ((i, nm, t) :: suf) = (apre ++ [t.zero]) ++ zeros suf := by
          simp [zeros]
        have e3 : apre ++ fieldsNorm ((i, nm, t) :: suf) (v :: vs) = (apre ++ [t.zero]) ++ fieldsNorm suf vs := by
          simp [fieldsNorm, ho]
        rw [e1] at hf hsz ⊢
        rw [e2, e3]
        exact ih vs (pre ++ [(i, nm, t)]) (apre ++ [t.zero]) hfs' (by simp [hl]) htr fuel off hf hsz
      | false =>
        have e1 : fieldsApp ((i, nm, t) :: suf) (v :: vs)
            = t.app v (appendTag t.wt i) ++ fieldsApp suf vs := by
          simp [fieldsApp, ho]
        have e2 : apre ++ zeros ((i, nm, t) :: suf) = (fun x => apre ++ x :: zeros suf) t.zero := by
          simp [zeros]
        have e3 : apre ++ fieldsNorm ((i, nm, t) :: suf) (v :: vs)
            = (apre ++ [t.norm v]) ++ fieldsNorm suf vs := by
          simp [fieldsNorm, ho]
        rw [e1] at hf hsz ⊢
        rw [e2, e3]
        simp only [List.length_append] at hsz
        have hrtf : RTField t := hall (i, nm, t) hmem
        have hrt := hrtf i v (hidx _ hmem) htv ho (by omega)
          (fun idx wt body acc => readField fs acc idx wt body) (fun x => apre ++ x :: zeros suf)
          (fun wt body a => by
            simp only [hfs]
            exact readField_at pre i nm t suf hni apre hl a (zeros suf) wt body)
          fuel (fieldsApp suf vs) off hf
        rw [hrt]
        simp only [List.length_append] at hf
        have := ih vs (pre ++ [(i, nm, t)]) (apre ++ [t.norm v]) hfs' (by simp [hl]) htr fuel
          (off + (t.app v (appendTag t.wt i)).length) (by omega) (by omega)
        simp only [List.append_assoc, List.singleton_append] at this
        rw [this]
        simp only [List.append_assoc, List.singleton_append, List.length_append, Nat.add_assoc]

theorem rt_struct (nm : String) (fs : Fields) (hwf : (Ty.struct nm fs).wf)
    (hall : ∀ f ∈ fs, RTField f.2.2) : RTVal (.struct nm fs) := by
  intro v hty _ _ hsz
  cases v with
  | struct vs =>
    refine ⟨fun _ => ?_, fun h => by simp [Ty.wt] at h⟩
    simp only [Ty.wf] at hwf
    simp only [Ty.hasTy] at hty
    simp only [struct_body] at hsz ⊢
    have := struct_loop fs hwf.1 hwf.2.1 hall fs vs [] [] (by simp) rfl hty
      ((fieldsApp fs vs).length + 1) 0 (by omega) hsz
    simp only [List.nil_append, Nat.zero_add] at this
    simp only [Ty.read, Ty.zero, this, Ty.norm]
  | _ => simp [Ty.hasTy] at hty

end RT
