import Proofs.RoundTripMaps
/-
  Proofs.RoundTrip — assembly of the round trip (C01) by mutual structural
  induction over the nested codec tree `Ty` / `Fields`, all sixteen constructors.
-/
namespace RT

/-- the induction predicate: value-position round trip for the shapes allowed
anywhere, field-position round trip for the shapes allowed in a struct field. -/
def PP (t : Ty) : Prop :=
  t.wf → (Ty.rtShape false t → RTVal t) ∧ (Ty.rtShape true t → RTField t)

theorem pp_of_val (t : Ty) (hr : t.isProtoRep = false)
    (h : t.wf → Ty.rtShape false t → RTVal t) : PP t := by
  intro hwf
  refine ⟨h hwf, fun hs => ?_⟩
  have hs' := shape_false_of_true t hr hs
  exact rtField_of_val t hwf hs' (h hwf hs')

theorem fieldsWf_mem (fs : Fields) (h : fieldsWf fs) : ∀ f ∈ fs, f.2.2.wf := by
  induction fs with
  | nil => intro f hf; simp at hf
  | cons g r ih =>
    obtain ⟨i, n, t⟩ := g
    simp only [fieldsWf] at h
    intro f hf
    rcases List.mem_cons.mp hf with rfl | hf
    · exact h.1
    · exact ih h.2 f hf

theorem fieldsRtShape_mem (fs : Fields) (h : fieldsRtShape fs) : ∀ f ∈ fs, Ty.rtShape true f.2.2 := by
  induction fs with
  | nil => intro f hf; simp at hf
  | cons g r ih =>
    obtain ⟨i, n, t⟩ := g
    simp only [fieldsRtShape] at h
    intro f hf
    rcases List.mem_cons.mp hf with rfl | hf
    · exact h.1
    · exact ih h.2 f hf

theorem pp_scalar (t : Ty) (hs : t.isScalar = true) : PP t :=
  pp_of_val t (by cases t <;> first | rfl | simp [Ty.isScalar] at hs) (fun hwf _ => rt_scalar t hs hwf)

theorem pp_ptr (u : Ty) (ih : PP u) : PP (.ptr u) :=
  pp_of_val _ rfl (fun hwf hs => by
    simp only [Ty.wf] at hwf
    simp only [Ty.rtShape] at hs
    exact rt_ptr u hs.1 hwf.2 ((ih hwf.1).1 hs.2))

theorem pp_vslice (u : Ty) (ih : PP u) : PP (.vslice u) :=
  pp_of_val _ rfl (fun hwf hs => by
    simp only [Ty.rtShape] at hs
    exact rt_vslice u hwf hs ((ih hwf.1).1 hs))

theorem pp_lslice (u : Ty) (ih : PP u) : PP (.lslice u) :=
  pp_of_val _ rfl (fun hwf hs => by
    simp only [Ty.rtShape] at hs
    exact rt_lslice u hwf hs ((ih hwf.1).1 hs))

theorem pp_pslice (u : Ty) (ih : PP u) : PP (.pslice u) := by
  intro hwf
  refine ⟨fun hs => by simp [Ty.rtShape] at hs, fun hs => ?_⟩
  simp only [Ty.rtShape, true_and] at hs
  exact rtField_pslice u hwf hs ((ih hwf.1).1 hs)

theorem pp_struct (nm : String) (fs : Fields) (ih : ∀ f ∈ fs, PP f.2.2) : PP (.struct nm fs) :=
  pp_of_val _ rfl (fun hwf hs => by
    simp only [Ty.rtShape] at hs
    exact rt_struct nm fs hwf (fun f hf =>
      (ih f hf (fieldsWf_mem fs hwf.2.2 f hf)).2 (fieldsRtShape_mem fs hs f hf)))

theorem pp_map (k v : Ty) (p : Bool) (ihk : PP k) (ihv : PP v) : PP (.map k v p) := by
  cases p with
  | false =>
    exact pp_of_val _ rfl (fun hwf hs => by
      simp only [Ty.rtShape] at hs
      exact rt_map k v hwf hs.2.1 hs.2.2 ((ihk hwf.1).1 (keySafe_shape k hs.2.1)) ((ihv hwf.2.1).1 hs.2.2))
  | true =>
    intro hwf
    refine ⟨fun hs => by simp [Ty.rtShape] at hs, fun hs => ?_⟩
    simp only [Ty.rtShape] at hs
    exact rtField_pmap k v hwf hs.2.1 hs.2.2 ((ihk hwf.1).1 (keySafe_shape k hs.2.1)) ((ihv hwf.2.1).1 hs.2.2)

mutual
theorem pp_ty : (t : Ty) → PP t
  | .bool => pp_scalar _ rfl
  | .int _ => pp_scalar _ rfl
  | .uint _ => pp_scalar _ rfl
  | .flat _ => pp_scalar _ rfl
  | .f32 => pp_scalar _ rfl
  | .f64 => pp_scalar _ rfl
  | .str b => pp_of_val _ rfl (fun _ _ => rt_str b)
  | .bytes => pp_of_val _ rfl (fun _ _ => rt_bytes)
  | .time c => pp_of_val _ rfl (fun _ _ => rt_time c)
  | .ptr u => pp_ptr u (pp_ty u)
  | .vslice u => pp_vslice u (pp_ty u)
  | .fslice u => pp_of_val _ rfl (fun hwf _ => rt_fslice u hwf)
  | .lslice u => pp_lslice u (pp_ty u)
  | .pslice u => pp_pslice u (pp_ty u)
  | .struct nm fs => pp_struct nm fs (pp_fields fs)
  | .map k v p => pp_map k v p (pp_ty k) (pp_ty v)
theorem pp_fields : (fs : Fields) → ∀ f ∈ fs, PP f.2.2
  | [] => by intro f hf; simp at hf
  | (_, _, t) :: r => by
      intro f hf
      rcases List.mem_cons.mp hf with rfl | hf
      · exact pp_ty t
      · exact pp_fields r f hf
end

/-- C01: `Unmarshal(Marshal(v))` recovers `v` up to the documented normalisation,
for every accepted codec tree in the round-trip shapes and every value of its type. -/
theorem roundtrip (t : Ty) (v : Val) (hwf : t.wf) (hshape : Ty.rtShape false t) (hnp : t.isPtr = false)
    (hty : t.hasTy v) (hsz : (marshal t v).length < 2 ^ 63) :
    unmarshal t (marshal t v) t.zero = .ok (t.normPos v) := by
  unfold marshal at hsz ⊢
  unfold unmarshal Ty.normPos
  cases ho : v.omit with
  | true =>
    simp only [↓reduceIte, read_nil t hwf hshape hnp]
  | false =>
    simp only [ho, Bool.false_eq_true, ↓reduceIte] at hsz ⊢
    have h := (pp_ty t hwf).1 hshape v hty (ne_ptr_none_of_not_omit v ho)
      (ne_map_none_of_not_omit v ho) (by omega)
    by_cases hw : t.wt = .len
    · rw [hw, h.1 hw]
    · have := h.2 hw []
      rw [List.append_nil] at this
      rw [this]

/-- the same with the number of bytes consumed: the reader consumes exactly the
marshalled bytes. -/
theorem roundtrip_consumed (t : Ty) (v : Val) (hwf : t.wf) (hshape : Ty.rtShape false t)
    (hnp : t.isPtr = false) (hty : t.hasTy v) (hsz : (marshal t v).length < 2 ^ 63) :
    t.read t.wt (marshal t v) t.zero = .ok (t.normPos v, (marshal t v).length) := by
  unfold marshal at hsz ⊢
  unfold Ty.normPos
  cases ho : v.omit with
  | true =>
    simp only [↓reduceIte, read_nil t hwf hshape hnp, List.length_nil]
  | false =>
    simp only [ho, Bool.false_eq_true, ↓reduceIte] at hsz ⊢
    have h := (pp_ty t hwf).1 hshape v hty (ne_ptr_none_of_not_omit v ho)
      (ne_map_none_of_not_omit v ho) (by omega)
    by_cases hw : t.wt = .len
    · rw [hw, h.1 hw]
    · have := h.2 hw []
      rw [List.append_nil] at this
      rw [this]

end RT
