import Proofs.RoundTripLoops
/-
  Proofs.RoundTripMaps — round trip of `MapCodec` (value position) and
  `ProtoMapCodec` (field position): Go `==` on keys, the association-list view of
  `mapassign`, decoding of one entry, the entry loops.
-/
namespace RT

/-! ### Go `==` on model values is symmetric -/

mutual
theorem beq_symm : (a b : Val) → a.beq b = b.beq a
  | .bool x, b => by
      cases b with
      | bool y => simp only [Val.beq] <;> exact BEq.comm
      | ptr o => cases o <;> rfl
      | map o => cases o <;> rfl
      | _ => rfl
  | .int x, b => by
      cases b with
      | int y => simp only [Val.beq] <;> exact BEq.comm
      | ptr o => cases o <;> rfl
      | map o => cases o <;> rfl
      | _ => rfl
  | .uint x, b => by
      cases b with
      | uint y => simp only [Val.beq] <;> exact BEq.comm
      | ptr o => cases o <;> rfl
      | map o => cases o <;> rfl
      | _ => rfl
  | .f32 x, b => by
      cases b with
      | f32 y => simp only [Val.beq] <;> exact BEq.comm
      | ptr o => cases o <;> rfl
      | map o => cases o <;> rfl
      | _ => rfl
  | .f64 x, b => by
      cases b with
      | f64 y => simp only [Val.beq] <;> exact BEq.comm
      | ptr o => cases o <;> rfl
      | map o => cases o <;> rfl
      | _ => rfl
  | .str x, b => by
      cases b with
      | str y => simp only [Val.beq] <;> exact BEq.comm
      | ptr o => cases o <;> rfl
      | map o => cases o <;> rfl
      | _ => rfl
  | .bytes x, b => by
      cases b with
      | bytes y => simp only [Val.beq] <;> exact BEq.comm
      | ptr o => cases o <;> rfl
      | map o => cases o <;> rfl
      | _ => rfl
  | .time s n, b => by
      cases b with
      | time s' n' => simp only [Val.beq]; rw [BEq.comm (a := s), BEq.comm (a := n)]
      | ptr o => cases o <;> rfl
      | map o => cases o <;> rfl
      | _ => rfl
  | .ptr none, b => by
      cases b with
      | ptr o => cases o <;> rfl
      | map o => cases o <;> rfl
      | _ => rfl
  | .ptr (some a), b => by
      cases b with
      | ptr o =>
        cases o with
        | none => rfl
        | some b => simp only [Val.beq]; exact beq_symm a b
      | map o => cases o <;> rfl
      | _ => rfl
  | .slice as, b => by
      cases b with
      | slice bs => simp only [Val.beq]; exact beqList_symm as bs
      | ptr o => cases o <;> rfl
      | map o => cases o <;> rfl
      | _ => rfl
  | .struct as, b => by
      cases b with
      | struct bs => simp only [Val.beq]; exact beqList_symm as bs
      | ptr o => cases o <;> rfl
      | map o => cases o <;> rfl
      | _ => rfl
  | .map none, b => by
      cases b with
      | map o => cases o <;> rfl
      | ptr o => cases o <;> rfl
      | _ => rfl
  | .map (some as), b => by
      cases b with
      | map o =>
        cases o with
        | none => rfl
        | some bs => simp only [Val.beq]; exact beqEntries_symm as bs
      | ptr o => cases o <;> rfl
      | _ => rfl
theorem beqList_symm : (as bs : List Val) → Val.beqList as bs = Val.beqList bs as
  | [], [] => rfl
  | [], _ :: _ => rfl
  | _ :: _, [] => rfl
  | a :: as, b :: bs => by simp only [Val.beqList, beq_symm a b, beqList_symm as bs]
theorem beqEntries_symm : (as bs : List (Val × Val)) → Val.beqEntries as bs = Val.beqEntries bs as
  | [], [] => rfl
  | [], _ :: _ => rfl
  | _ :: _, [] => rfl
  | (a, x) :: as, (b, y) :: bs => by
      simp only [Val.beqEntries, beq_symm a b, beq_symm x y, beqEntries_symm as bs]
end

/-! ### `mapassign` on distinct keys appends -/

theorem keysDistinct_split : ∀ (pre : List (Val × Val)) (e : Val × Val) (suf : List (Val × Val)),
    keysDistinct (pre ++ e :: suf) → ∀ e' ∈ pre, e'.1.beq e.1 = false := by
  intro pre
  induction pre with
  | nil => intro e suf _ e' he'; simp at he'
  | cons p pre ih =>
    obtain ⟨k, x⟩ := p
    intro e suf h e' he'
    simp only [List.cons_append, keysDistinct] at h
    rcases List.mem_cons.mp he' with rfl | hm
    · rw [beq_symm]
      exact h.1 e (by simp)
    · exact ih e suf h.2 e' hm

theorem mapLookup_none (k : Val) : ∀ (l : List (Val × Val)), (∀ e' ∈ l, e'.1.beq k = false) →
    mapLookup k l = none := by
  intro l
  induction l with
  | nil => intro _; rfl
  | cons p l ih =>
    obtain ⟨k', x⟩ := p
    intro h
    have h1 : k'.beq k = false := h (k', x) (by simp)
    simp only [mapLookup, h1, Bool.false_eq_true, ↓reduceIte]
    exact ih (fun e' he' => h e' (by simp [he']))

theorem mapSet_append (k v : Val) : ∀ (l : List (Val × Val)), (∀ e' ∈ l, e'.1.beq k = false) →
    mapSet k v l = l ++ [(k, v)] := by
  intro l
  induction l with
  | nil => intro _; rfl
  | cons p l ih =>
    obtain ⟨k', x⟩ := p
    intro h
    have h1 : k'.beq k = false := h (k', x) (by simp)
    simp only [mapSet, h1, Bool.false_eq_true, ↓reduceIte, List.cons_append]
    rw [ih (fun e' he' => h e' (by simp [he']))]

/-! ### key types -/

theorem keySafe_omit_zero (t : Ty) (hk : t.keySafe) (v : Val) (hty : t.hasTy v) (ho : v.omit = true) :
    v = t.zero := by
  cases t <;> cases v <;> simp_all [Ty.keySafe, Ty.hasTy, Val.omit, Ty.zero]

theorem keySafe_notPtr (t : Ty) (hk : t.keySafe) : t.isPtr = false := by
  cases t <;> simp_all [Ty.keySafe, Ty.isPtr]

mutual
theorem keySafe_norm : (t : Ty) → t.keySafe → ∀ v, t.hasTy v → t.norm v = v
  | .bool, _, _, _ => rfl
  | .int _, _, _, _ => rfl
  | .uint _, _, _, _ => rfl
  | .flat _, _, _, _ => rfl
  | .str _, _, _, _ => rfl
  | .struct nm fs, hk, v, hty => by
      cases v with
      | struct vs =>
        simp only [Ty.keySafe] at hk
        simp only [Ty.hasTy] at hty
        simp only [Ty.norm, keySafe_fieldsNorm fs hk vs hty]
      | _ => simp [Ty.hasTy] at hty
  | .f32, hk, _, _ | .f64, hk, _, _ | .bytes, hk, _, _ | .time _, hk, _, _ | .ptr _, hk, _, _
  | .vslice _, hk, _, _ | .fslice _, hk, _, _ | .lslice _, hk, _, _ | .pslice _, hk, _, _
  | .map _ _ _, hk, _, _ => by simp [Ty.keySafe] at hk
theorem keySafe_fieldsNorm : (fs : Fields) → fieldsKeySafe fs → ∀ vs, fieldsHaveTy fs vs → fieldsNorm fs vs = vs
  | [], _, vs, hty => by
      cases vs with
      | nil => rfl
      | cons _ _ => simp [fieldsHaveTy] at hty
  | (_, _, t) :: r, hk, vs, hty => by
      cases vs with
      | nil => simp [fieldsHaveTy] at hty
      | cons v vs =>
        simp only [fieldsKeySafe] at hk
        simp only [fieldsHaveTy] at hty
        simp only [fieldsNorm, keySafe_fieldsNorm r hk.2 vs hty.2, keySafe_norm t hk.1 v hty.1]
        cases ho : v.omit with
        | true => simp only [↓reduceIte]; rw [← keySafe_omit_zero t hk.1 v hty.1 ho]
        | false => simp only [Bool.false_eq_true, ↓reduceIte]
end

mutual
theorem keySafe_shape : (t : Ty) → t.keySafe → Ty.rtShape false t
  | .bool, _ | .int _, _ | .uint _, _ | .flat _, _ | .str _, _ => by simp [Ty.rtShape]
  | .struct nm fs, hk => by
      simp only [Ty.keySafe] at hk
      simp only [Ty.rtShape]
      exact keySafe_fieldsShape fs hk
  | .f32, hk | .f64, hk | .bytes, hk | .time _, hk | .ptr _, hk
  | .vslice _, hk | .fslice _, hk | .lslice _, hk | .pslice _, hk
  | .map _ _ _, hk => by simp [Ty.keySafe] at hk
theorem keySafe_fieldsShape : (fs : Fields) → fieldsKeySafe fs → fieldsRtShape fs
  | [], _ => by simp [fieldsRtShape]
  | (_, _, t) :: r, hk => by
      simp only [fieldsKeySafe] at hk
      simp only [fieldsRtShape]
      exact ⟨shape_true_of_false t (keySafe_shape t hk.1), keySafe_fieldsShape r hk.2⟩
end

/-- the normalised key of an entry is the key itself. -/
theorem key_norm_id (k : Ty) (hk : k.keySafe) (x : Val) (hty : k.hasTy x) :
    (if x.omit then k.zero else k.norm x) = x := by
  cases ho : x.omit with
  | true => simp only [↓reduceIte]; exact (keySafe_omit_zero k hk x hty ho).symm
  | false => simp only [Bool.false_eq_true, ↓reduceIte]; exact keySafe_norm k hk x hty

/-! ### decoding one tagged field of a map entry -/

theorem readTagAndLength_len (j : Nat) (hj : j < 2 ^ 61) (B rest : Bytes) (hB : B.length < 2 ^ 64) :
    readTagAndLength (appendTag .len j ++ (appendVarUint B.length ++ (B ++ rest)))
      = some (.len, j, (appendTag .len j).length + (appendVarUint B.length).length, B.length) := by
  have hn : ¬ (((appendTag .len j).length : Int) < 0) := by omega
  have hgt : ¬ (B.length > (B ++ rest).length) := by simp only [List.length_append]; omega
  have hd : (appendTag .len j ++ (appendVarUint B.length ++ (B ++ rest))).drop
      ((appendTag .len j).length + (appendVarUint B.length).length) = B ++ rest := by
    rw [← List.append_assoc]; exact drop_append_len _ _ _ (by simp only [List.length_append])
  simp only [readTagAndLength, readTagRaw_append .len j hj, Int.ofNat_eq_natCast, hn, ↓reduceIte,
    Int.toNat_natCast, drop_append_len _ _ _ rfl, readU_append _ hB, hd, hgt]

theorem readTagAndLength_other (wt : WT) (hw : wt ≠ .len) (j : Nat) (hj : j < 2 ^ 61) (P : Bytes) :
    readTagAndLength (appendTag wt j ++ P) = some (wt, j, (appendTag wt j).length, P.length) := by
  have hn : ¬ (((appendTag wt j).length : Int) < 0) := by omega
  simp only [readTagAndLength, readTagRaw_append wt j hj, Int.ofNat_eq_natCast, hn, ↓reduceIte, hw,
    Int.toNat_natCast, drop_append_len _ _ _ rfl]

/-- a key or value of a map entry, appended under tag `j`, is found again by
`readTagAndLength` and read back by its codec from the bytes it delimits. -/
theorem field_decode (t : Ty) (hwf : t.wf) (hs : Ty.rtShape false t) (h : RTVal t)
    (x : Val) (hty : t.hasTy x) (hom : x.omit = false) (j : Nat) (hj : j < 2 ^ 61)
    (hsz : (t.app x (appendTag t.wt j)).length < 2 ^ 64) (rest : Bytes) :
    ∃ hdr fl, readTagAndLength (t.app x (appendTag t.wt j) ++ rest) = some (t.wt, j, hdr, fl) ∧
      0 < hdr ∧ hdr ≤ (t.app x (appendTag t.wt j)).length ∧
      t.read t.wt (((t.app x (appendTag t.wt j) ++ rest).drop hdr).take fl) t.zero
        = .ok (t.norm x, (t.app x (appendTag t.wt j)).length - hdr) := by
  have hv := ne_ptr_none_of_not_omit x hom
  have hv2 := ne_map_none_of_not_omit x hom
  have hpres := present_of_shape t hs x hty hv
  have htag := appendTag_ne_nil t.wt j
  have htl := appendTag_len_pos t.wt j
  by_cases hw : t.wt = .len
  · have hE := app_frame_len t x (appendTag t.wt j) hwf hty hpres hw (deref_not_rep t hs) htag
    rw [hE] at hsz ⊢
    generalize hB : t.app x [] = B at hsz h ⊢
    simp only [List.length_append] at hsz
    have hBl : B.length < 2 ^ 64 := by omega
    have hread := (h x hty hv hv2 (by rw [hB]; exact hBl)).1 hw
    rw [hB] at hread
    refine ⟨(appendTag t.wt j).length + (appendVarUint B.length).length, B.length, ?_, by omega, ?_, ?_⟩
    · simp only [List.append_assoc]
      rw [hw]
      exact readTagAndLength_len j hj B rest hBl
    · simp only [List.length_append]; omega
    · have hd : (appendTag t.wt j ++ appendVarUint B.length ++ B ++ rest).drop
          ((appendTag t.wt j).length + (appendVarUint B.length).length) = B ++ rest := by
        rw [List.append_assoc]; exact drop_append_len _ _ _ (by simp only [List.length_append])
      rw [hd, take_append_len _ _ _ rfl, hw, hread]
      simp only [List.length_append]
      congr 2; omega
  · have hE := app_frame_other t x (appendTag t.wt j) hwf hty hpres hw
    rw [hE] at hsz ⊢
    generalize hB : t.app x [] = B at hsz h ⊢
    simp only [List.length_append] at hsz
    have hBl : B.length < 2 ^ 64 := by omega
    have hread := (h x hty hv hv2 (by rw [hB]; exact hBl)).2 hw rest
    rw [hB] at hread
    refine ⟨(appendTag t.wt j).length, (B ++ rest).length, ?_, htl, ?_, ?_⟩
    · rw [List.append_assoc]
      exact readTagAndLength_other t.wt hw j hj (B ++ rest)
    · simp only [List.length_append]; omega
    · rw [List.append_assoc, drop_append_len _ _ _ rfl, List.take_length, hread]
      simp only [List.length_append]
      congr 2; omega

/-! ### one entry -/

section entry
variable (rdK : WT → Bytes → Res (Val × Nat)) (rdV : WT → Bytes → Val → Res (Val × Nat)) (kz vz : Val)

theorem readMapEntry_none (es : List (Val × Val)) :
    readMapEntry rdK rdV kz vz [] es = .ok (mapSet kz vz es, 0) := by
  have h0 : readTagAndLength [] = some (.varint, 0, 0, 0) := by
    simp [readTagAndLength, readTagRaw, readVarUint, uvarintAux, WT.ofCode]
  simp [readMapEntry, h0]

theorem readMapEntry_k (FK : Bytes) (wtk : WT) (hdr fl : Nat) (nk : Val) (es : List (Val × Val))
    (h1 : readTagAndLength FK = some (wtk, 1, hdr, fl))
    (h2 : rdK wtk ((FK.drop hdr).take fl) = .ok (nk, FK.length - hdr)) (hh : hdr ≤ FK.length) :
    readMapEntry rdK rdV kz vz FK es = .ok (mapSet nk vz es, FK.length) := by
  have e : hdr + (FK.length - hdr) = FK.length := by omega
  have hlt : ¬ (FK.length < FK.length ∨ (1 : Nat) = 2) := by omega
  simp only [readMapEntry, h1, ↓reduceIte, h2, e, hlt]

theorem readMapEntry_v (FV : Bytes) (wtv : WT) (hdr fl : Nat) (nv : Val) (es : List (Val × Val))
    (h1 : readTagAndLength FV = some (wtv, 2, hdr, fl))
    (h2 : rdV wtv ((FV.drop hdr).take fl) ((mapLookup kz es).getD vz) = .ok (nv, FV.length - hdr))
    (hh : hdr ≤ FV.length) :
    readMapEntry rdK rdV kz vz FV es = .ok (mapSet kz nv es, FV.length) := by
  have e : hdr + (FV.length - hdr) = FV.length := by omega
  have h21 : ¬ ((2 : Nat) = 1) := by omega
  simp only [readMapEntry, h1, h21, ↓reduceIte, or_true, h2, e]

theorem readMapEntry_kv (FK FV : Bytes) (wtk wtv : WT) (hdr fl hdr2 fl2 j2 : Nat) (nk nv : Val)
    (es : List (Val × Val))
    (h1 : readTagAndLength (FK ++ FV) = some (wtk, 1, hdr, fl))
    (h2 : rdK wtk (((FK ++ FV).drop hdr).take fl) = .ok (nk, FK.length - hdr)) (hh : hdr ≤ FK.length)
    (h3 : readTagAndLength FV = some (wtv, j2, hdr2, fl2))
    (h4 : rdV wtv ((FV.drop hdr2).take fl2) ((mapLookup nk es).getD vz) = .ok (nv, FV.length - hdr2))
    (hh2 : hdr2 ≤ FV.length) (hne : 0 < FV.length) :
    readMapEntry rdK rdV kz vz (FK ++ FV) es = .ok (mapSet nk nv es, (FK ++ FV).length) := by
  have e : hdr + (FK.length - hdr) = FK.length := by omega
  have hlt : FK.length < (FK ++ FV).length ∨ (1 : Nat) = 2 := by
    left; simp only [List.length_append]; omega
  have hd : (FK ++ FV).drop (FK.length + hdr2) = FV.drop hdr2 := by
    rw [← List.drop_drop, drop_append_len _ _ _ rfl]
  have e2 : FK.length + hdr2 + (FV.length - hdr2) = (FK ++ FV).length := by
    simp only [List.length_append]; omega
  simp only [readMapEntry, h1, ↓reduceIte, h2, e, hlt, drop_append_len _ _ _ rfl, h3, hd, h4, e2]

end entry

/-! ### one entry of a typed map -/

/-- the documented normalisation of one entry (the function mapped over the
entries inside `Ty.norm`). -/
def entryNorm (k v : Ty) (e : Val × Val) : Val × Val :=
  ((if e.1.omit then k.zero else k.norm e.1), (if e.2.omit then v.zero else v.norm e.2))

theorem norm_map (k v : Ty) (p : Bool) (es : List (Val × Val)) :
    (Ty.map k v p).norm (.map (some es))
      = if p = true ∧ es.isEmpty then .map none else .map (some (es.map (entryNorm k v))) := by
  simp only [Ty.norm]; rfl

theorem entry_rt (k v : Ty) (hkwf : k.wf) (hvwf : v.wf) (hks : Ty.rtShape false k)
    (hvs : Ty.rtShape false v) (ihk : RTVal k) (ihv : RTVal v) (e : Val × Val)
    (hk : k.hasTy e.1) (hv : v.hasTy e.2) (hsz : (entryBody k v e).length < 2 ^ 64)
    (es : List (Val × Val)) (hnew : ∀ e' ∈ es, e'.1.beq (entryNorm k v e).1 = false) :
    readMapEntry (fun wt b => k.read wt b k.zero) (fun wt b s => v.read wt b s) k.zero v.zero
        (entryBody k v e) es
      = .ok (es ++ [entryNorm k v e], (entryBody k v e).length) := by
  obtain ⟨x, y⟩ := e
  simp only at hk hv
  have hlook := mapLookup_none _ es hnew
  rw [← mapSet_append _ (entryNorm k v (x, y)).2 es hnew]
  cases hox : x.omit with
  | true =>
    cases hoy : y.omit with
    | true =>
      simp only [entryBody, entryNorm, hox, hoy, ↓reduceIte, List.append_nil, List.length_nil]
      exact readMapEntry_none _ _ _ _ es
    | false =>
      simp only [entryBody, entryNorm, hox, hoy, ↓reduceIte, Bool.false_eq_true, List.nil_append] at hsz hlook ⊢
      obtain ⟨hdr, fl, h1, _, hle, h2⟩ := field_decode v hvwf hvs ihv y hv hoy 2 (by omega) hsz []
      rw [List.append_nil] at h1 h2
      refine readMapEntry_v _ _ _ _ _ v.wt hdr fl _ es h1 ?_ hle
      rw [hlook]
      exact h2
  | false =>
    cases hoy : y.omit with
    | true =>
      simp only [entryBody, entryNorm, hox, hoy, ↓reduceIte, Bool.false_eq_true, List.append_nil] at hsz ⊢
      obtain ⟨hdr, fl, h1, _, hle, h2⟩ := field_decode k hkwf hks ihk x hk hox 1 (by omega) hsz []
      rw [List.append_nil] at h1 h2
      exact readMapEntry_k _ _ _ _ _ k.wt hdr fl _ es h1 h2 hle
    | false =>
      simp only [entryBody, entryNorm, hox, hoy, ↓reduceIte, Bool.false_eq_true] at hsz hlook ⊢
      simp only [List.length_append] at hsz
      obtain ⟨hdr, fl, h1, _, hle, h2⟩ := field_decode k hkwf hks ihk x hk hox 1 (by omega) (by omega)
        (v.app y (appendTag v.wt 2))
      obtain ⟨hdr2, fl2, h3, hpos2, hle2, h4⟩ := field_decode v hvwf hvs ihv y hv hoy 2 (by omega) (by omega) []
      rw [List.append_nil] at h3 h4
      refine readMapEntry_kv _ _ _ _ _ _ k.wt v.wt hdr fl hdr2 fl2 2 _ _ es h1 h2 hle h3 ?_ hle2 (by omega)
      rw [hlook]
      exact h4

/-- the keys already stored never equal (Go `==`) the key of a later entry. -/
theorem keys_new (k v : Ty) (hks : k.keySafe) (es : List (Val × Val))
    (htys : ∀ e ∈ es, k.hasTy e.1 ∧ v.hasTy e.2) (hd : keysDistinct es)
    (pre : List (Val × Val)) (e : Val × Val) (suf : List (Val × Val)) (h : es = pre ++ e :: suf) :
    ∀ e' ∈ pre.map (entryNorm k v), e'.1.beq (entryNorm k v e).1 = false := by
  intro e' he'
  obtain ⟨e0, he0, rfl⟩ := List.mem_map.mp he'
  have hm0 : e0 ∈ es := by rw [h]; simp [he0]
  have hm : e ∈ es := by rw [h]; simp
  simp only [entryNorm]
  rw [key_norm_id k hks e0.1 (htys e0 hm0).1, key_norm_id k hks e.1 (htys e hm).1]
  rw [h] at hd
  exact keysDistinct_split pre e suf hd e0 he0

/-- every entry of a typed map with distinct keys decodes, in order, onto the
entries decoded so far. -/
theorem entries_rt (k v : Ty) (hkwf : k.wf) (hvwf : v.wf) (hks : k.keySafe)
    (hvs : Ty.rtShape false v) (ihk : RTVal k) (ihv : RTVal v) (es : List (Val × Val))
    (htys : ∀ e ∈ es, k.hasTy e.1 ∧ v.hasTy e.2) (hd : keysDistinct es)
    (hsz : ∀ e ∈ es, (entryBody k v e).length < 2 ^ 64) :
    ∀ pre e suf, es = pre ++ e :: suf →
      (entryBody k v e).length < 2 ^ 64 ∧
      readMapEntry (fun wt b => k.read wt b k.zero) (fun wt b s => v.read wt b s) k.zero v.zero
          (entryBody k v e) ([] ++ pre.map (entryNorm k v))
        = .ok ([] ++ pre.map (entryNorm k v) ++ [entryNorm k v e], (entryBody k v e).length) := by
  intro pre e suf h
  have hm : e ∈ es := by rw [h]; simp
  refine ⟨hsz e hm, ?_⟩
  simp only [List.nil_append]
  exact entry_rt k v hkwf hvwf (keySafe_shape k hks) hvs ihk ihv e (htys e hm).1 (htys e hm).2 (hsz e hm) _
    (keys_new k v hks es htys hd pre e suf h)

/-! ### `MapCodec`: the counted entry loop -/

theorem mapLoop_entries (rdEntry : Bytes → List (Val × Val) → Res (List (Val × Val) × Nat))
    (body : Val × Val → Bytes) (nrm : Val × Val → Val × Val) :
    ∀ (ents acc : List (Val × Val)) (rest : Bytes) (off : Nat),
      (∀ pre e suf, ents = pre ++ e :: suf → (body e).length < 2 ^ 64 ∧
        rdEntry (body e) (acc ++ pre.map nrm) = .ok (acc ++ pre.map nrm ++ [nrm e], (body e).length)) →
      mapLoop rdEntry ents.length
          (ents.flatMap (fun e => appendVarUint (body e).length ++ body e) ++ rest) off acc
        = .ok (acc ++ ents.map nrm,
            off + (ents.flatMap (fun e => appendVarUint (body e).length ++ body e)).length) := by
  intro ents
  induction ents with
  | nil => intro acc rest off _; simp [mapLoop]
  | cons e ents ih =>
    intro acc rest off H
    obtain ⟨hl, hr⟩ := H [] e ents rfl
    simp only [List.map_nil, List.append_nil] at hr
    simp only [List.length_cons, List.flatMap_cons, List.append_assoc, mapLoop]
    rw [readU_append _ hl]
    simp only [drop_append_len _ _ _ rfl, List.length_append]
    have hgt : ¬ ((body e).length >
        (body e).length + ((ents.flatMap fun e => appendVarUint (body e).length ++ body e).length + rest.length)) := by
      omega
    simp only [hgt, ↓reduceIte, take_append_len _ _ _ rfl, hr]
    have hd : List.drop ((appendVarUint (body e).length).length + (body e).length)
        (appendVarUint (body e).length ++ (body e ++
          ((ents.flatMap fun e => appendVarUint (body e).length ++ body e) ++ rest)))
        = (ents.flatMap fun e => appendVarUint (body e).length ++ body e) ++ rest := by
      rw [← List.append_assoc]
      exact drop_append_len _ _ _ (by simp [List.length_append])
    rw [hd, ih (acc ++ [nrm e]) rest _ (fun pre e' suf h => by
      have := H (e :: pre) e' suf (by rw [h]; rfl)
      simpa [List.append_assoc] using this)]
    simp only [List.map_cons, List.append_assoc, List.singleton_append, Nat.add_assoc]

theorem entryBody_le (k v : Ty) (es : List (Val × Val)) (e : Val × Val) (he : e ∈ es) :
    (entryBody k v e).length
      ≤ (es.flatMap fun e => appendVarUint (entryBody k v e).length ++ entryBody k v e).length := by
  have := length_le_flatMap_of_mem (fun e => appendVarUint (entryBody k v e).length ++ entryBody k v e) es e he
  simp only [List.length_append] at this
  omega

theorem rt_map (k v : Ty) (hwf : (Ty.map k v false).wf) (hks : k.keySafe) (hvs : Ty.rtShape false v)
    (ihk : RTVal k) (ihv : RTVal v) : RTVal (.map k v false) := by
  intro x hty _ hx hsz
  cases x with
  | map o =>
    cases o with
    | none => exact absurd rfl hx
    | some es =>
      refine ⟨fun h => by simp [Ty.wt] at h, fun _ rest => ?_⟩
      have he := map_entries k v es [] hwf hty
      simp only [List.nil_append] at he
      rw [he] at hsz ⊢
      simp only [Ty.wf] at hwf
      simp only [Ty.hasTy] at hty
      have hle := entryBody_le k v es
      have H := entries_rt k v hwf.1 hwf.2.1 hks hvs ihk ihv es hty.1 hty.2 (fun e he => by
        have := hle e he
        simp only [List.length_append] at hsz
        omega)
      have hloop := mapLoop_entries
        (readMapEntry (fun wt b => k.read wt b k.zero) (fun wt b s => v.read wt b s) k.zero v.zero)
        (entryBody k v) (entryNorm k v) es [] rest (appendVarUint es.length).length H
      generalize hE : (es.flatMap fun e => appendVarUint (entryBody k v e).length ++ entryBody k v e) = E
        at hsz hloop ⊢
      have hcnt : es.length ≤ E.length := by
        rw [← hE]
        apply length_le_flatMap_length
        intro e _
        have := append_len_pos (entryBody k v e).length
        simp only [List.length_append]; omega
      simp only [List.length_append] at hsz
      have hn : es.length < 2 ^ 64 := by omega
      have hne : (appendVarUint es.length ++ E ++ rest).isEmpty = false := by
        have := append_len_pos es.length
        cases h : appendVarUint es.length ++ E ++ rest with
        | nil =>
          have := congrArg List.length h
          simp only [List.length_append, List.length_nil] at this; omega
        | cons _ _ => rfl
      have hc : ¬ (es.length > (appendVarUint es.length).length + (E.length + rest.length)
          - (appendVarUint es.length).length) := by omega
      have hnf : ¬ (false = true ∧ es.isEmpty = true) := by simp
      simp only [Ty.read, Ty.zero, hne, Bool.false_eq_true, ↓reduceIte]
      simp only [List.append_assoc, readU_append _ hn, List.length_append, hc, ↓reduceIte,
        drop_append_len _ _ _ rfl, hloop, norm_map, hnf, List.nil_append]
  | _ => simp [Ty.hasTy] at hty

/-! ### `ProtoMapCodec`: one frame per entry, in field position -/

/-- one iteration of the struct loop over a length-delimited frame of field `i`. -/
theorem frame_step (t : Ty) (i : Nat) (hi : i < 2 ^ 61)
    (rd : Nat → WT → Bytes → List Val → Res (List Val × Nat)) (put : Val → List Val)
    (hrd : ∀ wt body a, rd i wt body (put a) = Res.mapFst put (fieldRead t wt body a))
    (B rest : Bytes) (hB : B.length < 2 ^ 64) (pv pv' : Val)
    (hread : t.read .len B pv = .ok (pv', B.length)) (fuel off : Nat)
    (hf : (appendTag .len i ++ (appendVarUint B.length ++ (B ++ rest))).length < fuel) :
    structLoop rd fuel (appendTag .len i ++ (appendVarUint B.length ++ (B ++ rest))) off (put pv)
      = structLoop rd fuel rest
          (off + ((appendTag .len i).length + ((appendVarUint B.length).length + B.length))) (put pv') := by
  have hstep : rd i .len (appendVarUint B.length ++ (B ++ rest)) (put pv)
      = .ok (put pv', (appendVarUint B.length).length + B.length) := by
    rw [hrd, fieldRead_len _ B _ _ hB, hread]; rfl
  rw [structLoop_step rd fuel .len i hi _ off _ _ _ (by simp only [List.length_append]; omega) hstep hf]
  have hd : (appendVarUint B.length ++ (B ++ rest)).drop ((appendVarUint B.length).length + B.length) = rest := by
    rw [← List.append_assoc]; exact drop_append_len _ _ _ (by simp only [List.length_append])
  rw [hd]

theorem pmap_loop (k v : Ty) (i : Nat) (hi : i < 2 ^ 61)
    (rd : Nat → WT → Bytes → List Val → Res (List Val × Nat)) (put : Val → List Val)
    (hrd : ∀ wt body a, rd i wt body (put a) = Res.mapFst put (fieldRead (.map k v true) wt body a)) :
    ∀ (ents acc : List (Val × Val)) (fuel : Nat) (rest : Bytes) (off : Nat),
      (∀ pre e suf, ents = pre ++ e :: suf → (entryBody k v e).length < 2 ^ 64 ∧
        readMapEntry (fun wt b => k.read wt b k.zero) (fun wt b s => v.read wt b s) k.zero v.zero
            (entryBody k v e) (acc ++ pre.map (entryNorm k v))
          = .ok (acc ++ pre.map (entryNorm k v) ++ [entryNorm k v e], (entryBody k v e).length)) →
      ((ents.flatMap fun e => appendTag .len i ++ (appendVarUint (entryBody k v e).length ++ entryBody k v e))
          ++ rest).length < fuel →
      structLoop rd fuel
          ((ents.flatMap fun e => appendTag .len i ++ (appendVarUint (entryBody k v e).length ++ entryBody k v e))
            ++ rest) off (put (.map (some acc)))
        = structLoop rd fuel rest
            (off + (ents.flatMap fun e =>
              appendTag .len i ++ (appendVarUint (entryBody k v e).length ++ entryBody k v e)).length)
            (put (.map (some (acc ++ ents.map (entryNorm k v))))) := by
  intro ents
  induction ents with
  | nil => intro acc fuel rest off _ _; simp
  | cons e ents ih =>
    intro acc fuel rest off H hf
    obtain ⟨hl, hr⟩ := H [] e ents rfl
    simp only [List.map_nil, List.append_nil] at hr
    simp only [List.flatMap_cons, List.append_assoc, List.length_append] at hf ⊢
    have hread : (Ty.map k v true).read .len (entryBody k v e) (.map (some acc))
        = .ok (.map (some (acc ++ [entryNorm k v e])), (entryBody k v e).length) := by
      simp only [Ty.read, hr]
    rw [frame_step (.map k v true) i hi rd put hrd (entryBody k v e) _ hl _ _ hread fuel off
      (by simp only [List.length_append]; omega)]
    rw [ih (acc ++ [entryNorm k v e]) fuel rest _ (fun pre e' suf h => by
      have := H (e :: pre) e' suf (by rw [h]; rfl)
      simpa [List.append_assoc] using this) (by simp only [List.length_append]; omega)]
    simp only [List.map_cons, List.append_assoc, List.singleton_append, Nat.add_assoc]

theorem rtField_pmap (k v : Ty) (hwf : (Ty.map k v true).wf) (hks : k.keySafe) (hvs : Ty.rtShape false v)
    (ihk : RTVal k) (ihv : RTVal v) : RTField (.map k v true) := by
  intro i x hi hty hom hsz rd put hrd fuel rest off hf
  cases x with
  | map o =>
    cases o with
    | none => simp [Val.omit] at hom
    | some es =>
      have he := pmap_frames k v es (appendTag (Ty.map k v true).wt i) hwf hty
      rw [he] at hsz hf ⊢
      simp only [Ty.wf] at hwf
      simp only [Ty.hasTy] at hty
      simp only [Ty.wt, List.append_assoc] at hsz hf hrd ⊢
      have hle : ∀ e ∈ es, (entryBody k v e).length < 2 ^ 64 := by
        intro e he
        have := length_le_flatMap_of_mem
          (fun e => appendTag .len i ++ (appendVarUint (entryBody k v e).length ++ entryBody k v e)) es e he
        simp only [List.length_append] at this
        omega
      have H := entries_rt k v hwf.1 hwf.2.1 hks hvs ihk ihv es hty.1 hty.2 hle
      cases es with
      | nil => simp [Ty.zero, norm_map]
      | cons e es' =>
        obtain ⟨hl, hr⟩ := H [] e es' rfl
        simp only [List.map_nil, List.append_nil] at hr
        simp only [List.flatMap_cons, List.append_assoc, List.length_append] at hf ⊢
        have hread : (Ty.map k v true).read .len (entryBody k v e) (.map none)
            = .ok (.map (some ([] ++ [entryNorm k v e])), (entryBody k v e).length) := by
          simp only [Ty.read, hr]
        simp only [Ty.zero, norm_map, List.isEmpty_cons, Bool.false_eq_true, and_false, ↓reduceIte]
        rw [frame_step (.map k v true) i hi rd put hrd (entryBody k v e) _ hl _ _ hread fuel off
          (by simp only [List.length_append]; omega)]
        rw [pmap_loop k v i hi rd put hrd es' ([] ++ [entryNorm k v e]) fuel rest _ (fun pre e' suf h => by
          have := H (e :: pre) e' suf (by rw [h]; rfl)
          simpa [List.append_assoc] using this) (by simp only [List.length_append]; omega)]
        simp only [List.map_cons, List.nil_append, List.singleton_append, Nat.add_assoc]
  | _ => simp [Ty.hasTy] at hty

end RT
