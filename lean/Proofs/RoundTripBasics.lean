import Plenc.Typing
import Proofs.Wire
import Proofs.SizeApp
/-
  Proofs.RoundTripBasics — generic facts used by the round-trip proof (C01):
  integer wrap facts, little-endian fixed width, list surgery, the struct loop
  (one step, fuel irrelevance), the packed / counted element loops, Go `==` on
  model values (`Val.beq`) and the association-list view of `mapassign`.
-/

namespace RT

/-- `intW(ZagZig(ZigZag(i))) = i`. -/
theorem wrapS_zagZig_zigZag (w : Nat) (hw : validWidth w) (i : Int) (h : intRange w i) :
    wrapS w (zagZig (zigZag i)) = i := by
  rw [zagZig_zigZag]; exact wrapS_id w i hw h

theorem leVal_take_leBytes (k n : Nat) (rest : Bytes) :
    leVal ((leBytes k n ++ rest).take k) = n % 256 ^ k := by
  rw [take_leBytes, leVal_leBytes]

/-! ### list surgery -/

theorem drop_append_len {α} (a b : List α) (n : Nat) (h : n = a.length) : (a ++ b).drop n = b := by
  subst h; simp

theorem take_append_len {α} (a b : List α) (n : Nat) (h : n = a.length) : (a ++ b).take n = a := by
  subst h; simp

theorem length_le_flatMap_of_mem {α β} (f : α → List β) (l : List α) (x : α) (h : x ∈ l) :
    (f x).length ≤ (l.flatMap f).length := by
  induction l with
  | nil => simp at h
  | cons a l ih =>
    simp only [List.flatMap_cons, List.length_append]
    rcases List.mem_cons.mp h with rfl | h
    · omega
    · have := ih h; omega

theorem length_le_flatMap_length {α β} (g : α → List β) (l : List α) (h : ∀ x ∈ l, 0 < (g x).length) :
    l.length ≤ (l.flatMap g).length := by
  induction l with
  | nil => simp
  | cons a l ih =>
    simp only [List.flatMap_cons, List.length_append, List.length_cons]
    have := h a (by simp)
    have := ih (fun x hx => h x (by simp [hx]))
    omega

/-! ### Res plumbing -/

@[simp] theorem Res.mapFst_ok {α β : Type} (f : α → β) (a : α) (n : Nat) :
    Res.mapFst f (.ok (a, n)) = .ok (f a, n) := rfl
@[simp] theorem Res.addN_ok {α : Type} (k : Nat) (a : α) (n : Nat) :
    Res.addN k (.ok (a, n)) = .ok (a, k + n) := rfl

theorem Res.mapFst_mapFst {α β γ : Type} (f : α → β) (g : β → γ) (r : Res (α × Nat)) :
    Res.mapFst g (Res.mapFst f r) = Res.mapFst (fun x => g (f x)) r := by
  cases r with
  | ok p => obtain ⟨a, n⟩ := p; rfl
  | _ => rfl

theorem Res.mapFst_addN {α β : Type} (f : α → β) (k : Nat) (r : Res (α × Nat)) :
    Res.addN k (Res.mapFst f r) = Res.mapFst f (Res.addN k r) := by
  cases r with
  | ok p => obtain ⟨a, n⟩ := p; rfl
  | _ => rfl

/-! ### tags -/

theorem appendTag_len_pos (wt : WT) (i : Nat) : 0 < (appendTag wt i).length := by
  unfold appendTag; exact append_len_pos _

theorem appendTag_ne_nil (wt : WT) (i : Nat) : appendTag wt i ≠ [] := by
  unfold appendTag; exact append_ne_nil _

theorem appendTag_isEmpty (wt : WT) (i : Nat) : (appendTag wt i).isEmpty = false := by
  have := appendTag_ne_nil wt i
  cases h : appendTag wt i with
  | nil => exact absurd h this
  | cons _ _ => rfl

theorem readTag_pos (d : Bytes) (wt : WT) (idx n : Nat) (h : readTag d = some (wt, idx, n)) :
    0 < n ∧ n ≤ d.length := by
  unfold readTag at h
  cases hr : readU d with
  | none => rw [hr] at h; simp at h
  | some p =>
    obtain ⟨v, m⟩ := p
    rw [hr] at h
    simp only [Option.some.injEq, Prod.mk.injEq] at h
    have := readU_le d v m hr
    omega

/-- raw tag read (as used by the map entry reader). -/
theorem readTagRaw_append (wt : WT) (idx : Nat) (h : idx < 2 ^ 61) (rest : Bytes) :
    readTagRaw (appendTag wt idx ++ rest) = (wt, idx, Int.ofNat (appendTag wt idx).length) := by
  have hc := code_lt wt
  have hlt : idx * 8 + wt.code < 2 ^ 64 := by omega
  unfold readTagRaw appendTag
  rw [Nat.mod_eq_of_lt hlt, read_append _ hlt]
  have e1 : (idx * 8 + wt.code) % 8 = wt.code := by omega
  have e2 : (idx * 8 + wt.code) / 8 = idx := by omega
  simp only [e1, e2, ofCode_code]

/-! ### the struct loop -/

theorem structLoop_fuel (rd : Nat → WT → Bytes → List Val → Res (List Val × Nat)) :
    ∀ (f1 f2 : Nat) (data : Bytes) (off : Nat) (acc : List Val),
      data.length < f1 → data.length < f2 →
      structLoop rd f1 data off acc = structLoop rd f2 data off acc := by
  intro f1
  induction f1 with
  | zero => intro f2 data off acc h; omega
  | succ f1 ih =>
    intro f2 data off acc h1 h2
    cases f2 with
    | zero => omega
    | succ f2 =>
      rw [structLoop, structLoop]
      cases hd : data.isEmpty with
      | true => rfl
      | false =>
        simp only [Bool.false_eq_true, ↓reduceIte]
        cases hr : readTag data with
        | none => rfl
        | some p =>
          obtain ⟨wt, idx, n⟩ := p
          have hn := readTag_pos data wt idx n hr
          simp only
          cases hrd : rd idx wt (data.drop n) acc with
          | ok q =>
            obtain ⟨acc', m⟩ := q
            simp only
            apply ih <;> simp only [List.length_drop] <;> omega
          | _ => rfl

/-- one iteration of the struct loop over a tag the reader recognises. -/
theorem structLoop_step (rd : Nat → WT → Bytes → List Val → Res (List Val × Nat))
    (fuel : Nat) (wt : WT) (idx : Nat) (hidx : idx < 2 ^ 61) (rest : Bytes) (off : Nat)
    (acc acc' : List Val) (m : Nat) (hm : m ≤ rest.length)
    (hrd : rd idx wt rest acc = .ok (acc', m))
    (hf : (appendTag wt idx ++ rest).length < fuel) :
    structLoop rd fuel (appendTag wt idx ++ rest) off acc
      = structLoop rd fuel (rest.drop m) (off + ((appendTag wt idx).length + m)) acc' := by
  cases fuel with
  | zero => omega
  | succ f =>
    have hpos := appendTag_len_pos wt idx
    rw [structLoop]
    have hne : (appendTag wt idx ++ rest).isEmpty = false := by
      cases h : appendTag wt idx ++ rest with
      | nil =>
        have := congrArg List.length h
        simp only [List.length_append, List.length_nil] at this; omega
      | cons _ _ => rfl
    simp only [hne, Bool.false_eq_true, ↓reduceIte, tag_roundtrip wt idx hidx rest,
      drop_append_len _ _ _ rfl, hrd]
    have hd : (appendTag wt idx ++ rest).drop ((appendTag wt idx).length + m) = rest.drop m := by
      rw [← List.drop_drop, drop_append_len _ _ _ rfl]
    rw [hd]
    simp only [List.length_append] at hf
    apply structLoop_fuel <;> simp only [List.length_drop] <;> omega

theorem structLoop_nil (rd : Nat → WT → Bytes → List Val → Res (List Val × Nat))
    (fuel : Nat) (off : Nat) (acc : List Val) (hf : 0 < fuel) :
    structLoop rd fuel [] off acc = .ok (acc, off) := by
  cases fuel with
  | zero => omega
  | succ f => simp [structLoop]

/-! ### packed and counted element loops -/

/-- `count` self-delimiting elements read back to back. -/
theorem readN_flatMap (rd : Bytes → Res (Val × Nat)) (enc : Val → Bytes) (nrm : Val → Val) :
    ∀ (ws : List Val) (rest : Bytes),
      (∀ v ∈ ws, ∀ r, rd (enc v ++ r) = .ok (nrm v, (enc v).length)) →
      readN rd ws.length (ws.flatMap enc ++ rest) = .ok (ws.map nrm, (ws.flatMap enc).length) := by
  intro ws
  induction ws with
  | nil => intro rest _; simp [readN]
  | cons v ws ih =>
    intro rest h
    simp only [List.length_cons, List.flatMap_cons, List.append_assoc, readN]
    rw [h v (by simp), ]
    simp only [drop_append_len _ _ _ rfl]
    rw [ih rest (fun x hx => h x (by simp [hx]))]
    simp only [List.map_cons, List.length_append]

/-- the first pass of the packed-varint reader counts one per varint. -/
theorem countVarints_flatMap (enc : Val → Bytes) :
    ∀ (ws : List Val) (fuel c : Nat),
      (∀ v ∈ ws, ∃ u, u < 2 ^ 64 ∧ enc v = appendVarUint u) →
      (ws.flatMap enc).length < fuel →
      countVarints fuel (ws.flatMap enc) c = .ok (c + ws.length) := by
  intro ws
  induction ws with
  | nil =>
    intro fuel c _ hf
    cases fuel with
    | zero => simp at hf
    | succ f => simp [countVarints]
  | cons v ws ih =>
    intro fuel c h hf
    cases fuel with
    | zero => omega
    | succ f =>
      obtain ⟨u, hu, he⟩ := h v (by simp)
      have hpos := append_len_pos u
      simp only [List.flatMap_cons, he, List.length_append] at hf ⊢
      rw [countVarints]
      have hne : (appendVarUint u ++ List.flatMap enc ws).isEmpty = false := by
        cases h : appendVarUint u ++ List.flatMap enc ws with
        | nil =>
          have := congrArg List.length h
          simp only [List.length_append, List.length_nil] at this; omega
        | cons _ _ => rfl
      simp only [hne, Bool.false_eq_true, ↓reduceIte, readU_append u hu, drop_append_len _ _ _ rfl]
      rw [ih f (c + 1) (fun x hx => h x (by simp [hx])) (by omega)]
      simp only [List.length_cons]
      congr 1; omega

/-- `count` length-prefixed elements, each read from exactly its own bytes. -/
theorem elemLoop_flatMap (rd : Bytes → Res (Val × Nat)) (body : Val → Bytes) (nrm : Val → Val) :
    ∀ (ws : List Val) (rest : Bytes),
      (∀ v ∈ ws, (body v).length < 2 ^ 64 ∧ rd (body v) = .ok (nrm v, (body v).length)) →
      elemLoop rd ws.length (ws.flatMap (fun v => appendVarUint (body v).length ++ body v) ++ rest)
        = .ok (ws.map nrm, (ws.flatMap (fun v => appendVarUint (body v).length ++ body v)).length) := by
  intro ws
  induction ws with
  | nil => intro rest _; simp [elemLoop]
  | cons v ws ih =>
    intro rest h
    obtain ⟨hl, hr⟩ := h v (by simp)
    simp only [List.length_cons, List.flatMap_cons, List.append_assoc, elemLoop]
    rw [readU_append _ hl]
    simp only [drop_append_len _ _ _ rfl, List.length_append]
    have hgt : ¬ ((body v).length >
        (body v).length + ((ws.flatMap fun v => appendVarUint (body v).length ++ body v).length + rest.length)) := by
      omega
    simp only [hgt, ↓reduceIte, take_append_len _ _ _ rfl, hr]
    have hd : List.drop ((appendVarUint (body v).length).length + (body v).length)
        (appendVarUint (body v).length ++ (body v ++
          ((ws.flatMap fun v => appendVarUint (body v).length ++ body v) ++ rest)))
        = (ws.flatMap fun v => appendVarUint (body v).length ++ body v) ++ rest := by
      rw [← List.append_assoc]
      exact drop_append_len _ _ _ (by simp [List.length_append])
    rw [hd, ih rest (fun x hx => h x (by simp [hx]))]
    simp only [List.map_cons, Nat.add_assoc]

end RT
