import Plenc.Wire
/-
  Proofs.Varint — lemmas about varints, zig-zag, tags (helper lemmas for C18 and
  for every codec round trip).
-/

theorem or_shift_eq_add (x b s : Nat) (hx : x < 2 ^ s) : x ||| (b <<< s) = x + b * 2 ^ s := by
  rw [Nat.or_comm, Nat.shiftLeft_eq, Nat.mul_comm b, ← Nat.two_pow_add_eq_or_of_lt hx] <;> omega

theorem toUInt8_toNat_lt (v : Nat) (h : v < 256) : (v.toUInt8).toNat = v := by
  simp [Nat.toUInt8]; omega

theorem uvarint_append (v : Nat) : ∀ (rest : Bytes) (i s x : Nat),
    x < 2 ^ s → s = 7 * i → v < 2 ^ (64 - s) → i ≤ 9 →
    uvarintAux (appendVarUint v ++ rest) i s x
      = (x + v * 2 ^ s, Int.ofNat (i + (appendVarUint v).length)) := by
  induction v using Nat.strongRecOn with
  | _ v ih =>
    intro rest i s x hx hs hv hi
    unfold appendVarUint
    split
    · rename_i hlt
      simp only [List.cons_append, List.nil_append, uvarintAux]
      have h1 : (v.toUInt8).toNat = v := toUInt8_toNat_lt v (by omega)
      have hi10 : i ≠ 10 := by omega
      have h9 : ¬ (i = 9 ∧ v > 1) := by
        intro ⟨h9, hv1⟩
        subst h9; subst hs
        have : v < 2 ^ 1 := by simpa using hv
        omega
      simp only [hi10, ↓reduceIte, h1, hlt, h9, List.length_singleton]
      rw [or_shift_eq_add x v s hx]
    · rename_i hge
      have hge : 128 ≤ v := by omega
      simp only [List.cons_append, uvarintAux]
      have h1 : ((v % 128 + 128).toUInt8).toNat = v % 128 + 128 := toUInt8_toNat_lt _ (by omega)
      have hi10 : i ≠ 10 := by omega
      have hnlt : ¬ (v % 128 + 128 < 128) := by omega
      simp only [hi10, ↓reduceIte, h1, hnlt]
      have hand : (v % 128 + 128) &&& 127 = v % 128 := by
        have : (v % 128 + 128) &&& 127 = (v % 128 + 128) % 128 := by
          have := Nat.and_two_pow_sub_one_eq_mod (v % 128 + 128) 7
          simpa using this
        omega
      rw [hand, or_shift_eq_add x (v % 128) s hx]
      -- i ≤ 8 since v ≥ 128 and v < 2^(64-7i)
      have hi8 : i ≤ 8 := by
        rcases Nat.lt_or_ge i 9 with h | h
        · omega
        · have : i = 9 := by omega
          subst this; subst hs
          have : v < 2 ^ 1 := by simpa using hv
          omega
      have hdiv : v / 128 < 2 ^ (64 - (s + 7)) := by
        subst hs
        have h64 : 64 - 7 * i = (64 - (7 * i + 7)) + 7 := by omega
        rw [h64, Nat.pow_add] at hv
        exact Nat.div_lt_of_lt_mul (by simpa [Nat.mul_comm] using hv)
      have hx' : x + v % 128 * 2 ^ s < 2 ^ (s + 7) := by
        rw [Nat.pow_add]
        have : v % 128 < 128 := Nat.mod_lt _ (by omega)
        have h2 : v % 128 * 2 ^ s ≤ 127 * 2 ^ s := Nat.mul_le_mul_right _ (by omega)
        omega
      rw [ih (v / 128) (by omega) rest (i + 1) (s + 7) _ hx' (by omega) hdiv (by omega)]
      congr 1
      · rw [Nat.pow_add]
        have := Nat.div_add_mod v 128
        have e : v / 128 * (2 ^ s * 2 ^ 7) = (128 * (v / 128)) * 2 ^ s := by
          simp [Nat.mul_comm, Nat.mul_left_comm]
        rw [e]
        have : (128 * (v / 128) + v % 128) * 2 ^ s = v * 2 ^ s := by rw [this]
        rw [Nat.add_mul] at this
        omega
      · simp only [List.length_cons]; congr 1; omega

theorem read_append (v : Nat) (hv : v < 2 ^ 64) (rest : Bytes) :
    readVarUint (appendVarUint v ++ rest) = (v, Int.ofNat (appendVarUint v).length) := by
  have := uvarint_append v rest 0 0 0 (by simp) (by simp) (by simpa using hv) (by omega)
  simpa [readVarUint] using this


theorem append_ne_nil (v : Nat) : appendVarUint v ≠ [] := by
  unfold appendVarUint; split <;> simp

theorem append_len_pos (v : Nat) : 0 < (appendVarUint v).length :=
  List.length_pos_iff.mpr (append_ne_nil v)

theorem readU_append (v : Nat) (hv : v < 2 ^ 64) (rest : Bytes) :
    readU (appendVarUint v ++ rest) = some (v, (appendVarUint v).length) := by
  have hpos := append_len_pos v
  unfold readU
  rw [read_append v hv rest]
  have : ¬ (Int.ofNat (appendVarUint v).length ≤ 0) := by
    simp only [Int.ofNat_eq_natCast]; omega
  simp only [this, ↓reduceIte]
  rfl

theorem uvarintAux_le : ∀ (d : Bytes) (i s x : Nat), (uvarintAux d i s x).2 ≤ Int.ofNat (i + d.length)
  | [], i, s, x => by simp only [uvarintAux, Int.ofNat_eq_natCast]; omega
  | b :: rest, i, s, x => by
    have ih := uvarintAux_le rest (i + 1) (s + 7) (x ||| ((b.toNat &&& 127) <<< s))
    simp only [uvarintAux, List.length_cons, Int.ofNat_eq_natCast] at ih ⊢
    split
    · omega
    · split
      · split <;> omega
      · omega

/-- progress: a successful checked varint read consumes between 1 and |d| bytes. -/
theorem readU_le (d : Bytes) (v n : Nat) (h : readU d = some (v, n)) : 0 < n ∧ n ≤ d.length := by
  unfold readU at h
  split at h
  · simp at h
  · rename_i hpos
    injection h with h; injection h with h1 h2
    have hle := uvarintAux_le d 0 0 0
    simp only [Int.ofNat_eq_natCast, Nat.zero_add] at hle
    unfold readVarUint at hpos h2
    omega

theorem readVarUint_le (d : Bytes) : (readVarUint d).2 ≤ Int.ofNat d.length := by
  have := uvarintAux_le d 0 0 0
  simpa [readVarUint] using this

theorem readU_nil : readU [] = none := by
  simp [readU, readVarUint, uvarintAux]

/-! ### SizeVarUint -/

theorem len_append_step (v : Nat) (h : 128 ≤ v) :
    (appendVarUint v).length = 1 + (appendVarUint (v / 128)).length := by
  rw [appendVarUint]
  have : ¬ v < 128 := by omega
  simp [this]; omega

theorem len_append_small (v : Nat) (h : v < 128) : (appendVarUint v).length = 1 := by
  rw [appendVarUint]; simp [h]

theorem log2_div128 (v : Nat) (h : 128 ≤ v) : (v / 128).log2 = v.log2 - 7 := by
  have hv : v ≠ 0 := by omega
  have hw : v / 128 ≠ 0 := by
    have : 1 ≤ v / 128 := (Nat.le_div_iff_mul_le (by omega)).mpr (by omega)
    omega
  have h7 : 7 ≤ v.log2 := (Nat.le_log2 hv).mpr (by simpa using h)
  rw [Nat.log2_eq_iff hw]
  have h1 := Nat.log2_self_le hv
  have h2 := @Nat.lt_log2_self v
  have e1 : 2 ^ v.log2 = 2 ^ (v.log2 - 7) * 128 := by
    rw [show (128 : Nat) = 2 ^ 7 by rfl, ← Nat.pow_add]; congr 1; omega
  have e2 : 2 ^ (v.log2 + 1) = 2 ^ (v.log2 - 7 + 1) * 128 := by
    rw [show (128 : Nat) = 2 ^ 7 by rfl, ← Nat.pow_add]; congr 1; omega
  constructor
  · apply (Nat.le_div_iff_mul_le (by omega)).mpr; omega
  · apply (Nat.div_lt_iff_lt_mul (by omega)).mpr; omega

/-- `SizeVarUint` predicts the appended length (no bound on `v` needed). -/
theorem size_eq_len (v : Nat) : sizeVarUint v = (appendVarUint v).length := by
  induction v using Nat.strongRecOn with
  | _ v ih =>
    by_cases h : v < 128
    · simp [sizeVarUint, h, len_append_small v h]
    · have hge : 128 ≤ v := by omega
      rw [len_append_step v hge, ← ih (v / 128) (by omega)]
      have hv : v ≠ 0 := by omega
      have h7 : 7 ≤ v.log2 := (Nat.le_log2 hv).mpr (by simpa using hge)
      simp only [sizeVarUint, h, ↓reduceIte, len64, hv]
      by_cases hw : v / 128 < 128
      · simp only [hw, ↓reduceIte]
        have hlt : v < 2 ^ 14 := by
          have := (Nat.div_lt_iff_lt_mul (by omega : 0 < 128)).mp hw; omega
        have : v.log2 < 14 := (Nat.log2_lt hv).mpr hlt
        omega
      · have hw0 : v / 128 ≠ 0 := by omega
        simp only [hw, ↓reduceIte, hw0, log2_div128 v hge]
        omega

/-! ### zig-zag -/

theorem zagZig_zigZag (v : Int) : zagZig (zigZag v) = v := by
  unfold zigZag zagZig
  split
  · rename_i h
    have e : (2 * v).toNat % 2 = 0 := by omega
    simp only [e, ↓reduceIte, Int.ofNat_eq_natCast]
    omega
  · rename_i h
    have e : ¬ ((-2 * v - 1).toNat % 2 = 0) := by omega
    simp only [e, ↓reduceIte, Int.ofNat_eq_natCast]
    omega

theorem zigZag_zagZig (u : Nat) : zigZag (zagZig u) = u := by
  unfold zigZag zagZig
  split
  · rename_i h
    simp only [Int.ofNat_eq_natCast]
    have : (0 : Int) ≤ ↑(u / 2) := by omega
    simp only [this, ↓reduceIte]
    omega
  · rename_i h
    simp only [Int.ofNat_eq_natCast]
    have : ¬ ((0 : Int) ≤ -↑(u / 2) - 1) := by omega
    simp only [this, ↓reduceIte]
    omega

/-- int64 values zig-zag into uint64. -/
theorem zigZag_lt (v : Int) (h1 : -(2 ^ 63 : Int) ≤ v) (h2 : v < (2 ^ 63 : Int)) : zigZag v < 2 ^ 64 := by
  unfold zigZag; split <;> omega

/-- uint64 values zag-zig into int64. -/
theorem zagZig_range (u : Nat) (h : u < 2 ^ 64) : -(2 ^ 63 : Int) ≤ zagZig u ∧ zagZig u < (2 ^ 63 : Int) := by
  unfold zagZig; split <;> simp only [Int.ofNat_eq_natCast] <;> omega

/-- magnitudes below 2^(b-1) zig-zag below 2^b. -/
theorem zigZag_bound (v : Int) (b : Nat) (hb : 0 < b) (h1 : -(2 ^ (b - 1) : Int) ≤ v) (h2 : v < (2 ^ (b - 1) : Int)) :
    zigZag v < 2 ^ b := by
  have e : (2 : Int) ^ b = 2 * 2 ^ (b - 1) := by
    rw [show b = (b - 1) + 1 by omega, Int.pow_succ]; simp; omega
  have en : ((2 ^ b : Nat) : Int) = (2 : Int) ^ b := by simp
  unfold zigZag
  split <;> omega
