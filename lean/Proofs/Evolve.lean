import Plenc.Evolve
import Proofs.RoundTrip
/-
  Proofs.Evolve — schema evolution (C03): data written from a struct type `S`
  decodes into an evolved struct type `S'` (`Ty.Evolves`) to `project …`.

  Structure: (1) an unknown index makes `readField` call `Skip`, and `Skip`
  steps over every field form exactly; (2) list surgery on `projectWith` /
  `priorFitsWith`; (3) the struct loop over data of `S` read by the fields of
  `S'` (`evolve_loop`, generic in the per-field projection); (4) the evolved
  versions of the wrapper round trips (pointer, slices, maps, repeated forms);
  (5) assembly by mutual structural induction; (6) rename invisibility.
-/
namespace Evolve
open RT

/-! ### 1. unknown fields are skipped exactly -/

/-- the unknown-index arm of the struct reader: `Skip`, accumulator unchanged. -/
def skipStep (acc : List Val) : Res Nat → Res (List Val × Nat)
  | .ok n => .ok (acc, n) | .err => .err | .panic => .panic | .hang => .hang

/-- a struct type with no field of index `i` hands the field to `Skip`. -/
theorem readField_unknown : ∀ (fs' : Fields) (acc : List Val) (i : Nat) (wt : WT) (body : Bytes),
    i ∉ fs'.map (·.1) → acc.length = fs'.length →
    readField fs' acc i wt body = skipStep acc (skip body wt) := by
  intro fs'
  induction fs' with
  | nil =>
    intro acc i wt body _ hl
    cases acc with
    | nil =>
      rw [readField]
      generalize skip body wt = r
      cases r <;> rfl
    | cons _ _ => simp at hl
  | cons f fs' ih =>
    obtain ⟨j, nj, tj⟩ := f
    intro acc i wt body hni hl
    cases acc with
    | nil => simp at hl
    | cons a as =>
      have hji : ¬ j = i := by intro h; apply hni; simp [h]
      have hni' : i ∉ fs'.map (·.1) := by
        intro h; apply hni; simp only [List.map_cons, List.mem_cons]; exact Or.inr h
      rw [readField]
      simp only [hji, ↓reduceIte]
      rw [ih as i wt body hni' (by simpa using hl)]
      generalize skip body wt = r
      cases r <;> rfl

/-- a reader that skips index `i`. -/
def Skips (rd : Nat → WT → Bytes → List Val → Res (List Val × Nat)) (i : Nat) (acc : List Val) : Prop :=
  ∀ wt body, rd i wt body acc = skipStep acc (skip body wt)

theorem skips_readField (fs' : Fields) (acc : List Val) (i : Nat)
    (hni : i ∉ fs'.map (·.1)) (hl : acc.length = fs'.length) :
    Skips (fun idx wt body acc => readField fs' acc idx wt body) i acc :=
  fun wt body => readField_unknown fs' acc i wt body hni hl

/-- one loop iteration over a field the reader skips. -/
theorem skip_step (rd : Nat → WT → Bytes → List Val → Res (List Val × Nat)) (i : Nat) (hi : i < 2 ^ 61)
    (acc : List Val) (hrd : Skips rd i acc) (wt : WT) (payload rest : Bytes)
    (hs : skip (payload ++ rest) wt = .ok payload.length) (fuel off : Nat)
    (hf : (appendTag wt i ++ (payload ++ rest)).length < fuel) :
    structLoop rd fuel (appendTag wt i ++ (payload ++ rest)) off acc
      = structLoop rd fuel rest (off + ((appendTag wt i).length + payload.length)) acc := by
  have hstep : rd i wt (payload ++ rest) acc = .ok (acc, payload.length) := by
    rw [hrd, hs]; rfl
  rw [structLoop_step rd fuel wt i hi _ off _ _ _ (by simp only [List.length_append]; omega) hstep hf]
  rw [drop_append_len _ _ _ rfl]

/-- an unknown non-repeated field of any wire type: one `Skip` of exactly its
payload (`field_skip_exact`), generic reader. -/
theorem skip_unknown_rd (t : Ty) (v : Val) (i : Nat) (hi : i < 2 ^ 61)
    (hwf : t.wf) (hty : t.hasTy v) (hp : v.present = true) (hr : t.deref.isProtoRep = false)
    (hsz : (t.app v []).length < 2 ^ 64)
    (rd : Nat → WT → Bytes → List Val → Res (List Val × Nat)) (acc : List Val) (hrd : Skips rd i acc)
    (fuel : Nat) (rest : Bytes) (off : Nat)
    (hf : (t.app v (appendTag t.wt i) ++ rest).length < fuel) :
    structLoop rd fuel (t.app v (appendTag t.wt i) ++ rest) off acc
      = structLoop rd fuel rest (off + (t.app v (appendTag t.wt i)).length) acc := by
  obtain ⟨payload, happ, hskip⟩ :=
    field_skip_exact t v (appendTag t.wt i) rest hwf hty hp hr (appendTag_ne_nil _ _) hsz
  rw [happ] at hf ⊢
  simp only [List.append_assoc] at hf ⊢
  rw [skip_step rd i hi acc hrd t.wt payload rest hskip fuel off hf]
  simp only [List.length_append]

/-- the repeated forms: one length-delimited frame per element, each skipped. -/
theorem skip_frames {α : Type} (body : α → Bytes) (i : Nat) (hi : i < 2 ^ 61)
    (rd : Nat → WT → Bytes → List Val → Res (List Val × Nat)) (acc : List Val) (hrd : Skips rd i acc) :
    ∀ (l : List α) (fuel : Nat) (rest : Bytes) (off : Nat),
      (l.flatMap fun a => appendTag .len i ++ appendVarUint (body a).length ++ body a).length < 2 ^ 64 →
      ((l.flatMap fun a => appendTag .len i ++ appendVarUint (body a).length ++ body a) ++ rest).length < fuel →
      structLoop rd fuel ((l.flatMap fun a => appendTag .len i ++ appendVarUint (body a).length ++ body a) ++ rest)
          off acc
        = structLoop rd fuel rest
            (off + (l.flatMap fun a => appendTag .len i ++ appendVarUint (body a).length ++ body a).length) acc := by
  intro l
  induction l with
  | nil => intro fuel rest off _ _; simp
  | cons a l ih =>
    intro fuel rest off hsz hf
    simp only [List.flatMap_cons, List.length_append, List.append_assoc] at hsz hf ⊢
    generalize hE : (l.flatMap fun a => appendTag WT.len i ++ (appendVarUint (body a).length ++ body a)) = E
      at hsz hf ⊢
    have hB : (body a).length < 2 ^ 64 := by omega
    have hs := skip_len_exact (body a) (E ++ rest) hB
    have hs' : skip ((appendVarUint (body a).length ++ body a) ++ (E ++ rest)) .len
        = .ok (appendVarUint (body a).length ++ body a).length := by
      rw [hs]; simp only [List.length_append]
    have := skip_step rd i hi acc hrd .len (appendVarUint (body a).length ++ body a) (E ++ rest) hs' fuel off
      (by simp only [List.length_append]; omega)
    simp only [List.append_assoc, List.length_append] at this
    rw [this]
    have ih' := ih fuel rest (off + ((appendTag WT.len i).length + ((appendVarUint (body a).length).length + (body a).length)))
    simp only [List.append_assoc, hE] at ih'
    rw [ih' (by omega) (by simp only [List.length_append]; omega)]
    simp only [Nat.add_assoc]

end Evolve
