import Plenc.Evolve
import Proofs.RoundTrip
/-
  Proofs.Evolve — schema evolution (C03): data written from a struct type `S`
  decodes into an evolved struct type `S'` (`Ty.Evolves`) to `project …`.

  Structure: (1) an unknown index makes `readField` call `Skip`, and `Skip`
  steps over every field form exactly; (2) list surgery on `projectWith` /
  `priorFitsWith`; (3) the struct loop over data of `S` read by the fields of
  `S'` (`evolve_loop`, generic in the per-field projection); (4) the evolved
  versions of the wrapper round trips (pointer, slices, maps, repeated forms);
  (5) assembly by mutual structural induction; (6) rename invisibility.
-/
namespace Evolve
open RT

/-! ### 1. unknown fields are skipped exactly -/

/-- the unknown-index arm of the struct reader: `Skip`, accumulator unchanged. -/
def skipStep (acc : List Val) : Res Nat → Res (List Val × Nat)
  | .ok n => .ok (acc, n) | .err => .err | .panic => .panic | .hang => .hang

/-- a struct type with no field of index `i` hands the field to `Skip`. -/
theorem readField_unknown : ∀ (fs' : Fields) (acc : List Val) (i : Nat) (wt : WT) (body : Bytes),
    i ∉ fs'.map (·.1) → acc.length = fs'.length →
    readField fs' acc i wt body = skipStep acc (skip body wt) := by
  intro fs'
  induction fs' with
  | nil =>
    intro acc i wt body _ hl
    cases acc with
    | nil =>
      rw [readField]
      generalize skip body wt = r
      cases r <;> rfl
    | cons _ _ => simp at hl
  | cons f fs' ih =>
    obtain ⟨j, nj, tj⟩ := f
    intro acc i wt body hni hl
    cases acc with
    | nil => simp at hl
    | cons a as =>
      have hji : ¬ j = i := by intro h; apply hni; simp [h]
      have hni' : i ∉ fs'.map (·.1) := by
        intro h; apply hni; simp only [List.map_cons, List.mem_cons]; exact Or.inr h
      rw [readField]
      simp only [hji, ↓reduceIte]
      rw [ih as i wt body hni' (by simpa using hl)]
      generalize skip body wt = r
      cases r <;> rfl

/-- a reader that skips index `i`. -/
def Skips (rd : Nat → WT → Bytes → List Val → Res (List Val × Nat)) (i : Nat) (acc : List Val) : Prop :=
  ∀ wt body, rd i wt body acc = skipStep acc (skip body wt)

theorem skips_readField (fs' : Fields) (acc : List Val) (i : Nat)
    (hni : i ∉ fs'.map (·.1)) (hl : acc.length = fs'.length) :
    Skips (fun idx wt body acc => readField fs' acc idx wt body) i acc :=
  fun wt body => readField_unknown fs' acc i wt body hni hl

/-- one loop iteration over a field the reader skips. -/
theorem skip_step (rd : Nat → WT → Bytes → List Val → Res (List Val × Nat)) (i : Nat) (hi : i < 2 ^ 61)
    (acc : List Val) (hrd : Skips rd i acc) (wt : WT) (payload rest : Bytes)
    (hs : skip (payload ++ rest) wt = .ok payload.length) (fuel off : Nat)
    (hf : (appendTag wt i ++ (payload ++ rest)).length < fuel) :
    structLoop rd fuel (appendTag wt i ++ (payload ++ rest)) off acc
      = structLoop rd fuel rest (off + ((appendTag wt i).length + payload.length)) acc := by
  have hstep : rd i wt (payload ++ rest) acc = .ok (acc, payload.length) := by
    rw [hrd, hs]; rfl
  rw [structLoop_step rd fuel wt i hi _ off _ _ _ (by simp only [List.length_append]; omega) hstep hf]
  rw [drop_append_len _ _ _ rfl]

/-- an unknown non-repeated field of any wire type: one `Skip` of exactly its
payload (`field_skip_exact`), generic reader. -/
theorem skip_unknown_rd (t : Ty) (v : Val) (i : Nat) (hi : i < 2 ^ 61)
    (hwf : t.wf) (hty : t.hasTy v) (hp : v.present = true) (hr : t.deref.isProtoRep = false)
    (hsz : (t.app v []).length < 2 ^ 64)
    (rd : Nat → WT → Bytes → List Val → Res (List Val × Nat)) (acc : List Val) (hrd : Skips rd i acc)
    (fuel : Nat) (rest : Bytes) (off : Nat)
    (hf : (t.app v (appendTag t.wt i) ++ rest).length < fuel) :
    structLoop rd fuel (t.app v (appendTag t.wt i) ++ rest) off acc
      = structLoop rd fuel rest (off + (t.app v (appendTag t.wt i)).length) acc := by
  obtain ⟨payload, happ, hskip⟩ :=
    field_skip_exact t v (appendTag t.wt i) rest hwf hty hp hr (appendTag_ne_nil _ _) hsz
  rw [happ] at hf ⊢
  simp only [List.append_assoc] at hf ⊢
  rw [skip_step rd i hi acc hrd t.wt payload rest hskip fuel off hf]
  simp only [List.length_append]

/-- the repeated forms: one length-delimited frame per element, each skipped. -/
theorem skip_frames {α : Type} (body : α → Bytes) (i : Nat) (hi : i < 2 ^ 61)
    (rd : Nat → WT → Bytes → List Val → Res (List Val × Nat)) (acc : List Val) (hrd : Skips rd i acc) :
    ∀ (l : List α) (fuel : Nat) (rest : Bytes) (off : Nat),
      (l.flatMap fun a => appendTag .len i ++ appendVarUint (body a).length ++ body a).length < 2 ^ 64 →
      ((l.flatMap fun a => appendTag .len i ++ appendVarUint (body a).length ++ body a) ++ rest).length < fuel →
      structLoop rd fuel ((l.flatMap fun a => appendTag .len i ++ appendVarUint (body a).length ++ body a) ++ rest)
          off acc
        = structLoop rd fuel rest
            (off + (l.flatMap fun a => appendTag .len i ++ appendVarUint (body a).length ++ body a).length) acc := by
  intro l
  induction l with
  | nil => intro fuel rest off _ _; simp
  | cons a l ih =>
    intro fuel rest off hsz hf
    simp only [List.flatMap_cons, List.length_append, List.append_assoc] at hsz hf ⊢
    generalize hE : (l.flatMap fun a => appendTag WT.len i ++ (appendVarUint (body a).length ++ body a)) = E
      at hsz hf ⊢
    have hB : (body a).length < 2 ^ 64 := by omega
    have hs := skip_len_exact (body a) (E ++ rest) hB
    have hs' : skip ((appendVarUint (body a).length ++ body a) ++ (E ++ rest)) .len
        = .ok (appendVarUint (body a).length ++ body a).length := by
      rw [hs]; simp only [List.length_append]
    have := skip_step rd i hi acc hrd .len (appendVarUint (body a).length ++ body a) (E ++ rest) hs' fuel off
      (by simp only [List.length_append]; omega)
    simp only [List.append_assoc, List.length_append] at this
    rw [this]
    have ih' := ih fuel rest (off + ((appendTag WT.len i).length + ((appendVarUint (body a).length).length + (body a).length)))
    simp only [List.append_assoc, hE] at ih'
    rw [ih' (by omega) (by simp only [List.length_append]; omega)]
    simp only [Nat.add_assoc]

theorem app_nil_le (t : Ty) (v : Val) (tag : Bytes) (hwf : t.wf) (hty : t.hasTy v)
    (hp : v.present = true) (hr : t.deref.isProtoRep = false) (ht : tag ≠ []) :
    (t.app v []).length ≤ (t.app v tag).length := by
  by_cases hl : t.wt = .len
  · rw [app_frame_len t v tag hwf hty hp hl hr ht]; simp only [List.length_append]; omega
  · rw [app_frame_other t v tag hwf hty hp hl]; simp only [List.length_append]; omega

/-- **Unknown fields of every form are skipped exactly**: a field in any shape a
struct field can take (single frame of any wire type, or one frame per element /
entry for the repeated forms), followed by arbitrary bytes, read by a loop that
does not know its index: the loop continues on the following bytes, accumulator
unchanged. -/
theorem skip_unknown_field (t : Ty) (hwf : t.wf) (hs : Ty.rtShape true t) (v : Val) (hty : t.hasTy v)
    (hom : v.omit = false) (i : Nat) (hi : i < 2 ^ 61)
    (hsz : (t.app v (appendTag t.wt i)).length < 2 ^ 64)
    (rd : Nat → WT → Bytes → List Val → Res (List Val × Nat)) (acc : List Val) (hrd : Skips rd i acc)
    (fuel : Nat) (rest : Bytes) (off : Nat)
    (hf : (t.app v (appendTag t.wt i) ++ rest).length < fuel) :
    structLoop rd fuel (t.app v (appendTag t.wt i) ++ rest) off acc
      = structLoop rd fuel rest (off + (t.app v (appendTag t.wt i)).length) acc := by
  by_cases hrep : t.isProtoRep = true
  · cases t with
    | pslice u =>
      cases v with
      | slice vs =>
        simp only [Ty.rtShape, true_and] at hs
        have hE := pslice_frames u vs (appendTag (Ty.pslice u).wt i) hwf hty (deref_not_rep u hs)
          (appendTag_ne_nil _ _)
        rw [hE] at hsz hf ⊢
        simp only [Ty.wt, elemFrame] at hsz hf ⊢
        exact skip_frames (fun v => u.app v []) i hi rd acc hrd vs fuel rest off hsz hf
      | _ => simp [Ty.hasTy] at hty
    | map k x p =>
      cases p with
      | false => simp [Ty.isProtoRep] at hrep
      | true =>
        cases v with
        | map o =>
          cases o with
          | none => simp [Val.omit] at hom
          | some es =>
            have hE := pmap_frames k x es (appendTag (Ty.map k x true).wt i) hwf hty
            rw [hE] at hsz hf ⊢
            simp only [Ty.wt] at hsz hf ⊢
            exact skip_frames (entryBody k x) i hi rd acc hrd es fuel rest off hsz hf
        | _ => simp [Ty.hasTy] at hty
    | _ => simp [Ty.isProtoRep] at hrep
  · have hrep' : t.isProtoRep = false := by simpa using hrep
    have hs' := shape_false_of_true t hrep' hs
    have hp := present_of_shape t hs' v hty (ne_ptr_none_of_not_omit v hom)
    have hr := deref_not_rep t hs'
    have hle := app_nil_le t v (appendTag t.wt i) hwf hty hp hr (appendTag_ne_nil _ _)
    exact skip_unknown_rd t v i hi hwf hty hp hr (by omega) rd acc hrd fuel rest off hf

/-! ### 2. `projectWith`, `priorFitsWith`, `lookupWith` -/

theorem projectWith_congr (look1 look2 : Nat → Ty → Option Val) :
    ∀ (fs' : Fields) (ps : List Val), (∀ f' ∈ fs', look1 f'.1 f'.2.2 = look2 f'.1 f'.2.2) →
      projectWith look1 fs' ps = projectWith look2 fs' ps := by
  intro fs'
  induction fs' with
  | nil => intro ps _; simp [projectWith]
  | cons f' fs' ih =>
    obtain ⟨i', n', t'⟩ := f'
    intro ps h
    cases ps with
    | nil => simp [projectWith]
    | cons p ps =>
      have h1 := h (i', n', t') (by simp)
      simp only at h1
      simp only [projectWith, h1, ih ps (fun f hf => h f (by simp [hf]))]

theorem priorFitsWith_congr (look1 look2 : Nat → Ty → Option Val) :
    ∀ (fs' : Fields) (ps : List Val), (∀ f' ∈ fs', look1 f'.1 f'.2.2 = look2 f'.1 f'.2.2) →
      priorFitsWith look1 fs' ps → priorFitsWith look2 fs' ps := by
  intro fs'
  induction fs' with
  | nil => intro ps _ h; cases ps <;> simp [priorFitsWith] at h ⊢
  | cons f' fs' ih =>
    obtain ⟨i', n', t'⟩ := f'
    intro ps h hp
    cases ps with
    | nil => simp [priorFitsWith] at hp
    | cons p ps =>
      have h1 := h (i', n', t') (by simp)
      simp only at h1
      simp only [priorFitsWith, h1] at hp ⊢
      exact ⟨hp.1, ih ps (fun f hf => h f (by simp [hf])) hp.2⟩

theorem priorFitsWith_length (look : Nat → Ty → Option Val) :
    ∀ (fs' : Fields) (ps : List Val), priorFitsWith look fs' ps → ps.length = fs'.length := by
  intro fs'
  induction fs' with
  | nil => intro ps h; cases ps with
    | nil => rfl
    | cons _ _ => simp [priorFitsWith] at h
  | cons f' fs' ih =>
    obtain ⟨i', n', t'⟩ := f'
    intro ps h
    cases ps with
    | nil => simp [priorFitsWith] at h
    | cons p ps =>
      simp only [priorFitsWith] at h
      simp [ih ps h.2]

/-- nothing to fill: the prior list comes back unchanged. -/
theorem projectWith_none (look : Nat → Ty → Option Val) :
    ∀ (fs' : Fields) (ps : List Val), (∀ f' ∈ fs', look f'.1 f'.2.2 = none) → ps.length = fs'.length →
      projectWith look fs' ps = ps := by
  intro fs'
  induction fs' with
  | nil => intro ps _ hl; cases ps with
    | nil => rfl
    | cons _ _ => simp at hl
  | cons f' fs' ih =>
    obtain ⟨i', n', t'⟩ := f'
    intro ps h hl
    cases ps with
    | nil => simp at hl
    | cons p ps =>
      have h1 := h (i', n', t') (by simp)
      simp only at h1
      simp only [projectWith, h1, Option.getD_none,
        ih ps (fun f hf => h f (by simp [hf])) (by simpa using hl)]

/-- all zeros fit any data. -/
theorem priorFitsWith_zeros (look : Nat → Ty → Option Val) :
    ∀ (fs' : Fields), priorFitsWith look fs' (zeros fs') := by
  intro fs'
  induction fs' with
  | nil => simp [zeros, priorFitsWith]
  | cons f' fs' ih =>
    obtain ⟨i', n', t'⟩ := f'
    simp only [zeros, priorFitsWith, implies_true, true_and]
    exact ih

theorem projectWith_split (look : Nat → Ty → Option Val) (f' : Nat × String × Ty) (suf' : Fields) (a : Val)
    (asuf : List Val) :
    ∀ (pre' : Fields) (apre : List Val), apre.length = pre'.length →
      projectWith look (pre' ++ f' :: suf') (apre ++ a :: asuf)
        = projectWith look pre' apre ++ (look f'.1 f'.2.2).getD a :: projectWith look suf' asuf := by
  intro pre'
  induction pre' with
  | nil =>
    intro apre hl
    cases apre with
    | nil => obtain ⟨i', n', t'⟩ := f'; simp [projectWith]
    | cons _ _ => simp at hl
  | cons g pre' ih =>
    obtain ⟨j, nj, tj⟩ := g
    intro apre hl
    cases apre with
    | nil => simp at hl
    | cons b apre =>
      simp only [List.cons_append, projectWith, ih apre (by simpa using hl)]

/-- split a fitting prior list at a field of the target. -/
theorem priorFitsWith_split (look : Nat → Ty → Option Val) (f' : Nat × String × Ty) (suf' : Fields) :
    ∀ (pre' : Fields) (acc : List Val), priorFitsWith look (pre' ++ f' :: suf') acc →
      ∃ apre a asuf, acc = apre ++ a :: asuf ∧ apre.length = pre'.length ∧
        priorFitsWith look pre' apre ∧ ((look f'.1 f'.2.2).isSome = true → a = f'.2.2.zero) ∧
        priorFitsWith look suf' asuf := by
  intro pre'
  induction pre' with
  | nil =>
    intro acc h
    obtain ⟨i', n', t'⟩ := f'
    cases acc with
    | nil => simp [priorFitsWith] at h
    | cons a asuf =>
      simp only [List.nil_append, priorFitsWith] at h
      exact ⟨[], a, asuf, rfl, rfl, by simp [priorFitsWith], h.1, h.2⟩
  | cons g pre' ih =>
    obtain ⟨j, nj, tj⟩ := g
    intro acc h
    cases acc with
    | nil => simp [priorFitsWith] at h
    | cons b acc =>
      simp only [List.cons_append, priorFitsWith] at h
      obtain ⟨apre, a, asuf, rfl, hl, h1, h2, h3⟩ := ih acc h.2
      refine ⟨b :: apre, a, asuf, rfl, by simp [hl], ?_, h2, h3⟩
      simp only [priorFitsWith]
      exact ⟨h.1, h1⟩

theorem priorFitsWith_join (look : Nat → Ty → Option Val) (f' : Nat × String × Ty) (suf' : Fields) (a : Val)
    (asuf : List Val) (ha : (look f'.1 f'.2.2).isSome = true → a = f'.2.2.zero)
    (hsuf : priorFitsWith look suf' asuf) :
    ∀ (pre' : Fields) (apre : List Val), priorFitsWith look pre' apre →
      priorFitsWith look (pre' ++ f' :: suf') (apre ++ a :: asuf) := by
  intro pre'
  induction pre' with
  | nil =>
    intro apre h
    obtain ⟨i', n', t'⟩ := f'
    cases apre with
    | nil => simp only [List.nil_append, priorFitsWith]; exact ⟨ha, hsuf⟩
    | cons _ _ => simp [priorFitsWith] at h
  | cons g pre' ih =>
    obtain ⟨j, nj, tj⟩ := g
    intro apre h
    cases apre with
    | nil => simp [priorFitsWith] at h
    | cons b apre =>
      simp only [priorFitsWith] at h
      simp only [List.cons_append, priorFitsWith]
      exact ⟨h.1, ih apre h.2⟩

/-- an index that does not occur among the writer's fields is not in the data. -/
theorem lookupWith_none (pr : Ty → Ty → Val → Val) :
    ∀ (gs : Fields) (vs : List Val) (i' : Nat) (t' : Ty), i' ∉ gs.map (·.1) →
      lookupWith pr gs vs i' t' = none := by
  intro gs
  induction gs with
  | nil => intro vs i' t' _; simp [lookupWith]
  | cons g gs ih =>
    obtain ⟨j, nj, tj⟩ := g
    intro vs i' t' h
    cases vs with
    | nil => simp [lookupWith]
    | cons v vs =>
      have hji : ¬ j = i' := by intro e; apply h; simp [e]
      have h' : i' ∉ gs.map (·.1) := by
        intro e; apply h; simp only [List.map_cons, List.mem_cons]; exact Or.inr e
      simp only [lookupWith, hji, false_and, ↓reduceIte, ih vs i' t' h']

theorem fieldsProj_eq : ∀ (gs : Fields) (vs : List Val) (i' : Nat) (t' : Ty),
    fieldsProj gs vs i' t' = lookupWith Ty.proj gs vs i' t' := by
  intro gs
  induction gs with
  | nil => intro vs i' t'; simp [fieldsProj, lookupWith]
  | cons g gs ih =>
    obtain ⟨j, nj, tj⟩ := g
    intro vs i' t'
    cases vs with
    | nil => simp [fieldsProj, lookupWith]
    | cons v vs => simp only [fieldsProj, lookupWith, ih vs i' t']

theorem fieldsProj_eq' (gs : Fields) (vs : List Val) : fieldsProj gs vs = lookupWith Ty.proj gs vs := by
  funext i' t'; exact fieldsProj_eq gs vs i' t'

/-! ### 3. the struct loop of the target over data of the source -/

/-- Decoding one field written with codec `t` by a target field with codec `t'`:
the struct loop, started on the field's encoding with the target field at its
zero value, continues on the following bytes with the target field at `r v`.
(`RT.RTField t` is `EvField t t t.norm`.) -/
def EvField (t t' : Ty) (r : Val → Val) : Prop :=
  ∀ (i : Nat) (v : Val), i < 2 ^ 61 → t.hasTy v → v.omit = false →
    (t.app v (appendTag t.wt i)).length < 2 ^ 64 →
    ∀ (rd : Nat → WT → Bytes → List Val → Res (List Val × Nat)) (put : Val → List Val),
      (∀ wt body a, rd i wt body (put a) = Res.mapFst put (fieldRead t' wt body a)) →
      ∀ (fuel : Nat) (rest : Bytes) (off : Nat), (t.app v (appendTag t.wt i) ++ rest).length < fuel →
        structLoop rd fuel (t.app v (appendTag t.wt i) ++ rest) off (put t'.zero)
          = structLoop rd fuel rest (off + (t.app v (appendTag t.wt i)).length) (put (r v))

theorem evField_of_rtField (t : Ty) (h : RTField t) : EvField t t t.norm := h

/-- a field of the source that the target does not have. -/
def SkipField (t : Ty) : Prop :=
  ∀ (i : Nat) (v : Val), i < 2 ^ 61 → t.hasTy v → v.omit = false →
    (t.app v (appendTag t.wt i)).length < 2 ^ 64 →
    ∀ (rd : Nat → WT → Bytes → List Val → Res (List Val × Nat)) (acc : List Val), Skips rd i acc →
      ∀ (fuel : Nat) (rest : Bytes) (off : Nat), (t.app v (appendTag t.wt i) ++ rest).length < fuel →
        structLoop rd fuel (t.app v (appendTag t.wt i) ++ rest) off acc
          = structLoop rd fuel rest (off + (t.app v (appendTag t.wt i)).length) acc

theorem skipField_of_shape (t : Ty) (hwf : t.wf) (hs : Ty.rtShape true t) : SkipField t :=
  fun i v hi hty hom hsz rd acc hrd fuel rest off hf =>
    skip_unknown_field t hwf hs v hty hom i hi hsz rd acc hrd fuel rest off hf

theorem lookupWith_omit (pr : Ty → Ty → Val → Val) (f : Nat × String × Ty) (gs : Fields) (v : Val)
    (vs : List Val) (ho : v.omit = true) :
    lookupWith pr (f :: gs) (v :: vs) = lookupWith pr gs vs := by
  obtain ⟨i, nm, t⟩ := f
  funext i' t'
  simp [lookupWith, ho]

theorem lookupWith_ne (pr : Ty → Ty → Val → Val) (i : Nat) (nm : String) (t : Ty) (gs : Fields) (v : Val)
    (vs : List Val) (i' : Nat) (t' : Ty) (h : ¬ i = i') :
    lookupWith pr ((i, nm, t) :: gs) (v :: vs) i' t' = lookupWith pr gs vs i' t' := by
  simp [lookupWith, h]

theorem nodup_split_notin (pre' : Fields) (f' : Nat × String × Ty) (suf' : Fields)
    (h : ((pre' ++ f' :: suf').map (·.1)).Nodup) :
    f'.1 ∉ pre'.map (·.1) ∧ f'.1 ∉ suf'.map (·.1) := by
  simp only [List.map_append, List.map_cons] at h
  have h1 := List.nodup_append.mp h
  refine ⟨fun hm => h1.2.2 _ hm _ (by simp) rfl, ?_⟩
  have h2 := h1.2.1
  exact (List.nodup_cons.mp h2).1

/-- **The struct loop of the target over data of the source.** `gs`, `vs`: the
(remaining) fields and values of the writer; `fs'`: the fields of the reader;
`acc`: its current field values. Every source field is either known to the
reader — then its codec pair decodes it (`EvField`) — or unknown and skipped
(`SkipField`). The loop ends with exactly the projection. -/
theorem evolve_loop (pr : Ty → Ty → Val → Val) (fs' : Fields) (hnd' : (fs'.map (·.1)).Nodup) :
    ∀ (gs : Fields) (vs : List Val), (gs.map (·.1)).Nodup → (∀ f ∈ gs, f.1 < 2 ^ 61) →
      (∀ f ∈ gs, ∀ f' ∈ fs', f.1 = f'.1 → EvField f.2.2 f'.2.2 (pr f.2.2 f'.2.2)) →
      (∀ f ∈ gs, f.1 ∉ fs'.map (·.1) → SkipField f.2.2) →
      fieldsHaveTy gs vs →
      ∀ (acc : List Val), priorFitsWith (lookupWith pr gs vs) fs' acc →
      ∀ (fuel off : Nat), (fieldsApp gs vs).length < fuel → (fieldsApp gs vs).length < 2 ^ 64 →
      structLoop (fun idx wt body acc => readField fs' acc idx wt body) fuel (fieldsApp gs vs) off acc
        = .ok (projectWith (lookupWith pr gs vs) fs' acc, off + (fieldsApp gs vs).length) := by
  intro gs
  induction gs with
  | nil =>
    intro vs _ _ _ _ hty acc hfit fuel off hf _
    cases vs with
    | nil =>
      simp only [fieldsApp, List.length_nil, Nat.add_zero]
      rw [structLoop_nil _ _ _ _ (by omega)]
      rw [projectWith_none _ fs' acc (fun f' _ => by simp [lookupWith]) (priorFitsWith_length _ _ _ hfit)]
    | cons _ _ => simp [fieldsHaveTy] at hty
  | cons f gs ih =>
    obtain ⟨i, nm, t⟩ := f
    intro vs hnd hidx hev hsk hty acc hfit fuel off hf hsz
    cases vs with
    | nil => simp [fieldsHaveTy] at hty
    | cons v vs =>
      simp only [fieldsHaveTy] at hty
      obtain ⟨htv, htr⟩ := hty
      have hnd2 : (gs.map (·.1)).Nodup := by
        simp only [List.map_cons] at hnd; exact (List.nodup_cons.mp hnd).2
      have hni : i ∉ gs.map (·.1) := by
        simp only [List.map_cons] at hnd; exact (List.nodup_cons.mp hnd).1
      have hidx2 : ∀ f ∈ gs, f.1 < 2 ^ 61 := fun f hf => hidx f (by simp [hf])
      have hev2 : ∀ f ∈ gs, ∀ f' ∈ fs', f.1 = f'.1 → EvField f.2.2 f'.2.2 (pr f.2.2 f'.2.2) :=
        fun f hf => hev f (by simp [hf])
      have hsk2 : ∀ f ∈ gs, f.1 ∉ fs'.map (·.1) → SkipField f.2.2 := fun f hf => hsk f (by simp [hf])
      have hi : i < 2 ^ 61 := hidx (i, nm, t) (by simp)
      cases ho : v.omit with
      | true =>
        have e1 : fieldsApp ((i, nm, t) :: gs) (v :: vs) = fieldsApp gs vs := by simp [fieldsApp, ho]
        rw [e1] at hf hsz ⊢
        rw [lookupWith_omit pr _ gs v vs ho] at hfit ⊢
        exact ih vs hnd2 hidx2 hev2 hsk2 htr acc hfit fuel off hf hsz
      | false =>
        have e1 : fieldsApp ((i, nm, t) :: gs) (v :: vs)
            = t.app v (appendTag t.wt i) ++ fieldsApp gs vs := by simp [fieldsApp, ho]
        rw [e1] at hf hsz ⊢
        simp only [List.length_append] at hsz
        by_cases hin : i ∈ fs'.map (·.1)
        · -- the reader knows the index
          obtain ⟨f', hf', hfi⟩ := List.mem_map.mp hin
          obtain ⟨pre', suf', rfl⟩ := List.append_of_mem hf'
          obtain ⟨i', nm', t'⟩ := f'
          simp only at hfi
          subst hfi
          obtain ⟨hnp, hns⟩ := nodup_split_notin pre' (i', nm', t') suf' hnd'
          simp only at hnp hns
          obtain ⟨apre, a, asuf, rfl, hl, hfp, hfa, hfs⟩ :=
            priorFitsWith_split _ (i', nm', t') suf' pre' acc hfit
          have hlook : lookupWith pr ((i', nm, t) :: gs) (v :: vs) i' t' = some (pr t t' v) := by
            simp [lookupWith, ho]
          have ha : a = t'.zero := hfa (by simp only [hlook]; rfl)
          subst ha
          have hE : EvField t t' (pr t t') := hev (i', nm, t) (by simp) (i', nm', t') hf' rfl
          have hrt := hE i' v hi htv ho (by omega)
            (fun idx wt body acc => readField (pre' ++ (i', nm', t') :: suf') acc idx wt body)
            (fun x => apre ++ x :: asuf)
            (fun wt body a => readField_at pre' i' nm' t' suf' hnp apre hl a asuf wt body)
            fuel (fieldsApp gs vs) off hf
          rw [hrt]
          -- the looks of the remaining fields agree away from position `i'`
          have hagree : ∀ g' ∈ pre' ++ suf', lookupWith pr ((i', nm, t) :: gs) (v :: vs) g'.1 g'.2.2
              = lookupWith pr gs vs g'.1 g'.2.2 := by
            intro g' hg'
            apply lookupWith_ne
            intro e
            rcases List.mem_append.mp hg' with h | h
            · exact hnp (e ▸ List.mem_map.mpr ⟨g', h, rfl⟩)
            · exact hns (e ▸ List.mem_map.mpr ⟨g', h, rfl⟩)
          have hnone : lookupWith pr gs vs i' t' = none := lookupWith_none pr gs vs i' t' hni
          have hfit' : priorFitsWith (lookupWith pr gs vs) (pre' ++ (i', nm', t') :: suf')
              (apre ++ pr t t' v :: asuf) := by
            apply priorFitsWith_join
            · intro h; simp only [hnone] at h; exact absurd h (by simp)
            · exact priorFitsWith_congr _ _ suf' asuf (fun g' hg' => hagree g' (by simp [hg'])) hfs
            · exact priorFitsWith_congr _ _ pre' apre (fun g' hg' => hagree g' (by simp [hg'])) hfp
          simp only [List.length_append] at hf
          rw [ih vs hnd2 hidx2 hev2 hsk2 htr _ hfit' fuel _ (by omega) (by omega)]
          rw [projectWith_split _ _ _ _ _ pre' apre hl, projectWith_split _ _ _ _ _ pre' apre hl]
          simp only [hlook, hnone, Option.getD_some, Option.getD_none]
          rw [projectWith_congr _ _ pre' apre (fun g' hg' => hagree g' (by simp [hg'])),
            projectWith_congr _ _ suf' asuf (fun g' hg' => hagree g' (by simp [hg']))]
          simp only [List.length_append, Nat.add_assoc]
        · -- the reader does not know the index: `Skip`
          have hS : SkipField t := hsk (i, nm, t) (by simp) hin
          have hlen := priorFitsWith_length _ _ _ hfit
          rw [hS i v hi htv ho (by omega) _ acc (skips_readField fs' acc i hin hlen) fuel (fieldsApp gs vs) off hf]
          have hagree : ∀ g' ∈ fs', lookupWith pr ((i, nm, t) :: gs) (v :: vs) g'.1 g'.2.2
              = lookupWith pr gs vs g'.1 g'.2.2 := by
            intro g' hg'
            apply lookupWith_ne
            intro e
            exact hin (e ▸ List.mem_map.mpr ⟨g', hg', rfl⟩)
          simp only [List.length_append] at hf
          rw [ih vs hnd2 hidx2 hev2 hsk2 htr acc (priorFitsWith_congr _ _ fs' acc hagree hfit) fuel _
            (by omega) (by omega)]
          rw [projectWith_congr _ _ fs' acc hagree]
          simp only [List.length_append, Nat.add_assoc]

end Evolve
