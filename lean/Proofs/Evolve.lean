import Plenc.Evolve
import Proofs.RoundTrip
/-
  Proofs.Evolve — schema evolution (C03): data written from a struct type `S`
  decodes into an evolved struct type `S'` (`Ty.Evolves`) to `project …`.

  Structure: (1) an unknown index makes `readField` call `Skip`, and `Skip`
  steps over every field form exactly; (2) list surgery on `projectWith` /
  `priorFitsWith`; (3) the struct loop over data of `S` read by the fields of
  `S'` (`evolve_loop`, generic in the per-field projection); (4) the evolved
  versions of the wrapper round trips (pointer, slices, maps, repeated forms);
  (5) assembly by mutual structural induction; (6) rename invisibility;
  (7) what `project` says position by position, and its consistency with C01.
-/
namespace Evolve
open RT

/-! ### 1. unknown fields are skipped exactly -/

/-- the unknown-index arm of the struct reader: `Skip`, accumulator unchanged. -/
def skipStep (acc : List Val) : Res Nat → Res (List Val × Nat)
  | .ok n => .ok (acc, n) | .err => .err | .panic => .panic | .hang => .hang

/-- a struct type with no field of index `i` hands the field to `Skip`. -/
theorem readField_unknown : ∀ (fs' : Fields) (acc : List Val) (i : Nat) (wt : WT) (body : Bytes),
    i ∉ fs'.map (·.1) → acc.length = fs'.length →
    readField fs' acc i wt body = skipStep acc (skip body wt) := by
  intro fs'
  induction fs' with
  | nil =>
    intro acc i wt body _ hl
    cases acc with
    | nil =>
      rw [readField]
      generalize skip body wt = r
      cases r <;> rfl
    | cons _ _ => simp at hl
  | cons f fs' ih =>
    obtain ⟨j, nj, tj⟩ := f
    intro acc i wt body hni hl
    cases acc with
    | nil => simp at hl
    | cons a as =>
      have hji : ¬ j = i := by intro h; apply hni; simp [h]
      have hni' : i ∉ fs'.map (·.1) := by
        intro h; apply hni; simp only [List.map_cons, List.mem_cons]; exact Or.inr h
      rw [readField]
      simp only [hji, ↓reduceIte]
      rw [ih as i wt body hni' (by simpa using hl)]
      generalize skip body wt = r
      cases r <;> rfl

/-- a reader that skips index `i`. -/
def Skips (rd : Nat → WT → Bytes → List Val → Res (List Val × Nat)) (i : Nat) (acc : List Val) : Prop :=
  ∀ wt body, rd i wt body acc = skipStep acc (skip body wt)

theorem skips_readField (fs' : Fields) (acc : List Val) (i : Nat)
    (hni : i ∉ fs'.map (·.1)) (hl : acc.length = fs'.length) :
    Skips (fun idx wt body acc => readField fs' acc idx wt body) i acc :=
  fun wt body => readField_unknown fs' acc i wt body hni hl

/-- one loop iteration over a field the reader skips. -/
theorem skip_step (rd : Nat → WT → Bytes → List Val → Res (List Val × Nat)) (i : Nat) (hi : i < 2 ^ 61)
    (acc : List Val) (hrd : Skips rd i acc) (wt : WT) (payload rest : Bytes)
    (hs : skip (payload ++ rest) wt = .ok payload.length) (fuel off : Nat)
    (hf : (appendTag wt i ++ (payload ++ rest)).length < fuel) :
    structLoop rd fuel (appendTag wt i ++ (payload ++ rest)) off acc
      = structLoop rd fuel rest (off + ((appendTag wt i).length + payload.length)) acc := by
  have hstep : rd i wt (payload ++ rest) acc = .ok (acc, payload.length) := by
    rw [hrd, hs]; rfl
  rw [structLoop_step rd fuel wt i hi _ off _ _ _ (by simp only [List.length_append]; omega) hstep hf]
  rw [drop_append_len _ _ _ rfl]

/-- an unknown non-repeated field of any wire type: one `Skip` of exactly its
payload (`field_skip_exact`), generic reader. -/
theorem skip_unknown_rd (t : Ty) (v : Val) (i : Nat) (hi : i < 2 ^ 61)
    (hwf : t.wf) (hty : t.hasTy v) (hp : v.present = true) (hr : t.deref.isProtoRep = false)
    (hsz : (t.app v []).length < 2 ^ 64)
    (rd : Nat → WT → Bytes → List Val → Res (List Val × Nat)) (acc : List Val) (hrd : Skips rd i acc)
    (fuel : Nat) (rest : Bytes) (off : Nat)
    (hf : (t.app v (appendTag t.wt i) ++ rest).length < fuel) :
    structLoop rd fuel (t.app v (appendTag t.wt i) ++ rest) off acc
      = structLoop rd fuel rest (off + (t.app v (appendTag t.wt i)).length) acc := by
  obtain ⟨payload, happ, hskip⟩ :=
    field_skip_exact t v (appendTag t.wt i) rest hwf hty hp hr (appendTag_ne_nil _ _) hsz
  rw [happ] at hf ⊢
  simp only [List.append_assoc] at hf ⊢
  rw [skip_step rd i hi acc hrd t.wt payload rest hskip fuel off hf]
  simp only [List.length_append]

/-- the repeated forms: one length-delimited frame per element, each skipped. -/
theorem skip_frames {α : Type} (body : α → Bytes) (i : Nat) (hi : i < 2 ^ 61)
    (rd : Nat → WT → Bytes → List Val → Res (List Val × Nat)) (acc : List Val) (hrd : Skips rd i acc) :
    ∀ (l : List α) (fuel : Nat) (rest : Bytes) (off : Nat),
      (l.flatMap fun a => appendTag .len i ++ appendVarUint (body a).length ++ body a).length < 2 ^ 64 →
      ((l.flatMap fun a => appendTag .len i ++ appendVarUint (body a).length ++ body a) ++ rest).length < fuel →
      structLoop rd fuel ((l.flatMap fun a => appendTag .len i ++ appendVarUint (body a).length ++ body a) ++ rest)
          off acc
        = structLoop rd fuel rest
            (off + (l.flatMap fun a => appendTag .len i ++ appendVarUint (body a).length ++ body a).length) acc := by
  intro l
  induction l with
  | nil => intro fuel rest off _ _; simp
  | cons a l ih =>
    intro fuel rest off hsz hf
    simp only [List.flatMap_cons, List.length_append, List.append_assoc] at hsz hf ⊢
    generalize hE : (l.flatMap fun a => appendTag WT.len i ++ (appendVarUint (body a).length ++ body a)) = E
      at hsz hf ⊢
    have hB : (body a).length < 2 ^ 64 := by omega
    have hs := skip_len_exact (body a) (E ++ rest) hB
    have hs' : skip ((appendVarUint (body a).length ++ body a) ++ (E ++ rest)) .len
        = .ok (appendVarUint (body a).length ++ body a).length := by
      rw [hs]; simp only [List.length_append]
    have := skip_step rd i hi acc hrd .len (appendVarUint (body a).length ++ body a) (E ++ rest) hs' fuel off
      (by simp only [List.length_append]; omega)
    simp only [List.append_assoc, List.length_append] at this
    rw [this]
    have ih' := ih fuel rest (off + ((appendTag WT.len i).length + ((appendVarUint (body a).length).length + (body a).length)))
    simp only [List.append_assoc, hE] at ih'
    rw [ih' (by omega) (by simp only [List.length_append]; omega)]
    simp only [Nat.add_assoc]

theorem app_nil_le (t : Ty) (v : Val) (tag : Bytes) (hwf : t.wf) (hty : t.hasTy v)
    (hp : v.present = true) (hr : t.deref.isProtoRep = false) (ht : tag ≠ []) :
    (t.app v []).length ≤ (t.app v tag).length := by
  by_cases hl : t.wt = .len
  · rw [app_frame_len t v tag hwf hty hp hl hr ht]; simp only [List.length_append]; omega
  · rw [app_frame_other t v tag hwf hty hp hl]; simp only [List.length_append]; omega

/-- **Unknown fields of every form are skipped exactly**: a field in any shape a
struct field can take (single frame of any wire type, or one frame per element /
entry for the repeated forms), followed by arbitrary bytes, read by a loop that
does not know its index: the loop continues on the following bytes, accumulator
unchanged. -/
theorem skip_unknown_field (t : Ty) (hwf : t.wf) (hs : Ty.rtShape true t) (v : Val) (hty : t.hasTy v)
    (hom : v.omit = false) (i : Nat) (hi : i < 2 ^ 61)
    (hsz : (t.app v (appendTag t.wt i)).length < 2 ^ 64)
    (rd : Nat → WT → Bytes → List Val → Res (List Val × Nat)) (acc : List Val) (hrd : Skips rd i acc)
    (fuel : Nat) (rest : Bytes) (off : Nat)
    (hf : (t.app v (appendTag t.wt i) ++ rest).length < fuel) :
    structLoop rd fuel (t.app v (appendTag t.wt i) ++ rest) off acc
      = structLoop rd fuel rest (off + (t.app v (appendTag t.wt i)).length) acc := by
  by_cases hrep : t.isProtoRep = true
  · cases t with
    | pslice u =>
      cases v with
      | slice vs =>
        simp only [Ty.rtShape, true_and] at hs
        have hE := pslice_frames u vs (appendTag (Ty.pslice u).wt i) hwf hty (deref_not_rep u hs)
          (appendTag_ne_nil _ _)
        rw [hE] at hsz hf ⊢
        simp only [Ty.wt, elemFrame] at hsz hf ⊢
        exact skip_frames (fun v => u.app v []) i hi rd acc hrd vs fuel rest off hsz hf
      | _ => simp [Ty.hasTy] at hty
    | map k x p =>
      cases p with
      | false => simp [Ty.isProtoRep] at hrep
      | true =>
        cases v with
        | map o =>
          cases o with
          | none => simp [Val.omit] at hom
          | some es =>
            have hE := pmap_frames k x es (appendTag (Ty.map k x true).wt i) hwf hty
            rw [hE] at hsz hf ⊢
            simp only [Ty.wt] at hsz hf ⊢
            exact skip_frames (entryBody k x) i hi rd acc hrd es fuel rest off hsz hf
        | _ => simp [Ty.hasTy] at hty
    | _ => simp [Ty.isProtoRep] at hrep
  · have hrep' : t.isProtoRep = false := by simpa using hrep
    have hs' := shape_false_of_true t hrep' hs
    have hp := present_of_shape t hs' v hty (ne_ptr_none_of_not_omit v hom)
    have hr := deref_not_rep t hs'
    have hle := app_nil_le t v (appendTag t.wt i) hwf hty hp hr (appendTag_ne_nil _ _)
    exact skip_unknown_rd t v i hi hwf hty hp hr (by omega) rd acc hrd fuel rest off hf

/-! ### 2. `projectWith`, `priorFitsWith`, `lookupWith` -/

theorem projectWith_congr (look1 look2 : Nat → Ty → Option Val) :
    ∀ (fs' : Fields) (ps : List Val), (∀ f' ∈ fs', look1 f'.1 f'.2.2 = look2 f'.1 f'.2.2) →
      projectWith look1 fs' ps = projectWith look2 fs' ps := by
  intro fs'
  induction fs' with
  | nil => intro ps _; simp [projectWith]
  | cons f' fs' ih =>
    obtain ⟨i', n', t'⟩ := f'
    intro ps h
    cases ps with
    | nil => simp [projectWith]
    | cons p ps =>
      have h1 := h (i', n', t') (by simp)
      simp only at h1
      simp only [projectWith, h1, ih ps (fun f hf => h f (by simp [hf]))]

theorem priorFitsWith_congr (look1 look2 : Nat → Ty → Option Val) :
    ∀ (fs' : Fields) (ps : List Val), (∀ f' ∈ fs', look1 f'.1 f'.2.2 = look2 f'.1 f'.2.2) →
      priorFitsWith look1 fs' ps → priorFitsWith look2 fs' ps := by
  intro fs'
  induction fs' with
  | nil => intro ps _ h; cases ps <;> simp [priorFitsWith] at h ⊢
  | cons f' fs' ih =>
    obtain ⟨i', n', t'⟩ := f'
    intro ps h hp
    cases ps with
    | nil => simp [priorFitsWith] at hp
    | cons p ps =>
      have h1 := h (i', n', t') (by simp)
      simp only at h1
      simp only [priorFitsWith, h1] at hp ⊢
      exact ⟨hp.1, ih ps (fun f hf => h f (by simp [hf])) hp.2⟩

theorem priorFitsWith_length (look : Nat → Ty → Option Val) :
    ∀ (fs' : Fields) (ps : List Val), priorFitsWith look fs' ps → ps.length = fs'.length := by
  intro fs'
  induction fs' with
  | nil => intro ps h; cases ps with
    | nil => rfl
    | cons _ _ => simp [priorFitsWith] at h
  | cons f' fs' ih =>
    obtain ⟨i', n', t'⟩ := f'
    intro ps h
    cases ps with
    | nil => simp [priorFitsWith] at h
    | cons p ps =>
      simp only [priorFitsWith] at h
      simp [ih ps h.2]

/-- nothing to fill: the prior list comes back unchanged. -/
theorem projectWith_none (look : Nat → Ty → Option Val) :
    ∀ (fs' : Fields) (ps : List Val), (∀ f' ∈ fs', look f'.1 f'.2.2 = none) → ps.length = fs'.length →
      projectWith look fs' ps = ps := by
  intro fs'
  induction fs' with
  | nil => intro ps _ hl; cases ps with
    | nil => rfl
    | cons _ _ => simp at hl
  | cons f' fs' ih =>
    obtain ⟨i', n', t'⟩ := f'
    intro ps h hl
    cases ps with
    | nil => simp at hl
    | cons p ps =>
      have h1 := h (i', n', t') (by simp)
      simp only at h1
      simp only [projectWith, h1, Option.getD_none,
        ih ps (fun f hf => h f (by simp [hf])) (by simpa using hl)]

/-- all zeros fit any data. -/
theorem priorFitsWith_zeros (look : Nat → Ty → Option Val) :
    ∀ (fs' : Fields), priorFitsWith look fs' (zeros fs') := by
  intro fs'
  induction fs' with
  | nil => simp [zeros, priorFitsWith]
  | cons f' fs' ih =>
    obtain ⟨i', n', t'⟩ := f'
    simp only [zeros, priorFitsWith]
    exact ⟨fun _ => Or.inl trivial, ih⟩

theorem projectWith_split (look : Nat → Ty → Option Val) (f' : Nat × String × Ty) (suf' : Fields) (a : Val)
    (asuf : List Val) :
    ∀ (pre' : Fields) (apre : List Val), apre.length = pre'.length →
      projectWith look (pre' ++ f' :: suf') (apre ++ a :: asuf)
        = projectWith look pre' apre ++ (look f'.1 f'.2.2).getD a :: projectWith look suf' asuf := by
  intro pre'
  induction pre' with
  | nil =>
    intro apre hl
    cases apre with
    | nil => obtain ⟨i', n', t'⟩ := f'; simp [projectWith]
    | cons _ _ => simp at hl
  | cons g pre' ih =>
    obtain ⟨j, nj, tj⟩ := g
    intro apre hl
    cases apre with
    | nil => simp at hl
    | cons b apre =>
      simp only [List.cons_append, projectWith, ih apre (by simpa using hl)]

/-- split a fitting prior list at a field of the target. -/
theorem priorFitsWith_split (look : Nat → Ty → Option Val) (f' : Nat × String × Ty) (suf' : Fields) :
    ∀ (pre' : Fields) (acc : List Val), priorFitsWith look (pre' ++ f' :: suf') acc →
      ∃ apre a asuf, acc = apre ++ a :: asuf ∧ apre.length = pre'.length ∧
        priorFitsWith look pre' apre ∧
        ((look f'.1 f'.2.2).isSome = true → a = f'.2.2.zero ∨ f'.2.2.overwrites = true) ∧
        priorFitsWith look suf' asuf := by
  intro pre'
  induction pre' with
  | nil =>
    intro acc h
    obtain ⟨i', n', t'⟩ := f'
    cases acc with
    | nil => simp [priorFitsWith] at h
    | cons a asuf =>
      simp only [List.nil_append, priorFitsWith] at h
      exact ⟨[], a, asuf, rfl, rfl, by simp [priorFitsWith], h.1, h.2⟩
  | cons g pre' ih =>
    obtain ⟨j, nj, tj⟩ := g
    intro acc h
    cases acc with
    | nil => simp [priorFitsWith] at h
    | cons b acc =>
      simp only [List.cons_append, priorFitsWith] at h
      obtain ⟨apre, a, asuf, rfl, hl, h1, h2, h3⟩ := ih acc h.2
      refine ⟨b :: apre, a, asuf, rfl, by simp [hl], ?_, h2, h3⟩
      simp only [priorFitsWith]
      exact ⟨h.1, h1⟩

theorem priorFitsWith_join (look : Nat → Ty → Option Val) (f' : Nat × String × Ty) (suf' : Fields) (a : Val)
    (asuf : List Val) (ha : (look f'.1 f'.2.2).isSome = true → a = f'.2.2.zero ∨ f'.2.2.overwrites = true)
    (hsuf : priorFitsWith look suf' asuf) :
    ∀ (pre' : Fields) (apre : List Val), priorFitsWith look pre' apre →
      priorFitsWith look (pre' ++ f' :: suf') (apre ++ a :: asuf) := by
  intro pre'
  induction pre' with
  | nil =>
    intro apre h
    obtain ⟨i', n', t'⟩ := f'
    cases apre with
    | nil => simp only [List.nil_append, priorFitsWith]; exact ⟨ha, hsuf⟩
    | cons _ _ => simp [priorFitsWith] at h
  | cons g pre' ih =>
    obtain ⟨j, nj, tj⟩ := g
    intro apre h
    cases apre with
    | nil => simp [priorFitsWith] at h
    | cons b apre =>
      simp only [priorFitsWith] at h
      simp only [List.cons_append, priorFitsWith]
      exact ⟨h.1, ih apre h.2⟩

/-- an index that does not occur among the writer's fields is not in the data. -/
theorem lookupWith_none (pr : Ty → Ty → Val → Val) :
    ∀ (gs : Fields) (vs : List Val) (i' : Nat) (t' : Ty), i' ∉ gs.map (·.1) →
      lookupWith pr gs vs i' t' = none := by
  intro gs
  induction gs with
  | nil => intro vs i' t' _; simp [lookupWith]
  | cons g gs ih =>
    obtain ⟨j, nj, tj⟩ := g
    intro vs i' t' h
    cases vs with
    | nil => simp [lookupWith]
    | cons v vs =>
      have hji : ¬ j = i' := by intro e; apply h; simp [e]
      have h' : i' ∉ gs.map (·.1) := by
        intro e; apply h; simp only [List.map_cons, List.mem_cons]; exact Or.inr e
      simp only [lookupWith, hji, false_and, ↓reduceIte, ih vs i' t' h']

theorem fieldsProj_eq : ∀ (gs : Fields) (vs : List Val) (i' : Nat) (t' : Ty),
    fieldsProj gs vs i' t' = lookupWith Ty.proj gs vs i' t' := by
  intro gs
  induction gs with
  | nil => intro vs i' t'; simp [fieldsProj, lookupWith]
  | cons g gs ih =>
    obtain ⟨j, nj, tj⟩ := g
    intro vs i' t'
    cases vs with
    | nil => simp [fieldsProj, lookupWith]
    | cons v vs => simp only [fieldsProj, lookupWith, ih vs i' t']

theorem fieldsProj_eq' (gs : Fields) (vs : List Val) : fieldsProj gs vs = lookupWith Ty.proj gs vs := by
  funext i' t'; exact fieldsProj_eq gs vs i' t'


/-! ### 2b. overwriting codecs: the prior value is irrelevant -/

def ptrPrior (u : Ty) (p : Val) : Val :=
  match p with
  | .ptr (some x) => x
  | _ => u.zero

def ptrWrap : Res (Val × Nat) → Res (Val × Nat)
  | .ok (v, n) => .ok (.ptr (some v), n) | .err => .err | .panic => .panic | .hang => .hang

theorem read_ptr_eq (u : Ty) (wt : WT) (d : Bytes) (p : Val) :
    (Ty.ptr u).read wt d p = ptrWrap (u.read wt d (ptrPrior u p)) := by
  cases p with
  | ptr o =>
    cases o with
    | none =>
      simp only [Ty.read, ptrPrior]
      generalize u.read wt d u.zero = r
      cases r with
      | ok q => obtain ⟨a, n⟩ := q; rfl
      | _ => rfl
    | some x =>
      simp only [Ty.read, ptrPrior]
      generalize u.read wt d x = r
      cases r with
      | ok q => obtain ⟨a, n⟩ := q; rfl
      | _ => rfl
  | _ =>
    simp only [Ty.read, ptrPrior]
    generalize u.read wt d u.zero = r
    cases r with
    | ok q => obtain ⟨a, n⟩ := q; rfl
    | _ => rfl

/-- an overwriting codec, called with its own wire type, ignores the prior value. -/
theorem read_prior_irrel : (t : Ty) → t.overwrites = true → ∀ (d : Bytes) (a b : Val),
    t.read t.wt d a = t.read t.wt d b
  | .ptr u, h, d, a, b => by
      simp only [Ty.overwrites] at h
      simp only [Ty.wt, read_ptr_eq]
      rw [read_prior_irrel u h d (ptrPrior u a) (ptrPrior u b)]
  | .lslice u, _, d, a, b => by
      have hw : ¬ (WT.slice = WT.len) := by decide
      simp only [Ty.read, Ty.wt, hw, ↓reduceIte]
  | .bool, _, d, a, b | .int _, _, d, a, b | .uint _, _, d, a, b | .flat _, _, d, a, b
  | .f32, _, d, a, b | .f64, _, d, a, b | .str _, _, d, a, b | .bytes, _, d, a, b | .time _, _, d, a, b
  | .vslice _, _, d, a, b | .fslice _, _, d, a, b => by
      simp only [Ty.read]
  | .pslice _, h, _, _, _ | .struct _ _, h, _, _, _ | .map _ _ _, h, _, _, _ => by
      simp [Ty.overwrites] at h

theorem overwrites_not_rep (t : Ty) (h : t.overwrites = true) : t.isProtoRep = false := by
  cases t <;> simp_all [Ty.overwrites, Ty.isProtoRep]

theorem fieldRead_prior_irrel (t : Ty) (h : t.overwrites = true) (body : Bytes) (a b : Val) :
    fieldRead t t.wt body a = fieldRead t t.wt body b := by
  unfold fieldRead
  by_cases hw : t.wt = .len
  · simp only [hw, ↓reduceIte]
    cases readU body with
    | none => rfl
    | some q =>
      obtain ⟨l, n⟩ := q
      simp only
      have := read_prior_irrel t h ((body.drop n).take l) a b
      rw [hw] at this
      rw [this]
  · simp only [hw, ↓reduceIte]
    exact read_prior_irrel t h body a b

/-- the first iteration decides: two start states on which the reader agrees for
the first field give the same loop. -/
theorem structLoop_first_congr (rd : Nat → WT → Bytes → List Val → Res (List Val × Nat))
    (fuel : Nat) (wt : WT) (i : Nat) (hi : i < 2 ^ 61) (body : Bytes) (off : Nat) (acc1 acc2 : List Val)
    (h : rd i wt body acc1 = rd i wt body acc2) :
    structLoop rd fuel (appendTag wt i ++ body) off acc1 = structLoop rd fuel (appendTag wt i ++ body) off acc2 := by
  cases fuel with
  | zero => rfl
  | succ f =>
    have hpos := appendTag_len_pos wt i
    have hne : (appendTag wt i ++ body).isEmpty = false := by
      cases h : appendTag wt i ++ body with
      | nil =>
        have := congrArg List.length h
        simp only [List.length_append, List.length_nil] at this; omega
      | cons _ _ => rfl
    rw [structLoop, structLoop]
    simp only [hne, Bool.false_eq_true, ↓reduceIte, tag_roundtrip wt i hi body, drop_append_len _ _ _ rfl, h]

/-- a field whose target codec overwrites may start from any prior value. -/
theorem start_irrelevant (t t' : Ty) (hwf : t.wf) (hs : Ty.rtShape true t) (hrep : t.isProtoRep = false)
    (hwt : t'.wt = t.wt) (hov : t'.overwrites = true)
    (i : Nat) (hi : i < 2 ^ 61) (v : Val) (hty : t.hasTy v) (hom : v.omit = false)
    (rd : Nat → WT → Bytes → List Val → Res (List Val × Nat)) (put : Val → List Val)
    (hrd : ∀ wt body a, rd i wt body (put a) = Res.mapFst put (fieldRead t' wt body a))
    (a : Val) (fuel : Nat) (rest : Bytes) (off : Nat) :
    structLoop rd fuel (t.app v (appendTag t.wt i) ++ rest) off (put a)
      = structLoop rd fuel (t.app v (appendTag t.wt i) ++ rest) off (put t'.zero) := by
  have hs' := shape_false_of_true t hrep hs
  have hp := present_of_shape t hs' v hty (ne_ptr_none_of_not_omit v hom)
  have hr := deref_not_rep t hs'
  have hstep : ∀ body, rd i t.wt body (put a) = rd i t.wt body (put t'.zero) := by
    intro body
    rw [hrd, hrd, ← hwt, fieldRead_prior_irrel t' hov body a t'.zero]
  by_cases hl : t.wt = .len
  · rw [app_frame_len t v _ hwf hty hp hl hr (appendTag_ne_nil _ _)]
    simp only [List.append_assoc]
    exact structLoop_first_congr rd fuel t.wt i hi _ off _ _ (hstep _)
  · rw [app_frame_other t v _ hwf hty hp hl]
    simp only [List.append_assoc]
    exact structLoop_first_congr rd fuel t.wt i hi _ off _ _ (hstep _)

/-! ### 3. the struct loop of the target over data of the source -/

/-- Decoding one field written with codec `t` by a target field with codec `t'`:
the struct loop, started on the field's encoding with the target field at its
zero value, continues on the following bytes with the target field at `r v`.
(`RT.RTField t` is `EvField t t t.norm`.) -/
def EvField (t t' : Ty) (r : Val → Val) : Prop :=
  ∀ (i : Nat) (v : Val), i < 2 ^ 61 → t.hasTy v → v.omit = false →
    (t.app v (appendTag t.wt i)).length < 2 ^ 64 →
    ∀ (rd : Nat → WT → Bytes → List Val → Res (List Val × Nat)) (put : Val → List Val),
      (∀ wt body a, rd i wt body (put a) = Res.mapFst put (fieldRead t' wt body a)) →
      ∀ (fuel : Nat) (rest : Bytes) (off : Nat), (t.app v (appendTag t.wt i) ++ rest).length < fuel →
        structLoop rd fuel (t.app v (appendTag t.wt i) ++ rest) off (put t'.zero)
          = structLoop rd fuel rest (off + (t.app v (appendTag t.wt i)).length) (put (r v))

theorem evField_of_rtField (t : Ty) (h : RTField t) : EvField t t t.norm := h

/-- a field of the source that the target does not have. -/
def SkipField (t : Ty) : Prop :=
  ∀ (i : Nat) (v : Val), i < 2 ^ 61 → t.hasTy v → v.omit = false →
    (t.app v (appendTag t.wt i)).length < 2 ^ 64 →
    ∀ (rd : Nat → WT → Bytes → List Val → Res (List Val × Nat)) (acc : List Val), Skips rd i acc →
      ∀ (fuel : Nat) (rest : Bytes) (off : Nat), (t.app v (appendTag t.wt i) ++ rest).length < fuel →
        structLoop rd fuel (t.app v (appendTag t.wt i) ++ rest) off acc
          = structLoop rd fuel rest (off + (t.app v (appendTag t.wt i)).length) acc

theorem skipField_of_shape (t : Ty) (hwf : t.wf) (hs : Ty.rtShape true t) : SkipField t :=
  fun i v hi hty hom hsz rd acc hrd fuel rest off hf =>
    skip_unknown_field t hwf hs v hty hom i hi hsz rd acc hrd fuel rest off hf

/-- the loop over a field of the source read by an overwriting target field does
not depend on what the target field held. -/
def StartIrrel (t t' : Ty) : Prop :=
  ∀ (i : Nat) (v : Val), i < 2 ^ 61 → t.hasTy v → v.omit = false →
    ∀ (rd : Nat → WT → Bytes → List Val → Res (List Val × Nat)) (put : Val → List Val),
      (∀ wt body a, rd i wt body (put a) = Res.mapFst put (fieldRead t' wt body a)) →
      ∀ (a : Val) (fuel : Nat) (rest : Bytes) (off : Nat),
        structLoop rd fuel (t.app v (appendTag t.wt i) ++ rest) off (put a)
          = structLoop rd fuel (t.app v (appendTag t.wt i) ++ rest) off (put t'.zero)

theorem startIrrel_of (t t' : Ty) (hwf : t.wf) (hs : Ty.rtShape true t) (hrep : t.isProtoRep = false)
    (hwt : t'.wt = t.wt) (hov : t'.overwrites = true) : StartIrrel t t' :=
  fun i v hi hty hom rd put hrd a fuel rest off =>
    start_irrelevant t t' hwf hs hrep hwt hov i hi v hty hom rd put hrd a fuel rest off

theorem lookupWith_omit (pr : Ty → Ty → Val → Val) (f : Nat × String × Ty) (gs : Fields) (v : Val)
    (vs : List Val) (ho : v.omit = true) :
    lookupWith pr (f :: gs) (v :: vs) = lookupWith pr gs vs := by
  obtain ⟨i, nm, t⟩ := f
  funext i' t'
  simp [lookupWith, ho]

theorem lookupWith_ne (pr : Ty → Ty → Val → Val) (i : Nat) (nm : String) (t : Ty) (gs : Fields) (v : Val)
    (vs : List Val) (i' : Nat) (t' : Ty) (h : ¬ i = i') :
    lookupWith pr ((i, nm, t) :: gs) (v :: vs) i' t' = lookupWith pr gs vs i' t' := by
  simp [lookupWith, h]

theorem nodup_split_notin (pre' : Fields) (f' : Nat × String × Ty) (suf' : Fields)
    (h : ((pre' ++ f' :: suf').map (·.1)).Nodup) :
    f'.1 ∉ pre'.map (·.1) ∧ f'.1 ∉ suf'.map (·.1) := by
  simp only [List.map_append, List.map_cons] at h
  have h1 := List.nodup_append.mp h
  refine ⟨fun hm => h1.2.2 _ hm _ (by simp) rfl, ?_⟩
  have h2 := h1.2.1
  exact (List.nodup_cons.mp h2).1

/-- **The struct loop of the target over data of the source.** `gs`, `vs`: the
(remaining) fields and values of the writer; `fs'`: the fields of the reader;
`acc`: its current field values. Every source field is either known to the
reader — then its codec pair decodes it (`EvField`) — or unknown and skipped
(`SkipField`). The loop ends with exactly the projection. -/
theorem evolve_loop (pr : Ty → Ty → Val → Val) (fs' : Fields) (hnd' : (fs'.map (·.1)).Nodup) :
    ∀ (gs : Fields) (vs : List Val), (gs.map (·.1)).Nodup → (∀ f ∈ gs, f.1 < 2 ^ 61) →
      (∀ f ∈ gs, ∀ f' ∈ fs', f.1 = f'.1 → EvField f.2.2 f'.2.2 (pr f.2.2 f'.2.2)) →
      (∀ f ∈ gs, ∀ f' ∈ fs', f.1 = f'.1 → f'.2.2.overwrites = true → StartIrrel f.2.2 f'.2.2) →
      (∀ f ∈ gs, f.1 ∉ fs'.map (·.1) → SkipField f.2.2) →
      fieldsHaveTy gs vs →
      ∀ (acc : List Val), priorFitsWith (lookupWith pr gs vs) fs' acc →
      ∀ (fuel off : Nat), (fieldsApp gs vs).length < fuel → (fieldsApp gs vs).length < 2 ^ 64 →
      structLoop (fun idx wt body acc => readField fs' acc idx wt body) fuel (fieldsApp gs vs) off acc
        = .ok (projectWith (lookupWith pr gs vs) fs' acc, off + (fieldsApp gs vs).length) := by
  intro gs
  induction gs with
  | nil =>
    intro vs _ _ _ _ _ hty acc hfit fuel off hf _
    cases vs with
    | nil =>
      simp only [fieldsApp, List.length_nil, Nat.add_zero]
      rw [structLoop_nil _ _ _ _ (by omega)]
      rw [projectWith_none _ fs' acc (fun f' _ => by simp [lookupWith]) (priorFitsWith_length _ _ _ hfit)]
    | cons _ _ => simp [fieldsHaveTy] at hty
  | cons f gs ih =>
    obtain ⟨i, nm, t⟩ := f
    intro vs hnd hidx hev hirr hsk hty acc hfit fuel off hf hsz
    cases vs with
    | nil => simp [fieldsHaveTy] at hty
    | cons v vs =>
      simp only [fieldsHaveTy] at hty
      obtain ⟨htv, htr⟩ := hty
      have hnd2 : (gs.map (·.1)).Nodup := by
        simp only [List.map_cons] at hnd; exact (List.nodup_cons.mp hnd).2
      have hni : i ∉ gs.map (·.1) := by
        simp only [List.map_cons] at hnd; exact (List.nodup_cons.mp hnd).1
      have hidx2 : ∀ f ∈ gs, f.1 < 2 ^ 61 := fun f hf => hidx f (by simp [hf])
      have hev2 : ∀ f ∈ gs, ∀ f' ∈ fs', f.1 = f'.1 → EvField f.2.2 f'.2.2 (pr f.2.2 f'.2.2) :=
        fun f hf => hev f (by simp [hf])
      have hirr2 : ∀ f ∈ gs, ∀ f' ∈ fs', f.1 = f'.1 → f'.2.2.overwrites = true → StartIrrel f.2.2 f'.2.2 :=
        fun f hf => hirr f (by simp [hf])
      have hsk2 : ∀ f ∈ gs, f.1 ∉ fs'.map (·.1) → SkipField f.2.2 := fun f hf => hsk f (by simp [hf])
      have hi : i < 2 ^ 61 := hidx (i, nm, t) (by simp)
      cases ho : v.omit with
      | true =>
        have e1 : fieldsApp ((i, nm, t) :: gs) (v :: vs) = fieldsApp gs vs := by simp [fieldsApp, ho]
        rw [e1] at hf hsz ⊢
        rw [lookupWith_omit pr _ gs v vs ho] at hfit ⊢
        exact ih vs hnd2 hidx2 hev2 hirr2 hsk2 htr acc hfit fuel off hf hsz
      | false =>
        have e1 : fieldsApp ((i, nm, t) :: gs) (v :: vs)
            = t.app v (appendTag t.wt i) ++ fieldsApp gs vs := by simp [fieldsApp, ho]
        rw [e1] at hf hsz ⊢
        simp only [List.length_append] at hsz
        by_cases hin : i ∈ fs'.map (·.1)
        · -- the reader knows the index
          obtain ⟨f', hf', hfi⟩ := List.mem_map.mp hin
          obtain ⟨pre', suf', rfl⟩ := List.append_of_mem hf'
          obtain ⟨i', nm', t'⟩ := f'
          simp only at hfi
          subst hfi
          obtain ⟨hnp, hns⟩ := nodup_split_notin pre' (i', nm', t') suf' hnd'
          simp only at hnp hns
          obtain ⟨apre, a, asuf, rfl, hl, hfp, hfa, hfs⟩ :=
            priorFitsWith_split _ (i', nm', t') suf' pre' acc hfit
          have hlook : lookupWith pr ((i', nm, t) :: gs) (v :: vs) i' t' = some (pr t t' v) := by
            simp [lookupWith, ho]
          have ha := hfa (by simp only [hlook]; rfl)
          have hE : EvField t t' (pr t t') := hev (i', nm, t) (by simp) (i', nm', t') hf' rfl
          have hrd : ∀ wt body a,
              (fun idx wt body acc => readField (pre' ++ (i', nm', t') :: suf') acc idx wt body) i' wt body
                  ((fun x => apre ++ x :: asuf) a)
                = Res.mapFst (fun x => apre ++ x :: asuf) (fieldRead t' wt body a) :=
            fun wt body a => readField_at pre' i' nm' t' suf' hnp apre hl a asuf wt body
          have hstart : structLoop
                (fun idx wt body acc => readField (pre' ++ (i', nm', t') :: suf') acc idx wt body) fuel
                (t.app v (appendTag t.wt i') ++ fieldsApp gs vs) off (apre ++ a :: asuf)
              = structLoop
                (fun idx wt body acc => readField (pre' ++ (i', nm', t') :: suf') acc idx wt body) fuel
                (t.app v (appendTag t.wt i') ++ fieldsApp gs vs) off (apre ++ t'.zero :: asuf) := by
            rcases ha with rfl | hov
            · rfl
            · exact hirr (i', nm, t) (by simp) (i', nm', t') hf' rfl hov i' v hi htv ho _
                (fun x => apre ++ x :: asuf) hrd a fuel _ off
          rw [hstart]
          have hrt := hE i' v hi htv ho (by omega)
            (fun idx wt body acc => readField (pre' ++ (i', nm', t') :: suf') acc idx wt body)
            (fun x => apre ++ x :: asuf) hrd fuel (fieldsApp gs vs) off hf
          rw [hrt]
          -- the looks of the remaining fields agree away from position `i'`
          have hagree : ∀ g' ∈ pre' ++ suf', lookupWith pr ((i', nm, t) :: gs) (v :: vs) g'.1 g'.2.2
              = lookupWith pr gs vs g'.1 g'.2.2 := by
            intro g' hg'
            apply lookupWith_ne
            intro e
            rcases List.mem_append.mp hg' with h | h
            · exact hnp (e ▸ List.mem_map.mpr ⟨g', h, rfl⟩)
            · exact hns (e ▸ List.mem_map.mpr ⟨g', h, rfl⟩)
          have hnone : lookupWith pr gs vs i' t' = none := lookupWith_none pr gs vs i' t' hni
          have hfit' : priorFitsWith (lookupWith pr gs vs) (pre' ++ (i', nm', t') :: suf')
              (apre ++ pr t t' v :: asuf) := by
            apply priorFitsWith_join
            · intro h; simp only [hnone] at h; exact absurd h (by simp)
            · exact priorFitsWith_congr _ _ suf' asuf (fun g' hg' => hagree g' (by simp [hg'])) hfs
            · exact priorFitsWith_congr _ _ pre' apre (fun g' hg' => hagree g' (by simp [hg'])) hfp
          simp only [List.length_append] at hf
          rw [ih vs hnd2 hidx2 hev2 hirr2 hsk2 htr _ hfit' fuel _ (by omega) (by omega)]
          rw [projectWith_split _ _ _ _ _ pre' apre hl, projectWith_split _ _ _ _ _ pre' apre hl]
          simp only [hlook, hnone, Option.getD_some, Option.getD_none]
          rw [projectWith_congr _ _ pre' apre (fun g' hg' => hagree g' (by simp [hg'])),
            projectWith_congr _ _ suf' asuf (fun g' hg' => hagree g' (by simp [hg']))]
          simp only [List.length_append, Nat.add_assoc]
        · -- the reader does not know the index: `Skip`
          have hS : SkipField t := hsk (i, nm, t) (by simp) hin
          have hlen := priorFitsWith_length _ _ _ hfit
          rw [hS i v hi htv ho (by omega) _ acc (skips_readField fs' acc i hin hlen) fuel (fieldsApp gs vs) off hf]
          have hagree : ∀ g' ∈ fs', lookupWith pr ((i, nm, t) :: gs) (v :: vs) g'.1 g'.2.2
              = lookupWith pr gs vs g'.1 g'.2.2 := by
            intro g' hg'
            apply lookupWith_ne
            intro e
            exact hin (e ▸ List.mem_map.mpr ⟨g', hg', rfl⟩)
          simp only [List.length_append] at hf
          rw [ih vs hnd2 hidx2 hev2 hirr2 hsk2 htr acc (priorFitsWith_congr _ _ fs' acc hagree hfit) fuel _
            (by omega) (by omega)]
          rw [projectWith_congr _ _ fs' acc hagree]
          simp only [List.length_append, Nat.add_assoc]

/-! ### 4. the relation: what it preserves -/

theorem evolves_ptr (u t' : Ty) (h : (Ty.ptr u).Evolves t') : ∃ u', t' = .ptr u' ∧ u.Evolves u' := by
  cases t' with
  | ptr u' => exact ⟨u', rfl, by simpa only [Ty.Evolves] using h⟩
  | _ => simp [Ty.Evolves] at h

theorem evolves_lslice (u t' : Ty) (h : (Ty.lslice u).Evolves t') : ∃ u', t' = .lslice u' ∧ u.Evolves u' := by
  cases t' with
  | lslice u' => exact ⟨u', rfl, by simpa only [Ty.Evolves] using h⟩
  | _ => simp [Ty.Evolves] at h

theorem evolves_pslice (u t' : Ty) (h : (Ty.pslice u).Evolves t') : ∃ u', t' = .pslice u' ∧ u.Evolves u' := by
  cases t' with
  | pslice u' => exact ⟨u', rfl, by simpa only [Ty.Evolves] using h⟩
  | _ => simp [Ty.Evolves] at h

theorem evolves_struct (n : String) (fs : Fields) (t' : Ty) (h : (Ty.struct n fs).Evolves t') :
    ∃ n' fs', t' = .struct n' fs' ∧ FieldsEvolve fs fs' := by
  cases t' with
  | struct n' fs' => exact ⟨n', fs', rfl, by simpa only [Ty.Evolves, FieldsEvolve] using h⟩
  | _ => simp [Ty.Evolves] at h

theorem evolves_map (k v : Ty) (p : Bool) (t' : Ty) (h : (Ty.map k v p).Evolves t') :
    ∃ v', t' = .map k v' p ∧ v.Evolves v' := by
  cases t' with
  | map k' v' p' =>
    simp only [Ty.Evolves] at h
    obtain ⟨rfl, rfl, h⟩ := h
    exact ⟨v', rfl, h⟩
  | _ => simp [Ty.Evolves] at h

theorem fieldEvolves_mem : ∀ (fs : Fields) (i' : Nat) (t' : Ty), fieldEvolves fs i' t' →
    ∀ f ∈ fs, f.1 = i' → f.2.2.Evolves t' := by
  intro fs
  induction fs with
  | nil => intro i' t' _ f hf; simp at hf
  | cons g fs ih =>
    obtain ⟨j, nj, tj⟩ := g
    intro i' t' h f hf he
    simp only [fieldEvolves] at h
    rcases List.mem_cons.mp hf with rfl | hf
    · exact h.1 he
    · exact ih i' t' h.2 f hf he

theorem evolves_isPtr (t t' : Ty) (h : t.Evolves t') : t'.isPtr = t.isPtr := by
  cases t <;> cases t' <;> simp_all [Ty.Evolves, Ty.isPtr]

theorem evolves_isProtoRep (t t' : Ty) (h : t.Evolves t') : t'.isProtoRep = t.isProtoRep := by
  cases t with
  | map k v p => obtain ⟨v', rfl, _⟩ := evolves_map k v p t' h; cases p <;> rfl
  | _ => cases t' <;> simp_all [Ty.Evolves, Ty.isProtoRep]

/-- an evolved codec has the wire type of the original. -/
theorem evolves_wt : (t t' : Ty) → t.Evolves t' → t'.wt = t.wt
  | .ptr u, t', h => by
      obtain ⟨u', rfl, h'⟩ := evolves_ptr u t' h
      simp only [Ty.wt]; exact evolves_wt u u' h'
  | .lslice u, t', h => by obtain ⟨u', rfl, _⟩ := evolves_lslice u t' h; rfl
  | .pslice u, t', h => by obtain ⟨u', rfl, _⟩ := evolves_pslice u t' h; rfl
  | .struct n fs, t', h => by obtain ⟨n', fs', rfl, _⟩ := evolves_struct n fs t' h; rfl
  | .map k v p, t', h => by obtain ⟨v', rfl, _⟩ := evolves_map k v p t' h; cases p <;> rfl
  | .bool, t', h | .int _, t', h | .uint _, t', h | .flat _, t', h | .f32, t', h | .f64, t', h
  | .str _, t', h | .bytes, t', h | .time _, t', h | .vslice _, t', h | .fslice _, t', h => by
      simp only [Ty.Evolves] at h
      subst h; rfl

/-- reading no bytes into the zero value gives the zero value (`RT.read_nil`
without the round-trip shape: only the top constructor matters). -/
theorem read_nil' (t : Ty) (hwf : t.wf) (hr : t.isProtoRep = false) (hp : t.isPtr = false) :
    t.read t.wt [] t.zero = .ok (t.zero, 0) := by
  cases t with
  | bool => simp [Ty.read, Ty.zero, readVarUint, uvarintAux]
  | int w =>
    simp only [Ty.wf] at hwf
    rcases hwf with rfl | rfl | rfl | rfl <;> simp [Ty.read, Ty.zero, readVarUint, uvarintAux, zagZig, wrapS]
  | uint w => simp [Ty.read, Ty.zero, readVarUint, uvarintAux, wrapU]
  | flat w =>
    simp only [Ty.wf] at hwf
    rcases hwf with rfl | rfl | rfl | rfl <;> simp [Ty.read, Ty.zero, readVarUint, uvarintAux, wrapS]
  | f32 => simp [Ty.read, Ty.zero]
  | f64 => simp [Ty.read, Ty.zero]
  | str b => simp [Ty.read, Ty.zero]
  | bytes => simp [Ty.read, Ty.zero]
  | time c => simp [Ty.read, Ty.zero]
  | ptr u => simp [Ty.isPtr] at hp
  | vslice u => simp [Ty.read, Ty.zero, countVarints, readN]
  | fslice u =>
    simp only [Ty.wf] at hwf
    rcases hwf with rfl | rfl <;> simp [Ty.read, Ty.zero, Ty.size, readN]
  | lslice u => simp [Ty.read, Ty.zero, Ty.wt, readVarUint, uvarintAux, elemLoop]
  | pslice u => simp [Ty.isProtoRep] at hr
  | struct n fs => simp [Ty.read, Ty.zero, structLoop]
  | map k v p =>
    cases p with
    | true => simp [Ty.isProtoRep] at hr
    | false => simp [Ty.read, Ty.zero]

/-! ### 5. evolved wrappers: pointer, slices, structs -/

/-- Decoding with the evolved codec `t'` a value written with `t`, in value
position (`RT.RTVal` with two codecs): exact for the length-delimited kinds,
prefix-stable for the self-delimiting kinds; the reader is called with the wire
type found in the data (`t.wt`) and the target's zero value. -/
def EvVal (t t' : Ty) : Prop :=
  ∀ v, t.hasTy v → v ≠ .ptr none → v ≠ .map none → (t.app v []).length < 2 ^ 64 →
    (t.wt = .len → t'.read .len (t.app v []) t'.zero = .ok (t.proj t' v, (t.app v []).length)) ∧
    (t.wt ≠ .len → ∀ rest, t'.read t.wt (t.app v [] ++ rest) t'.zero = .ok (t.proj t' v, (t.app v []).length))

theorem ev_ptr (u u' : Ty) (hu : u.isPtr = false) (hm : u.isMap = false) (h : EvVal u u') :
    EvVal (.ptr u) (.ptr u') := by
  intro v hty hv _ hsz
  cases v with
  | ptr o =>
    cases o with
    | none => exact absurd rfl hv
    | some x =>
      simp only [Ty.hasTy] at hty
      have hx : x ≠ .ptr none := ne_ptr_none_of_not_ptr u hu x hty
      simp only [Ty.app] at hsz
      have := h x hty hx (ne_map_none_of_not_map u hm x hty) hsz
      simp only [Ty.wt, Ty.app, Ty.zero, Ty.proj]
      refine ⟨fun hl => ?_, fun hl rest => ?_⟩
      · simp only [Ty.read, this.1 hl]
      · simp only [Ty.read, this.2 hl rest]
  | _ => simp [Ty.hasTy] at hty

/-- a single-frame field (every codec but the two repeated forms). -/
theorem evField_of_val (t t' : Ty) (hwf : t.wf) (hs : Ty.rtShape false t) (h : EvVal t t') :
    EvField t t' (t.proj t') := by
  intro i v hi hty hom hsz rd put hrd fuel rest off hf
  have hv := ne_ptr_none_of_not_omit v hom
  have hv2 := ne_map_none_of_not_omit v hom
  have hpres := present_of_shape t hs v hty hv
  have htag := appendTag_ne_nil t.wt i
  by_cases hw : t.wt = .len
  · have hE := app_frame_len t v (appendTag t.wt i) hwf hty hpres hw (deref_not_rep t hs) htag
    rw [hE] at hsz hf ⊢
    generalize hB : t.app v [] = B at hsz hf h ⊢
    simp only [List.length_append] at hsz
    have hBl : B.length < 2 ^ 64 := by omega
    have hread := (h v hty hv hv2 (by rw [hB]; exact hBl)).1 hw
    rw [hB] at hread
    simp only [List.append_assoc] at hf ⊢
    have hstep : rd i t.wt (appendVarUint B.length ++ (B ++ rest)) (put t'.zero)
        = .ok (put (t.proj t' v), (appendVarUint B.length).length + B.length) := by
      rw [hrd, hw, fieldRead_len t' B rest _ hBl, hread]; rfl
    rw [structLoop_step rd fuel t.wt i hi _ off _ _ _ (by simp only [List.length_append]; omega) hstep hf]
    have hd : (appendVarUint B.length ++ (B ++ rest)).drop ((appendVarUint B.length).length + B.length) = rest := by
      rw [← List.append_assoc]; exact drop_append_len _ _ _ (by simp only [List.length_append])
    rw [hd]
    simp only [List.length_append]
  · have hE := app_frame_other t v (appendTag t.wt i) hwf hty hpres hw
    rw [hE] at hsz hf ⊢
    generalize hB : t.app v [] = B at hsz hf h ⊢
    simp only [List.length_append] at hsz
    have hBl : B.length < 2 ^ 64 := by omega
    have hread := (h v hty hv hv2 (by rw [hB]; exact hBl)).2 hw rest
    rw [hB] at hread
    simp only [List.append_assoc] at hf ⊢
    have hstep : rd i t.wt (B ++ rest) (put t'.zero) = .ok (put (t.proj t' v), B.length) := by
      rw [hrd, fieldRead_other t' t.wt hw, hread]; rfl
    rw [structLoop_step rd fuel t.wt i hi _ off _ _ _ (by simp only [List.length_append]; omega) hstep hf]
    rw [drop_append_len _ _ _ rfl]
    simp only [List.length_append]

/-- the element projection inside `Ty.proj` for the two slice forms with
length-delimited elements: a nil pointer comes back as a pointer to the zero
value of the *target's* element type. -/
def elemProj (t t' : Ty) (v : Val) : Val :=
  match t', v with
  | .ptr u', .ptr none => .ptr (some u'.zero)
  | _, v => t.proj t' v

theorem proj_lslice (t t' : Ty) (vs : List Val) :
    (Ty.lslice t).proj (.lslice t') (.slice vs) = .slice (vs.map (elemProj t t')) := by
  simp only [Ty.proj]; rfl

theorem proj_pslice (t t' : Ty) (vs : List Val) :
    (Ty.pslice t).proj (.pslice t') (.slice vs) = .slice (vs.map (elemProj t t')) := by
  simp only [Ty.proj]; rfl

theorem elemProj_present (t t' : Ty) (v : Val) (hv : v ≠ .ptr none) : elemProj t t' v = t.proj t' v := by
  cases t' with
  | ptr u =>
    cases v with
    | ptr o =>
      cases o with
      | none => exact absurd rfl hv
      | some x => rfl
    | _ => rfl
  | _ => rfl

theorem ev_elem (t t' : Ty) (hwf : t.wf) (hwf' : t'.wf) (hev : t.Evolves t') (hs : Ty.rtShape false t)
    (hwt : t.wt = .len) (hm : t.isMap = false) (ih : EvVal t t')
    (v : Val) (hty : t.hasTy v) (hsz : (t.app v []).length < 2 ^ 64) :
    t'.read .len (t.app v []) t'.zero = .ok (elemProj t t' v, (t.app v []).length) := by
  by_cases hv : v = .ptr none
  · subst hv
    cases t with
    | ptr u =>
      obtain ⟨u', rfl, hev'⟩ := evolves_ptr u t' hev
      simp only [Ty.rtShape] at hs
      simp only [Ty.wf] at hwf hwf'
      simp only [Ty.wt] at hwt
      have hwt' : u'.wt = .len := by rw [evolves_wt u u' hev', hwt]
      have := read_nil' u' hwf'.1
        (by rw [evolves_isProtoRep u u' hev']; exact isPtr_false_not_rep_of_shape u hs.2)
        (by rw [evolves_isPtr u u' hev']; exact hs.1)
      rw [hwt'] at this
      simp only [Ty.app, Ty.zero, Ty.read, this, elemProj, List.length_nil]
    | _ => simp [Ty.hasTy] at hty
  · rw [elemProj_present t t' v hv]
    exact (ih v hty hv (ne_map_none_of_not_map t hm v hty) hsz).1 hwt

theorem ev_lslice (t t' : Ty) (hwf : (Ty.lslice t).wf) (hwf' : t'.wf) (hev : t.Evolves t')
    (hs : Ty.rtShape false t) (ih : EvVal t t') : EvVal (.lslice t) (.lslice t') := by
  intro v hty _ _ hsz
  cases v with
  | slice vs =>
    refine ⟨fun h => by simp [Ty.wt] at h, fun _ rest => ?_⟩
    have he := lslice_entries t vs [] hwf hty
    simp only [List.nil_append] at he
    rw [he] at hsz ⊢
    simp only [Ty.wf] at hwf
    obtain ⟨hwft, hwt, hmap, _⟩ := hwf
    simp only [Ty.hasTy] at hty
    generalize hE : (vs.flatMap fun v => appendVarUint (t.app v []).length ++ t.app v []) = E at hsz ⊢
    have hcnt : vs.length ≤ E.length := by
      rw [← hE]
      apply length_le_flatMap_length
      intro x _
      have := append_len_pos (t.app x []).length
      simp only [List.length_append]; omega
    simp only [List.length_append] at hsz
    have hn : vs.length < 2 ^ 64 := by omega
    have ⟨h1, h2, h3⟩ := readVarUint_app vs.length hn (E ++ rest)
    have hloop := elemLoop_flatMap (fun b => t'.read .len b t'.zero) (fun v => t.app v []) (elemProj t t') vs rest
      (fun x hx => by
        have hl : (t.app x []).length < 2 ^ 64 := by
          have := length_le_flatMap_of_mem (fun v => appendVarUint (t.app v []).length ++ t.app v []) vs x hx
          simp only [List.length_append] at this
          rw [hE] at this
          omega
        exact ⟨hl, ev_elem t t' hwft hwf' hev hs hwt hmap ih x (hty x hx) hl⟩)
    rw [hE] at hloop
    have hw : ¬ (WT.slice = WT.len) := by decide
    have hc : ¬ (vs.length > (appendVarUint vs.length).length + (E.length + rest.length)
        - (appendVarUint vs.length).length) := by
      omega
    simp only [Ty.wt, Ty.read, hw, ↓reduceIte, List.append_assoc, h1, h2, h3, hc,
      drop_append_len _ _ _ rfl, hloop, proj_lslice, List.length_append]
  | _ => simp [Ty.hasTy] at hty

theorem pslice_loop' (t t' : Ty) (hwf : t.wf) (hwf' : t'.wf) (hev : t.Evolves t') (hs : Ty.rtShape false t)
    (hwt : t.wt = .len) (hm : t.isMap = false) (ih : EvVal t t')
    (i : Nat) (hi : i < 2 ^ 61)
    (rd : Nat → WT → Bytes → List Val → Res (List Val × Nat)) (put : Val → List Val)
    (hrd : ∀ wt body a, rd i wt body (put a) = Res.mapFst put (fieldRead (.pslice t') wt body a)) :
    ∀ (vs done : List Val) (fuel : Nat) (rest : Bytes) (off : Nat),
      (∀ v ∈ vs, t.hasTy v) →
      (vs.flatMap fun v => elemFrame t v (appendTag .len i)).length < 2 ^ 64 →
      ((vs.flatMap fun v => elemFrame t v (appendTag .len i)) ++ rest).length < fuel →
      structLoop rd fuel ((vs.flatMap fun v => elemFrame t v (appendTag .len i)) ++ rest) off (put (.slice done))
        = structLoop rd fuel rest (off + (vs.flatMap fun v => elemFrame t v (appendTag .len i)).length)
            (put (.slice (done ++ vs.map (elemProj t t')))) := by
  intro vs
  induction vs with
  | nil => intro done fuel rest off _ _ _; simp
  | cons v vs ihvs =>
    intro done fuel rest off hty hsz hf
    simp only [List.flatMap_cons, List.length_append, elemFrame, List.append_assoc] at hsz hf ⊢
    generalize hB : t.app v [] = B at hsz hf ⊢
    generalize hE : (vs.flatMap fun v => appendTag WT.len i ++ (appendVarUint (t.app v []).length ++ t.app v [])) = E
      at hsz hf ⊢
    have hBl : B.length < 2 ^ 64 := by omega
    have hread := ev_elem t t' hwf hwf' hev hs hwt hm ih v (hty v (by simp)) (by rw [hB]; exact hBl)
    rw [hB] at hread
    have hstep : rd i .len (appendVarUint B.length ++ (B ++ (E ++ rest))) (put (.slice done))
        = .ok (put (.slice (done ++ [elemProj t t' v])), (appendVarUint B.length).length + B.length) := by
      rw [hrd, fieldRead_len _ B _ _ hBl]
      simp only [Ty.read, hread]; rfl
    rw [structLoop_step rd fuel .len i hi _ off _ _ _ (by simp only [List.length_append]; omega) hstep
      (by simp only [List.length_append]; omega)]
    have hd : (appendVarUint B.length ++ (B ++ (E ++ rest))).drop ((appendVarUint B.length).length + B.length)
        = E ++ rest := by
      rw [← List.append_assoc]; exact drop_append_len _ _ _ (by simp only [List.length_append])
    rw [hd]
    have := ihvs (done ++ [elemProj t t' v]) fuel rest
      (off + ((appendTag WT.len i).length + ((appendVarUint B.length).length + B.length)))
      (fun x hx => hty x (by simp [hx]))
    simp only [elemFrame, List.append_assoc, hE] at this
    rw [this (by omega) (by simp only [List.length_append]; omega)]
    simp only [List.map_cons, List.singleton_append, Nat.add_assoc]

theorem evField_pslice (t t' : Ty) (hwf : (Ty.pslice t).wf) (hwf' : t'.wf) (hev : t.Evolves t')
    (hs : Ty.rtShape false t) (ih : EvVal t t') :
    EvField (.pslice t) (.pslice t') ((Ty.pslice t).proj (.pslice t')) := by
  intro i v hi hty hom hsz rd put hrd fuel rest off hf
  cases v with
  | slice vs =>
    have hE := pslice_frames t vs (appendTag (Ty.pslice t).wt i) hwf hty (deref_not_rep t hs)
      (appendTag_ne_nil _ _)
    rw [hE] at hsz hf ⊢
    simp only [Ty.wf] at hwf
    simp only [Ty.hasTy] at hty
    simp only [Ty.wt] at hsz hf hrd ⊢
    have := pslice_loop' t t' hwf.1 hwf' hev hs hwf.2.1 hwf.2.2.1 ih i hi rd put hrd vs [] fuel rest off hty hsz hf
    simp only [Ty.zero, proj_pslice]
    simpa using this
  | _ => simp [Ty.hasTy] at hty

theorem ev_struct (nm nm' : String) (fs fs' : Fields) (hwf : (Ty.struct nm fs).wf)
    (hwf' : (Ty.struct nm' fs').wf) (hs : fieldsRtShape fs)
    (hall : ∀ f ∈ fs, ∀ f' ∈ fs', f.1 = f'.1 → EvField f.2.2 f'.2.2 (f.2.2.proj f'.2.2))
    (hirr : ∀ f ∈ fs, ∀ f' ∈ fs', f.1 = f'.1 → f'.2.2.overwrites = true → StartIrrel f.2.2 f'.2.2) :
    EvVal (.struct nm fs) (.struct nm' fs') := by
  intro v hty _ _ hsz
  cases v with
  | struct vs =>
    refine ⟨fun _ => ?_, fun h => by simp [Ty.wt] at h⟩
    simp only [Ty.wf] at hwf hwf'
    simp only [Ty.hasTy] at hty
    simp only [struct_body] at hsz ⊢
    have := evolve_loop Ty.proj fs' hwf'.1 fs vs hwf.1 hwf.2.1 hall hirr
      (fun f hf _ => skipField_of_shape f.2.2 (fieldsWf_mem fs hwf.2.2 f hf) (fieldsRtShape_mem fs hs f hf))
      hty (zeros fs') (priorFitsWith_zeros _ fs') ((fieldsApp fs vs).length + 1) 0 (by omega) hsz
    simp only [Nat.zero_add] at this
    simp only [Ty.read, Ty.zero, this, Ty.proj, fieldsProj_eq']
  | _ => simp [Ty.hasTy] at hty

/-! ### 6. maps: the key codec is unchanged, the value codec evolves -/

/-- a map value appended under tag `j` by `t`, found by `readTagAndLength` and
read by the evolved codec `t'` from the bytes it delimits. -/
theorem field_decode' (t t' : Ty) (hwf : t.wf) (hs : Ty.rtShape false t) (h : EvVal t t')
    (x : Val) (hty : t.hasTy x) (hom : x.omit = false) (j : Nat) (hj : j < 2 ^ 61)
    (hsz : (t.app x (appendTag t.wt j)).length < 2 ^ 64) (rest : Bytes) :
    ∃ hdr fl, readTagAndLength (t.app x (appendTag t.wt j) ++ rest) = some (t.wt, j, hdr, fl) ∧
      0 < hdr ∧ hdr ≤ (t.app x (appendTag t.wt j)).length ∧
      t'.read t.wt (((t.app x (appendTag t.wt j) ++ rest).drop hdr).take fl) t'.zero
        = .ok (t.proj t' x, (t.app x (appendTag t.wt j)).length - hdr) := by
  have hv := ne_ptr_none_of_not_omit x hom
  have hv2 := ne_map_none_of_not_omit x hom
  have hpres := present_of_shape t hs x hty hv
  have htag := appendTag_ne_nil t.wt j
  have htl := appendTag_len_pos t.wt j
  by_cases hw : t.wt = .len
  · have hE := app_frame_len t x (appendTag t.wt j) hwf hty hpres hw (deref_not_rep t hs) htag
    rw [hE] at hsz ⊢
    generalize hB : t.app x [] = B at hsz h ⊢
    simp only [List.length_append] at hsz
    have hBl : B.length < 2 ^ 64 := by omega
    have hread := (h x hty hv hv2 (by rw [hB]; exact hBl)).1 hw
    rw [hB] at hread
    refine ⟨(appendTag t.wt j).length + (appendVarUint B.length).length, B.length, ?_, by omega, ?_, ?_⟩
    · simp only [List.append_assoc]
      rw [hw]
      exact readTagAndLength_len j hj B rest hBl
    · simp only [List.length_append]; omega
    · have hd : (appendTag t.wt j ++ appendVarUint B.length ++ B ++ rest).drop
          ((appendTag t.wt j).length + (appendVarUint B.length).length) = B ++ rest := by
        rw [List.append_assoc]; exact drop_append_len _ _ _ (by simp only [List.length_append])
      rw [hd, take_append_len _ _ _ rfl, hw, hread]
      simp only [List.length_append]
      congr 2; omega
  · have hE := app_frame_other t x (appendTag t.wt j) hwf hty hpres hw
    rw [hE] at hsz ⊢
    generalize hB : t.app x [] = B at hsz h ⊢
    simp only [List.length_append] at hsz
    have hBl : B.length < 2 ^ 64 := by omega
    have hread := (h x hty hv hv2 (by rw [hB]; exact hBl)).2 hw rest
    rw [hB] at hread
    refine ⟨(appendTag t.wt j).length, (B ++ rest).length, ?_, htl, ?_, ?_⟩
    · rw [List.append_assoc]
      exact readTagAndLength_other t.wt hw j hj (B ++ rest)
    · simp only [List.length_append]; omega
    · rw [List.append_assoc, drop_append_len _ _ _ rfl, List.take_length, hread]
      simp only [List.length_append]
      congr 2; omega

/-- the projection of one entry (the function mapped over the entries inside
`Ty.proj`): key normalised by its own codec, value projected. -/
def entryProj (k v v' : Ty) (e : Val × Val) : Val × Val :=
  ((if e.1.omit then k.zero else k.norm e.1), (if e.2.omit then v'.zero else v.proj v' e.2))

theorem proj_map (k v k' v' : Ty) (p p' : Bool) (es : List (Val × Val)) :
    (Ty.map k v p).proj (.map k' v' p') (.map (some es))
      = if p = true ∧ es.isEmpty then .map none else .map (some (es.map (entryProj k v v'))) := by
  simp only [Ty.proj]; rfl

theorem entry_ev (k v v' : Ty) (hkwf : k.wf) (hvwf : v.wf) (hks : Ty.rtShape false k)
    (hvs : Ty.rtShape false v) (ihk : RTVal k) (ihv : EvVal v v') (e : Val × Val)
    (hk : k.hasTy e.1) (hv : v.hasTy e.2) (hsz : (entryBody k v e).length < 2 ^ 64)
    (es : List (Val × Val)) (hnew : ∀ e' ∈ es, e'.1.beq (entryProj k v v' e).1 = false) :
    readMapEntry (fun wt b => k.read wt b k.zero) (fun wt b s => v'.read wt b s) k.zero v'.zero
        (entryBody k v e) es
      = .ok (es ++ [entryProj k v v' e], (entryBody k v e).length) := by
  obtain ⟨x, y⟩ := e
  simp only at hk hv
  have hlook := mapLookup_none _ es hnew
  rw [← mapSet_append _ (entryProj k v v' (x, y)).2 es hnew]
  cases hox : x.omit with
  | true =>
    cases hoy : y.omit with
    | true =>
      simp only [entryBody, entryProj, hox, hoy, ↓reduceIte, List.append_nil, List.length_nil]
      exact readMapEntry_none _ _ _ _ es
    | false =>
      simp only [entryBody, entryProj, hox, hoy, ↓reduceIte, Bool.false_eq_true, List.nil_append] at hsz hlook ⊢
      obtain ⟨hdr, fl, h1, _, hle, h2⟩ := field_decode' v v' hvwf hvs ihv y hv hoy 2 (by omega) hsz []
      rw [List.append_nil] at h1 h2
      refine readMapEntry_v _ _ _ _ _ v.wt hdr fl _ es h1 ?_ hle
      rw [hlook]
      exact h2
  | false =>
    cases hoy : y.omit with
    | true =>
      simp only [entryBody, entryProj, hox, hoy, ↓reduceIte, Bool.false_eq_true, List.append_nil] at hsz ⊢
      obtain ⟨hdr, fl, h1, _, hle, h2⟩ := field_decode k hkwf hks ihk x hk hox 1 (by omega) hsz []
      rw [List.append_nil] at h1 h2
      exact readMapEntry_k _ _ _ _ _ k.wt hdr fl _ es h1 h2 hle
    | false =>
      simp only [entryBody, entryProj, hox, hoy, ↓reduceIte, Bool.false_eq_true] at hsz hlook ⊢
      simp only [List.length_append] at hsz
      obtain ⟨hdr, fl, h1, _, hle, h2⟩ := field_decode k hkwf hks ihk x hk hox 1 (by omega) (by omega)
        (v.app y (appendTag v.wt 2))
      obtain ⟨hdr2, fl2, h3, hpos2, hle2, h4⟩ := field_decode' v v' hvwf hvs ihv y hv hoy 2 (by omega) (by omega) []
      rw [List.append_nil] at h3 h4
      refine readMapEntry_kv _ _ _ _ _ _ k.wt v.wt hdr fl hdr2 fl2 2 _ _ es h1 h2 hle h3 ?_ hle2 (by omega)
      rw [hlook]
      exact h4

theorem keys_new' (k v v' : Ty) (hks : k.keySafe) (es : List (Val × Val))
    (htys : ∀ e ∈ es, k.hasTy e.1 ∧ v.hasTy e.2) (hd : keysDistinct es)
    (pre : List (Val × Val)) (e : Val × Val) (suf : List (Val × Val)) (h : es = pre ++ e :: suf) :
    ∀ e' ∈ pre.map (entryProj k v v'), e'.1.beq (entryProj k v v' e).1 = false := by
  intro e' he'
  obtain ⟨e0, he0, rfl⟩ := List.mem_map.mp he'
  have hm0 : e0 ∈ es := by rw [h]; simp [he0]
  have hm : e ∈ es := by rw [h]; simp
  simp only [entryProj]
  rw [key_norm_id k hks e0.1 (htys e0 hm0).1, key_norm_id k hks e.1 (htys e hm).1]
  rw [h] at hd
  exact keysDistinct_split pre e suf hd e0 he0

theorem entries_ev (k v v' : Ty) (hkwf : k.wf) (hvwf : v.wf) (hks : k.keySafe)
    (hvs : Ty.rtShape false v) (ihk : RTVal k) (ihv : EvVal v v') (es : List (Val × Val))
    (htys : ∀ e ∈ es, k.hasTy e.1 ∧ v.hasTy e.2) (hd : keysDistinct es)
    (hsz : ∀ e ∈ es, (entryBody k v e).length < 2 ^ 64) :
    ∀ pre e suf, es = pre ++ e :: suf →
      (entryBody k v e).length < 2 ^ 64 ∧
      readMapEntry (fun wt b => k.read wt b k.zero) (fun wt b s => v'.read wt b s) k.zero v'.zero
          (entryBody k v e) ([] ++ pre.map (entryProj k v v'))
        = .ok ([] ++ pre.map (entryProj k v v') ++ [entryProj k v v' e], (entryBody k v e).length) := by
  intro pre e suf h
  have hm : e ∈ es := by rw [h]; simp
  refine ⟨hsz e hm, ?_⟩
  simp only [List.nil_append]
  exact entry_ev k v v' hkwf hvwf (keySafe_shape k hks) hvs ihk ihv e (htys e hm).1 (htys e hm).2 (hsz e hm) _
    (keys_new' k v v' hks es htys hd pre e suf h)

theorem ev_map (k v v' : Ty) (hwf : (Ty.map k v false).wf) (hks : k.keySafe) (hvs : Ty.rtShape false v)
    (ihk : RTVal k) (ihv : EvVal v v') : EvVal (.map k v false) (.map k v' false) := by
  intro x hty _ hx hsz
  cases x with
  | map o =>
    cases o with
    | none => exact absurd rfl hx
    | some es =>
      refine ⟨fun h => by simp [Ty.wt] at h, fun _ rest => ?_⟩
      have he := map_entries k v es [] hwf hty
      simp only [List.nil_append] at he
      rw [he] at hsz ⊢
      simp only [Ty.wf] at hwf
      simp only [Ty.hasTy] at hty
      have hle := entryBody_le k v es
      have H := entries_ev k v v' hwf.1 hwf.2.1 hks hvs ihk ihv es hty.1 hty.2 (fun e he => by
        have := hle e he
        simp only [List.length_append] at hsz
        omega)
      have hloop := mapLoop_entries
        (readMapEntry (fun wt b => k.read wt b k.zero) (fun wt b s => v'.read wt b s) k.zero v'.zero)
        (entryBody k v) (entryProj k v v') es [] rest (appendVarUint es.length).length H
      generalize hE : (es.flatMap fun e => appendVarUint (entryBody k v e).length ++ entryBody k v e) = E
        at hsz hloop ⊢
      have hcnt : es.length ≤ E.length := by
        rw [← hE]
        apply length_le_flatMap_length
        intro e _
        have := append_len_pos (entryBody k v e).length
        simp only [List.length_append]; omega
      simp only [List.length_append] at hsz
      have hn : es.length < 2 ^ 64 := by omega
      have hne : (appendVarUint es.length ++ E ++ rest).isEmpty = false := by
        have := append_len_pos es.length
        cases h : appendVarUint es.length ++ E ++ rest with
        | nil =>
          have := congrArg List.length h
          simp only [List.length_append, List.length_nil] at this; omega
        | cons _ _ => rfl
      have hc : ¬ (es.length > (appendVarUint es.length).length + (E.length + rest.length)
          - (appendVarUint es.length).length) := by omega
      have hnf : ¬ (false = true ∧ es.isEmpty = true) := by simp
      simp only [Ty.read, Ty.zero, hne, Bool.false_eq_true, ↓reduceIte]
      simp only [List.append_assoc, readU_append _ hn, List.length_append, hc, ↓reduceIte,
        drop_append_len _ _ _ rfl, hloop, proj_map, hnf, List.nil_append]
  | _ => simp [Ty.hasTy] at hty

theorem pmap_loop' (k v v' : Ty) (i : Nat) (hi : i < 2 ^ 61)
    (rd : Nat → WT → Bytes → List Val → Res (List Val × Nat)) (put : Val → List Val)
    (hrd : ∀ wt body a, rd i wt body (put a) = Res.mapFst put (fieldRead (.map k v' true) wt body a)) :
    ∀ (ents acc : List (Val × Val)) (fuel : Nat) (rest : Bytes) (off : Nat),
      (∀ pre e suf, ents = pre ++ e :: suf → (entryBody k v e).length < 2 ^ 64 ∧
        readMapEntry (fun wt b => k.read wt b k.zero) (fun wt b s => v'.read wt b s) k.zero v'.zero
            (entryBody k v e) (acc ++ pre.map (entryProj k v v'))
          = .ok (acc ++ pre.map (entryProj k v v') ++ [entryProj k v v' e], (entryBody k v e).length)) →
      ((ents.flatMap fun e => appendTag .len i ++ (appendVarUint (entryBody k v e).length ++ entryBody k v e))
          ++ rest).length < fuel →
      structLoop rd fuel
          ((ents.flatMap fun e => appendTag .len i ++ (appendVarUint (entryBody k v e).length ++ entryBody k v e))
            ++ rest) off (put (.map (some acc)))
        = structLoop rd fuel rest
            (off + (ents.flatMap fun e =>
              appendTag .len i ++ (appendVarUint (entryBody k v e).length ++ entryBody k v e)).length)
            (put (.map (some (acc ++ ents.map (entryProj k v v'))))) := by
  intro ents
  induction ents with
  | nil => intro acc fuel rest off _ _; simp
  | cons e ents ih =>
    intro acc fuel rest off H hf
    obtain ⟨hl, hr⟩ := H [] e ents rfl
    simp only [List.map_nil, List.append_nil] at hr
    simp only [List.flatMap_cons, List.append_assoc, List.length_append] at hf ⊢
    have hread : (Ty.map k v' true).read .len (entryBody k v e) (.map (some acc))
        = .ok (.map (some (acc ++ [entryProj k v v' e])), (entryBody k v e).length) := by
      simp only [Ty.read, hr]
    rw [frame_step (.map k v' true) i hi rd put hrd (entryBody k v e) _ hl _ _ hread fuel off
      (by simp only [List.length_append]; omega)]
    rw [ih (acc ++ [entryProj k v v' e]) fuel rest _ (fun pre e' suf h => by
      have := H (e :: pre) e' suf (by rw [h]; rfl)
      simpa [List.append_assoc] using this) (by simp only [List.length_append]; omega)]
    simp only [List.map_cons, List.append_assoc, List.singleton_append, Nat.add_assoc]

theorem evField_pmap (k v v' : Ty) (hwf : (Ty.map k v true).wf) (hks : k.keySafe) (hvs : Ty.rtShape false v)
    (ihk : RTVal k) (ihv : EvVal v v') :
    EvField (.map k v true) (.map k v' true) ((Ty.map k v true).proj (.map k v' true)) := by
  intro i x hi hty hom hsz rd put hrd fuel rest off hf
  cases x with
  | map o =>
    cases o with
    | none => simp [Val.omit] at hom
    | some es =>
      have he := pmap_frames k v es (appendTag (Ty.map k v true).wt i) hwf hty
      rw [he] at hsz hf ⊢
      simp only [Ty.wf] at hwf
      simp only [Ty.hasTy] at hty
      simp only [Ty.wt, List.append_assoc] at hsz hf hrd ⊢
      have hle : ∀ e ∈ es, (entryBody k v e).length < 2 ^ 64 := by
        intro e he
        have := length_le_flatMap_of_mem
          (fun e => appendTag .len i ++ (appendVarUint (entryBody k v e).length ++ entryBody k v e)) es e he
        simp only [List.length_append] at this
        omega
      have H := entries_ev k v v' hwf.1 hwf.2.1 hks hvs ihk ihv es hty.1 hty.2 hle
      cases es with
      | nil => simp [Ty.zero, proj_map]
      | cons e es' =>
        obtain ⟨hl, hr⟩ := H [] e es' rfl
        simp only [List.map_nil, List.append_nil] at hr
        simp only [List.flatMap_cons, List.append_assoc, List.length_append] at hf ⊢
        have hread : (Ty.map k v' true).read .len (entryBody k v e) (.map none)
            = .ok (.map (some ([] ++ [entryProj k v v' e])), (entryBody k v e).length) := by
          simp only [Ty.read, hr]
        simp only [Ty.zero, proj_map, List.isEmpty_cons, Bool.false_eq_true, and_false, ↓reduceIte]
        rw [frame_step (.map k v' true) i hi rd put hrd (entryBody k v e) _ hl _ _ hread fuel off
          (by simp only [List.length_append]; omega)]
        rw [pmap_loop' k v v' i hi rd put hrd es' ([] ++ [entryProj k v v' e]) fuel rest _ (fun pre e' suf h => by
          have := H (e :: pre) e' suf (by rw [h]; rfl)
          simpa [List.append_assoc] using this) (by simp only [List.length_append]; omega)]
        simp only [List.map_cons, List.nil_append, List.singleton_append, Nat.add_assoc]
  | _ => simp [Ty.hasTy] at hty

/-! ### 7. assembly: mutual structural induction over the source codec tree -/

/-- the induction predicate, for every evolved target codec `t'`. -/
def EP (t : Ty) : Prop :=
  ∀ t', t.wf → t'.wf → t.Evolves t' →
    (Ty.rtShape false t → EvVal t t') ∧ (Ty.rtShape true t → EvField t t' (t.proj t'))

theorem ep_of_val (t : Ty) (hr : t.isProtoRep = false)
    (h : ∀ t', t.wf → t'.wf → t.Evolves t' → Ty.rtShape false t → EvVal t t') : EP t := by
  intro t' hwf hwf' hev
  refine ⟨h t' hwf hwf' hev, fun hs => ?_⟩
  have hs' := shape_false_of_true t hr hs
  exact evField_of_val t t' hwf hs' (h t' hwf hwf' hev hs')

/-- the codecs that do not evolve: the target codec is the same, `proj` is `norm`,
and the statement is the round trip. -/
theorem ep_leaf (t : Ty) (hleaf : ∀ t', t.Evolves t' → t' = t) (hproj : ∀ t' v, t.proj t' v = t.norm v) :
    EP t := by
  intro t' hwf _ hev
  rw [hleaf t' hev]
  have hfun : t.proj t = t.norm := funext (hproj t)
  have := pp_ty t hwf
  refine ⟨fun hs => ?_, fun hs => ?_⟩
  · intro v hty hv hv2 hsz
    rw [hproj]
    exact this.1 hs v hty hv hv2 hsz
  · rw [hfun]
    exact this.2 hs

theorem ep_ptr (u : Ty) (ih : EP u) : EP (.ptr u) :=
  ep_of_val _ rfl (fun t' hwf hwf' hev hs => by
    obtain ⟨u', rfl, hev'⟩ := evolves_ptr u t' hev
    simp only [Ty.wf] at hwf hwf'
    simp only [Ty.rtShape] at hs
    exact ev_ptr u u' hs.1 hwf.2 ((ih u' hwf.1 hwf'.1 hev').1 hs.2))

theorem ep_lslice (u : Ty) (ih : EP u) : EP (.lslice u) :=
  ep_of_val _ rfl (fun t' hwf hwf' hev hs => by
    obtain ⟨u', rfl, hev'⟩ := evolves_lslice u t' hev
    simp only [Ty.rtShape] at hs
    have hwfu' : u'.wf := by simp only [Ty.wf] at hwf'; exact hwf'.1
    exact ev_lslice u u' hwf hwfu' hev' hs ((ih u' hwf.1 hwfu' hev').1 hs))

theorem ep_pslice (u : Ty) (ih : EP u) : EP (.pslice u) := by
  intro t' hwf hwf' hev
  obtain ⟨u', rfl, hev'⟩ := evolves_pslice u t' hev
  refine ⟨fun hs => by simp [Ty.rtShape] at hs, fun hs => ?_⟩
  simp only [Ty.rtShape, true_and] at hs
  have hwfu' : u'.wf := by simp only [Ty.wf] at hwf'; exact hwf'.1
  exact evField_pslice u u' hwf hwfu' hev' hs ((ih u' hwf.1 hwfu' hev').1 hs)

theorem ep_struct (nm : String) (fs : Fields) (ih : ∀ f ∈ fs, EP f.2.2) : EP (.struct nm fs) :=
  ep_of_val _ rfl (fun t' hwf hwf' hev hs => by
    obtain ⟨nm', fs', rfl, hev'⟩ := evolves_struct nm fs t' hev
    simp only [Ty.rtShape] at hs
    refine ev_struct nm nm' fs fs' hwf hwf' hs (fun f hf f' hf' he => ?_) (fun f hf f' hf' he hov => ?_)
    · exact (ih f hf f'.2.2 (fieldsWf_mem fs hwf.2.2 f hf) (fieldsWf_mem fs' hwf'.2.2 f' hf')
        (fieldEvolves_mem fs f'.1 f'.2.2 (hev' f' hf') f hf he)).2 (fieldsRtShape_mem fs hs f hf)
    · have hE := fieldEvolves_mem fs f'.1 f'.2.2 (hev' f' hf') f hf he
      exact startIrrel_of f.2.2 f'.2.2 (fieldsWf_mem fs hwf.2.2 f hf) (fieldsRtShape_mem fs hs f hf)
        (by rw [← evolves_isProtoRep _ _ hE]; exact overwrites_not_rep _ hov) (evolves_wt _ _ hE) hov)

theorem ep_map (k v : Ty) (p : Bool) (ihv : EP v) : EP (.map k v p) := by
  cases p with
  | false =>
    exact ep_of_val _ rfl (fun t' hwf hwf' hev hs => by
      obtain ⟨v', rfl, hev'⟩ := evolves_map k v false t' hev
      simp only [Ty.rtShape] at hs
      have hwfv' : v'.wf := by simp only [Ty.wf] at hwf'; exact hwf'.2.1
      exact ev_map k v v' hwf hs.2.1 hs.2.2 ((pp_ty k hwf.1).1 (keySafe_shape k hs.2.1))
        ((ihv v' hwf.2.1 hwfv' hev').1 hs.2.2))
  | true =>
    intro t' hwf hwf' hev
    obtain ⟨v', rfl, hev'⟩ := evolves_map k v true t' hev
    refine ⟨fun hs => by simp [Ty.rtShape] at hs, fun hs => ?_⟩
    simp only [Ty.rtShape] at hs
    have hwfv' : v'.wf := by simp only [Ty.wf] at hwf'; exact hwf'.2.1
    exact evField_pmap k v v' hwf hs.2.1 hs.2.2 ((pp_ty k hwf.1).1 (keySafe_shape k hs.2.1))
      ((ihv v' hwf.2.1 hwfv' hev').1 hs.2.2)

mutual
theorem ep_ty : (t : Ty) → EP t
  | .bool => ep_leaf _ (fun _ h => by simpa only [Ty.Evolves] using h) (fun _ _ => by simp only [Ty.proj])
  | .int _ => ep_leaf _ (fun _ h => by simpa only [Ty.Evolves] using h) (fun _ _ => by simp only [Ty.proj])
  | .uint _ => ep_leaf _ (fun _ h => by simpa only [Ty.Evolves] using h) (fun _ _ => by simp only [Ty.proj])
  | .flat _ => ep_leaf _ (fun _ h => by simpa only [Ty.Evolves] using h) (fun _ _ => by simp only [Ty.proj])
  | .f32 => ep_leaf _ (fun _ h => by simpa only [Ty.Evolves] using h) (fun _ _ => by simp only [Ty.proj])
  | .f64 => ep_leaf _ (fun _ h => by simpa only [Ty.Evolves] using h) (fun _ _ => by simp only [Ty.proj])
  | .str _ => ep_leaf _ (fun _ h => by simpa only [Ty.Evolves] using h) (fun _ _ => by simp only [Ty.proj])
  | .bytes => ep_leaf _ (fun _ h => by simpa only [Ty.Evolves] using h) (fun _ _ => by simp only [Ty.proj])
  | .time _ => ep_leaf _ (fun _ h => by simpa only [Ty.Evolves] using h) (fun _ _ => by simp only [Ty.proj])
  | .vslice _ => ep_leaf _ (fun _ h => by simpa only [Ty.Evolves] using h) (fun _ _ => by simp only [Ty.proj])
  | .fslice _ => ep_leaf _ (fun _ h => by simpa only [Ty.Evolves] using h) (fun _ _ => by simp only [Ty.proj])
  | .ptr u => ep_ptr u (ep_ty u)
  | .lslice u => ep_lslice u (ep_ty u)
  | .pslice u => ep_pslice u (ep_ty u)
  | .struct nm fs => ep_struct nm fs (ep_fields fs)
  | .map k v p => ep_map k v p (ep_ty v)
theorem ep_fields : (fs : Fields) → ∀ f ∈ fs, EP f.2.2
  | [] => by intro f hf; simp at hf
  | (_, _, t) :: r => by
      intro f hf
      rcases List.mem_cons.mp hf with rfl | hf
      · exact ep_ty t
      · exact ep_fields r f hf
end

/-! ### 8. the theorems -/

theorem marshal_struct (n : String) (fs : Fields) (vs : List Val) :
    marshal (.struct n fs) (.struct vs) = fieldsApp fs vs := by
  simp only [marshal, Val.omit, Bool.false_eq_true, ↓reduceIte, struct_body]

/-- top-level evolution only (remove / add / reorder / rename at the top level,
shared fields keep their codec): the reader consumes all the data and produces
the top-level projection. Any prior that fits (`priorFitsTop`). -/
theorem decode_toplevel_consumed (n n' : String) (fs fs' : Fields) (vs prior : List Val)
    (hwf : (Ty.struct n fs).wf) (hwf' : (Ty.struct n' fs').wf)
    (hsame : ∀ f ∈ fs, ∀ f' ∈ fs', f.1 = f'.1 → f'.2.2 = f.2.2)
    (hshape : Ty.rtShape false (.struct n fs)) (hty : (Ty.struct n fs).hasTy (.struct vs))
    (hsz : (marshal (.struct n fs) (.struct vs)).length < 2 ^ 63)
    (hprior : priorFitsTop fs fs' vs prior) :
    (Ty.struct n' fs').read .len (marshal (.struct n fs) (.struct vs)) (.struct prior)
      = .ok (.struct (projectTop fs fs' vs prior), (marshal (.struct n fs) (.struct vs)).length) := by
  rw [marshal_struct] at hsz ⊢
  simp only [Ty.wf] at hwf hwf'
  simp only [Ty.rtShape] at hshape
  simp only [Ty.hasTy] at hty
  have := evolve_loop (fun t _ v => t.norm v) fs' hwf'.1 fs vs hwf.1 hwf.2.1
    (fun f hf f' hf' he => by
      rw [hsame f hf f' hf' he]
      exact (pp_ty f.2.2 (fieldsWf_mem fs hwf.2.2 f hf)).2 (fieldsRtShape_mem fs hshape f hf))
    (fun f hf f' hf' he hov => by
      rw [hsame f hf f' hf' he] at hov ⊢
      exact startIrrel_of f.2.2 f.2.2 (fieldsWf_mem fs hwf.2.2 f hf) (fieldsRtShape_mem fs hshape f hf)
        (overwrites_not_rep _ hov) rfl hov)
    (fun f hf _ => skipField_of_shape f.2.2 (fieldsWf_mem fs hwf.2.2 f hf) (fieldsRtShape_mem fs hshape f hf))
    hty prior hprior ((fieldsApp fs vs).length + 1) 0 (by omega) (by omega)
  simp only [Nat.zero_add] at this
  simp only [Ty.read, this, projectTop]

/-- **C03, all depths**: data written from `S = struct n fs` decodes into the
evolved `S' = struct n' fs'`, consuming all of it, to the projection. -/
theorem decode_evolved_consumed (n n' : String) (fs fs' : Fields) (vs prior : List Val)
    (hwf : (Ty.struct n fs).wf) (hwf' : (Ty.struct n' fs').wf)
    (hev : (Ty.struct n fs).Evolves (.struct n' fs'))
    (hshape : Ty.rtShape false (.struct n fs)) (hty : (Ty.struct n fs).hasTy (.struct vs))
    (hsz : (marshal (.struct n fs) (.struct vs)).length < 2 ^ 63)
    (hprior : priorFits fs fs' vs prior) :
    (Ty.struct n' fs').read .len (marshal (.struct n fs) (.struct vs)) (.struct prior)
      = .ok (.struct (project fs fs' vs prior), (marshal (.struct n fs) (.struct vs)).length) := by
  rw [marshal_struct] at hsz ⊢
  have hev' : FieldsEvolve fs fs' := by simpa only [Ty.Evolves, FieldsEvolve] using hev
  have hwf0 := hwf
  have hwf0' := hwf'
  simp only [Ty.wf] at hwf hwf'
  simp only [Ty.rtShape] at hshape
  simp only [Ty.hasTy] at hty
  simp only [priorFits, fieldsProj_eq'] at hprior
  have := evolve_loop Ty.proj fs' hwf'.1 fs vs hwf.1 hwf.2.1
    (fun f hf f' hf' he =>
      (ep_ty f.2.2 f'.2.2 (fieldsWf_mem fs hwf.2.2 f hf) (fieldsWf_mem fs' hwf'.2.2 f' hf')
        (fieldEvolves_mem fs f'.1 f'.2.2 (hev' f' hf') f hf he)).2 (fieldsRtShape_mem fs hshape f hf))
    (fun f hf f' hf' he hov => by
      have hE := fieldEvolves_mem fs f'.1 f'.2.2 (hev' f' hf') f hf he
      exact startIrrel_of f.2.2 f'.2.2 (fieldsWf_mem fs hwf.2.2 f hf) (fieldsRtShape_mem fs hshape f hf)
        (by rw [← evolves_isProtoRep _ _ hE]; exact overwrites_not_rep _ hov) (evolves_wt _ _ hE) hov)
    (fun f hf _ => skipField_of_shape f.2.2 (fieldsWf_mem fs hwf.2.2 f hf) (fieldsRtShape_mem fs hshape f hf))
    hty prior hprior ((fieldsApp fs vs).length + 1) 0 (by omega) (by omega)
  simp only [Nat.zero_add] at this
  simp only [Ty.read, this, project, fieldsProj_eq']

/-- the general root (any codec in the round-trip shapes, not only a struct),
decoding into the zero value of the evolved type. -/
theorem decode_evolved_zero (t t' : Ty) (v : Val) (hwf : t.wf) (hwf' : t'.wf) (hev : t.Evolves t')
    (hshape : Ty.rtShape false t) (hnp : t.isPtr = false) (hty : t.hasTy v)
    (hsz : (marshal t v).length < 2 ^ 63) :
    unmarshal t' (marshal t v) t'.zero = .ok (if v.omit then t'.zero else t.proj t' v) := by
  unfold marshal at hsz ⊢
  unfold unmarshal
  cases ho : v.omit with
  | true =>
    have := read_nil' t' hwf'
      (by rw [evolves_isProtoRep t t' hev]; exact isPtr_false_not_rep_of_shape t hshape)
      (by rw [evolves_isPtr t t' hev]; exact hnp)
    simp only [↓reduceIte, this]
  | false =>
    simp only [ho, Bool.false_eq_true, ↓reduceIte] at hsz ⊢
    have h := (ep_ty t t' hwf hwf' hev).1 hshape v hty (ne_ptr_none_of_not_omit v ho)
      (ne_map_none_of_not_omit v ho) (by omega)
    rw [evolves_wt t t' hev]
    by_cases hw : t.wt = .len
    · rw [hw, h.1 hw]
    · have := h.2 hw []
      rw [List.append_nil] at this
      rw [this]

/-- `skip_unknown_exact` for the struct reader itself: a struct type with no
field of index `i`, its loop started on a present value of any non-repeated
codec `t` appended under tag `(t.wt, i)` and followed by arbitrary bytes,
continues on those bytes with its field values unchanged. -/
theorem skip_unknown_exact (t : Ty) (v : Val) (i : Nat) (hi : i < 2 ^ 61)
    (hwf : t.wf) (hty : t.hasTy v) (hp : v.present = true) (hr : t.deref.isProtoRep = false)
    (hsz : (t.app v []).length < 2 ^ 64)
    (fs' : Fields) (acc : List Val) (hni : i ∉ fs'.map (·.1)) (hacc : acc.length = fs'.length)
    (fuel : Nat) (rest : Bytes) (off : Nat)
    (hf : (t.app v (appendTag t.wt i) ++ rest).length < fuel) :
    structLoop (fun idx wt body acc => readField fs' acc idx wt body) fuel
        (t.app v (appendTag t.wt i) ++ rest) off acc
      = structLoop (fun idx wt body acc => readField fs' acc idx wt body) fuel rest
          (off + (t.app v (appendTag t.wt i)).length) acc :=
  skip_unknown_rd t v i hi hwf hty hp hr hsz _ acc (skips_readField fs' acc i hni hacc) fuel rest off hf

/-- the same for every shape a struct field can take, including the repeated
forms (one frame per element / entry). -/
theorem skip_unknown_exact_field (t : Ty) (hwf : t.wf) (hs : Ty.rtShape true t) (v : Val) (hty : t.hasTy v)
    (hom : v.omit = false) (i : Nat) (hi : i < 2 ^ 61)
    (hsz : (t.app v (appendTag t.wt i)).length < 2 ^ 64)
    (fs' : Fields) (acc : List Val) (hni : i ∉ fs'.map (·.1)) (hacc : acc.length = fs'.length)
    (fuel : Nat) (rest : Bytes) (off : Nat)
    (hf : (t.app v (appendTag t.wt i) ++ rest).length < fuel) :
    structLoop (fun idx wt body acc => readField fs' acc idx wt body) fuel
        (t.app v (appendTag t.wt i) ++ rest) off acc
      = structLoop (fun idx wt body acc => readField fs' acc idx wt body) fuel rest
          (off + (t.app v (appendTag t.wt i)).length) acc :=
  skip_unknown_field t hwf hs v hty hom i hi hsz _ acc (skips_readField fs' acc i hni hacc) fuel rest off hf

/-! ### 9. names never reach the encoding -/

set_option linter.unusedSimpArgs false

/-- the five codec functions do not see names. -/
def NameLaw (t : Ty) : Prop :=
  Ty.wt t.eraseNames = Ty.wt t ∧ Ty.zero t.eraseNames = Ty.zero t ∧ Ty.size t.eraseNames = Ty.size t ∧
  Ty.app t.eraseNames = Ty.app t ∧ Ty.read t.eraseNames = Ty.read t

def FieldsNameLaw (fs : Fields) : Prop :=
  zeros (fieldsEraseNames fs) = zeros fs ∧ fieldsSize (fieldsEraseNames fs) = fieldsSize fs ∧
  fieldsApp (fieldsEraseNames fs) = fieldsApp fs ∧ readField (fieldsEraseNames fs) = readField fs

theorem nameLaw_leaf (t : Ty) (h : t.eraseNames = t) : NameLaw t := by
  unfold NameLaw; rw [h]; exact ⟨rfl, rfl, rfl, rfl, rfl⟩

theorem nameLaw_ptr (u : Ty) (ih : NameLaw u) : NameLaw (.ptr u) := by
  obtain ⟨hw, hz, hs, ha, hr⟩ := ih
  refine ⟨?_, ?_, ?_, ?_, ?_⟩
  · simp only [Ty.eraseNames, Ty.wt, hw]
  · simp only [Ty.eraseNames, Ty.zero]
  · funext v tag
    cases v with
    | ptr o => cases o <;> simp only [Ty.eraseNames, Ty.size, hs]
    | _ => simp only [Ty.eraseNames, Ty.size]
  · funext v tag
    cases v with
    | ptr o => cases o <;> simp only [Ty.eraseNames, Ty.app, ha]
    | _ => simp only [Ty.eraseNames, Ty.app]
  · funext wt d p
    simp only [Ty.eraseNames, Ty.read, hz, hr]

theorem nameLaw_vslice (u : Ty) (ih : NameLaw u) : NameLaw (.vslice u) := by
  obtain ⟨hw, hz, hs, ha, hr⟩ := ih
  refine ⟨?_, ?_, ?_, ?_, ?_⟩
  · simp only [Ty.eraseNames, Ty.wt]
  · simp only [Ty.eraseNames, Ty.zero]
  · funext v tag
    cases v with
    | slice vs => simp only [Ty.eraseNames, Ty.size, hs, hz]
    | _ => simp only [Ty.eraseNames, Ty.size]
  · funext v tag
    cases v with
    | slice vs => simp only [Ty.eraseNames, Ty.app, ha, hs, hz]
    | _ => simp only [Ty.eraseNames, Ty.app]
  · funext wt d p
    simp only [Ty.eraseNames, Ty.read, hz, hr, hs, hw]

theorem nameLaw_fslice (u : Ty) (ih : NameLaw u) : NameLaw (.fslice u) := by
  obtain ⟨hw, hz, hs, ha, hr⟩ := ih
  refine ⟨?_, ?_, ?_, ?_, ?_⟩
  · simp only [Ty.eraseNames, Ty.wt]
  · simp only [Ty.eraseNames, Ty.zero]
  · funext v tag
    cases v with
    | slice vs => simp only [Ty.eraseNames, Ty.size, hs, hz]
    | _ => simp only [Ty.eraseNames, Ty.size]
  · funext v tag
    cases v with
    | slice vs => simp only [Ty.eraseNames, Ty.app, ha, hs, hz]
    | _ => simp only [Ty.eraseNames, Ty.app]
  · funext wt d p
    simp only [Ty.eraseNames, Ty.read, hz, hr, hs, hw]

theorem nameLaw_lslice (u : Ty) (ih : NameLaw u) : NameLaw (.lslice u) := by
  obtain ⟨hw, hz, hs, ha, hr⟩ := ih
  refine ⟨?_, ?_, ?_, ?_, ?_⟩
  · simp only [Ty.eraseNames, Ty.wt]
  · simp only [Ty.eraseNames, Ty.zero]
  · funext v tag
    cases v with
    | slice vs => simp only [Ty.eraseNames, Ty.size, hs, hz]
    | _ => simp only [Ty.eraseNames, Ty.size]
  · funext v tag
    cases v with
    | slice vs => simp only [Ty.eraseNames, Ty.app, ha, hs, hz]
    | _ => simp only [Ty.eraseNames, Ty.app]
  · funext wt d p
    simp only [Ty.eraseNames, Ty.read, hz, hr, hs, hw]

theorem nameLaw_pslice (u : Ty) (ih : NameLaw u) : NameLaw (.pslice u) := by
  obtain ⟨hw, hz, hs, ha, hr⟩ := ih
  refine ⟨?_, ?_, ?_, ?_, ?_⟩
  · simp only [Ty.eraseNames, Ty.wt]
  · simp only [Ty.eraseNames, Ty.zero]
  · funext v tag
    cases v with
    | slice vs => simp only [Ty.eraseNames, Ty.size, hs, hz]
    | _ => simp only [Ty.eraseNames, Ty.size]
  · funext v tag
    cases v with
    | slice vs => simp only [Ty.eraseNames, Ty.app, ha, hs, hz]
    | _ => simp only [Ty.eraseNames, Ty.app]
  · funext wt d p
    simp only [Ty.eraseNames, Ty.read, hz, hr, hs, hw]

theorem nameLaw_struct (n : String) (fs : Fields) (ih : FieldsNameLaw fs) : NameLaw (.struct n fs) := by
  obtain ⟨hz, hs, ha, hr⟩ := ih
  refine ⟨?_, ?_, ?_, ?_, ?_⟩
  · simp only [Ty.eraseNames, Ty.wt]
  · simp only [Ty.eraseNames, Ty.zero, hz]
  · funext v tag
    cases v with
    | struct vs => simp only [Ty.eraseNames, Ty.size, hs]
    | _ => simp only [Ty.eraseNames, Ty.size]
  · funext v tag
    cases v with
    | struct vs => simp only [Ty.eraseNames, Ty.app, ha, hs]
    | _ => simp only [Ty.eraseNames, Ty.app]
  · funext wt d p
    simp only [Ty.eraseNames, Ty.read, hz, hr]

theorem nameLaw_map (k v : Ty) (p : Bool) (ihk : NameLaw k) (ihv : NameLaw v) : NameLaw (.map k v p) := by
  obtain ⟨hkw, hkz, hks, hka, hkr⟩ := ihk
  obtain ⟨hvw, hvz, hvs, hva, hvr⟩ := ihv
  cases p with
  | false =>
    refine ⟨?_, ?_, ?_, ?_, ?_⟩
    · simp only [Ty.eraseNames, Ty.wt]
    · simp only [Ty.eraseNames, Ty.zero]
    · funext x tag
      cases x with
      | map o => cases o <;> simp only [Ty.eraseNames, Ty.size, hks, hvs, hkw, hvw]
      | _ => simp only [Ty.eraseNames, Ty.size]
    · funext x tag
      cases x with
      | map o => cases o <;> simp only [Ty.eraseNames, Ty.app, hks, hvs, hka, hva, hkw, hvw]
      | _ => simp only [Ty.eraseNames, Ty.app]
    · funext wt d q
      simp only [Ty.eraseNames, Ty.read, hkz, hvz, hkr, hvr]
  | true =>
    refine ⟨?_, ?_, ?_, ?_, ?_⟩
    · simp only [Ty.eraseNames, Ty.wt]
    · simp only [Ty.eraseNames, Ty.zero]
    · funext x tag
      cases x with
      | map o => cases o <;> simp only [Ty.eraseNames, Ty.size, hks, hvs, hkw, hvw]
      | _ => simp only [Ty.eraseNames, Ty.size]
    · funext x tag
      cases x with
      | map o => cases o <;> simp only [Ty.eraseNames, Ty.app, hks, hvs, hka, hva, hkw, hvw]
      | _ => simp only [Ty.eraseNames, Ty.app]
    · funext wt d q
      simp only [Ty.eraseNames, Ty.read, hkz, hvz, hkr, hvr]

theorem fieldsNameLaw_nil : FieldsNameLaw [] := ⟨rfl, rfl, rfl, rfl⟩

theorem fieldsNameLaw_cons (i : Nat) (n : String) (t : Ty) (r : Fields) (iht : NameLaw t)
    (ihr : FieldsNameLaw r) : FieldsNameLaw ((i, n, t) :: r) := by
  obtain ⟨hw, hz, hs, ha, hr⟩ := iht
  obtain ⟨hfz, hfs, hfa, hfr⟩ := ihr
  refine ⟨?_, ?_, ?_, ?_⟩
  · simp only [fieldsEraseNames, zeros, hz, hfz]
  · funext vs
    cases vs with
    | nil => simp only [fieldsEraseNames, fieldsSize]
    | cons v vs => simp only [fieldsEraseNames, fieldsSize, hs, hw, hfs]
  · funext vs
    cases vs with
    | nil => simp only [fieldsEraseNames, fieldsApp]
    | cons v vs => simp only [fieldsEraseNames, fieldsApp, ha, hw, hfa]
  · funext acc idx wt body
    cases acc with
    | nil => simp only [fieldsEraseNames, readField]
    | cons a as => simp only [fieldsEraseNames, readField, hr, hfr]

mutual
theorem nameLaw_ty : (t : Ty) → NameLaw t
  | .bool => nameLaw_leaf _ rfl
  | .int _ => nameLaw_leaf _ rfl
  | .uint _ => nameLaw_leaf _ rfl
  | .flat _ => nameLaw_leaf _ rfl
  | .f32 => nameLaw_leaf _ rfl
  | .f64 => nameLaw_leaf _ rfl
  | .str _ => nameLaw_leaf _ rfl
  | .bytes => nameLaw_leaf _ rfl
  | .time _ => nameLaw_leaf _ rfl
  | .ptr u => nameLaw_ptr u (nameLaw_ty u)
  | .vslice u => nameLaw_vslice u (nameLaw_ty u)
  | .fslice u => nameLaw_fslice u (nameLaw_ty u)
  | .lslice u => nameLaw_lslice u (nameLaw_ty u)
  | .pslice u => nameLaw_pslice u (nameLaw_ty u)
  | .struct n fs => nameLaw_struct n fs (nameLaw_fields fs)
  | .map k v p => nameLaw_map k v p (nameLaw_ty k) (nameLaw_ty v)
theorem nameLaw_fields : (fs : Fields) → FieldsNameLaw fs
  | [] => fieldsNameLaw_nil
  | (i, n, t) :: r => fieldsNameLaw_cons i n t r (nameLaw_ty t) (nameLaw_fields r)
end

theorem marshal_eraseNames (t : Ty) (v : Val) : marshal t.eraseNames v = marshal t v := by
  simp only [marshal, (nameLaw_ty t).2.2.2.1]

theorem unmarshal_eraseNames (t : Ty) (d : Bytes) (p : Val) : unmarshal t.eraseNames d p = unmarshal t d p := by
  simp only [unmarshal, (nameLaw_ty t).2.2.2.2, (nameLaw_ty t).1]

/-- two codec trees that differ only in field / struct names encode and decode
identically. -/
theorem rename_invisible (t1 t2 : Ty) (h : t1.eraseNames = t2.eraseNames) :
    Ty.wt t1 = Ty.wt t2 ∧ Ty.zero t1 = Ty.zero t2 ∧ Ty.size t1 = Ty.size t2 ∧ Ty.app t1 = Ty.app t2 ∧
      Ty.read t1 = Ty.read t2 ∧ marshal t1 = marshal t2 ∧ unmarshal t1 = unmarshal t2 := by
  obtain ⟨a1, a2, a3, a4, a5⟩ := nameLaw_ty t1
  obtain ⟨b1, b2, b3, b4, b5⟩ := nameLaw_ty t2
  rw [h] at a1 a2 a3 a4 a5
  refine ⟨a1.symm.trans b1, a2.symm.trans b2, a3.symm.trans b3, a4.symm.trans b4, a5.symm.trans b5, ?_, ?_⟩
  · funext v
    rw [← marshal_eraseNames t1, ← marshal_eraseNames t2, h]
  · funext d p
    rw [← unmarshal_eraseNames t1, ← unmarshal_eraseNames t2, h]

/-! ### 10. reading `project` -/

theorem projectWith_getElem? (look : Nat → Ty → Option Val) :
    ∀ (fs' : Fields) (ps : List Val) (j : Nat) (f' : Nat × String × Ty) (p : Val),
      fs'[j]? = some f' → ps[j]? = some p →
      (projectWith look fs' ps)[j]? = some ((look f'.1 f'.2.2).getD p) := by
  intro fs'
  induction fs' with
  | nil => intro ps j f' p h; simp at h
  | cons g fs' ih =>
    obtain ⟨i', n', t'⟩ := g
    intro ps j f' p h1 h2
    cases ps with
    | nil => simp at h2
    | cons q ps =>
      cases j with
      | zero =>
        simp only [List.getElem?_cons_zero, Option.some.injEq] at h1 h2
        subst h1; subst h2
        simp [projectWith]
      | succ j =>
        simp only [List.getElem?_cons_succ] at h1 h2
        simp only [projectWith, List.getElem?_cons_succ]
        exact ih ps j f' p h1 h2

theorem projectWith_length (look : Nat → Ty → Option Val) :
    ∀ (fs' : Fields) (ps : List Val), ps.length = fs'.length → (projectWith look fs' ps).length = fs'.length := by
  intro fs'
  induction fs' with
  | nil => intro ps _; cases ps <;> simp [projectWith]
  | cons g fs' ih =>
    obtain ⟨i', n', t'⟩ := g
    intro ps h
    cases ps with
    | nil => simp at h
    | cons q ps => simp [projectWith, ih ps (by simpa using h)]

theorem lookupWith_getElem? (pr : Ty → Ty → Val → Val) (t' : Ty) :
    ∀ (gs : Fields) (vs : List Val) (k : Nat) (f : Nat × String × Ty) (v : Val),
      (gs.map (·.1)).Nodup → gs[k]? = some f → vs[k]? = some v →
      lookupWith pr gs vs f.1 t' = if v.omit = false then some (pr f.2.2 t' v) else none := by
  intro gs
  induction gs with
  | nil => intro vs k f v _ h; simp at h
  | cons g gs ih =>
    obtain ⟨i, n, t⟩ := g
    intro vs k f v hnd h1 h2
    simp only [List.map_cons] at hnd
    obtain ⟨hni, hnd'⟩ := List.nodup_cons.mp hnd
    cases vs with
    | nil => simp at h2
    | cons w vs =>
      cases k with
      | zero =>
        simp only [List.getElem?_cons_zero, Option.some.injEq] at h1 h2
        subst h1; subst h2
        cases ho : w.omit with
        | false => simp [lookupWith, ho]
        | true =>
          simp only [lookupWith, ho, Bool.true_eq_false, and_false, ↓reduceIte]
          exact lookupWith_none pr gs vs i t' hni
      | succ k =>
        simp only [List.getElem?_cons_succ] at h1 h2
        have hmem : f ∈ gs := List.mem_of_getElem? h1
        have hne : ¬ i = f.1 := by
          intro e; apply hni; rw [e]; exact List.mem_map.mpr ⟨f, hmem, rfl⟩
        rw [lookupWith_ne pr i n t gs w vs f.1 t' hne]
        exact ih vs k f v hnd' h1 h2

/-- **shared index**: the target field at position `j` has the index of the
source field at position `k`: it receives the decoded value when the source
value is on the wire, and keeps its prior value when the writer omitted it. -/
theorem project_shared (fs fs' : Fields) (vs prior : List Val) (hnd : (fs.map (·.1)).Nodup)
    (j k : Nat) (f f' : Nat × String × Ty) (v p : Val)
    (hf : fs[k]? = some f) (hv : vs[k]? = some v) (hf' : fs'[j]? = some f') (hp : prior[j]? = some p)
    (hidx : f'.1 = f.1) :
    (project fs fs' vs prior)[j]? = some (if v.omit = false then f.2.2.proj f'.2.2 v else p) := by
  rw [project, fieldsProj_eq', projectWith_getElem? _ fs' prior j f' p hf' hp, hidx,
    lookupWith_getElem? Ty.proj f'.2.2 fs vs k f v hnd hf hv]
  cases v.omit <;> simp

/-- **fresh index**: a target field whose index the source does not have keeps
its prior value. -/
theorem project_fresh (fs fs' : Fields) (vs prior : List Val)
    (j : Nat) (f' : Nat × String × Ty) (p : Val)
    (hf' : fs'[j]? = some f') (hp : prior[j]? = some p) (hfresh : f'.1 ∉ fs.map (·.1)) :
    (project fs fs' vs prior)[j]? = some p := by
  rw [project, fieldsProj_eq', projectWith_getElem? _ fs' prior j f' p hf' hp,
    lookupWith_none Ty.proj fs vs f'.1 f'.2.2 hfresh]
  rfl

theorem project_length (fs fs' : Fields) (vs prior : List Val) (h : prior.length = fs'.length) :
    (project fs fs' vs prior).length = fs'.length :=
  projectWith_length _ fs' prior h

theorem projectTop_shared (fs fs' : Fields) (vs prior : List Val) (hnd : (fs.map (·.1)).Nodup)
    (j k : Nat) (f f' : Nat × String × Ty) (v p : Val)
    (hf : fs[k]? = some f) (hv : vs[k]? = some v) (hf' : fs'[j]? = some f') (hp : prior[j]? = some p)
    (hidx : f'.1 = f.1) :
    (projectTop fs fs' vs prior)[j]? = some (if v.omit = false then f.2.2.norm v else p) := by
  rw [projectTop, projectWith_getElem? _ fs' prior j f' p hf' hp, hidx,
    lookupWith_getElem? _ f'.2.2 fs vs k f v hnd hf hv]
  cases v.omit <;> simp

theorem projectTop_fresh (fs fs' : Fields) (vs prior : List Val)
    (j : Nat) (f' : Nat × String × Ty) (p : Val)
    (hf' : fs'[j]? = some f') (hp : prior[j]? = some p) (hfresh : f'.1 ∉ fs.map (·.1)) :
    (projectTop fs fs' vs prior)[j]? = some p := by
  rw [projectTop, projectWith_getElem? _ fs' prior j f' p hf' hp,
    lookupWith_none _ fs vs f'.1 f'.2.2 hfresh]
  rfl

/-! ### 11. consistency with C01: the identity evolution is the round trip -/

theorem zeros_getElem? : ∀ (fs : Fields) (k : Nat) (f : Nat × String × Ty), fs[k]? = some f →
    (zeros fs)[k]? = some f.2.2.zero := by
  intro fs
  induction fs with
  | nil => intro k f h; simp at h
  | cons g fs ih =>
    obtain ⟨i, n, t⟩ := g
    intro k f h
    cases k with
    | zero => simp only [List.getElem?_cons_zero, Option.some.injEq] at h; subst h; simp [zeros]
    | succ k => simp only [List.getElem?_cons_succ] at h; simp only [zeros, List.getElem?_cons_succ]; exact ih k f h

theorem fieldsNorm_getElem? : ∀ (fs : Fields) (vs : List Val) (k : Nat) (f : Nat × String × Ty) (v : Val),
    fs[k]? = some f → vs[k]? = some v →
    (fieldsNorm fs vs)[k]? = some (if v.omit then f.2.2.zero else f.2.2.norm v) := by
  intro fs
  induction fs with
  | nil => intro vs k f v h; simp at h
  | cons g fs ih =>
    obtain ⟨i, n, t⟩ := g
    intro vs k f v h1 h2
    cases vs with
    | nil => simp at h2
    | cons w vs =>
      cases k with
      | zero =>
        simp only [List.getElem?_cons_zero, Option.some.injEq] at h1 h2
        subst h1; subst h2; simp [fieldsNorm]
      | succ k =>
        simp only [List.getElem?_cons_succ] at h1 h2
        simp only [fieldsNorm, List.getElem?_cons_succ]
        exact ih vs k f v h1 h2

theorem fieldsNorm_length : ∀ (fs : Fields) (vs : List Val), fieldsHaveTy fs vs →
    (fieldsNorm fs vs).length = fs.length ∧ vs.length = fs.length := by
  intro fs
  induction fs with
  | nil => intro vs h; cases vs <;> simp_all [fieldsNorm, fieldsHaveTy]
  | cons g fs ih =>
    obtain ⟨i, n, t⟩ := g
    intro vs h
    cases vs with
    | nil => simp [fieldsHaveTy] at h
    | cons w vs =>
      simp only [fieldsHaveTy] at h
      have := ih vs h.2
      simp [fieldsNorm, this.1, this.2]

theorem zeros_length : ∀ (fs : Fields), (zeros fs).length = fs.length := by
  intro fs
  induction fs with
  | nil => rfl
  | cons g fs ih => obtain ⟨i, n, t⟩ := g; simp [zeros, ih]

theorem fieldsHaveTy_getElem? : ∀ (fs : Fields) (vs : List Val), fieldsHaveTy fs vs →
    ∀ (k : Nat) (f : Nat × String × Ty) (v : Val), fs[k]? = some f → vs[k]? = some v → f.2.2.hasTy v := by
  intro fs
  induction fs with
  | nil => intro vs _ k f v h; simp at h
  | cons g fs ih =>
    obtain ⟨i, n, t⟩ := g
    intro vs hty k f v h1 h2
    cases vs with
    | nil => simp at h2
    | cons w vs =>
      simp only [fieldsHaveTy] at hty
      cases k with
      | zero =>
        simp only [List.getElem?_cons_zero, Option.some.injEq] at h1 h2
        subst h1; subst h2; exact hty.1
      | succ k =>
        simp only [List.getElem?_cons_succ] at h1 h2
        exact ih vs hty.2 k f v h1 h2

/-- decoding a struct into its own type: the projection onto zeros is `fieldsNorm`. -/
theorem projectWith_self (pr : Ty → Ty → Val → Val) (fs : Fields) (vs : List Val)
    (hnd : (fs.map (·.1)).Nodup) (hty : fieldsHaveTy fs vs)
    (hpr : ∀ f ∈ fs, ∀ v, f.2.2.hasTy v → pr f.2.2 f.2.2 v = f.2.2.norm v) :
    projectWith (lookupWith pr fs vs) fs (zeros fs) = fieldsNorm fs vs := by
  have hlen := fieldsNorm_length fs vs hty
  apply List.ext_getElem?
  intro k
  by_cases hk : k < fs.length
  · have hf : fs[k]? = some fs[k] := List.getElem?_eq_getElem hk
    have hv : vs[k]? = some (vs[k]'(by omega)) := List.getElem?_eq_getElem (by omega)
    rw [projectWith_getElem? _ fs (zeros fs) k _ _ hf (zeros_getElem? fs k _ hf),
      lookupWith_getElem? pr _ fs vs k _ _ hnd hf hv, fieldsNorm_getElem? fs vs k _ _ hf hv]
    have := hpr fs[k] (List.getElem_mem hk) _ (fieldsHaveTy_getElem? fs vs hty k _ _ hf hv)
    cases ho : (vs[k]'(by omega)).omit <;> simp [this]
  · have h1 : (projectWith (lookupWith pr fs vs) fs (zeros fs)).length ≤ k := by
      rw [projectWith_length _ fs _ (zeros_length fs)]; omega
    have h2 : (fieldsNorm fs vs).length ≤ k := by omega
    rw [List.getElem?_eq_none h1, List.getElem?_eq_none h2]

theorem elemProj_self (u : Ty) (x : Val) (h : u.proj u x = u.norm x) : elemProj u u x = elemNorm u x := by
  by_cases hx : x = .ptr none
  · subst hx
    cases u <;> first | rfl | (simp only [elemProj, elemNorm]; exact h)
  · rw [elemProj_present u u x hx, elemNorm_present u x hx, h]

/-- the induction predicate: projecting a codec onto itself is the normalisation. -/
def PS (t : Ty) : Prop := t.wf → ∀ v, t.hasTy v → t.proj t v = t.norm v

theorem ps_ptr (u : Ty) (ih : PS u) : PS (.ptr u) := by
  intro hwf v hty
  simp only [Ty.wf] at hwf
  cases v with
  | ptr o =>
    cases o with
    | none => simp only [Ty.proj]
    | some x =>
      simp only [Ty.hasTy] at hty
      simp only [Ty.proj, Ty.norm, ih hwf.1 x hty]
  | _ => simp [Ty.hasTy] at hty

theorem ps_lslice (u : Ty) (ih : PS u) : PS (.lslice u) := by
  intro hwf v hty
  simp only [Ty.wf] at hwf
  cases v with
  | slice vs =>
    simp only [Ty.hasTy] at hty
    rw [proj_lslice, norm_lslice]
    congr 1
    apply List.map_congr_left
    intro x hx
    exact elemProj_self u x (ih hwf.1 x (hty x hx))
  | _ => simp [Ty.hasTy] at hty

theorem ps_pslice (u : Ty) (ih : PS u) : PS (.pslice u) := by
  intro hwf v hty
  simp only [Ty.wf] at hwf
  cases v with
  | slice vs =>
    simp only [Ty.hasTy] at hty
    rw [proj_pslice, norm_pslice]
    congr 1
    apply List.map_congr_left
    intro x hx
    exact elemProj_self u x (ih hwf.1 x (hty x hx))
  | _ => simp [Ty.hasTy] at hty

theorem ps_struct (n : String) (fs : Fields) (ih : ∀ f ∈ fs, PS f.2.2) : PS (.struct n fs) := by
  intro hwf v hty
  simp only [Ty.wf] at hwf
  cases v with
  | struct vs =>
    simp only [Ty.hasTy] at hty
    simp only [Ty.proj, Ty.norm, fieldsProj_eq']
    rw [projectWith_self Ty.proj fs vs hwf.1 hty
      (fun f hf v hv => ih f hf (fieldsWf_mem fs hwf.2.2 f hf) v hv)]
  | _ => simp [Ty.hasTy] at hty

theorem ps_map (k v : Ty) (p : Bool) (ihv : PS v) : PS (.map k v p) := by
  intro hwf x hty
  simp only [Ty.wf] at hwf
  cases x with
  | map o =>
    cases o with
    | none => simp only [Ty.proj]
    | some es =>
      simp only [Ty.hasTy] at hty
      rw [proj_map, norm_map]
      have : es.map (entryProj k v v) = es.map (entryNorm k v) := by
        apply List.map_congr_left
        intro e he
        simp only [entryProj, entryNorm, ihv hwf.2.1 e.2 (hty.1 e he).2]
      rw [this]
  | _ => simp [Ty.hasTy] at hty

mutual
theorem ps_ty : (t : Ty) → PS t
  | .bool => fun _ _ _ => by simp only [Ty.proj]
  | .int _ => fun _ _ _ => by simp only [Ty.proj]
  | .uint _ => fun _ _ _ => by simp only [Ty.proj]
  | .flat _ => fun _ _ _ => by simp only [Ty.proj]
  | .f32 => fun _ _ _ => by simp only [Ty.proj]
  | .f64 => fun _ _ _ => by simp only [Ty.proj]
  | .str _ => fun _ _ _ => by simp only [Ty.proj]
  | .bytes => fun _ _ _ => by simp only [Ty.proj]
  | .time _ => fun _ _ _ => by simp only [Ty.proj]
  | .vslice _ => fun _ _ _ => by simp only [Ty.proj]
  | .fslice _ => fun _ _ _ => by simp only [Ty.proj]
  | .ptr u => ps_ptr u (ps_ty u)
  | .lslice u => ps_lslice u (ps_ty u)
  | .pslice u => ps_pslice u (ps_ty u)
  | .struct n fs => ps_struct n fs (ps_fields fs)
  | .map k v p => ps_map k v p (ps_ty v)
theorem ps_fields : (fs : Fields) → ∀ f ∈ fs, PS f.2.2
  | [] => by intro f hf; simp at hf
  | (_, _, t) :: r => by
      intro f hf
      rcases List.mem_cons.mp hf with rfl | hf
      · exact ps_ty t
      · exact ps_fields r f hf
end

/-- projecting onto the same type is the documented normalisation of C01. -/
theorem proj_self (t : Ty) (v : Val) (hwf : t.wf) (hty : t.hasTy v) : t.proj t v = t.norm v :=
  ps_ty t hwf v hty

theorem project_self (n : String) (fs : Fields) (vs : List Val) (hwf : (Ty.struct n fs).wf)
    (hty : (Ty.struct n fs).hasTy (.struct vs)) : project fs fs vs (zeros fs) = fieldsNorm fs vs := by
  have := proj_self (.struct n fs) (.struct vs) hwf hty
  simpa only [Ty.proj, Ty.norm, Val.struct.injEq, project] using this

theorem nodup_idx_inj : ∀ (fs : Fields), (fs.map (·.1)).Nodup → ∀ g ∈ fs, ∀ f ∈ fs, g.1 = f.1 → g = f := by
  intro fs
  induction fs with
  | nil => intro _ g hg; simp at hg
  | cons a fs ih =>
    intro hnd g hg f hf he
    simp only [List.map_cons] at hnd
    obtain ⟨hni, hnd'⟩ := List.nodup_cons.mp hnd
    rcases List.mem_cons.mp hg with hga | hg'
    · rcases List.mem_cons.mp hf with hfa | hf'
      · rw [hga, hfa]
      · exfalso; apply hni; rw [← hga, he]; exact List.mem_map.mpr ⟨f, hf', rfl⟩
    · rcases List.mem_cons.mp hf with hfa | hf'
      · exfalso; apply hni; rw [← hfa, ← he]; exact List.mem_map.mpr ⟨g, hg', rfl⟩
      · exact ih hnd' g hg' f hf' he

theorem fieldEvolves_of_mem : ∀ (fs : Fields) (i' : Nat) (t' : Ty),
    (∀ f ∈ fs, f.1 = i' → f.2.2.Evolves t') → fieldEvolves fs i' t' := by
  intro fs
  induction fs with
  | nil => intro i' t' _; simp [fieldEvolves]
  | cons g fs ih =>
    obtain ⟨j, nj, tj⟩ := g
    intro i' t' h
    simp only [fieldEvolves]
    exact ⟨fun e => h (j, nj, tj) (by simp) e, ih i' t' (fun f hf => h f (by simp [hf]))⟩

/-- every accepted type evolves into itself (the empty edit). -/
def ER (t : Ty) : Prop := t.wf → t.Evolves t

theorem er_struct (n : String) (fs : Fields) (ih : ∀ f ∈ fs, ER f.2.2) : ER (.struct n fs) := by
  intro hwf
  simp only [Ty.wf] at hwf
  simp only [Ty.Evolves]
  intro f' hf'
  apply fieldEvolves_of_mem
  intro g hg he
  have := nodup_idx_inj fs hwf.1 g hg f' hf' he
  subst this
  exact ih g hg (fieldsWf_mem fs hwf.2.2 g hg)

mutual
theorem er_ty : (t : Ty) → ER t
  | .bool => fun _ => by simp only [Ty.Evolves]
  | .int _ => fun _ => by simp only [Ty.Evolves]
  | .uint _ => fun _ => by simp only [Ty.Evolves]
  | .flat _ => fun _ => by simp only [Ty.Evolves]
  | .f32 => fun _ => by simp only [Ty.Evolves]
  | .f64 => fun _ => by simp only [Ty.Evolves]
  | .str _ => fun _ => by simp only [Ty.Evolves]
  | .bytes => fun _ => by simp only [Ty.Evolves]
  | .time _ => fun _ => by simp only [Ty.Evolves]
  | .vslice _ => fun _ => by simp only [Ty.Evolves]
  | .fslice _ => fun _ => by simp only [Ty.Evolves]
  | .ptr u => fun hwf => by simp only [Ty.wf] at hwf; simp only [Ty.Evolves]; exact er_ty u hwf.1
  | .lslice u => fun hwf => by simp only [Ty.wf] at hwf; simp only [Ty.Evolves]; exact er_ty u hwf.1
  | .pslice u => fun hwf => by simp only [Ty.wf] at hwf; simp only [Ty.Evolves]; exact er_ty u hwf.1
  | .struct n fs => er_struct n fs (er_fields fs)
  | .map k v p => fun hwf => by
      simp only [Ty.wf] at hwf; simp only [Ty.Evolves, true_and]; exact er_ty v hwf.2.1
theorem er_fields : (fs : Fields) → ∀ f ∈ fs, ER f.2.2
  | [] => by intro f hf; simp at hf
  | (_, _, t) :: r => by
      intro f hf
      rcases List.mem_cons.mp hf with rfl | hf
      · exact er_ty t
      · exact er_fields r f hf
end

theorem evolves_refl (t : Ty) (hwf : t.wf) : t.Evolves t := er_ty t hwf

/-- consistency: decoding into the unchanged type from zeros is the C01 round trip
(`project … = fieldsNorm`), obtained here from the evolution theorem. -/
theorem identity_is_roundtrip (n : String) (fs : Fields) (vs : List Val)
    (hwf : (Ty.struct n fs).wf) (hshape : Ty.rtShape false (.struct n fs))
    (hty : (Ty.struct n fs).hasTy (.struct vs))
    (hsz : (marshal (.struct n fs) (.struct vs)).length < 2 ^ 63) :
    (Ty.struct n fs).read .len (marshal (.struct n fs) (.struct vs)) (.struct (zeros fs))
      = .ok (.struct (fieldsNorm fs vs), (marshal (.struct n fs) (.struct vs)).length) := by
  rw [← project_self n fs vs hwf hty]
  exact decode_evolved_consumed n n fs fs vs (zeros fs) hwf hwf (evolves_refl _ hwf) hshape hty hsz
    (priorFitsWith_zeros _ fs)

end Evolve
