import Plenc.JSONAny
import Proofs.Wire
/-
  Proofs.JSONAny — helper lemmas for C16 (the JSON-any codecs of json.go and
  their descriptor walk): concrete tags, `Size = len(Append)`, one-step lemmas
  for the entry loops, the association-list view of `m[key] = val`, and the
  generic totality lemmas for the loop combinators.
-/

namespace JSONAny

/-! ### small facts -/

theorem leBytes_length : ∀ (n v : Nat), (leBytes n v).length = n
  | 0, _ => rfl
  | n+1, v => by simp [leBytes, leBytes_length n]

theorem leVal_leBytes : ∀ (n v : Nat), leVal (leBytes n v) = v % 256 ^ n
  | 0, v => by simp [leBytes, leVal]; omega
  | n+1, v => by
    have hb : ((v % 256).toUInt8).toNat = v % 256 := toUInt8_toNat_lt _ (Nat.mod_lt _ (by omega))
    simp only [leBytes, leVal, hb, leVal_leBytes n (v / 256)]
    rw [Nat.pow_succ, Nat.mul_comm (256 ^ n) 256, Nat.mod_mul]

theorem wrapS64_id (i : Int) (h1 : -(2 ^ 63 : Int) ≤ i) (h2 : i < (2 ^ 63 : Int)) : wrapS 64 i = i := by
  unfold wrapS
  simp only [Nat.reduceSub, Int.reducePow] at h1 h2 ⊢
  split <;> omega

theorem drop_len {α} (a b : List α) (n : Nat) (h : n = a.length) : (a ++ b).drop n = b := by
  subst h; simp

theorem take_len {α} (a b : List α) (n : Nat) (h : n = a.length) : (a ++ b).take n = a := by
  subst h; simp

/-! ### the tags -/

theorem tag_varint2 : appendTag .varint 2 = [16] := by
  simp [appendTag, WT.code, appendVarUint]
theorem keyTag_eq : keyTag = [10] := by
  simp [keyTag, appendTag, WT.code, appendVarUint]
theorem valueWTLTag_eq : valueWTLTag = [26] := by
  simp [valueWTLTag, appendTag, WT.code, appendVarUint]
theorem valueWTVITag_eq : valueWTVITag = [24] := by
  simp [valueWTVITag, appendTag, WT.code, appendVarUint]
theorem valueWT64Tag_eq : valueWT64Tag = [25] := by
  simp [valueWT64Tag, appendTag, WT.code, appendVarUint]
theorem valueWTSliceTag_eq : valueWTSliceTag = [27] := by
  simp [valueWTSliceTag, appendTag, WT.code, appendVarUint]

theorem varuint_small (v : Nat) (h : v < 128) : appendVarUint v = [v.toUInt8] := by
  rw [appendVarUint]; simp [h]

/-! ### `Size` = length of `Append` -/

theorem strSize_eq (s tag : Bytes) : strSize s tag = (strAppend s tag).length := by
  unfold strSize strAppend
  by_cases h : tag.length > 0
  · have h' : tag.length ≠ 0 := by omega
    simp only [h, h', ↓reduceIte, ne_eq, not_false_eq_true, List.length_append, size_eq_len]; omega
  · have h' : tag.length = 0 := by omega
    simp [h']

theorem tagLen1_len : (appendTag .len 1).length = 1 := by
  have := keyTag_eq; unfold keyTag at this; rw [this]; rfl

theorem strAppend_key (k : Bytes) : strAppend k keyTag = keyTag ++ appendVarUint k.length ++ k := by
  simp [strAppend, keyTag_eq]

theorem strAppend_val (s : Bytes) : strAppend s valueWTLTag = valueWTLTag ++ appendVarUint s.length ++ s := by
  simp [strAppend, valueWTLTag_eq]

theorem strAppend_key_len (k : Bytes) :
    (strAppend k keyTag).length = 1 + (appendVarUint k.length).length + k.length := by
  rw [strAppend_key, keyTag_eq]; simp only [List.length_append, List.length_cons, List.length_nil]

mutual
theorem sizeValue_eq : ∀ v : JVal, sizeValue v = (appendValue v).length
  | .null => by simp only [sizeValue, appendValue, List.length_append, sizeTag_eq_len, size_eq_len]
  | .str s => by
    simp only [sizeValue, appendValue, List.length_append, sizeTag_eq_len, size_eq_len, strSize_eq]
  | .int i => by
    simp only [sizeValue, appendValue, List.length_append, sizeTag_eq_len, size_eq_len, sizeVarInt,
      appendVarInt]; omega
  | .float b => by
    simp only [sizeValue, appendValue, List.length_append, sizeTag_eq_len, size_eq_len, leBytes_length]
    omega
  | .bool b => by
    simp only [sizeValue, appendValue, List.length_append, sizeTag_eq_len, size_eq_len]
    cases b <;> simp [len_append_small] <;> omega
  | .num t => by
    simp only [sizeValue, appendValue, List.length_append, sizeTag_eq_len, size_eq_len, strSize_eq]
  | .arr xs => by
    have := arrBodySize_eq xs
    simp only [sizeValue, appendValue, List.length_append, sizeTag_eq_len, size_eq_len, this]; omega
  | .obj m => by
    have := mapBodySize_eq m
    simp only [sizeValue, appendValue, List.length_append, sizeTag_eq_len, size_eq_len, this]; omega
theorem arrBodySize_eq : ∀ xs : Option (List JVal), arrBodySize xs = (arrBody xs).length
  | none => by simp only [arrBodySize, arrBody, size_eq_len]
  | some xs => by
    have := itemsSize_eq xs
    simp only [arrBodySize, arrBody, size_eq_len, List.length_append, this]
theorem itemsSize_eq : ∀ xs : List JVal, itemsSize xs = (itemsApp xs).length
  | [] => by simp [itemsSize, itemsApp]
  | v :: r => by
    have h1 := sizeValue_eq v
    have h2 := itemsSize_eq r
    simp only [itemsSize, itemsApp, size_eq_len, List.length_append, h2]; omega
theorem mapBodySize_eq : ∀ m : Option (List (Bytes × JVal)), mapBodySize m = (mapBody m).length
  | none => by simp only [mapBodySize, mapBody, size_eq_len]
  | some kvs => by
    have := kvsSize_eq kvs
    simp only [mapBodySize, mapBody, size_eq_len, List.length_append, this]
theorem kvsSize_eq : ∀ kvs : List (Bytes × JVal), kvsSize kvs = (kvsApp kvs).length
  | [] => by simp [kvsSize, kvsApp]
  | (k, v) :: r => by
    have h1 := sizeValue_eq v
    have h2 := kvsSize_eq r
    have h3 := strAppend_key_len k
    have h4 := tagLen1_len
    simp only [kvsSize, kvsApp, kvSizeOf, size_eq_len, sizeTag_eq_len, List.length_append, h2, h3, h4]
    omega
end

/-- `sizeKV` is the length of the entry `appendKV` writes. -/
theorem kvSize_eq (k : Bytes) (v : JVal) :
    kvSizeOf k (sizeValue v) = (strAppend k keyTag ++ appendValue v).length := by
  have h1 := sizeValue_eq v
  have h3 := strAppend_key_len k
  have h4 := tagLen1_len
  simp only [kvSizeOf, size_eq_len, sizeTag_eq_len, List.length_append, h3, h4]
  omega

/-! ### one-step lemmas for the `readJSONKV` loop -/

section steps
variable (rdArr : WT → Bytes → Res (Option (List JVal) × Nat))
  (rdMap : WT → Bytes → Res (Option (List (Bytes × JVal)) × Nat))

theorem isEmpty_tag_append (wt : WT) (i : Nat) (rest : Bytes) :
    (appendTag wt i ++ rest).isEmpty = false := by
  have : appendTag wt i ≠ [] := by unfold appendTag; exact append_ne_nil _
  cases h : appendTag wt i with
  | nil => exact absurd h this
  | cons _ _ => rfl

theorem kvLoop_nil (fuel off jt : Nat) (hk : Bool) (key : Bytes) (val : JVal) :
    kvLoop rdArr rdMap (fuel + 1) [] off jt hk key val = .ok ((key, val), off) := by
  simp [kvLoop]

/-- field 2: the value type. -/
theorem kvLoop_type (fuel t : Nat) (ht : t < 2 ^ 64) (rest : Bytes) (off jt : Nat) (hk : Bool)
    (key : Bytes) (val : JVal) :
    kvLoop rdArr rdMap (fuel + 1) (appendTag .varint 2 ++ appendVarUint t ++ rest) off jt hk key val
      = kvLoop rdArr rdMap fuel rest
          (off + ((appendTag .varint 2).length + (appendVarUint t).length)) t hk key val := by
  rw [kvLoop, List.append_assoc, isEmpty_tag_append, tag_roundtrip _ _ (by omega)]
  simp only [Bool.false_eq_true, ↓reduceIte, Nat.reduceEqDiff]
  rw [drop_len _ _ _ rfl, readU_append _ ht]
  simp only
  rw [← List.append_assoc, drop_len _ _ _ (by simp)]

/-- field 1 with a key target: the key. -/
theorem kvLoop_key (fuel : Nat) (k : Bytes) (hk : k.length < 2 ^ 64) (rest : Bytes) (off jt : Nat)
    (key : Bytes) (val : JVal) :
    kvLoop rdArr rdMap (fuel + 1) (strAppend k keyTag ++ rest) off jt true key val
      = kvLoop rdArr rdMap fuel rest
          (off + (keyTag.length + (appendVarUint k.length).length + k.length)) jt true k val := by
  rw [strAppend_key, kvLoop]
  unfold keyTag
  rw [List.append_assoc, List.append_assoc, isEmpty_tag_append, tag_roundtrip _ _ (by omega)]
  simp only [Bool.false_eq_true, ↓reduceIte]
  rw [drop_len _ _ _ rfl, readU_append _ hk]
  simp only
  have e1 : (appendTag WT.len 1 ++ (appendVarUint k.length ++ (k ++ rest))).drop
      ((appendTag WT.len 1).length + (appendVarUint k.length).length) = k ++ rest := by
    rw [← List.append_assoc, drop_len _ _ _ (by simp)]
  have e2 : (appendTag WT.len 1 ++ (appendVarUint k.length ++ (k ++ rest))).drop
      ((appendTag WT.len 1).length + (appendVarUint k.length).length + k.length) = rest := by
    rw [← List.append_assoc, ← List.append_assoc, drop_len _ _ _ (by simp [Nat.add_assoc])]
  rw [e1, e2]
  have : ¬ (k.length > (k ++ rest).length) := by simp
  simp only [this, ↓reduceIte, Bool.not_true, Bool.false_eq_true, take_len k rest k.length rfl]

/-- field 3: the value, by `readValue`. -/
theorem kvLoop_value (fuel : Nat) (wt : WT) (rest : Bytes) (off jt : Nat) (hk : Bool) (key : Bytes)
    (val v : JVal) (m : Nat)
    (h : readValue rdArr rdMap jt wt rest = .ok (v, m)) :
    kvLoop rdArr rdMap (fuel + 1) (appendTag wt 3 ++ rest) off jt hk key val
      = kvLoop rdArr rdMap fuel (rest.drop m) (off + ((appendTag wt 3).length + m)) jt hk key v := by
  rw [kvLoop, isEmpty_tag_append, tag_roundtrip _ _ (by omega)]
  simp only [Bool.false_eq_true, ↓reduceIte]
  rw [drop_len _ _ _ rfl, h]
  simp only [Nat.reduceEqDiff, ↓reduceIte]
  congr 1
  rw [List.drop_append]
  simp

end steps

/-! ### `readValue` on what `appendJSONValue` wrote after the value tag -/

section values
variable (rdArr : WT → Bytes → Res (Option (List JVal) × Nat))
  (rdMap : WT → Bytes → Res (Option (List (Bytes × JVal)) × Nat))

theorem readValue_str (s : Bytes) (hs : s.length < 2 ^ 64) (wt : WT) (rest : Bytes) :
    readValue rdArr rdMap jsonTypeString wt (appendVarUint s.length ++ s ++ rest)
      = .ok (.str s, (appendVarUint s.length).length + s.length) := by
  unfold readValue
  rw [List.append_assoc, readU_append _ hs]
  simp only [↓reduceIte, drop_len _ _ _ rfl]
  have : ¬ (s.length > (s ++ rest).length) := by simp
  simp only [this, ↓reduceIte, take_len s rest s.length rfl]

theorem readValue_num (s : Bytes) (hs : s.length < 2 ^ 64) (wt : WT) (rest : Bytes) :
    readValue rdArr rdMap jsonTypeNumber wt (appendVarUint s.length ++ s ++ rest)
      = .ok (.num s, (appendVarUint s.length).length + s.length) := by
  unfold readValue
  rw [List.append_assoc, readU_append _ hs]
  simp only [jsonTypeNumber, jsonTypeString, jsonTypeInt, jsonTypeFloat, jsonTypeBool, jsonTypeArray,
    jsonTypeObject, Nat.reduceEqDiff, ↓reduceIte, drop_len _ _ _ rfl]
  have : ¬ (s.length > (s ++ rest).length) := by simp
  simp only [this, ↓reduceIte, take_len s rest s.length rfl]

theorem readValue_int (i : Int) (h1 : -(2 ^ 63 : Int) ≤ i) (h2 : i < (2 ^ 63 : Int)) (wt : WT)
    (rest : Bytes) :
    readValue rdArr rdMap jsonTypeInt wt (appendVarInt i ++ rest)
      = .ok (.int i, (appendVarInt i).length) := by
  unfold readValue appendVarInt
  rw [read_append _ (zigZag_lt i h1 h2)]
  simp only [jsonTypeInt, jsonTypeString, Nat.reduceEqDiff, ↓reduceIte, zagZig_zigZag,
    wrapS64_id i h1 h2, Int.ofNat_eq_natCast, Int.toNat_natCast]
  have : ¬ ((((appendVarUint (zigZag i)).length : Nat) : Int) < 0) := by omega
  simp only [this, ↓reduceIte]

theorem readValue_bool (b : Bool) (wt : WT) (rest : Bytes) :
    readValue rdArr rdMap jsonTypeBool wt (appendVarUint (if b then 1 else 0) ++ rest)
      = .ok (.bool b, (appendVarUint (if b then 1 else 0)).length) := by
  unfold readValue
  rw [read_append _ (by cases b <;> simp)]
  simp only [jsonTypeBool, jsonTypeInt, jsonTypeFloat, jsonTypeString, Nat.reduceEqDiff, ↓reduceIte,
    Int.ofNat_eq_natCast, Int.toNat_natCast]
  have : ¬ ((((appendVarUint (if b = true then 1 else 0)).length : Nat) : Int) < 0) := by omega
  simp only [this, ↓reduceIte]
  cases b <;> simp

theorem readValue_float (bits : Nat) (hb : bits < 2 ^ 64) (wt : WT) (rest : Bytes) :
    readValue rdArr rdMap jsonTypeFloat wt (leBytes 8 bits ++ rest) = .ok (.float bits, 8) := by
  unfold readValue
  have hl : ¬ ((leBytes 8 bits ++ rest).length < 8) := by
    simp only [List.length_append, leBytes_length]; omega
  simp only [jsonTypeFloat, jsonTypeInt, jsonTypeString, Nat.reduceEqDiff, ↓reduceIte, hl,
    take_len _ _ 8 (leBytes_length 8 bits).symm, leVal_leBytes]
  have : bits % 256 ^ 8 = bits := Nat.mod_eq_of_lt (by simpa using hb)
  rw [this]

theorem readValue_arr (wt : WT) (d : Bytes) (xs : Option (List JVal)) (n : Nat)
    (h : rdArr wt d = .ok (xs, n)) :
    readValue rdArr rdMap jsonTypeArray wt d = .ok (.arr xs, n) := by
  unfold readValue
  simp only [jsonTypeArray, jsonTypeBool, jsonTypeInt, jsonTypeFloat, jsonTypeString, Nat.reduceEqDiff,
    ↓reduceIte, h]

theorem readValue_obj (wt : WT) (d : Bytes) (m : Option (List (Bytes × JVal))) (n : Nat)
    (h : rdMap wt d = .ok (m, n)) :
    readValue rdArr rdMap jsonTypeObject wt d = .ok (.obj m, n) := by
  unfold readValue
  simp only [jsonTypeObject, jsonTypeArray, jsonTypeBool, jsonTypeInt, jsonTypeFloat, jsonTypeString,
    Nat.reduceEqDiff, ↓reduceIte, h]

end values

/-! ### `m[key] = val` on distinct keys -/

theorem mapSet_fresh (k : Bytes) (v : JVal) :
    ∀ acc : List (Bytes × JVal), (∀ p ∈ acc, p.1 ≠ k) → mapSet k v acc = acc ++ [(k, v)]
  | [], _ => rfl
  | (k', v') :: r, h => by
    have hne : k' ≠ k := h (k', v') (by simp)
    have ih := mapSet_fresh k v r (fun p hp => h p (by simp [hp]))
    simp only [mapSet, hne, ↓reduceIte, ih, List.cons_append]

theorem jnormKvs_keys : ∀ (kvs : List (Bytes × JVal)) (k : Bytes),
    (∀ p ∈ kvs, p.1 ≠ k) → ∀ p ∈ jnormKvs kvs, p.1 ≠ k
  | [], _, _ => by simp [jnormKvs]
  | (k', v') :: r, k, h => by
    intro p hp
    simp only [jnormKvs, List.mem_cons] at hp
    rcases hp with rfl | hp
    · exact h (k', v') (by simp)
    · exact jnormKvs_keys r k (fun q hq => h q (by simp [hq])) p hp

/-! ### a whole value entry: type field, value field, end of entry -/

section entry
variable (rdArr : WT → Bytes → Res (Option (List JVal) × Nat))
  (rdMap : WT → Bytes → Res (Option (List (Bytes × JVal)) × Nat))

theorem kvLoop_typed_value (t : Nat) (ht : t < 2 ^ 64) (wt : WT) (payload : Bytes) (v' : JVal)
    (h : readValue rdArr rdMap t wt payload = .ok (v', payload.length))
    (fuel : Nat) (hf : 3 ≤ fuel) (off jt : Nat) (hk : Bool) (key : Bytes) (val : JVal) :
    kvLoop rdArr rdMap fuel (appendTag .varint 2 ++ appendVarUint t ++ (appendTag wt 3 ++ payload))
        off jt hk key val
      = .ok ((key, v'), off + (appendTag .varint 2 ++ appendVarUint t ++ (appendTag wt 3 ++ payload)).length) := by
  obtain ⟨f, rfl⟩ : ∃ f, fuel = f + 3 := ⟨fuel - 3, by omega⟩
  rw [kvLoop_type rdArr rdMap (f + 2) t ht, kvLoop_value rdArr rdMap (f + 1) wt payload _ _ _ _ _ v' _ h]
  simp only [List.drop_length, kvLoop_nil, List.length_append]
  congr 2; omega

theorem kvLoop_null (fuel : Nat) (hf : 2 ≤ fuel) (off jt : Nat) (hk : Bool) (key : Bytes) (val : JVal) :
    kvLoop rdArr rdMap fuel (appendTag .varint 2 ++ appendVarUint jsonTypeNil) off jt hk key val
      = .ok ((key, val), off + (appendTag .varint 2 ++ appendVarUint jsonTypeNil).length) := by
  obtain ⟨f, rfl⟩ : ∃ f, fuel = f + 2 := ⟨fuel - 2, by omega⟩
  have := kvLoop_type rdArr rdMap (f + 1) jsonTypeNil (by simp [jsonTypeNil]) [] off jt hk key val
  rw [List.append_nil] at this
  rw [this, kvLoop_nil]
  simp only [List.length_append]

end entry

/-! ### the counted loops and the container readers, one step -/

theorem arrLoop_step (rdKV : Bytes → Res ((Bytes × JVal) × Nat)) (c : Nat) (entry tail : Bytes)
    (hl : entry.length < 2 ^ 64) (k : Bytes) (v : JVal) (vs : List JVal) (j : Nat)
    (h1 : rdKV entry = .ok ((k, v), entry.length)) (h2 : arrLoop rdKV c tail = .ok (vs, j)) :
    arrLoop rdKV (c + 1) (appendVarUint entry.length ++ entry ++ tail)
      = .ok (v :: vs, ((appendVarUint entry.length).length + entry.length) + j) := by
  rw [arrLoop, List.append_assoc, readU_append _ hl]
  simp only [drop_len _ _ _ rfl]
  have : ¬ (entry.length > (entry ++ tail).length) := by simp
  simp only [this, ↓reduceIte, take_len entry tail entry.length rfl, h1]
  rw [← List.append_assoc, drop_len _ _ _ (by simp), h2]

theorem mapLoop_step (rdKV : Bytes → Res ((Bytes × JVal) × Nat)) (c : Nat) (entry tail : Bytes)
    (hl : entry.length < 2 ^ 64) (k : Bytes) (v : JVal) (off : Nat) (m : List (Bytes × JVal))
    (h1 : rdKV entry = .ok ((k, v), entry.length)) :
    mapLoop rdKV (c + 1) (appendVarUint entry.length ++ entry ++ tail) off m
      = mapLoop rdKV c tail (off + ((appendVarUint entry.length).length + entry.length)) (mapSet k v m) := by
  rw [mapLoop, List.append_assoc, readU_append _ hl]
  simp only [drop_len _ _ _ rfl]
  have : ¬ (entry.length > (entry ++ tail).length) := by simp
  simp only [this, ↓reduceIte, take_len entry tail entry.length rfl, h1]
  rw [← List.append_assoc, drop_len _ _ _ (by simp)]

theorem readKV_succ (d : Nat) (data : Bytes) (hk : Bool) (key : Bytes) (val : JVal) :
    readKV (d + 1) data hk key val
      = kvLoop (fun wt b => arrRead d b wt none) (fun wt b => mapRead d b wt none)
          (data.length + 1) data 0 jsonTypeNil hk key val := by
  simp only [readKV]

theorem arrRead_count (d count : Nat) (hc : count < 2 ^ 64) (tail : Bytes) (hcl : count ≤ tail.length)
    (wt : WT) (prior : Option (List JVal)) (ys : List JVal) (k : Nat)
    (h : arrLoop (fun b => readKV d b false [] .null) count tail = .ok (ys, k)) :
    arrRead (d + 1) (appendVarUint count ++ tail) wt prior
      = .ok (some ys, (appendVarUint count).length + k) := by
  have hpos := append_len_pos count
  simp only [arrRead]
  rw [read_append _ hc]
  simp only [Int.ofNat_eq_natCast, Int.toNat_natCast, drop_len _ _ _ rfl, List.length_append]
  have h1 : ¬ (((appendVarUint count).length : Int) = 0) := by omega
  have h2 : ¬ (((appendVarUint count).length : Int) < 0) := by omega
  have h3 : ¬ (count > (appendVarUint count).length + tail.length - (appendVarUint count).length) := by omega
  simp only [h1, h2, h3, ↓reduceIte, h]

theorem mapRead_count (d count : Nat) (hc : count < 2 ^ 64) (tail : Bytes) (hcl : count ≤ tail.length)
    (wt : WT) (prior : Option (List (Bytes × JVal))) (m : List (Bytes × JVal)) (off : Nat)
    (h : mapLoop (fun b => readKV d b true [] .null) count tail (appendVarUint count).length
           (prior.getD []) = .ok (m, off)) :
    mapRead (d + 1) (appendVarUint count ++ tail) wt prior = .ok (some m, off) := by
  have hpos := append_len_pos count
  simp only [mapRead]
  rw [read_append _ hc]
  simp only [Int.ofNat_eq_natCast, Int.toNat_natCast, drop_len _ _ _ rfl, List.length_append]
  have h1 : ¬ (((appendVarUint count).length : Int) = 0) := by omega
  have h2 : ¬ (((appendVarUint count).length : Int) < 0) := by omega
  have h3 : ¬ (count > (appendVarUint count).length + tail.length - (appendVarUint count).length) := by omega
  simp only [h1, h2, h3, ↓reduceIte, h]

/-! ### lengths -/

theorem appendValue_len_ge (v : JVal) : 2 ≤ (appendValue v).length := by
  have h1 : ∀ t, 1 ≤ (appendVarUint t).length := fun t => append_len_pos t
  cases v with
  | null => have := h1 jsonTypeNil; simp only [appendValue, tag_varint2, List.length_append, List.length_cons, List.length_nil]; omega
  | str _ => have := h1 jsonTypeString; simp only [appendValue, tag_varint2, List.length_append, List.length_cons, List.length_nil]; omega
  | int _ => have := h1 jsonTypeInt; simp only [appendValue, tag_varint2, List.length_append, List.length_cons, List.length_nil]; omega
  | float _ => have := h1 jsonTypeFloat; simp only [appendValue, tag_varint2, List.length_append, List.length_cons, List.length_nil]; omega
  | bool _ => have := h1 jsonTypeBool; simp only [appendValue, tag_varint2, List.length_append, List.length_cons, List.length_nil]; omega
  | num _ => have := h1 jsonTypeNumber; simp only [appendValue, tag_varint2, List.length_append, List.length_cons, List.length_nil]; omega
  | arr _ => have := h1 jsonTypeArray; simp only [appendValue, tag_varint2, List.length_append, List.length_cons, List.length_nil]; omega
  | obj _ => have := h1 jsonTypeObject; simp only [appendValue, tag_varint2, List.length_append, List.length_cons, List.length_nil]; omega

theorem len_le_itemsApp : ∀ xs : List JVal, xs.length ≤ (itemsApp xs).length
  | [] => by simp
  | v :: r => by
    have := len_le_itemsApp r
    have := append_len_pos (sizeValue v)
    simp only [itemsApp, List.length_append, List.length_cons]; omega

theorem len_le_kvsApp : ∀ kvs : List (Bytes × JVal), kvs.length ≤ (kvsApp kvs).length
  | [] => by simp
  | (k, v) :: r => by
    have := len_le_kvsApp r
    have := append_len_pos (kvSizeOf k (sizeValue v))
    simp only [kvsApp, List.length_append, List.length_cons]; omega

/-! ### round trip, by mutual structural induction over the value -/

mutual
theorem rt_value : ∀ (v : JVal), WF v → (appendValue v).length < 2 ^ 63 →
    ∀ (depth fuel off jt : Nat) (hk : Bool) (key : Bytes),
      (appendValue v).length ≤ depth → 3 ≤ fuel →
      kvLoop (fun wt b => arrRead depth b wt none) (fun wt b => mapRead depth b wt none) fuel
        (appendValue v) off jt hk key .null = .ok ((key, jnorm v), off + (appendValue v).length)
  | .null, _, _, depth, fuel, off, jt, hk, key, _, hf => by
    simp only [appendValue, jnorm]
    exact kvLoop_null _ _ fuel (by omega) off jt hk key .null
  | .str s, _, hs, depth, fuel, off, jt, hk, key, _, hf => by
    have e : appendValue (.str s) = appendTag .varint 2 ++ appendVarUint jsonTypeString
        ++ (appendTag .len 3 ++ (appendVarUint s.length ++ s)) := by
      simp only [appendValue, strAppend_val]
      simp only [valueWTLTag, List.append_assoc]
    rw [e] at hs ⊢
    simp only [List.length_append] at hs
    have h := readValue_str (fun wt b => arrRead depth b wt none) (fun wt b => mapRead depth b wt none)
      s (by omega) .len []
    rw [List.append_nil] at h
    exact kvLoop_typed_value _ _ jsonTypeString (by simp [jsonTypeString]) .len _ (.str s)
      (by rw [h]; simp) fuel hf off jt hk key .null
  | .num s, _, hs, depth, fuel, off, jt, hk, key, _, hf => by
    have e : appendValue (.num s) = appendTag .varint 2 ++ appendVarUint jsonTypeNumber
        ++ (appendTag .len 3 ++ (appendVarUint s.length ++ s)) := by
      simp only [appendValue, strAppend_val]
      simp only [valueWTLTag, List.append_assoc]
    rw [e] at hs ⊢
    simp only [List.length_append] at hs
    have h := readValue_num (fun wt b => arrRead depth b wt none) (fun wt b => mapRead depth b wt none)
      s (by omega) .len []
    rw [List.append_nil] at h
    exact kvLoop_typed_value _ _ jsonTypeNumber (by simp [jsonTypeNumber]) .len _ (.num s)
      (by rw [h]; simp) fuel hf off jt hk key .null
  | .int i, hwf, _, depth, fuel, off, jt, hk, key, _, hf => by
    have e : appendValue (.int i) = appendTag .varint 2 ++ appendVarUint jsonTypeInt
        ++ (appendTag .varint 3 ++ appendVarInt i) := by
      simp only [appendValue, valueWTVITag]
    rw [e]
    simp only [WF] at hwf
    have h := readValue_int (fun wt b => arrRead depth b wt none) (fun wt b => mapRead depth b wt none)
      i hwf.1 hwf.2 .varint []
    rw [List.append_nil] at h
    exact kvLoop_typed_value _ _ jsonTypeInt (by simp [jsonTypeInt]) .varint _ (.int i)
      h fuel hf off jt hk key .null
  | .float b, hwf, _, depth, fuel, off, jt, hk, key, _, hf => by
    have e : appendValue (.float b) = appendTag .varint 2 ++ appendVarUint jsonTypeFloat
        ++ (appendTag .w64 3 ++ leBytes 8 b) := by
      simp only [appendValue, valueWT64Tag]
    rw [e]
    simp only [WF] at hwf
    have h := readValue_float (fun wt b => arrRead depth b wt none) (fun wt b => mapRead depth b wt none)
      b hwf .w64 []
    rw [List.append_nil] at h
    exact kvLoop_typed_value _ _ jsonTypeFloat (by simp [jsonTypeFloat]) .w64 _ (.float b)
      (by rw [h, leBytes_length]) fuel hf off jt hk key .null
  | .bool b, _, _, depth, fuel, off, jt, hk, key, _, hf => by
    have e : appendValue (.bool b) = appendTag .varint 2 ++ appendVarUint jsonTypeBool
        ++ (appendTag .varint 3 ++ appendVarUint (if b then 1 else 0)) := by
      simp only [appendValue, valueWTVITag]
    rw [e]
    have h := readValue_bool (fun wt b => arrRead depth b wt none) (fun wt b => mapRead depth b wt none)
      b .varint []
    rw [List.append_nil] at h
    exact kvLoop_typed_value _ _ jsonTypeBool (by simp [jsonTypeBool]) .varint _ (.bool b)
      h fuel hf off jt hk key .null
  | .arr xs, hwf, hs, depth, fuel, off, jt, hk, key, hd, hf => by
    have e : appendValue (.arr xs) = appendTag .varint 2 ++ appendVarUint jsonTypeArray
        ++ (appendTag .slice 3 ++ arrBody xs) := by
      simp only [appendValue, valueWTSliceTag]
    rw [e] at hs hd ⊢
    simp only [List.length_append] at hs hd
    simp only [WF] at hwf
    have hr := rt_arr xs hwf (by omega) depth [] .slice none
      (by have := append_len_pos jsonTypeArray; omega)
    rw [List.append_nil] at hr
    have h := readValue_arr (fun wt b => arrRead depth b wt none) (fun wt b => mapRead depth b wt none)
      .slice (arrBody xs) _ _ hr
    simp only [jnorm]
    exact kvLoop_typed_value _ _ jsonTypeArray (by simp [jsonTypeArray]) .slice _ _
      h fuel hf off jt hk key .null
  | .obj m, hwf, hs, depth, fuel, off, jt, hk, key, hd, hf => by
    have e : appendValue (.obj m) = appendTag .varint 2 ++ appendVarUint jsonTypeObject
        ++ (appendTag .slice 3 ++ mapBody m) := by
      simp only [appendValue, valueWTSliceTag]
    rw [e] at hs hd ⊢
    simp only [List.length_append] at hs hd
    simp only [WF] at hwf
    have hr := rt_map m hwf (by omega) depth [] .slice
      (by have := append_len_pos jsonTypeObject; omega)
    rw [List.append_nil] at hr
    have h := readValue_obj (fun wt b => arrRead depth b wt none) (fun wt b => mapRead depth b wt none)
      .slice (mapBody m) _ _ hr
    simp only [jnorm]
    exact kvLoop_typed_value _ _ jsonTypeObject (by simp [jsonTypeObject]) .slice _ _
      h fuel hf off jt hk key .null
theorem rt_arr : ∀ (xs : Option (List JVal)), WFArr xs → (arrBody xs).length < 2 ^ 63 →
    ∀ (depth : Nat) (rest : Bytes) (wt : WT) (prior : Option (List JVal)),
      (arrBody xs).length < depth →
      arrRead depth (arrBody xs ++ rest) wt prior = .ok (some (jnormArr xs), (arrBody xs).length)
  | none, _, _, depth, rest, wt, prior, hd => by
    obtain ⟨d, rfl⟩ : ∃ d, depth = d + 1 := ⟨depth - 1, by omega⟩
    simp only [arrBody, jnormArr]
    exact arrRead_count d 0 (by omega) rest (by omega) wt prior [] 0 (by simp [arrLoop])
  | some xs, hwf, hs, depth, rest, wt, prior, hd => by
    obtain ⟨d, rfl⟩ : ∃ d, depth = d + 1 := ⟨depth - 1, by omega⟩
    simp only [arrBody, jnormArr, List.length_append] at hs hd ⊢
    simp only [WFArr] at hwf
    have hpos := append_len_pos xs.length
    have hle := len_le_itemsApp xs
    have hr := rt_items xs hwf (by omega) d rest (by omega)
    rw [List.append_assoc]
    exact arrRead_count d xs.length (by omega) _ (by simp only [List.length_append]; omega)
      wt prior _ _ hr
theorem rt_items : ∀ (xs : List JVal), WFList xs → (itemsApp xs).length < 2 ^ 63 →
    ∀ (d : Nat) (rest : Bytes), (itemsApp xs).length ≤ d →
      arrLoop (fun b => readKV d b false [] .null) xs.length (itemsApp xs ++ rest)
        = .ok (jnormList xs, (itemsApp xs).length)
  | [], _, _, d, rest, _ => by simp [arrLoop, itemsApp, jnormList]
  | v :: r, hwf, hs, d, rest, hd => by
    simp only [itemsApp, List.length_append, sizeValue_eq] at hs hd ⊢
    simp only [WFList] at hwf
    have hpos := append_len_pos (appendValue v).length
    have h2 := appendValue_len_ge v
    obtain ⟨d', rfl⟩ : ∃ d', d = d' + 1 := ⟨d - 1, by omega⟩
    have hv := rt_value v hwf.1 (by omega) d' ((appendValue v).length + 1) 0 jsonTypeNil false []
      (by omega) (by omega)
    have hr := rt_items r hwf.2 (by omega) (d' + 1) rest (by omega)
    have := arrLoop_step (fun b => readKV (d' + 1) b false [] .null) r.length (appendValue v)
      (itemsApp r ++ rest) (by omega) [] (jnorm v) _ _
      (by simp only [readKV_succ]; rw [hv]; simp) hr
    simp only [List.length_cons, jnormList]
    rw [show appendVarUint (appendValue v).length ++ appendValue v ++ itemsApp r ++ rest
        = appendVarUint (appendValue v).length ++ appendValue v ++ (itemsApp r ++ rest) by
      simp only [List.append_assoc]]
    rw [this]
theorem rt_map : ∀ (m : Option (List (Bytes × JVal))), WFMap m → (mapBody m).length < 2 ^ 63 →
    ∀ (depth : Nat) (rest : Bytes) (wt : WT),
      (mapBody m).length < depth →
      mapRead depth (mapBody m ++ rest) wt none = .ok (some (jnormMap m), (mapBody m).length)
  | none, _, _, depth, rest, wt, hd => by
    obtain ⟨d, rfl⟩ : ∃ d, depth = d + 1 := ⟨depth - 1, by omega⟩
    simp only [mapBody, jnormMap]
    exact mapRead_count d 0 (by omega) rest (by omega) wt none [] _ (by simp [mapLoop])
  | some kvs, hwf, hs, depth, rest, wt, hd => by
    obtain ⟨d, rfl⟩ : ∃ d, depth = d + 1 := ⟨depth - 1, by omega⟩
    simp only [mapBody, jnormMap, List.length_append] at hs hd ⊢
    simp only [WFMap] at hwf
    have hpos := append_len_pos kvs.length
    have hle := len_le_kvsApp kvs
    have hr := rt_kvs kvs hwf (by omega) d rest (appendVarUint kvs.length).length [] (by omega)
      (by simp)
    rw [List.append_assoc]
    exact mapRead_count d kvs.length (by omega) _ (by simp only [List.length_append]; omega)
      wt none _ _ (by simpa using hr)
theorem rt_kvs : ∀ (kvs : List (Bytes × JVal)), WFKvs kvs → (kvsApp kvs).length < 2 ^ 63 →
    ∀ (d : Nat) (rest : Bytes) (off : Nat) (acc : List (Bytes × JVal)),
      (kvsApp kvs).length ≤ d → (∀ p ∈ acc, ∀ q ∈ kvs, p.1 ≠ q.1) →
      mapLoop (fun b => readKV d b true [] .null) kvs.length (kvsApp kvs ++ rest) off acc
        = .ok (acc ++ jnormKvs kvs, off + (kvsApp kvs).length)
  | [], _, _, d, rest, off, acc, _, _ => by simp [mapLoop, kvsApp, jnormKvs]
  | (k, v) :: r, hwf, hs, d, rest, off, acc, hd, hacc => by
    have e : kvsApp ((k, v) :: r) = appendVarUint (strAppend k keyTag ++ appendValue v).length
        ++ (strAppend k keyTag ++ appendValue v) ++ kvsApp r := by
      simp only [kvsApp, kvSize_eq]
    rw [e] at hs hd ⊢
    have hEl : (strAppend k keyTag ++ appendValue v).length
        = (strAppend k keyTag).length + (appendValue v).length := List.length_append
    have hlen : (appendVarUint (strAppend k keyTag ++ appendValue v).length
        ++ (strAppend k keyTag ++ appendValue v) ++ kvsApp r).length
        = (appendVarUint (strAppend k keyTag ++ appendValue v).length).length
          + (strAppend k keyTag ++ appendValue v).length + (kvsApp r).length := by
      rw [List.length_append, List.length_append]
    rw [hlen] at hs hd
    simp only [WFKvs] at hwf
    have hpos2 := append_len_pos (strAppend k keyTag ++ appendValue v).length
    have h2 := appendValue_len_ge v
    have hkl := strAppend_key_len k
    obtain ⟨d', rfl⟩ : ∃ d', d = d' + 1 := ⟨d - 1, by omega⟩
    have hv := rt_value v hwf.1 (by omega) d'
      (strAppend k keyTag ++ appendValue v).length
      (0 + (keyTag.length + (appendVarUint k.length).length + k.length)) jsonTypeNil true k
      (by omega) (by omega)
    have hentry : readKV (d' + 1) (strAppend k keyTag ++ appendValue v) true [] .null
        = .ok ((k, jnorm v), (strAppend k keyTag ++ appendValue v).length) := by
      rw [readKV_succ, kvLoop_key _ _ _ k (by omega), hv, hEl, hkl, keyTag_eq]
      simp only [List.length_cons, List.length_nil]
      congr 2; omega
    have hfresh : mapSet k (jnorm v) acc = acc ++ [(k, jnorm v)] :=
      mapSet_fresh k (jnorm v) acc (fun p hp => hacc p hp (k, v) (by simp))
    have hr := rt_kvs r hwf.2.2 (by omega) (d' + 1) rest
      (off + ((appendVarUint (strAppend k keyTag ++ appendValue v).length).length
        + (strAppend k keyTag ++ appendValue v).length))
      (acc ++ [(k, jnorm v)]) (by omega)
      (by
        intro p hp q hq
        rcases List.mem_append.mp hp with hp | hp
        · exact hacc p hp q (by simp [hq])
        · simp only [List.mem_singleton] at hp
          subst hp
          exact fun h => hwf.2.1 q hq h.symm)
    have := mapLoop_step (fun b => readKV (d' + 1) b true [] .null) r.length
      (strAppend k keyTag ++ appendValue v) (kvsApp r ++ rest)
      (by omega) k (jnorm v) off acc hentry
    simp only [List.length_cons, jnormKvs]
    rw [show appendVarUint (strAppend k keyTag ++ appendValue v).length
          ++ (strAppend k keyTag ++ appendValue v) ++ kvsApp r ++ rest
        = appendVarUint (strAppend k keyTag ++ appendValue v).length
          ++ (strAppend k keyTag ++ appendValue v) ++ (kvsApp r ++ rest) by
      simp only [List.append_assoc]]
    rw [this, hfresh, hr]
    simp only [List.append_assoc, List.singleton_append, List.length_append]
    congr 2; omega
end

/-! ### the bodies have the WTSlice shape: count, then length-prefixed entries -/

/-- the entries of an array body. -/
def arrEntries (xs : Option (List JVal)) : List Bytes := (xs.getD []).map appendValue
/-- the entries of a map body: key field then value fields. -/
def mapEntries (m : Option (List (Bytes × JVal))) : List Bytes :=
  (m.getD []).map fun p => strAppend p.1 keyTag ++ appendValue p.2

theorem itemsApp_entries : ∀ xs : List JVal, itemsApp xs = entriesBytes (xs.map appendValue)
  | [] => by simp [itemsApp, entriesBytes]
  | v :: r => by
    have ih := itemsApp_entries r
    simp only [itemsApp, ih, sizeValue_eq, entriesBytes, List.map_cons, List.flatMap_cons]

theorem kvsApp_entries : ∀ kvs : List (Bytes × JVal),
    kvsApp kvs = entriesBytes (kvs.map fun p => strAppend p.1 keyTag ++ appendValue p.2)
  | [] => by simp [kvsApp, entriesBytes]
  | (k, v) :: r => by
    have ih := kvsApp_entries r
    simp only [kvsApp, ih, kvSize_eq, entriesBytes, List.map_cons, List.flatMap_cons]

theorem arrBody_shape (xs : Option (List JVal)) :
    arrBody xs = appendVarUint (arrEntries xs).length ++ entriesBytes (arrEntries xs) := by
  cases xs with
  | none => simp [arrBody, arrEntries, entriesBytes]
  | some xs => simp [arrBody, arrEntries, itemsApp_entries]

theorem mapBody_shape (m : Option (List (Bytes × JVal))) :
    mapBody m = appendVarUint (mapEntries m).length ++ entriesBytes (mapEntries m) := by
  cases m with
  | none => simp [mapBody, mapEntries, entriesBytes]
  | some kvs => simp [mapBody, mapEntries, kvsApp_entries]

theorem entries_bounds (es : List Bytes) :
    es.length ≤ (entriesBytes es).length ∧ ∀ b ∈ es, b.length ≤ (entriesBytes es).length := by
  induction es with
  | nil => simp [entriesBytes]
  | cons a r ih =>
    have e : entriesBytes (a :: r) = (appendVarUint a.length ++ a) ++ entriesBytes r := by
      simp [entriesBytes]
    have hpos := append_len_pos a.length
    rw [e]
    simp only [List.length_append, List.length_cons, List.mem_cons]
    refine ⟨by omega, ?_⟩
    intro b hb
    rcases hb with rfl | hb
    · omega
    · have := ih.2 b hb; omega

/-- `Skip` over a WTSlice payload of the count + entries shape consumes exactly it. -/
theorem skip_shape (es : List Bytes) (rest : Bytes)
    (h : (appendVarUint es.length ++ entriesBytes es).length < 2 ^ 64) :
    skip (appendVarUint es.length ++ entriesBytes es ++ rest) .slice
      = .ok (appendVarUint es.length ++ entriesBytes es).length := by
  have hb := entries_bounds es
  simp only [List.length_append] at h
  rw [skip_slice_exact es rest (by omega) (fun b hb' => by have := hb.2 b hb'; omega)]
  simp only [List.length_append]

/-! ### the descriptor walk: one-step lemmas -/

section dsteps
variable (rdN : Bool → Bytes → Res (List OCall × Nat))

theorem descKVLoop_nil (fuel off jt : Nat) (vd : Bool) :
    descKVLoop rdN (fuel + 1) [] off jt vd = .ok (if !vd then [.raw nullTok] else [], off) := by
  simp [descKVLoop]

theorem descKVLoop_type (fuel t : Nat) (ht : t < 2 ^ 64) (rest : Bytes) (off jt : Nat) (vd : Bool) :
    descKVLoop rdN (fuel + 1) (appendTag .varint 2 ++ appendVarUint t ++ rest) off jt vd
      = descKVLoop rdN fuel rest
          (off + ((appendTag .varint 2).length + (appendVarUint t).length)) t vd := by
  rw [descKVLoop, List.append_assoc, isEmpty_tag_append, tag_roundtrip _ _ (by omega)]
  simp only [Bool.false_eq_true, ↓reduceIte, Nat.reduceEqDiff]
  rw [drop_len _ _ _ rfl, readU_append _ ht]
  simp only
  rw [← List.append_assoc, drop_len _ _ _ (by simp)]

theorem descKVLoop_key (fuel : Nat) (k : Bytes) (hk : k.length < 2 ^ 64) (rest : Bytes) (off jt : Nat)
    (vd : Bool) (cs : List OCall) (o : Nat)
    (h : descKVLoop rdN fuel rest
          (off + (keyTag.length + (appendVarUint k.length).length + k.length)) jt vd = .ok (cs, o)) :
    descKVLoop rdN (fuel + 1) (strAppend k keyTag ++ rest) off jt vd = .ok (.name k :: cs, o) := by
  rw [strAppend_key, descKVLoop]
  unfold keyTag at h ⊢
  rw [List.append_assoc, List.append_assoc, isEmpty_tag_append, tag_roundtrip _ _ (by omega)]
  simp only [Bool.false_eq_true, ↓reduceIte]
  rw [drop_len _ _ _ rfl, readU_append _ hk]
  simp only
  have e1 : (appendTag WT.len 1 ++ (appendVarUint k.length ++ (k ++ rest))).drop
      ((appendTag WT.len 1).length + (appendVarUint k.length).length) = k ++ rest := by
    rw [← List.append_assoc, drop_len _ _ _ (by simp)]
  have e2 : (appendTag WT.len 1 ++ (appendVarUint k.length ++ (k ++ rest))).drop
      ((appendTag WT.len 1).length + (appendVarUint k.length).length + k.length) = rest := by
    rw [← List.append_assoc, ← List.append_assoc, drop_len _ _ _ (by simp [Nat.add_assoc])]
  rw [e1, e2]
  have : ¬ (k.length > (k ++ rest).length) := by simp
  simp only [this, ↓reduceIte, take_len k rest k.length rfl, h]

theorem descKVLoop_value (fuel : Nat) (wt : WT) (rest : Bytes) (off jt : Nat) (vd : Bool)
    (cs cs' : List OCall) (m o : Nat)
    (h1 : descValue rdN jt rest = .ok (cs, m))
    (h2 : descKVLoop rdN fuel (rest.drop m) (off + ((appendTag wt 3).length + m)) jt true = .ok (cs', o)) :
    descKVLoop rdN (fuel + 1) (appendTag wt 3 ++ rest) off jt vd = .ok (cs ++ cs', o) := by
  rw [descKVLoop, isEmpty_tag_append, tag_roundtrip _ _ (by omega)]
  simp only [Bool.false_eq_true, ↓reduceIte]
  rw [drop_len _ _ _ rfl, h1]
  simp only [Nat.reduceEqDiff, ↓reduceIte]
  have e : (appendTag wt 3 ++ rest).drop ((appendTag wt 3).length + m) = rest.drop m := by
    rw [List.drop_append]; simp
  rw [e, h2]

theorem descKVLoop_typed_value (t : Nat) (ht : t < 2 ^ 64) (wt : WT) (payload : Bytes) (cs : List OCall)
    (h : descValue rdN t payload = .ok (cs, payload.length))
    (fuel : Nat) (hf : 3 ≤ fuel) (off jt : Nat) (vd : Bool) :
    descKVLoop rdN fuel (appendTag .varint 2 ++ appendVarUint t ++ (appendTag wt 3 ++ payload)) off jt vd
      = .ok (cs, off + (appendTag .varint 2 ++ appendVarUint t ++ (appendTag wt 3 ++ payload)).length) := by
  obtain ⟨f, rfl⟩ : ∃ f, fuel = f + 3 := ⟨fuel - 3, by omega⟩
  rw [descKVLoop_type rdN (f + 2) t ht]
  have h2 := descKVLoop_nil rdN f
    (off + ((appendTag WT.varint 2).length + (appendVarUint t).length) + ((appendTag wt 3).length + payload.length))
    t true
  have := descKVLoop_value rdN (f + 1) wt payload
    (off + ((appendTag WT.varint 2).length + (appendVarUint t).length)) t vd cs _ payload.length _ h
    (by rw [List.drop_length]; exact h2)
  rw [this]
  simp only [Bool.not_true, Bool.false_eq_true, ↓reduceIte, List.append_nil, List.length_append]
  congr 2; omega

theorem descKVLoop_null (fuel : Nat) (hf : 2 ≤ fuel) (off jt : Nat) :
    descKVLoop rdN fuel (appendTag .varint 2 ++ appendVarUint jsonTypeNil) off jt false
      = .ok ([.raw nullTok], off + (appendTag .varint 2 ++ appendVarUint jsonTypeNil).length) := by
  obtain ⟨f, rfl⟩ : ∃ f, fuel = f + 2 := ⟨fuel - 2, by omega⟩
  have := descKVLoop_type rdN (f + 1) jsonTypeNil (by simp [jsonTypeNil]) [] off jt false
  rw [List.append_nil] at this
  rw [this, descKVLoop_nil]
  simp only [List.length_append, Bool.not_false, ↓reduceIte]

theorem descValue_str (s : Bytes) (hs : s.length < 2 ^ 64) (rest : Bytes) :
    descValue rdN jsonTypeString (appendVarUint s.length ++ s ++ rest)
      = .ok ([.str s], (appendVarUint s.length).length + s.length) := by
  unfold descValue
  rw [List.append_assoc, readU_append _ hs]
  simp only [↓reduceIte, drop_len _ _ _ rfl]
  have : ¬ (s.length > (s ++ rest).length) := by simp
  simp only [this, ↓reduceIte, take_len s rest s.length rfl]

theorem descValue_num (s : Bytes) (hs : s.length < 2 ^ 64) (rest : Bytes) :
    descValue rdN jsonTypeNumber (appendVarUint s.length ++ s ++ rest)
      = .ok ([.raw s], (appendVarUint s.length).length + s.length) := by
  unfold descValue
  rw [List.append_assoc, readU_append _ hs]
  simp only [jsonTypeNumber, jsonTypeString, jsonTypeInt, jsonTypeFloat, jsonTypeBool, jsonTypeArray,
    jsonTypeObject, Nat.reduceEqDiff, ↓reduceIte, drop_len _ _ _ rfl]
  have : ¬ (s.length > (s ++ rest).length) := by simp
  simp only [this, ↓reduceIte, take_len s rest s.length rfl]

theorem descValue_int (i : Int) (h1 : -(2 ^ 63 : Int) ≤ i) (h2 : i < (2 ^ 63 : Int)) (rest : Bytes) :
    descValue rdN jsonTypeInt (appendVarInt i ++ rest) = .ok ([.int64 i], (appendVarInt i).length) := by
  unfold descValue appendVarInt
  rw [read_append _ (zigZag_lt i h1 h2)]
  simp only [jsonTypeInt, jsonTypeString, Nat.reduceEqDiff, ↓reduceIte, zagZig_zigZag,
    wrapS64_id i h1 h2, Int.ofNat_eq_natCast, Int.toNat_natCast]
  have : ¬ ((((appendVarUint (zigZag i)).length : Nat) : Int) < 0) := by omega
  simp only [this, ↓reduceIte]

theorem descValue_bool (b : Bool) (rest : Bytes) :
    descValue rdN jsonTypeBool (appendVarUint (if b then 1 else 0) ++ rest)
      = .ok ([.bool b], (appendVarUint (if b then 1 else 0)).length) := by
  unfold descValue
  rw [read_append _ (by cases b <;> simp)]
  simp only [jsonTypeBool, jsonTypeInt, jsonTypeFloat, jsonTypeString, Nat.reduceEqDiff, ↓reduceIte,
    Int.ofNat_eq_natCast, Int.toNat_natCast]
  have : ¬ ((((appendVarUint (if b = true then 1 else 0)).length : Nat) : Int) < 0) := by omega
  simp only [this, ↓reduceIte]
  cases b <;> simp

theorem descValue_float (bits : Nat) (hb : bits < 2 ^ 64) (rest : Bytes) :
    descValue rdN jsonTypeFloat (leBytes 8 bits ++ rest) = .ok ([.f64 bits], 8) := by
  unfold descValue
  have hl : ¬ ((leBytes 8 bits ++ rest).length < 8) := by
    simp only [List.length_append, leBytes_length]; omega
  simp only [jsonTypeFloat, jsonTypeInt, jsonTypeString, Nat.reduceEqDiff, ↓reduceIte, hl,
    take_len _ _ 8 (leBytes_length 8 bits).symm, leVal_leBytes]
  have : bits % 256 ^ 8 = bits := Nat.mod_eq_of_lt (by simpa using hb)
  rw [this]

theorem descValue_arr (d : Bytes) : descValue rdN jsonTypeArray d = rdN false d := by
  unfold descValue
  simp only [jsonTypeArray, jsonTypeBool, jsonTypeInt, jsonTypeFloat, jsonTypeString, Nat.reduceEqDiff,
    ↓reduceIte]

theorem descValue_obj (d : Bytes) : descValue rdN jsonTypeObject d = rdN true d := by
  unfold descValue
  simp only [jsonTypeObject, jsonTypeArray, jsonTypeBool, jsonTypeInt, jsonTypeFloat, jsonTypeString,
    Nat.reduceEqDiff, ↓reduceIte]

end dsteps

theorem descLoop_step (rdKV : Bytes → Res (List OCall × Nat)) (c : Nat) (entry tail : Bytes)
    (hl : entry.length < 2 ^ 64) (hne : entry.length ≠ 0) (off : Nat) (cs cs' : List OCall) (o : Nat)
    (h1 : rdKV entry = .ok (cs, entry.length))
    (h2 : descLoop rdKV c tail (off + ((appendVarUint entry.length).length + entry.length)) = .ok (cs', o)) :
    descLoop rdKV (c + 1) (appendVarUint entry.length ++ entry ++ tail) off = .ok (cs ++ cs', o) := by
  have hpos := append_len_pos entry.length
  have hemp : (appendVarUint entry.length ++ entry ++ tail).isEmpty = false := by
    cases h : appendVarUint entry.length with
    | nil => rw [h] at hpos; simp at hpos
    | cons _ _ => rfl
  rw [descLoop, hemp, List.append_assoc, readU_append _ hl]
  simp only [Bool.false_eq_true, ↓reduceIte, drop_len _ _ _ rfl]
  have : ¬ (entry.length > (entry ++ tail).length) := by simp
  simp only [this, ↓reduceIte, hne, take_len entry tail entry.length rfl, h1]
  rw [← List.append_assoc, drop_len _ _ _ (by simp), h2]

theorem descRead_count (d count : Nat) (hc : count < 2 ^ 64) (tail : Bytes) (isObj : Bool)
    (cs : List OCall) (off : Nat)
    (h : descLoop (fun b => descKVLoop (fun o b' => descRead d o b') (b.length + 1) b 0 jsonTypeNil false)
           count tail (appendVarUint count).length = .ok (cs, off)) :
    descRead (d + 1) isObj (appendVarUint count ++ tail)
      = .ok ((if isObj then OCall.startObj else OCall.startArr) :: cs
               ++ [if isObj then OCall.endObj else OCall.endArr], off) := by
  simp only [descRead]
  rw [read_append _ hc]
  simp only [Int.ofNat_eq_natCast, Int.toNat_natCast, drop_len _ _ _ rfl]
  have h2 : ¬ (((appendVarUint count).length : Int) < 0) := by omega
  simp only [h2, ↓reduceIte, h]

/-! ### the descriptor walk over an encoding, by mutual structural induction -/

mutual
theorem ds_value : ∀ (v : JVal), WF v → (appendValue v).length < 2 ^ 63 →
    ∀ (depth fuel off jt : Nat),
      (appendValue v).length ≤ depth → 3 ≤ fuel →
      descKVLoop (fun o b' => descRead depth o b') fuel (appendValue v) off jt false
        = .ok (toCalls v, off + (appendValue v).length)
  | .null, _, _, depth, fuel, off, jt, _, hf => by
    simp only [appendValue, toCalls]
    exact descKVLoop_null _ fuel (by omega) off jt
  | .str s, _, hs, depth, fuel, off, jt, _, hf => by
    have e : appendValue (.str s) = appendTag .varint 2 ++ appendVarUint jsonTypeString
        ++ (appendTag .len 3 ++ (appendVarUint s.length ++ s)) := by
      simp only [appendValue, strAppend_val]
      simp only [valueWTLTag, List.append_assoc]
    rw [e] at hs ⊢
    simp only [List.length_append] at hs
    simp only [toCalls]
    have h := descValue_str (fun o b' => descRead depth o b') s (by omega) []
    rw [List.append_nil] at h
    exact descKVLoop_typed_value _ jsonTypeString (by simp [jsonTypeString]) .len _ _
      (by rw [h]; simp) fuel hf off jt false
  | .num s, _, hs, depth, fuel, off, jt, _, hf => by
    have e : appendValue (.num s) = appendTag .varint 2 ++ appendVarUint jsonTypeNumber
        ++ (appendTag .len 3 ++ (appendVarUint s.length ++ s)) := by
      simp only [appendValue, strAppend_val]
      simp only [valueWTLTag, List.append_assoc]
    rw [e] at hs ⊢
    simp only [List.length_append] at hs
    simp only [toCalls]
    have h := descValue_num (fun o b' => descRead depth o b') s (by omega) []
    rw [List.append_nil] at h
    exact descKVLoop_typed_value _ jsonTypeNumber (by simp [jsonTypeNumber]) .len _ _
      (by rw [h]; simp) fuel hf off jt false
  | .int i, hwf, _, depth, fuel, off, jt, _, hf => by
    have e : appendValue (.int i) = appendTag .varint 2 ++ appendVarUint jsonTypeInt
        ++ (appendTag .varint 3 ++ appendVarInt i) := by
      simp only [appendValue, valueWTVITag]
    rw [e]
    simp only [WF] at hwf
    simp only [toCalls]
    have h := descValue_int (fun o b' => descRead depth o b') i hwf.1 hwf.2 []
    rw [List.append_nil] at h
    exact descKVLoop_typed_value _ jsonTypeInt (by simp [jsonTypeInt]) .varint _ _
      h fuel hf off jt false
  | .float b, hwf, _, depth, fuel, off, jt, _, hf => by
    have e : appendValue (.float b) = appendTag .varint 2 ++ appendVarUint jsonTypeFloat
        ++ (appendTag .w64 3 ++ leBytes 8 b) := by
      simp only [appendValue, valueWT64Tag]
    rw [e]
    simp only [WF] at hwf
    simp only [toCalls]
    have h := descValue_float (fun o b' => descRead depth o b') b hwf []
    rw [List.append_nil] at h
    exact descKVLoop_typed_value _ jsonTypeFloat (by simp [jsonTypeFloat]) .w64 _ _
      (by rw [h, leBytes_length]) fuel hf off jt false
  | .bool b, _, _, depth, fuel, off, jt, _, hf => by
    have e : appendValue (.bool b) = appendTag .varint 2 ++ appendVarUint jsonTypeBool
        ++ (appendTag .varint 3 ++ appendVarUint (if b then 1 else 0)) := by
      simp only [appendValue, valueWTVITag]
    rw [e]
    simp only [toCalls]
    have h := descValue_bool (fun o b' => descRead depth o b') b []
    rw [List.append_nil] at h
    exact descKVLoop_typed_value _ jsonTypeBool (by simp [jsonTypeBool]) .varint _ _
      h fuel hf off jt false
  | .arr xs, hwf, hs, depth, fuel, off, jt, hd, hf => by
    have e : appendValue (.arr xs) = appendTag .varint 2 ++ appendVarUint jsonTypeArray
        ++ (appendTag .slice 3 ++ arrBody xs) := by
      simp only [appendValue, valueWTSliceTag]
    rw [e] at hs hd ⊢
    simp only [List.length_append] at hs hd
    simp only [WF] at hwf
    have hr := ds_arr xs hwf (by omega) depth []
      (by have := append_len_pos jsonTypeArray; omega)
    rw [List.append_nil] at hr
    simp only [toCalls]
    exact descKVLoop_typed_value _ jsonTypeArray (by simp [jsonTypeArray]) .slice _ _
      (by rw [descValue_arr]; exact hr) fuel hf off jt false
  | .obj m, hwf, hs, depth, fuel, off, jt, hd, hf => by
    have e : appendValue (.obj m) = appendTag .varint 2 ++ appendVarUint jsonTypeObject
        ++ (appendTag .slice 3 ++ mapBody m) := by
      simp only [appendValue, valueWTSliceTag]
    rw [e] at hs hd ⊢
    simp only [List.length_append] at hs hd
    simp only [WF] at hwf
    have hr := ds_map m hwf (by omega) depth []
      (by have := append_len_pos jsonTypeObject; omega)
    rw [List.append_nil] at hr
    simp only [toCalls]
    exact descKVLoop_typed_value _ jsonTypeObject (by simp [jsonTypeObject]) .slice _ _
      (by rw [descValue_obj]; exact hr) fuel hf off jt false
theorem ds_arr : ∀ (xs : Option (List JVal)), WFArr xs → (arrBody xs).length < 2 ^ 63 →
    ∀ (depth : Nat) (rest : Bytes), (arrBody xs).length < depth →
      descRead depth false (arrBody xs ++ rest)
        = .ok (.startArr :: arrCalls xs ++ [.endArr], (arrBody xs).length)
  | none, _, _, depth, rest, hd => by
    obtain ⟨d, rfl⟩ : ∃ d, depth = d + 1 := ⟨depth - 1, by omega⟩
    simp only [arrBody, arrCalls]
    have := descRead_count d 0 (by omega) rest false [] _ (by simp [descLoop]; rfl)
    simpa using this
  | some xs, hwf, hs, depth, rest, hd => by
    obtain ⟨d, rfl⟩ : ∃ d, depth = d + 1 := ⟨depth - 1, by omega⟩
    simp only [arrBody, arrCalls, List.length_append] at hs hd ⊢
    simp only [WFArr] at hwf
    have hpos := append_len_pos xs.length
    have hle := len_le_itemsApp xs
    have hr := ds_items xs hwf (by omega) d rest (appendVarUint xs.length).length (by omega)
    rw [List.append_assoc]
    have := descRead_count d xs.length (by omega) _ false _ _ hr
    simpa using this
theorem ds_items : ∀ (xs : List JVal), WFList xs → (itemsApp xs).length < 2 ^ 63 →
    ∀ (d : Nat) (rest : Bytes) (off : Nat), (itemsApp xs).length ≤ d →
      descLoop (fun b => descKVLoop (fun o b' => descRead d o b') (b.length + 1) b 0 jsonTypeNil false)
        xs.length (itemsApp xs ++ rest) off = .ok (itemsCalls xs, off + (itemsApp xs).length)
  | [], _, _, d, rest, off, _ => by simp [descLoop, itemsApp, itemsCalls]
  | v :: r, hwf, hs, d, rest, off, hd => by
    simp only [itemsApp, List.length_append, sizeValue_eq] at hs hd ⊢
    simp only [WFList] at hwf
    have hpos := append_len_pos (appendValue v).length
    have h2 := appendValue_len_ge v
    have hv := ds_value v hwf.1 (by omega) d ((appendValue v).length + 1) 0 jsonTypeNil
      (by omega) (by omega)
    have hr := ds_items r hwf.2 (by omega) d rest
      (off + ((appendVarUint (appendValue v).length).length + (appendValue v).length)) (by omega)
    have := descLoop_step
      (fun b => descKVLoop (fun o b' => descRead d o b') (b.length + 1) b 0 jsonTypeNil false)
      r.length (appendValue v) (itemsApp r ++ rest) (by omega) (by omega) off _ _ _
      (by rw [Nat.zero_add] at hv; exact hv) hr
    simp only [List.length_cons, itemsCalls]
    rw [show appendVarUint (appendValue v).length ++ appendValue v ++ itemsApp r ++ rest
        = appendVarUint (appendValue v).length ++ appendValue v ++ (itemsApp r ++ rest) by
      simp only [List.append_assoc]]
    rw [this]
    congr 2; omega
theorem ds_map : ∀ (m : Option (List (Bytes × JVal))), WFMap m → (mapBody m).length < 2 ^ 63 →
    ∀ (depth : Nat) (rest : Bytes), (mapBody m).length < depth →
      descRead depth true (mapBody m ++ rest)
        = .ok (.startObj :: mapCalls m ++ [.endObj], (mapBody m).length)
  | none, _, _, depth, rest, hd => by
    obtain ⟨d, rfl⟩ : ∃ d, depth = d + 1 := ⟨depth - 1, by omega⟩
    simp only [mapBody, mapCalls]
    have := descRead_count d 0 (by omega) rest true [] _ (by simp [descLoop]; rfl)
    simpa using this
  | some kvs, hwf, hs, depth, rest, hd => by
    obtain ⟨d, rfl⟩ : ∃ d, depth = d + 1 := ⟨depth - 1, by omega⟩
    simp only [mapBody, mapCalls, List.length_append] at hs hd ⊢
    simp only [WFMap] at hwf
    have hpos := append_len_pos kvs.length
    have hle := len_le_kvsApp kvs
    have hr := ds_kvs kvs hwf (by omega) d rest (appendVarUint kvs.length).length (by omega)
    rw [List.append_assoc]
    have := descRead_count d kvs.length (by omega) _ true _ _ hr
    simpa using this
theorem ds_kvs : ∀ (kvs : List (Bytes × JVal)), WFKvs kvs → (kvsApp kvs).length < 2 ^ 63 →
    ∀ (d : Nat) (rest : Bytes) (off : Nat), (kvsApp kvs).length ≤ d →
      descLoop (fun b => descKVLoop (fun o b' => descRead d o b') (b.length + 1) b 0 jsonTypeNil false)
        kvs.length (kvsApp kvs ++ rest) off = .ok (kvsCalls kvs, off + (kvsApp kvs).length)
  | [], _, _, d, rest, off, _ => by simp [descLoop, kvsApp, kvsCalls]
  | (k, v) :: r, hwf, hs, d, rest, off, hd => by
    have e : kvsApp ((k, v) :: r) = appendVarUint (strAppend k keyTag ++ appendValue v).length
        ++ (strAppend k keyTag ++ appendValue v) ++ kvsApp r := by
      simp only [kvsApp, kvSize_eq]
    rw [e] at hs hd ⊢
    have hEl : (strAppend k keyTag ++ appendValue v).length
        = (strAppend k keyTag).length + (appendValue v).length := List.length_append
    have hlen : (appendVarUint (strAppend k keyTag ++ appendValue v).length
        ++ (strAppend k keyTag ++ appendValue v) ++ kvsApp r).length
        = (appendVarUint (strAppend k keyTag ++ appendValue v).length).length
          + (strAppend k keyTag ++ appendValue v).length + (kvsApp r).length := by
      rw [List.length_append, List.length_append]
    rw [hlen] at hs hd
    simp only [WFKvs] at hwf
    have hpos2 := append_len_pos (strAppend k keyTag ++ appendValue v).length
    have h2 := appendValue_len_ge v
    have hkl := strAppend_key_len k
    have hv := ds_value v hwf.1 (by omega) d
      (strAppend k keyTag ++ appendValue v).length
      (0 + (keyTag.length + (appendVarUint k.length).length + k.length)) jsonTypeNil
      (by omega) (by omega)
    have hentry : descKVLoop (fun o b' => descRead d o b')
        ((strAppend k keyTag ++ appendValue v).length + 1) (strAppend k keyTag ++ appendValue v)
        0 jsonTypeNil false
        = .ok (.name k :: toCalls v, (strAppend k keyTag ++ appendValue v).length) := by
      refine descKVLoop_key _ _ k (by omega) _ _ _ _ _ _ ?_
      rw [hv, hEl, hkl, keyTag_eq]
      simp only [List.length_cons, List.length_nil]
      congr 2; omega
    have hr := ds_kvs r hwf.2.2 (by omega) d rest
      (off + ((appendVarUint (strAppend k keyTag ++ appendValue v).length).length
        + (strAppend k keyTag ++ appendValue v).length)) (by omega)
    have := descLoop_step
      (fun b => descKVLoop (fun o b' => descRead d o b') (b.length + 1) b 0 jsonTypeNil false)
      r.length (strAppend k keyTag ++ appendValue v) (kvsApp r ++ rest) (by omega) (by omega) off _ _ _
      hentry hr
    simp only [List.length_cons, kvsCalls]
    rw [show appendVarUint (strAppend k keyTag ++ appendValue v).length
          ++ (strAppend k keyTag ++ appendValue v) ++ kvsApp r ++ rest
        = appendVarUint (strAppend k keyTag ++ appendValue v).length
          ++ (strAppend k keyTag ++ appendValue v) ++ (kvsApp r ++ rest) by
      simp only [List.append_assoc]]
    rw [this, hlen]
    congr 2; omega
end

/-! ### totality on arbitrary bytes -/

/-- a value or an error, and never more consumed than `L`. -/
def Bd {α : Type} (r : Res (α × Nat)) (L : Nat) : Prop :=
  r.fine ∧ ∀ a n, r = .ok (a, n) → n ≤ L

theorem Bd_err {α : Type} (L : Nat) : Bd (Res.err : Res (α × Nat)) L :=
  ⟨by simp [Res.fine], by intro a n h; cases h⟩

theorem Bd_ok {α : Type} (a : α) (n L : Nat) (h : n ≤ L) : Bd (Res.ok (a, n)) L :=
  ⟨by simp [Res.fine], by intro a' n' h'; injection h' with h'; injection h' with _ h'; omega⟩

theorem Bd_mono {α : Type} {r : Res (α × Nat)} {L L' : Nat} (h : Bd r L) (hl : L ≤ L') : Bd r L' :=
  ⟨h.1, fun a n e => by have := h.2 a n e; omega⟩

theorem readTag_bounds (d : Bytes) (wt : WT) (idx n : Nat) (h : readTag d = some (wt, idx, n)) :
    0 < n ∧ n ≤ d.length := by
  unfold readTag at h
  cases hr : readU d with
  | none => rw [hr] at h; simp at h
  | some p =>
    obtain ⟨v, m⟩ := p
    rw [hr] at h
    simp only [Option.some.injEq, Prod.mk.injEq] at h
    have := readU_le d v m hr
    omega

theorem readVarUint_toNat_le (d : Bytes) : (readVarUint d).2.toNat ≤ d.length := by
  have := readVarUint_le d
  simp only [Int.ofNat_eq_natCast] at this
  omega

theorem readValue_total (rdArr : WT → Bytes → Res (Option (List JVal) × Nat))
    (rdMap : WT → Bytes → Res (Option (List (Bytes × JVal)) × Nat)) (jt : Nat) (wt : WT) (d : Bytes)
    (hA : Bd (rdArr wt d) d.length) (hM : Bd (rdMap wt d) d.length) :
    Bd (readValue rdArr rdMap jt wt d) d.length := by
  have hstr : ∀ (f : Bytes → JVal),
      Bd (match readU d with
          | none => (Res.err : Res (JVal × Nat))
          | some (l, n) => if l > (d.drop n).length then .err else .ok (f ((d.drop n).take l), n + l))
        d.length := by
    intro f
    cases hr : readU d with
    | none => exact Bd_err _
    | some p =>
      obtain ⟨l, n⟩ := p
      have ⟨_, hnl⟩ := readU_le _ _ _ hr
      simp only
      by_cases hl : l > (d.drop n).length
      · simp only [hl, ↓reduceIte]; exact Bd_err _
      · simp only [hl, ↓reduceIte]
        simp only [List.length_drop] at hl
        exact Bd_ok _ _ _ (by omega)
  have hvar : ∀ (f : Nat → JVal),
      Bd (if (readVarUint d).2 < 0 then (Res.err : Res (JVal × Nat))
          else .ok (f (readVarUint d).1, (readVarUint d).2.toNat)) d.length := by
    intro f
    by_cases h : (readVarUint d).2 < 0
    · simp only [h, ↓reduceIte]; exact Bd_err _
    · simp only [h, ↓reduceIte]; exact Bd_ok _ _ _ (readVarUint_toNat_le d)
  unfold readValue
  by_cases h1 : jt = jsonTypeString
  · simp only [h1, ↓reduceIte]; exact hstr JVal.str
  simp only [h1, ↓reduceIte]
  by_cases h2 : jt = jsonTypeInt
  · simp only [h2, ↓reduceIte]; exact hvar (fun u => .int (wrapS 64 (zagZig u)))
  simp only [h2, ↓reduceIte]
  by_cases h3 : jt = jsonTypeFloat
  · simp only [h3, ↓reduceIte]
    by_cases hl : d.length < 8
    · simp only [hl, ↓reduceIte]
      by_cases he : d.isEmpty
      · simp only [he, ↓reduceIte]; exact Bd_ok _ _ _ (by omega)
      · simp only [he]; exact Bd_err _
    · simp only [hl, ↓reduceIte]; exact Bd_ok _ _ _ (by omega)
  simp only [h3, ↓reduceIte]
  by_cases h4 : jt = jsonTypeBool
  · simp only [h4, ↓reduceIte]; exact hvar (fun u => .bool (u != 0))
  simp only [h4, ↓reduceIte]
  by_cases h5 : jt = jsonTypeArray
  · simp only [h5, ↓reduceIte]
    cases hr : rdArr wt d with
    | ok p => obtain ⟨xs, n⟩ := p; simp only; exact Bd_ok _ _ _ (hA.2 xs n hr)
    | err => exact Bd_err _
    | panic => rw [hr] at hA; exact absurd hA.1 (by simp [Res.fine])
    | hang => rw [hr] at hA; exact absurd hA.1 (by simp [Res.fine])
  simp only [h5, ↓reduceIte]
  by_cases h6 : jt = jsonTypeObject
  · simp only [h6, ↓reduceIte]
    cases hr : rdMap wt d with
    | ok p => obtain ⟨xs, n⟩ := p; simp only; exact Bd_ok _ _ _ (hM.2 xs n hr)
    | err => exact Bd_err _
    | panic => rw [hr] at hM; exact absurd hM.1 (by simp [Res.fine])
    | hang => rw [hr] at hM; exact absurd hM.1 (by simp [Res.fine])
  simp only [h6, ↓reduceIte]
  by_cases h7 : jt = jsonTypeNumber
  · simp only [h7, ↓reduceIte]; exact hstr JVal.num
  simp only [h7, ↓reduceIte]; exact Bd_err _

theorem kvLoop_total (rdArr : WT → Bytes → Res (Option (List JVal) × Nat))
    (rdMap : WT → Bytes → Res (Option (List (Bytes × JVal)) × Nat)) (L : Nat)
    (hA : ∀ wt b, b.length < L → Bd (rdArr wt b) b.length)
    (hM : ∀ wt b, b.length < L → Bd (rdMap wt b) b.length) :
    ∀ (fuel : Nat) (data : Bytes) (off jt : Nat) (hk : Bool) (key : Bytes) (val : JVal),
      data.length < fuel → data.length ≤ L →
      Bd (kvLoop rdArr rdMap fuel data off jt hk key val) (off + data.length) := by
  intro fuel
  induction fuel with
  | zero => intro data _ _ _ _ _ h; omega
  | succ f ih =>
    intro data off jt hk key val hf hL
    rw [kvLoop]
    by_cases he : data.isEmpty
    · simp only [he, ↓reduceIte]; exact Bd_ok _ _ _ (by omega)
    simp only [he, Bool.false_eq_true, ↓reduceIte]
    cases hr : readTag data with
    | none => exact Bd_err _
    | some p =>
      obtain ⟨wt, idx, n⟩ := p
      have ⟨hn0, hnl⟩ := readTag_bounds _ _ _ _ hr
      simp only
      by_cases h1 : idx = 1
      · simp only [h1, ↓reduceIte]
        cases hr2 : readU (data.drop n) with
        | none => exact Bd_err _
        | some q =>
          obtain ⟨l, m⟩ := q
          have ⟨_, hml⟩ := readU_le _ _ _ hr2
          simp only [List.length_drop] at hml
          simp only
          by_cases hl : l > (data.drop (n + m)).length
          · simp only [hl, ↓reduceIte]; exact Bd_err _
          · simp only [hl, ↓reduceIte]
            simp only [List.length_drop] at hl
            have hd : (data.drop (n + m + l)).length = data.length - (n + m + l) := List.length_drop
            cases hk with
            | false =>
              simp only [Bool.not_false, ↓reduceIte]
              exact Bd_mono (ih _ _ _ _ _ _ (by omega) (by omega)) (by omega)
            | true =>
              simp only [Bool.not_true, Bool.false_eq_true, ↓reduceIte]
              exact Bd_mono (ih _ _ _ _ _ _ (by omega) (by omega)) (by omega)
      simp only [h1, ↓reduceIte]
      by_cases h2 : idx = 2
      · simp only [h2, ↓reduceIte]
        cases hr2 : readU (data.drop n) with
        | none => exact Bd_err _
        | some q =>
          obtain ⟨v, m⟩ := q
          have ⟨_, hml⟩ := readU_le _ _ _ hr2
          simp only [List.length_drop] at hml
          have hd : (data.drop (n + m)).length = data.length - (n + m) := List.length_drop
          simp only
          exact Bd_mono (ih _ _ _ _ _ _ (by omega) (by omega)) (by omega)
      simp only [h2, ↓reduceIte]
      by_cases h3 : idx = 3
      · simp only [h3, ↓reduceIte]
        have hdl : (data.drop n).length = data.length - n := List.length_drop
        have hv := readValue_total rdArr rdMap jt wt (data.drop n)
          (hA wt _ (by omega)) (hM wt _ (by omega))
        cases hr3 : readValue rdArr rdMap jt wt (data.drop n) with
        | ok q =>
          obtain ⟨v, m⟩ := q
          have hm := hv.2 v m hr3
          have hd : (data.drop (n + m)).length = data.length - (n + m) := List.length_drop
          simp only
          exact Bd_mono (ih _ _ _ _ _ _ (by omega) (by omega)) (by omega)
        | err => exact Bd_err _
        | panic => rw [hr3] at hv; exact absurd hv.1 (by simp [Res.fine])
        | hang => rw [hr3] at hv; exact absurd hv.1 (by simp [Res.fine])
      simp only [h3, ↓reduceIte]; exact Bd_err _

theorem arrLoop_total (rdKV : Bytes → Res ((Bytes × JVal) × Nat)) :
    ∀ (count : Nat) (data : Bytes),
      (∀ b, b.length < data.length → Bd (rdKV b) b.length) →
      Bd (arrLoop rdKV count data) data.length := by
  intro count
  induction count with
  | zero => intro data _; rw [arrLoop]; exact Bd_ok _ _ _ (by omega)
  | succ c ih =>
    intro data hK
    rw [arrLoop]
    cases hr : readU data with
    | none => exact Bd_err _
    | some p =>
      obtain ⟨l, n⟩ := p
      have ⟨hn0, hnl⟩ := readU_le _ _ _ hr
      simp only
      by_cases hl : l > (data.drop n).length
      · simp only [hl, ↓reduceIte]; exact Bd_err _
      simp only [hl, ↓reduceIte]
      simp only [List.length_drop] at hl
      have hel : ((data.drop n).take l).length = l := by
        rw [List.length_take, List.length_drop]; omega
      have hb := hK ((data.drop n).take l) (by omega)
      cases hr2 : rdKV ((data.drop n).take l) with
      | ok q =>
        obtain ⟨⟨k, v⟩, m⟩ := q
        have hm := hb.2 _ _ hr2
        have hd : (data.drop (n + m)).length = data.length - (n + m) := List.length_drop
        simp only
        have hrec := ih (data.drop (n + m)) (fun b hb' => hK b (by omega))
        cases hr3 : arrLoop rdKV c (data.drop (n + m)) with
        | ok q2 =>
          obtain ⟨vs, j⟩ := q2
          have := hrec.2 _ _ hr3
          simp only
          exact Bd_ok _ _ _ (by omega)
        | err => exact Bd_err _
        | panic => rw [hr3] at hrec; exact absurd hrec.1 (by simp [Res.fine])
        | hang => rw [hr3] at hrec; exact absurd hrec.1 (by simp [Res.fine])
      | err => exact Bd_err _
      | panic => rw [hr2] at hb; exact absurd hb.1 (by simp [Res.fine])
      | hang => rw [hr2] at hb; exact absurd hb.1 (by simp [Res.fine])

theorem mapLoop_total (rdKV : Bytes → Res ((Bytes × JVal) × Nat)) :
    ∀ (count : Nat) (data : Bytes) (off : Nat) (m : List (Bytes × JVal)),
      (∀ b, b.length < data.length → Bd (rdKV b) b.length) →
      Bd (mapLoop rdKV count data off m) (off + data.length) := by
  intro count
  induction count with
  | zero => intro data off m _; rw [mapLoop]; exact Bd_ok _ _ _ (by omega)
  | succ c ih =>
    intro data off acc hK
    rw [mapLoop]
    cases hr : readU data with
    | none => exact Bd_err _
    | some p =>
      obtain ⟨l, n⟩ := p
      have ⟨hn0, hnl⟩ := readU_le _ _ _ hr
      simp only
      by_cases hl : l > (data.drop n).length
      · simp only [hl, ↓reduceIte]; exact Bd_err _
      simp only [hl, ↓reduceIte]
      simp only [List.length_drop] at hl
      have hel : ((data.drop n).take l).length = l := by
        rw [List.length_take, List.length_drop]; omega
      have hb := hK ((data.drop n).take l) (by omega)
      cases hr2 : rdKV ((data.drop n).take l) with
      | ok q =>
        obtain ⟨⟨k, v⟩, j⟩ := q
        have hm := hb.2 _ _ hr2
        have hd : (data.drop (n + j)).length = data.length - (n + j) := List.length_drop
        simp only
        exact Bd_mono (ih (data.drop (n + j)) _ _ (fun b hb' => hK b (by omega))) (by omega)
      | err => exact Bd_err _
      | panic => rw [hr2] at hb; exact absurd hb.1 (by simp [Res.fine])
      | hang => rw [hr2] at hb; exact absurd hb.1 (by simp [Res.fine])

/-- the three readers, on arbitrary bytes, with any prior targets: a value or an
error, never more consumed than there is — provided the depth budget exceeds
the input length (the entry points use `data.length + 1`). -/
theorem readers_total : ∀ (depth : Nat) (data : Bytes), data.length < depth →
    (∀ hk key val, Bd (readKV depth data hk key val) data.length) ∧
    (∀ wt prior, Bd (arrRead depth data wt prior) data.length) ∧
    (∀ wt prior, Bd (mapRead depth data wt prior) data.length) := by
  intro depth
  induction depth with
  | zero => intro data h; omega
  | succ d ih =>
    intro data hd
    refine ⟨?_, ?_, ?_⟩
    · intro hk key val
      rw [readKV_succ]
      have := kvLoop_total (fun wt b => arrRead d b wt none) (fun wt b => mapRead d b wt none)
        data.length
        (fun wt b hb => (ih b (by omega)).2.1 wt none)
        (fun wt b hb => (ih b (by omega)).2.2 wt none)
        (data.length + 1) data 0 jsonTypeNil hk key val (by omega) (by omega)
      exact Bd_mono this (by omega)
    · intro wt prior
      simp only [arrRead]
      by_cases h0 : (readVarUint data).2 = 0
      · simp only [h0, ↓reduceIte]; exact Bd_ok _ _ _ (by omega)
      simp only [h0, ↓reduceIte]
      by_cases h1 : (readVarUint data).2 < 0
      · simp only [h1, ↓reduceIte]; exact Bd_err _
      simp only [h1, ↓reduceIte]
      have hn := readVarUint_toNat_le data
      have hnpos : 0 < (readVarUint data).2.toNat := by omega
      by_cases h2 : (readVarUint data).1 > data.length - (readVarUint data).2.toNat
      · simp only [h2, ↓reduceIte]; exact Bd_err _
      simp only [h2, ↓reduceIte]
      have hdl : (data.drop (readVarUint data).2.toNat).length
          = data.length - (readVarUint data).2.toNat := List.length_drop
      have hl := arrLoop_total (fun b => readKV d b false [] .null) (readVarUint data).1
        (data.drop (readVarUint data).2.toNat) (fun b hb => (ih b (by omega)).1 false [] .null)
      cases hr : arrLoop (fun b => readKV d b false [] .null) (readVarUint data).1
          (data.drop (readVarUint data).2.toNat) with
      | ok q =>
        obtain ⟨xs, k⟩ := q
        have := hl.2 _ _ hr
        simp only
        exact Bd_ok _ _ _ (by omega)
      | err => exact Bd_err _
      | panic => rw [hr] at hl; exact absurd hl.1 (by simp [Res.fine])
      | hang => rw [hr] at hl; exact absurd hl.1 (by simp [Res.fine])
    · intro wt prior
      simp only [mapRead]
      by_cases h0 : (readVarUint data).2 = 0
      · simp only [h0, ↓reduceIte]; exact Bd_ok _ _ _ (by omega)
      simp only [h0, ↓reduceIte]
      by_cases h1 : (readVarUint data).2 < 0
      · simp only [h1, ↓reduceIte]; exact Bd_err _
      simp only [h1, ↓reduceIte]
      have hn := readVarUint_toNat_le data
      have hnpos : 0 < (readVarUint data).2.toNat := by omega
      by_cases h2 : (readVarUint data).1 > data.length - (readVarUint data).2.toNat
      · simp only [h2, ↓reduceIte]; exact Bd_err _
      simp only [h2, ↓reduceIte]
      have hdl : (data.drop (readVarUint data).2.toNat).length
          = data.length - (readVarUint data).2.toNat := List.length_drop
      have hl := mapLoop_total (fun b => readKV d b true [] .null) (readVarUint data).1
        (data.drop (readVarUint data).2.toNat) (readVarUint data).2.toNat (prior.getD [])
        (fun b hb => (ih b (by omega)).1 true [] .null)
      cases hr : mapLoop (fun b => readKV d b true [] .null) (readVarUint data).1
          (data.drop (readVarUint data).2.toNat) (readVarUint data).2.toNat (prior.getD []) with
      | ok q =>
        obtain ⟨xs, k⟩ := q
        have := hl.2 _ _ hr
        simp only
        exact Bd_ok _ _ _ (by omega)
      | err => exact Bd_err _
      | panic => rw [hr] at hl; exact absurd hl.1 (by simp [Res.fine])
      | hang => rw [hr] at hl; exact absurd hl.1 (by simp [Res.fine])

theorem descValue_total (rdN : Bool → Bytes → Res (List OCall × Nat)) (jt : Nat) (d : Bytes)
    (hN : ∀ o, Bd (rdN o d) d.length) : Bd (descValue rdN jt d) d.length := by
  have hstr : ∀ (f : Bytes → List OCall),
      Bd (match readU d with
          | none => (Res.err : Res (List OCall × Nat))
          | some (l, n) => if l > (d.drop n).length then .err else .ok (f ((d.drop n).take l), n + l))
        d.length := by
    intro f
    cases hr : readU d with
    | none => exact Bd_err _
    | some p =>
      obtain ⟨l, n⟩ := p
      have ⟨_, hnl⟩ := readU_le _ _ _ hr
      simp only
      by_cases hl : l > (d.drop n).length
      · simp only [hl, ↓reduceIte]; exact Bd_err _
      · simp only [hl, ↓reduceIte]
        simp only [List.length_drop] at hl
        exact Bd_ok _ _ _ (by omega)
  have hvar : ∀ (f : Nat → List OCall),
      Bd (if (readVarUint d).2 < 0 then (Res.err : Res (List OCall × Nat))
          else .ok (f (readVarUint d).1, (readVarUint d).2.toNat)) d.length := by
    intro f
    by_cases h : (readVarUint d).2 < 0
    · simp only [h, ↓reduceIte]; exact Bd_err _
    · simp only [h, ↓reduceIte]; exact Bd_ok _ _ _ (readVarUint_toNat_le d)
  unfold descValue
  by_cases h1 : jt = jsonTypeString
  · simp only [h1, ↓reduceIte]; exact hstr (fun b => [.str b])
  simp only [h1, ↓reduceIte]
  by_cases h2 : jt = jsonTypeInt
  · simp only [h2, ↓reduceIte]; exact hvar (fun u => [.int64 (wrapS 64 (zagZig u))])
  simp only [h2, ↓reduceIte]
  by_cases h3 : jt = jsonTypeFloat
  · simp only [h3, ↓reduceIte]
    by_cases hl : d.length < 8
    · simp only [hl, ↓reduceIte]
      by_cases he : d.isEmpty
      · simp only [he, ↓reduceIte]; exact Bd_ok _ _ _ (by omega)
      · simp only [he]; exact Bd_err _
    · simp only [hl, ↓reduceIte]; exact Bd_ok _ _ _ (by omega)
  simp only [h3, ↓reduceIte]
  by_cases h4 : jt = jsonTypeBool
  · simp only [h4, ↓reduceIte]; exact hvar (fun u => [.bool (u != 0)])
  simp only [h4, ↓reduceIte]
  by_cases h5 : jt = jsonTypeArray
  · simp only [h5, ↓reduceIte]; exact hN false
  simp only [h5, ↓reduceIte]
  by_cases h6 : jt = jsonTypeObject
  · simp only [h6, ↓reduceIte]; exact hN true
  simp only [h6, ↓reduceIte]
  by_cases h7 : jt = jsonTypeNumber
  · simp only [h7, ↓reduceIte]; exact hstr (fun b => [.raw b])
  simp only [h7, ↓reduceIte]; exact Bd_err _

theorem descKVLoop_total (rdN : Bool → Bytes → Res (List OCall × Nat)) (L : Nat)
    (hN : ∀ o b, b.length < L → Bd (rdN o b) b.length) :
    ∀ (fuel : Nat) (data : Bytes) (off jt : Nat) (vd : Bool),
      data.length < fuel → data.length ≤ L →
      Bd (descKVLoop rdN fuel data off jt vd) (off + data.length) := by
  intro fuel
  induction fuel with
  | zero => intro data _ _ _ h; omega
  | succ f ih =>
    intro data off jt vd hf hL
    rw [descKVLoop]
    by_cases he : data.isEmpty
    · simp only [he, ↓reduceIte]; exact Bd_ok _ _ _ (by omega)
    simp only [he, Bool.false_eq_true, ↓reduceIte]
    cases hr : readTag data with
    | none => exact Bd_err _
    | some p =>
      obtain ⟨wt, idx, n⟩ := p
      have ⟨hn0, hnl⟩ := readTag_bounds _ _ _ _ hr
      simp only
      by_cases h1 : idx = 1
      · simp only [h1, ↓reduceIte]
        cases hr2 : readU (data.drop n) with
        | none => exact Bd_err _
        | some q =>
          obtain ⟨l, m⟩ := q
          have ⟨_, hml⟩ := readU_le _ _ _ hr2
          simp only [List.length_drop] at hml
          simp only
          by_cases hl : l > (data.drop (n + m)).length
          · simp only [hl, ↓reduceIte]; exact Bd_err _
          · simp only [hl, ↓reduceIte]
            simp only [List.length_drop] at hl
            have hd : (data.drop (n + m + l)).length = data.length - (n + m + l) := List.length_drop
            have hrec := ih (data.drop (n + m + l)) (off + (n + m + l)) jt vd (by omega) (by omega)
            cases hr3 : descKVLoop rdN f (data.drop (n + m + l)) (off + (n + m + l)) jt vd with
            | ok q2 =>
              obtain ⟨cs, o⟩ := q2
              have := hrec.2 _ _ hr3
              simp only
              exact Bd_ok _ _ _ (by omega)
            | err => exact Bd_err _
            | panic => rw [hr3] at hrec; exact absurd hrec.1 (by simp [Res.fine])
            | hang => rw [hr3] at hrec; exact absurd hrec.1 (by simp [Res.fine])
      simp only [h1, ↓reduceIte]
      by_cases h2 : idx = 2
      · simp only [h2, ↓reduceIte]
        cases hr2 : readU (data.drop n) with
        | none => exact Bd_err _
        | some q =>
          obtain ⟨v, m⟩ := q
          have ⟨_, hml⟩ := readU_le _ _ _ hr2
          simp only [List.length_drop] at hml
          have hd : (data.drop (n + m)).length = data.length - (n + m) := List.length_drop
          simp only
          exact Bd_mono (ih _ _ _ _ (by omega) (by omega)) (by omega)
      simp only [h2, ↓reduceIte]
      by_cases h3 : idx = 3
      · simp only [h3, ↓reduceIte]
        have hdl : (data.drop n).length = data.length - n := List.length_drop
        have hv := descValue_total rdN jt (data.drop n) (fun o => hN o _ (by omega))
        cases hr3 : descValue rdN jt (data.drop n) with
        | ok q =>
          obtain ⟨cs, m⟩ := q
          have hm := hv.2 cs m hr3
          have hd : (data.drop (n + m)).length = data.length - (n + m) := List.length_drop
          simp only
          have hrec := ih (data.drop (n + m)) (off + (n + m)) jt true (by omega) (by omega)
          cases hr4 : descKVLoop rdN f (data.drop (n + m)) (off + (n + m)) jt true with
          | ok q2 =>
            obtain ⟨cs', o⟩ := q2
            have := hrec.2 _ _ hr4
            simp only
            exact Bd_ok _ _ _ (by omega)
          | err => exact Bd_err _
          | panic => rw [hr4] at hrec; exact absurd hrec.1 (by simp [Res.fine])
          | hang => rw [hr4] at hrec; exact absurd hrec.1 (by simp [Res.fine])
        | err => exact Bd_err _
        | panic => rw [hr3] at hv; exact absurd hv.1 (by simp [Res.fine])
        | hang => rw [hr3] at hv; exact absurd hv.1 (by simp [Res.fine])
      simp only [h3, ↓reduceIte]; exact Bd_err _

theorem descLoop_total (rdKV : Bytes → Res (List OCall × Nat)) :
    ∀ (count : Nat) (data : Bytes) (off : Nat),
      (∀ b, b.length < data.length → Bd (rdKV b) b.length) →
      Bd (descLoop rdKV count data off) (off + data.length) := by
  intro count
  induction count with
  | zero => intro data off _; rw [descLoop]; exact Bd_ok _ _ _ (by omega)
  | succ c ih =>
    intro data off hK
    rw [descLoop]
    by_cases he : data.isEmpty
    · simp only [he, ↓reduceIte]; exact Bd_err _
    simp only [he, Bool.false_eq_true, ↓reduceIte]
    cases hr : readU data with
    | none => exact Bd_err _
    | some p =>
      obtain ⟨l, n⟩ := p
      have ⟨hn0, hnl⟩ := readU_le _ _ _ hr
      simp only
      by_cases hl : l > (data.drop n).length
      · simp only [hl, ↓reduceIte]; exact Bd_err _
      simp only [hl, ↓reduceIte]
      simp only [List.length_drop] at hl
      by_cases hz : l = 0
      · simp only [hz, ↓reduceIte]
        have hd : (data.drop n).length = data.length - n := List.length_drop
        exact Bd_mono (ih (data.drop n) _ (fun b hb' => hK b (by omega))) (by omega)
      simp only [hz, ↓reduceIte]
      have hel : ((data.drop n).take l).length = l := by
        rw [List.length_take, List.length_drop]; omega
      have hb := hK ((data.drop n).take l) (by omega)
      cases hr2 : rdKV ((data.drop n).take l) with
      | ok q =>
        obtain ⟨cs, m⟩ := q
        have hm := hb.2 _ _ hr2
        have hd : (data.drop (n + m)).length = data.length - (n + m) := List.length_drop
        simp only
        have hrec := ih (data.drop (n + m)) (off + (n + m)) (fun b hb' => hK b (by omega))
        cases hr3 : descLoop rdKV c (data.drop (n + m)) (off + (n + m)) with
        | ok q2 =>
          obtain ⟨cs', o⟩ := q2
          have := hrec.2 _ _ hr3
          simp only
          exact Bd_ok _ _ _ (by omega)
        | err => exact Bd_err _
        | panic => rw [hr3] at hrec; exact absurd hrec.1 (by simp [Res.fine])
        | hang => rw [hr3] at hrec; exact absurd hrec.1 (by simp [Res.fine])
      | err => exact Bd_err _
      | panic => rw [hr2] at hb; exact absurd hb.1 (by simp [Res.fine])
      | hang => rw [hr2] at hb; exact absurd hb.1 (by simp [Res.fine])

/-- the descriptor walk on arbitrary bytes: calls or an error, never more
consumed than there is. -/
theorem descRead_total : ∀ (depth : Nat) (data : Bytes) (isObj : Bool), data.length < depth →
    Bd (descRead depth isObj data) data.length := by
  intro depth
  induction depth with
  | zero => intro data _ h; omega
  | succ d ih =>
    intro data isObj hd
    simp only [descRead]
    by_cases h1 : (readVarUint data).2 < 0
    · simp only [h1, ↓reduceIte]; exact Bd_err _
    simp only [h1, ↓reduceIte]
    have hn := readVarUint_toNat_le data
    have hdl : (data.drop (readVarUint data).2.toNat).length
        = data.length - (readVarUint data).2.toNat := List.length_drop
    have hl := descLoop_total
      (fun b => descKVLoop (fun o b' => descRead d o b') (b.length + 1) b 0 jsonTypeNil false)
      (readVarUint data).1 (data.drop (readVarUint data).2.toNat) (readVarUint data).2.toNat
      (fun b hb => by
        have := descKVLoop_total (fun o b' => descRead d o b') b.length
          (fun o b' hb' => ih b' o (by omega)) (b.length + 1) b 0 jsonTypeNil false (by omega) (by omega)
        exact Bd_mono this (by omega))
    cases hr : descLoop
        (fun b => descKVLoop (fun o b' => descRead d o b') (b.length + 1) b 0 jsonTypeNil false)
        (readVarUint data).1 (data.drop (readVarUint data).2.toNat) (readVarUint data).2.toNat with
    | ok q =>
      obtain ⟨cs, off⟩ := q
      have := hl.2 _ _ hr
      simp only
      exact Bd_ok _ _ _ (by omega)
    | err => exact Bd_err _
    | panic => rw [hr] at hl; exact absurd hl.1 (by simp [Res.fine])
    | hang => rw [hr] at hl; exact absurd hl.1 (by simp [Res.fine])

end JSONAny
