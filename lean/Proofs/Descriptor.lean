import Plenc.Descriptor
import Proofs.RoundTrip
import Proofs.Total
/-
  Proofs.Descriptor — helper lemmas about the descriptor walker
  (Plenc/Descriptor.lean) for C13 / C14: unfolding of `descRead` per field type,
  irrelevance of index / name / type name / presence flag for the walk, the
  loop combinators on well-formed input (one step, fuel irrelevance, whole
  lists), the WTLength framing, the field lookup of `readAsStruct`, the four
  cases of a string-keyed map entry, the leaf reads, and the classification of
  descriptor field types by wire type.

  The lemmas are generic in the calls an element produces, so that the
  specification function (`C13.toCalls`) can live with the property.

  Last section: totality. `descRead_fine`: for every descriptor whose slice
  nodes have an element (`Desc.ok`, which holds of every `descriptor t`:
  `descriptor_ok`) and every byte string the walk is `ok` or `err`, never
  `panic`, never `hang` — by mutual structural recursion over the nested
  `Desc` / `List Desc`, with bounded-input versions of the loop lemmas for the
  data-recursive JSON object / array walk (`jsonWalk_fine`).
-/
namespace DW
open RT

/-! ### unfolding `descRead` -/

/-- the walk looks only at type, elements and logical type. -/
theorem descRead_irrel (i i' : Nat) (nm nm' : String) (ty : FieldType) (tn tn' : String)
    (els : List Desc) (ep ep' : Bool) (lt : LogicalType) (data : Bytes) :
    descRead ⟨i, nm, ty, tn, els, ep, lt⟩ data = descRead ⟨i', nm', ty, tn', els, ep', lt⟩ data := by
  rw [descRead.eq_def, descRead.eq_def]

theorem descRead_field (d : Desc) (i : Nat) (nm : String) (data : Bytes) :
    descRead { d with index := i, name := nm } data = descRead d data := by
  cases d; exact descRead_irrel ..

theorem descRead_presence (d : Desc) (b : Bool) (data : Bytes) :
    descRead { d with explicitPresence := b } data = descRead d data := by
  cases d; exact descRead_irrel ..

theorem descRead_int (d : Desc) (h : d.type = .int) (data : Bytes) :
    descRead d data = leafRead (.int 64) .varint data := by
  obtain ⟨i, nm, ty, tn, els, ep, lt⟩ := d
  simp only at h; subst h
  rw [descRead.eq_def]

theorem descRead_uint (d : Desc) (h : d.type = .uint) (data : Bytes) :
    descRead d data = leafRead (.uint 64) .varint data := by
  obtain ⟨i, nm, ty, tn, els, ep, lt⟩ := d
  simp only at h; subst h
  rw [descRead.eq_def]

theorem descRead_flat (d : Desc) (h : d.type = .flatInt) (hl : d.logicalType ≠ .timestamp) (data : Bytes) :
    descRead d data = leafRead (.flat 64) .varint data := by
  obtain ⟨i, nm, ty, tn, els, ep, lt⟩ := d
  simp only at h hl; subst h
  rw [descRead.eq_def]
  simp only [hl, ↓reduceIte]

theorem descRead_bq (d : Desc) (h : d.type = .flatInt) (hl : d.logicalType = .timestamp) (data : Bytes) :
    descRead d data = bqRead data := by
  obtain ⟨i, nm, ty, tn, els, ep, lt⟩ := d
  simp only at h hl; subst h
  rw [descRead.eq_def]
  simp only [hl, ↓reduceIte]

theorem descRead_f32 (d : Desc) (h : d.type = .float32) (data : Bytes) :
    descRead d data = leafRead .f32 .w32 data := by
  obtain ⟨i, nm, ty, tn, els, ep, lt⟩ := d
  simp only at h; subst h
  rw [descRead.eq_def]

theorem descRead_f64 (d : Desc) (h : d.type = .float64) (data : Bytes) :
    descRead d data = leafRead .f64 .w64 data := by
  obtain ⟨i, nm, ty, tn, els, ep, lt⟩ := d
  simp only at h; subst h
  rw [descRead.eq_def]

theorem descRead_string (d : Desc) (h : d.type = .string) (data : Bytes) :
    descRead d data = leafRead (.str false) .len data := by
  obtain ⟨i, nm, ty, tn, els, ep, lt⟩ := d
  simp only at h; subst h
  rw [descRead.eq_def]

theorem descRead_bool (d : Desc) (h : d.type = .bool) (data : Bytes) :
    descRead d data = leafRead .bool .len data := by
  obtain ⟨i, nm, ty, tn, els, ep, lt⟩ := d
  simp only at h; subst h
  rw [descRead.eq_def]

theorem descRead_time (d : Desc) (h : d.type = .time) (data : Bytes) :
    descRead d data = leafRead (.time false) .len data := by
  obtain ⟨i, nm, ty, tn, els, ep, lt⟩ := d
  simp only at h; subst h
  rw [descRead.eq_def]

theorem descRead_slice (i : Nat) (nm tn : String) (e : Desc) (r : List Desc) (ep : Bool)
    (lt : LogicalType) (data : Bytes) :
    descRead ⟨i, nm, .slice, tn, e :: r, ep, lt⟩ data
      = wrapCalls (mapValid .slice lt (e :: r)) (sliceBody e.type (descRead e) data) := by
  rw [descRead.eq_def]

theorem descRead_slice_nil (i : Nat) (nm tn : String) (ep : Bool) (lt : LogicalType) (data : Bytes) :
    descRead ⟨i, nm, .slice, tn, [], ep, lt⟩ data = .panic := by
  rw [descRead.eq_def]

theorem descRead_struct (i : Nat) (nm tn : String) (els : List Desc) (ep : Bool) (lt : LogicalType)
    (data : Bytes) (h : entryValid .struct lt els = false) :
    descRead ⟨i, nm, .struct, tn, els, ep, lt⟩ data
      = wrapCalls true (walkLoop (fun idx wt body acc => descField els idx wt body acc)
          (data.length + 1) data 0 []) := by
  rw [descRead.eq_def]
  simp only [h, Bool.false_eq_true, ↓reduceIte]

theorem descRead_entry (i : Nat) (nm tn : String) (k v : Desc) (ep : Bool) (lt : LogicalType)
    (data : Bytes) (h : entryValid .struct lt [k, v] = true) :
    descRead ⟨i, nm, .struct, tn, [k, v], ep, lt⟩ data = entryWalk k v (descRead k) (descRead v) data := by
  rw [descRead.eq_def]
  simp only [h, ↓reduceIte]

theorem descRead_jsonObject (d : Desc) (h : d.type = .jsonObject) (data : Bytes) :
    descRead d data = jsonWalk (data.length + 1) true data := by
  obtain ⟨i, nm, ty, tn, els, ep, lt⟩ := d
  simp only at h; subst h
  rw [descRead.eq_def]

theorem descRead_jsonArray (d : Desc) (h : d.type = .jsonArray) (data : Bytes) :
    descRead d data = jsonWalk (data.length + 1) false data := by
  obtain ⟨i, nm, ty, tn, els, ep, lt⟩ := d
  simp only at h; subst h
  rw [descRead.eq_def]

@[simp] theorem wrapCalls_ok (b : Bool) (cs : List OCall) (n : Nat) :
    wrapCalls b (.ok (cs, n))
      = .ok ((if b then OCall.startObj else .startArr) :: cs ++ [if b then OCall.endObj else .endArr], n) := rfl

/-! ### the field loop -/

theorem walkLoop_fuel {σ : Type} (step : Nat → WT → Bytes → σ → Res (σ × Nat)) :
    ∀ (f1 f2 : Nat) (data : Bytes) (off : Nat) (st : σ),
      data.length < f1 → data.length < f2 →
      walkLoop step f1 data off st = walkLoop step f2 data off st := by
  intro f1
  induction f1 with
  | zero => intro f2 data off st h; omega
  | succ f1 ih =>
    intro f2 data off st h1 h2
    cases f2 with
    | zero => omega
    | succ f2 =>
      rw [walkLoop, walkLoop]
      cases hd : data.isEmpty with
      | true => rfl
      | false =>
        simp only [Bool.false_eq_true, ↓reduceIte]
        cases hr : readTag data with
        | none => rfl
        | some p =>
          obtain ⟨wt, idx, n⟩ := p
          have hn := readTag_pos data wt idx n hr
          simp only
          cases hrd : step idx wt (data.drop n) st with
          | ok q =>
            obtain ⟨st', m⟩ := q
            simp only
            apply ih <;> simp only [List.length_drop] <;> omega
          | _ => rfl

/-- one iteration of the field loop. -/
theorem walkLoop_step {σ : Type} (step : Nat → WT → Bytes → σ → Res (σ × Nat))
    (fuel : Nat) (wt : WT) (idx : Nat) (hidx : idx < 2 ^ 61) (rest : Bytes) (off : Nat)
    (st st' : σ) (m : Nat) (hm : m ≤ rest.length)
    (hrd : step idx wt rest st = .ok (st', m))
    (hf : (appendTag wt idx ++ rest).length < fuel) :
    walkLoop step fuel (appendTag wt idx ++ rest) off st
      = walkLoop step fuel (rest.drop m) (off + ((appendTag wt idx).length + m)) st' := by
  cases fuel with
  | zero => omega
  | succ f =>
    have hpos := appendTag_len_pos wt idx
    rw [walkLoop]
    have hne : (appendTag wt idx ++ rest).isEmpty = false := by
      cases h : appendTag wt idx ++ rest with
      | nil =>
        have := congrArg List.length h
        simp only [List.length_append, List.length_nil] at this; omega
      | cons _ _ => rfl
    simp only [hne, Bool.false_eq_true, ↓reduceIte, tag_roundtrip wt idx hidx rest,
      drop_append_len _ _ _ rfl, hrd]
    have hd : (appendTag wt idx ++ rest).drop ((appendTag wt idx).length + m) = rest.drop m := by
      rw [← List.drop_drop, drop_append_len _ _ _ rfl]
    rw [hd]
    simp only [List.length_append] at hf
    apply walkLoop_fuel <;> simp only [List.length_drop] <;> omega

theorem walkLoop_nil {σ : Type} (step : Nat → WT → Bytes → σ → Res (σ × Nat))
    (fuel : Nat) (off : Nat) (st : σ) (hf : 0 < fuel) :
    walkLoop step fuel [] off st = .ok (st, off) := by
  cases fuel with
  | zero => omega
  | succ f => simp [walkLoop]

/-- a step that consumes exactly a known payload, the rest following. -/
theorem walkLoop_payload {σ : Type} (step : Nat → WT → Bytes → σ → Res (σ × Nat))
    (fuel : Nat) (wt : WT) (idx : Nat) (hidx : idx < 2 ^ 61) (P rest : Bytes) (off : Nat)
    (st st' : σ) (hrd : step idx wt (P ++ rest) st = .ok (st', P.length))
    (hf : (appendTag wt idx ++ (P ++ rest)).length < fuel) :
    walkLoop step fuel (appendTag wt idx ++ (P ++ rest)) off st
      = walkLoop step fuel rest (off + (appendTag wt idx ++ P).length) st' := by
  rw [walkLoop_step step fuel wt idx hidx (P ++ rest) off st st' P.length
    (by simp only [List.length_append]; omega) hrd hf, drop_append_len _ _ _ rfl]
  simp only [List.length_append]

/-! ### the WTLength framing -/

theorem framed_len (rd : Bytes → Res (List OCall × Nat)) (B rest : Bytes) (hB : B.length < 2 ^ 64) :
    framed rd .len (appendVarUint B.length ++ (B ++ rest))
      = Res.addN (appendVarUint B.length).length (rd B) := by
  have hgt : ¬ (B.length > (B ++ rest).length) := by simp only [List.length_append]; omega
  simp only [framed, ↓reduceIte, readU_append _ hB, drop_append_len _ _ _ rfl, hgt,
    take_append_len _ _ _ rfl]

theorem framed_other (rd : Bytes → Res (List OCall × Nat)) (wt : WT) (hw : wt ≠ .len) (body : Bytes) :
    framed rd wt body = rd body := by
  simp only [framed, hw, ↓reduceIte]

/-! ### packed and counted element loops -/

theorem packedLoop_fuel (rd : Bytes → Res (List OCall × Nat)) :
    ∀ (f1 f2 : Nat) (data : Bytes) (off : Nat) (acc : List OCall),
      data.length < f1 → data.length < f2 →
      packedLoop rd f1 data off acc = packedLoop rd f2 data off acc := by
  intro f1
  induction f1 with
  | zero => intro f2 data off acc h; omega
  | succ f1 ih =>
    intro f2 data off acc h1 h2
    cases f2 with
    | zero => omega
    | succ f2 =>
      rw [packedLoop, packedLoop]
      cases hd : data.isEmpty with
      | true => rfl
      | false =>
        simp only [Bool.false_eq_true, ↓reduceIte]
        cases hr : rd data with
        | ok q =>
          obtain ⟨cs, n⟩ := q
          have hl : 0 < data.length := by cases data <;> simp_all
          simp only
          by_cases hn : n = 0
          · simp only [hn, ↓reduceIte]
          · simp only [hn, ↓reduceIte]
            apply ih <;> simp only [List.length_drop] <;> omega
        | _ => rfl

/-- the packed loop over back-to-back self-delimiting elements. -/
theorem packedLoop_flatMap {α : Type} (rd : Bytes → Res (List OCall × Nat)) (enc : α → Bytes)
    (cl : α → List OCall) :
    ∀ (ws : List α) (fuel off : Nat) (acc : List OCall),
      (∀ v ∈ ws, 0 < (enc v).length ∧ ∀ r, rd (enc v ++ r) = .ok (cl v, (enc v).length)) →
      (ws.flatMap enc).length < fuel →
      packedLoop rd fuel (ws.flatMap enc) off acc
        = .ok (acc ++ ws.flatMap cl, off + (ws.flatMap enc).length) := by
  intro ws
  induction ws with
  | nil =>
    intro fuel off acc _ hf
    cases fuel with
    | zero => simp at hf
    | succ f => simp [packedLoop]
  | cons v ws ih =>
    intro fuel off acc h hf
    cases fuel with
    | zero => omega
    | succ f =>
      obtain ⟨hpos, hr⟩ := h v (by simp)
      simp only [List.flatMap_cons, List.length_append] at hf ⊢
      rw [packedLoop]
      have hne : (enc v ++ ws.flatMap enc).isEmpty = false := by
        cases h : enc v ++ ws.flatMap enc with
        | nil =>
          have := congrArg List.length h
          simp only [List.length_append, List.length_nil] at this; omega
        | cons _ _ => rfl
      have hnz : ¬ ((enc v).length = 0) := by omega
      simp only [hne, Bool.false_eq_true, ↓reduceIte, hr, drop_append_len _ _ _ rfl, hnz]
      rw [ih f (off + (enc v).length) (acc ++ cl v) (fun x hx => h x (by simp [hx])) (by omega)]
      simp only [List.append_assoc, Nat.add_assoc]

/-- the counted loop over length-prefixed elements, each read from exactly its
own bytes; whatever follows the last element is left alone. -/
theorem countLoop_flatMap {α : Type} (rd : Bytes → Res (List OCall × Nat)) (body : α → Bytes)
    (cl : α → List OCall) :
    ∀ (ws : List α) (rest : Bytes) (off : Nat) (acc : List OCall),
      (∀ v ∈ ws, (body v).length < 2 ^ 64 ∧ rd (body v) = .ok (cl v, (body v).length)) →
      countLoop rd false ws.length
          (ws.flatMap (fun v => appendVarUint (body v).length ++ body v) ++ rest) off acc
        = .ok (acc ++ ws.flatMap cl,
               off + (ws.flatMap (fun v => appendVarUint (body v).length ++ body v)).length) := by
  intro ws
  induction ws with
  | nil => intro rest off acc _; simp [countLoop]
  | cons v ws ih =>
    intro rest off acc h
    obtain ⟨hl, hr⟩ := h v (by simp)
    have hpos := append_len_pos (body v).length
    simp only [List.length_cons, List.flatMap_cons, List.append_assoc, countLoop]
    have hne : (appendVarUint (body v).length ++ (body v ++
        ((ws.flatMap fun v => appendVarUint (body v).length ++ body v) ++ rest))).isEmpty = false := by
      cases h : appendVarUint (body v).length ++ (body v ++
          ((ws.flatMap fun v => appendVarUint (body v).length ++ body v) ++ rest)) with
      | nil =>
        have := congrArg List.length h
        simp only [List.length_append, List.length_nil] at this; omega
      | cons _ _ => rfl
    simp only [hne, Bool.false_eq_true, ↓reduceIte]
    rw [readU_append _ hl]
    simp only [drop_append_len _ _ _ rfl, List.length_append]
    have hgt : ¬ ((body v).length >
        (body v).length + ((ws.flatMap fun v => appendVarUint (body v).length ++ body v).length + rest.length)) := by
      omega
    simp only [hgt, ↓reduceIte, take_append_len _ _ _ rfl, hr, Bool.false_and]
    have hd : List.drop ((appendVarUint (body v).length).length + (body v).length)
        (appendVarUint (body v).length ++ (body v ++
          ((ws.flatMap fun v => appendVarUint (body v).length ++ body v) ++ rest)))
        = (ws.flatMap fun v => appendVarUint (body v).length ++ body v) ++ rest := by
      rw [← List.append_assoc]
      exact drop_append_len _ _ _ (by simp [List.length_append])
    rw [hd, ih rest _ _ (fun x hx => h x (by simp [hx]))]
    simp only [List.append_assoc, Nat.add_assoc, Bool.false_eq_true, ↓reduceIte]

/-! ### the element lookup of `readAsStruct` -/

/-- the lookup finds the field with index `i` (no earlier field has it), writes
its name and reads it through the framing. -/
theorem descField_at (pre : Fields) (i : Nat) (nm : String) (t : Ty) (suf : Fields)
    (hni : i ∉ pre.map (·.1)) (wt : WT) (body : Bytes) (acc cs : List OCall) (n : Nat)
    (h : framed (descRead (descriptor t)) wt body = .ok (cs, n)) :
    descField (fieldDescs (pre ++ (i, nm, t) :: suf)) i wt body acc
      = .ok (acc ++ OCall.name (strBytes nm) :: cs, n) := by
  induction pre with
  | nil =>
    simp only [List.nil_append, fieldDescs, descField, ↓reduceIte]
    have e : (fun b => descRead { descriptor t with index := i, name := nm } b) = descRead (descriptor t) := by
      funext b; exact descRead_field _ _ _ _
    rw [e, h]
  | cons p pre ih =>
    obtain ⟨j, nj, tj⟩ := p
    have hji : ¬ j = i := by
      intro h; apply hni; simp [h]
    have hni' : i ∉ pre.map (·.1) := by
      intro h; apply hni; simp only [List.map_cons, List.mem_cons]; exact Or.inr h
    simp only [List.cons_append, fieldDescs, descField, hji, ↓reduceIte]
    exact ih hni'

/-! ### leaf reads -/

/-- a self-delimiting scalar read by its own codec instance, whatever follows. -/
theorem leafRead_scalar (T : Ty) (v : Val) (c : OCall) (wt : WT) (rest : Bytes)
    (hs : T.isScalar = true) (hwf : T.wf) (hty : T.hasTy v) (hc : leafCall v = some c) :
    leafRead T wt (T.app v [] ++ rest) = .ok ([c], (T.app v []).length) := by
  unfold leafRead
  rw [scalar_read_exact T v wt rest T.zero hs hwf hty]
  simp only [hc]

theorem leafRead_str (s : Bytes) : leafRead (.str false) .len s = .ok ([.str s], s.length) := by
  simp [leafRead, Ty.read, leafCall]

theorem leafRead_time (sec : Int) (nsec : Nat) (hty : (Ty.time false).hasTy (.time sec nsec)) :
    leafRead (.time false) .len ((Ty.time false).app (.time sec nsec) [])
      = .ok ([.time sec nsec], ((Ty.time false).app (.time sec nsec) []).length) := by
  have hlen : ((Ty.time false).app (.time sec nsec) []).length < 2 ^ 64 := by
    simp only [Ty.app, frame, List.isEmpty_nil, ↓reduceIte, timeBody, Bool.false_eq_true, appendVarInt,
      List.length_append, tag1, tag2]
    have h1 := len_le_ten (zigZag sec) (zigZag_lt_of_range 64 sec (by simp [validWidth]) hty.1)
    have h2 := len_le_ten (zigZag (nsec : Int))
      (zigZag_lt_of_range 64 _ (by simp [validWidth]) (by have := hty.2; unfold intRange; omega))
    have h3 : (appendTag .varint 1).length = 1 := by simp [appendTag, WT.code, len_append_small]
    have h4 : (appendTag .varint 2).length = 1 := by simp [appendTag, WT.code, len_append_small]
    omega
  have h := (rt_time false (.time sec nsec) hty (by simp) (by simp) hlen).1 rfl
  unfold leafRead
  rw [h]
  simp [Ty.norm, leafCall]

theorem leafRead_time_nil : leafRead (.time false) .len [] = .ok ([.time zeroTimeSec 0], 0) := by
  simp [leafRead, Ty.read, leafCall]

/-- a flat integer the walker renders exactly: full width, or non-negative. -/
theorem flat_app_eq (w : Nat) (i : Int) (hw : validWidth w) (hr : intRange w i) (h : w = 64 ∨ 0 ≤ i) :
    (Ty.flat w).app (.int i) [] = (Ty.flat 64).app (.int i) [] ∧ intRange 64 i := by
  simp only [Ty.app, List.nil_append]
  unfold intRange at hr ⊢
  unfold wrapU
  rcases h with rfl | h
  · exact ⟨rfl, hr⟩
  · rcases hw with rfl | rfl | rfl | rfl <;> simp only [Nat.reduceSub, Int.reducePow] at hr ⊢ <;>
      refine ⟨?_, by omega⟩ <;> congr 1 <;> first | trivial | omega

theorem int_range_mono (w : Nat) (i : Int) (hw : validWidth w) (hr : intRange w i) : intRange 64 i := by
  unfold intRange at hr ⊢
  rcases hw with rfl | rfl | rfl | rfl <;> simp only [Nat.reduceSub, Int.reducePow] at hr ⊢ <;> omega

theorem uint_range_mono (w n : Nat) (hw : validWidth w) (hr : n < 2 ^ w) : n < 2 ^ 64 := by
  rcases hw with rfl | rfl | rfl | rfl <;> omega

/-! ### classification of field types by wire type -/

def _root_.FieldType.isPacked : FieldType → Bool
  | .float32 | .float64 | .int | .uint | .flatInt | .bool => true
  | _ => false

def _root_.FieldType.isCounted : FieldType → Bool
  | .struct | .slice | .string | .time => true
  | _ => false

theorem sliceBody_packed (ty : FieldType) (h : ty.isPacked = true)
    (rd : Bytes → Res (List OCall × Nat)) (data : Bytes) :
    sliceBody ty rd data = packedLoop rd (data.length + 1) data 0 [] := by
  cases ty <;> first | rfl | simp [FieldType.isPacked] at h

theorem sliceBody_counted (ty : FieldType) (h : ty.isCounted = true)
    (rd : Bytes → Res (List OCall × Nat)) (data : Bytes) :
    sliceBody ty rd data =
      (if (readVarUint data).2 < 0 then .err else
        countLoop rd false (readVarUint data).1 (data.drop (readVarUint data).2.toNat)
          (readVarUint data).2.toNat []) := by
  cases ty <;> first | rfl | simp [FieldType.isCounted] at h

/-- elements of packed slices (varint, 32- and 64-bit kinds) have a packed field type. -/
theorem descriptor_packed : (t : Ty) → t.wt ≠ .len → t.wt ≠ .slice → (descriptor t).type.isPacked = true
  | .bool | .int _ | .uint _ | .flat _ | .f32 | .f64 => fun _ _ => rfl
  | .ptr t => fun h1 h2 => by
      have := descriptor_packed t (by simpa [Ty.wt] using h1) (by simpa [Ty.wt] using h2)
      simpa [descriptor] using this
  | .str _ | .bytes | .time _ | .vslice _ | .fslice _ | .pslice _ | .struct _ _ => fun h _ => by
      simp [Ty.wt] at h
  | .lslice _ => fun _ h => by simp [Ty.wt] at h
  | .map _ _ p => fun h1 h2 => by cases p <;> simp [Ty.wt] at h1 h2

/-- length-delimited kinds have a counted-slice element field type. -/
theorem descriptor_counted : (t : Ty) → t.wt = .len → (descriptor t).type.isCounted = true
  | .str _ | .bytes | .time _ | .vslice _ | .fslice _ | .pslice _ | .struct _ _ => fun _ => rfl
  | .ptr t => fun h => by
      have := descriptor_counted t (by simpa [Ty.wt] using h)
      simpa [descriptor] using this
  | .bool | .int _ | .uint _ | .flat _ | .f32 | .f64 | .lslice _ => fun h => by simp [Ty.wt] at h
  | .map _ _ p => fun h => by
      cases p
      · simp [Ty.wt] at h
      · rfl

/-! ### string-keyed map entries (`readAsMapEntry`) -/

section entry
variable (rdK rdV : Bytes → Res (List OCall × Nat))

theorem entryStep_key (wt : WT) (P rest : Bytes) (ck : List OCall) (st : EntrySt)
    (hK : framed rdK wt (P ++ rest) = .ok (ck, P.length)) :
    entryStep 1 2 rdK rdV 1 wt (P ++ rest) st = .ok ((st.1 ++ ck, true, st.2.2), P.length) := by
  simp only [entryStep, ↓reduceIte, hK]

theorem entryStep_val (wt : WT) (P rest : Bytes) (cv : List OCall) (st : EntrySt)
    (hV : framed rdV wt (P ++ rest) = .ok (cv, P.length)) :
    entryStep 1 2 rdK rdV 2 wt (P ++ rest) st
      = .ok ((st.1 ++ (if st.2.1 then [] else [.str []]) ++ cv, true, true), P.length) := by
  have h21 : ¬ ((1 : Nat) = 2) := by omega
  simp only [entryStep, h21, ↓reduceIte, hV]

variable (key value : Desc) (hk : key.type = .string) (hki : key.index = 1) (hvi : value.index = 2)
include hk hki hvi

/-- key and value both on the wire. -/
theorem entryWalk_kv (wtk wtv : WT) (PK PV : Bytes) (ck cv : List OCall)
    (hK : ∀ rest, framed rdK wtk (PK ++ rest) = .ok (ck, PK.length))
    (hV : ∀ rest, framed rdV wtv (PV ++ rest) = .ok (cv, PV.length)) :
    entryWalk key value rdK rdV ((appendTag wtk 1 ++ PK) ++ (appendTag wtv 2 ++ PV))
      = .ok (ck ++ cv, ((appendTag wtk 1 ++ PK) ++ (appendTag wtv 2 ++ PV)).length) := by
  have e : (appendTag wtk 1 ++ PK) ++ (appendTag wtv 2 ++ PV)
      = appendTag wtk 1 ++ (PK ++ (appendTag wtv 2 ++ (PV ++ []))) := by simp
  unfold entryWalk
  simp only [hk, ne_eq, not_true_eq_false, ↓reduceIte, hki, hvi]
  rw [e]
  rw [walkLoop_payload _ _ wtk 1 (by omega) PK _ 0 _ _ (entryStep_key rdK rdV wtk PK _ ck _ (hK _)) (by omega)]
  rw [walkLoop_payload _ _ wtv 2 (by omega) PV _ _ _ _ (entryStep_val rdK rdV wtv PV _ cv _ (hV _))
    (by simp only [List.length_append]; omega)]
  rw [walkLoop_nil _ _ _ _ (by omega)]
  simp only [List.nil_append, ↓reduceIte, List.append_nil, List.length_append, Nat.zero_add]
  congr 2
  omega

/-- the key is omitted (zero): the walker writes `""` before the value. -/
theorem entryWalk_v (wtv : WT) (PV : Bytes) (cv : List OCall)
    (hV : ∀ rest, framed rdV wtv (PV ++ rest) = .ok (cv, PV.length)) :
    entryWalk key value rdK rdV (appendTag wtv 2 ++ PV)
      = .ok (OCall.str [] :: cv, (appendTag wtv 2 ++ PV).length) := by
  have e : appendTag wtv 2 ++ PV = appendTag wtv 2 ++ (PV ++ []) := by simp
  unfold entryWalk
  simp only [hk, ne_eq, not_true_eq_false, ↓reduceIte, hki, hvi]
  rw [e]
  rw [walkLoop_payload _ _ wtv 2 (by omega) PV _ 0 _ _ (entryStep_val rdK rdV wtv PV _ cv _ (hV _)) (by omega)]
  rw [walkLoop_nil _ _ _ _ (by omega)]
  simp only [List.nil_append, Bool.false_eq_true, ↓reduceIte, List.append_nil, List.length_append,
    Nat.zero_add, List.cons_append]

/-- the value is omitted (zero / nil): rendered by `writeZero`. -/
theorem entryWalk_k (wtk : WT) (PK : Bytes) (ck : List OCall)
    (hK : ∀ rest, framed rdK wtk (PK ++ rest) = .ok (ck, PK.length)) :
    entryWalk key value rdK rdV (appendTag wtk 1 ++ PK)
      = .ok (ck ++ writeZero value, (appendTag wtk 1 ++ PK).length) := by
  have e : appendTag wtk 1 ++ PK = appendTag wtk 1 ++ (PK ++ []) := by simp
  unfold entryWalk
  simp only [hk, ne_eq, not_true_eq_false, ↓reduceIte, hki, hvi]
  rw [e]
  rw [walkLoop_payload _ _ wtk 1 (by omega) PK _ 0 _ _ (entryStep_key rdK rdV wtk PK _ ck _ (hK _)) (by omega)]
  rw [walkLoop_nil _ _ _ _ (by omega)]
  simp only [List.nil_append, Bool.false_eq_true, ↓reduceIte, List.append_nil, List.length_append,
    Nat.zero_add]

omit hki hvi in
/-- both omitted: an empty entry is `"": <zero>`. -/
theorem entryWalk_none :
    entryWalk key value rdK rdV [] = .ok (OCall.str [] :: writeZero value, 0) := by
  unfold entryWalk
  simp only [hk, ne_eq, not_true_eq_false, ↓reduceIte, List.length_nil, Nat.zero_add]
  rw [walkLoop_nil _ _ _ _ (by omega)]
  simp

end entry

/-! ### validity of the map forms on codec descriptors -/

theorem mapValid_none (els : List Desc) : mapValid .slice .none els = false := by
  simp [mapValid]

theorem entryValid_none (els : List Desc) : entryValid .struct .none els = false := by
  simp [entryValid]

theorem entryValid_pair (k v : Desc) : entryValid .struct .mapEntry [k, v] = (k.type == .string) := by
  simp [entryValid]

theorem mapValid_entry (i : Nat) (nm tn : String) (k v : Desc) (ep : Bool) :
    mapValid .slice .map [⟨i, nm, .struct, tn, [k, v], ep, .mapEntry⟩] = (k.type == .string) := by
  simp [mapValid, Desc.isValidJSONMapEntry, entryValid]

/-! ### totality: the walker never panics and never hangs

For every descriptor whose slice nodes have an element descriptor (`Desc.ok`;
every `descriptor t` is such) and EVERY byte string, the walk ends with calls or
an error. The only `panic` in the model is `d.Elements[0]` on a slice descriptor
without elements; `hang` needs a loop iteration without progress, which the tag
(field loops), the length varint (counted loops) and the repaired `n <= 0` check
(packed loop) exclude. -/

open Total (fine_cases)

theorem fine_of_ok {α : Type} {r : Res α} {a : α} (h : r = .ok a) : r.fine := by rw [h]; trivial
theorem fine_of_err {α : Type} {r : Res α} (h : r = .err) : r.fine := by rw [h]; trivial

theorem walkLoop_total {σ : Type} (step : Nat → WT → Bytes → σ → Res (σ × Nat)) (L : Nat)
    (hstep : ∀ idx wt body st, body.length < L → (step idx wt body st).fine) :
    ∀ fuel data off st, data.length < fuel → data.length ≤ L →
      (walkLoop step fuel data off st).fine := by
  intro fuel
  induction fuel with
  | zero => intro data off st h; omega
  | succ f ih =>
    intro data off st hl hL
    rw [walkLoop]
    cases hd : data.isEmpty with
    | true => simp [Res.fine]
    | false =>
      simp only [Bool.false_eq_true, ↓reduceIte]
      cases hr : readTag data with
      | none => simp [Res.fine]
      | some q =>
        obtain ⟨wt, idx, n⟩ := q
        have hn := readTag_pos data wt idx n hr
        simp only
        have hg := hstep idx wt (data.drop n) st (by simp only [List.length_drop]; omega)
        rcases fine_cases hg with ⟨⟨st', m⟩, e⟩ | e
        · simp only [e]
          exact ih _ _ _ (by simp only [List.length_drop]; omega) (by simp only [List.length_drop]; omega)
        · simp [e, Res.fine]

theorem packedLoop_total (rd : Bytes → Res (List OCall × Nat)) (hrd : ∀ b, (rd b).fine) :
    ∀ fuel data off acc, data.length < fuel → (packedLoop rd fuel data off acc).fine := by
  intro fuel
  induction fuel with
  | zero => intro data off acc h; omega
  | succ f ih =>
    intro data off acc hl
    rw [packedLoop]
    cases hd : data.isEmpty with
    | true => simp [Res.fine]
    | false =>
      simp only [Bool.false_eq_true, ↓reduceIte]
      have hpos : 0 < data.length := by cases data <;> simp_all
      rcases fine_cases (hrd data) with ⟨⟨cs, n⟩, e⟩ | e
      · simp only [e]
        by_cases hn : n = 0
        · simp [hn, Res.fine]
        · simp only [hn, ↓reduceIte]
          exact ih _ _ _ (by simp only [List.length_drop]; omega)
      · simp [e, Res.fine]

theorem countLoop_total (rd : Bytes → Res (List OCall × Nat)) (skipEmpty : Bool) (L : Nat)
    (hrd : ∀ b, b.length ≤ L → (rd b).fine) :
    ∀ count data off acc, data.length ≤ L → (countLoop rd skipEmpty count data off acc).fine := by
  intro count
  induction count with
  | zero => intro data off acc _; simp [countLoop, Res.fine]
  | succ c ih =>
    intro data off acc hL
    rw [countLoop]
    cases hd : data.isEmpty with
    | true => simp [Res.fine]
    | false =>
      simp only [Bool.false_eq_true, ↓reduceIte]
      cases hr : readU data with
      | none => simp [Res.fine]
      | some q =>
        obtain ⟨s, n⟩ := q
        simp only
        split
        · trivial
        · split
          · exact ih _ _ _ (by simp only [List.length_drop]; omega)
          · have hg := hrd ((data.drop n).take s)
              (by simp only [List.length_take, List.length_drop]; omega)
            rcases fine_cases hg with ⟨⟨cs, m⟩, e⟩ | e
            · simp only [e]
              exact ih _ _ _ (by simp only [List.length_drop]; omega)
            · simp [e, Res.fine]

theorem framed_total (rd : Bytes → Res (List OCall × Nat)) (wt : WT) (body : Bytes) (L : Nat)
    (hrd : ∀ b, b.length ≤ L → (rd b).fine) (hb : body.length ≤ L) : (framed rd wt body).fine := by
  unfold framed
  split
  · cases hr : readU body with
    | none => trivial
    | some q =>
      obtain ⟨l, n⟩ := q
      simp only
      split
      · trivial
      · have hg := hrd ((body.drop n).take l) (by simp only [List.length_take, List.length_drop]; omega)
        rcases fine_cases hg with ⟨⟨cs, m⟩, e⟩ | e
        · simp [e, Res.fine, Res.addN]
        · simp [e, Res.fine, Res.addN]
  · exact hrd body hb

theorem skip_fine (d : Bytes) (wt : WT) : (skip d wt).fine := (skip_total d wt).1

theorem wrapCalls_fine (b : Bool) (r : Res (List OCall × Nat)) (h : r.fine) : (wrapCalls b r).fine := by
  rcases fine_cases h with ⟨⟨cs, n⟩, e⟩ | e <;> simp [e, wrapCalls, Res.fine]

/-- the leaf readers: the fixed codec instances the walker uses return a value
of their own kind or an error. -/
theorem leafRead_fine_bool (wt : WT) (d : Bytes) : (leafRead .bool wt d).fine := by
  by_cases h : (readVarUint d).2 < 0 <;> simp [leafRead, Ty.read, h, leafCall, Res.fine]

theorem leafRead_fine_int (wt : WT) (d : Bytes) : (leafRead (.int 64) wt d).fine := by
  by_cases h : (readVarUint d).2 < 0 <;> simp [leafRead, Ty.read, h, leafCall, Res.fine]

theorem leafRead_fine_uint (wt : WT) (d : Bytes) : (leafRead (.uint 64) wt d).fine := by
  by_cases h : (readVarUint d).2 < 0 <;> simp [leafRead, Ty.read, h, leafCall, Res.fine]

theorem leafRead_fine_flat (wt : WT) (d : Bytes) : (leafRead (.flat 64) wt d).fine := by
  by_cases h : (readVarUint d).2 < 0 <;> simp [leafRead, Ty.read, h, leafCall, Res.fine]

theorem leafRead_fine_f32 (wt : WT) (d : Bytes) : (leafRead .f32 wt d).fine := by
  by_cases h : d.length < 4 <;> by_cases h2 : d.isEmpty = true <;>
    simp [leafRead, Ty.read, h, h2, leafCall, Res.fine]

theorem leafRead_fine_f64 (wt : WT) (d : Bytes) : (leafRead .f64 wt d).fine := by
  by_cases h : d.length < 8 <;> by_cases h2 : d.isEmpty = true <;>
    simp [leafRead, Ty.read, h, h2, leafCall, Res.fine]

theorem leafRead_fine_str (wt : WT) (d : Bytes) : (leafRead (.str false) wt d).fine := by
  simp [leafRead, Ty.read, leafCall, Res.fine]

theorem leafRead_fine_time (wt : WT) (d : Bytes) : (leafRead (.time false) wt d).fine := by
  have h := (Total.read_total (.time false) trivial wt d (Ty.time false).zero (by simp [Total.Shape])).1
  unfold leafRead
  revert h
  simp only [Ty.read]
  split
  · intro _; simp [leafCall, Res.fine]
  · split <;> intro h <;> simp_all [Res.fine, timeNorm, leafCall]

theorem bqRead_fine (d : Bytes) : (bqRead d).fine := by
  unfold bqRead; simp only; split <;> trivial

/-! #### JSON objects and arrays -/

theorem jsonKVStep_fine (rec : Bool → Bytes → Res (List OCall × Nat)) (L : Nat)
    (hrec : ∀ b body, body.length < L → (rec b body).fine)
    (idx : Nat) (wt : WT) (body : Bytes) (st : KVSt) (hb : body.length < L) :
    (jsonKVStep rec idx wt body st).fine := by
  have hsub : ∀ r : Res (List OCall × Nat), r.fine →
      (match r with
        | .ok (cs, n) => (Res.ok ((st.1 ++ cs, st.2.1, true), n) : Res (KVSt × Nat))
        | .err => .err | .panic => .panic | .hang => .hang).fine := by
    intro r hr
    rcases fine_cases hr with ⟨⟨cs, n⟩, e⟩ | e <;> simp [e, Res.fine]
  unfold jsonKVStep
  split
  · cases readU body with
    | none => trivial
    | some q => obtain ⟨l, n⟩ := q; simp only; split <;> trivial
  · split
    · cases readU body with
      | none => trivial
      | some q => obtain ⟨l, n⟩ := q; trivial
    · split
      · simp only
        split
        · cases readU body with
          | none => trivial
          | some q => obtain ⟨l, n⟩ := q; simp only; split <;> trivial
        · exact hsub _ (leafRead_fine_int wt body)
        · exact hsub _ (leafRead_fine_f64 wt body)
        · exact hsub _ (leafRead_fine_bool wt body)
        · exact hsub _ (hrec false body hb)
        · exact hsub _ (hrec true body hb)
        · cases readU body with
          | none => trivial
          | some q => obtain ⟨l, n⟩ := q; simp only; split <;> trivial
        · trivial
      · trivial

theorem jsonKV_fine (rec : Bool → Bytes → Res (List OCall × Nat)) (data : Bytes)
    (hrec : ∀ b body, body.length < data.length → (rec b body).fine) : (jsonKV rec data).fine := by
  unfold jsonKV
  have h := walkLoop_total (jsonKVStep rec) data.length
    (fun idx wt body st hb => jsonKVStep_fine rec data.length hrec idx wt body st hb)
    (data.length + 1) data 0 ([], 0, false) (by omega) (by omega)
  rcases fine_cases h with ⟨⟨⟨acc, jt, vd⟩, off⟩, e⟩ | e <;> simp [e, Res.fine]

theorem jsonWalk_fine : ∀ (fuel : Nat) (isObj : Bool) (data : Bytes), data.length < fuel →
    (jsonWalk fuel isObj data).fine := by
  intro fuel
  induction fuel with
  | zero => intro _ data h; omega
  | succ f ih =>
    intro isObj data hl
    rw [jsonWalk]
    split
    · trivial
    · have h := countLoop_total (jsonKV (jsonWalk f)) true data.length
        (fun b hb => jsonKV_fine (jsonWalk f) b (fun o body hbody => ih o body (by omega)))
        (readVarUint data).1 (data.drop (readVarUint data).2.toNat) (readVarUint data).2.toNat []
        (by simp only [List.length_drop]; omega)
      rcases fine_cases h with ⟨⟨cs, off⟩, e⟩ | e <;> simp [e, Res.fine]

/-! #### the walker -/

mutual
/-- every slice node has an element descriptor. -/
def _root_.Desc.ok : Desc → Prop
  | ⟨_, _, ty, _, els, _, _⟩ => (ty = .slice → els ≠ []) ∧ Desc.okList els
def _root_.Desc.okList : List Desc → Prop
  | [] => True
  | d :: r => d.ok ∧ Desc.okList r
end

theorem ok_with (d : Desc) (i : Nat) (nm : String) (ep : Bool) :
    Desc.ok { d with index := i, name := nm, explicitPresence := ep } ↔ d.ok := by
  cases d; simp [Desc.ok]

theorem entryValid_shape (ty : FieldType) (lt : LogicalType) (els : List Desc)
    (h : entryValid ty lt els = true) : ∃ k v, els = [k, v] := by
  simp only [entryValid, Bool.and_eq_true, beq_iff_eq] at h
  match els, h with
  | [k, v], _ => exact ⟨k, v, rfl⟩
  | [], h => simp at h
  | [_], h => simp at h
  | _ :: _ :: _ :: _, h => simp at h

theorem entryStep_fine (ki vi : Nat) (rdK rdV : Bytes → Res (List OCall × Nat))
    (hK : ∀ b, (rdK b).fine) (hV : ∀ b, (rdV b).fine)
    (idx : Nat) (wt : WT) (body : Bytes) (st : EntrySt) :
    (entryStep ki vi rdK rdV idx wt body st).fine := by
  unfold entryStep
  split
  · have := framed_total rdK wt body body.length (fun b _ => hK b) (by omega)
    rcases fine_cases this with ⟨⟨cs, n⟩, e⟩ | e <;> simp [e, Res.fine]
  · split
    · have := framed_total rdV wt body body.length (fun b _ => hV b) (by omega)
      rcases fine_cases this with ⟨⟨cs, n⟩, e⟩ | e <;> simp [e, Res.fine]
    · rcases fine_cases (skip_fine body wt) with ⟨n, e⟩ | e <;> simp [e, Res.fine]

theorem entryWalk_fine (key value : Desc) (rdK rdV : Bytes → Res (List OCall × Nat))
    (hK : ∀ b, (rdK b).fine) (hV : ∀ b, (rdV b).fine) (data : Bytes) :
    (entryWalk key value rdK rdV data).fine := by
  unfold entryWalk
  split
  · trivial
  · have h := walkLoop_total (entryStep key.index value.index rdK rdV) data.length
      (fun idx wt body st _ => entryStep_fine _ _ rdK rdV hK hV idx wt body st)
      (data.length + 1) data 0 ([], false, false) (by omega) (by omega)
    rcases fine_cases h with ⟨⟨⟨acc, kd, vd⟩, off⟩, e⟩ | e <;> simp [e, Res.fine]

theorem sliceBody_fine (ty : FieldType) (rd : Bytes → Res (List OCall × Nat)) (hrd : ∀ b, (rd b).fine)
    (data : Bytes) : (sliceBody ty rd data).fine := by
  have hp : (packedLoop rd (data.length + 1) data 0 []).fine :=
    packedLoop_total rd hrd _ _ _ _ (by omega)
  have hc : (if (readVarUint data).2 < 0 then (Res.err : Res (List OCall × Nat)) else
      countLoop rd false (readVarUint data).1 (data.drop (readVarUint data).2.toNat)
        (readVarUint data).2.toNat []).fine := by
    split
    · trivial
    · exact countLoop_total rd false data.length (fun b _ => hrd b) _ _ _ _
        (by simp only [List.length_drop]; omega)
  cases ty <;> first | exact hp | exact hc | trivial

mutual
theorem descRead_fine : (d : Desc) → d.ok → ∀ data, (descRead d data).fine
  | ⟨i, nm, ty, tn, els, ep, lt⟩, hok, data => by
    simp only [Desc.ok] at hok
    cases ty with
    | int => rw [descRead_int _ rfl]; exact leafRead_fine_int _ _
    | uint => rw [descRead_uint _ rfl]; exact leafRead_fine_uint _ _
    | float32 => rw [descRead_f32 _ rfl]; exact leafRead_fine_f32 _ _
    | float64 => rw [descRead_f64 _ rfl]; exact leafRead_fine_f64 _ _
    | string => rw [descRead_string _ rfl]; exact leafRead_fine_str _ _
    | bool => rw [descRead_bool _ rfl]; exact leafRead_fine_bool _ _
    | time => rw [descRead_time _ rfl]; exact leafRead_fine_time _ _
    | jsonObject => rw [descRead_jsonObject _ rfl]; exact jsonWalk_fine _ _ _ (by omega)
    | jsonArray => rw [descRead_jsonArray _ rfl]; exact jsonWalk_fine _ _ _ (by omega)
    | flatInt =>
      by_cases hl : lt = .timestamp
      · rw [descRead_bq _ rfl hl]; exact bqRead_fine _
      · rw [descRead_flat _ rfl hl]; exact leafRead_fine_flat _ _
    | slice =>
      match els, hok with
      | [], hok => exact absurd rfl (hok.1 rfl)
      | e :: r, hok =>
        rw [descRead_slice]
        simp only [Desc.okList] at hok
        exact wrapCalls_fine _ _ (sliceBody_fine _ _ (fun b => descRead_fine e hok.2.1 b) _)
    | struct =>
      cases hv : entryValid .struct lt els with
      | false =>
        rw [descRead_struct _ _ _ _ _ _ _ hv]
        exact wrapCalls_fine _ _ (walkLoop_total _ data.length
          (fun idx wt body acc _ => descField_fine els hok.2 idx wt body acc) _ _ _ _ (by omega) (by omega))
      | true =>
        match els, hok, hv with
        | [k, v], hok, hv =>
          rw [descRead_entry _ _ _ _ _ _ _ _ hv]
          simp only [Desc.okList] at hok
          exact entryWalk_fine k v _ _ (fun b => descRead_fine k hok.2.1 b)
            (fun b => descRead_fine v hok.2.2.1 b) _
        | [], _, hv => simp [entryValid] at hv
        | [_], _, hv => simp [entryValid] at hv
        | _ :: _ :: _ :: _, _, hv => simp [entryValid] at hv
theorem descField_fine : (els : List Desc) → Desc.okList els →
    ∀ idx wt body acc, (descField els idx wt body acc).fine
  | [], _, idx, wt, body, acc => by
    rw [descField]
    rcases fine_cases (skip_fine body wt) with ⟨n, e⟩ | e <;> simp [e, Res.fine]
  | e :: r, hok, idx, wt, body, acc => by
    simp only [Desc.okList] at hok
    rw [descField]
    split
    · have := framed_total (fun b => descRead e b) wt body body.length
        (fun b _ => descRead_fine e hok.1 b) (by omega)
      rcases fine_cases this with ⟨⟨cs, n⟩, e'⟩ | e' <;> simp [e', Res.fine]
    · exact descField_fine r hok.2 idx wt body acc
end

mutual
theorem descriptor_ok : (t : Ty) → (descriptor t).ok
  | .bool | .int _ | .uint _ | .flat _ | .f32 | .f64 | .str _ | .bytes | .time _ => by
      simp [descriptor, Desc.ok, Desc.okList]
  | .ptr t => by
      have := descriptor_ok t
      simp only [descriptor]
      generalize descriptor t = d at this ⊢
      cases d; simpa [Desc.ok] using this
  | .vslice t | .fslice t | .lslice t | .pslice t => by
      simp [descriptor, Desc.ok, Desc.okList, descriptor_ok t]
  | .struct n fs => by
      simp [descriptor, Desc.ok, fieldDescs_ok fs]
  | .map k v _ => by
      have hk := descriptor_ok k
      have hv := descriptor_ok v
      simp only [descriptor, mapDesc]
      generalize descriptor k = dk at hk ⊢
      generalize descriptor v = dv at hv ⊢
      cases dk; cases dv
      simp only [Desc.ok] at hk hv
      simp [Desc.ok, Desc.okList, hk.2, hv.2]
      exact ⟨hk.1, hv.1⟩
theorem fieldDescs_ok : (fs : Fields) → Desc.okList (fieldDescs fs)
  | [] => by simp [fieldDescs, Desc.okList]
  | (i, nm, t) :: r => by
      have ht := descriptor_ok t
      simp only [fieldDescs, Desc.okList]
      refine ⟨?_, fieldDescs_ok r⟩
      generalize descriptor t = d at ht ⊢
      cases d; simpa [Desc.ok] using ht
end

end DW
