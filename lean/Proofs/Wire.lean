import Proofs.Varint
/-
  Proofs.Wire — tags and Skip.
-/

/-- a value below 2^(7k) takes at most k bytes. -/
theorem len_le_of_lt (k : Nat) : ∀ v, 0 < k → v < 2 ^ (7 * k) → (appendVarUint v).length ≤ k := by
  induction k with
  | zero => intro v h; omega
  | succ k ih =>
    intro v _ hv
    by_cases h : v < 128
    · rw [len_append_small v h]; omega
    · have hge : 128 ≤ v := by omega
      rw [len_append_step v hge]
      have hk : 0 < k := by
        rcases Nat.eq_zero_or_pos k with h0 | h0
        · subst h0; simp at hv; omega
        · exact h0
      have : v / 128 < 2 ^ (7 * k) := by
        apply (Nat.div_lt_iff_lt_mul (by omega)).mpr
        have : 2 ^ (7 * (k + 1)) = 2 ^ (7 * k) * 128 := by
          rw [show 7 * (k + 1) = 7 * k + 7 by omega, Nat.pow_add]
        omega
      have := ih (v / 128) hk this
      omega

/-- a value of at least 2^(7k) takes more than k bytes. -/
theorem len_gt_of_ge (k : Nat) : ∀ v, 2 ^ (7 * k) ≤ v → k < (appendVarUint v).length := by
  induction k with
  | zero => intro v _; exact append_len_pos v
  | succ k ih =>
    intro v hv
    have e : 2 ^ (7 * (k + 1)) = 2 ^ (7 * k) * 128 := by
      rw [show 7 * (k + 1) = 7 * k + 7 by omega, Nat.pow_add]
    have hp : 0 < 2 ^ (7 * k) := Nat.pow_pos (by omega)
    have hge : 128 ≤ v := by
      have : 2 ^ (7 * k) * 128 ≥ 128 := Nat.le_mul_of_pos_left _ hp
      omega
    rw [len_append_step v hge]
    have : 2 ^ (7 * k) ≤ v / 128 := (Nat.le_div_iff_mul_le (by omega)).mpr (by omega)
    have := ih (v / 128) this
    omega

theorem len_le_ten (v : Nat) (h : v < 2 ^ 64) : (appendVarUint v).length ≤ 10 :=
  len_le_of_lt 10 v (by omega) (by omega)

/-! ### tags -/

theorem code_lt (wt : WT) : wt.code < 8 := by cases wt <;> simp [WT.code]

theorem ofCode_code (wt : WT) : WT.ofCode wt.code = wt := by cases wt <;> rfl

theorem tag_roundtrip (wt : WT) (idx : Nat) (h : idx < 2 ^ 61) (rest : Bytes) :
    readTag (appendTag wt idx ++ rest) = some (wt, idx, (appendTag wt idx).length) := by
  have hc := code_lt wt
  have hlt : idx * 8 + wt.code < 2 ^ 64 := by omega
  unfold readTag appendTag
  rw [Nat.mod_eq_of_lt hlt, readU_append _ hlt]
  have e1 : (idx * 8 + wt.code) % 8 = wt.code := by omega
  have e2 : (idx * 8 + wt.code) / 8 = idx := by omega
  simp only [e1, e2, ofCode_code]

theorem sizeTag_eq_len (wt : WT) (idx : Nat) : sizeTag wt idx = (appendTag wt idx).length := by
  unfold sizeTag appendTag; exact size_eq_len _

/-! ### Skip: never panics, never hangs, never over-runs -/

theorem skipVarint_le : ∀ (d : Bytes) (i n : Nat), skipVarint d i = .ok n → n ≤ i + d.length
  | [], i, n, h => by simp [skipVarint] at h
  | b :: r, i, n, h => by
    simp only [skipVarint] at h
    split at h
    · split at h
      · simp at h
      · injection h with h; simp only [List.length_cons]; omega
    · split at h
      · simp at h
      · have := skipVarint_le r (i + 1) n h
        simp only [List.length_cons]; omega

theorem skipVarint_fine : ∀ (d : Bytes) (i : Nat), (skipVarint d i).fine
  | [], i => by simp [skipVarint, Res.fine]
  | b :: r, i => by
    simp only [skipVarint]
    split
    · split <;> simp [Res.fine]
    · split
      · simp [Res.fine]
      · exact skipVarint_fine r (i + 1)

theorem skipEntries_spec (d : Bytes) : ∀ (fuel count offset : Nat),
    d.length < fuel + offset → offset ≤ d.length →
    (skipEntries fuel count d offset).fine ∧ ∀ n, skipEntries fuel count d offset = .ok n → n ≤ d.length := by
  intro fuel
  induction fuel with
  | zero => intro count offset h1 h2; omega
  | succ f ih =>
    intro count offset h1 h2
    rw [skipEntries]
    by_cases hc : count = 0
    · simp only [hc, ↓reduceIte, Res.fine, true_and]
      intro n hn; injection hn with hn; omega
    · simp only [hc, ↓reduceIte]
      by_cases ho : offset ≥ d.length
      · simp [ho, Res.fine]
      · simp only [ho, ↓reduceIte]
        cases hr : readU (d.drop offset) with
        | none => simp [Res.fine]
        | some p =>
          obtain ⟨l, n⟩ := p
          have ⟨hn0, hnl⟩ := readU_le _ _ _ hr
          simp only [List.length_drop] at hnl
          simp only
          by_cases hl : l > d.length - offset - n
          · simp [hl, Res.fine]
          · simp only [hl, ↓reduceIte]
            apply ih
            · omega
            · omega

/-- `Skip` is total on arbitrary bytes: a length within the input, or an error. -/
theorem skip_total (d : Bytes) (wt : WT) :
    (skip d wt).fine ∧ ∀ n, skip d wt = .ok n → n ≤ d.length := by
  cases wt with
  | varint =>
    simp only [skip]
    exact ⟨skipVarint_fine d 0, fun n h => by have := skipVarint_le d 0 n h; omega⟩
  | w64 =>
    simp only [skip]
    split
    · simp [Res.fine]
    · simp only [Res.fine, true_and]; intro n h; injection h with h; omega
  | w32 =>
    simp only [skip]
    split
    · simp [Res.fine]
    · simp only [Res.fine, true_and]; intro n h; injection h with h; omega
  | len =>
    simp only [skip]
    cases hr : readU d with
    | none => simp [Res.fine]
    | some p =>
      obtain ⟨l, n⟩ := p
      have ⟨hn0, hnl⟩ := readU_le _ _ _ hr
      simp only
      split
      · simp [Res.fine]
      · simp only [Res.fine, true_and]; intro m h; injection h with h; omega
  | slice =>
    simp only [skip]
    cases hr : readU d with
    | none => simp [Res.fine]
    | some p =>
      obtain ⟨c, n⟩ := p
      have ⟨hn0, hnl⟩ := readU_le _ _ _ hr
      exact skipEntries_spec d (d.length + 1) c n (by omega) hnl
  | endGroup => simp [skip, Res.fine]
  | bad6 => simp [skip, Res.fine]
  | bad7 => simp [skip, Res.fine]

/-! ### Skip over well-formed fields is exact -/

/-- what still fits after `i` bytes of a 64-bit varint: 7 bits per byte, one bit in the tenth. -/
theorem varint_bound_step : ∀ i, i ≤ 8 → 2 ^ (64 - 7 * i) = 128 * 2 ^ (64 - 7 * (i + 1)) := by
  intro i hi
  have : i = 0 ∨ i = 1 ∨ i = 2 ∨ i = 3 ∨ i = 4 ∨ i = 5 ∨ i = 6 ∨ i = 7 ∨ i = 8 := by omega
  rcases this with rfl | rfl | rfl | rfl | rfl | rfl | rfl | rfl | rfl <;> decide

theorem skipVarint_append (v : Nat) : ∀ (i : Nat) (rest : Bytes), i ≤ 9 → v < 2 ^ (64 - 7 * i) →
    skipVarint (appendVarUint v ++ rest) i = .ok (i + (appendVarUint v).length) := by
  induction v using Nat.strongRecOn with
  | _ v ih =>
    intro i rest hi9 hb
    by_cases h : v < 128
    · have hl := len_append_small v h
      rw [appendVarUint]
      simp only [h, ↓reduceDIte, List.cons_append, List.nil_append, skipVarint]
      have : (v.toUInt8).toNat = v := toUInt8_toNat_lt v (by omega)
      have hten : ¬ (i = 9 ∧ v > 1) := by
        rintro ⟨rfl, hv⟩
        have : (2 : Nat) ^ (64 - 7 * 9) = 2 := by decide
        omega
      simp [this, h, hten]
    · have hge : 128 ≤ v := by omega
      have hl := len_append_step v hge
      have hi8 : i ≤ 8 := by
        by_cases h9 : i = 9
        · subst h9
          have : (2 : Nat) ^ (64 - 7 * 9) = 2 := by decide
          omega
        · omega
      rw [appendVarUint]
      simp only [h, ↓reduceDIte, List.cons_append, skipVarint]
      have h1 : ((v % 128 + 128).toUInt8).toNat = v % 128 + 128 := toUInt8_toNat_lt _ (by omega)
      have hn : ¬ (v % 128 + 128 < 128) := by omega
      have hi9' : ¬ (i ≥ 9) := by omega
      simp only [h1, hn, ↓reduceIte, hi9']
      have hstep := varint_bound_step i hi8
      have hdiv : v / 128 < 2 ^ (64 - 7 * (i + 1)) := by
        apply Nat.div_lt_of_lt_mul
        rw [← hstep]; exact hb
      rw [ih (v / 128) (by omega) (i + 1) rest (by omega) hdiv]
      congr 1; simp only [List.length_cons]; omega

/-- a run of continuation bytes is stepped over. -/
theorem skipVarint_cont : ∀ (p r : Bytes) (i : Nat), (∀ x ∈ p, 128 ≤ x.toNat) → i + p.length ≤ 9 →
    skipVarint (p ++ r) i = skipVarint r (i + p.length)
  | [], r, i, _, _ => by simp
  | b :: p, r, i, hp, hl => by
    have hb : ¬ b.toNat < 128 := by have := hp b (by simp); omega
    have hi : ¬ i ≥ 9 := by simp only [List.length_cons] at hl; omega
    simp only [List.cons_append, skipVarint, hb, hi, ↓reduceIte]
    rw [skipVarint_cont p r (i + 1) (fun x hx => hp x (by simp [hx])) (by simp only [List.length_cons] at hl; omega)]
    simp only [List.length_cons]; congr 1; omega

/-- ten bytes whose last one holds more than the top bit of a 64-bit value are not a varint. -/
theorem skip_varint_overflow (p : Bytes) (b : UInt8) (rest : Bytes) (hl : p.length = 9)
    (hp : ∀ x ∈ p, 128 ≤ x.toNat) (h2 : 2 ≤ b.toNat) :
    skip (p ++ b :: rest) .varint = .err := by
  simp only [skip]
  rw [skipVarint_cont p (b :: rest) 0 hp (by omega)]
  simp only [Nat.zero_add, hl, skipVarint]
  by_cases hb : b.toNat < 128
  · have : (9 = 9 ∧ b.toNat > 1) := ⟨rfl, by omega⟩
    simp [hb, this]
  · simp [hb]

theorem skip_varint_exact (v : Nat) (hv : v < 2 ^ 64) (rest : Bytes) :
    skip (appendVarUint v ++ rest) .varint = .ok (appendVarUint v).length := by
  have := skipVarint_append v 0 rest (by omega) (by simpa using hv)
  simpa [skip] using this

theorem skip_w64_exact (body rest : Bytes) (h : body.length = 8) :
    skip (body ++ rest) .w64 = .ok 8 := by
  simp [skip, h]

theorem skip_w32_exact (body rest : Bytes) (h : body.length = 4) :
    skip (body ++ rest) .w32 = .ok 4 := by
  simp [skip, h]

theorem skip_len_exact (body rest : Bytes) (h : body.length < 2 ^ 64) :
    skip (appendVarUint body.length ++ body ++ rest) .len
      = .ok ((appendVarUint body.length).length + body.length) := by
  simp only [skip, List.append_assoc]
  rw [readU_append _ h]
  simp only [List.length_append]
  have : ¬ (body.length > (appendVarUint body.length).length + (body.length + rest.length) - (appendVarUint body.length).length) := by omega
  simp only [this, ↓reduceIte]
  congr 1; omega

/-- the entries of a WTSlice field: each a varint length then the body. -/
def entriesBytes (es : List Bytes) : Bytes :=
  es.flatMap fun b => appendVarUint b.length ++ b

theorem skipEntries_exact (rest : Bytes) : ∀ (es : List Bytes) (pre : Bytes) (fuel : Nat),
    (∀ b ∈ es, b.length < 2 ^ 64) → es.length < fuel →
    skipEntries fuel es.length (pre ++ entriesBytes es ++ rest) pre.length
      = .ok (pre.length + (entriesBytes es).length) := by
  intro es
  induction es with
  | nil =>
    intro pre fuel _ hf
    cases fuel with
    | zero => simp at hf
    | succ f => simp [skipEntries, entriesBytes]
  | cons b es ih =>
    intro pre fuel hb hf
    cases fuel with
    | zero => simp at hf
    | succ f =>
      have hbl : b.length < 2 ^ 64 := hb b (by simp)
      rw [skipEntries]
      have e : entriesBytes (b :: es) = (appendVarUint b.length ++ b) ++ entriesBytes es := by
        simp [entriesBytes]
      have hpos := append_len_pos b.length
      have hc : ¬ ((b :: es).length = 0) := by simp
      have ho : ¬ (pre.length ≥ (pre ++ entriesBytes (b :: es) ++ rest).length) := by
        rw [e]; simp only [List.length_append]; omega
      simp only [hc, ho, ↓reduceIte]
      have hd : (pre ++ entriesBytes (b :: es) ++ rest).drop pre.length
          = appendVarUint b.length ++ (b ++ (entriesBytes es ++ rest)) := by
        rw [e]; simp [List.append_assoc]
      rw [hd, readU_append _ hbl]
      simp only
      have hl : ¬ (b.length > (pre ++ entriesBytes (b :: es) ++ rest).length - pre.length - (appendVarUint b.length).length) := by
        rw [e]; simp only [List.length_append]; omega
      simp only [hl, ↓reduceIte, List.length_cons, Nat.add_sub_cancel]
      have := ih (pre ++ (appendVarUint b.length ++ b)) f (fun x hx => hb x (by simp [hx])) (by simpa using hf)
      have e2 : pre ++ (appendVarUint b.length ++ b) ++ entriesBytes es ++ rest
          = pre ++ entriesBytes (b :: es) ++ rest := by
        rw [e]; simp [List.append_assoc]
      rw [e2] at this
      have e3 : (pre ++ (appendVarUint b.length ++ b)).length = pre.length + (b.length + (appendVarUint b.length).length) := by
        simp only [List.length_append]; omega
      rw [e3] at this
      rw [this, e]
      simp only [List.length_append]
      congr 1; omega

theorem skip_slice_exact (es : List Bytes) (rest : Bytes)
    (hc : es.length < 2 ^ 64) (hb : ∀ b ∈ es, b.length < 2 ^ 64) :
    skip (appendVarUint es.length ++ entriesBytes es ++ rest) .slice
      = .ok ((appendVarUint es.length).length + (entriesBytes es).length) := by
  simp only [skip]
  have h := readU_append es.length hc (entriesBytes es ++ rest)
  rw [List.append_assoc, h]
  simp only
  have := skipEntries_exact rest es (appendVarUint es.length)
    ((appendVarUint es.length ++ (entriesBytes es ++ rest)).length + 1) hb (by
      have : es.length ≤ (entriesBytes es).length := by
        clear hc hb h
        induction es with
        | nil => simp
        | cons b es ih =>
          have e : entriesBytes (b :: es) = (appendVarUint b.length ++ b) ++ entriesBytes es := by
            simp [entriesBytes]
          have := append_len_pos b.length
          rw [e]; simp only [List.length_append, List.length_cons]; omega
      simp only [List.length_append]; omega)
  rw [List.append_assoc] at this
  exact this
