import Plenc.Alloc
import Proofs.Varint
/-
  Proofs.Alloc — the capacity a counted container requests is bounded by the
  count AND by the bytes of its body (every entry takes at least its length byte).
-/

theorem entriesPresentAux_le_max : ∀ (fuel : Nat) (d : Bytes) (max i : Nat), i ≤ max →
    entriesPresentAux fuel d max i ≤ max
  | 0, _, _, _, h => by simpa [entriesPresentAux] using h
  | fuel+1, d, max, i, h => by
    unfold entriesPresentAux
    split
    · exact h
    · rename_i hc
      have hlt : i < max := by
        by_cases hh : i ≥ max
        · exact absurd (Or.inl hh) hc
        · omega
      split
      · exact h
      · split
        · exact h
        · exact entriesPresentAux_le_max fuel _ max (i + 1) (by omega)

theorem entriesPresentAux_le_len : ∀ (fuel : Nat) (d : Bytes) (max i : Nat),
    entriesPresentAux fuel d max i ≤ i + d.length
  | 0, _, _, _ => by simp [entriesPresentAux]
  | fuel+1, d, max, i => by
    unfold entriesPresentAux
    split
    · omega
    · split
      · omega
      · rename_i l n hr
        have ⟨hn0, hnl⟩ := readU_le d l n hr
        split
        · omega
        · have ih := entriesPresentAux_le_len fuel (d.drop (n + l)) max (i + 1)
          have hd : (d.drop (n + l)).length = d.length - (n + l) := List.length_drop
          omega

theorem entriesPresent_le_max (d : Bytes) (max : Nat) : entriesPresent d max ≤ max :=
  entriesPresentAux_le_max _ d max 0 (Nat.zero_le _)

theorem entriesPresent_le_len (d : Bytes) (max : Nat) : entriesPresent d max ≤ d.length := by
  have := entriesPresentAux_le_len (d.length + 1) d max 0
  unfold entriesPresent; omega
