import Plenc.BQTime
import Proofs.Varint
import Proofs.SizeApp
/-
  Proofs.BQTime — laws of the BigQuery timestamp codec (C05, C01-style round trip).
-/
namespace BQTime

theorem v64 : validWidth 64 := .inr (.inr (.inr rfl))

theorem wrapU64_lt (x : Int) : wrapU 64 x < 2 ^ 64 := wrapU_lt 64 x v64

theorem wrapS_range (x : Int) : intRange 64 (wrapS 64 x) := by
  unfold intRange wrapS
  simp only [Nat.reduceSub, Int.reducePow]
  split <;> omega

theorem wrapS_id64 (x : Int) (h : intRange 64 x) : wrapS 64 x = x := by
  unfold intRange at h
  unfold wrapS
  simp only [Nat.reduceSub, Int.reducePow] at h ⊢
  split <;> omega

/-- C05 for this codec: the reported size is the number of bytes appended, with any tag. -/
theorem size_eq_append (sec nsec : Int) (tag : Bytes) : size sec nsec tag = (app sec nsec tag).length := by
  unfold size app
  rw [List.length_append, size_eq_len]
  omega

/-- framing: tagged = tag ++ untagged. -/
theorem app_tag (sec nsec : Int) (tag : Bytes) : app sec nsec tag = tag ++ app sec nsec [] := by
  simp [app]

/-- reading the body back consumes exactly its length and yields the time
truncated to microseconds — for every time whose microsecond count fits int64. -/
theorem read_app (sec nsec : Int) (rest : Bytes) (hn : 0 ≤ nsec ∧ nsec < 1000000000)
    (hr : intRange 64 (sec * 1000000 + nsec / 1000)) :
    read (app sec nsec [] ++ rest) = .ok ((sec, nsec / 1000 * 1000), (app sec nsec []).length) := by
  unfold read app
  simp only [List.nil_append]
  rw [read_append _ (wrapU64_lt _)]
  have hm : unixMicro sec nsec = sec * 1000000 + nsec / 1000 := wrapS_id64 _ hr
  simp only [Int.ofNat_eq_natCast, Int.toNat_natCast]
  have hneg : ¬ ((appendVarUint (wrapU 64 (unixMicro sec nsec))).length : Int) < 0 := by omega
  rw [if_neg hneg, wrapS_wrapU 64 _ v64 (by rw [hm]; exact hr), hm]
  unfold ofMicro
  have e1 : (sec * 1000000 + nsec / 1000) / 1000000 = sec := by omega
  have e2 : (sec * 1000000 + nsec / 1000) % 1000000 = nsec / 1000 := by omega
  rw [e1, e2]

/-- the decoder is total: any byte string gives a value or an error, and never
claims more than the input. -/
theorem read_total (data : Bytes) : read data = .err ∨ ∃ t n, read data = .ok (t, n) := by
  unfold read
  simp only
  split
  · exact .inl rfl
  · exact .inr ⟨_, _, rfl⟩

end BQTime
