import Proofs.RoundTrip
import Proofs.Total
/-
  Proofs.Merge — decoding into a target that already holds data (property C10).

  `mergeVal` / `mergeFields` / `mergePos` are the merge SPEC, written from the
  documented rules (not from `Ty.read`):
    * scalars, strings, byte strings, times: the decoded value replaces the prior;
    * packed and length-prefixed slices (`vslice`, `fslice`, `lslice`): the
      decoded slice holds exactly the encoded elements (normalised);
    * the protobuf repeated-field form (`pslice`): the encoded elements are
      appended to the prior elements;
    * pointers: merge into the pointee of a non-nil prior, else into a zero value;
    * structs: a field absent from the data (`v.omit`) keeps the prior value of
      that field, a present field is merged recursively;
    * maps (both forms): for each encoded entry in order, the value is merged
      into the value currently stored under the (normalised) key — into a zero
      value if there is none — and stored with `mapSet` semantics (existing key
      in place, new key appended); an entry whose value is the zero value stores
      the zero value ("No value - use the nil value", map.go).

  Main results: `read_merge` (all sixteen constructors, the C01 shapes),
  `merge_zero` (for a fresh target the merge is the round-trip normalisation).
  The proof generalises the C01 invariants `RT.RTVal` / `RT.RTField` from the
  zero prior to an arbitrary prior of the right `Total.Shape`.
-/
namespace Merge
open RT Total
/-- the elements a slice target already holds (a target of another kind holds none). -/
def slicePrior : Val → List Val
  | .slice vs => vs
  | _ => []

mutual
/-- merge of a value `v` that is present in the data into the prior value `p` of
its target. The prior projections (`ptrPrior`: pointee of a non-nil pointer, else
zero; `structPrior`: the field values; `mapPrior`: the entries of a non-nil map,
else none; `slicePrior`) are plain case distinctions on the prior. -/
def mergeVal : Ty → Val → Val → Val
  | .ptr t, p, .ptr (some x) => .ptr (some (mergeVal t (ptrPrior t p) x))
  | .pslice t, p, .slice vs => .slice (slicePrior p ++ vs.map (elemNorm t))
  | .struct _ fs, p, .struct vs => .struct (mergeFields fs (structPrior fs p) vs)
  | .map k v pr, p, .map (some es) =>
      if pr = true ∧ es.isEmpty then p
      else .map (some (es.foldl (fun acc e =>
        mapSet (k.normPos e.1)
          (if e.2.omit then v.zero
           else mergeVal v ((mapLookup (k.normPos e.1) acc).getD v.zero) e.2) acc) (mapPrior p)))
  | t, _, v => t.norm v
/-- field-wise merge: `fs` the fields, then their prior values, then the encoded
values. A field whose encoded value is omitted is absent from the data. -/
def mergeFields : Fields → List Val → List Val → List Val
  | (_, _, t) :: r, p :: ps, v :: vs => (if v.omit then p else mergeVal t p v) :: mergeFields r ps vs
  | _, ps, _ => ps
end

/-- merge of one encoded map entry into the entries stored so far (the step of
the fold inside `mergeVal`, see `mergeVal_map`). -/
def mergeEntry (k v : Ty) (acc : List (Val × Val)) (e : Val × Val) : List (Val × Val) :=
  mapSet (k.normPos e.1)
    (if e.2.omit then v.zero else mergeVal v ((mapLookup (k.normPos e.1) acc).getD v.zero) e.2) acc

theorem mergeVal_ptr (t : Ty) (p x : Val) :
    mergeVal (.ptr t) p (.ptr (some x)) = .ptr (some (mergeVal t (ptrPrior t p) x)) := by
  simp only [mergeVal]

theorem mergeVal_pslice (t : Ty) (p : Val) (vs : List Val) :
    mergeVal (.pslice t) p (.slice vs) = .slice (slicePrior p ++ vs.map (elemNorm t)) := by
  simp only [mergeVal]

theorem mergeVal_struct (nm : String) (fs : Fields) (p : Val) (vs : List Val) :
    mergeVal (.struct nm fs) p (.struct vs) = .struct (mergeFields fs (structPrior fs p) vs) := by
  simp only [mergeVal]

theorem mergeVal_map (k v : Ty) (pr : Bool) (p : Val) (es : List (Val × Val)) :
    mergeVal (.map k v pr) p (.map (some es))
      = if pr = true ∧ es.isEmpty then p else .map (some (es.foldl (mergeEntry k v) (mapPrior p))) := by
  simp only [mergeVal]; rfl

/-- the codecs whose reader ignores the prior value of the target (called with
their own wire type). -/
def Ty.priorFree : Ty → Bool
  | .ptr _ | .pslice _ | .struct _ _ | .map _ _ _ => false
  | _ => true

theorem mergeVal_priorFree (t : Ty) (h : Ty.priorFree t = true) (p v : Val) : mergeVal t p v = t.norm v := by
  cases t <;> first | (simp [Ty.priorFree] at h; done) | simp only [mergeVal]

theorem read_priorFree (t : Ty) (h : Ty.priorFree t = true) (d : Bytes) (p : Val) :
    t.read t.wt d p = t.read t.wt d t.zero := by
  have hw : ¬ (WT.slice = WT.len) := by decide
  cases t <;> first | (simp [Ty.priorFree] at h; done) | simp only [Ty.read, Ty.wt, hw, ↓reduceIte]


/-! ### the invariants -/

def MVal (t : Ty) : Prop :=
  ∀ v p, t.hasTy v → v ≠ .ptr none → v ≠ .map none → Shape t p → (t.app v []).length < 2 ^ 64 →
    (t.wt = .len → t.read .len (t.app v []) p = .ok (mergeVal t p v, (t.app v []).length)) ∧
    (t.wt ≠ .len → ∀ rest, t.read t.wt (t.app v [] ++ rest) p = .ok (mergeVal t p v, (t.app v []).length))

def MField (t : Ty) : Prop :=
  ∀ (i : Nat) (v a : Val), i < 2 ^ 61 → t.hasTy v → v.omit = false → Shape t a →
    (t.app v (appendTag t.wt i)).length < 2 ^ 64 →
    ∀ (rd : Nat → WT → Bytes → List Val → Res (List Val × Nat)) (put : Val → List Val),
      (∀ wt body a, rd i wt body (put a) = Res.mapFst put (fieldRead t wt body a)) →
      ∀ (fuel : Nat) (rest : Bytes) (off : Nat), (t.app v (appendTag t.wt i) ++ rest).length < fuel →
        structLoop rd fuel (t.app v (appendTag t.wt i) ++ rest) off (put a)
          = structLoop rd fuel rest (off + (t.app v (appendTag t.wt i)).length) (put (mergeVal t a v))

theorem mval_priorFree (t : Ty) (hf : Ty.priorFree t = true) (h : RTVal t) : MVal t := by
  intro v p hty hv hv2 _ hsz
  have := h v hty hv hv2 hsz
  rw [mergeVal_priorFree t hf]
  refine ⟨fun hl => ?_, fun hl rest => ?_⟩
  · have e := read_priorFree t hf (t.app v []) p
    rw [hl] at e
    rw [e]; exact this.1 hl
  · rw [read_priorFree t hf]; exact this.2 hl rest

theorem mval_ptr (u : Ty) (hu : u.isPtr = false) (hm : u.isMap = false) (h : MVal u) : MVal (.ptr u) := by
  intro v p hty hv _ hp hsz
  cases v with
  | ptr o =>
    cases o with
    | none => exact absurd rfl hv
    | some x =>
      simp only [Ty.hasTy] at hty
      have hx : x ≠ .ptr none := ne_ptr_none_of_not_ptr u hu x hty
      simp only [Ty.app] at hsz
      have := h x (ptrPrior u p) hty hx (ne_map_none_of_not_map u hm x hty) (ptrPrior_shape u p hp) hsz
      simp only [Ty.wt, Ty.app, mergeVal_ptr]
      refine ⟨fun hl => ?_, fun hl rest => ?_⟩
      · rw [read_ptr_norm]; simp only [Ty.read, this.1 hl]
      · rw [read_ptr_norm]; simp only [Ty.read, this.2 hl rest]
  | _ => simp [Ty.hasTy] at hty

/-- a single-frame field. -/
theorem mField_of_val (t : Ty) (hwf : t.wf) (hs : Ty.rtShape false t) (h : MVal t) : MField t := by
  intro i v a hi hty hom hsa hsz rd put hrd fuel rest off hf
  have hv := ne_ptr_none_of_not_omit v hom
  have hv2 := ne_map_none_of_not_omit v hom
  have hpres := present_of_shape t hs v hty hv
  have htag := appendTag_ne_nil t.wt i
  by_cases hw : t.wt = .len
  · have hE := app_frame_len t v (appendTag t.wt i) hwf hty hpres hw (deref_not_rep t hs) htag
    rw [hE] at hsz hf ⊢
    generalize hB : t.app v [] = B at hsz hf h ⊢
    simp only [List.length_append] at hsz
    have hBl : B.length < 2 ^ 64 := by omega
    have hread := (h v a hty hv hv2 hsa (by rw [hB]; exact hBl)).1 hw
    rw [hB] at hread
    simp only [List.append_assoc] at hf ⊢
    have hstep : rd i t.wt (appendVarUint B.length ++ (B ++ rest)) (put a)
        = .ok (put (mergeVal t a v), (appendVarUint B.length).length + B.length) := by
      rw [hrd, hw, fieldRead_len t B rest _ hBl, hread]; rfl
    rw [structLoop_step rd fuel t.wt i hi _ off _ _ _ (by simp only [List.length_append]; omega) hstep hf]
    have hd : (appendVarUint B.length ++ (B ++ rest)).drop ((appendVarUint B.length).length + B.length) = rest := by
      rw [← List.append_assoc]; exact drop_append_len _ _ _ (by simp only [List.length_append])
    rw [hd]
    simp only [List.length_append]
  · have hE := app_frame_other t v (appendTag t.wt i) hwf hty hpres hw
    rw [hE] at hsz hf ⊢
    generalize hB : t.app v [] = B at hsz hf h ⊢
    simp only [List.length_append] at hsz
    have hBl : B.length < 2 ^ 64 := by omega
    have hread := (h v a hty hv hv2 hsa (by rw [hB]; exact hBl)).2 hw rest
    rw [hB] at hread
    simp only [List.append_assoc] at hf ⊢
    have hstep : rd i t.wt (B ++ rest) (put a) = .ok (put (mergeVal t a v), B.length) := by
      rw [hrd, fieldRead_other t t.wt hw, hread]; rfl
    rw [structLoop_step rd fuel t.wt i hi _ off _ _ _ (by simp only [List.length_append]; omega) hstep hf]
    rw [drop_append_len _ _ _ rfl]
    simp only [List.length_append]

/-! ### repeated field: elements are appended to the prior elements -/

theorem read_pslice_norm (t : Ty) (wt : WT) (d : Bytes) (p : Val) :
    (Ty.pslice t).read wt d p = (Ty.pslice t).read wt d (.slice (slicePrior p)) := by
  cases p <;> simp only [Ty.read, slicePrior]

theorem mField_pslice (t : Ty) (hwf : (Ty.pslice t).wf) (hs : Ty.rtShape false t) (ih : RTVal t) :
    MField (.pslice t) := by
  intro i v a hi hty hom _ hsz rd put hrd fuel rest off hf
  cases v with
  | slice vs =>
    have hE := pslice_frames t vs (appendTag (Ty.pslice t).wt i) hwf hty (deref_not_rep t hs)
      (appendTag_ne_nil _ _)
    rw [hE] at hsz hf ⊢
    simp only [Ty.wf] at hwf
    simp only [Ty.hasTy] at hty
    simp only [Ty.wt] at hsz hf hrd ⊢
    rw [mergeVal_pslice]
    cases vs with
    | nil => simp [Val.omit] at hom
    | cons x xs =>
      simp only [List.flatMap_cons, List.length_append, elemFrame, List.append_assoc] at hsz hf ⊢
      generalize hB : t.app x [] = B at hsz hf ⊢
      generalize hEE : (xs.flatMap fun v => appendTag WT.len i ++ (appendVarUint (t.app v []).length ++ t.app v [])) = E
        at hsz hf ⊢
      have hBl : B.length < 2 ^ 64 := by omega
      have hread := rt_elem t hwf.1 hs hwf.2.1 hwf.2.2.1 ih x (hty x (by simp)) (by rw [hB]; exact hBl)
      rw [hB] at hread
      have hread' : (Ty.pslice t).read .len B a
          = .ok (.slice (slicePrior a ++ [elemNorm t x]), B.length) := by
        rw [read_pslice_norm]; simp only [Ty.read, hread]
      rw [frame_step (.pslice t) i hi rd put hrd B (E ++ rest) hBl a _ hread' fuel off
        (by simp only [List.length_append]; omega)]
      have := pslice_loop t hwf.1 hs hwf.2.1 hwf.2.2.1 ih i hi rd put hrd xs (slicePrior a ++ [elemNorm t x]) fuel rest
        (off + ((appendTag WT.len i).length + ((appendVarUint B.length).length + B.length)))
        (fun y hy => hty y (by simp [hy]))
      simp only [elemFrame, List.append_assoc, hEE] at this
      rw [this (by omega) (by simp only [List.length_append]; omega)]
      simp only [List.map_cons, List.singleton_append, Nat.add_assoc]
  | _ => simp [Ty.hasTy] at hty


/-! ### structs: absent fields keep the prior value, present fields are merged -/

theorem struct_loop_m (fs : Fields) (hnd : (fs.map (·.1)).Nodup) (hidx : ∀ f ∈ fs, f.1 < 2 ^ 61)
    (hall : ∀ f ∈ fs, MField f.2.2) :
    ∀ (suf : Fields) (vsuf psuf : List Val) (pre : Fields) (apre : List Val),
      fs = pre ++ suf → apre.length = pre.length → fieldsHaveTy suf vsuf → ShapeL suf psuf →
      ∀ (fuel off : Nat), (fieldsApp suf vsuf).length < fuel → (fieldsApp suf vsuf).length < 2 ^ 64 →
      structLoop (fun idx wt body acc => readField fs acc idx wt body) fuel (fieldsApp suf vsuf) off
          (apre ++ psuf)
        = .ok (apre ++ mergeFields suf psuf vsuf, off + (fieldsApp suf vsuf).length) := by
  intro suf
  induction suf with
  | nil =>
    intro vsuf psuf pre apre _ _ hty hps fuel off hf _
    cases vsuf with
    | nil =>
      simp only [ShapeL] at hps
      subst hps
      simp only [fieldsApp, mergeFields, List.length_nil, Nat.add_zero]
      exact structLoop_nil _ _ _ _ (by omega)
    | cons _ _ => simp [fieldsHaveTy] at hty
  | cons f suf ih =>
    obtain ⟨i, nm, t⟩ := f
    intro vsuf psuf pre apre hfs hl hty hps fuel off hf hsz
    cases vsuf with
    | nil => simp [fieldsHaveTy] at hty
    | cons v vs =>
      cases psuf with
      | nil => simp [ShapeL] at hps
      | cons p ps =>
      simp only [ShapeL] at hps
      obtain ⟨hpt, hpr⟩ := hps
      simp only [fieldsHaveTy] at hty
      obtain ⟨htv, htr⟩ := hty
      have hfs' : fs = (pre ++ [(i, nm, t)]) ++ suf := by simp [hfs]
      have hmem : (i, nm, t) ∈ fs := by simp [hfs]
      have hni : i ∉ pre.map (·.1) := by
        rw [hfs] at hnd
        simp only [List.map_append, List.map_cons] at hnd
        have := (List.nodup_append.mp hnd).2.2
        intro hm
        exact this i hm i (by simp) rfl
      cases ho : v.omit with
      | true =>
        have e1 : fieldsApp ((i, nm, t) :: suf) (v :: vs) = fieldsApp suf vs := by
          simp [fieldsApp, ho]
        have e2 : apre ++ p :: ps = (apre ++ [p]) ++ ps := by simp
        have e3 : apre ++ mergeFields ((i, nm, t) :: suf) (p :: ps) (v :: vs)
            = (apre ++ [p]) ++ mergeFields suf ps vs := by
          simp [mergeFields, ho]
        rw [e1] at hf hsz ⊢
        rw [e2, e3]
        exact ih vs ps (pre ++ [(i, nm, t)]) (apre ++ [p]) hfs' (by simp [hl]) htr hpr fuel off hf hsz
      | false =>
        have e1 : fieldsApp ((i, nm, t) :: suf) (v :: vs)
            = t.app v (appendTag t.wt i) ++ fieldsApp suf vs := by
          simp [fieldsApp, ho]
        have e2 : apre ++ p :: ps = (fun x => apre ++ x :: ps) p := rfl
        have e3 : apre ++ mergeFields ((i, nm, t) :: suf) (p :: ps) (v :: vs)
            = (apre ++ [mergeVal t p v]) ++ mergeFields suf ps vs := by
          simp [mergeFields, ho]
        rw [e1] at hf hsz ⊢
        rw [e2, e3]
        simp only [List.length_append] at hsz
        have hmf : MField t := hall (i, nm, t) hmem
        have hrt := hmf i v p (hidx _ hmem) htv ho hpt (by omega)
          (fun idx wt body acc => readField fs acc idx wt body) (fun x => apre ++ x :: ps)
          (fun wt body a => by
            simp only [hfs]
            exact readField_at pre i nm t suf hni apre hl a ps wt body)
          fuel (fieldsApp suf vs) off hf
        rw [hrt]
        simp only [List.length_append] at hf
        have := ih vs ps (pre ++ [(i, nm, t)]) (apre ++ [mergeVal t p v]) hfs' (by simp [hl]) htr hpr fuel
          (off + (t.app v (appendTag t.wt i)).length) (by omega) (by omega)
        simp only [List.append_assoc, List.singleton_append] at this
        rw [this]
        simp only [List.append_assoc, List.singleton_append, List.length_append, Nat.add_assoc]

theorem mval_struct (nm : String) (fs : Fields) (hwf : (Ty.struct nm fs).wf)
    (hall : ∀ f ∈ fs, MField f.2.2) : MVal (.struct nm fs) := by
  intro v p hty _ _ hp hsz
  cases v with
  | struct vs =>
    refine ⟨fun _ => ?_, fun h => by simp [Ty.wt] at h⟩
    simp only [Ty.wf] at hwf
    simp only [Ty.hasTy] at hty
    simp only [struct_body] at hsz ⊢
    have := struct_loop_m fs hwf.1 hwf.2.1 hall fs vs (structPrior fs p) [] [] (by simp) rfl hty
      (structPrior_shape nm fs p hp) ((fieldsApp fs vs).length + 1) 0 (by omega) hsz
    simp only [List.nil_append, Nat.zero_add] at this
    rw [read_struct_norm]
    simp only [Ty.read, this, mergeVal_struct]
  | _ => simp [Ty.hasTy] at hty


/-! ### maps: entries are merged by key -/

/-- `field_decode` with a prior: the value of a map entry is read into the slot
currently stored under the key. -/
theorem field_decode_m (t : Ty) (hwf : t.wf) (hs : Ty.rtShape false t) (h : MVal t)
    (x s : Val) (hty : t.hasTy x) (hom : x.omit = false) (hss : Shape t s) (j : Nat) (hj : j < 2 ^ 61)
    (hsz : (t.app x (appendTag t.wt j)).length < 2 ^ 64) (rest : Bytes) :
    ∃ hdr fl, readTagAndLength (t.app x (appendTag t.wt j) ++ rest) = some (t.wt, j, hdr, fl) ∧
      0 < hdr ∧ hdr ≤ (t.app x (appendTag t.wt j)).length ∧
      t.read t.wt (((t.app x (appendTag t.wt j) ++ rest).drop hdr).take fl) s
        = .ok (mergeVal t s x, (t.app x (appendTag t.wt j)).length - hdr) := by
  have hv := ne_ptr_none_of_not_omit x hom
  have hv2 := ne_map_none_of_not_omit x hom
  have hpres := present_of_shape t hs x hty hv
  have htag := appendTag_ne_nil t.wt j
  have htl := appendTag_len_pos t.wt j
  by_cases hw : t.wt = .len
  · have hE := app_frame_len t x (appendTag t.wt j) hwf hty hpres hw (deref_not_rep t hs) htag
    rw [hE] at hsz ⊢
    generalize hB : t.app x [] = B at hsz h ⊢
    simp only [List.length_append] at hsz
    have hBl : B.length < 2 ^ 64 := by omega
    have hread := (h x s hty hv hv2 hss (by rw [hB]; exact hBl)).1 hw
    rw [hB] at hread
    refine ⟨(appendTag t.wt j).length + (appendVarUint B.length).length, B.length, ?_, by omega, ?_, ?_⟩
    · simp only [List.append_assoc]
      rw [hw]
      exact readTagAndLength_len j hj B rest hBl
    · simp only [List.length_append]; omega
    · have hd : (appendTag t.wt j ++ appendVarUint B.length ++ B ++ rest).drop
          ((appendTag t.wt j).length + (appendVarUint B.length).length) = B ++ rest := by
        rw [List.append_assoc]; exact drop_append_len _ _ _ (by simp only [List.length_append])
      rw [hd, take_append_len _ _ _ rfl, hw, hread]
      simp only [List.length_append]
      congr 2; omega
  · have hE := app_frame_other t x (appendTag t.wt j) hwf hty hpres hw
    rw [hE] at hsz ⊢
    generalize hB : t.app x [] = B at hsz h ⊢
    simp only [List.length_append] at hsz
    have hBl : B.length < 2 ^ 64 := by omega
    have hread := (h x s hty hv hv2 hss (by rw [hB]; exact hBl)).2 hw rest
    rw [hB] at hread
    refine ⟨(appendTag t.wt j).length, (B ++ rest).length, ?_, htl, ?_, ?_⟩
    · rw [List.append_assoc]
      exact readTagAndLength_other t.wt hw j hj (B ++ rest)
    · simp only [List.length_append]; omega
    · rw [List.append_assoc, drop_append_len _ _ _ rfl, List.take_length, hread]
      simp only [List.length_append]
      congr 2; omega

theorem slot_shape (v : Ty) (key : Val) (es : List (Val × Val)) (hes : ∀ e ∈ es, Shape v e.2) :
    Shape v ((mapLookup key es).getD v.zero) := by
  cases h : mapLookup key es with
  | none => exact shape_zero v
  | some x =>
    obtain ⟨e, he, rfl⟩ := mapLookup_mem key es x h
    exact hes e he

/-- one encoded entry, decoded onto the entries stored so far. -/
theorem entry_merge (k v : Ty) (hkwf : k.wf) (hvwf : v.wf) (hks : Ty.rtShape false k)
    (hvs : Ty.rtShape false v) (ihk : RTVal k) (ihv : MVal v) (e : Val × Val)
    (hk : k.hasTy e.1) (hv : v.hasTy e.2) (hsz : (entryBody k v e).length < 2 ^ 64)
    (es : List (Val × Val)) (hes : ∀ e' ∈ es, Shape v e'.2) :
    readMapEntry (fun wt b => k.read wt b k.zero) (fun wt b s => v.read wt b s) k.zero v.zero
        (entryBody k v e) es
      = .ok (mergeEntry k v es e, (entryBody k v e).length) := by
  obtain ⟨x, y⟩ := e
  simp only at hk hv
  cases hox : x.omit with
  | true =>
    cases hoy : y.omit with
    | true =>
      simp only [entryBody, mergeEntry, Ty.normPos, hox, hoy, ↓reduceIte, List.append_nil, List.length_nil]
      exact readMapEntry_none _ _ _ _ es
    | false =>
      simp only [entryBody, mergeEntry, Ty.normPos, hox, hoy, ↓reduceIte, Bool.false_eq_true, List.nil_append] at hsz ⊢
      obtain ⟨hdr, fl, h1, _, hle, h2⟩ := field_decode_m v hvwf hvs ihv y _ hv hoy
        (slot_shape v k.zero es hes) 2 (by omega) hsz []
      rw [List.append_nil] at h1 h2
      exact readMapEntry_v _ _ _ _ _ v.wt hdr fl _ es h1 h2 hle
  | false =>
    cases hoy : y.omit with
    | true =>
      simp only [entryBody, mergeEntry, Ty.normPos, hox, hoy, ↓reduceIte, Bool.false_eq_true, List.append_nil] at hsz ⊢
      obtain ⟨hdr, fl, h1, _, hle, h2⟩ := field_decode k hkwf hks ihk x hk hox 1 (by omega) hsz []
      rw [List.append_nil] at h1 h2
      exact readMapEntry_k _ _ _ _ _ k.wt hdr fl _ es h1 h2 hle
    | false =>
      simp only [entryBody, mergeEntry, Ty.normPos, hox, hoy, ↓reduceIte, Bool.false_eq_true] at hsz ⊢
      simp only [List.length_append] at hsz
      obtain ⟨hdr, fl, h1, _, hle, h2⟩ := field_decode k hkwf hks ihk x hk hox 1 (by omega) (by omega)
        (v.app y (appendTag v.wt 2))
      obtain ⟨hdr2, fl2, h3, hpos2, hle2, h4⟩ := field_decode_m v hvwf hvs ihv y _ hv hoy
        (slot_shape v (k.norm x) es hes) 2 (by omega) (by omega) []
      rw [List.append_nil] at h3 h4
      exact readMapEntry_kv _ _ _ _ _ _ k.wt v.wt hdr fl hdr2 fl2 2 _ _ es h1 h2 hle h3 h4 hle2 (by omega)

/-- the stored values keep the shape of the value codec. -/
theorem entry_merge_shape (k v : Ty) (hkwf : k.wf) (hvwf : v.wf) (d : Bytes) (es es' : List (Val × Val)) (m : Nat)
    (hes : ∀ e' ∈ es, Shape v e'.2)
    (h : readMapEntry (fun wt b => k.read wt b k.zero) (fun wt b s => v.read wt b s) k.zero v.zero d es
      = .ok (es', m)) : ∀ e' ∈ es', Shape v e'.2 :=
  ((mapEntry_arm k v (good_ty k (noDiv0_of_wf k hkwf)) (good_ty v (noDiv0_of_wf v hvwf)) d es hes).2 es' m h).2

/-- every entry of a typed map decodes, in order, onto the entries merged so far. -/
theorem entries_merge (k v : Ty) (hkwf : k.wf) (hvwf : v.wf) (hks : k.keySafe)
    (hvs : Ty.rtShape false v) (ihk : RTVal k) (ihv : MVal v) (es : List (Val × Val))
    (htys : ∀ e ∈ es, k.hasTy e.1 ∧ v.hasTy e.2)
    (hsz : ∀ e ∈ es, (entryBody k v e).length < 2 ^ 64) :
    ∀ e ∈ es, ∀ acc : List (Val × Val), (∀ e' ∈ acc, Shape v e'.2) →
      (entryBody k v e).length < 2 ^ 64 ∧
      readMapEntry (fun wt b => k.read wt b k.zero) (fun wt b s => v.read wt b s) k.zero v.zero
          (entryBody k v e) acc = .ok (mergeEntry k v acc e, (entryBody k v e).length) ∧
      (∀ e' ∈ mergeEntry k v acc e, Shape v e'.2) := by
  intro e he acc hacc
  have h := entry_merge k v hkwf hvwf (keySafe_shape k hks) hvs ihk ihv e (htys e he).1 (htys e he).2
    (hsz e he) acc hacc
  exact ⟨hsz e he, h, entry_merge_shape k v hkwf hvwf _ acc _ _ hacc h⟩

theorem mapLoop_fold (rdEntry : Bytes → List (Val × Val) → Res (List (Val × Val) × Nat))
    (body : Val × Val → Bytes) (step : List (Val × Val) → Val × Val → List (Val × Val))
    (I : List (Val × Val) → Prop) :
    ∀ (ents acc : List (Val × Val)) (rest : Bytes) (off : Nat), I acc →
      (∀ e ∈ ents, ∀ acc, I acc → (body e).length < 2 ^ 64 ∧
        rdEntry (body e) acc = .ok (step acc e, (body e).length) ∧ I (step acc e)) →
      mapLoop rdEntry ents.length
          (ents.flatMap (fun e => appendVarUint (body e).length ++ body e) ++ rest) off acc
        = .ok (ents.foldl step acc,
            off + (ents.flatMap (fun e => appendVarUint (body e).length ++ body e)).length) := by
  intro ents
  induction ents with
  | nil => intro acc rest off _ _; simp [mapLoop]
  | cons e ents ih =>
    intro acc rest off hI H
    obtain ⟨hl, hr, hI'⟩ := H e (by simp) acc hI
    simp only [List.length_cons, List.flatMap_cons, List.append_assoc, mapLoop]
    rw [readU_append _ hl]
    simp only [drop_append_len _ _ _ rfl, List.length_append]
    have hgt : ¬ ((body e).length >
        (body e).length + ((ents.flatMap fun e => appendVarUint (body e).length ++ body e).length + rest.length)) := by
      omega
    simp only [hgt, ↓reduceIte, take_append_len _ _ _ rfl, hr]
    have hd : List.drop ((appendVarUint (body e).length).length + (body e).length)
        (appendVarUint (body e).length ++ (body e ++
          ((ents.flatMap fun e => appendVarUint (body e).length ++ body e) ++ rest)))
        = (ents.flatMap fun e => appendVarUint (body e).length ++ body e) ++ rest := by
      rw [← List.append_assoc]
      exact drop_append_len _ _ _ (by simp [List.length_append])
    rw [hd, ih (step acc e) rest _ hI' (fun e' he' => H e' (by simp [he']))]
    simp only [List.foldl_cons, Nat.add_assoc]

theorem mval_map (k v : Ty) (hwf : (Ty.map k v false).wf) (hks : k.keySafe) (hvs : Ty.rtShape false v)
    (ihk : RTVal k) (ihv : MVal v) : MVal (.map k v false) := by
  intro x p hty _ hx hp hsz
  cases x with
  | map o =>
    cases o with
    | none => exact absurd rfl hx
    | some es =>
      refine ⟨fun h => by simp [Ty.wt] at h, fun _ rest => ?_⟩
      have he := map_entries k v es [] hwf hty
      simp only [List.nil_append] at he
      rw [he] at hsz ⊢
      simp only [Ty.wf] at hwf
      simp only [Ty.hasTy] at hty
      have hle := entryBody_le k v es
      have H := entries_merge k v hwf.1 hwf.2.1 hks hvs ihk ihv es hty.1 (fun e he => by
        have := hle e he
        simp only [List.length_append] at hsz
        omega)
      have hloop := mapLoop_fold
        (readMapEntry (fun wt b => k.read wt b k.zero) (fun wt b s => v.read wt b s) k.zero v.zero)
        (entryBody k v) (mergeEntry k v) (fun acc => ∀ e' ∈ acc, Shape v e'.2) es (mapPrior p) rest
        (appendVarUint es.length).length (mapPrior_shape k v false p hp) H
      generalize hE : (es.flatMap fun e => appendVarUint (entryBody k v e).length ++ entryBody k v e) = E
        at hsz hloop ⊢
      have hcnt : es.length ≤ E.length := by
        rw [← hE]
        apply length_le_flatMap_length
        intro e _
        have := append_len_pos (entryBody k v e).length
        simp only [List.length_append]; omega
      simp only [List.length_append] at hsz
      have hn : es.length < 2 ^ 64 := by omega
      have hne : (appendVarUint es.length ++ E ++ rest).isEmpty = false := by
        have := append_len_pos es.length
        cases h : appendVarUint es.length ++ E ++ rest with
        | nil =>
          have := congrArg List.length h
          simp only [List.length_append, List.length_nil] at this; omega
        | cons _ _ => rfl
      have hc : ¬ (es.length > (appendVarUint es.length).length + (E.length + rest.length)
          - (appendVarUint es.length).length) := by omega
      have hnf : ¬ (false = true ∧ es.isEmpty = true) := by simp
      rw [read_map_norm k v _ _ p hne]
      simp only [Ty.read, hne, Bool.false_eq_true, ↓reduceIte]
      simp only [List.append_assoc, readU_append _ hn, List.length_append, hc, ↓reduceIte,
        drop_append_len _ _ _ rfl, hloop, mergeVal_map, hnf]
  | _ => simp [Ty.hasTy] at hty

/-! ### proto maps: one frame per entry, merged into the prior map -/

theorem pmap_loop_fold (k v : Ty) (i : Nat) (hi : i < 2 ^ 61)
    (rd : Nat → WT → Bytes → List Val → Res (List Val × Nat)) (put : Val → List Val)
    (hrd : ∀ wt body a, rd i wt body (put a) = Res.mapFst put (fieldRead (.map k v true) wt body a))
    (I : List (Val × Val) → Prop) :
    ∀ (ents acc : List (Val × Val)) (fuel : Nat) (rest : Bytes) (off : Nat), I acc →
      (∀ e ∈ ents, ∀ acc, I acc → (entryBody k v e).length < 2 ^ 64 ∧
        readMapEntry (fun wt b => k.read wt b k.zero) (fun wt b s => v.read wt b s) k.zero v.zero
            (entryBody k v e) acc = .ok (mergeEntry k v acc e, (entryBody k v e).length) ∧
        I (mergeEntry k v acc e)) →
      ((ents.flatMap fun e => appendTag .len i ++ (appendVarUint (entryBody k v e).length ++ entryBody k v e))
          ++ rest).length < fuel →
      structLoop rd fuel
          ((ents.flatMap fun e => appendTag .len i ++ (appendVarUint (entryBody k v e).length ++ entryBody k v e))
            ++ rest) off (put (.map (some acc)))
        = structLoop rd fuel rest
            (off + (ents.flatMap fun e =>
              appendTag .len i ++ (appendVarUint (entryBody k v e).length ++ entryBody k v e)).length)
            (put (.map (some (ents.foldl (mergeEntry k v) acc)))) := by
  intro ents
  induction ents with
  | nil => intro acc fuel rest off _ _ _; simp
  | cons e ents ih =>
    intro acc fuel rest off hI H hf
    obtain ⟨hl, hr, hI'⟩ := H e (by simp) acc hI
    simp only [List.flatMap_cons, List.append_assoc, List.length_append] at hf ⊢
    have hread : (Ty.map k v true).read .len (entryBody k v e) (.map (some acc))
        = .ok (.map (some (mergeEntry k v acc e)), (entryBody k v e).length) := by
      simp only [Ty.read, hr]
    rw [frame_step (.map k v true) i hi rd put hrd (entryBody k v e) _ hl _ _ hread fuel off
      (by simp only [List.length_append]; omega)]
    rw [ih (mergeEntry k v acc e) fuel rest _ hI' (fun e' he' => H e' (by simp [he']))
      (by simp only [List.length_append]; omega)]
    simp only [List.foldl_cons, Nat.add_assoc]

theorem mField_pmap (k v : Ty) (hwf : (Ty.map k v true).wf) (hks : k.keySafe) (hvs : Ty.rtShape false v)
    (ihk : RTVal k) (ihv : MVal v) : MField (.map k v true) := by
  intro i x a hi hty hom hsa hsz rd put hrd fuel rest off hf
  cases x with
  | map o =>
    cases o with
    | none => simp [Val.omit] at hom
    | some es =>
      have he := pmap_frames k v es (appendTag (Ty.map k v true).wt i) hwf hty
      rw [he] at hsz hf ⊢
      simp only [Ty.wf] at hwf
      simp only [Ty.hasTy] at hty
      simp only [Ty.wt, List.append_assoc] at hsz hf hrd ⊢
      have hle : ∀ e ∈ es, (entryBody k v e).length < 2 ^ 64 := by
        intro e he
        have := length_le_flatMap_of_mem
          (fun e => appendTag .len i ++ (appendVarUint (entryBody k v e).length ++ entryBody k v e)) es e he
        simp only [List.length_append] at this
        omega
      have H := entries_merge k v hwf.1 hwf.2.1 hks hvs ihk ihv es hty.1 hle
      rw [mergeVal_map]
      cases es with
      | nil => simp
      | cons e es' =>
        obtain ⟨hl, hr, hI'⟩ := H e (by simp) (mapPrior a) (mapPrior_shape k v true a hsa)
        simp only [List.flatMap_cons, List.append_assoc, List.length_append] at hf ⊢
        have hread : (Ty.map k v true).read .len (entryBody k v e) a
            = .ok (.map (some (mergeEntry k v (mapPrior a) e)), (entryBody k v e).length) := by
          rw [read_pmap_norm]; simp only [Ty.read, hr]
        simp only [List.isEmpty_cons, Bool.false_eq_true, and_false, ↓reduceIte]
        rw [frame_step (.map k v true) i hi rd put hrd (entryBody k v e) _ hl _ _ hread fuel off
          (by simp only [List.length_append]; omega)]
        rw [pmap_loop_fold k v i hi rd put hrd (fun acc => ∀ e' ∈ acc, Shape v e'.2) es' _ fuel rest _ hI'
          (fun e' he' => H e' (by simp [he'])) (by simp only [List.length_append]; omega)]
        simp only [List.foldl_cons, Nat.add_assoc]
  | _ => simp [Ty.hasTy] at hty


/-! ### assembly over the codec tree -/

def PPm (t : Ty) : Prop :=
  t.wf → (Ty.rtShape false t → MVal t) ∧ (Ty.rtShape true t → MField t)

theorem ppm_of_val (t : Ty) (hr : t.isProtoRep = false)
    (h : t.wf → Ty.rtShape false t → MVal t) : PPm t := by
  intro hwf
  refine ⟨h hwf, fun hs => ?_⟩
  have hs' := shape_false_of_true t hr hs
  exact mField_of_val t hwf hs' (h hwf hs')

theorem rtVal_of (t : Ty) (hwf : t.wf) (hs : Ty.rtShape false t) : RTVal t := (pp_ty t hwf).1 hs

theorem ppm_free (t : Ty) (hf : Ty.priorFree t = true) : PPm t :=
  ppm_of_val t (by cases t <;> first | rfl | simp [Ty.priorFree] at hf)
    (fun hwf hs => mval_priorFree t hf (rtVal_of t hwf hs))

theorem ppm_ptr (u : Ty) (ih : PPm u) : PPm (.ptr u) :=
  ppm_of_val _ rfl (fun hwf hs => by
    simp only [Ty.wf] at hwf
    simp only [Ty.rtShape] at hs
    exact mval_ptr u hs.1 hwf.2 ((ih hwf.1).1 hs.2))

theorem ppm_pslice (u : Ty) : PPm (.pslice u) := by
  intro hwf
  refine ⟨fun hs => by simp [Ty.rtShape] at hs, fun hs => ?_⟩
  simp only [Ty.rtShape, true_and] at hs
  exact mField_pslice u hwf hs (rtVal_of u hwf.1 hs)

theorem ppm_struct (nm : String) (fs : Fields) (ih : ∀ f ∈ fs, PPm f.2.2) : PPm (.struct nm fs) :=
  ppm_of_val _ rfl (fun hwf hs => by
    simp only [Ty.rtShape] at hs
    exact mval_struct nm fs hwf (fun f hf =>
      (ih f hf (fieldsWf_mem fs hwf.2.2 f hf)).2 (fieldsRtShape_mem fs hs f hf)))

theorem ppm_map (k v : Ty) (p : Bool) (ihv : PPm v) : PPm (.map k v p) := by
  cases p with
  | false =>
    exact ppm_of_val _ rfl (fun hwf hs => by
      simp only [Ty.rtShape] at hs
      exact mval_map k v hwf hs.2.1 hs.2.2 (rtVal_of k hwf.1 (keySafe_shape k hs.2.1)) ((ihv hwf.2.1).1 hs.2.2))
  | true =>
    intro hwf
    refine ⟨fun hs => by simp [Ty.rtShape] at hs, fun hs => ?_⟩
    simp only [Ty.rtShape] at hs
    exact mField_pmap k v hwf hs.2.1 hs.2.2 (rtVal_of k hwf.1 (keySafe_shape k hs.2.1)) ((ihv hwf.2.1).1 hs.2.2)

mutual
theorem ppm_ty : (t : Ty) → PPm t
  | .bool => ppm_free _ rfl
  | .int _ => ppm_free _ rfl
  | .uint _ => ppm_free _ rfl
  | .flat _ => ppm_free _ rfl
  | .f32 => ppm_free _ rfl
  | .f64 => ppm_free _ rfl
  | .str _ => ppm_free _ rfl
  | .bytes => ppm_free _ rfl
  | .time _ => ppm_free _ rfl
  | .vslice _ => ppm_free _ rfl
  | .fslice _ => ppm_free _ rfl
  | .lslice _ => ppm_free _ rfl
  | .ptr u => ppm_ptr u (ppm_ty u)
  | .pslice u => ppm_pslice u
  | .struct nm fs => ppm_struct nm fs (ppm_fields fs)
  | .map k v p => ppm_map k v p (ppm_ty v)
theorem ppm_fields : (fs : Fields) → ∀ f ∈ fs, PPm f.2.2
  | [] => by intro f hf; simp at hf
  | (_, _, t) :: r => by
      intro f hf
      rcases List.mem_cons.mp hf with rfl | hf
      · exact ppm_ty t
      · exact ppm_fields r f hf
end

/-! ### top level -/

/-- The merge rule at the top level (`Unmarshal(data, &target)`): a value that
`Marshal` omits (zero scalar, empty string or slice, nil map — never a struct)
produces no bytes; decoding no bytes resets a scalar / string / slice target to
its zero value and leaves a map target unchanged.  Every other value is merged
by `mergeVal`. -/
def mergePos (t : Ty) (p v : Val) : Val :=
  if v.omit then (if t.isMap then p else t.zero) else mergeVal t p v

theorem read_nil_prior (t : Ty) (hwf : t.wf) (hs : Ty.rtShape false t) (hp : t.isPtr = false)
    (hns : ∀ nm fs, t ≠ .struct nm fs) (p : Val) :
    t.read t.wt [] p = .ok (if t.isMap then p else t.zero, 0) := by
  by_cases hf : Ty.priorFree t = true
  · rw [read_priorFree t hf, read_nil t hwf hs hp]
    have : t.isMap = false := by cases t <;> first | rfl | simp [Ty.priorFree] at hf
    simp [this]
  · cases t with
    | ptr u => simp [Ty.isPtr] at hp
    | pslice u => simp [Ty.rtShape] at hs
    | struct nm fs => exact absurd rfl (hns nm fs)
    | map k v pr =>
      cases pr with
      | true => simp [Ty.rtShape] at hs
      | false => simp [Ty.read, Ty.isMap]
    | _ => simp [Ty.priorFree] at hf

/-- C10 (value level): decoding the encoding of `v` into a target holding
`prior` yields the merge of `v` into `prior`. -/
theorem read_merge (t : Ty) (v prior : Val) (hwf : t.wf) (hshape : Ty.rtShape false t) (hnp : t.isPtr = false)
    (hty : t.hasTy v) (hprior : Shape t prior) (hsz : (marshal t v).length < 2 ^ 63) :
    unmarshal t (marshal t v) prior = .ok (mergePos t prior v) := by
  unfold marshal at hsz ⊢
  unfold unmarshal mergePos
  cases ho : v.omit with
  | true =>
    have hns : ∀ nm fs, t ≠ .struct nm fs := by
      intro nm fs e; subst e
      cases v <;> simp_all [Ty.hasTy, Val.omit]
    simp only [↓reduceIte, read_nil_prior t hwf hshape hnp hns]
  | false =>
    simp only [ho, Bool.false_eq_true, ↓reduceIte] at hsz ⊢
    have h := (ppm_ty t hwf).1 hshape v prior hty (ne_ptr_none_of_not_omit v ho)
      (ne_map_none_of_not_omit v ho) hprior (by omega)
    by_cases hw : t.wt = .len
    · rw [hw, h.1 hw]
    · have := h.2 hw []
      rw [List.append_nil] at this
      rw [this]


/-! ### a fresh target: the merge is the round trip -/

theorem fold_zero (k v : Ty) (hks : k.keySafe) (es : List (Val × Val))
    (htys : ∀ e ∈ es, k.hasTy e.1 ∧ v.hasTy e.2) (hd : keysDistinct es)
    (ihv : ∀ x, v.hasTy x → mergeVal v v.zero x = v.norm x) :
    ∀ (suf pre : List (Val × Val)), es = pre ++ suf →
      suf.foldl (mergeEntry k v) (pre.map (entryNorm k v)) = es.map (entryNorm k v) := by
  intro suf
  induction suf with
  | nil => intro pre h; simp [h]
  | cons e suf ih =>
    intro pre h
    have hnew := keys_new k v hks es htys hd pre e suf h
    have hm : e ∈ es := by rw [h]; simp
    have hstep : mergeEntry k v (pre.map (entryNorm k v)) e = (pre ++ [e]).map (entryNorm k v) := by
      have hkey : k.normPos e.1 = (entryNorm k v e).1 := rfl
      unfold mergeEntry
      rw [hkey, mapLookup_none _ _ hnew, mapSet_append _ _ _ hnew]
      simp only [Option.getD_none, List.map_append, List.map_cons, List.map_nil]
      congr 2
      simp only [entryNorm]
      cases ho : e.2.omit with
      | true => simp
      | false => simp [ihv e.2 (htys e hm).2]
    rw [List.foldl_cons, hstep]
    exact ih (pre ++ [e]) (by simp [h])

mutual
theorem mergeVal_zero : (t : Ty) → (b : Bool) → Ty.rtShape b t → ∀ v, t.hasTy v →
    mergeVal t t.zero v = t.norm v
  | .bool, _, _, _, _ | .int _, _, _, _, _ | .uint _, _, _, _, _ | .flat _, _, _, _, _
  | .f32, _, _, _, _ | .f64, _, _, _, _ | .str _, _, _, _, _ | .bytes, _, _, _, _ | .time _, _, _, _, _
  | .vslice _, _, _, _, _ | .fslice _, _, _, _, _ | .lslice _, _, _, _, _ => mergeVal_priorFree _ rfl _ _
  | .ptr u, b, hs, v, hty => by
      cases v with
      | ptr o =>
        cases o with
        | none => simp only [mergeVal]
        | some x =>
          simp only [Ty.rtShape] at hs
          simp only [Ty.hasTy] at hty
          simp only [mergeVal_ptr, Ty.zero, ptrPrior, Ty.norm, mergeVal_zero u false hs.2 x hty]
      | _ => simp [Ty.hasTy] at hty
  | .pslice u, _, _, v, hty => by
      cases v with
      | slice vs => simp only [mergeVal_pslice, Ty.zero, slicePrior, List.nil_append, norm_pslice]
      | _ => simp [Ty.hasTy] at hty
  | .struct nm fs, _, hs, v, hty => by
      cases v with
      | struct vs =>
        simp only [Ty.rtShape] at hs
        simp only [Ty.hasTy] at hty
        simp only [mergeVal_struct, Ty.zero, structPrior, Ty.norm, mergeFields_zero fs hs vs hty]
      | _ => simp [Ty.hasTy] at hty
  | .map k v pr, _, hs, x, hty => by
      cases x with
      | map o =>
        cases o with
        | none => simp only [mergeVal]
        | some es =>
          simp only [Ty.rtShape] at hs
          simp only [Ty.hasTy] at hty
          rw [mergeVal_map, norm_map]
          by_cases hc : pr = true ∧ es.isEmpty = true
          · simp only [hc, and_self, ↓reduceIte, Ty.zero]
          · simp only [hc, ↓reduceIte, Ty.zero, mapPrior]
            have := fold_zero k v hs.2.1 es hty.1 hty.2 (fun y hy => mergeVal_zero v false hs.2.2 y hy) es [] rfl
            simp only [List.map_nil] at this
            rw [this]
      | _ => simp [Ty.hasTy] at hty
theorem mergeFields_zero : (fs : Fields) → fieldsRtShape fs → ∀ vs, fieldsHaveTy fs vs →
    mergeFields fs (zeros fs) vs = fieldsNorm fs vs
  | [], _, vs, hty => by
      cases vs with
      | nil => simp [mergeFields, zeros, fieldsNorm]
      | cons _ _ => simp [fieldsHaveTy] at hty
  | (_, _, t) :: r, hs, vs, hty => by
      cases vs with
      | nil => simp [fieldsHaveTy] at hty
      | cons v vs =>
        simp only [fieldsRtShape] at hs
        simp only [fieldsHaveTy] at hty
        simp only [mergeFields, zeros, fieldsNorm, mergeFields_zero r hs.2 vs hty.2,
          mergeVal_zero t true hs.1 v hty.1]
end

/-- decoding into a fresh (zero) target: the merge is the documented round-trip
normalisation, independent of any history. -/
theorem merge_zero (t : Ty) (v : Val) (b : Bool) (hshape : Ty.rtShape b t) (hty : t.hasTy v) :
    mergePos t t.zero v = t.normPos v := by
  unfold mergePos Ty.normPos
  cases ho : v.omit with
  | true => simp
  | false => simp only [Bool.false_eq_true, ↓reduceIte]; exact mergeVal_zero t b hshape v hty

end Merge
