import Proofs.RoundTripBasics
/-
  Proofs.RoundTripScalars — the round-trip invariant `RTVal` and its instances
  for the leaf codecs (bool, ints, floats, string, bytes, time), plus the facts
  about empty input ("reading nothing into the zero value yields the zero value").
-/
namespace RT

/-- Round trip of a value that is present on the wire (a pointer is not nil, a
map is not nil — nil maps only occur in zero-omitting positions):
*exact* for the length-delimited kinds (the reader gets exactly the body),
*prefix-stable* for the self-delimiting kinds (the reader gets the rest of the
enclosing message). The reader is always called with the codec's own wire type
and the zero value as prior. -/
def RTVal (t : Ty) : Prop :=
  ∀ v, t.hasTy v → v ≠ .ptr none → v ≠ .map none → (t.app v []).length < 2 ^ 64 →
    (t.wt = .len → t.read .len (t.app v []) t.zero = .ok (t.norm v, (t.app v []).length)) ∧
    (t.wt ≠ .len → ∀ rest, t.read t.wt (t.app v [] ++ rest) t.zero = .ok (t.norm v, (t.app v []).length))

/-! ### scalars -/

theorem norm_scalar (t : Ty) (hs : t.isScalar = true) (v : Val) : t.norm v = v := by
  cases t <;> first | rfl | simp [Ty.isScalar] at hs

theorem wt_scalar (t : Ty) (hs : t.isScalar = true) : t.wt ≠ .len := by
  cases t <;> simp [Ty.isScalar] at hs <;> simp [Ty.wt]

theorem rt_scalar (t : Ty) (hs : t.isScalar = true) (hwf : t.wf) : RTVal t := by
  intro v hty _ _ _
  refine ⟨fun h => absurd h (wt_scalar t hs), fun _ rest => ?_⟩
  rw [scalar_read_exact t v t.wt rest t.zero hs hwf hty, norm_scalar t hs]

/-! ### string, bytes -/

theorem rt_str (b : Bool) : RTVal (.str b) := by
  intro v hty _ _ _
  cases v with
  | str s =>
    refine ⟨fun _ => ?_, fun h => by simp [Ty.wt] at h⟩
    simp [Ty.app, frame, Ty.read, Ty.norm]
  | _ => simp [Ty.hasTy] at hty

theorem rt_bytes : RTVal .bytes := by
  intro v hty _ _ _
  cases v with
  | bytes s =>
    refine ⟨fun _ => ?_, fun h => by simp [Ty.wt] at h⟩
    simp [Ty.app, frame, Ty.read, Ty.norm]
  | _ => simp [Ty.hasTy] at hty

/-! ### time -/

theorem timeField_sec (c : Bool) (wt : WT) (u : Nat) (hu : u < 2 ^ 64) (rest : Bytes) (s ns : Int) :
    timeField c 1 wt (appendVarUint u ++ rest) [.int s, .int ns]
      = .ok ([.int (if c then wrapS 64 u else wrapS 64 (zagZig u)), .int ns], (appendVarUint u).length) := by
  have ⟨h1, h2, h3⟩ := readVarUint_app u hu rest
  simp only [timeField, ↓reduceIte, h1, h2, h3]

theorem timeField_nsec (c : Bool) (wt : WT) (u : Nat) (hu : u < 2 ^ 64) (rest : Bytes) (s ns : Int) :
    timeField c 2 wt (appendVarUint u ++ rest) [.int s, .int ns]
      = .ok ([.int s, .int (if c then wrapS 32 u else wrapS 32 (zagZig u))], (appendVarUint u).length) := by
  have ⟨h1, h2, h3⟩ := readVarUint_app u hu rest
  have h21 : ¬ ((2 : Nat) = 1) := by omega
  simp only [timeField, h21, ↓reduceIte, h1, h2, h3]

/-- the two fields of a time body, read by the time loop from `[0, 0]`. -/
theorem timeLoop (c : Bool) (a b : Nat) (ha : a < 2 ^ 64) (hb : b < 2 ^ 64) (fuel : Nat)
    (hf : ((tag1 ++ appendVarUint a) ++ (tag2 ++ appendVarUint b)).length < fuel) :
    structLoop (timeField c) fuel ((tag1 ++ appendVarUint a) ++ (tag2 ++ appendVarUint b)) 0 [.int 0, .int 0]
      = .ok ([.int (if c then wrapS 64 a else wrapS 64 (zagZig a)),
              .int (if c then wrapS 32 b else wrapS 32 (zagZig b))],
             ((tag1 ++ appendVarUint a) ++ (tag2 ++ appendVarUint b)).length) := by
  have e : (tag1 ++ appendVarUint a) ++ (tag2 ++ appendVarUint b)
      = appendTag .varint 1 ++ (appendVarUint a ++ (appendTag .varint 2 ++ (appendVarUint b ++ []))) := by
    simp [tag1, tag2]
  rw [e] at hf ⊢
  rw [structLoop_step (timeField c) fuel .varint 1 (by omega) _ 0 _ _ _
      (by simp only [List.length_append]; omega) (timeField_sec c .varint a ha _ 0 0) hf]
  rw [drop_append_len _ _ _ rfl]
  simp only [List.length_append] at hf
  rw [structLoop_step (timeField c) fuel .varint 2 (by omega) _ _ _ _ _
      (by simp only [List.length_append]; omega) (timeField_nsec c .varint b hb _ _ 0)
      (by simp only [List.length_append]; omega)]
  rw [drop_append_len _ _ _ rfl, structLoop_nil _ _ _ _ (by omega)]
  simp only [List.length_append, List.length_nil]
  congr 2; omega

theorem timeBody_ne_nil (c : Bool) (sec : Int) (nsec : Nat) : (timeBody c sec nsec).isEmpty = false := by
  unfold timeBody
  have h1 : tag1 = appendVarUint 8 := by simp [tag1, appendTag, WT.code]
  cases c <;> simp only [Bool.false_eq_true, ↓reduceIte] <;>
    cases h : tag1 <;> simp_all [tag1, appendTag_ne_nil]

theorem timeNorm_id (sec : Int) (nsec : Nat) (h1 : intRange 64 sec) (h2 : nsec < 1000000000) :
    timeNorm sec nsec = .time sec nsec := by
  unfold timeNorm
  have e1 : (nsec : Int) / 1000000000 = 0 := by omega
  have e2 : ((nsec : Int) % 1000000000).toNat = nsec := by omega
  rw [e1, e2, Int.add_zero, wrapS_id 64 sec (by simp [validWidth]) h1]

theorem rt_time (c : Bool) : RTVal (.time c) := by
  intro v hty _ _ _
  cases v with
  | time sec nsec =>
    refine ⟨fun _ => ?_, fun h => by simp [Ty.wt] at h⟩
    simp only [Ty.hasTy] at hty
    obtain ⟨hsec, hns⟩ := hty
    have hw64 : validWidth 64 := by simp [validWidth]
    have hw32 : validWidth 32 := by simp [validWidth]
    have hns32 : intRange 32 (nsec : Int) := by unfold intRange; omega
    have hne := timeBody_ne_nil c sec nsec
    simp only [Ty.app, frame, List.isEmpty_nil, ↓reduceIte, Ty.read, hne, Bool.false_eq_true, Ty.norm]
    cases c with
    | false =>
      simp only [timeBody, Bool.false_eq_true, ↓reduceIte, appendVarInt]
      rw [timeLoop false (zigZag sec) (zigZag nsec) (zigZag_lt_of_range 64 sec hw64 hsec)
        (zigZag_lt_of_range 32 _ hw32 hns32) _ (by omega)]
      simp only [Bool.false_eq_true, ↓reduceIte, zagZig_zigZag, wrapS_id 64 sec hw64 hsec,
        wrapS_id 32 _ hw32 hns32, timeNorm_id sec nsec hsec hns]
    | true =>
      simp only [timeBody, ↓reduceIte]
      have hnu : wrapU 32 (nsec : Int) = nsec := wrapU_natCast 32 nsec hw32 (by omega)
      rw [timeLoop true (wrapU 64 sec) (wrapU 32 nsec) (wrapU_lt 64 sec hw64) (wrapU_lt 32 _ hw32) _ (by omega)]
      simp only [↓reduceIte, wrapS_wrapU 64 sec hw64 hsec, hnu, wrapS_id 32 _ hw32 hns32,
        timeNorm_id sec nsec hsec hns]
  | _ => simp [Ty.hasTy] at hty

/-! ### presence, shapes -/

theorem shape_true_of_false : (t : Ty) → Ty.rtShape false t → Ty.rtShape true t := by
  intro t h
  cases t <;> simp_all [Ty.rtShape]

theorem shape_false_of_true (t : Ty) (hr : t.isProtoRep = false) (h : Ty.rtShape true t) :
    Ty.rtShape false t := by
  cases t with
  | map k v p => cases p <;> simp_all [Ty.rtShape, Ty.isProtoRep]
  | _ => simp_all [Ty.rtShape, Ty.isProtoRep]

theorem isPtr_false_not_rep_of_shape (t : Ty) (h : Ty.rtShape false t) : t.isProtoRep = false := by
  cases t with
  | map k v p => cases p <;> simp_all [Ty.rtShape, Ty.isProtoRep]
  | _ => simp_all [Ty.rtShape, Ty.isProtoRep]

theorem deref_of_not_ptr (t : Ty) (h : t.isPtr = false) : t.deref = t := by
  cases t <;> simp_all [Ty.deref, Ty.isPtr]

/-- in the round-trip shapes a pointer chain has length at most one and never
ends in a repeated-field codec. -/
theorem deref_not_rep (t : Ty) (h : Ty.rtShape false t) : t.deref.isProtoRep = false := by
  cases t with
  | ptr u =>
    simp only [Ty.rtShape] at h
    simp only [Ty.deref]
    rw [deref_of_not_ptr u h.1]
    exact isPtr_false_not_rep_of_shape u h.2
  | map k v p => cases p <;> simp_all [Ty.rtShape, Ty.isProtoRep, Ty.deref]
  | _ => simp_all [Ty.rtShape, Ty.isProtoRep, Ty.deref]

theorem present_of_shape (t : Ty) (h : Ty.rtShape false t) (v : Val) (hty : t.hasTy v)
    (hv : v ≠ .ptr none) : v.present = true := by
  cases t with
  | ptr u =>
    simp only [Ty.rtShape] at h
    exact present_of_ne_nil u v h.1 hty hv
  | _ => exact present_of_not_ptr _ v rfl hty

theorem ne_ptr_none_of_not_omit (v : Val) (h : v.omit = false) : v ≠ .ptr none := by
  intro e; subst e; simp [Val.omit] at h

theorem ne_map_none_of_not_omit (v : Val) (h : v.omit = false) : v ≠ .map none := by
  intro e; subst e; simp [Val.omit] at h

theorem ne_map_none_of_not_map (t : Ty) (hp : t.isMap = false) (v : Val) (hty : t.hasTy v) :
    v ≠ .map none := by
  intro e; subst e
  cases t <;> simp_all [Ty.hasTy, Ty.isMap]

theorem ne_ptr_none_of_not_ptr (t : Ty) (hp : t.isPtr = false) (v : Val) (hty : t.hasTy v) :
    v ≠ .ptr none := by
  intro e; subst e
  cases t <;> simp_all [Ty.hasTy, Ty.isPtr]

/-! ### empty input -/

/-- reading no bytes into the zero value gives the zero value (every codec that
is not a pointer wrapper). This is what makes omitted values and nil pointer
elements of length-delimited slices come back as zero values. -/
theorem read_nil (t : Ty) (hwf : t.wf) (hs : Ty.rtShape false t) (hp : t.isPtr = false) :
    t.read t.wt [] t.zero = .ok (t.zero, 0) := by
  cases t with
  | bool => simp [Ty.read, Ty.zero, readVarUint, uvarintAux]
  | int w =>
    simp only [Ty.wf] at hwf
    rcases hwf with rfl | rfl | rfl | rfl <;> simp [Ty.read, Ty.zero, readVarUint, uvarintAux, zagZig, wrapS]
  | uint w => simp [Ty.read, Ty.zero, readVarUint, uvarintAux, wrapU]
  | flat w =>
    simp only [Ty.wf] at hwf
    rcases hwf with rfl | rfl | rfl | rfl <;> simp [Ty.read, Ty.zero, readVarUint, uvarintAux, wrapS]
  | f32 => simp [Ty.read, Ty.zero]
  | f64 => simp [Ty.read, Ty.zero]
  | str b => simp [Ty.read, Ty.zero]
  | bytes => simp [Ty.read, Ty.zero]
  | time c => simp [Ty.read, Ty.zero]
  | ptr u => simp [Ty.isPtr] at hp
  | vslice u => simp [Ty.read, Ty.zero, countVarints, readN]
  | fslice u =>
    simp only [Ty.wf] at hwf
    rcases hwf with rfl | rfl <;> simp [Ty.read, Ty.zero, Ty.size, readN]
  | lslice u => simp [Ty.read, Ty.zero, Ty.wt, readVarUint, uvarintAux, elemLoop]
  | pslice u => simp [Ty.rtShape] at hs
  | struct n fs => simp [Ty.read, Ty.zero, structLoop]
  | map k v p =>
    cases p with
    | true => simp [Ty.rtShape] at hs
    | false => simp [Ty.read, Ty.zero]

end RT
