import Plenc.Spec.Proto
import Plenc.Build
import Proofs.RoundTrip
/-
  Proofs.Proto — property C12: proto-compatible mode emits standard protobuf and
  default mode can read it.

  Part 1: the independent protobuf parser of `Plenc/Spec/Proto.lean` run on the
  model's encoder output (`proto_wellformed`, `no_wt3`, `time_is_timestamp`).
  Part 2: which bytes each switch changes (`switch locality`).
  Part 3: a default-mode codec tree decodes the repeated-field form written by
  its proto-arrays counterpart (`default_reads_repeated`).
-/
namespace ProtoP
open Proto RT

/-! ### the protobuf varint reader on plenc's varint writer -/

theorem varintAux_append (u : Nat) : ∀ (f : Nat) (rest : Bytes), (appendVarUint u).length ≤ f →
    varintAux f (appendVarUint u ++ rest) = some (u, rest) := by
  induction u using Nat.strongRecOn with
  | _ u ih =>
    intro f rest hf
    cases f with
    | zero => have := append_len_pos u; omega
    | succ f =>
      by_cases hlt : u < 128
      · have e : appendVarUint u = [u.toUInt8] := by rw [appendVarUint]; simp [hlt]
        have h1 : (u.toUInt8).toNat = u := toUInt8_toNat_lt u (by omega)
        simp only [e, List.cons_append, List.nil_append, varintAux, h1, hlt, ↓reduceIte]
      · have e : appendVarUint u = (u % 128 + 128).toUInt8 :: appendVarUint (u / 128) := by
          rw [appendVarUint]; simp [hlt]
        have h1 : ((u % 128 + 128).toUInt8).toNat = u % 128 + 128 := toUInt8_toNat_lt _ (by omega)
        have hl := len_append_step u (by omega)
        have hn : ¬ (u % 128 + 128 < 128) := by omega
        simp only [e, List.cons_append, varintAux, h1, hn, ↓reduceIte]
        rw [ih (u / 128) (by omega) f rest (by omega)]
        simp only [Option.some.injEq, Prod.mk.injEq, and_true]
        omega

theorem varint_append (u : Nat) (hu : u < 2 ^ 64) (rest : Bytes) :
    varint (appendVarUint u ++ rest) = some (u, rest) := by
  unfold varint
  rw [varintAux_append u 10 rest (len_le_ten u hu)]
  simp only [hu, ↓reduceIte]

theorem key_append (wt : WT) (i : Nat) (hi : i < 2 ^ 61) (rest : Bytes) :
    varint (appendTag wt i ++ rest) = some (i * 8 + wt.code, rest) := by
  have hc := code_lt wt
  have hlt : i * 8 + wt.code < 2 ^ 64 := by omega
  unfold appendTag
  rw [Nat.mod_eq_of_lt hlt]
  exact varint_append _ hlt rest

/-! ### one record -/

theorem parseOne_varint (i : Nat) (hi : i < 2 ^ 61) (u : Nat) (hu : u < 2 ^ 64) (rest : Bytes) :
    parseOne (appendTag .varint i ++ (appendVarUint u ++ rest))
      = some ((i, .varint, appendVarUint u), rest) := by
  have e1 : (i * 8 + WT.varint.code) % 8 = 0 := by simp [WT.code]
  have e2 : (i * 8 + WT.varint.code) / 8 = i := by simp only [WT.code]; omega
  simp only [parseOne, key_append .varint i hi, e1, e2, ↓reduceIte, varint_append u hu,
    List.length_append, Nat.add_sub_cancel, List.take_left']

theorem parseOne_w64 (i : Nat) (hi : i < 2 ^ 61) (B rest : Bytes) (hB : B.length = 8) :
    parseOne (appendTag .w64 i ++ (B ++ rest)) = some ((i, .w64, B), rest) := by
  have e1 : (i * 8 + WT.w64.code) % 8 = 1 := by simp [WT.code]
  have e2 : (i * 8 + WT.w64.code) / 8 = i := by simp only [WT.code]; omega
  have hn : ¬ ((B ++ rest).length < 8) := by simp only [List.length_append]; omega
  simp only [parseOne, key_append .w64 i hi, e1, e2, ↓reduceIte, hn,
    take_append_len _ _ _ hB.symm, drop_append_len _ _ _ hB.symm]
  simp

theorem parseOne_w32 (i : Nat) (hi : i < 2 ^ 61) (B rest : Bytes) (hB : B.length = 4) :
    parseOne (appendTag .w32 i ++ (B ++ rest)) = some ((i, .w32, B), rest) := by
  have e1 : (i * 8 + WT.w32.code) % 8 = 5 := by simp [WT.code]
  have e2 : (i * 8 + WT.w32.code) / 8 = i := by simp only [WT.code]; omega
  have hn : ¬ ((B ++ rest).length < 4) := by simp only [List.length_append]; omega
  simp only [parseOne, key_append .w32 i hi, e1, e2, ↓reduceIte, hn,
    take_append_len _ _ _ hB.symm, drop_append_len _ _ _ hB.symm]
  simp

theorem parseOne_len (i : Nat) (hi : i < 2 ^ 61) (B rest : Bytes) (hB : B.length < 2 ^ 64) :
    parseOne (appendTag .len i ++ (appendVarUint B.length ++ (B ++ rest))) = some ((i, .len, B), rest) := by
  have e1 : (i * 8 + WT.len.code) % 8 = 2 := by simp [WT.code]
  have e2 : (i * 8 + WT.len.code) / 8 = i := by simp only [WT.code]; omega
  have hn : ¬ (B.length > (B ++ rest).length) := by simp only [List.length_append]; omega
  simp only [parseOne, key_append .len i hi, e1, e2, ↓reduceIte, varint_append _ hB, hn,
    take_append_len _ _ _ rfl, drop_append_len _ _ _ rfl]
  simp

/-! ### messages -/

theorem varintAux_lt : ∀ (f : Nat) (d : Bytes) (x : Nat) (r : Bytes),
    varintAux f d = some (x, r) → r.length < d.length := by
  intro f
  induction f with
  | zero => intro d x r h; simp [varintAux] at h
  | succ f ih =>
    intro d x r h
    cases d with
    | nil => simp [varintAux] at h
    | cons b d =>
      simp only [varintAux] at h
      split at h
      · simp only [Option.some.injEq, Prod.mk.injEq] at h
        rw [← h.2]; simp
      · split at h
        · rename_i x' r' hr
          simp only [Option.some.injEq, Prod.mk.injEq] at h
          have := ih d x' r' hr
          rw [← h.2]; simp only [List.length_cons]; omega
        · simp at h

theorem varint_lt (d : Bytes) (x : Nat) (r : Bytes) (h : varint d = some (x, r)) : r.length < d.length := by
  unfold varint at h
  split at h
  · rename_i x' r' hr
    split at h
    · simp only [Option.some.injEq, Prod.mk.injEq] at h
      rw [← h.2]; exact varintAux_lt 10 d x' r' hr
    · simp at h
  · simp at h

theorem parseOne_lt (d : Bytes) (r : Rec) (rest : Bytes) (h : parseOne d = some (r, rest)) :
    rest.length < d.length := by
  unfold parseOne at h
  split at h
  · simp at h
  · rename_i key r0 hk
    have h0 := varint_lt d key r0 hk
    split at h
    · split at h
      · rename_i x r' hr
        simp only [Option.some.injEq, Prod.mk.injEq] at h
        have := varint_lt r0 x r' hr
        rw [← h.2]; omega
      · simp at h
    · split at h
      · split at h
        · simp at h
        · simp only [Option.some.injEq, Prod.mk.injEq] at h
          rw [← h.2]; simp only [List.length_drop]; omega
      · split at h
        · split at h
          · rename_i l r' hr
            have := varint_lt r0 l r' hr
            split at h
            · simp at h
            · simp only [Option.some.injEq, Prod.mk.injEq] at h
              rw [← h.2]; simp only [List.length_drop]; omega
          · simp at h
        · split at h
          · split at h
            · simp at h
            · simp only [Option.some.injEq, Prod.mk.injEq] at h
              rw [← h.2]; simp only [List.length_drop]; omega
          · simp at h

theorem parseLoop_fuel : ∀ (f1 f2 : Nat) (d : Bytes), d.length < f1 → d.length < f2 →
    parseLoop f1 d = parseLoop f2 d := by
  intro f1
  induction f1 with
  | zero => intro f2 d h; omega
  | succ f1 ih =>
    intro f2 d h1 h2
    cases f2 with
    | zero => omega
    | succ f2 =>
      simp only [parseLoop]
      cases hd : d.isEmpty with
      | true => rfl
      | false =>
        simp only [Bool.false_eq_true, ↓reduceIte]
        cases hp : parseOne d with
        | none => rfl
        | some q =>
          obtain ⟨r, rest⟩ := q
          have := parseOne_lt d r rest hp
          simp only
          rw [ih f2 rest (by omega) (by omega)]

theorem parseMsg_nil : parseMsg [] = some [] := by simp [parseMsg, parseLoop]

theorem parseMsg_cons (d : Bytes) (r : Rec) (rest : Bytes) (h : parseOne d = some (r, rest)) :
    parseMsg d = (parseMsg rest).map (r :: ·) := by
  have hlt := parseOne_lt d r rest h
  have hne : d.isEmpty = false := by cases d <;> simp_all
  unfold parseMsg
  rw [parseLoop]
  simp only [hne, Bool.false_eq_true, ↓reduceIte, h]
  rw [parseLoop_fuel d.length (rest.length + 1) rest hlt (by omega)]
  cases parseLoop (rest.length + 1) rest <;> rfl

/-- every record of a parsed message carries one of the four protobuf wire types. -/
theorem parseOne_wt (d : Bytes) (r : Rec) (rest : Bytes) (h : parseOne d = some (r, rest)) :
    r.2.1 = .varint ∨ r.2.1 = .w64 ∨ r.2.1 = .len ∨ r.2.1 = .w32 := by
  unfold parseOne at h
  split at h
  · simp at h
  · split at h
    · split at h
      · simp only [Option.some.injEq, Prod.mk.injEq] at h; rw [← h.1]; simp
      · simp at h
    · split at h
      · split at h
        · simp at h
        · simp only [Option.some.injEq, Prod.mk.injEq] at h; rw [← h.1]; simp
      · split at h
        · split at h
          · split at h
            · simp at h
            · simp only [Option.some.injEq, Prod.mk.injEq] at h; rw [← h.1]; simp
          · simp at h
        · split at h
          · split at h
            · simp at h
            · simp only [Option.some.injEq, Prod.mk.injEq] at h; rw [← h.1]; simp
          · simp at h

theorem parseLoop_wt : ∀ (f : Nat) (d : Bytes) (rs : List Rec), parseLoop f d = some rs →
    ∀ r ∈ rs, r.2.1 = .varint ∨ r.2.1 = .w64 ∨ r.2.1 = .len ∨ r.2.1 = .w32 := by
  intro f
  induction f with
  | zero => intro d rs h; simp [parseLoop] at h
  | succ f ih =>
    intro d rs h
    simp only [parseLoop] at h
    split at h
    · simp only [Option.some.injEq] at h; subst h; intro r hr; simp at hr
    · split at h
      · simp at h
      · rename_i r0 rest hp
        split at h
        · rename_i rs' hl
          simp only [Option.some.injEq] at h; subst h
          intro r hr
          rcases List.mem_cons.mp hr with rfl | hr
          · exact parseOne_wt d r rest hp
          · exact ih rest rs' hl r hr
        · simp at h


/-! ### proto-mode codec trees -/

mutual
/-- no plenc-only wire form anywhere: no `lslice`, no plenc map, no plenc time. -/
def protoOnly : Ty → Bool
  | .lslice _ => false
  | .map _ _ false => false
  | .map k v true => protoOnly k && protoOnly v
  | .time c => c
  | .ptr t | .vslice t | .fslice t | .pslice t => protoOnly t
  | .struct _ fs => protoOnlyL fs
  | _ => true
def protoOnlyL : Fields → Bool
  | [] => true
  | (_, _, t) :: r => protoOnly t && protoOnlyL r
end

/-- struct-rooted codec trees as the builder produces them with
`ProtoCompatibleArrays` + `ProtoCompatibleTime` and proto-tagged map fields, in
the C01 shapes (`pslice` / proto maps only directly in struct fields). -/
def ProtoStruct (t : Ty) : Prop :=
  (∃ nm fs, t = .struct nm fs) ∧ protoOnly t = true ∧ Ty.rtShape false t

theorem protoOnlyL_mem (fs : Fields) (h : protoOnlyL fs = true) : ∀ f ∈ fs, protoOnly f.2.2 = true := by
  induction fs with
  | nil => intro f hf; simp at hf
  | cons g r ih =>
    obtain ⟨i, n, t⟩ := g
    simp only [protoOnlyL, Bool.and_eq_true] at h
    intro f hf
    rcases List.mem_cons.mp hf with rfl | hf
    · exact h.1
    · exact ih h.2 f hf

/-! ### frames -/

/-- `bs` is a run of complete records of field `i`, each a well-formed record
of schema type `t`. -/
def Frames (i : Nat) (t : Ty) (bs : Bytes) : Prop :=
  ∃ fr : List Rec, (∀ r ∈ fr, r.1 = i ∧ fieldOK t r.2.1 r.2.2 = true) ∧
    ∀ rest, parseMsg (bs ++ rest) = (parseMsg rest).map (fr ++ ·)

theorem frames_nil (i : Nat) (t : Ty) : Frames i t [] :=
  ⟨[], by simp, fun rest => by cases h : parseMsg rest <;> simp [h]⟩

theorem frames_one (i : Nat) (t : Ty) (bs : Bytes) (wt : WT) (p : Bytes)
    (h : ∀ rest, parseOne (bs ++ rest) = some ((i, wt, p), rest)) (hok : fieldOK t wt p = true) :
    Frames i t bs :=
  ⟨[(i, wt, p)], by simp [hok], fun rest => by
    rw [parseMsg_cons _ _ _ (h rest)]; cases parseMsg rest <;> rfl⟩

theorem frames_append (i : Nat) (t : Ty) (a b : Bytes) (ha : Frames i t a) (hb : Frames i t b) :
    Frames i t (a ++ b) := by
  obtain ⟨fa, ha1, ha2⟩ := ha
  obtain ⟨fb, hb1, hb2⟩ := hb
  refine ⟨fa ++ fb, ?_, fun rest => ?_⟩
  · intro r hr
    rcases List.mem_append.mp hr with h | h
    · exact ha1 r h
    · exact hb1 r h
  · rw [List.append_assoc, ha2, hb2]
    cases parseMsg rest <;> simp

theorem frames_flatMap {α : Type} (i : Nat) (t : Ty) (g : α → Bytes) (l : List α)
    (h : ∀ x ∈ l, Frames i t (g x)) : Frames i t (l.flatMap g) := by
  induction l with
  | nil => exact frames_nil i t
  | cons a l ih =>
    simp only [List.flatMap_cons]
    exact frames_append i t _ _ (h a (by simp)) (ih (fun x hx => h x (by simp [hx])))

/-! ### payload facts -/

theorem fieldOK_of_body : (t : Ty) → ∀ p, bodyOK t p = true → fieldOK t .len p = true
  | .str _ | .bytes => by intro p _; simp [fieldOK]
  | .time c => by intro p h; simpa [fieldOK, bodyOK] using h
  | .ptr t => by intro p h; simp only [bodyOK] at h; simp only [fieldOK]; exact fieldOK_of_body t p h
  | .vslice _ => by intro p h; simpa [fieldOK, bodyOK] using h
  | .fslice u => by intro p h; cases u <;> simp_all [fieldOK, bodyOK]
  | .struct _ fs => by intro p h; simpa [fieldOK, bodyOK] using h
  | .bool | .int _ | .uint _ | .flat _ | .f32 | .f64 | .lslice _ | .pslice _ | .map _ _ _ => by
      intro p h; simp [bodyOK] at h

theorem fieldOK_varint : (t : Ty) → t.wt = .varint → ∀ p, fieldOK t .varint p = true
  | .bool | .int _ | .uint _ | .flat _ => by intro _ p; simp [fieldOK]
  | .ptr t => by intro h p; simp only [Ty.wt] at h; simp only [fieldOK]; exact fieldOK_varint t h p
  | .map _ _ b => by intro h; cases b <;> simp [Ty.wt] at h
  | .f32 | .f64 | .str _ | .bytes | .time _ | .vslice _ | .fslice _ | .lslice _ | .pslice _
  | .struct _ _ => by intro h; simp [Ty.wt] at h

theorem fixed64 : (t : Ty) → t.wt = .w64 → ∀ v, t.hasTy v → v.present = true →
    (t.app v []).length = 8 ∧ ∀ p, fieldOK t .w64 p = true
  | .f64 => by
      intro _ v hty _
      cases v <;> simp_all [Ty.hasTy, Ty.app, leBytes_length, fieldOK]
  | .ptr t => by
      intro h v hty hp
      cases v with
      | ptr o =>
        cases o with
        | none => simp [Val.present] at hp
        | some x =>
          simp only [Ty.wt] at h
          simp only [Ty.hasTy] at hty
          simp only [Val.present] at hp
          simp only [Ty.app, fieldOK]
          exact fixed64 t h x hty hp
      | _ => simp [Ty.hasTy] at hty
  | .map _ _ b => by intro h; cases b <;> simp [Ty.wt] at h
  | .bool | .int _ | .uint _ | .flat _ | .f32 | .str _ | .bytes | .time _ | .vslice _ | .fslice _
  | .lslice _ | .pslice _ | .struct _ _ => by intro h; simp [Ty.wt] at h

theorem fixed32 : (t : Ty) → t.wt = .w32 → ∀ v, t.hasTy v → v.present = true →
    (t.app v []).length = 4 ∧ ∀ p, fieldOK t .w32 p = true
  | .f32 => by
      intro _ v hty _
      cases v <;> simp_all [Ty.hasTy, Ty.app, leBytes_length, fieldOK]
  | .ptr t => by
      intro h v hty hp
      cases v with
      | ptr o =>
        cases o with
        | none => simp [Val.present] at hp
        | some x =>
          simp only [Ty.wt] at h
          simp only [Ty.hasTy] at hty
          simp only [Val.present] at hp
          simp only [Ty.app, fieldOK]
          exact fixed32 t h x hty hp
      | _ => simp [Ty.hasTy] at hty
  | .map _ _ b => by intro h; cases b <;> simp [Ty.wt] at h
  | .bool | .int _ | .uint _ | .flat _ | .f64 | .str _ | .bytes | .time _ | .vslice _ | .fslice _
  | .lslice _ | .pslice _ | .struct _ _ => by intro h; simp [Ty.wt] at h

theorem wt_cases : (t : Ty) → t.wt = .varint ∨ t.wt = .w64 ∨ t.wt = .w32 ∨ t.wt = .len ∨ t.wt = .slice
  | .ptr t => by simp only [Ty.wt]; exact wt_cases t
  | .map _ _ b => by cases b <;> simp [Ty.wt]
  | .bool | .int _ | .uint _ | .flat _ | .f32 | .f64 | .str _ | .bytes | .time _ | .vslice _ | .fslice _
  | .lslice _ | .pslice _ | .struct _ _ => by simp [Ty.wt]

theorem wt_ne_slice : (t : Ty) → protoOnly t = true → t.wt ≠ .slice
  | .ptr t => by intro h; simp only [protoOnly] at h; simp only [Ty.wt]; exact wt_ne_slice t h
  | .map _ _ b => by intro h; cases b <;> simp_all [Ty.wt, protoOnly]
  | .lslice _ => by intro h; simp [protoOnly] at h
  | .bool | .int _ | .uint _ | .flat _ | .f32 | .f64 | .str _ | .bytes | .time _ | .vslice _ | .fslice _
  | .pslice _ | .struct _ _ => by intro _; simp [Ty.wt]

theorem varintsOK_flat {α : Type} (enc : α → Bytes) : ∀ (ws : List α) (fuel : Nat),
    (∀ w ∈ ws, ∃ u, u < 2 ^ 64 ∧ enc w = appendVarUint u) → (ws.flatMap enc).length < fuel →
    varintsOK fuel (ws.flatMap enc) = true := by
  intro ws
  induction ws with
  | nil =>
    intro fuel _ hf
    cases fuel with
    | zero => simp at hf
    | succ f => simp [varintsOK]
  | cons w ws ih =>
    intro fuel h hf
    cases fuel with
    | zero => omega
    | succ f =>
      obtain ⟨u, hu, he⟩ := h w (by simp)
      have hpos := append_len_pos u
      simp only [List.flatMap_cons, he, List.length_append] at hf ⊢
      have hne : (appendVarUint u ++ List.flatMap enc ws).isEmpty = false := by
        cases h : appendVarUint u ++ List.flatMap enc ws with
        | nil =>
          have := congrArg List.length h
          simp only [List.length_append, List.length_nil] at this; omega
        | cons _ _ => rfl
      simp only [varintsOK, hne, Bool.false_eq_true, ↓reduceIte, varint_append u hu]
      exact ih f (fun x hx => h x (by simp [hx])) (by omega)

theorem tsOK_timeBody (sec : Int) (nsec : Nat) : tsOK (timeBody true sec nsec) = true := by
  have hw64 : validWidth 64 := by simp [validWidth]
  have hw32 : validWidth 32 := by simp [validWidth]
  have e : timeBody true sec nsec
      = appendTag .varint 1 ++ (appendVarUint (wrapU 64 sec) ++
          (appendTag .varint 2 ++ (appendVarUint (wrapU 32 nsec) ++ []))) := by
    simp [timeBody, tag1, tag2]
  have h2 := parseMsg_cons _ _ _ (parseOne_varint 2 (by omega) (wrapU 32 nsec) (wrapU_lt 32 _ hw32) [])
  rw [parseMsg_nil] at h2
  have h1 := parseMsg_cons _ _ _ (parseOne_varint 1 (by omega) (wrapU 64 sec) (wrapU_lt 64 _ hw64)
    (appendTag .varint 2 ++ (appendVarUint (wrapU 32 nsec) ++ [])))
  rw [h2] at h1
  rw [e]
  simp only [tsOK, h1]
  simp

theorem recOK_of_mem (fs : Fields) (hnd : (fs.map (·.1)).Nodup) (i : Nat) (nm : String) (t : Ty)
    (hm : (i, nm, t) ∈ fs) (wt : WT) (p : Bytes) (h : fieldOK t wt p = true) : recOK fs i wt p = true := by
  induction fs with
  | nil => simp at hm
  | cons g r ih =>
    obtain ⟨j, nj, tj⟩ := g
    simp only [List.map_cons, List.nodup_cons] at hnd
    rcases List.mem_cons.mp hm with e | hm
    · simp only [Prod.mk.injEq] at e
      obtain ⟨rfl, _, rfl⟩ := e
      simp [recOK, h]
    · have hji : ¬ j = i := by
        intro e; subst e
        exact hnd.1 (List.mem_map.mpr ⟨(j, nm, t), hm, rfl⟩)
      simp only [recOK, hji, ↓reduceIte]
      exact ih hnd.2 hm

theorem bodyOK_nil : (t : Ty) → protoOnly t = true → t.wf → t.wt = .len → Ty.rtShape false t →
    bodyOK t [] = true
  | .str _ | .bytes => by intro _ _ _ _; simp [bodyOK]
  | .time c => by intro h _ _ _; simp only [protoOnly] at h; simp [bodyOK, h, tsOK, parseMsg_nil]
  | .ptr t => by
      intro h hwf hw hs
      simp only [protoOnly] at h; simp only [Ty.wt] at hw; simp only [Ty.rtShape] at hs
      simp only [Ty.wf] at hwf
      simp only [bodyOK]; exact bodyOK_nil t h hwf.1 hw hs.2
  | .vslice _ => by intro _ _ _ _; simp [bodyOK, varintsOK]
  | .fslice u => by
      intro _ hwf _ _
      simp only [Ty.wf] at hwf
      rcases hwf with rfl | rfl <;> simp [bodyOK]
  | .struct _ fs => by intro _ _ _ _; simp [bodyOK, parseMsg_nil]
  | .pslice _ => by intro _ _ _ hs; simp [Ty.rtShape] at hs
  | .map _ _ b => by intro h _ hw hs; cases b <;> simp_all [Ty.wt, Ty.rtShape]
  | .bool | .int _ | .uint _ | .flat _ | .f32 | .f64 | .lslice _ => by intro _ _ hw; simp [Ty.wt] at hw


/-! ### the well-formedness laws -/

def BodyLaw (t : Ty) : Prop :=
  ∀ v, t.hasTy v → (t.app v []).length < 2 ^ 64 → bodyOK t (t.app v []) = true

def FieldLaw (t : Ty) : Prop :=
  ∀ i v, i < 2 ^ 61 → t.hasTy v → (t.app v (appendTag t.wt i)).length < 2 ^ 64 →
    Frames i t (t.app v (appendTag t.wt i))

def Law (t : Ty) : Prop :=
  protoOnly t = true → t.wf →
    (Ty.rtShape false t → t.wt = .len → BodyLaw t) ∧ (Ty.rtShape true t → FieldLaw t)

/-- a single record: every codec but the two repeated forms. -/
theorem field_of_body (t : Ty) (hpo : protoOnly t = true) (hwf : t.wf) (hs : Ty.rtShape false t)
    (hb : t.wt = .len → BodyLaw t) : FieldLaw t := by
  intro i v hi hty hsz
  cases hp : v.present with
  | false => rw [app_absent t v _ hp]; exact frames_nil i t
  | true =>
    have htag := appendTag_ne_nil t.wt i
    rcases wt_cases t with hw | hw | hw | hw | hw
    · have hne : t.wt ≠ .len := by rw [hw]; decide
      have hE := app_frame_other t v (appendTag t.wt i) hwf hty hp hne
      have hv : v ≠ .ptr none := by intro e; subst e; simp [Val.present] at hp
      obtain ⟨u, hu, he⟩ := varint_shape t hs hw hwf v hty hv
      rw [hE, he, hw]
      exact frames_one i t _ .varint (appendVarUint u)
        (fun rest => by rw [List.append_assoc]; exact parseOne_varint i hi u hu rest) (fieldOK_varint t hw _)
    · have hne : t.wt ≠ .len := by rw [hw]; decide
      have hE := app_frame_other t v (appendTag t.wt i) hwf hty hp hne
      obtain ⟨hl, hok⟩ := fixed64 t hw v hty hp
      rw [hE, hw]
      exact frames_one i t _ .w64 (t.app v [])
        (fun rest => by rw [List.append_assoc]; exact parseOne_w64 i hi _ rest hl) (hok _)
    · have hne : t.wt ≠ .len := by rw [hw]; decide
      have hE := app_frame_other t v (appendTag t.wt i) hwf hty hp hne
      obtain ⟨hl, hok⟩ := fixed32 t hw v hty hp
      rw [hE, hw]
      exact frames_one i t _ .w32 (t.app v [])
        (fun rest => by rw [List.append_assoc]; exact parseOne_w32 i hi _ rest hl) (hok _)
    · have hE := app_frame_len t v (appendTag t.wt i) hwf hty hp hw (deref_not_rep t hs) htag
      rw [hE] at hsz ⊢
      simp only [List.length_append] at hsz
      have hBl : (t.app v []).length < 2 ^ 64 := by omega
      rw [hw]
      exact frames_one i t _ .len (t.app v [])
        (fun rest => by simp only [List.append_assoc]; exact parseOne_len i hi _ rest hBl)
        (fieldOK_of_body t _ (hb hw v hty hBl))
    · exact absurd hw (wt_ne_slice t hpo)

theorem field_pslice (u : Ty) (hwf : (Ty.pslice u).wf) (hs : Ty.rtShape false u) (hb : BodyLaw u) :
    FieldLaw (.pslice u) := by
  intro i v hi hty hsz
  cases v with
  | slice vs =>
    have hE := pslice_frames u vs (appendTag (Ty.pslice u).wt i) hwf hty (deref_not_rep u hs)
      (appendTag_ne_nil _ _)
    rw [hE] at hsz ⊢
    simp only [Ty.hasTy] at hty
    simp only [Ty.wt] at hsz ⊢
    apply frames_flatMap
    intro x hx
    have hle := length_le_flatMap_of_mem (fun v => elemFrame u v (appendTag .len i)) vs x hx
    simp only [elemFrame, List.length_append] at hle hsz
    have hBl : (u.app x []).length < 2 ^ 64 := by omega
    exact frames_one i _ _ .len (u.app x [])
      (fun rest => by simp only [elemFrame, List.append_assoc]; exact parseOne_len i hi _ rest hBl)
      (by simp only [fieldOK, beq_self_eq_true, Bool.true_and]; exact hb x (hty x hx) hBl)
  | _ => simp [Ty.hasTy] at hty

theorem entry_ok (k v : Ty) (hk : FieldLaw k) (hv : FieldLaw v) (e : Val × Val)
    (h1 : k.hasTy e.1) (h2 : v.hasTy e.2) (hsz : (entryBody k v e).length < 2 ^ 64) :
    ∃ rs, parseMsg (entryBody k v e) = some rs ∧
      ∀ r ∈ rs, (r.1 = 1 ∧ fieldOK k r.2.1 r.2.2 = true) ∨ (r.1 = 2 ∧ fieldOK v r.2.1 r.2.2 = true) := by
  have hFK : Frames 1 k (if e.1.omit then [] else k.app e.1 (appendTag k.wt 1)) := by
    cases ho : e.1.omit with
    | true => exact frames_nil 1 k
    | false =>
      simp only [Bool.false_eq_true, ↓reduceIte]
      refine hk 1 e.1 (by omega) h1 ?_
      simp only [entryBody, ho, Bool.false_eq_true, ↓reduceIte, List.length_append] at hsz
      omega
  have hFV : Frames 2 v (if e.2.omit then [] else v.app e.2 (appendTag v.wt 2)) := by
    cases ho : e.2.omit with
    | true => exact frames_nil 2 v
    | false =>
      simp only [Bool.false_eq_true, ↓reduceIte]
      refine hv 2 e.2 (by omega) h2 ?_
      simp only [entryBody, ho, Bool.false_eq_true, ↓reduceIte, List.length_append] at hsz
      omega
  obtain ⟨fk, hk1, hk2⟩ := hFK
  obtain ⟨fv, hv1, hv2⟩ := hFV
  refine ⟨fk ++ fv, ?_, ?_⟩
  · have := hv2 []
    rw [List.append_nil, parseMsg_nil] at this
    unfold entryBody
    rw [hk2, this]
    simp
  · intro r hr
    rcases List.mem_append.mp hr with h | h
    · exact .inl (hk1 r h)
    · exact .inr (hv1 r h)

theorem field_pmap (k v : Ty) (hwf : (Ty.map k v true).wf) (hk : FieldLaw k) (hv : FieldLaw v) :
    FieldLaw (.map k v true) := by
  intro i x hi hty hsz
  cases x with
  | map o =>
    cases o with
    | none => rw [pmap_nil]; exact frames_nil i _
    | some es =>
      have he := pmap_frames k v es (appendTag (Ty.map k v true).wt i) hwf hty
      rw [he] at hsz ⊢
      simp only [Ty.hasTy] at hty
      simp only [Ty.wt] at hsz ⊢
      apply frames_flatMap
      intro e hem
      have hle := length_le_flatMap_of_mem
        (fun e => appendTag .len i ++ appendVarUint (entryBody k v e).length ++ entryBody k v e) es e hem
      simp only [List.length_append] at hle
      have hBl : (entryBody k v e).length < 2 ^ 64 := by omega
      obtain ⟨rs, hp, hall⟩ := entry_ok k v hk hv e (hty.1 e hem).1 (hty.1 e hem).2 hBl
      refine frames_one i _ _ .len (entryBody k v e)
        (fun rest => by simp only [List.append_assoc]; exact parseOne_len i hi _ rest hBl) ?_
      simp only [fieldOK, beq_self_eq_true, Bool.true_and, hp, List.all_eq_true]
      intro r hr
      rcases hall r hr with ⟨a, b⟩ | ⟨a, b⟩ <;> simp [a, b]
  | _ => simp [Ty.hasTy] at hty

/-! ### struct bodies -/

theorem fieldsApp_len_le (i : Nat) (nm : String) (t : Ty) (r : Fields) (v : Val) (vs : List Val)
    (ho : v.omit = false) :
    fieldsApp ((i, nm, t) :: r) (v :: vs) = t.app v (appendTag t.wt i) ++ fieldsApp r vs := by
  simp [fieldsApp, ho]

theorem body_fields (fs : Fields) (hnd : (fs.map (·.1)).Nodup) (hidx : ∀ f ∈ fs, f.1 < 2 ^ 61)
    (hall : ∀ f ∈ fs, FieldLaw f.2.2) :
    ∀ (suf : Fields) (vs : List Val), (∀ f ∈ suf, f ∈ fs) → fieldsHaveTy suf vs →
      (fieldsApp suf vs).length < 2 ^ 64 →
      ∃ rs, parseMsg (fieldsApp suf vs) = some rs ∧ ∀ r ∈ rs, recOK fs r.1 r.2.1 r.2.2 = true := by
  intro suf
  induction suf with
  | nil =>
    intro vs _ _ _
    refine ⟨[], ?_, by simp⟩
    cases vs <;> simp [fieldsApp, parseMsg_nil]
  | cons f suf ih =>
    obtain ⟨i, nm, t⟩ := f
    intro vs hsub hty hsz
    cases vs with
    | nil => simp [fieldsHaveTy] at hty
    | cons v vs =>
      simp only [fieldsHaveTy] at hty
      have hmem : (i, nm, t) ∈ fs := hsub _ (by simp)
      have hsub' : ∀ f ∈ suf, f ∈ fs := fun f hf => hsub f (by simp [hf])
      cases ho : v.omit with
      | true =>
        have e1 : fieldsApp ((i, nm, t) :: suf) (v :: vs) = fieldsApp suf vs := by simp [fieldsApp, ho]
        rw [e1] at hsz ⊢
        exact ih vs hsub' hty.2 hsz
      | false =>
        rw [fieldsApp_len_le i nm t suf v vs ho] at hsz ⊢
        simp only [List.length_append] at hsz
        obtain ⟨rs, hp, hrs⟩ := ih vs hsub' hty.2 (by omega)
        have hfl : FieldLaw t := hall _ hmem
        obtain ⟨fr, hf1, hf2⟩ := hfl i v (hidx _ hmem) hty.1 (by omega)
        refine ⟨fr ++ rs, ?_, ?_⟩
        · rw [hf2, hp]; rfl
        · intro r hr
          rcases List.mem_append.mp hr with h | h
          · have := hf1 r h
            have e : r = (i, r.2.1, r.2.2) := by rw [← this.1]
            rw [← this.1] at hmem
            exact recOK_of_mem fs hnd r.1 nm t hmem _ _ this.2
          · exact hrs r h

theorem body_struct (nm : String) (fs : Fields) (hwf : (Ty.struct nm fs).wf)
    (hall : ∀ f ∈ fs, FieldLaw f.2.2) : BodyLaw (.struct nm fs) := by
  intro v hty hsz
  cases v with
  | struct vs =>
    simp only [Ty.wf] at hwf
    simp only [Ty.hasTy] at hty
    simp only [struct_body] at hsz ⊢
    obtain ⟨rs, hp, hrs⟩ := body_fields fs hwf.1 hwf.2.1 hall fs vs (fun f hf => hf) hty hsz
    simp only [bodyOK, hp, List.all_eq_true]
    exact hrs
  | _ => simp [Ty.hasTy] at hty

/-! ### the other bodies -/

theorem body_leaf_str (b : Bool) : BodyLaw (.str b) := by intro v _ _; simp [bodyOK]
theorem body_leaf_bytes : BodyLaw .bytes := by intro v _ _; simp [bodyOK]

theorem body_time : BodyLaw (.time true) := by
  intro v hty _
  cases v with
  | time s n => simp [Ty.app, frame, bodyOK, tsOK_timeBody]
  | _ => simp [Ty.hasTy] at hty

theorem body_ptr (u : Ty) (hpo : protoOnly u = true) (hwf : u.wf) (hw : u.wt = .len) (hs : Ty.rtShape false u)
    (hb : BodyLaw u) : BodyLaw (.ptr u) := by
  intro v hty hsz
  cases v with
  | ptr o =>
    cases o with
    | none => simp only [Ty.app, bodyOK]; exact bodyOK_nil u hpo hwf hw hs
    | some x =>
      simp only [Ty.hasTy] at hty
      simp only [Ty.app] at hsz
      simp only [Ty.app, bodyOK]
      exact hb x hty hsz
  | _ => simp [Ty.hasTy] at hty

theorem body_vslice (u : Ty) (hwf : (Ty.vslice u).wf) (hs : Ty.rtShape false u) : BodyLaw (.vslice u) := by
  intro v hty _
  cases v with
  | slice vs =>
    simp only [Ty.wf] at hwf
    simp only [Ty.hasTy] at hty
    simp only [Ty.app, frame_nil, bodyOK]
    rw [flatMap_filter_nonNil (fun v => u.app v []) (app_ptr_none u []) vs]
    apply varintsOK_flat
    · intro w hw
      have := mem_filter_nonNil vs w hw
      exact varint_shape u hs hwf.2.1 hwf.1 w (hty w this.1) this.2
    · omega
  | _ => simp [Ty.hasTy] at hty

theorem body_fslice (u : Ty) (hwf : (Ty.fslice u).wf) : BodyLaw (.fslice u) := by
  intro v hty _
  cases v with
  | slice vs =>
    simp only [Ty.hasTy] at hty
    simp only [Ty.app, frame_nil]
    simp only [Ty.wf] at hwf
    rcases hwf with rfl | rfl
    · have := length_flatMap_const (fun v => Ty.f32.app v []) 4 vs (fun x hx => by
        have := hty x hx
        cases x <;> simp_all [Ty.hasTy, Ty.app, leBytes_length])
      simp [bodyOK, this]
    · have := length_flatMap_const (fun v => Ty.f64.app v []) 8 vs (fun x hx => by
        have := hty x hx
        cases x <;> simp_all [Ty.hasTy, Ty.app, leBytes_length])
      simp [bodyOK, this]
  | _ => simp [Ty.hasTy] at hty


/-! ### assembly -/

theorem law_of_body (t : Ty) (hr : t.isProtoRep = false)
    (h : protoOnly t = true → t.wf → Ty.rtShape false t → t.wt = .len → BodyLaw t) : Law t := by
  intro hpo hwf
  refine ⟨h hpo hwf, fun hs => ?_⟩
  have hs' := shape_false_of_true t hr hs
  exact field_of_body t hpo hwf hs' (h hpo hwf hs')

theorem law_nolen (t : Ty) (hr : t.isProtoRep = false) (hw : t.wt ≠ .len) : Law t :=
  law_of_body t hr (fun _ _ _ h => absurd h hw)

theorem law_ptr (u : Ty) (ih : Law u) : Law (.ptr u) :=
  law_of_body _ rfl (fun hpo hwf hs hw => by
    simp only [protoOnly] at hpo
    simp only [Ty.wf] at hwf
    simp only [Ty.rtShape] at hs
    simp only [Ty.wt] at hw
    exact body_ptr u hpo hwf.1 hw hs.2 ((ih hpo hwf.1).1 hs.2 hw))

theorem law_pslice (u : Ty) (ih : Law u) : Law (.pslice u) := by
  intro hpo hwf
  refine ⟨fun hs => by simp [Ty.rtShape] at hs, fun hs => ?_⟩
  simp only [Ty.rtShape, true_and] at hs
  simp only [protoOnly] at hpo
  exact field_pslice u hwf hs ((ih hpo hwf.1).1 hs hwf.2.1)

theorem law_struct (nm : String) (fs : Fields) (ih : ∀ f ∈ fs, Law f.2.2) : Law (.struct nm fs) :=
  law_of_body _ rfl (fun hpo hwf hs _ => by
    simp only [protoOnly] at hpo
    simp only [Ty.rtShape] at hs
    exact body_struct nm fs hwf (fun f hf =>
      (ih f hf (protoOnlyL_mem fs hpo f hf) (fieldsWf_mem fs hwf.2.2 f hf)).2 (fieldsRtShape_mem fs hs f hf)))

theorem law_map (k v : Ty) (p : Bool) (ihk : Law k) (ihv : Law v) : Law (.map k v p) := by
  cases p with
  | false => intro hpo; simp [protoOnly] at hpo
  | true =>
    intro hpo hwf
    refine ⟨fun hs => by simp [Ty.rtShape] at hs, fun hs => ?_⟩
    simp only [Ty.rtShape] at hs
    simp only [protoOnly, Bool.and_eq_true] at hpo
    have hwf' := hwf
    simp only [Ty.wf] at hwf'
    exact field_pmap k v hwf
      ((ihk hpo.1 hwf'.1).2 (shape_true_of_false k (keySafe_shape k hs.2.1)))
      ((ihv hpo.2 hwf'.2.1).2 (shape_true_of_false v hs.2.2))

mutual
theorem law_ty : (t : Ty) → Law t
  | .bool => law_nolen _ rfl (by simp [Ty.wt])
  | .int _ => law_nolen _ rfl (by simp [Ty.wt])
  | .uint _ => law_nolen _ rfl (by simp [Ty.wt])
  | .flat _ => law_nolen _ rfl (by simp [Ty.wt])
  | .f32 => law_nolen _ rfl (by simp [Ty.wt])
  | .f64 => law_nolen _ rfl (by simp [Ty.wt])
  | .lslice _ => law_nolen _ rfl (by simp [Ty.wt])
  | .str b => law_of_body _ rfl (fun _ _ _ _ => body_leaf_str b)
  | .bytes => law_of_body _ rfl (fun _ _ _ _ => body_leaf_bytes)
  | .time c => law_of_body _ rfl (fun hpo _ _ _ => by
      simp only [protoOnly] at hpo; subst hpo; exact body_time)
  | .ptr u => law_ptr u (law_ty u)
  | .vslice u => law_of_body _ rfl (fun _ hwf hs _ => by
      simp only [Ty.rtShape] at hs; exact body_vslice u hwf hs)
  | .fslice u => law_of_body _ rfl (fun _ hwf _ _ => body_fslice u hwf)
  | .pslice u => law_pslice u (law_ty u)
  | .struct nm fs => law_struct nm fs (law_fields fs)
  | .map k v p => law_map k v p (law_ty k) (law_ty v)
theorem law_fields : (fs : Fields) → ∀ f ∈ fs, Law f.2.2
  | [] => by intro f hf; simp at hf
  | (_, _, t) :: r => by
      intro f hf
      rcases List.mem_cons.mp hf with rfl | hf
      · exact law_ty t
      · exact law_fields r f hf
end

/-- C12: the encoding of any value of an accepted proto-mode struct is
well-formed standard protobuf for the codec tree read as a schema. -/
theorem proto_wellformed (t : Ty) (v : Val) (hp : ProtoStruct t) (hwf : t.wf) (hty : t.hasTy v)
    (hsz : (marshal t v).length < 2 ^ 63) : ProtoWF t (marshal t v) = true := by
  obtain ⟨⟨nm, fs, rfl⟩, hpo, hs⟩ := hp
  have hv : v.omit = false := by cases v <;> simp_all [Ty.hasTy, Val.omit]
  unfold marshal at hsz ⊢
  simp only [hv, Bool.false_eq_true, ↓reduceIte] at hsz ⊢
  exact (law_ty _ hpo hwf).1 hs rfl v hty (by omega)

/-- in particular the bytes parse as a protobuf message, and plenc's own wire
type 3 (`WTSlice`, protobuf's deprecated start-group) never occurs as the wire
type of a record (nor do 4, 6, 7). -/
theorem no_wt3 (t : Ty) (v : Val) (hp : ProtoStruct t) (hwf : t.wf) (hty : t.hasTy v)
    (hsz : (marshal t v).length < 2 ^ 63) :
    ∃ rs, parseMsg (marshal t v) = some rs ∧
      ∀ r ∈ rs, r.2.1 ≠ .slice ∧ (r.2.1 = .varint ∨ r.2.1 = .w64 ∨ r.2.1 = .len ∨ r.2.1 = .w32) := by
  have h := proto_wellformed t v hp hwf hty hsz
  obtain ⟨⟨nm, fs, rfl⟩, _, _⟩ := hp
  simp only [ProtoWF, bodyOK] at h
  cases hpm : parseMsg (marshal (.struct nm fs) v) with
  | none => simp [hpm] at h
  | some rs =>
    refine ⟨rs, rfl, fun r hr => ?_⟩
    have := parseLoop_wt _ _ rs hpm r hr
    refine ⟨?_, this⟩
    rcases this with e | e | e | e <;> rw [e] <;> decide

/-! ### times are `google.protobuf.Timestamp` -/

theorem asInt_wrapU (w : Nat) (hw : validWidth w) (i : Int) (h : intRange w i) :
    asInt w (wrapU w i) = i := by
  unfold asInt wrapU intRange at *
  rcases hw with rfl | rfl | rfl | rfl <;> simp only [Nat.reduceSub, Int.reducePow, Nat.reducePow] at h ⊢ <;>
    split <;> omega

/-- the body of a proto-mode time decodes, with the independent parser and the
standard `int64` / `int32` reading of plain varints, to exactly (seconds, nanos). -/
theorem time_is_timestamp (sec : Int) (nsec : Nat) (h1 : intRange 64 sec) (h2 : nsec < 1000000000) :
    timestamp (timeBody true sec nsec) = some (sec, (nsec : Int)) := by
  have hw64 : validWidth 64 := by simp [validWidth]
  have hw32 : validWidth 32 := by simp [validWidth]
  have hns32 : intRange 32 (nsec : Int) := by unfold intRange; omega
  have e : timeBody true sec nsec
      = appendTag .varint 1 ++ (appendVarUint (wrapU 64 sec) ++
          (appendTag .varint 2 ++ (appendVarUint (wrapU 32 nsec) ++ []))) := by
    simp [timeBody, tag1, tag2]
  have h2' := parseMsg_cons _ _ _ (parseOne_varint 2 (by omega) (wrapU 32 nsec) (wrapU_lt 32 _ hw32) [])
  rw [parseMsg_nil] at h2'
  have h1' := parseMsg_cons _ _ _ (parseOne_varint 1 (by omega) (wrapU 64 sec) (wrapU_lt 64 _ hw64)
    (appendTag .varint 2 ++ (appendVarUint (wrapU 32 nsec) ++ [])))
  rw [h2'] at h1'
  have v1 := varint_append (wrapU 64 sec) (wrapU_lt 64 _ hw64) []
  have v2 := varint_append (wrapU 32 nsec) (wrapU_lt 32 _ hw32) []
  rw [List.append_nil] at v1 v2
  rw [e]
  simp only [timestamp, h1']
  simp [v1, v2, asInt_wrapU 64 hw64 sec h1, asInt_wrapU 32 hw32 _ hns32]

/-! ## Part 2: switch locality -/

/-! ### (i) `ProtoCompatibleTime` changes only the bytes of time values -/

mutual
/-- the codec tree with every time codec switched to `c` (what
`ProtoCompatibleTime` changes: the registry entry for `time.Time`). -/
def mapTime (c : Bool) : Ty → Ty
  | .time _ => .time c
  | .ptr t => .ptr (mapTime c t)
  | .vslice t => .vslice (mapTime c t)
  | .fslice t => .fslice (mapTime c t)
  | .lslice t => .lslice (mapTime c t)
  | .pslice t => .pslice (mapTime c t)
  | .struct n fs => .struct n (mapTimeL c fs)
  | .map k v p => .map (mapTime c k) (mapTime c v) p
  | t => t
def mapTimeL (c : Bool) : Fields → Fields
  | [] => []
  | (i, n, t) :: r => (i, n, mapTime c t) :: mapTimeL c r
end

mutual
/-- `v` holds no time value that reaches the wire: times in zero-omitting
positions are zero, pointers to times are nil, slices of times are empty. -/
def timeQuiet : Ty → Val → Bool
  | .time _, _ => false
  | .ptr t, .ptr (some x) => timeQuiet t x
  | .vslice t, .slice vs | .fslice t, .slice vs | .lslice t, .slice vs | .pslice t, .slice vs =>
      vs.all fun x => timeQuiet t x
  | .struct _ fs, .struct vs => timeQuietL fs vs
  | .map k v _, .map (some es) =>
      es.all fun e => (e.1.omit || timeQuiet k e.1) && (e.2.omit || timeQuiet v e.2)
  | _, _ => true
def timeQuietL : Fields → List Val → Bool
  | (_, _, t) :: r, v :: vs => (v.omit || timeQuiet t v) && timeQuietL r vs
  | _, _ => true
end

theorem wt_mapTime (c : Bool) : (t : Ty) → (mapTime c t).wt = t.wt
  | .ptr t => by simp only [mapTime, Ty.wt]; exact wt_mapTime c t
  | .map _ _ b => by cases b <;> simp [mapTime, Ty.wt]
  | .bool | .int _ | .uint _ | .flat _ | .f32 | .f64 | .str _ | .bytes | .time _ | .vslice _ | .fslice _
  | .lslice _ | .pslice _ | .struct _ _ => by simp [mapTime, Ty.wt]

theorem sum_map_congr {α : Type} (f g : α → Nat) (l : List α) (h : ∀ a ∈ l, f a = g a) :
    (l.map f).sum = (l.map g).sum := by
  rw [List.map_congr_left h]


/-! generic congruences: two codec trees append the same bytes for a value when
their children do. -/

def Same (t' t : Ty) (v : Val) : Prop :=
  ∀ tag, t'.app v tag = t.app v tag ∧ t'.size v tag = t.size v tag

/-- a zero-omitting position (struct field, map key / value): same bytes when the
value is omitted, or when tag wire type and codec output agree. -/
def SamePos (t' t : Ty) (v : Val) : Prop := v.omit = true ∨ (t'.wt = t.wt ∧ Same t' t v)

theorem pos_same (t' t : Ty) (v : Val) (i : Nat) (h : SamePos t' t v) :
    (if v.omit then [] else t'.app v (appendTag t'.wt i)) = (if v.omit then [] else t.app v (appendTag t.wt i)) ∧
    (if v.omit then 0 else t'.size v (appendTag t'.wt i)) = (if v.omit then 0 else t.size v (appendTag t.wt i)) := by
  rcases h with h | ⟨hw, h⟩
  · simp [h]
  · rw [hw, (h _).1, (h _).2]; exact ⟨rfl, rfl⟩

theorem same_refl (t : Ty) (v : Val) : Same t t v := fun _ => ⟨rfl, rfl⟩

theorem same_ptr (u' u : Ty) (v : Val) (h : ∀ x, v = .ptr (some x) → Same u' u x) :
    Same (.ptr u') (.ptr u) v := by
  intro tag
  cases v with
  | ptr o =>
    cases o with
    | none => simp [Ty.app, Ty.size]
    | some x => simp only [Ty.app, Ty.size]; exact h x rfl tag
  | _ => simp [Ty.app, Ty.size]

theorem same_vslice (u' u : Ty) (v : Val) (h : ∀ vs, v = .slice vs → ∀ x ∈ vs, Same u' u x) :
    Same (.vslice u') (.vslice u) v := by
  intro tag
  cases v with
  | slice vs =>
    have e1 : (vs.flatMap fun v => u'.app v []) = vs.flatMap fun v => u.app v [] :=
      flatMap_congr' _ _ vs (fun x hx => (h vs rfl x hx []).1)
    have e2 : (vs.map fun v => u'.size v []).sum = (vs.map fun v => u.size v []).sum :=
      sum_map_congr _ _ vs (fun x hx => (h vs rfl x hx []).2)
    simp only [Ty.app, Ty.size, e1, e2, and_self]
  | _ => simp [Ty.app, Ty.size]

theorem same_lslice (u' u : Ty) (v : Val) (h : ∀ vs, v = .slice vs → ∀ x ∈ vs, Same u' u x) :
    Same (.lslice u') (.lslice u) v := by
  intro tag
  cases v with
  | slice vs =>
    have e1 : (vs.flatMap fun v => appendVarUint (u'.size v []) ++ u'.app v [])
        = vs.flatMap fun v => appendVarUint (u.size v []) ++ u.app v [] :=
      flatMap_congr' _ _ vs (fun x hx => by rw [(h vs rfl x hx []).1, (h vs rfl x hx []).2])
    have e2 : (vs.map fun v => u'.size v [] + sizeVarUint (u'.size v [])).sum
        = (vs.map fun v => u.size v [] + sizeVarUint (u.size v [])).sum :=
      sum_map_congr _ _ vs (fun x hx => by rw [(h vs rfl x hx []).2])
    simp only [Ty.app, Ty.size, e1, e2, and_self]
  | _ => simp [Ty.app, Ty.size]

theorem same_pslice (u' u : Ty) (v : Val) (h : ∀ vs, v = .slice vs → ∀ x ∈ vs, Same u' u x) :
    Same (.pslice u') (.pslice u) v := by
  intro tag
  cases v with
  | slice vs =>
    have e1 : (vs.flatMap fun v => let b := u'.app v tag; if b.isEmpty ∧ ¬ tag.isEmpty then tag ++ [0] else b)
        = vs.flatMap fun v => let b := u.app v tag; if b.isEmpty ∧ ¬ tag.isEmpty then tag ++ [0] else b :=
      flatMap_congr' _ _ vs (fun x hx => by simp only [(h vs rfl x hx tag).1])
    have e2 : (vs.map fun v => let s := u'.size v tag; if s = 0 ∧ ¬ tag.isEmpty then tag.length + 1 else s).sum
        = (vs.map fun v => let s := u.size v tag; if s = 0 ∧ ¬ tag.isEmpty then tag.length + 1 else s).sum :=
      sum_map_congr _ _ vs (fun x hx => by simp only [(h vs rfl x hx tag).2])
    simp only [Ty.app, Ty.size, e1, e2, and_self]
  | _ => simp [Ty.app, Ty.size]

theorem same_struct (n : String) (fs' fs : Fields) (v : Val)
    (h : ∀ vs, v = .struct vs → fieldsApp fs' vs = fieldsApp fs vs ∧ fieldsSize fs' vs = fieldsSize fs vs) :
    Same (.struct n fs') (.struct n fs) v := by
  intro tag
  cases v with
  | struct vs => simp only [Ty.app, Ty.size, (h vs rfl).1, (h vs rfl).2, and_self]
  | _ => simp [Ty.app, Ty.size]

theorem same_map (k' k v' v : Ty) (p : Bool) (x : Val)
    (h : ∀ es, x = .map (some es) → ∀ e ∈ es, SamePos k' k e.1 ∧ SamePos v' v e.2) :
    Same (.map k' v' p) (.map k v p) x := by
  intro tag
  cases x with
  | map o =>
    cases o with
    | none => cases p <;> simp [Ty.app, Ty.size]
    | some es =>
      have hk := fun e he => pos_same k' k _ 1 (h es rfl e he).1
      have hv := fun e he => pos_same v' v _ 2 (h es rfl e he).2
      cases p with
      | false =>
        have e1 := flatMap_congr'
          (fun e : Val × Val =>
            let s := (if e.1.omit then 0 else k'.size e.1 (appendTag k'.wt 1))
                   + (if e.2.omit then 0 else v'.size e.2 (appendTag v'.wt 2))
            appendVarUint s ++ ((if e.1.omit then [] else k'.app e.1 (appendTag k'.wt 1))
                             ++ (if e.2.omit then [] else v'.app e.2 (appendTag v'.wt 2))))
          (fun e : Val × Val =>
            let s := (if e.1.omit then 0 else k.size e.1 (appendTag k.wt 1))
                   + (if e.2.omit then 0 else v.size e.2 (appendTag v.wt 2))
            appendVarUint s ++ ((if e.1.omit then [] else k.app e.1 (appendTag k.wt 1))
                             ++ (if e.2.omit then [] else v.app e.2 (appendTag v.wt 2)))) es
          (fun e he => by simp only [(hk e he).1, (hk e he).2, (hv e he).1, (hv e he).2])
        have e2 := sum_map_congr
          (fun e : Val × Val =>
            let s := (if e.1.omit then 0 else k'.size e.1 (appendTag k'.wt 1))
                   + (if e.2.omit then 0 else v'.size e.2 (appendTag v'.wt 2))
            sizeVarUint s + s)
          (fun e : Val × Val =>
            let s := (if e.1.omit then 0 else k.size e.1 (appendTag k.wt 1))
                   + (if e.2.omit then 0 else v.size e.2 (appendTag v.wt 2))
            sizeVarUint s + s) es
          (fun e he => by simp only [(hk e he).2, (hv e he).2])
        simp only [Ty.app, Ty.size] at e1 e2 ⊢
        rw [e1, e2]; exact ⟨rfl, rfl⟩
      | true =>
        have e1 := flatMap_congr'
          (fun e : Val × Val =>
            let s := (if e.1.omit then 0 else k'.size e.1 (appendTag k'.wt 1))
                   + (if e.2.omit then 0 else v'.size e.2 (appendTag v'.wt 2))
            tag ++ (appendVarUint s ++ ((if e.1.omit then [] else k'.app e.1 (appendTag k'.wt 1))
                             ++ (if e.2.omit then [] else v'.app e.2 (appendTag v'.wt 2)))))
          (fun e : Val × Val =>
            let s := (if e.1.omit then 0 else k.size e.1 (appendTag k.wt 1))
                   + (if e.2.omit then 0 else v.size e.2 (appendTag v.wt 2))
            tag ++ (appendVarUint s ++ ((if e.1.omit then [] else k.app e.1 (appendTag k.wt 1))
                             ++ (if e.2.omit then [] else v.app e.2 (appendTag v.wt 2))))) es
          (fun e he => by simp only [(hk e he).1, (hk e he).2, (hv e he).1, (hv e he).2])
        have e2 := sum_map_congr
          (fun e : Val × Val =>
            let s := (if e.1.omit then 0 else k'.size e.1 (appendTag k'.wt 1))
                   + (if e.2.omit then 0 else v'.size e.2 (appendTag v'.wt 2))
            tag.length + sizeVarUint s + s)
          (fun e : Val × Val =>
            let s := (if e.1.omit then 0 else k.size e.1 (appendTag k.wt 1))
                   + (if e.2.omit then 0 else v.size e.2 (appendTag v.wt 2))
            tag.length + sizeVarUint s + s) es
          (fun e he => by simp only [(hk e he).2, (hv e he).2])
        simp only [Ty.app, Ty.size] at e1 e2 ⊢
        rw [e1, e2]; exact ⟨rfl, rfl⟩
  | _ => cases p <;> simp [Ty.app, Ty.size]

theorem same_fields_cons (i : Nat) (n : String) (t' t : Ty) (r' r : Fields) (v : Val) (vs : List Val)
    (h1 : SamePos t' t v)
    (h2 : fieldsApp r' vs = fieldsApp r vs ∧ fieldsSize r' vs = fieldsSize r vs) :
    fieldsApp ((i, n, t') :: r') (v :: vs) = fieldsApp ((i, n, t) :: r) (v :: vs) ∧
    fieldsSize ((i, n, t') :: r') (v :: vs) = fieldsSize ((i, n, t) :: r) (v :: vs) := by
  have := pos_same t' t v i h1
  simp only [fieldsApp, fieldsSize, this.1, this.2, h2.1, h2.2, and_self]


mutual
theorem time_local (c : Bool) : (t : Ty) → t.wf → ∀ v, timeQuiet t v = true → Same (mapTime c t) t v
  | .bool, _, v, _ | .int _, _, v, _ | .uint _, _, v, _ | .flat _, _, v, _ | .f32, _, v, _ | .f64, _, v, _
  | .str _, _, v, _ | .bytes, _, v, _ => by simp only [mapTime]; exact same_refl _ v
  | .time _, _, v, h => by simp [timeQuiet] at h
  | .ptr u, hwf, v, h => by
      simp only [mapTime]; apply same_ptr; intro x e; subst e
      simp only [timeQuiet] at h; simp only [Ty.wf] at hwf
      exact time_local c u hwf.1 x h
  | .vslice u, hwf, v, h => by
      simp only [mapTime]; apply same_vslice; intro vs e x hx; subst e
      simp only [timeQuiet, List.all_eq_true] at h; simp only [Ty.wf] at hwf
      exact time_local c u hwf.1 x (h x hx)
  | .fslice u, hwf, v, _ => by
      simp only [Ty.wf] at hwf
      rcases hwf with rfl | rfl <;> (simp only [mapTime]; exact same_refl _ v)
  | .lslice u, hwf, v, h => by
      simp only [mapTime]; apply same_lslice; intro vs e x hx; subst e
      simp only [timeQuiet, List.all_eq_true] at h; simp only [Ty.wf] at hwf
      exact time_local c u hwf.1 x (h x hx)
  | .pslice u, hwf, v, h => by
      simp only [mapTime]; apply same_pslice; intro vs e x hx; subst e
      simp only [timeQuiet, List.all_eq_true] at h; simp only [Ty.wf] at hwf
      exact time_local c u hwf.1 x (h x hx)
  | .struct n fs, hwf, v, h => by
      simp only [mapTime]; apply same_struct; intro vs e; subst e
      simp only [timeQuiet] at h; simp only [Ty.wf] at hwf
      exact time_localL c fs hwf.2.2 vs h
  | .map k v p, hwf, x, h => by
      simp only [mapTime]; apply same_map; intro es e ent he; subst e
      simp only [timeQuiet, List.all_eq_true, Bool.and_eq_true, Bool.or_eq_true] at h
      simp only [Ty.wf] at hwf
      have := h ent he
      exact ⟨this.1.imp id (fun q => ⟨wt_mapTime c k, time_local c k hwf.1 _ q⟩),
        this.2.imp id (fun q => ⟨wt_mapTime c v, time_local c v hwf.2.1 _ q⟩)⟩
theorem time_localL (c : Bool) : (fs : Fields) → fieldsWf fs → ∀ vs, timeQuietL fs vs = true →
    fieldsApp (mapTimeL c fs) vs = fieldsApp fs vs ∧ fieldsSize (mapTimeL c fs) vs = fieldsSize fs vs
  | [], _, vs, _ => by simp [mapTimeL]
  | (i, n, t) :: r, _, [], _ => by simp [mapTimeL, fieldsApp, fieldsSize]
  | (i, n, t) :: r, hwf, v :: vs, h => by
      simp only [timeQuietL, Bool.and_eq_true, Bool.or_eq_true] at h
      simp only [fieldsWf] at hwf
      simp only [mapTimeL]
      exact same_fields_cons i n _ t _ r v vs
        (h.1.imp id (fun q => ⟨wt_mapTime c t, time_local c t hwf.1 v q⟩)) (time_localL c r hwf.2 vs h.2)
end

/-- switch locality (i): `ProtoCompatibleTime` changes the encoding of a value
only through the time values it holds — a value that puts no time on the wire
is encoded identically by the two instances. -/
theorem switch_time_local (c : Bool) (t : Ty) (v : Val) (hwf : t.wf) (hq : timeQuiet t v = true) :
    marshal (mapTime c t) v = marshal t v := by
  unfold marshal
  rw [(time_local c t hwf v hq []).1]

/-! ### (ii) `ProtoCompatibleArrays` changes only the bytes of length-delimited slices -/

mutual
/-- every `WTLengthSliceWrapper` replaced by a `ProtoSliceWrapper`: what
`ProtoCompatibleArrays` changes in the builder's `sliceWrap`. -/
def toProto : Ty → Ty
  | .lslice t => .pslice (toProto t)
  | .ptr t => .ptr (toProto t)
  | .vslice t => .vslice (toProto t)
  | .fslice t => .fslice (toProto t)
  | .pslice t => .pslice (toProto t)
  | .struct n fs => .struct n (toProtoL fs)
  | .map k v p => .map (toProto k) (toProto v) p
  | t => t
def toProtoL : Fields → Fields
  | [] => []
  | (i, n, t) :: r => (i, n, toProto t) :: toProtoL r
end

/-- the switch leaves the field's tag wire type alone (false exactly for a
length-delimited slice, possibly behind pointers: WTSlice becomes WTLength). -/
def wtStable (t : Ty) : Bool := (toProto t).wt == t.wt

mutual
/-- `v` puts no length-delimited slice on the wire: such slices are empty and in
a zero-omitting position. -/
def protoQuiet : Ty → Val → Bool
  | .lslice _, _ => false
  | .ptr t, .ptr (some x) => protoQuiet t x
  | .vslice t, .slice vs | .fslice t, .slice vs | .pslice t, .slice vs => vs.all fun x => protoQuiet t x
  | .struct _ fs, .struct vs => protoQuietL fs vs
  | .map k v _, .map (some es) =>
      es.all fun e => (e.1.omit || (wtStable k && protoQuiet k e.1)) && (e.2.omit || (wtStable v && protoQuiet v e.2))
  | _, _ => true
def protoQuietL : Fields → List Val → Bool
  | (_, _, t) :: r, v :: vs => (v.omit || (wtStable t && protoQuiet t v)) && protoQuietL r vs
  | _, _ => true
end

theorem wtStable_eq (t : Ty) (h : wtStable t = true) : (toProto t).wt = t.wt := by
  simpa [wtStable] using h

mutual
theorem arrays_local : (t : Ty) → t.wf → ∀ v, protoQuiet t v = true → Same (toProto t) t v
  | .bool, _, v, _ | .int _, _, v, _ | .uint _, _, v, _ | .flat _, _, v, _ | .f32, _, v, _ | .f64, _, v, _
  | .str _, _, v, _ | .bytes, _, v, _ | .time _, _, v, _ => by simp only [toProto]; exact same_refl _ v
  | .lslice _, _, v, h => by simp [protoQuiet] at h
  | .ptr u, hwf, v, h => by
      simp only [toProto]; apply same_ptr; intro x e; subst e
      simp only [protoQuiet] at h; simp only [Ty.wf] at hwf
      exact arrays_local u hwf.1 x h
  | .vslice u, hwf, v, h => by
      simp only [toProto]; apply same_vslice; intro vs e x hx; subst e
      simp only [protoQuiet, List.all_eq_true] at h; simp only [Ty.wf] at hwf
      exact arrays_local u hwf.1 x (h x hx)
  | .fslice u, hwf, v, _ => by
      simp only [Ty.wf] at hwf
      rcases hwf with rfl | rfl <;> (simp only [toProto]; exact same_refl _ v)
  | .pslice u, hwf, v, h => by
      simp only [toProto]; apply same_pslice; intro vs e x hx; subst e
      simp only [protoQuiet, List.all_eq_true] at h; simp only [Ty.wf] at hwf
      exact arrays_local u hwf.1 x (h x hx)
  | .struct n fs, hwf, v, h => by
      simp only [toProto]; apply same_struct; intro vs e; subst e
      simp only [protoQuiet] at h; simp only [Ty.wf] at hwf
      exact arrays_localL fs hwf.2.2 vs h
  | .map k v p, hwf, x, h => by
      simp only [toProto]; apply same_map; intro es e ent he; subst e
      simp only [protoQuiet, List.all_eq_true, Bool.and_eq_true, Bool.or_eq_true] at h
      simp only [Ty.wf] at hwf
      have := h ent he
      exact ⟨this.1.imp id (fun q => ⟨wtStable_eq k q.1, arrays_local k hwf.1 _ q.2⟩),
        this.2.imp id (fun q => ⟨wtStable_eq v q.1, arrays_local v hwf.2.1 _ q.2⟩)⟩
theorem arrays_localL : (fs : Fields) → fieldsWf fs → ∀ vs, protoQuietL fs vs = true →
    fieldsApp (toProtoL fs) vs = fieldsApp fs vs ∧ fieldsSize (toProtoL fs) vs = fieldsSize fs vs
  | [], _, vs, _ => by simp [toProtoL]
  | (i, n, t) :: r, _, [], _ => by simp [toProtoL, fieldsApp, fieldsSize]
  | (i, n, t) :: r, hwf, v :: vs, h => by
      simp only [protoQuietL, Bool.and_eq_true, Bool.or_eq_true] at h
      simp only [fieldsWf] at hwf
      simp only [toProtoL]
      exact same_fields_cons i n _ t _ r v vs
        (h.1.imp id (fun q => ⟨wtStable_eq t q.1, arrays_local t hwf.1 v q.2⟩)) (arrays_localL r hwf.2 vs h.2)
end

/-- switch locality (ii): `ProtoCompatibleArrays` changes the encoding only
through the length-delimited slices a value puts on the wire. -/
theorem switch_arrays_local (t : Ty) (v : Val) (hwf : t.wf) (hq : protoQuiet t v = true) :
    marshal (toProto t) v = marshal t v := by
  unfold marshal
  rw [(arrays_local t hwf v hq []).1]

/-! ### (iii) one field's codec changes only that field's bytes -/

/-- what a struct appends for one field. -/
def fieldBytes (t : Ty) (i : Nat) (x : Val) : Bytes :=
  if x.omit then [] else t.app x (appendTag t.wt i)

theorem fieldsApp_split : ∀ (pre : Fields) (vpre : List Val), vpre.length = pre.length →
    ∀ (i : Nat) (n : String) (t : Ty) (suf : Fields) (x : Val) (vsuf : List Val),
    fieldsApp (pre ++ (i, n, t) :: suf) (vpre ++ x :: vsuf)
      = fieldsApp pre vpre ++ (fieldBytes t i x ++ fieldsApp suf vsuf) := by
  intro pre
  induction pre with
  | nil =>
    intro vpre hl i n t suf x vsuf
    cases vpre with
    | nil => simp [fieldsApp, fieldBytes]
    | cons _ _ => simp at hl
  | cons f pre ih =>
    obtain ⟨j, m, u⟩ := f
    intro vpre hl i n t suf x vsuf
    cases vpre with
    | nil => simp at hl
    | cons y vpre =>
      simp only [List.cons_append, fieldsApp, ih vpre (by simpa using hl), List.append_assoc]

/-- switch locality (iii): the encoding of a struct is prefix ++ field ++ suffix
where prefix and suffix do not depend on the codec of the field — in particular
the `proto` tag on a map field (`.map k v false` ↔ `.map k v true`) changes only
that field's records. -/
theorem field_local (pre : Fields) (vpre : List Val) (hl : vpre.length = pre.length)
    (i : Nat) (n : String) (suf : Fields) (x : Val) (vsuf : List Val) :
    ∃ P S : Bytes, ∀ t : Ty,
      fieldsApp (pre ++ (i, n, t) :: suf) (vpre ++ x :: vsuf) = P ++ (fieldBytes t i x ++ S) :=
  ⟨fieldsApp pre vpre, fieldsApp suf vsuf, fun t => fieldsApp_split pre vpre hl i n t suf x vsuf⟩

theorem map_tag_local (nm : String) (pre : Fields) (vpre : List Val) (hl : vpre.length = pre.length)
    (i : Nat) (n : String) (k v : Ty) (suf : Fields) (x : Val) (vsuf : List Val) :
    ∃ P S : Bytes, ∀ b : Bool,
      marshal (.struct nm (pre ++ (i, n, .map k v b) :: suf)) (.struct (vpre ++ x :: vsuf))
        = P ++ (fieldBytes (.map k v b) i x ++ S) := by
  obtain ⟨P, S, h⟩ := field_local pre vpre hl i n suf x vsuf
  refine ⟨P, S, fun b => ?_⟩
  simp only [marshal, Val.omit, Bool.false_eq_true, ↓reduceIte, struct_body]
  exact h _


/-! ## Part 3: default mode reads the repeated-field form -/

/-! ### what `toProto` preserves -/

theorem wt_toProto : (t : Ty) → t.wt ≠ .slice → (toProto t).wt = t.wt
  | .ptr t => by intro h; simp only [Ty.wt] at h; simp only [toProto, Ty.wt]; exact wt_toProto t h
  | .lslice _ => by intro h; simp [Ty.wt] at h
  | .map _ _ b => by intro _; cases b <;> simp [toProto, Ty.wt]
  | .bool | .int _ | .uint _ | .flat _ | .f32 | .f64 | .str _ | .bytes | .time _ | .vslice _ | .fslice _
  | .pslice _ | .struct _ _ => by intro _; simp [toProto, Ty.wt]

theorem isMap_toProto (t : Ty) : (toProto t).isMap = t.isMap := by
  cases t <;> simp [toProto, Ty.isMap]

theorem isPtr_toProto (t : Ty) : (toProto t).isPtr = t.isPtr := by
  cases t <;> simp [toProto, Ty.isPtr]

theorem map_fst_toProtoL : (fs : Fields) → (toProtoL fs).map (·.1) = fs.map (·.1)
  | [] => by simp [toProtoL]
  | (i, n, t) :: r => by simp [toProtoL, map_fst_toProtoL r]

theorem mem_toProtoL : (fs : Fields) → ∀ f ∈ toProtoL fs, ∃ g ∈ fs, f = (g.1, g.2.1, toProto g.2.2)
  | [] => by intro f hf; simp [toProtoL] at hf
  | (i, n, t) :: r => by
      intro f hf
      simp only [toProtoL, List.mem_cons] at hf
      rcases hf with rfl | hf
      · exact ⟨(i, n, t), by simp, rfl⟩
      · obtain ⟨g, hg, e⟩ := mem_toProtoL r f hf
        exact ⟨g, by simp [hg], e⟩

mutual
theorem hasTy_toProto : (t : Ty) → ∀ v, t.hasTy v → (toProto t).hasTy v
  | .bool, v, h | .int _, v, h | .uint _, v, h | .flat _, v, h | .f32, v, h | .f64, v, h
  | .str _, v, h | .bytes, v, h | .time _, v, h => by simpa [toProto] using h
  | .ptr t, v, h => by
      cases v with
      | ptr o =>
        cases o with
        | none => simp [toProto, Ty.hasTy]
        | some x => simp only [Ty.hasTy] at h; simp only [toProto, Ty.hasTy]; exact hasTy_toProto t x h
      | _ => simp [Ty.hasTy] at h
  | .vslice t, v, h => by
      cases v with
      | slice vs =>
        simp only [Ty.hasTy] at h; simp only [toProto, Ty.hasTy]
        exact fun x hx => hasTy_toProto t x (h x hx)
      | _ => simp [Ty.hasTy] at h
  | .fslice t, v, h => by
      cases v with
      | slice vs =>
        simp only [Ty.hasTy] at h; simp only [toProto, Ty.hasTy]
        exact fun x hx => hasTy_toProto t x (h x hx)
      | _ => simp [Ty.hasTy] at h
  | .lslice t, v, h => by
      cases v with
      | slice vs =>
        simp only [Ty.hasTy] at h; simp only [toProto, Ty.hasTy]
        exact fun x hx => hasTy_toProto t x (h x hx)
      | _ => simp [Ty.hasTy] at h
  | .pslice t, v, h => by
      cases v with
      | slice vs =>
        simp only [Ty.hasTy] at h; simp only [toProto, Ty.hasTy]
        exact fun x hx => hasTy_toProto t x (h x hx)
      | _ => simp [Ty.hasTy] at h
  | .struct n fs, v, h => by
      cases v with
      | struct vs => simp only [Ty.hasTy] at h; simp only [toProto, Ty.hasTy]; exact hasTyL_toProto fs vs h
      | _ => simp [Ty.hasTy] at h
  | .map k w p, v, h => by
      cases v with
      | map o =>
        cases o with
        | none => simp [toProto, Ty.hasTy]
        | some es =>
          simp only [Ty.hasTy] at h; simp only [toProto, Ty.hasTy]
          exact ⟨fun e he => ⟨hasTy_toProto k _ (h.1 e he).1, hasTy_toProto w _ (h.1 e he).2⟩, h.2⟩
      | _ => simp [Ty.hasTy] at h
theorem hasTyL_toProto : (fs : Fields) → ∀ vs, fieldsHaveTy fs vs → fieldsHaveTy (toProtoL fs) vs
  | [], vs, h => by simpa [toProtoL] using h
  | (_, _, t) :: r, [], h => by simp [fieldsHaveTy] at h
  | (_, _, t) :: r, v :: vs, h => by
      simp only [fieldsHaveTy] at h
      simp only [toProtoL, fieldsHaveTy]; exact ⟨hasTy_toProto t v h.1, hasTyL_toProto r vs h.2⟩
end

mutual
theorem keySafe_of_toProto : (t : Ty) → (toProto t).keySafe → t.keySafe ∧ toProto t = t
  | .bool | .int _ | .uint _ | .flat _ | .str _ => by intro _; simp [Ty.keySafe, toProto]
  | .struct n fs => by
      intro h; simp only [toProto, Ty.keySafe] at h
      have := keySafeL_of_toProto fs h
      simp only [Ty.keySafe, toProto, this.2]; exact ⟨this.1, trivial⟩
  | .f32 | .f64 | .bytes | .time _ | .ptr _ | .vslice _ | .fslice _ | .lslice _ | .pslice _
  | .map _ _ _ => by intro h; simp [toProto, Ty.keySafe] at h
theorem keySafeL_of_toProto : (fs : Fields) → fieldsKeySafe (toProtoL fs) → fieldsKeySafe fs ∧ toProtoL fs = fs
  | [] => by intro _; simp [fieldsKeySafe, toProtoL]
  | (_, _, t) :: r => by
      intro h; simp only [toProtoL, fieldsKeySafe] at h
      have h1 := keySafe_of_toProto t h.1
      have h2 := keySafeL_of_toProto r h.2
      simp only [fieldsKeySafe, toProtoL, h1.2, h2.2]; exact ⟨⟨h1.1, h2.1⟩, trivial⟩
end

mutual
theorem rtShape_of_toProto : (t : Ty) → ∀ b, Ty.rtShape b (toProto t) → Ty.rtShape b t
  | .bool, _, _ | .int _, _, _ | .uint _, _, _ | .flat _, _, _ | .f32, _, _ | .f64, _, _
  | .str _, _, _ | .bytes, _, _ | .time _, _, _ | .fslice _, _, _ => by simp [Ty.rtShape]
  | .ptr t, b, h => by
      simp only [toProto, Ty.rtShape, isPtr_toProto] at h
      simp only [Ty.rtShape]; exact ⟨h.1, rtShape_of_toProto t false h.2⟩
  | .vslice t, b, h => by
      simp only [toProto, Ty.rtShape] at h; simp only [Ty.rtShape]; exact rtShape_of_toProto t false h
  | .lslice t, b, h => by
      simp only [toProto, Ty.rtShape] at h; simp only [Ty.rtShape]; exact rtShape_of_toProto t false h.2
  | .pslice t, b, h => by
      simp only [toProto, Ty.rtShape] at h; simp only [Ty.rtShape]; exact ⟨h.1, rtShape_of_toProto t false h.2⟩
  | .struct n fs, b, h => by
      simp only [toProto, Ty.rtShape] at h; simp only [Ty.rtShape]; exact rtShapeL_of_toProto fs h
  | .map k v p, b, h => by
      simp only [toProto, Ty.rtShape] at h; simp only [Ty.rtShape]
      exact ⟨h.1, (keySafe_of_toProto k h.2.1).1, rtShape_of_toProto v false h.2.2⟩
theorem rtShapeL_of_toProto : (fs : Fields) → fieldsRtShape (toProtoL fs) → fieldsRtShape fs
  | [], _ => by simp [fieldsRtShape]
  | (_, _, t) :: r, h => by
      simp only [toProtoL, fieldsRtShape] at h
      simp only [fieldsRtShape]; exact ⟨rtShape_of_toProto t true h.1, rtShapeL_of_toProto r h.2⟩
end

/-- a value-position codec of a round-trip shape is not (a pointer to) the
repeated form. -/
theorem isProtoSlice_of_shape : (t : Ty) → Ty.rtShape false t → t.isProtoSlice = false
  | .ptr t => by
      intro h; simp only [Ty.rtShape] at h
      simp only [Ty.isProtoSlice]; exact isProtoSlice_of_shape t h.2
  | .pslice _ => by intro h; simp [Ty.rtShape] at h
  | .bool | .int _ | .uint _ | .flat _ | .f32 | .f64 | .str _ | .bytes | .time _ | .vslice _ | .fslice _
  | .lslice _ | .struct _ _ | .map _ _ _ => by intro _; simp [Ty.isProtoSlice]

mutual
/-- `toProto` keeps a codec tree Accepted wherever the result has a round-trip
shape. (Without the shape the statement fails since the builder rejects the
repeated form as a map key or value: `map[K][]string` under
`ProtoCompatibleArrays` has no codec, and `toProto` of its default-mode tree is
not Accepted.) -/
theorem wf_toProto : (t : Ty) → ∀ b, t.wf → Ty.rtShape b (toProto t) → (toProto t).wf
  | .bool, _ | .int _, _ | .uint _, _ | .flat _, _ | .f32, _ | .f64, _ | .str _, _ | .bytes, _
  | .time _, _ => by
      intro h _; simpa [toProto] using h
  | .ptr t, b => by
      intro h hs; simp only [Ty.wf] at h
      simp only [toProto, Ty.rtShape] at hs
      simp only [toProto, Ty.wf, isMap_toProto]; exact ⟨wf_toProto t false h.1 hs.2, h.2⟩
  | .vslice t, b => by
      intro h hs; simp only [Ty.wf] at h
      simp only [toProto, Ty.rtShape] at hs
      simp only [toProto, Ty.wf, isMap_toProto]
      exact ⟨wf_toProto t false h.1 hs, by rw [wt_toProto t (by rw [h.2.1]; decide)]; exact h.2.1, h.2.2⟩
  | .fslice t, b => by
      intro h _; simp only [Ty.wf] at h
      rcases h with rfl | rfl <;> simp [toProto, Ty.wf]
  | .lslice t, b => by
      intro h hs; simp only [Ty.wf] at h
      simp only [toProto, Ty.rtShape] at hs
      simp only [toProto, Ty.wf, isMap_toProto]
      exact ⟨wf_toProto t false h.1 hs.2, by rw [wt_toProto t (by rw [h.2.1]; decide)]; exact h.2.1,
        h.2.2.1, isProtoSlice_of_shape _ hs.2⟩
  | .pslice t, b => by
      intro h hs; simp only [Ty.wf] at h
      simp only [toProto, Ty.rtShape] at hs
      simp only [toProto, Ty.wf, isMap_toProto]
      exact ⟨wf_toProto t false h.1 hs.2, by rw [wt_toProto t (by rw [h.2.1]; decide)]; exact h.2.1,
        h.2.2.1, isProtoSlice_of_shape _ hs.2⟩
  | .struct n fs, b => by
      intro h hs; simp only [Ty.wf] at h
      simp only [toProto, Ty.rtShape] at hs
      simp only [toProto, Ty.wf, map_fst_toProtoL]
      refine ⟨h.1, ?_, wfL_toProto fs h.2.2 hs⟩
      intro f hf
      obtain ⟨g, hg, rfl⟩ := mem_toProtoL fs f hf
      exact h.2.1 g hg
  | .map k v p, b => by
      intro h hs; simp only [Ty.wf] at h
      simp only [toProto, Ty.rtShape] at hs
      have hk := keySafe_of_toProto k hs.2.1
      simp only [toProto, Ty.wf, isMap_toProto]
      refine ⟨?_, wf_toProto v false h.2.1 hs.2.2, h.2.2.1, h.2.2.2.1,
        isProtoSlice_of_shape _ hs.2.2, ?_⟩
      · rw [hk.2]; exact h.1
      · rw [hk.2]; exact h.2.2.2.2.2
theorem wfL_toProto : (fs : Fields) → fieldsWf fs → fieldsRtShape (toProtoL fs) → fieldsWf (toProtoL fs)
  | [] => by intro _ _; simp [toProtoL, fieldsWf]
  | (_, _, t) :: r => by
      intro h hs; simp only [fieldsWf] at h
      simp only [toProtoL, fieldsRtShape] at hs
      simp only [toProtoL, fieldsWf]; exact ⟨wf_toProto t true h.1 hs.1, wfL_toProto r h.2 hs.2⟩
end

/-- in value position of the proto tree the codec is not a (pointer to a)
length-delimited slice, so the wire type is unchanged. -/
theorem wt_toProto_of_shape : (t : Ty) → Ty.rtShape false (toProto t) → t.wf → (toProto t).wt = t.wt
  | .ptr t => by
      intro h hwf
      simp only [toProto, Ty.rtShape] at h; simp only [Ty.wf] at hwf
      simp only [toProto, Ty.wt]; exact wt_toProto_of_shape t h.2 hwf.1
  | .lslice _ => by intro h; simp [toProto, Ty.rtShape] at h
  | .map _ _ b => by intro _ _; cases b <;> simp [toProto, Ty.wt]
  | .bool | .int _ | .uint _ | .flat _ | .f32 | .f64 | .str _ | .bytes | .time _ | .vslice _ | .fslice _
  | .pslice _ | .struct _ _ => by intro _ _; simp [toProto, Ty.wt]


/-! ### the cross round-trip invariants: encoder `toProto t`, decoder `t` -/

def XVal (t : Ty) : Prop :=
  ∀ v, t.hasTy v → v ≠ .ptr none → v ≠ .map none → ((toProto t).app v []).length < 2 ^ 64 →
    (t.wt = .len → t.read .len ((toProto t).app v []) t.zero
        = .ok (t.norm v, ((toProto t).app v []).length)) ∧
    (t.wt ≠ .len → ∀ rest, t.read t.wt ((toProto t).app v [] ++ rest) t.zero
        = .ok (t.norm v, ((toProto t).app v []).length))

def XField (t : Ty) : Prop :=
  ∀ (i : Nat) (v : Val), i < 2 ^ 61 → t.hasTy v → v.omit = false →
    ((toProto t).app v (appendTag (toProto t).wt i)).length < 2 ^ 64 →
    ∀ (rd : Nat → WT → Bytes → List Val → Res (List Val × Nat)) (put : Val → List Val),
      (∀ wt body a, rd i wt body (put a) = Res.mapFst put (fieldRead t wt body a)) →
      ∀ (fuel : Nat) (rest : Bytes) (off : Nat),
        ((toProto t).app v (appendTag (toProto t).wt i) ++ rest).length < fuel →
        structLoop rd fuel ((toProto t).app v (appendTag (toProto t).wt i) ++ rest) off (put t.zero)
          = structLoop rd fuel rest (off + ((toProto t).app v (appendTag (toProto t).wt i)).length)
              (put (t.norm v))

theorem xVal_fixed (t : Ty) (e : toProto t = t) (h : RTVal t) : XVal t := by
  unfold XVal; rw [e]; exact h

theorem xField_fixed (t : Ty) (e : toProto t = t) (h : RTField t) : XField t := by
  unfold XField; rw [e]; exact h

theorem toProto_of_varint : (t : Ty) → t.wt = .varint → toProto t = t
  | .ptr t => by intro h; simp only [Ty.wt] at h; simp only [toProto, toProto_of_varint t h]
  | .map _ _ b => by intro h; cases b <;> simp [Ty.wt] at h
  | .bool | .int _ | .uint _ | .flat _ => by intro _; simp [toProto]
  | .f32 | .f64 | .str _ | .bytes | .time _ | .vslice _ | .fslice _ | .lslice _ | .pslice _
  | .struct _ _ => by intro h; simp [Ty.wt] at h

theorem xVal_ptr (u : Ty) (hu : u.isPtr = false) (hm : u.isMap = false) (h : XVal u) : XVal (.ptr u) := by
  intro v hty hv _ hsz
  cases v with
  | ptr o =>
    cases o with
    | none => exact absurd rfl hv
    | some x =>
      simp only [Ty.hasTy] at hty
      have hx : x ≠ .ptr none := ne_ptr_none_of_not_ptr u hu x hty
      simp only [toProto, Ty.app] at hsz
      have := h x hty hx (ne_map_none_of_not_map u hm x hty) hsz
      simp only [toProto, Ty.wt, Ty.app, Ty.zero, Ty.norm]
      refine ⟨fun hl => ?_, fun hl rest => ?_⟩
      · simp only [Ty.read, this.1 hl]
      · simp only [Ty.read, this.2 hl rest]
  | _ => simp [Ty.hasTy] at hty

theorem xField_of_val (t : Ty) (hwf : t.wf) (hs : Ty.rtShape false (toProto t)) (h : XVal t) : XField t := by
  intro i v hi hty hom hsz rd put hrd fuel rest off hf
  have hwt := wt_toProto_of_shape t hs hwf
  rw [hwt] at hsz hf ⊢
  have hv := ne_ptr_none_of_not_omit v hom
  have hv2 := ne_map_none_of_not_omit v hom
  have hwf' := wf_toProto t false hwf hs
  have hty' := hasTy_toProto t v hty
  have hpres := present_of_shape (toProto t) hs v hty' hv
  have htag := appendTag_ne_nil t.wt i
  have h0 := h v hty hv hv2
  by_cases hw : t.wt = .len
  · have hE := app_frame_len (toProto t) v (appendTag t.wt i) hwf' hty' hpres (by rw [hwt]; exact hw)
      (deref_not_rep _ hs) htag
    rw [hE] at hsz hf ⊢
    generalize hB : (toProto t).app v [] = B at hsz hf h0 ⊢
    simp only [List.length_append] at hsz
    have hBl : B.length < 2 ^ 64 := by omega
    have hread := (h0 hBl).1 hw
    simp only [List.append_assoc] at hf ⊢
    have hstep : rd i t.wt (appendVarUint B.length ++ (B ++ rest)) (put t.zero)
        = .ok (put (t.norm v), (appendVarUint B.length).length + B.length) := by
      rw [hrd, hw, fieldRead_len t B rest _ hBl, hread]; rfl
    rw [structLoop_step rd fuel t.wt i hi _ off _ _ _ (by simp only [List.length_append]; omega) hstep hf]
    have hd : (appendVarUint B.length ++ (B ++ rest)).drop ((appendVarUint B.length).length + B.length) = rest := by
      rw [← List.append_assoc]; exact drop_append_len _ _ _ (by simp only [List.length_append])
    rw [hd]
    simp only [List.length_append]
  · have hE := app_frame_other (toProto t) v (appendTag t.wt i) hwf' hty' hpres (by rw [hwt]; exact hw)
    rw [hE] at hsz hf ⊢
    generalize hB : (toProto t).app v [] = B at hsz hf h0 ⊢
    simp only [List.length_append] at hsz
    have hBl : B.length < 2 ^ 64 := by omega
    have hread := (h0 hBl).2 hw rest
    simp only [List.append_assoc] at hf ⊢
    have hstep : rd i t.wt (B ++ rest) (put t.zero) = .ok (put (t.norm v), B.length) := by
      rw [hrd, fieldRead_other t t.wt hw, hread]; rfl
    rw [structLoop_step rd fuel t.wt i hi _ off _ _ _ (by simp only [List.length_append]; omega) hstep hf]
    rw [drop_append_len _ _ _ rfl]
    simp only [List.length_append]

/-! ### repeated frames, read by either slice wrapper -/

/-- one element frame after another; `W` is the decoder's slice wrapper, whose
`wt = WTLength` arm appends one element read by `rdE`. -/
theorem x_rep_loop (W u' : Ty) (rdE : Bytes → Res (Val × Nat)) (nrm : Val → Val)
    (hW : ∀ B done e n, rdE B = .ok (e, n) → W.read .len B (.slice done) = .ok (.slice (done ++ [e]), n))
    (i : Nat) (hi : i < 2 ^ 61)
    (rd : Nat → WT → Bytes → List Val → Res (List Val × Nat)) (put : Val → List Val)
    (hrd : ∀ wt body a, rd i wt body (put a) = Res.mapFst put (fieldRead W wt body a)) :
    ∀ (vs done : List Val) (fuel : Nat) (rest : Bytes) (off : Nat),
      (∀ x ∈ vs, (u'.app x []).length < 2 ^ 64 → rdE (u'.app x []) = .ok (nrm x, (u'.app x []).length)) →
      (vs.flatMap fun v => elemFrame u' v (appendTag .len i)).length < 2 ^ 64 →
      ((vs.flatMap fun v => elemFrame u' v (appendTag .len i)) ++ rest).length < fuel →
      structLoop rd fuel ((vs.flatMap fun v => elemFrame u' v (appendTag .len i)) ++ rest) off (put (.slice done))
        = structLoop rd fuel rest (off + (vs.flatMap fun v => elemFrame u' v (appendTag .len i)).length)
            (put (.slice (done ++ vs.map nrm))) := by
  intro vs
  induction vs with
  | nil => intro done fuel rest off _ _ _; simp
  | cons v vs ihvs =>
    intro done fuel rest off hel hsz hf
    simp only [List.flatMap_cons, List.length_append, elemFrame, List.append_assoc] at hsz hf ⊢
    have hread0 := hel v (by simp)
    generalize hB : u'.app v [] = B at hsz hf hread0 ⊢
    generalize hE : (vs.flatMap fun v => appendTag WT.len i ++ (appendVarUint (u'.app v []).length ++ u'.app v [])) = E
      at hsz hf ⊢
    have hBl : B.length < 2 ^ 64 := by omega
    have hread := hread0 hBl
    have hstep : rd i .len (appendVarUint B.length ++ (B ++ (E ++ rest))) (put (.slice done))
        = .ok (put (.slice (done ++ [nrm v])), (appendVarUint B.length).length + B.length) := by
      rw [hrd, fieldRead_len _ B _ _ hBl, hW B done _ _ hread]; rfl
    rw [structLoop_step rd fuel .len i hi _ off _ _ _ (by simp only [List.length_append]; omega) hstep
      (by simp only [List.length_append]; omega)]
    have hd : (appendVarUint B.length ++ (B ++ (E ++ rest))).drop ((appendVarUint B.length).length + B.length)
        = E ++ rest := by
      rw [← List.append_assoc]; exact drop_append_len _ _ _ (by simp only [List.length_append])
    rw [hd]
    have := ihvs (done ++ [nrm v]) fuel rest
      (off + ((appendTag WT.len i).length + ((appendVarUint B.length).length + B.length)))
      (fun x hx => hel x (by simp [hx]))
    simp only [elemFrame, List.append_assoc, hE] at this
    rw [this (by omega) (by simp only [List.length_append]; omega)]
    simp only [List.map_cons, List.singleton_append, Nat.add_assoc]

theorem x_elem (u : Ty) (hwf : u.wf) (hs : Ty.rtShape false (toProto u)) (hwt : u.wt = .len)
    (hm : u.isMap = false) (ih : XVal u)
    (x : Val) (hty : u.hasTy x) (hsz : ((toProto u).app x []).length < 2 ^ 64) :
    u.read .len ((toProto u).app x []) u.zero = .ok (elemNorm u x, ((toProto u).app x []).length) := by
  by_cases hv : x = .ptr none
  · subst hv
    cases u with
    | ptr w =>
      have hs0 := rtShape_of_toProto _ false hs
      simp only [Ty.rtShape] at hs0
      simp only [Ty.wf] at hwf
      simp only [Ty.wt] at hwt
      have := read_nil w hwf.1 hs0.2 hs0.1
      rw [hwt] at this
      simp only [toProto, Ty.app, Ty.zero, Ty.read, this, elemNorm, List.length_nil]
    | _ => simp [Ty.hasTy] at hty
  · rw [elemNorm_present u x hv]
    exact (ih x hty hv (ne_map_none_of_not_map u hm x hty) hsz).1 hwt

/-- the default-mode `WTLengthSliceWrapper` fed the repeated-field form
(`readAsWTLength`): one element appended per frame. -/
theorem xField_lslice (u : Ty) (hwf : (Ty.lslice u).wf) (hs : Ty.rtShape false (toProto u)) (ih : XVal u) :
    XField (.lslice u) := by
  intro i v hi hty hom hsz rd put hrd fuel rest off hf
  cases v with
  | slice vs =>
    have hwf' := wf_toProto _ true hwf (by simp only [toProto, Ty.rtShape]; exact ⟨trivial, hs⟩)
    have hty' := hasTy_toProto _ _ hty
    simp only [toProto] at hwf' hty' hsz hf ⊢
    have hE := pslice_frames (toProto u) vs (appendTag (Ty.pslice (toProto u)).wt i) hwf' hty'
      (deref_not_rep _ hs) (appendTag_ne_nil _ _)
    rw [hE] at hsz hf ⊢
    simp only [Ty.wf] at hwf
    simp only [Ty.hasTy] at hty
    simp only [Ty.wt] at hsz hf ⊢
    have := x_rep_loop (.lslice u) (toProto u) (fun b => u.read .len b u.zero) (elemNorm u)
      (fun B done e n h => by simp only [Ty.read, ↓reduceIte, h])
      i hi rd put hrd vs [] fuel rest off
      (fun x hx hl => x_elem u hwf.1 hs hwf.2.1 hwf.2.2.1 ih x (hty x hx) hl) hsz hf
    simp only [Ty.zero, norm_lslice]
    simpa using this
  | _ => simp [Ty.hasTy] at hty

theorem xField_pslice (u : Ty) (hwf : (Ty.pslice u).wf) (hs : Ty.rtShape false (toProto u)) (ih : XVal u) :
    XField (.pslice u) := by
  intro i v hi hty hom hsz rd put hrd fuel rest off hf
  cases v with
  | slice vs =>
    have hwf' := wf_toProto _ true hwf (by simp only [toProto, Ty.rtShape]; exact ⟨trivial, hs⟩)
    have hty' := hasTy_toProto _ _ hty
    simp only [toProto] at hwf' hty' hsz hf ⊢
    have hE := pslice_frames (toProto u) vs (appendTag (Ty.pslice (toProto u)).wt i) hwf' hty'
      (deref_not_rep _ hs) (appendTag_ne_nil _ _)
    rw [hE] at hsz hf ⊢
    simp only [Ty.wf] at hwf
    simp only [Ty.hasTy] at hty
    simp only [Ty.wt] at hsz hf ⊢
    have := x_rep_loop (.pslice u) (toProto u) (fun b => u.read .len b u.zero) (elemNorm u)
      (fun B done e n h => by simp only [Ty.read, h])
      i hi rd put hrd vs [] fuel rest off
      (fun x hx hl => x_elem u hwf.1 hs hwf.2.1 hwf.2.2.1 ih x (hty x hx) hl) hsz hf
    simp only [Ty.zero, norm_pslice]
    simpa using this
  | _ => simp [Ty.hasTy] at hty

/-! ### structs -/

theorem x_struct_loop (fs : Fields) (hnd : (fs.map (·.1)).Nodup) (hidx : ∀ f ∈ fs, f.1 < 2 ^ 61)
    (hall : ∀ f ∈ fs, XField f.2.2) :
    ∀ (suf : Fields) (vsuf : List Val) (pre : Fields) (apre : List Val),
      fs = pre ++ suf → apre.length = pre.length → fieldsHaveTy suf vsuf →
      ∀ (fuel off : Nat), (fieldsApp (toProtoL suf) vsuf).length < fuel →
      (fieldsApp (toProtoL suf) vsuf).length < 2 ^ 64 →
      structLoop (fun idx wt body acc => readField fs acc idx wt body) fuel (fieldsApp (toProtoL suf) vsuf) off
          (apre ++ zeros suf)
        = .ok (apre ++ fieldsNorm suf vsuf, off + (fieldsApp (toProtoL suf) vsuf).length) := by
  intro suf
  induction suf with
  | nil =>
    intro vsuf pre apre _ _ hty fuel off hf _
    cases vsuf with
    | nil =>
      simp only [toProtoL, fieldsApp, zeros, fieldsNorm, List.length_nil, Nat.add_zero]
      exact structLoop_nil _ _ _ _ (by omega)
    | cons _ _ => simp [fieldsHaveTy] at hty
  | cons f suf ih =>
    obtain ⟨i, nm, t⟩ := f
    intro vsuf pre apre hfs hl hty fuel off hf hsz
    cases vsuf with
    | nil => simp [fieldsHaveTy] at hty
    | cons v vs =>
      simp only [fieldsHaveTy] at hty
      obtain ⟨htv, htr⟩ := hty
      have hfs' : fs = (pre ++ [(i, nm, t)]) ++ suf := by simp [hfs]
      have hmem : (i, nm, t) ∈ fs := by simp [hfs]
      have hni : i ∉ pre.map (·.1) := by
        rw [hfs] at hnd
        simp only [List.map_append, List.map_cons] at hnd
        have := (List.nodup_append.mp hnd).2.2
        intro hm
        exact this i hm i (by simp) rfl
      cases ho : v.omit with
      | true =>
        have e1 : fieldsApp (toProtoL ((i, nm, t) :: suf)) (v :: vs) = fieldsApp (toProtoL suf) vs := by
          simp [toProtoL, fieldsApp, ho]
        have e2 : apre ++ zeros ((i, nm, t) :: suf) = (apre ++ [t.zero]) ++ zeros suf := by
          simp [zeros]
        have e3 : apre ++ fieldsNorm ((i, nm, t) :: suf) (v :: vs) = (apre ++ [t.zero]) ++ fieldsNorm suf vs := by
          simp [fieldsNorm, ho]
        rw [e1] at hf hsz ⊢
        rw [e2, e3]
        exact ih vs (pre ++ [(i, nm, t)]) (apre ++ [t.zero]) hfs' (by simp [hl]) htr fuel off hf hsz
      | false =>
        have e1 : fieldsApp (toProtoL ((i, nm, t) :: suf)) (v :: vs)
            = (toProto t).app v (appendTag (toProto t).wt i) ++ fieldsApp (toProtoL suf) vs := by
          simp [toProtoL, fieldsApp, ho]
        have e2 : apre ++ zeros ((i, nm, t) :: suf) = (fun x => apre ++ x :: zeros suf) t.zero := by
          simp [zeros]
        have e3 : apre ++ fieldsNorm ((i, nm, t) :: suf) (v :: vs)
            = (apre ++ [t.norm v]) ++ fieldsNorm suf vs := by
          simp [fieldsNorm, ho]
        rw [e1] at hf hsz ⊢
        rw [e2, e3]
        simp only [List.length_append] at hsz
        have hxf : XField t := hall (i, nm, t) hmem
        have hrt := hxf i v (hidx _ hmem) htv ho (by omega)
          (fun idx wt body acc => readField fs acc idx wt body) (fun x => apre ++ x :: zeros suf)
          (fun wt body a => by
            simp only [hfs]
            exact readField_at pre i nm t suf hni apre hl a (zeros suf) wt body)
          fuel (fieldsApp (toProtoL suf) vs) off hf
        rw [hrt]
        simp only [List.length_append] at hf
        have := ih vs (pre ++ [(i, nm, t)]) (apre ++ [t.norm v]) hfs' (by simp [hl]) htr fuel
          (off + ((toProto t).app v (appendTag (toProto t).wt i)).length) (by omega) (by omega)
        simp only [List.append_assoc, List.singleton_append] at this
        rw [this]
        simp only [List.append_assoc, List.singleton_append, List.length_append, Nat.add_assoc]

theorem xVal_struct (nm : String) (fs : Fields) (hwf : (Ty.struct nm fs).wf)
    (hall : ∀ f ∈ fs, XField f.2.2) : XVal (.struct nm fs) := by
  intro v hty _ _ hsz
  cases v with
  | struct vs =>
    refine ⟨fun _ => ?_, fun h => by simp [Ty.wt] at h⟩
    simp only [Ty.wf] at hwf
    simp only [Ty.hasTy] at hty
    simp only [toProto, struct_body] at hsz ⊢
    have := x_struct_loop fs hwf.1 hwf.2.1 hall fs vs [] [] (by simp) rfl hty
      ((fieldsApp (toProtoL fs) vs).length + 1) 0 (by omega) hsz
    simp only [List.nil_append, Nat.zero_add] at this
    simp only [Ty.read, Ty.zero, this, Ty.norm]
  | _ => simp [Ty.hasTy] at hty


/-! ### maps whose value type holds length-delimited slices (inside structs) -/

theorem field_decode_x (t : Ty) (hwf : t.wf) (hs : Ty.rtShape false (toProto t)) (h : XVal t)
    (x : Val) (hty : t.hasTy x) (hom : x.omit = false) (j : Nat) (hj : j < 2 ^ 61)
    (hsz : ((toProto t).app x (appendTag (toProto t).wt j)).length < 2 ^ 64) (rest : Bytes) :
    ∃ hdr fl, readTagAndLength ((toProto t).app x (appendTag (toProto t).wt j) ++ rest)
        = some (t.wt, j, hdr, fl) ∧
      0 < hdr ∧ hdr ≤ ((toProto t).app x (appendTag (toProto t).wt j)).length ∧
      t.read t.wt ((((toProto t).app x (appendTag (toProto t).wt j) ++ rest).drop hdr).take fl) t.zero
        = .ok (t.norm x, ((toProto t).app x (appendTag (toProto t).wt j)).length - hdr) := by
  have hwt := wt_toProto_of_shape t hs hwf
  rw [hwt] at hsz ⊢
  have hv := ne_ptr_none_of_not_omit x hom
  have hv2 := ne_map_none_of_not_omit x hom
  have hwf' := wf_toProto t false hwf hs
  have hty' := hasTy_toProto t x hty
  have hpres := present_of_shape (toProto t) hs x hty' hv
  have htag := appendTag_ne_nil t.wt j
  have htl := appendTag_len_pos t.wt j
  have h0 := h x hty hv hv2
  by_cases hw : t.wt = .len
  · have hE := app_frame_len (toProto t) x (appendTag t.wt j) hwf' hty' hpres (by rw [hwt]; exact hw)
      (deref_not_rep _ hs) htag
    rw [hE] at hsz ⊢
    generalize hB : (toProto t).app x [] = B at hsz h0 ⊢
    simp only [List.length_append] at hsz
    have hBl : B.length < 2 ^ 64 := by omega
    have hread := (h0 hBl).1 hw
    refine ⟨(appendTag t.wt j).length + (appendVarUint B.length).length, B.length, ?_, by omega, ?_, ?_⟩
    · simp only [List.append_assoc]
      rw [hw]
      exact readTagAndLength_len j hj B rest hBl
    · simp only [List.length_append]; omega
    · have hd : (appendTag t.wt j ++ appendVarUint B.length ++ B ++ rest).drop
          ((appendTag t.wt j).length + (appendVarUint B.length).length) = B ++ rest := by
        rw [List.append_assoc]; exact drop_append_len _ _ _ (by simp only [List.length_append])
      rw [hd, take_append_len _ _ _ rfl, hw, hread]
      simp only [List.length_append]
      congr 2; omega
  · have hE := app_frame_other (toProto t) x (appendTag t.wt j) hwf' hty' hpres (by rw [hwt]; exact hw)
    rw [hE] at hsz ⊢
    generalize hB : (toProto t).app x [] = B at hsz h0 ⊢
    simp only [List.length_append] at hsz
    have hBl : B.length < 2 ^ 64 := by omega
    have hread := (h0 hBl).2 hw rest
    refine ⟨(appendTag t.wt j).length, (B ++ rest).length, ?_, htl, ?_, ?_⟩
    · rw [List.append_assoc]
      exact readTagAndLength_other t.wt hw j hj (B ++ rest)
    · simp only [List.length_append]; omega
    · rw [List.append_assoc, drop_append_len _ _ _ rfl, List.take_length, hread]
      simp only [List.length_append]
      congr 2; omega

theorem entry_x (k v : Ty) (hkwf : k.wf) (hvwf : v.wf) (hks : Ty.rtShape false k)
    (hvs : Ty.rtShape false (toProto v)) (ihk : RTVal k) (ihv : XVal v) (e : Val × Val)
    (hk : k.hasTy e.1) (hv : v.hasTy e.2) (hsz : (entryBody k (toProto v) e).length < 2 ^ 64)
    (es : List (Val × Val)) (hnew : ∀ e' ∈ es, e'.1.beq (entryNorm k v e).1 = false) :
    readMapEntry (fun wt b => k.read wt b k.zero) (fun wt b s => v.read wt b s) k.zero v.zero
        (entryBody k (toProto v) e) es
      = .ok (es ++ [entryNorm k v e], (entryBody k (toProto v) e).length) := by
  obtain ⟨x, y⟩ := e
  simp only at hk hv
  have hlook := mapLookup_none _ es hnew
  rw [← mapSet_append _ (entryNorm k v (x, y)).2 es hnew]
  cases hox : x.omit with
  | true =>
    cases hoy : y.omit with
    | true =>
      simp only [entryBody, entryNorm, hox, hoy, ↓reduceIte, List.append_nil, List.length_nil]
      exact readMapEntry_none _ _ _ _ es
    | false =>
      simp only [entryBody, entryNorm, hox, hoy, ↓reduceIte, Bool.false_eq_true, List.nil_append] at hsz hlook ⊢
      obtain ⟨hdr, fl, h1, _, hle, h2⟩ := field_decode_x v hvwf hvs ihv y hv hoy 2 (by omega) hsz []
      rw [List.append_nil] at h1 h2
      refine readMapEntry_v _ _ _ _ _ v.wt hdr fl _ es h1 ?_ hle
      rw [hlook]
      exact h2
  | false =>
    cases hoy : y.omit with
    | true =>
      simp only [entryBody, entryNorm, hox, hoy, ↓reduceIte, Bool.false_eq_true, List.append_nil] at hsz ⊢
      obtain ⟨hdr, fl, h1, _, hle, h2⟩ := field_decode k hkwf hks ihk x hk hox 1 (by omega) hsz []
      rw [List.append_nil] at h1 h2
      exact readMapEntry_k _ _ _ _ _ k.wt hdr fl _ es h1 h2 hle
    | false =>
      simp only [entryBody, entryNorm, hox, hoy, ↓reduceIte, Bool.false_eq_true] at hsz hlook ⊢
      simp only [List.length_append] at hsz
      obtain ⟨hdr, fl, h1, _, hle, h2⟩ := field_decode k hkwf hks ihk x hk hox 1 (by omega) (by omega)
        ((toProto v).app y (appendTag (toProto v).wt 2))
      obtain ⟨hdr2, fl2, h3, hpos2, hle2, h4⟩ := field_decode_x v hvwf hvs ihv y hv hoy 2 (by omega) (by omega) []
      rw [List.append_nil] at h3 h4
      refine readMapEntry_kv _ _ _ _ _ _ k.wt v.wt hdr fl hdr2 fl2 2 _ _ es h1 h2 hle h3 ?_ hle2 (by omega)
      rw [hlook]
      exact h4

theorem entries_x (k v : Ty) (hkwf : k.wf) (hvwf : v.wf) (hks : k.keySafe)
    (hvs : Ty.rtShape false (toProto v)) (ihk : RTVal k) (ihv : XVal v) (es : List (Val × Val))
    (htys : ∀ e ∈ es, k.hasTy e.1 ∧ v.hasTy e.2) (hd : keysDistinct es)
    (hsz : ∀ e ∈ es, (entryBody k (toProto v) e).length < 2 ^ 64) :
    ∀ pre e suf, es = pre ++ e :: suf →
      (entryBody k (toProto v) e).length < 2 ^ 64 ∧
      readMapEntry (fun wt b => k.read wt b k.zero) (fun wt b s => v.read wt b s) k.zero v.zero
          (entryBody k (toProto v) e) ([] ++ pre.map (entryNorm k v))
        = .ok ([] ++ pre.map (entryNorm k v) ++ [entryNorm k v e], (entryBody k (toProto v) e).length) := by
  intro pre e suf h
  have hm : e ∈ es := by rw [h]; simp
  refine ⟨hsz e hm, ?_⟩
  simp only [List.nil_append]
  exact entry_x k v hkwf hvwf (keySafe_shape k hks) hvs ihk ihv e (htys e hm).1 (htys e hm).2 (hsz e hm) _
    (keys_new k v hks es htys hd pre e suf h)

theorem xVal_map (k v : Ty) (hwf : (Ty.map k v false).wf) (hke : toProto k = k) (hks : k.keySafe)
    (hvs : Ty.rtShape false (toProto v)) (ihk : RTVal k) (ihv : XVal v) : XVal (.map k v false) := by
  intro x hty _ hx hsz
  cases x with
  | map o =>
    cases o with
    | none => exact absurd rfl hx
    | some es =>
      refine ⟨fun h => by simp [Ty.wt] at h, fun _ rest => ?_⟩
      have hwf' := wf_toProto _ true hwf (by simp only [toProto, Ty.rtShape, hke]; exact ⟨fun _ => trivial, hks, hvs⟩)
      have hty' := hasTy_toProto _ _ hty
      simp only [toProto, hke] at hwf' hty' hsz ⊢
      have he := map_entries k (toProto v) es [] hwf' hty'
      simp only [List.nil_append] at he
      rw [he] at hsz ⊢
      simp only [Ty.wf] at hwf
      simp only [Ty.hasTy] at hty
      have hle := entryBody_le k (toProto v) es
      have H := entries_x k v hwf.1 hwf.2.1 hks hvs ihk ihv es hty.1 hty.2 (fun e he => by
        have := hle e he
        simp only [List.length_append] at hsz
        omega)
      have hloop := mapLoop_entries
        (readMapEntry (fun wt b => k.read wt b k.zero) (fun wt b s => v.read wt b s) k.zero v.zero)
        (entryBody k (toProto v)) (entryNorm k v) es [] rest (appendVarUint es.length).length H
      generalize hE : (es.flatMap fun e => appendVarUint (entryBody k (toProto v) e).length ++ entryBody k (toProto v) e) = E
        at hsz hloop ⊢
      have hcnt : es.length ≤ E.length := by
        rw [← hE]
        apply length_le_flatMap_length
        intro e _
        have := append_len_pos (entryBody k (toProto v) e).length
        simp only [List.length_append]; omega
      simp only [List.length_append] at hsz
      have hn : es.length < 2 ^ 64 := by omega
      have hne : (appendVarUint es.length ++ E ++ rest).isEmpty = false := by
        have := append_len_pos es.length
        cases h : appendVarUint es.length ++ E ++ rest with
        | nil =>
          have := congrArg List.length h
          simp only [List.length_append, List.length_nil] at this; omega
        | cons _ _ => rfl
      have hc : ¬ (es.length > (appendVarUint es.length).length + (E.length + rest.length)
          - (appendVarUint es.length).length) := by omega
      have hnf : ¬ (false = true ∧ es.isEmpty = true) := by simp
      simp only [Ty.read, Ty.zero, hne, Bool.false_eq_true, ↓reduceIte]
      simp only [List.append_assoc, readU_append _ hn, List.length_append, hc, ↓reduceIte,
        drop_append_len _ _ _ rfl, hloop, norm_map, hnf, List.nil_append]
  | _ => simp [Ty.hasTy] at hty

theorem x_pmap_loop (k v v' : Ty) (i : Nat) (hi : i < 2 ^ 61)
    (rd : Nat → WT → Bytes → List Val → Res (List Val × Nat)) (put : Val → List Val)
    (hrd : ∀ wt body a, rd i wt body (put a) = Res.mapFst put (fieldRead (.map k v true) wt body a)) :
    ∀ (ents acc : List (Val × Val)) (fuel : Nat) (rest : Bytes) (off : Nat),
      (∀ pre e suf, ents = pre ++ e :: suf → (entryBody k v' e).length < 2 ^ 64 ∧
        readMapEntry (fun wt b => k.read wt b k.zero) (fun wt b s => v.read wt b s) k.zero v.zero
            (entryBody k v' e) (acc ++ pre.map (entryNorm k v))
          = .ok (acc ++ pre.map (entryNorm k v) ++ [entryNorm k v e], (entryBody k v' e).length)) →
      ((ents.flatMap fun e => appendTag .len i ++ (appendVarUint (entryBody k v' e).length ++ entryBody k v' e))
          ++ rest).length < fuel →
      structLoop rd fuel
          ((ents.flatMap fun e => appendTag .len i ++ (appendVarUint (entryBody k v' e).length ++ entryBody k v' e))
            ++ rest) off (put (.map (some acc)))
        = structLoop rd fuel rest
            (off + (ents.flatMap fun e =>
              appendTag .len i ++ (appendVarUint (entryBody k v' e).length ++ entryBody k v' e)).length)
            (put (.map (some (acc ++ ents.map (entryNorm k v))))) := by
  intro ents
  induction ents with
  | nil => intro acc fuel rest off _ _; simp
  | cons e ents ih =>
    intro acc fuel rest off H hf
    obtain ⟨hl, hr⟩ := H [] e ents rfl
    simp only [List.map_nil, List.append_nil] at hr
    simp only [List.flatMap_cons, List.append_assoc, List.length_append] at hf ⊢
    have hread : (Ty.map k v true).read .len (entryBody k v' e) (.map (some acc))
        = .ok (.map (some (acc ++ [entryNorm k v e])), (entryBody k v' e).length) := by
      simp only [Ty.read, hr]
    rw [frame_step (.map k v true) i hi rd put hrd (entryBody k v' e) _ hl _ _ hread fuel off
      (by simp only [List.length_append]; omega)]
    rw [ih (acc ++ [entryNorm k v e]) fuel rest _ (fun pre e' suf h => by
      have := H (e :: pre) e' suf (by rw [h]; rfl)
      simpa [List.append_assoc] using this) (by simp only [List.length_append]; omega)]
    simp only [List.map_cons, List.append_assoc, List.singleton_append, Nat.add_assoc]

theorem xField_pmap (k v : Ty) (hwf : (Ty.map k v true).wf) (hke : toProto k = k) (hks : k.keySafe)
    (hvs : Ty.rtShape false (toProto v)) (ihk : RTVal k) (ihv : XVal v) : XField (.map k v true) := by
  intro i x hi hty hom hsz rd put hrd fuel rest off hf
  cases x with
  | map o =>
    cases o with
    | none => simp [Val.omit] at hom
    | some es =>
      have hwf' := wf_toProto _ true hwf (by simp only [toProto, Ty.rtShape, hke]; exact ⟨fun _ => trivial, hks, hvs⟩)
      have hty' := hasTy_toProto _ _ hty
      simp only [toProto, hke] at hwf' hty' hsz hf ⊢
      have he := pmap_frames k (toProto v) es (appendTag (Ty.map k (toProto v) true).wt i) hwf' hty'
      rw [he] at hsz hf ⊢
      simp only [Ty.wf] at hwf
      simp only [Ty.hasTy] at hty
      simp only [Ty.wt, List.append_assoc] at hsz hf hrd ⊢
      have hle : ∀ e ∈ es, (entryBody k (toProto v) e).length < 2 ^ 64 := by
        intro e he
        have := length_le_flatMap_of_mem
          (fun e => appendTag .len i ++ (appendVarUint (entryBody k (toProto v) e).length ++ entryBody k (toProto v) e))
          es e he
        simp only [List.length_append] at this
        omega
      have H := entries_x k v hwf.1 hwf.2.1 hks hvs ihk ihv es hty.1 hty.2 hle
      cases es with
      | nil => simp [Ty.zero, norm_map]
      | cons e es' =>
        obtain ⟨hl, hr⟩ := H [] e es' rfl
        simp only [List.map_nil, List.append_nil] at hr
        simp only [List.flatMap_cons, List.append_assoc, List.length_append] at hf ⊢
        have hread : (Ty.map k v true).read .len (entryBody k (toProto v) e) (.map none)
            = .ok (.map (some ([] ++ [entryNorm k v e])), (entryBody k (toProto v) e).length) := by
          simp only [Ty.read, hr]
        simp only [Ty.zero, norm_map, List.isEmpty_cons, Bool.false_eq_true, and_false, ↓reduceIte]
        rw [frame_step (.map k v true) i hi rd put hrd (entryBody k (toProto v) e) _ hl _ _ hread fuel off
          (by simp only [List.length_append]; omega)]
        rw [x_pmap_loop k v (toProto v) i hi rd put hrd es' ([] ++ [entryNorm k v e]) fuel rest _
          (fun pre e' suf h => by
            have := H (e :: pre) e' suf (by rw [h]; rfl)
            simpa [List.append_assoc] using this) (by simp only [List.length_append]; omega)]
        simp only [List.map_cons, List.nil_append, List.singleton_append, Nat.add_assoc]
  | _ => simp [Ty.hasTy] at hty

/-! ### assembly -/

def PPx (t : Ty) : Prop :=
  t.wf → (Ty.rtShape false (toProto t) → XVal t) ∧ (Ty.rtShape true (toProto t) → XField t)

theorem isProtoRep_toProto_false (t : Ty) (h : t.isProtoRep = false) (hl : ∀ u, t ≠ .lslice u) :
    (toProto t).isProtoRep = false := by
  cases t with
  | lslice u => exact absurd rfl (hl u)
  | map k v p => cases p <;> simp_all [toProto, Ty.isProtoRep]
  | _ => simp_all [toProto, Ty.isProtoRep]

theorem ppx_of_val (t : Ty) (hr : t.isProtoRep = false) (hl : ∀ u, t ≠ .lslice u)
    (h : t.wf → Ty.rtShape false (toProto t) → XVal t) : PPx t := by
  intro hwf
  refine ⟨h hwf, fun hs => ?_⟩
  have hs' := shape_false_of_true (toProto t) (isProtoRep_toProto_false t hr hl) hs
  exact xField_of_val t hwf hs' (h hwf hs')

theorem ppx_fixed (t : Ty) (e : toProto t = t) : PPx t := by
  intro hwf
  refine ⟨fun hs => ?_, fun hs => ?_⟩
  · rw [e] at hs; exact xVal_fixed t e ((pp_ty t hwf).1 hs)
  · rw [e] at hs; exact xField_fixed t e ((pp_ty t hwf).2 hs)

theorem ppx_ptr (u : Ty) (ih : PPx u) : PPx (.ptr u) :=
  ppx_of_val _ rfl (by intro w e; cases e) (fun hwf hs => by
    simp only [Ty.wf] at hwf
    simp only [toProto, Ty.rtShape, isPtr_toProto] at hs
    exact xVal_ptr u hs.1 hwf.2 ((ih hwf.1).1 hs.2))

theorem ppx_lslice (u : Ty) (ih : PPx u) : PPx (.lslice u) := by
  intro hwf
  refine ⟨fun hs => by simp [toProto, Ty.rtShape] at hs, fun hs => ?_⟩
  simp only [toProto, Ty.rtShape, true_and] at hs
  exact xField_lslice u hwf hs ((ih hwf.1).1 hs)

theorem ppx_pslice (u : Ty) (ih : PPx u) : PPx (.pslice u) := by
  intro hwf
  refine ⟨fun hs => by simp [toProto, Ty.rtShape] at hs, fun hs => ?_⟩
  simp only [toProto, Ty.rtShape, true_and] at hs
  exact xField_pslice u hwf hs ((ih hwf.1).1 hs)

theorem ppx_struct (nm : String) (fs : Fields) (ih : ∀ f ∈ fs, PPx f.2.2) : PPx (.struct nm fs) :=
  ppx_of_val _ rfl (by intro w e; cases e) (fun hwf hs => by
    simp only [toProto, Ty.rtShape] at hs
    exact xVal_struct nm fs hwf (fun f hf => by
      have hm : (f.1, f.2.1, toProto f.2.2) ∈ toProtoL fs := by
        clear ih hwf hs
        induction fs with
        | nil => simp at hf
        | cons g r ihr =>
          obtain ⟨i, n, t⟩ := g
          rcases List.mem_cons.mp hf with rfl | hf
          · simp [toProtoL]
          · simp only [toProtoL, List.mem_cons]; exact .inr (ihr hf)
      exact (ih f hf (fieldsWf_mem fs hwf.2.2 f hf)).2 (fieldsRtShape_mem (toProtoL fs) hs _ hm)))

theorem ppx_map (k v : Ty) (p : Bool) (ihv : PPx v) : PPx (.map k v p) := by
  cases p with
  | false =>
    exact ppx_of_val _ rfl (by intro w e; cases e) (fun hwf hs => by
      simp only [toProto, Ty.rtShape] at hs
      have hk := keySafe_of_toProto k hs.2.1
      have hwf' := hwf
      simp only [Ty.wf] at hwf'
      exact xVal_map k v hwf hk.2 hk.1 hs.2.2 ((pp_ty k hwf'.1).1 (keySafe_shape k hk.1))
        ((ihv hwf'.2.1).1 hs.2.2))
  | true =>
    intro hwf
    refine ⟨fun hs => by simp [toProto, Ty.rtShape] at hs, fun hs => ?_⟩
    simp only [toProto, Ty.rtShape] at hs
    have hk := keySafe_of_toProto k hs.2.1
    have hwf' := hwf
    simp only [Ty.wf] at hwf'
    exact xField_pmap k v hwf hk.2 hk.1 hs.2.2 ((pp_ty k hwf'.1).1 (keySafe_shape k hk.1))
      ((ihv hwf'.2.1).1 hs.2.2)

theorem ppx_vslice (u : Ty) : PPx (.vslice u) := by
  intro hwf
  have hwf' := hwf
  simp only [Ty.wf] at hwf'
  exact ppx_fixed _ (by simp only [toProto, toProto_of_varint u hwf'.2.1]) hwf

theorem ppx_fslice (u : Ty) : PPx (.fslice u) := by
  intro hwf
  have hwf' := hwf
  simp only [Ty.wf] at hwf'
  exact ppx_fixed _ (by rcases hwf' with rfl | rfl <;> simp [toProto]) hwf

mutual
theorem ppx_ty : (t : Ty) → PPx t
  | .bool => ppx_fixed _ (by simp [toProto])
  | .int _ => ppx_fixed _ (by simp [toProto])
  | .uint _ => ppx_fixed _ (by simp [toProto])
  | .flat _ => ppx_fixed _ (by simp [toProto])
  | .f32 => ppx_fixed _ (by simp [toProto])
  | .f64 => ppx_fixed _ (by simp [toProto])
  | .str _ => ppx_fixed _ (by simp [toProto])
  | .bytes => ppx_fixed _ (by simp [toProto])
  | .time _ => ppx_fixed _ (by simp [toProto])
  | .vslice u => ppx_vslice u
  | .fslice u => ppx_fslice u
  | .ptr u => ppx_ptr u (ppx_ty u)
  | .lslice u => ppx_lslice u (ppx_ty u)
  | .pslice u => ppx_pslice u (ppx_ty u)
  | .struct nm fs => ppx_struct nm fs (ppx_fields fs)
  | .map k v p => ppx_map k v p (ppx_ty v)
theorem ppx_fields : (fs : Fields) → ∀ f ∈ fs, PPx f.2.2
  | [] => by intro f hf; simp at hf
  | (_, _, t) :: r => by
      intro f hf
      rcases List.mem_cons.mp hf with rfl | hf
      · exact ppx_ty t
      · exact ppx_fields r f hf
end

/-- C12: a default-mode instance (codec tree `t`) decodes what the
`ProtoCompatibleArrays` instance (codec tree `toProto t`) wrote, to the same
(normalised) value. Struct-rooted `t`; the proto tree must be in the C01 shapes
(`rtShape false (toProto t)`): length-delimited slices of `t` occur only directly
in struct fields. -/
theorem default_reads_repeated (nm : String) (fs : Fields) (v : Val)
    (hwf : (Ty.struct nm fs).wf) (hshape : Ty.rtShape false (toProto (.struct nm fs)))
    (hty : (Ty.struct nm fs).hasTy v)
    (hsz : (marshal (toProto (.struct nm fs)) v).length < 2 ^ 63) :
    unmarshal (.struct nm fs) (marshal (toProto (.struct nm fs)) v) (Ty.struct nm fs).zero
      = .ok ((Ty.struct nm fs).normPos v) := by
  have ho : v.omit = false := by cases v <;> simp_all [Ty.hasTy, Val.omit]
  unfold marshal at hsz ⊢
  unfold unmarshal Ty.normPos
  simp only [ho, Bool.false_eq_true, ↓reduceIte] at hsz ⊢
  have h := (ppx_ty _ hwf).1 hshape v hty (ne_ptr_none_of_not_omit v ho)
    (ne_map_none_of_not_omit v ho) (by omega)
  have hw : (Ty.struct nm fs).wt = .len := rfl
  rw [hw, h.1 hw]

/-! ### tie to the builder -/

/-- the one place the builder consults `ProtoCompatibleArrays`: with the switch
set, `sliceWrap` returns the `ProtoSliceWrapper` exactly where it returned the
`WTLengthSliceWrapper` before, and is unchanged otherwise — `toProto` at one node. -/
theorem sliceWrap_protoArrays (cfg : Cfg) (tag : String) (e : Bool) (sub : Ty) :
    sliceWrap { cfg with protoArrays := true } tag e sub
      = match sliceWrap cfg tag e sub with
        | .ok (.lslice u) => .ok (.pslice u)
        | r => r := by
  unfold sliceWrap
  cases sub.wt <;> simp
  · cases e <;> simp
  · cases sub.isProtoSlice <;> simp
    by_cases h : cfg.protoArrays = true ∨ tag = "proto" <;> simp [h]
  · cases e <;> simp

/-- with the switch set the builder's slice wrapper is never the plenc-only form. -/
theorem sliceWrap_no_lslice (cfg : Cfg) (h : cfg.protoArrays = true) (tag : String) (e : Bool) (sub t : Ty)
    (hb : sliceWrap cfg tag e sub = .ok t) : ∀ u, t ≠ .lslice u := by
  intro u hu
  subst hu
  unfold sliceWrap at hb
  cases hw : sub.wt <;> simp [hw, h] at hb
  all_goals (first | (cases e <;> simp at hb) | (cases hp : sub.isProtoSlice <;> simp [hp] at hb))

end ProtoP
