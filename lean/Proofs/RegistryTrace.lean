import Plenc.RegistryTrace
import Proofs.Registry
/-
  Proofs.RegistryTrace — a trace that `conform` follows is a path of `Reach`:
  every state the replay goes through is reachable in the transition system the
  C07 theorems are about.
-/
namespace Registry

theorem advance_reach (fuel : Nat) (s : State) (i : Nat) : Reach s (advance fuel s i) := by
  induction fuel generalizing s with
  | zero => exact .refl
  | succ n ih =>
    unfold advance
    split
    · exact .refl
    · split
      · rename_i s' hs
        exact (Reach.step .refl hs).trans (ih s')
      · exact .refl

theorem runAlone_reach (fuel : Nat) (s : State) (i : Nat) : Reach s (runAlone fuel s i) := by
  induction fuel generalizing s with
  | zero => exact .refl
  | succ n ih =>
    unfold runAlone
    split
    · rename_i s' hs
      exact (Reach.step .refl hs).trans (ih s')
    · exact .refl

theorem bringFront_perm (pend : Reg) (k : Nat) : (bringFront pend k).Perm pend := by
  unfold bringFront
  split
  · rename_i e he
    exact (List.perm_cons_erase (List.mem_of_find?_eq_some he)).symm
  · exact .refl _

theorem reorderFor_reach (s : State) (i : Nat) (e : Ev) : Reach s (reorderFor s i e) := by
  unfold reorderFor
  split
  · rename_i k ty node pend below hst
    exact Reach.reorder .refl (Reorder.mk hst (bringFront_perm pend k))
  · exact .refl

theorem doEvent_reach {fuel : Nat} {s s' : State} {i : Nat} {e : Ev}
    (h : doEvent fuel s i e = .ok s') : Reach s s' := by
  unfold doEvent at h
  simp only at h
  split at h
  · cases h
  · split at h
    · split at h
      · rename_i s3 hs3
        cases h
        exact ((advance_reach fuel s i).trans (reorderFor_reach _ i e)).trans (Reach.step .refl hs3)
      · cases h
    · cases h

/-- the event the model performed is the recorded one. -/
theorem doEvent_event {fuel : Nat} {s s' : State} {i : Nat} {e : Ev}
    (h : doEvent fuel s i e = .ok s') :
    sharedNext ((reorderFor (advance fuel s i) i e).threads i) = some e ∧
    stepThread (reorderFor (advance fuel s i) i e) i = some s' := by
  unfold doEvent at h
  simp only at h
  split at h
  · cases h
  · rename_i e' he'
    split at h
    · rename_i heq
      split at h
      · rename_i s3 hs3
        cases h
        exact ⟨by rw [he', heq], hs3⟩
      · cases h
    · cases h

theorem conform_reach {fuel : Nat} {s s' : State} {evs : List (Nat × Ev)} {k : Nat}
    (h : conform fuel s evs k = .ok s') : Reach s s' := by
  induction evs generalizing s k with
  | nil => unfold conform at h; cases h; exact .refl
  | cons ev rest ih =>
    obtain ⟨i, e⟩ := ev
    unfold conform at h
    split at h
    · rename_i s1 h1
      exact (doEvent_reach h1).trans (ih h)
    · cases h

theorem finish_reach (fuel : Nat) (s : State) (n : Nat) : Reach s (finish fuel s n) := by
  induction n with
  | zero => exact .refl
  | succ n ih => exact ih.trans (advance_reach fuel _ n)

/-- The whole replay — default registrations by goroutine 0 alone, the recorded
events, the remaining silent steps — is an execution of the protocol from its
initial state. -/
theorem replay_reach {nodes : List TNode} {pre : List Nat} {reqs : List (List Nat)}
    {fuel : Nat} {evs : List (Nat × Ev)} {s' : State} (n : Nat)
    (h : conform fuel (startState nodes pre reqs fuel) evs 0 = .ok s') :
    Reach (init (graphOf nodes) (pre :: reqs)) (finish fuel s' n) :=
  ((runAlone_reach fuel _ 0).trans (conform_reach h)).trans (finish_reach fuel s' n)

end Registry
