import Plenc.JSONOut
/-
  Proofs.JSONOut — helper lemmas for C15 (JSON outputter).
-/
namespace JSONOut

/-! ## Part A: the machine produces `render` -/

theorem run_append (o : Out) (a b : List Call) : run o (a ++ b) = run (run o a) b := by
  simp [run, List.foldl_append]

theorem trim_append_two (x : Bytes) (c d : UInt8) :
    trim (x ++ [c, d]) = if c = comma ∧ d = nl then x ++ [nl] else x ++ [c, d] := by
  induction x with
  | nil => simp [trim]
  | cons a x ih =>
    cases x with
    | nil => simp only [List.cons_append, List.nil_append, trim]; split <;> simp_all [trim]
    | cons b x =>
      cases x with
      | nil =>
        simp only [List.cons_append, List.nil_append] at ih ⊢
        rw [trim, ih]; split <;> simp
      | cons e x =>
        simp only [List.cons_append] at ih ⊢
        rw [trim, ih]; split <;> simp

/-- machine-shaped rendering: every element is followed by ",\n"; containers
trim the last one. -/
def closeElems (e : Bytes) : Bytes := if e = [] then [] else e.dropLast.dropLast ++ [nl]

mutual
def J.body : Nat → J → Bytes
  | _, .str s => escapeString s
  | _, .tok t => t
  | d, .arr xs => [91, nl] ++ closeElems (elemsL (d+1) xs) ++ indent d ++ [93]
  | d, .obj kvs => [123, nl] ++ closeElems (elemsKV (d+1) kvs) ++ indent d ++ [125]
def elemsL : Nat → List J → Bytes
  | _, [] => [] | d, x :: r => indent d ++ x.body d ++ [comma, nl] ++ elemsL d r
def elemsKV : Nat → List (Bytes × J) → Bytes
  | _, [] => [] | d, (k, x) :: r => indent d ++ escapeString k ++ [58, 32] ++ x.body d ++ [comma, nl] ++ elemsKV d r
end

/-- what a complete value does to the machine -/
def after (o : Out) (b : Bytes) : Out :=
  ({ o.pre with data := o.pre.data ++ b } : Out).punct

theorem tok_step (o : Out) (t : Bytes) : step o (.tok t) = after o t := rfl
theorem str_step (o : Out) (s : Bytes) : step o (.str s) = after o (escapeString s) := rfl

theorem elemsL_ends (d : Nat) : ∀ xs : List J, elemsL d xs = [] ∨ ∃ e, elemsL d xs = e ++ [comma, nl]
  | [] => Or.inl (by simp [elemsL])
  | x :: r => by
    right
    rcases elemsL_ends d r with h | ⟨e, h⟩
    · exact ⟨indent d ++ x.body d, by simp [elemsL, h]⟩
    · exact ⟨indent d ++ x.body d ++ [comma, nl] ++ e, by simp [elemsL, h]⟩

theorem elemsKV_ends (d : Nat) : ∀ xs : List (Bytes × J), elemsKV d xs = [] ∨ ∃ e, elemsKV d xs = e ++ [comma, nl]
  | [] => Or.inl (by simp [elemsKV])
  | (k, x) :: r => by
    right
    rcases elemsKV_ends d r with h | ⟨e, h⟩
    · exact ⟨indent d ++ escapeString k ++ [58, 32] ++ x.body d, by simp [elemsKV, h]⟩
    · exact ⟨indent d ++ escapeString k ++ [58, 32] ++ x.body d ++ [comma, nl] ++ e, by simp [elemsKV, h]⟩

theorem trim_close (D : Bytes) (c : UInt8) (hc : c ≠ comma) (E : Bytes)
    (hE : E = [] ∨ ∃ e, E = e ++ [comma, nl]) :
    trim (D ++ [c, nl] ++ E) = D ++ [c, nl] ++ closeElems E := by
  rcases hE with h | ⟨e, h⟩
  · subst h
    simp only [List.append_nil, closeElems, ↓reduceIte]
    rw [trim_append_two]; simp [hc]
  · subst h
    have : D ++ [c, nl] ++ (e ++ [comma, nl]) = (D ++ [c, nl] ++ e) ++ [comma, nl] := by simp
    rw [this, trim_append_two]
    have hne : e ++ [comma, nl] ≠ [] := by simp
    simp only [and_self, ↓reduceIte, closeElems, hne]
    simp

theorem pre_inField (o : Out) : o.pre.inField = false := by
  unfold Out.pre; split <;> simp_all

theorem pre_stack (o : Out) : o.pre.stack = o.stack := by unfold Out.pre; split <;> rfl
theorem pre_depth (o : Out) : o.pre.depth = o.depth := by unfold Out.pre; split <;> rfl

theorem after_arr (o : Out) (n : Nat) (r : List St) (b : Bytes)
    (hd : o.depth = n) (hf : o.inField = false) (hs : o.stack = .value :: r) :
    after o b = { o with data := o.data ++ indent n ++ b ++ [comma, nl] } := by
  cases o with
  | mk data depth inField stack =>
    simp only at hd hf hs
    subst hd; subst hf; subst hs
    simp [after, Out.pre, Out.punct]

theorem name_then_value (o : Out) (n : Nat) (r : List St) (k b : Bytes)
    (hd : o.depth = n) (hf : o.inField = false) (hs : o.stack = .key :: r) :
    after (step o (.name k)) b =
      { o with data := o.data ++ indent n ++ escapeString k ++ [58, 32] ++ b ++ [comma, nl] } := by
  cases o with
  | mk data depth inField stack =>
    simp only at hd hf hs
    subst hd; subst hf; subst hs
    simp [after, step, Out.pre, Out.punct]

theorem close_container (o : Out) (open_ close : UInt8) (ho : open_ ≠ comma) (E : Bytes)
    (hE : E = [] ∨ ∃ e, E = e ++ [comma, nl]) (top : St) :
    let o2 : Out := ⟨o.pre.data ++ [open_, nl] ++ E, o.depth + 1, false, top :: o.stack⟩
    (({ o2.fin.pre with data := o2.fin.pre.data ++ [close] } : Out).punct)
      = after o ([open_, nl] ++ closeElems E ++ indent o.depth ++ [close]) := by
  intro o2
  have hd : ¬ (o.depth + 1 = 0) := by omega
  have hfin : o2.fin = ⟨o.pre.data ++ [open_, nl] ++ closeElems E, o.depth, false, o.stack⟩ := by
    simp only [o2, Out.fin, hd, ↓reduceIte, List.tail_cons, Nat.add_sub_cancel]
    rw [trim_close o.pre.data open_ ho E hE]
  rw [hfin]
  simp only [after, Out.pre, Bool.false_eq_true, ↓reduceIte]
  split
  · simp [List.append_assoc]
  · rename_i h
    have : o.inField = false := by simpa using h
    simp [List.append_assoc, this]

mutual
/-- in EVERY machine state, the calls of a tree act like one scalar whose token
is the machine-shaped rendering of the tree at the current depth. -/
theorem run_value : (t : J) → ∀ o : Out, run o t.calls = after o (t.body o.depth)
  | .str s, o => by simp [J.calls, run, J.body, str_step]
  | .tok t, o => by simp [J.calls, run, J.body, tok_step]
  | .arr xs, o => by
      simp only [J.calls, J.body]
      rw [show Call.startArr :: (callsL xs ++ [Call.endArr]) = [Call.startArr] ++ callsL xs ++ [Call.endArr] by simp]
      rw [run_append, run_append]
      have h1 : run o [Call.startArr] =
          ⟨o.pre.data ++ [91, nl], o.depth + 1, false, .value :: o.stack⟩ := by
        simp [run, step, pre_inField, pre_stack, pre_depth]
      rw [h1, run_elems xs ⟨o.pre.data ++ [91, nl], o.depth + 1, false, .value :: o.stack⟩ (o.depth + 1) o.stack rfl rfl rfl]
      have := close_container o 91 93 (by decide) (elemsL (o.depth + 1) xs) (elemsL_ends _ xs) .value
      simpa [run, step] using this
  | .obj kvs, o => by
      simp only [J.calls, J.body]
      rw [show Call.startObj :: (callsKV kvs ++ [Call.endObj]) = [Call.startObj] ++ callsKV kvs ++ [Call.endObj] by simp]
      rw [run_append, run_append]
      have h1 : run o [Call.startObj] =
          ⟨o.pre.data ++ [123, nl], o.depth + 1, false, .key :: o.stack⟩ := by
        simp [run, step, pre_inField, pre_stack, pre_depth]
      rw [h1, run_kvs kvs ⟨o.pre.data ++ [123, nl], o.depth + 1, false, .key :: o.stack⟩ (o.depth + 1) o.stack rfl rfl rfl]
      have := close_container o 123 125 (by decide) (elemsKV (o.depth + 1) kvs) (elemsKV_ends _ kvs) .key
      simpa [run, step] using this
theorem run_elems : (xs : List J) → ∀ (o : Out) (n : Nat) (r : List St),
    o.depth = n → o.inField = false → o.stack = .value :: r →
    run o (callsL xs) = { o with data := o.data ++ elemsL n xs }
  | [], o, n, r, _, _, _ => by simp [callsL, run, elemsL]
  | x :: xs, o, n, r, hd, hf, hs => by
      subst hd
      simp only [callsL, run_append, elemsL]
      rw [run_value x o, after_arr o o.depth r _ rfl hf hs]
      rw [run_elems xs { o with data := o.data ++ indent o.depth ++ x.body o.depth ++ [comma, nl] } o.depth r rfl hf hs]
      simp [List.append_assoc]
theorem run_kvs : (kvs : List (Bytes × J)) → ∀ (o : Out) (n : Nat) (r : List St),
    o.depth = n → o.inField = false → o.stack = .key :: r →
    run o (callsKV kvs) = { o with data := o.data ++ elemsKV n kvs }
  | [], o, n, r, _, _, _ => by simp [callsKV, run, elemsKV]
  | (k, x) :: kvs, o, n, r, hd, hf, hs => by
      subst hd
      simp only [callsKV, run_append, elemsKV]
      have hstep : run o [Call.name k] = step o (.name k) := by simp [run]
      rw [show Call.name k :: x.calls = [Call.name k] ++ x.calls by simp, run_append, hstep, run_value x _]
      have hdn : (step o (.name k)).depth = o.depth := by
        simp only [step, Out.punct]; split <;> simp [pre_depth]
      rw [hdn, name_then_value o o.depth r k _ rfl hf hs]
      rw [run_kvs kvs { o with data := o.data ++ indent o.depth ++ escapeString k ++ [58, 32] ++ x.body o.depth ++ [comma, nl] } o.depth r rfl hf hs]
      simp [List.append_assoc]
end

theorem dropLast2_append (X : Bytes) (a b : UInt8) : (X ++ [a, b]).dropLast.dropLast = X := by
  have : X ++ [a, b] = (X ++ [a]) ++ [b] := by simp
  rw [this, List.dropLast_concat, List.dropLast_concat]

theorem closeElems_two (X : Bytes) (a b : UInt8) : closeElems (X ++ [a, b]) = X ++ [nl] := by
  have hne : X ++ [a, b] ≠ [] := by simp
  simp only [closeElems, hne, ↓reduceIte, dropLast2_append]

theorem closeElems_cons_sep (A B : Bytes) {α} (r : List α)
    (hB : (B = [] ∧ r = []) ∨ (r ≠ [] ∧ ∃ e, B = e ++ [comma, nl])) :
    closeElems (A ++ [comma, nl] ++ B) = A ++ sep r ++ closeElems B := by
  rcases hB with ⟨hB, hr⟩ | ⟨hr, e, hB⟩
  · subst hB; subst hr
    rw [List.append_nil, closeElems_two]
    simp [closeElems, sep, nl]
  · subst hB
    cases r with
    | nil => exact absurd rfl hr
    | cons a r =>
      have : A ++ [comma, nl] ++ (e ++ [comma, nl]) = (A ++ [comma, nl] ++ e) ++ [comma, nl] := by simp
      rw [this, closeElems_two, closeElems_two]
      simp [sep, nl, comma]

theorem elemsL_shape (d : Nat) (xs : List J) :
    (elemsL d xs = [] ∧ xs = []) ∨ (xs ≠ [] ∧ ∃ e, elemsL d xs = e ++ [comma, nl]) := by
  cases xs with
  | nil => left; simp [elemsL]
  | cons x r =>
    right; refine ⟨by simp, ?_⟩
    rcases elemsL_ends d (x :: r) with h | h
    · simp [elemsL] at h
    · exact h

theorem elemsKV_shape (d : Nat) (xs : List (Bytes × J)) :
    (elemsKV d xs = [] ∧ xs = []) ∨ (xs ≠ [] ∧ ∃ e, elemsKV d xs = e ++ [comma, nl]) := by
  cases xs with
  | nil => left; simp [elemsKV]
  | cons x r =>
    obtain ⟨k, x⟩ := x
    right; refine ⟨by simp, ?_⟩
    rcases elemsKV_ends d ((k, x) :: r) with h | h
    · simp [elemsKV] at h
    · exact h

mutual
/-- the machine-shaped rendering is the specification's pretty-printer. -/
theorem body_eq_render : (t : J) → ∀ d, t.body d = render d t
  | .str s, d => by simp [J.body, render]
  | .tok t, d => by simp [J.body, render]
  | .arr xs, d => by simp [J.body, render, close_elemsL xs (d+1), nl]
  | .obj kvs, d => by simp [J.body, render, close_elemsKV kvs (d+1), nl]
theorem close_elemsL : (xs : List J) → ∀ d, closeElems (elemsL d xs) = renderL d xs
  | [], d => by simp [elemsL, renderL, closeElems]
  | x :: r, d => by
      simp only [elemsL, renderL]
      rw [closeElems_cons_sep (indent d ++ x.body d) (elemsL d r) r (elemsL_shape d r),
        close_elemsL r d, body_eq_render x d]
theorem close_elemsKV : (xs : List (Bytes × J)) → ∀ d, closeElems (elemsKV d xs) = renderKV d xs
  | [], d => by simp [elemsKV, renderKV, closeElems]
  | (k, x) :: r, d => by
      simp only [elemsKV, renderKV]
      rw [closeElems_cons_sep (indent d ++ escapeString k ++ [58, 32] ++ x.body d) (elemsKV d r) r
        (elemsKV_shape d r), close_elemsKV r d, body_eq_render x d]
end

/-- `depth = len(stack)` in every state reachable from a fresh/Reset outputter:
the slice expression in `end()` never panics. -/
theorem step_depth_stack (o : Out) (c : Call) (h : o.depth = o.stack.length) :
    (step o c).depth = (step o c).stack.length := by
  have hp : ∀ o : Out, o.depth = o.stack.length → o.punct.depth = o.punct.stack.length := by
    intro o h; unfold Out.punct; split <;> simp_all
  have hf : ∀ o : Out, o.depth = o.stack.length → o.fin.depth = o.fin.stack.length := by
    intro o h; unfold Out.fin; split
    · simpa using h
    · simp [h]
  have hpre : ∀ o : Out, o.depth = o.stack.length → o.pre.depth = o.pre.stack.length := by
    intro o h; rw [pre_depth, pre_stack]; exact h
  cases c <;> simp only [step]
  · simp [pre_depth, pre_stack, h]
  · apply hp; exact hpre _ (hf _ h)
  · simp [pre_depth, pre_stack, h]
  · apply hp; exact hpre _ (hf _ h)
  · apply hp; exact hpre _ h
  · apply hp; exact hpre _ h
  · apply hp; exact hpre _ h

theorem depth_eq_stack (cs : List Call) (o : Out) (h : o.depth = o.stack.length) :
    (run o cs).depth = (run o cs).stack.length := by
  induction cs generalizing o with
  | nil => simpa [run] using h
  | cons c cs ih => simpa [run] using ih (step o c) (step_depth_stack o c h)

/-! ## Part B: the parser reads `render` back -/

/-! ### whitespace -/

theorem skipWs_replicate (n : Nat) (s : Bytes) : skipWs (List.replicate n 32 ++ s) = skipWs s := by
  induction n with
  | zero => simp
  | succ n ih => simp [List.replicate_succ, skipWs, isWs, ih]

@[simp] theorem skipWs_indent (d : Nat) (s : Bytes) : skipWs (indent d ++ s) = skipWs s :=
  skipWs_replicate _ _

theorem skipWs_nl (s : Bytes) : skipWs (10 :: s) = skipWs s := by simp [skipWs, isWs]
theorem skipWs_sp (s : Bytes) : skipWs (32 :: s) = skipWs s := by simp [skipWs, isWs]

theorem skipWs_stop (c : UInt8) (s : Bytes) (h : isWs c = false) : skipWs (c :: s) = c :: s := by
  simp [skipWs, h]

/-! ### strings -/

theorem hexVal_hexDigit : ∀ n, n < 16 → hexVal (hexDigit n) = some n := by decide

theorem hex4_00 (n : Nat) (h : n < 256) :
    hex4 48 48 (hexDigit (n / 16)) (hexDigit (n % 16)) = some n := by
  have h1 : hexVal (hexDigit (n / 16)) = some (n / 16) := hexVal_hexDigit _ (by omega)
  have h2 : hexVal (hexDigit (n % 16)) = some (n % 16) := hexVal_hexDigit _ (by omega)
  have h0 : hexVal 48 = some 0 := by decide
  simp only [hex4, h0, h1, h2]
  congr 1; omega

theorem consRes_some (b s r : Bytes) : consRes b (some (s, r)) = some (b ++ s, r) := rfl

theorem parseStrBody_nil : parseStrBody [] = none := by rw [parseStrBody.eq_def]

theorem parseStrBody_cons (c : UInt8) (r : Bytes) : parseStrBody (c :: r) =
    if c = 34 then some ([], r)
    else if c = 92 then
      match r with
      | [] => none
      | e :: r1 =>
        if e = 34 then consRes [34] (parseStrBody r1)
        else if e = 92 then consRes [92] (parseStrBody r1)
        else if e = 47 then consRes [47] (parseStrBody r1)
        else if e = 98 then consRes [8] (parseStrBody r1)
        else if e = 102 then consRes [12] (parseStrBody r1)
        else if e = 110 then consRes [10] (parseStrBody r1)
        else if e = 114 then consRes [13] (parseStrBody r1)
        else if e = 116 then consRes [9] (parseStrBody r1)
        else if e = 117 then
          match r1 with
          | a :: b :: c :: d :: r2 =>
            match (hex4 a b c d).bind uEscBytes with
            | some bs => consRes bs (parseStrBody r2)
            | none => none
          | _ => none
        else none
    else if c.toNat < 32 then none
    else consRes [c] (parseStrBody r) := by
  rw [parseStrBody.eq_def]; rfl

/-- one escaped byte parses back to the byte. -/
theorem parseStrBody_escByte (c : UInt8) (X : Bytes) :
    parseStrBody (escByte c ++ X) = consRes [c] (parseStrBody X) := by
  unfold escByte
  split
  · rename_i h
    rcases h with h | h <;> subst h <;> simp [parseStrBody_cons]
  · split
    · rename_i h; subst h; simp [parseStrBody_cons]
    · split
      · rename_i h; subst h; simp [parseStrBody_cons]
      · split
        · rename_i h; subst h; simp [parseStrBody_cons]
        · split
          · rename_i h
            have hlt : c.toNat < 32 := by simpa [UInt8.lt_iff_toNat_lt] using h
            have h4 := hex4_00 c.toNat (by omega)
            have hu : uEscBytes c.toNat = some [c] := by
              have : c.toNat < 128 := by omega
              simp [uEscBytes, this]
            simp [parseStrBody_cons, h4, hu]
          · rename_i h1 h2 h3 h4 h5
            have h92 : c ≠ 92 := fun h => h1 (Or.inl h)
            have h34 : c ≠ 34 := fun h => h1 (Or.inr h)
            have hge : ¬ c.toNat < 32 := by simpa [UInt8.lt_iff_toNat_lt] using h5
            simp [parseStrBody_cons, h92, h34, hge]

/-- the key string lemma: for ALL byte strings `s`, the escaped body followed by
the closing quote parses back to exactly `s`. -/
theorem parseStrBody_escape (s rest : Bytes) :
    parseStrBody (s.flatMap escByte ++ 34 :: rest) = some (s, rest) := by
  induction s with
  | nil => simp [parseStrBody_cons]
  | cons c s ih =>
    rw [List.flatMap_cons, List.append_assoc, parseStrBody_escByte, ih]; rfl

theorem escapeString_append (s rest : Bytes) :
    escapeString s ++ rest = 34 :: (s.flatMap escByte ++ 34 :: rest) := by
  simp [escapeString]

/-- a body without anything to escape parses to itself. -/
theorem parseStrBody_plain (s rest : Bytes) (h : ∀ b ∈ s, 32 ≤ b.toNat ∧ b ≠ 34 ∧ b ≠ 92) :
    parseStrBody (s ++ 34 :: rest) = some (s, rest) := by
  induction s with
  | nil => simp [parseStrBody_cons]
  | cons c s ih =>
    have hc := h c (by simp)
    have hs := ih (fun b hb => h b (by simp [hb]))
    have : ¬ c.toNat < 32 := by omega
    simp [parseStrBody_cons, hc.2.1, hc.2.2, this, hs, consRes]

/-! ### numbers -/

/-- `p` holds of the first byte, if there is one. -/
def headOk (p : UInt8 → Bool) : Bytes → Bool
  | [] => true
  | c :: _ => p c

/-- bytes that cannot continue a number token. -/
def numStop (c : UInt8) : Bool := !isDigit c && c != 46 && c != 101 && c != 69

theorem isDigit_ne {d : UInt8} (h : isDigit d = true) (c : UInt8) (hc : isDigit c = false) : d ≠ c := by
  intro e; subst e; simp [h] at hc

theorem spanDigits_append (ds rest : Bytes) (h : AllDigits ds)
    (hr : headOk (fun c => !isDigit c) rest = true) : spanDigits (ds ++ rest) = (ds, rest) := by
  induction ds with
  | nil =>
    cases rest with
    | nil => rfl
    | cons c r =>
      have : isDigit c = false := by simpa [headOk] using hr
      simp [spanDigits, this]
  | cons d ds ih =>
    have hd : isDigit d = true := h d (by simp)
    have := ih (fun b hb => h b (by simp [hb]))
    simp [spanDigits, hd, this]

theorem lexInt_append (ip rest : Bytes) (h : IntPart ip)
    (hr : headOk (fun c => !isDigit c) rest = true) : lexInt (ip ++ rest) = some (ip, rest) := by
  rcases h with h | ⟨d, tl, h, h1, h2, htl⟩
  · subst h; simp [lexInt]
  · subst h
    have hd : isDigit d = true := by simp [isDigit, h2]; omega
    have h48 : d ≠ 48 := by
      intro e; subst e; simp at h1
    simp [lexInt, h48, hd, spanDigits_append tl rest htl hr]

theorem lexFrac_append (fp rest : Bytes) (h : FracPart fp)
    (h0 : fp = [] → headOk (fun c => c != 46) rest = true)
    (hr : headOk (fun c => !isDigit c) rest = true) : lexFrac (fp ++ rest) = some (fp, rest) := by
  rcases h with h | ⟨ds, h, hne, hds⟩
  · subst h
    cases rest with
    | nil => rfl
    | cons c r =>
      have : c ≠ 46 := by simpa [headOk] using h0 rfl
      simp [lexFrac, this]
  · subst h
    simp [lexFrac, spanDigits_append ds rest hds hr, hne]

theorem lexSign_digit (d : UInt8) (r : Bytes) (hd : isDigit d = true) :
    lexSign (d :: r) = ([], d :: r) := by
  have h1 : d ≠ 43 := isDigit_ne hd 43 (by decide)
  have h2 : d ≠ 45 := isDigit_ne hd 45 (by decide)
  simp [lexSign, h1, h2]

theorem lexExp_append (ep rest : Bytes) (h : ExpPart ep)
    (h0 : ep = [] → headOk (fun c => c != 101 && c != 69) rest = true)
    (hr : headOk (fun c => !isDigit c) rest = true) : lexExp (ep ++ rest) = some (ep, rest) := by
  rcases h with h | ⟨e, sg, ds, h, he, hsg, hne, hds⟩
  · subst h
    cases rest with
    | nil => rfl
    | cons c r =>
      have := h0 rfl
      simp only [headOk, Bool.and_eq_true, bne_iff_ne, ne_eq] at this
      simp [lexExp, this.1, this.2]
  · subst h
    have hsp := spanDigits_append ds rest hds hr
    have hsign : lexSign (sg ++ ds ++ rest) = (sg, ds ++ rest) := by
      rcases hsg with hsg | hsg | hsg
      · subst hsg
        cases ds with
        | nil => exact absurd rfl hne
        | cons d ds =>
          simpa using lexSign_digit d (ds ++ rest) (hds d (by simp))
      · subst hsg; simp [lexSign]
      · subst hsg; simp [lexSign]
    have : e :: (sg ++ ds) ++ rest = e :: (sg ++ ds ++ rest) := by simp
    rw [this]
    simp only [lexExp, he, ↓reduceIte, hsign, hsp, hne]

theorem headOk_append_of_ne (p : UInt8 → Bool) (a b : Bytes) (h : a ≠ []) :
    headOk p (a ++ b) = headOk p a := by
  cases a with
  | nil => exact absurd rfl h
  | cons c a => rfl

theorem lexUnsigned_append (ip fp ep rest : Bytes) (hi : IntPart ip) (hf : FracPart fp)
    (he : ExpPart ep) (hr : headOk numStop rest = true) :
    lexUnsigned (ip ++ fp ++ ep ++ rest) = some (ip ++ fp ++ ep, rest) := by
  -- facts about the first byte of `rest`
  have r1 : headOk (fun c => !isDigit c) rest = true := by
    cases rest with
    | nil => rfl
    | cons c r => simp only [headOk, numStop, Bool.and_eq_true] at hr ⊢; exact hr.1.1.1
  have r2 : headOk (fun c => c != 46) rest = true := by
    cases rest with
    | nil => rfl
    | cons c r => simp only [headOk, numStop, Bool.and_eq_true] at hr ⊢; exact hr.1.1.2
  have r3 : headOk (fun c => c != 101 && c != 69) rest = true := by
    cases rest with
    | nil => rfl
    | cons c r => simp only [headOk, numStop, Bool.and_eq_true] at hr ⊢; exact ⟨hr.1.2, hr.2⟩
  -- facts about the first byte of `ep ++ rest`
  have e1 : headOk (fun c => !isDigit c) (ep ++ rest) = true := by
    rcases he with h | ⟨e, sg, ds, h, he, _⟩
    · subst h; simpa using r1
    · subst h
      rcases he with he | he <;> subst he <;> simp [headOk] <;> decide
  have e2 : headOk (fun c => c != 46) (ep ++ rest) = true := by
    rcases he with h | ⟨e, sg, ds, h, he, _⟩
    · subst h; simpa using r2
    · subst h
      rcases he with he | he <;> subst he <;> simp [headOk]
  -- facts about the first byte of `fp ++ (ep ++ rest)`
  have f1 : headOk (fun c => !isDigit c) (fp ++ (ep ++ rest)) = true := by
    rcases hf with h | ⟨ds, h, _⟩
    · subst h; simpa using e1
    · subst h; simp [headOk]; decide
  have hI := lexInt_append ip (fp ++ (ep ++ rest)) hi f1
  have hF := lexFrac_append fp (ep ++ rest) hf (fun _ => e2) e1
  have hE := lexExp_append ep rest he (fun _ => r3) r1
  have : ip ++ fp ++ ep ++ rest = ip ++ (fp ++ (ep ++ rest)) := by simp
  rw [this]
  simp only [lexUnsigned, hI, hF, hE]

theorem intPart_head {ip : Bytes} (h : IntPart ip) : ∃ c r, ip = c :: r ∧ isDigit c = true := by
  rcases h with h | ⟨d, tl, h, h1, h2, _⟩
  · exact ⟨48, [], h, by decide⟩
  · exact ⟨d, tl, h, by simp [isDigit, h2]; omega⟩

/-- a number token is lexed back exactly, provided the next byte cannot
continue a number. -/
theorem lexNumber_append (t rest : Bytes) (h : NumberToken t) (hr : headOk numStop rest = true) :
    lexNumber (t ++ rest) = some (t, rest) := by
  obtain ⟨sg, ip, fp, ep, ht, hsg, hi, hf, he⟩ := h
  subst ht
  have hU := lexUnsigned_append ip fp ep rest hi hf he hr
  rcases hsg with hsg | hsg
  · subst hsg
    obtain ⟨c, r, hip, hc⟩ := intPart_head hi
    have h45 : c ≠ 45 := isDigit_ne hc 45 (by decide)
    have : [] ++ (ip ++ fp ++ ep) ++ rest = c :: (r ++ fp ++ ep ++ rest) := by simp [hip]
    rw [this]
    simp only [lexNumber, h45, ↓reduceIte]
    have : c :: (r ++ fp ++ ep ++ rest) = ip ++ fp ++ ep ++ rest := by simp [hip]
    rw [this, hU]; simp
  · subst hsg
    have : [45] ++ (ip ++ fp ++ ep) ++ rest = 45 :: (ip ++ fp ++ ep ++ rest) := by simp
    rw [this]
    simp only [lexNumber, ↓reduceIte, hU]; rfl

theorem numberToken_head {t : Bytes} (h : NumberToken t) :
    ∃ c r, t = c :: r ∧ (c = 45 ∨ isDigit c = true) := by
  obtain ⟨sg, ip, fp, ep, ht, hsg, hi, _, _⟩ := h
  obtain ⟨c, r, hip, hc⟩ := intPart_head hi
  rcases hsg with hsg | hsg
  · exact ⟨c, r ++ fp ++ ep, by simp [ht, hsg, hip], Or.inr hc⟩
  · exact ⟨45, ip ++ fp ++ ep, by simp [ht, hsg], Or.inl rfl⟩

/-! ### values -/

theorem parseValue_nl (f : Nat) (s : Bytes) : parseValue f (10 :: s) = parseValue f s := by
  cases f with
  | zero => simp [parseValue]
  | succ f => simp only [parseValue, skipWs_nl]

theorem parseValue_sp (f : Nat) (s : Bytes) : parseValue f (32 :: s) = parseValue f s := by
  cases f with
  | zero => simp [parseValue]
  | succ f => simp only [parseValue, skipWs_sp]

theorem parseValue_indent (f d : Nat) (s : Bytes) : parseValue f (indent d ++ s) = parseValue f s := by
  cases f with
  | zero => simp [parseValue]
  | succ f => simp only [parseValue, skipWs_indent]

theorem parseElems_nl (f : Nat) (s : Bytes) : parseElems f (10 :: s) = parseElems f s := by
  cases f with
  | zero => simp [parseElems]
  | succ f => simp only [parseElems, parseValue_nl]

theorem parseMembers_nl (f : Nat) (s : Bytes) : parseMembers f (10 :: s) = parseMembers f s := by
  cases f with
  | zero => simp [parseMembers]
  | succ f => simp only [parseMembers, skipWs_nl]

theorem parseValue_str (f : Nat) (s rest : Bytes) :
    parseValue (f+1) (escapeString s ++ rest) = some (.str s, rest) := by
  rw [escapeString_append]
  simp [parseValue, skipWs, isWs, parseStrBody_escape]

/-- a byte that starts a number token selects the number branch of `parseValue`. -/
theorem parseValue_numHead (f : Nat) (c : UInt8) (r : Bytes) (h : c = 45 ∨ isDigit c = true) :
    parseValue (f+1) (c :: r) =
      match lexNumber (c :: r) with
      | some (t, r1) => some (.num t, r1)
      | none => none := by
  have hne : ∀ x : UInt8, x ≠ 45 → isDigit x = false → c ≠ x := by
    intro x hx hd
    rcases h with h | h
    · subst h; exact fun e => hx e.symm
    · exact isDigit_ne h x hd
  have hws : isWs c = false := by
    simp only [isWs, Bool.or_eq_false_iff, beq_eq_false_iff_ne]
    exact ⟨⟨⟨hne 32 (by decide) (by decide), hne 10 (by decide) (by decide)⟩,
      hne 13 (by decide) (by decide)⟩, hne 9 (by decide) (by decide)⟩
  simp only [parseValue, skipWs_stop c r hws]
  simp only [hne 34 (by decide) (by decide), hne 91 (by decide) (by decide),
    hne 123 (by decide) (by decide), hne 116 (by decide) (by decide),
    hne 102 (by decide) (by decide), hne 110 (by decide) (by decide), ↓reduceIte]
  rcases lexNumber (c :: r) with _ | ⟨t, r1⟩ <;> rfl

theorem tokJV_number {t : Bytes} (h : NumberToken t) : tokJV t = .num t := by
  obtain ⟨c, r, ht, hc⟩ := numberToken_head h
  subst ht
  have hne : ∀ x : UInt8, x ≠ 45 → isDigit x = false → c ≠ x := by
    intro x hx hd
    rcases hc with h | h
    · subst h; exact fun e => hx e.symm
    · exact isDigit_ne h x hd
  have h34 := hne 34 (by decide) (by decide)
  have h116 := hne 116 (by decide) (by decide)
  have h102 := hne 102 (by decide) (by decide)
  have h110 := hne 110 (by decide) (by decide)
  simp [tokJV, tTrue, tFalse, tNull, h34, h116, h102, h110]

theorem parseValue_tok (f : Nat) (t rest : Bytes) (h : GoodToken t)
    (hr : headOk numStop rest = true) :
    parseValue (f+1) (t ++ rest) = some (tokJV t, rest) := by
  rcases h with (h | h | h | h) | ⟨s, h, hs⟩
  · obtain ⟨c, r, ht, hc⟩ := numberToken_head h
    have hl := lexNumber_append t rest h hr
    rw [tokJV_number h]
    subst ht
    rw [List.cons_append] at hl ⊢
    rw [parseValue_numHead f c (r ++ rest) hc, hl]
  · subst h; simp [parseValue, skipWs, isWs, tTrue, dropPrefix, tokJV]
  · subst h; simp [parseValue, skipWs, isWs, tFalse, dropPrefix, tokJV, tTrue]
  · subst h; simp [parseValue, skipWs, isWs, tNull, dropPrefix, tokJV, tTrue, tFalse]
  · subst h
    have hp := parseStrBody_plain s rest hs
    have : (s ++ [34]).dropLast = s := List.dropLast_concat
    simp [parseValue, skipWs, isWs, tokJV, hp, this]

/-- first byte of a good token: not whitespace, not a closing bracket. -/
theorem goodToken_head {t : Bytes} (h : GoodToken t) :
    ∃ c r, t = c :: r ∧ isWs c = false ∧ c ≠ 93 := by
  rcases h with (h | h | h | h) | ⟨s, h, _⟩
  · obtain ⟨c, r, ht, hc⟩ := numberToken_head h
    refine ⟨c, r, ht, ?_⟩
    have hne : ∀ x : UInt8, x ≠ 45 → isDigit x = false → c ≠ x := by
      intro x hx hd
      rcases hc with h | h
      · subst h; exact fun e => hx e.symm
      · exact isDigit_ne h x hd
    refine ⟨?_, hne 93 (by decide) (by decide)⟩
    simp only [isWs, Bool.or_eq_false_iff, beq_eq_false_iff_ne]
    exact ⟨⟨⟨hne 32 (by decide) (by decide), hne 10 (by decide) (by decide)⟩,
      hne 13 (by decide) (by decide)⟩, hne 9 (by decide) (by decide)⟩
  · exact ⟨116, [114, 117, 101], h, by decide, by decide⟩
  · exact ⟨102, [97, 108, 115, 101], h, by decide, by decide⟩
  · exact ⟨110, [117, 108, 108], h, by decide, by decide⟩
  · exact ⟨34, s ++ [34], h, by decide, by decide⟩

theorem render_head (d : Nat) : ∀ t : J, t.Good → ∃ c r, render d t = c :: r ∧ isWs c = false ∧ c ≠ 93
  | .str s, _ => ⟨34, s.flatMap escByte ++ [34], by simp [render, escapeString], by decide, by decide⟩
  | .tok t, h => by
      simp only [J.Good] at h
      simpa [render] using goodToken_head h
  | .arr xs, _ => ⟨91, _, by simp only [render, List.cons_append, List.nil_append]; rfl, by decide, by decide⟩
  | .obj kvs, _ => ⟨123, _, by simp only [render, List.cons_append, List.nil_append]; rfl, by decide, by decide⟩

/-! fuel needed by the parser -/
mutual
def need : J → Nat
  | .str _ => 1
  | .tok _ => 1
  | .arr xs => 1 + needL xs
  | .obj kvs => 1 + needKV kvs
def needL : List J → Nat
  | [] => 0 | x :: r => 1 + need x + needL r
def needKV : List (Bytes × J) → Nat
  | [] => 0 | (_, x) :: r => 1 + need x + needKV r
end

theorem sep_head {α} (r : List α) (tail : Bytes) : headOk numStop (sep r ++ tail) = true := by
  cases r <;> simp [sep, headOk] <;> decide

/-! ### containers: one-step lemmas (non-recursive) -/

theorem skipWs_close (d : Nat) (c : UInt8) (rest : Bytes) (h : isWs c = false) :
    skipWs (10 :: (indent d ++ c :: rest)) = c :: rest := by
  rw [skipWs_nl, skipWs_indent, skipWs_stop c rest h]

theorem parseValue_arr_empty (f d : Nat) (rest : Bytes) :
    parseValue (f+1) (91 :: 10 :: (indent d ++ 93 :: rest)) = some (.arr [], rest) := by
  simp [parseValue, skipWs_stop 91 _ (by decide), skipWs_close d 93 rest (by decide)]

theorem parseValue_obj_empty (f d : Nat) (rest : Bytes) :
    parseValue (f+1) (123 :: 10 :: (indent d ++ 125 :: rest)) = some (.obj [], rest) := by
  simp [parseValue, skipWs_stop 123 _ (by decide), skipWs_close d 125 rest (by decide)]

theorem parseValue_arr_nonempty (f : Nat) (c : UInt8) (tl R rest : Bytes) (vs : List JV)
    (hsk : skipWs (10 :: R) = c :: tl) (h93 : c ≠ 93) (hE : parseElems f R = some (vs, rest)) :
    parseValue (f+1) (91 :: 10 :: R) = some (.arr vs, rest) := by
  simp [parseValue, skipWs_stop 91 _ (by decide), hsk, h93, parseElems_nl, hE]

theorem parseValue_obj_nonempty (f : Nat) (c : UInt8) (tl R rest : Bytes) (kvs : List (Bytes × JV))
    (hsk : skipWs (10 :: R) = c :: tl) (h125 : c ≠ 125) (hM : parseMembers f R = some (kvs, rest)) :
    parseValue (f+1) (123 :: 10 :: R) = some (.obj kvs, rest) := by
  simp [parseValue, skipWs_stop 123 _ (by decide), hsk, h125, parseMembers_nl, hM]

theorem parseElems_last (f d0 : Nat) (X rest : Bytes) (v : JV)
    (hv : parseValue f X = some (v, 10 :: (indent d0 ++ 93 :: rest))) :
    parseElems (f+1) X = some ([v], rest) := by
  simp [parseElems, hv, skipWs_close d0 93 rest (by decide)]

theorem parseElems_more (f : Nat) (X Y rest : Bytes) (v : JV) (vs : List JV)
    (hv : parseValue f X = some (v, 44 :: 10 :: Y)) (hE : parseElems f Y = some (vs, rest)) :
    parseElems (f+1) X = some (v :: vs, rest) := by
  simp [parseElems, hv, skipWs_stop 44 _ (by decide), parseElems_nl, hE]

theorem parseMembers_name (d : Nat) (k X : Bytes) :
    skipWs (indent d ++ escapeString k ++ [58, 32] ++ X) =
      34 :: (k.flatMap escByte ++ 34 :: (58 :: 32 :: X)) := by
  have : indent d ++ escapeString k ++ [58, 32] ++ X
      = indent d ++ (34 :: (k.flatMap escByte ++ 34 :: (58 :: 32 :: X))) := by
    simp [escapeString]
  rw [this, skipWs_indent, skipWs_stop 34 _ (by decide)]

theorem parseMembers_last (f d d0 : Nat) (k X rest : Bytes) (v : JV)
    (hv : parseValue f X = some (v, 10 :: (indent d0 ++ 125 :: rest))) :
    parseMembers (f+1) (indent d ++ escapeString k ++ [58, 32] ++ X) = some ([(k, v)], rest) := by
  simp only [parseMembers, parseMembers_name]
  simp [parseStrBody_escape, skipWs_stop 58 _ (by decide),
    parseValue_sp, hv, skipWs_close d0 125 rest (by decide)]

theorem parseMembers_more (f d : Nat) (k X Y rest : Bytes) (v : JV) (kvs : List (Bytes × JV))
    (hv : parseValue f X = some (v, 44 :: 10 :: Y)) (hM : parseMembers f Y = some (kvs, rest)) :
    parseMembers (f+1) (indent d ++ escapeString k ++ [58, 32] ++ X) = some ((k, v) :: kvs, rest) := by
  simp only [parseMembers, parseMembers_name]
  simp [parseStrBody_escape, skipWs_stop 58 _ (by decide),
    parseValue_sp, hv, skipWs_stop 44 _ (by decide), parseMembers_nl, hM]

theorem skipWs_renderL_head (d : Nat) (x : J) (r : List J) (hx : x.Good) (tail : Bytes) :
    ∃ c tl, skipWs (10 :: (renderL d (x :: r) ++ tail)) = c :: tl ∧ c ≠ 93 := by
  obtain ⟨c, r0, hc, hws, h93⟩ := render_head d x hx
  refine ⟨c, r0 ++ sep r ++ renderL d r ++ tail, ?_, h93⟩
  have : renderL d (x :: r) ++ tail = indent d ++ (c :: (r0 ++ sep r ++ renderL d r ++ tail)) := by
    simp [renderL, hc]
  rw [this, skipWs_nl, skipWs_indent, skipWs_stop c _ hws]

theorem skipWs_renderKV_head (d : Nat) (k : Bytes) (x : J) (r : List (Bytes × J)) (tail : Bytes) :
    ∃ tl, skipWs (10 :: (renderKV d ((k, x) :: r) ++ tail)) = 34 :: tl := by
  refine ⟨k.flatMap escByte ++ 34 :: (58 :: 32 :: (render d x ++ sep r ++ renderKV d r ++ tail)), ?_⟩
  have : renderKV d ((k, x) :: r) ++ tail
      = indent d ++ escapeString k ++ [58, 32] ++ (render d x ++ sep r ++ renderKV d r ++ tail) := by
    simp [renderKV]
  rw [this, skipWs_nl, parseMembers_name]

/-! ### the main induction -/

mutual
theorem parseValue_render : (t : J) → ∀ (d f : Nat) (rest : Bytes), t.Good → need t ≤ f →
    headOk numStop rest = true → parseValue f (render d t ++ rest) = some (toJV t, rest)
  | .str s, d, f, rest, _, hf, _ => by
      cases f with
      | zero => simp [need] at hf
      | succ f => simp only [render, toJV, parseValue_str]
  | .tok t, d, f, rest, hg, hf, hr => by
      cases f with
      | zero => simp [need] at hf
      | succ f =>
        simp only [J.Good] at hg
        simp only [render, toJV, parseValue_tok f t rest hg hr]
  | .arr xs, d, f, rest, hg, hf, hr => by
      cases f with
      | zero => simp [need] at hf
      | succ f =>
        simp only [J.Good] at hg
        simp only [need] at hf
        cases xs with
        | nil =>
          have : render d (.arr []) ++ rest = 91 :: 10 :: (indent d ++ 93 :: rest) := by
            simp [render, renderL]
          rw [this, parseValue_arr_empty]; simp [toJV, toJVL]
        | cons x r =>
          have hE := parseElems_render (x :: r) (d+1) d f rest (by simp) hg (by omega)
          obtain ⟨c, tl, hsk, h93⟩ := skipWs_renderL_head (d+1) x r hg.1 (indent d ++ 93 :: rest)
          have : render d (.arr (x :: r)) ++ rest
              = 91 :: 10 :: (renderL (d+1) (x :: r) ++ (indent d ++ 93 :: rest)) := by
            simp [render]
          rw [this, parseValue_arr_nonempty f c tl _ rest _ hsk h93 hE]; simp [toJV]
  | .obj kvs, d, f, rest, hg, hf, hr => by
      cases f with
      | zero => simp [need] at hf
      | succ f =>
        simp only [J.Good] at hg
        simp only [need] at hf
        cases kvs with
        | nil =>
          have : render d (.obj []) ++ rest = 123 :: 10 :: (indent d ++ 125 :: rest) := by
            simp [render, renderKV]
          rw [this, parseValue_obj_empty]; simp [toJV, toJVKV]
        | cons kx r =>
          obtain ⟨k, x⟩ := kx
          have hM := parseMembers_render ((k, x) :: r) (d+1) d f rest (by simp) hg (by omega)
          obtain ⟨tl, hsk⟩ := skipWs_renderKV_head (d+1) k x r (indent d ++ 125 :: rest)
          have : render d (.obj ((k, x) :: r)) ++ rest
              = 123 :: 10 :: (renderKV (d+1) ((k, x) :: r) ++ (indent d ++ 125 :: rest)) := by
            simp [render]
          rw [this, parseValue_obj_nonempty f 34 tl _ rest _ hsk (by decide) hM]; simp [toJV]
theorem parseElems_render : (xs : List J) → ∀ (d d0 f : Nat) (rest : Bytes), xs ≠ [] → GoodL xs →
    needL xs ≤ f → parseElems f (renderL d xs ++ (indent d0 ++ 93 :: rest)) = some (toJVL xs, rest)
  | [], _, _, _, _, h, _, _ => absurd rfl h
  | x :: r, d, d0, f, rest, _, hg, hf => by
      cases f with
      | zero => simp [needL] at hf
      | succ f =>
        simp only [GoodL] at hg
        simp only [needL] at hf
        cases r with
        | nil =>
          have hv := parseValue_render x d f (10 :: (indent d0 ++ 93 :: rest)) hg.1 (by omega)
            (by simp [headOk]; decide)
          have : renderL d [x] ++ (indent d0 ++ 93 :: rest)
              = indent d ++ (render d x ++ 10 :: (indent d0 ++ 93 :: rest)) := by
            simp [renderL, sep]
          rw [this, parseElems_last f d0 _ rest (toJV x) (by rw [parseValue_indent]; exact hv)]
          simp [toJVL]
        | cons y r =>
          have hv := parseValue_render x d f
            (44 :: 10 :: (renderL d (y :: r) ++ (indent d0 ++ 93 :: rest))) hg.1 (by omega)
            (by simp [headOk]; decide)
          have hE := parseElems_render (y :: r) d d0 f rest (by simp) hg.2 (by omega)
          have : renderL d (x :: y :: r) ++ (indent d0 ++ 93 :: rest)
              = indent d ++ (render d x ++ 44 :: 10 :: (renderL d (y :: r) ++ (indent d0 ++ 93 :: rest))) := by
            simp [renderL, sep]
          rw [this, parseElems_more f _ _ rest (toJV x) (toJVL (y :: r))
            (by rw [parseValue_indent]; exact hv) hE]
          simp [toJVL]
theorem parseMembers_render : (kvs : List (Bytes × J)) → ∀ (d d0 f : Nat) (rest : Bytes), kvs ≠ [] →
    GoodKV kvs → needKV kvs ≤ f →
    parseMembers f (renderKV d kvs ++ (indent d0 ++ 125 :: rest)) = some (toJVKV kvs, rest)
  | [], _, _, _, _, h, _, _ => absurd rfl h
  | (k, x) :: r, d, d0, f, rest, _, hg, hf => by
      cases f with
      | zero => simp [needKV] at hf
      | succ f =>
        simp only [GoodKV] at hg
        simp only [needKV] at hf
        cases r with
        | nil =>
          have hv := parseValue_render x d f (10 :: (indent d0 ++ 125 :: rest)) hg.1 (by omega)
            (by simp [headOk]; decide)
          have : renderKV d [(k, x)] ++ (indent d0 ++ 125 :: rest)
              = indent d ++ escapeString k ++ [58, 32] ++ (render d x ++ 10 :: (indent d0 ++ 125 :: rest)) := by
            simp [renderKV, sep]
          rw [this, parseMembers_last f d d0 k _ rest (toJV x) hv]
          simp [toJVKV]
        | cons y r =>
          have hv := parseValue_render x d f
            (44 :: 10 :: (renderKV d (y :: r) ++ (indent d0 ++ 125 :: rest))) hg.1 (by omega)
            (by simp [headOk]; decide)
          have hM := parseMembers_render (y :: r) d d0 f rest (by simp) hg.2 (by omega)
          have : renderKV d ((k, x) :: y :: r) ++ (indent d0 ++ 125 :: rest)
              = indent d ++ escapeString k ++ [58, 32] ++
                (render d x ++ 44 :: 10 :: (renderKV d (y :: r) ++ (indent d0 ++ 125 :: rest))) := by
            simp [renderKV, sep]
          rw [this, parseMembers_more f d k _ _ rest (toJV x) (toJVKV (y :: r)) hv hM]
          simp [toJVKV]
end

/-! ### the fuel `length + 1` used by `parse` is enough -/

theorem sep_length {α} (r : List α) : 1 ≤ (sep r).length := by cases r <;> simp [sep]

mutual
theorem need_le : (t : J) → ∀ d, t.Good → need t ≤ (render d t).length
  | .str s, d, _ => by simp [need, render, escapeString]
  | .tok t, d, h => by
      simp only [J.Good] at h
      obtain ⟨c, r, ht, _⟩ := goodToken_head h
      simp [need, render, ht]
  | .arr xs, d, h => by
      simp only [J.Good] at h
      have := needL_le xs (d+1) h
      simp only [need, render, List.length_append, List.length_cons, List.length_nil]
      omega
  | .obj kvs, d, h => by
      simp only [J.Good] at h
      have := needKV_le kvs (d+1) h
      simp only [need, render, List.length_append, List.length_cons, List.length_nil]
      omega
theorem needL_le : (xs : List J) → ∀ d, GoodL xs → needL xs ≤ (renderL d xs).length
  | [], d, _ => by simp [needL]
  | x :: r, d, h => by
      simp only [GoodL] at h
      have h1 := need_le x d h.1
      have h2 := needL_le r d h.2
      have h3 := sep_length r
      simp only [needL, renderL, List.length_append]
      omega
theorem needKV_le : (kvs : List (Bytes × J)) → ∀ d, GoodKV kvs → needKV kvs ≤ (renderKV d kvs).length
  | [], d, _ => by simp [needKV]
  | (k, x) :: r, d, h => by
      simp only [GoodKV] at h
      have h1 := need_le x d h.1
      have h2 := needKV_le r d h.2
      have h3 := sep_length r
      simp only [needKV, renderKV, List.length_append]
      omega
end

theorem parse_render_rest (t : J) (d : Nat) (rest : Bytes) (hg : t.Good)
    (hr : headOk numStop rest = true) : parse (render d t ++ rest) = some (toJV t, rest) := by
  unfold parse
  apply parseValue_render t d _ rest hg _ hr
  have := need_le t d hg
  simp only [List.length_append]; omega

end JSONOut
