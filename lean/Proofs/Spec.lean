import Plenc.Spec.Format
import Proofs.RoundTrip
/-
  Proofs.Spec — helper lemmas for C02 (wire format).

  Part 1: the codec model writes what the specification `Plenc/Spec/Format.lean`
  says (`EncLaw`, by mutual structural induction over `Ty` / `Fields`; the only
  real content is that the length prefixes the model computes with `Ty.size` are
  the lengths of what follows — `size_eq_app_len` through the framing laws of
  Proofs/SizeApp.lean).
  Part 2: the struct reader handles one record at a time, and the result depends
  only on the sub-sequence of records of each field (`loop_chains`), hence not on
  how records of different fields are interleaved.
-/

namespace SpecP
open Spec

theorem tag_eq (wt : WT) (i : Nat) (h : i < 2 ^ 61) : appendTag wt i = varint (i * 8 + wt.code) := by
  have hc := code_lt wt
  unfold appendTag varint
  rw [Nat.mod_eq_of_lt (by omega)]

theorem wtOf_eq : (t : Ty) → wtOf t = t.wt
  | .ptr t => by simp only [wtOf, Ty.wt]; exact wtOf_eq t
  | .map _ _ true | .map _ _ false => rfl
  | .bool | .int _ | .uint _ | .flat _ | .f32 | .f64 | .str _ | .bytes | .time _
  | .vslice _ | .fslice _ | .lslice _ | .pslice _ | .struct _ _ => rfl

theorem omit_eq_absent (t : Ty) (v : Val) (h : t.hasTy v) : v.omit = absent v := by
  cases v with
  | f32 b =>
    cases t <;> simp only [Ty.hasTy] at h
    simp only [Val.omit, absent]
    have : (b % 2 ^ 31 == 0) = (b == 0 || b == 0x80000000) := by
      rw [Bool.eq_iff_iff]; simp only [beq_iff_eq, Bool.or_eq_true]; omega
    exact this
  | f64 b =>
    cases t <;> simp only [Ty.hasTy] at h
    simp only [Val.omit, absent]
    have : (b % 2 ^ 63 == 0) = (b == 0 || b == 0x8000000000000000) := by
      rw [Bool.eq_iff_iff]; simp only [beq_iff_eq, Bool.or_eq_true]; omega
    exact this
  | bool b => cases b <;> rfl
  | str s => cases s <;> rfl
  | bytes s => cases s <;> rfl
  | slice s => cases s <;> rfl
  | ptr o => cases o <;> rfl
  | map o => cases o <;> rfl
  | int _ | uint _ | time _ _ | struct _ => rfl

theorem renderRec_len (i : Nat) (h : i < 2 ^ 61) (p : Bytes) :
    renderRec ⟨i, .len, p⟩ = appendTag .len i ++ appendVarUint p.length ++ p := by
  simp only [renderRec, tag_eq _ _ h, ↓reduceIte, varint]

theorem renderRec_other (i : Nat) (h : i < 2 ^ 61) (wt : WT) (hw : wt ≠ .len) (p : Bytes) :
    renderRec ⟨i, wt, p⟩ = appendTag wt i ++ p := by
  simp only [renderRec, tag_eq _ _ h, hw, ↓reduceIte, List.append_nil]

theorem render_single (r : Rec) : render [r] = renderRec r := by
  simp [render]


/-- the two halves of "the model writes what the specification says":
untagged (payload) and under a field tag (records). -/
def EncLaw (t : Ty) : Prop :=
  t.wf →
    (∀ v, t.hasTy v → t.app v [] = payload t v) ∧
    (∀ i v, i < 2 ^ 61 → t.hasTy v → t.app v (appendTag t.wt i) = render (recsOf t i v))

theorem encLaw_single (t : Ty) (hnp : t.isPtr = false) (hnr : t.isProtoRep = false)
    (hrec : ∀ i v, t.hasTy v → recsOf t i v = [⟨i, wtOf t, payload t v⟩])
    (hA : t.wf → ∀ v, t.hasTy v → t.app v [] = payload t v) : EncLaw t := by
  intro hwf
  refine ⟨hA hwf, fun i v hi hty => ?_⟩
  have hp := present_of_not_ptr t v hnp hty
  rw [hrec i v hty, render_single, wtOf_eq]
  by_cases hw : t.wt = .len
  · rw [app_frame_len t v _ hwf hty hp hw (by rw [RT.deref_of_not_ptr t hnp]; exact hnr)
      (RT.appendTag_ne_nil _ _), hA hwf v hty, hw, renderRec_len i hi]
  · rw [app_frame_other t v _ hwf hty hp hw, hA hwf v hty, renderRec_other i hi _ hw]

theorem encLaw_bool : EncLaw .bool :=
  encLaw_single _ rfl rfl (fun i v h => by cases v <;> simp [Ty.hasTy] at h <;> simp [recsOf])
    (fun _ v h => by cases v <;> simp [Ty.hasTy] at h <;> simp [Ty.app, payload, varint])


theorem encLaw_int (w : Nat) : EncLaw (.int w) :=
  encLaw_single _ rfl rfl (fun i v h => by cases v <;> simp [Ty.hasTy] at h <;> simp [recsOf])
    (fun _ v h => by cases v <;> simp [Ty.hasTy] at h <;> simp [Ty.app, payload, varint, svarint, appendVarInt])

theorem encLaw_uint (w : Nat) : EncLaw (.uint w) :=
  encLaw_single _ rfl rfl (fun i v h => by cases v <;> simp [Ty.hasTy] at h <;> simp [recsOf])
    (fun _ v h => by cases v <;> simp [Ty.hasTy] at h <;> simp [Ty.app, payload, varint])

theorem encLaw_flat (w : Nat) : EncLaw (.flat w) :=
  encLaw_single _ rfl rfl (fun i v h => by cases v <;> simp [Ty.hasTy] at h <;> simp [recsOf])
    (fun _ v h => by cases v <;> simp [Ty.hasTy] at h <;> simp [Ty.app, payload, varint])

theorem encLaw_f32 : EncLaw .f32 :=
  encLaw_single _ rfl rfl (fun i v h => by cases v <;> simp [Ty.hasTy] at h <;> simp [recsOf])
    (fun _ v h => by cases v <;> simp [Ty.hasTy] at h <;> simp [Ty.app, payload])

theorem encLaw_f64 : EncLaw .f64 :=
  encLaw_single _ rfl rfl (fun i v h => by cases v <;> simp [Ty.hasTy] at h <;> simp [recsOf])
    (fun _ v h => by cases v <;> simp [Ty.hasTy] at h <;> simp [Ty.app, payload])

theorem encLaw_str (b : Bool) : EncLaw (.str b) :=
  encLaw_single _ rfl rfl (fun i v h => by cases v <;> simp [Ty.hasTy] at h <;> simp [recsOf])
    (fun _ v h => by cases v <;> simp [Ty.hasTy] at h <;> simp [Ty.app, payload, frame])

theorem encLaw_bytes : EncLaw .bytes :=
  encLaw_single _ rfl rfl (fun i v h => by cases v <;> simp [Ty.hasTy] at h <;> simp [recsOf])
    (fun _ v h => by cases v <;> simp [Ty.hasTy] at h <;> simp [Ty.app, payload, frame])

theorem tag1_eq : tag1 = varint (1 * 8 + WT.varint.code) := tag_eq _ _ (by omega)
theorem tag2_eq : tag2 = varint (2 * 8 + WT.varint.code) := tag_eq _ _ (by omega)

theorem encLaw_time (c : Bool) : EncLaw (.time c) :=
  encLaw_single _ rfl rfl (fun i v h => by cases v <;> simp [Ty.hasTy] at h <;> simp [recsOf])
    (fun _ v h => by
      cases v with
      | time s n =>
        simp only [Ty.hasTy] at h
        have hn : wrapU 32 (n : Int) = n := wrapU_natCast 32 n (by simp [validWidth]) (by omega)
        cases c <;>
          simp [Ty.app, payload, frame, timeBody, render, renderRec, tag1_eq, tag2_eq, svarint, varint,
            appendVarInt, hn]
      | _ => simp [Ty.hasTy] at h)


theorem render_append (a b : List Rec) : render (a ++ b) = render a ++ render b := by
  simp [render]

theorem render_nil : render [] = [] := rfl

theorem encLaw_vslice (t : Ty) (ih : EncLaw t) : EncLaw (.vslice t) :=
  encLaw_single _ rfl rfl (fun i v h => by cases v <;> simp [Ty.hasTy] at h <;> simp [recsOf])
    (fun hwf v h => by
      cases v with
      | slice vs =>
        simp only [Ty.wf] at hwf
        simp only [Ty.hasTy] at h
        simp only [Ty.app, frame_nil, payload]
        exact flatMap_congr' _ _ vs (fun a ha => (ih hwf.1).1 a (h a ha))
      | _ => simp [Ty.hasTy] at h)

theorem encLaw_fslice (t : Ty) (ih : EncLaw t) : EncLaw (.fslice t) :=
  encLaw_single _ rfl rfl (fun i v h => by cases v <;> simp [Ty.hasTy] at h <;> simp [recsOf])
    (fun hwf v h => by
      cases v with
      | slice vs =>
        simp only [Ty.wf] at hwf
        have hwf' : t.wf := by rcases hwf with rfl | rfl <;> simp [Ty.wf]
        simp only [Ty.hasTy] at h
        simp only [Ty.app, frame_nil, payload]
        exact flatMap_congr' _ _ vs (fun a ha => (ih hwf').1 a (h a ha))
      | _ => simp [Ty.hasTy] at h)

theorem encLaw_lslice (t : Ty) (ih : EncLaw t) : EncLaw (.lslice t) :=
  encLaw_single _ rfl rfl (fun i v h => by cases v <;> simp [Ty.hasTy] at h <;> simp [recsOf])
    (fun hwf v h => by
      cases v with
      | slice vs =>
        rw [lslice_entries t vs [] hwf h]
        simp only [Ty.wf] at hwf
        simp only [Ty.hasTy] at h
        simp only [List.nil_append, payload, varint]
        congr 1
        apply flatMap_congr'
        intro a ha
        simp only [lenPrefixed, varint, (ih hwf.1).1 a (h a ha)]
      | _ => simp [Ty.hasTy] at h)

/-- one map entry: the message {key = 1; value = 2} with the omission rule. -/
def entryRecs (k v : Ty) (e : Val × Val) : List Rec :=
  (if absent e.1 then [] else recsOf k 1 e.1) ++ (if absent e.2 then [] else recsOf v 2 e.2)

theorem entryBody_eq (k v : Ty) (ihk : EncLaw k) (ihv : EncLaw v) (hk : k.wf) (hv : v.wf)
    (e : Val × Val) (h1 : k.hasTy e.1) (h2 : v.hasTy e.2) :
    entryBody k v e = render (entryRecs k v e) := by
  unfold entryBody entryRecs
  rw [render_append, omit_eq_absent k e.1 h1, omit_eq_absent v e.2 h2]
  congr 1
  · cases absent e.1
    · simp only [Bool.false_eq_true, ↓reduceIte]; exact (ihk hk).2 1 e.1 (by omega) h1
    · rfl
  · cases absent e.2
    · simp only [Bool.false_eq_true, ↓reduceIte]; exact (ihv hv).2 2 e.2 (by omega) h2
    · rfl

theorem encLaw_map (k v : Ty) (ihk : EncLaw k) (ihv : EncLaw v) : EncLaw (.map k v false) :=
  encLaw_single _ rfl rfl
    (fun i x h => by
      cases x with
      | map o => cases o <;> simp [recsOf]
      | _ => simp [Ty.hasTy] at h)
    (fun hwf x h => by
      cases x with
      | map o =>
        cases o with
        | none => simp [Ty.app, payload, varint]
        | some es =>
          rw [map_entries k v es [] hwf h]
          simp only [Ty.wf] at hwf
          simp only [Ty.hasTy] at h
          simp only [List.nil_append, payload, varint]
          congr 1
          apply flatMap_congr'
          intro e he
          rw [entryBody_eq k v ihk ihv hwf.1 hwf.2.1 e (h.1 e he).1 (h.1 e he).2]
          rfl
      | _ => simp [Ty.hasTy] at h)


theorem encLaw_ptr (t : Ty) (ih : EncLaw t) : EncLaw (.ptr t) := by
  intro hwf
  simp only [Ty.wf] at hwf
  refine ⟨fun v h => ?_, fun i v hi h => ?_⟩
  · cases v with
    | ptr o =>
      cases o with
      | none => simp [Ty.app, payload]
      | some x =>
        simp only [Ty.hasTy] at h
        simp only [Ty.app, payload]
        exact (ih hwf.1).1 x h
    | _ => simp [Ty.hasTy] at h
  · cases v with
    | ptr o =>
      cases o with
      | none => simp [Ty.app, recsOf, render]
      | some x =>
        simp only [Ty.hasTy] at h
        simp only [Ty.app, recsOf, Ty.wt]
        exact (ih hwf.1).2 i x hi h
    | _ => simp [Ty.hasTy] at h

theorem renderRec_ne_nil (r : Rec) : renderRec r ≠ [] := by
  unfold renderRec varint
  have := append_ne_nil (r.index * 8 + r.wt.code)
  cases h : appendVarUint (r.index * 8 + r.wt.code) with
  | nil => exact absurd h this
  | cons a l => simp

theorem render_isEmpty (rs : List Rec) : (render rs).isEmpty = rs.isEmpty := by
  cases rs with
  | nil => rfl
  | cons r rs =>
    have := renderRec_ne_nil r
    cases h : renderRec r with
    | nil => exact absurd h this
    | cons a l => simp [render, h]

theorem render_flatMap {α : Type} (f : α → List Rec) (l : List α) :
    render (l.flatMap f) = l.flatMap fun a => render (f a) := by
  induction l with
  | nil => rfl
  | cons a l ih => simp only [List.flatMap_cons, render_append, ih]

theorem render_map {α : Type} (f : α → Rec) (l : List α) :
    render (l.map f) = l.flatMap fun a => renderRec (f a) := by
  induction l with
  | nil => rfl
  | cons a l ih =>
    have : render (f a :: l.map f) = renderRec (f a) ++ render (l.map f) := by simp [render]
    simp only [List.map_cons, List.flatMap_cons, this, ih]

theorem encLaw_pslice (t : Ty) (ih : EncLaw t) : EncLaw (.pslice t) := by
  intro hwf
  simp only [Ty.wf] at hwf
  refine ⟨fun v h => ?_, fun i v hi h => ?_⟩
  · cases v with
    | slice vs =>
      simp only [Ty.hasTy] at h
      simp only [Ty.app, payload]
      apply flatMap_congr'
      intro a ha
      simp [(ih hwf.1).1 a (h a ha)]
    | _ => simp [Ty.hasTy] at h
  · cases v with
    | slice vs =>
      simp only [Ty.hasTy] at h
      simp only [Ty.app, recsOf, render_flatMap, Ty.wt]
      apply flatMap_congr'
      intro a ha
      have hB := (ih hwf.1).2 i a hi (h a ha)
      rw [hwf.2.1] at hB
      simp only [hB, render_isEmpty, RT.appendTag_isEmpty, Bool.false_eq_true, not_false_eq_true, and_true,
        orEmpty]
      cases hre : (recsOf t i a).isEmpty with
      | true =>
        simp only [↓reduceIte, render_single, renderRec_len i hi, List.length_nil, appendVarUint_zero,
          List.append_nil]
      | false => simp only [Bool.false_eq_true, ↓reduceIte]
    | _ => simp [Ty.hasTy] at h

theorem encLaw_pmap (k v : Ty) (ihk : EncLaw k) (ihv : EncLaw v) : EncLaw (.map k v true) := by
  intro hwf
  refine ⟨fun x h => ?_, fun i x hi h => ?_⟩
  · cases x with
    | map o =>
      cases o with
      | none => simp [Ty.app, payload]
      | some es =>
        rw [pmap_frames k v es [] hwf h]
        simp only [Ty.wf] at hwf
        simp only [Ty.hasTy] at h
        simp only [List.nil_append, payload]
        apply flatMap_congr'
        intro e he
        rw [entryBody_eq k v ihk ihv hwf.1 hwf.2.1 e (h.1 e he).1 (h.1 e he).2]
        rfl
    | _ => simp [Ty.hasTy] at h
  · cases x with
    | map o =>
      cases o with
      | none => simp [Ty.app, recsOf, render]
      | some es =>
        rw [pmap_frames k v es _ hwf h]
        simp only [Ty.wf] at hwf
        simp only [Ty.hasTy] at h
        simp only [recsOf, render_map, Ty.wt]
        apply flatMap_congr'
        intro e he
        rw [entryBody_eq k v ihk ihv hwf.1 hwf.2.1 e (h.1 e he).1 (h.1 e he).2, renderRec_len i hi]
        rfl
    | _ => simp [Ty.hasTy] at h


def FieldsEncLaw (fs : Fields) : Prop :=
  fieldsWf fs → (∀ f ∈ fs, f.1 < 2 ^ 61) → ∀ vs, fieldsHaveTy fs vs → fieldsApp fs vs = render (fieldsOf fs vs)

theorem fieldsEncLaw_nil : FieldsEncLaw [] := by
  intro _ _ vs _
  cases vs <;> simp [fieldsApp, fieldsOf, render]

theorem fieldsEncLaw_cons (i : Nat) (n : String) (t : Ty) (r : Fields) (iht : EncLaw t)
    (ihr : FieldsEncLaw r) : FieldsEncLaw ((i, n, t) :: r) := by
  intro hwf hidx vs hty
  cases vs with
  | nil => simp [fieldsHaveTy] at hty
  | cons v vs =>
    simp only [fieldsWf] at hwf
    simp only [fieldsHaveTy] at hty
    simp only [fieldsApp, fieldsOf, render_append, omit_eq_absent t v hty.1]
    rw [ihr hwf.2 (fun f hf => hidx f (by simp [hf])) vs hty.2]
    congr 1
    cases absent v
    · simp only [Bool.false_eq_true, ↓reduceIte]
      exact (iht hwf.1).2 i v (hidx (i, n, t) (by simp)) hty.1
    · rfl

theorem encLaw_struct (n : String) (fs : Fields) (ih : FieldsEncLaw fs) : EncLaw (.struct n fs) :=
  encLaw_single _ rfl rfl (fun i v h => by cases v <;> simp [Ty.hasTy] at h <;> simp [recsOf])
    (fun hwf v h => by
      cases v with
      | struct vs =>
        simp only [Ty.wf] at hwf
        simp only [Ty.hasTy] at h
        simp only [Ty.app, frame_nil, payload]
        exact ih hwf.2.2 hwf.2.1 vs h
      | _ => simp [Ty.hasTy] at h)

mutual
theorem encLaw_ty : (t : Ty) → EncLaw t
  | .bool => encLaw_bool
  | .int w => encLaw_int w
  | .uint w => encLaw_uint w
  | .flat w => encLaw_flat w
  | .f32 => encLaw_f32
  | .f64 => encLaw_f64
  | .str b => encLaw_str b
  | .bytes => encLaw_bytes
  | .time c => encLaw_time c
  | .ptr t => encLaw_ptr t (encLaw_ty t)
  | .vslice t => encLaw_vslice t (encLaw_ty t)
  | .fslice t => encLaw_fslice t (encLaw_ty t)
  | .lslice t => encLaw_lslice t (encLaw_ty t)
  | .pslice t => encLaw_pslice t (encLaw_ty t)
  | .struct n fs => encLaw_struct n fs (encLaw_fields fs)
  | .map k v false => encLaw_map k v (encLaw_ty k) (encLaw_ty v)
  | .map k v true => encLaw_pmap k v (encLaw_ty k) (encLaw_ty v)
theorem encLaw_fields : (fs : Fields) → FieldsEncLaw fs
  | [] => fieldsEncLaw_nil
  | (i, n, t) :: r => fieldsEncLaw_cons i n t r (encLaw_ty t) (encLaw_fields r)
end

/-- untagged: what a codec appends with no tag is the specified payload. -/
theorem app_nil_eq_payload (t : Ty) (v : Val) (hwf : t.wf) (hty : t.hasTy v) :
    t.app v [] = payload t v := (encLaw_ty t hwf).1 v hty

/-- tagged: what a codec appends under the tag of field `i` is the rendering of
the specified records. -/
theorem app_tag_eq_recs (t : Ty) (i : Nat) (v : Val) (hwf : t.wf) (hi : i < 2 ^ 61) (hty : t.hasTy v) :
    t.app v (appendTag t.wt i) = render (recsOf t i v) := (encLaw_ty t hwf).2 i v hi hty

theorem fieldsApp_eq_render (fs : Fields) (vs : List Val) (hwf : fieldsWf fs) (hidx : ∀ f ∈ fs, f.1 < 2 ^ 61)
    (hty : fieldsHaveTy fs vs) : fieldsApp fs vs = render (fieldsOf fs vs) :=
  encLaw_fields fs hwf hidx vs hty

theorem marshal_eq_encode (t : Ty) (v : Val) (hwf : t.wf) (hty : t.hasTy v) :
    marshal t v = encode t v := by
  unfold marshal encode
  rw [omit_eq_absent t v hty]
  cases absent v
  · simp only [Bool.false_eq_true, ↓reduceIte]; exact app_nil_eq_payload t v hwf hty
  · rfl

end SpecP
