import Plenc.Spec.Format
import Proofs.RoundTrip
/-
  Proofs.Spec — helper lemmas for C02 (wire format).

  Part 1: the codec model writes what the specification `Plenc/Spec/Format.lean`
  says (`EncLaw`, by mutual structural induction over `Ty` / `Fields`; the only
  real content is that the length prefixes the model computes with `Ty.size` are
  the lengths of what follows — `size_eq_app_len` through the framing laws of
  Proofs/SizeApp.lean).
  Part 2: the struct reader handles one record at a time, and the result depends
  only on the sub-sequence of records of each field (`loop_chains`), hence not on
  how records of different fields are interleaved.
-/

namespace SpecP
open Spec RT


/-! ### the equations of `payload` / `recsOf` / `fieldsOf`

`Spec.form` tabulates payload and records together; these are its rows read
through the two projections `Spec.payload` and `Spec.recsOf`. -/

theorem payload_bool (b : Bool) : payload .bool (.bool b) = varint (if b then 1 else 0) := by
  simp [payload, form, one]
theorem payload_int (w : Nat) (i : Int) : payload (.int w) (.int i) = svarint i := by
  simp [payload, form, one]
theorem payload_uint (w n : Nat) : payload (.uint w) (.uint n) = varint n := by
  simp [payload, form, one]
theorem payload_flat (w : Nat) (i : Int) : payload (.flat w) (.int i) = varint (wrapU w i) := by
  simp [payload, form, one]
theorem payload_f32 (b : Nat) : payload .f32 (.f32 b) = leBytes 4 b := by
  simp [payload, form, one]
theorem payload_f64 (b : Nat) : payload .f64 (.f64 b) = leBytes 8 b := by
  simp [payload, form, one]
theorem payload_str (c : Bool) (s : Bytes) : payload (.str c) (.str s) = s := by
  simp [payload, form, one]
theorem payload_bytes (s : Bytes) : payload .bytes (.bytes s) = s := by
  simp [payload, form, one]
theorem payload_time (c : Bool) (sec : Int) (nsec : Nat) :
    payload (.time c) (.time sec nsec)
      = render [⟨1, .varint, if c then varint (wrapU 64 sec) else svarint sec⟩,
                ⟨2, .varint, if c then varint nsec else svarint nsec⟩] := by
  simp [payload, form, one]
theorem payload_ptr_none (t : Ty) : payload (.ptr t) (.ptr none) = [] := by
  simp [payload, form]
theorem payload_ptr_some (t : Ty) (v : Val) : payload (.ptr t) (.ptr (some v)) = payload t v := by
  simp [payload, form]
theorem payload_vslice (t : Ty) (vs : List Val) :
    payload (.vslice t) (.slice vs) = vs.flatMap fun v => payload t v := by
  simp [payload, form, one]
theorem payload_fslice (t : Ty) (vs : List Val) :
    payload (.fslice t) (.slice vs) = vs.flatMap fun v => payload t v := by
  simp [payload, form, one]
theorem payload_lslice (t : Ty) (vs : List Val) :
    payload (.lslice t) (.slice vs) = varint vs.length ++ vs.flatMap fun v => lenPrefixed (payload t v) := by
  simp [payload, form, one]
theorem payload_pslice (t : Ty) (vs : List Val) :
    payload (.pslice t) (.slice vs) = vs.flatMap fun v => payload t v := by
  simp [payload, form]
theorem payload_struct (n : String) (fs : Fields) (vs : List Val) :
    payload (.struct n fs) (.struct vs) = render (fieldsOf fs vs) := by
  simp [payload, form, one]

/-- one map entry: the message {key = 1; value = 2} with the omission rule. -/
def entryRecs (k v : Ty) (e : Val × Val) : List Rec :=
  (if absent e.1 then [] else recsOf k 1 e.1) ++ (if absent e.2 then [] else recsOf v 2 e.2)

theorem payload_map_some (k v : Ty) (es : List (Val × Val)) :
    payload (.map k v false) (.map (some es))
      = varint es.length ++ es.flatMap fun e => lenPrefixed (render (entryRecs k v e)) := by
  simp [payload, form, one, entryRecs, recsOf]
theorem payload_map_none (k v : Ty) : payload (.map k v false) (.map none) = varint 0 := by
  simp [payload, form, one]
theorem payload_pmap_some (k v : Ty) (es : List (Val × Val)) :
    payload (.map k v true) (.map (some es)) = es.flatMap fun e => lenPrefixed (render (entryRecs k v e)) := by
  simp [payload, form, entryRecs, recsOf]
theorem payload_pmap_none (k v : Ty) : payload (.map k v true) (.map none) = [] := by
  simp [payload, form]

theorem recsOf_ptr_none (t : Ty) (i : Nat) : recsOf (.ptr t) i (.ptr none) = [] := by
  simp [recsOf, form]
theorem recsOf_ptr_some (t : Ty) (i : Nat) (v : Val) : recsOf (.ptr t) i (.ptr (some v)) = recsOf t i v := by
  simp [recsOf, form]
theorem recsOf_pslice_eq (t : Ty) (i : Nat) (vs : List Val) :
    recsOf (.pslice t) i (.slice vs) = vs.flatMap fun v => orEmpty i (recsOf t i v) := by
  simp [recsOf, form]
theorem recsOf_pmap_some (k v : Ty) (i : Nat) (es : List (Val × Val)) :
    recsOf (.map k v true) i (.map (some es)) = es.map fun e => ⟨i, .len, render (entryRecs k v e)⟩ := by
  simp [recsOf, form, entryRecs]
theorem recsOf_pmap_none (k v : Ty) (i : Nat) : recsOf (.map k v true) i (.map none) = [] := by
  simp [recsOf, form]

theorem fieldsOf_cons' (i : Nat) (n : String) (t : Ty) (fs : Fields) (v : Val) (vs : List Val) :
    fieldsOf ((i, n, t) :: fs) (v :: vs) = (if absent v then [] else recsOf t i v) ++ fieldsOf fs vs := by
  simp [fieldsOf, recsOf]

/-- every kind but pointers and the two protobuf repeated forms: one record,
carrying the payload, of the documented wire type. -/
theorem recsOf_single_np (t : Ty) (i : Nat) (v : Val) (hp : t.isPtr = false) (hr : t.isProtoRep = false)
    (hty : t.hasTy v) : recsOf t i v = [⟨i, wtOf t, payload t v⟩] := by
  cases t with
  | map k x p =>
    cases p with
    | true => simp [Ty.isProtoRep] at hr
    | false =>
      cases v with
      | map o => cases o <;> simp [recsOf, payload, form, one, wtOf]
      | _ => simp [Ty.hasTy] at hty
  | ptr u => simp [Ty.isPtr] at hp
  | pslice u => simp [Ty.isProtoRep] at hr
  | _ => cases v <;> simp [Ty.hasTy] at hty <;> simp [recsOf, payload, form, one, wtOf]

theorem tag_eq (wt : WT) (i : Nat) (h : i < 2 ^ 61) : appendTag wt i = varint (i * 8 + wt.code) := by
  have hc := code_lt wt
  unfold appendTag varint
  rw [Nat.mod_eq_of_lt (by omega)]

theorem wtOf_eq : (t : Ty) → wtOf t = t.wt
  | .ptr t => by simp only [wtOf, Ty.wt]; exact wtOf_eq t
  | .map _ _ true | .map _ _ false => rfl
  | .bool | .int _ | .uint _ | .flat _ | .f32 | .f64 | .str _ | .bytes | .time _
  | .vslice _ | .fslice _ | .lslice _ | .pslice _ | .struct _ _ => rfl

theorem omit_eq_absent (t : Ty) (v : Val) (h : t.hasTy v) : v.omit = absent v := by
  cases v with
  | f32 b =>
    cases t <;> simp only [Ty.hasTy] at h
    simp only [Val.omit, absent]
    have : (b % 2 ^ 31 == 0) = (b == 0 || b == 0x80000000) := by
      rw [Bool.eq_iff_iff]; simp only [beq_iff_eq, Bool.or_eq_true]; omega
    exact this
  | f64 b =>
    cases t <;> simp only [Ty.hasTy] at h
    simp only [Val.omit, absent]
    have : (b % 2 ^ 63 == 0) = (b == 0 || b == 0x8000000000000000) := by
      rw [Bool.eq_iff_iff]; simp only [beq_iff_eq, Bool.or_eq_true]; omega
    exact this
  | bool b => cases b <;> rfl
  | str s => cases s <;> rfl
  | bytes s => cases s <;> rfl
  | slice s => cases s <;> rfl
  | ptr o => cases o <;> rfl
  | map o => cases o <;> rfl
  | int _ | uint _ | time _ _ | struct _ => rfl

theorem renderRec_len (i : Nat) (h : i < 2 ^ 61) (p : Bytes) :
    renderRec ⟨i, .len, p⟩ = appendTag .len i ++ appendVarUint p.length ++ p := by
  simp only [renderRec, tag_eq _ _ h, ↓reduceIte, varint]

theorem renderRec_other (i : Nat) (h : i < 2 ^ 61) (wt : WT) (hw : wt ≠ .len) (p : Bytes) :
    renderRec ⟨i, wt, p⟩ = appendTag wt i ++ p := by
  simp only [renderRec, tag_eq _ _ h, hw, ↓reduceIte, List.append_nil]

theorem render_single (r : Rec) : render [r] = renderRec r := by
  simp [render]


/-- the two halves of "the model writes what the specification says":
untagged (payload) and under a field tag (records). -/
def EncLaw (t : Ty) : Prop :=
  t.wf →
    (∀ v, t.hasTy v → t.app v [] = payload t v) ∧
    (∀ i v, i < 2 ^ 61 → t.hasTy v → t.app v (appendTag t.wt i) = render (recsOf t i v))

theorem encLaw_single (t : Ty) (hnp : t.isPtr = false) (hnr : t.isProtoRep = false)
    (hA : t.wf → ∀ v, t.hasTy v → t.app v [] = payload t v) : EncLaw t := by
  intro hwf
  refine ⟨hA hwf, fun i v hi hty => ?_⟩
  have hp := present_of_not_ptr t v hnp hty
  rw [recsOf_single_np t i v hnp hnr hty, render_single, wtOf_eq]
  by_cases hw : t.wt = .len
  · rw [app_frame_len t v _ hwf hty hp hw (by rw [RT.deref_of_not_ptr t hnp]; exact hnr)
      (RT.appendTag_ne_nil _ _), hA hwf v hty, hw, renderRec_len i hi]
  · rw [app_frame_other t v _ hwf hty hp hw, hA hwf v hty, renderRec_other i hi _ hw]

theorem encLaw_bool : EncLaw .bool :=
  encLaw_single _ rfl rfl
    (fun _ v h => by cases v <;> simp [Ty.hasTy] at h <;> simp [Ty.app, payload_bool, varint])


theorem encLaw_int (w : Nat) : EncLaw (.int w) :=
  encLaw_single _ rfl rfl
    (fun _ v h => by cases v <;> simp [Ty.hasTy] at h <;> simp [Ty.app, payload_int, varint, svarint, appendVarInt])

theorem encLaw_uint (w : Nat) : EncLaw (.uint w) :=
  encLaw_single _ rfl rfl
    (fun _ v h => by cases v <;> simp [Ty.hasTy] at h <;> simp [Ty.app, payload_uint, varint])

theorem encLaw_flat (w : Nat) : EncLaw (.flat w) :=
  encLaw_single _ rfl rfl
    (fun _ v h => by cases v <;> simp [Ty.hasTy] at h <;> simp [Ty.app, payload_flat, varint])

theorem encLaw_f32 : EncLaw .f32 :=
  encLaw_single _ rfl rfl
    (fun _ v h => by cases v <;> simp [Ty.hasTy] at h <;> simp [Ty.app, payload_f32])

theorem encLaw_f64 : EncLaw .f64 :=
  encLaw_single _ rfl rfl
    (fun _ v h => by cases v <;> simp [Ty.hasTy] at h <;> simp [Ty.app, payload_f64])

theorem encLaw_str (b : Bool) : EncLaw (.str b) :=
  encLaw_single _ rfl rfl
    (fun _ v h => by cases v <;> simp [Ty.hasTy] at h <;> simp [Ty.app, payload_str, frame])

theorem encLaw_bytes : EncLaw .bytes :=
  encLaw_single _ rfl rfl
    (fun _ v h => by cases v <;> simp [Ty.hasTy] at h <;> simp [Ty.app, payload_bytes, frame])

theorem tag1_eq : tag1 = varint (1 * 8 + WT.varint.code) := tag_eq _ _ (by omega)
theorem tag2_eq : tag2 = varint (2 * 8 + WT.varint.code) := tag_eq _ _ (by omega)

theorem encLaw_time (c : Bool) : EncLaw (.time c) :=
  encLaw_single _ rfl rfl
    (fun _ v h => by
      cases v with
      | time s n =>
        simp only [Ty.hasTy] at h
        have hn : wrapU 32 (n : Int) = n := wrapU_natCast 32 n (by simp [validWidth]) (by omega)
        cases c <;>
          simp [Ty.app, payload_time, frame, timeBody, render, renderRec, tag1_eq, tag2_eq, svarint, varint, appendVarInt, hn]
      | _ => simp [Ty.hasTy] at h)


theorem render_append (a b : List Rec) : render (a ++ b) = render a ++ render b := by
  simp [render]

theorem render_nil : render [] = [] := rfl

theorem encLaw_vslice (t : Ty) (ih : EncLaw t) : EncLaw (.vslice t) :=
  encLaw_single _ rfl rfl
    (fun hwf v h => by
      cases v with
      | slice vs =>
        simp only [Ty.wf] at hwf
        simp only [Ty.hasTy] at h
        simp only [Ty.app, frame_nil, payload_vslice]
        exact flatMap_congr' _ _ vs (fun a ha => (ih hwf.1).1 a (h a ha))
      | _ => simp [Ty.hasTy] at h)

theorem encLaw_fslice (t : Ty) (ih : EncLaw t) : EncLaw (.fslice t) :=
  encLaw_single _ rfl rfl
    (fun hwf v h => by
      cases v with
      | slice vs =>
        simp only [Ty.wf] at hwf
        have hwf' : t.wf := by rcases hwf with rfl | rfl <;> simp [Ty.wf]
        simp only [Ty.hasTy] at h
        simp only [Ty.app, frame_nil, payload_fslice]
        exact flatMap_congr' _ _ vs (fun a ha => (ih hwf').1 a (h a ha))
      | _ => simp [Ty.hasTy] at h)

theorem encLaw_lslice (t : Ty) (ih : EncLaw t) : EncLaw (.lslice t) :=
  encLaw_single _ rfl rfl
    (fun hwf v h => by
      cases v with
      | slice vs =>
        rw [lslice_entries t vs [] hwf h]
        simp only [Ty.wf] at hwf
        simp only [Ty.hasTy] at h
        simp only [List.nil_append, payload_lslice, varint]
        congr 1
        apply flatMap_congr'
        intro a ha
        simp only [lenPrefixed, varint, (ih hwf.1).1 a (h a ha)]
      | _ => simp [Ty.hasTy] at h)

theorem entryBody_eq (k v : Ty) (ihk : EncLaw k) (ihv : EncLaw v) (hk : k.wf) (hv : v.wf)
    (e : Val × Val) (h1 : k.hasTy e.1) (h2 : v.hasTy e.2) :
    entryBody k v e = render (entryRecs k v e) := by
  unfold entryBody entryRecs
  rw [render_append, omit_eq_absent k e.1 h1, omit_eq_absent v e.2 h2]
  congr 1
  · cases absent e.1
    · simp only [Bool.false_eq_true, ↓reduceIte]; exact (ihk hk).2 1 e.1 (by omega) h1
    · rfl
  · cases absent e.2
    · simp only [Bool.false_eq_true, ↓reduceIte]; exact (ihv hv).2 2 e.2 (by omega) h2
    · rfl

theorem encLaw_map (k v : Ty) (ihk : EncLaw k) (ihv : EncLaw v) : EncLaw (.map k v false) :=
  encLaw_single _ rfl rfl
    (fun hwf x h => by
      cases x with
      | map o =>
        cases o with
        | none => simp [Ty.app, payload_map_none, varint]
        | some es =>
          rw [map_entries k v es [] hwf h]
          simp only [Ty.wf] at hwf
          simp only [Ty.hasTy] at h
          simp only [List.nil_append, payload_map_some, varint]
          congr 1
          apply flatMap_congr'
          intro e he
          rw [entryBody_eq k v ihk ihv hwf.1 hwf.2.1 e (h.1 e he).1 (h.1 e he).2]
          rfl
      | _ => simp [Ty.hasTy] at h)


theorem encLaw_ptr (t : Ty) (ih : EncLaw t) : EncLaw (.ptr t) := by
  intro hwf
  simp only [Ty.wf] at hwf
  refine ⟨fun v h => ?_, fun i v hi h => ?_⟩
  · cases v with
    | ptr o =>
      cases o with
      | none => simp [Ty.app, payload_ptr_none]
      | some x =>
        simp only [Ty.hasTy] at h
        simp only [Ty.app, payload_ptr_some]
        exact (ih hwf.1).1 x h
    | _ => simp [Ty.hasTy] at h
  · cases v with
    | ptr o =>
      cases o with
      | none => simp [Ty.app, recsOf_ptr_none, render]
      | some x =>
        simp only [Ty.hasTy] at h
        simp only [Ty.app, recsOf_ptr_some, Ty.wt]
        exact (ih hwf.1).2 i x hi h
    | _ => simp [Ty.hasTy] at h

theorem renderRec_ne_nil (r : Rec) : renderRec r ≠ [] := by
  unfold renderRec varint
  have := append_ne_nil (r.index * 8 + r.wt.code)
  cases h : appendVarUint (r.index * 8 + r.wt.code) with
  | nil => exact absurd h this
  | cons a l => simp

theorem render_isEmpty (rs : List Rec) : (render rs).isEmpty = rs.isEmpty := by
  cases rs with
  | nil => rfl
  | cons r rs =>
    have := renderRec_ne_nil r
    cases h : renderRec r with
    | nil => exact absurd h this
    | cons a l => simp [render, h]

theorem render_flatMap {α : Type} (f : α → List Rec) (l : List α) :
    render (l.flatMap f) = l.flatMap fun a => render (f a) := by
  induction l with
  | nil => rfl
  | cons a l ih => simp only [List.flatMap_cons, render_append, ih]

theorem render_map {α : Type} (f : α → Rec) (l : List α) :
    render (l.map f) = l.flatMap fun a => renderRec (f a) := by
  induction l with
  | nil => rfl
  | cons a l ih =>
    have : render (f a :: l.map f) = renderRec (f a) ++ render (l.map f) := by simp [render]
    simp only [List.map_cons, List.flatMap_cons, this, ih]

theorem encLaw_pslice (t : Ty) (ih : EncLaw t) : EncLaw (.pslice t) := by
  intro hwf
  simp only [Ty.wf] at hwf
  refine ⟨fun v h => ?_, fun i v hi h => ?_⟩
  · cases v with
    | slice vs =>
      simp only [Ty.hasTy] at h
      simp only [Ty.app, payload_pslice]
      apply flatMap_congr'
      intro a ha
      simp [(ih hwf.1).1 a (h a ha)]
    | _ => simp [Ty.hasTy] at h
  · cases v with
    | slice vs =>
      simp only [Ty.hasTy] at h
      simp only [Ty.app, recsOf_pslice_eq, render_flatMap, Ty.wt]
      apply flatMap_congr'
      intro a ha
      have hB := (ih hwf.1).2 i a hi (h a ha)
      rw [hwf.2.1] at hB
      simp only [hB, render_isEmpty, RT.appendTag_isEmpty, Bool.false_eq_true, not_false_eq_true, and_true, orEmpty]
      cases hre : (recsOf t i a).isEmpty with
      | true =>
        simp only [↓reduceIte, render_single, renderRec_len i hi, List.length_nil, appendVarUint_zero, List.append_nil]
      | false => simp only [Bool.false_eq_true, ↓reduceIte]
    | _ => simp [Ty.hasTy] at h

theorem encLaw_pmap (k v : Ty) (ihk : EncLaw k) (ihv : EncLaw v) : EncLaw (.map k v true) := by
  intro hwf
  refine ⟨fun x h => ?_, fun i x hi h => ?_⟩
  · cases x with
    | map o =>
      cases o with
      | none => simp [Ty.app, payload_pmap_none]
      | some es =>
        rw [pmap_frames k v es [] hwf h]
        simp only [Ty.wf] at hwf
        simp only [Ty.hasTy] at h
        simp only [List.nil_append, payload_pmap_some]
        apply flatMap_congr'
        intro e he
        rw [entryBody_eq k v ihk ihv hwf.1 hwf.2.1 e (h.1 e he).1 (h.1 e he).2]
        rfl
    | _ => simp [Ty.hasTy] at h
  · cases x with
    | map o =>
      cases o with
      | none => simp [Ty.app, recsOf_pmap_none, render]
      | some es =>
        rw [pmap_frames k v es _ hwf h]
        simp only [Ty.wf] at hwf
        simp only [Ty.hasTy] at h
        simp only [recsOf_pmap_some, render_map, Ty.wt]
        apply flatMap_congr'
        intro e he
        rw [entryBody_eq k v ihk ihv hwf.1 hwf.2.1 e (h.1 e he).1 (h.1 e he).2, renderRec_len i hi]
    | _ => simp [Ty.hasTy] at h


def FieldsEncLaw (fs : Fields) : Prop :=
  fieldsWf fs → (∀ f ∈ fs, f.1 < 2 ^ 61) → ∀ vs, fieldsHaveTy fs vs → fieldsApp fs vs = render (fieldsOf fs vs)

theorem fieldsEncLaw_nil : FieldsEncLaw [] := by
  intro _ _ vs _
  cases vs <;> simp [fieldsApp, fieldsOf, render]

theorem fieldsEncLaw_cons (i : Nat) (n : String) (t : Ty) (r : Fields) (iht : EncLaw t)
    (ihr : FieldsEncLaw r) : FieldsEncLaw ((i, n, t) :: r) := by
  intro hwf hidx vs hty
  cases vs with
  | nil => simp [fieldsHaveTy] at hty
  | cons v vs =>
    simp only [fieldsWf] at hwf
    simp only [fieldsHaveTy] at hty
    simp only [fieldsApp, fieldsOf_cons', render_append, omit_eq_absent t v hty.1]
    rw [ihr hwf.2 (fun f hf => hidx f (by simp [hf])) vs hty.2]
    congr 1
    cases absent v
    · simp only [Bool.false_eq_true, ↓reduceIte]
      exact (iht hwf.1).2 i v (hidx (i, n, t) (by simp)) hty.1
    · rfl

theorem encLaw_struct (n : String) (fs : Fields) (ih : FieldsEncLaw fs) : EncLaw (.struct n fs) :=
  encLaw_single _ rfl rfl
    (fun hwf v h => by
      cases v with
      | struct vs =>
        simp only [Ty.wf] at hwf
        simp only [Ty.hasTy] at h
        simp only [Ty.app, frame_nil, payload_struct]
        exact ih hwf.2.2 hwf.2.1 vs h
      | _ => simp [Ty.hasTy] at h)

mutual
theorem encLaw_ty : (t : Ty) → EncLaw t
  | .bool => encLaw_bool
  | .int w => encLaw_int w
  | .uint w => encLaw_uint w
  | .flat w => encLaw_flat w
  | .f32 => encLaw_f32
  | .f64 => encLaw_f64
  | .str b => encLaw_str b
  | .bytes => encLaw_bytes
  | .time c => encLaw_time c
  | .ptr t => encLaw_ptr t (encLaw_ty t)
  | .vslice t => encLaw_vslice t (encLaw_ty t)
  | .fslice t => encLaw_fslice t (encLaw_ty t)
  | .lslice t => encLaw_lslice t (encLaw_ty t)
  | .pslice t => encLaw_pslice t (encLaw_ty t)
  | .struct n fs => encLaw_struct n fs (encLaw_fields fs)
  | .map k v false => encLaw_map k v (encLaw_ty k) (encLaw_ty v)
  | .map k v true => encLaw_pmap k v (encLaw_ty k) (encLaw_ty v)
theorem encLaw_fields : (fs : Fields) → FieldsEncLaw fs
  | [] => fieldsEncLaw_nil
  | (i, n, t) :: r => fieldsEncLaw_cons i n t r (encLaw_ty t) (encLaw_fields r)
end

/-- untagged: what a codec appends with no tag is the specified payload. -/
theorem app_nil_eq_payload (t : Ty) (v : Val) (hwf : t.wf) (hty : t.hasTy v) :
    t.app v [] = payload t v := (encLaw_ty t hwf).1 v hty

/-- tagged: what a codec appends under the tag of field `i` is the rendering of
the specified records. -/
theorem app_tag_eq_recs (t : Ty) (i : Nat) (v : Val) (hwf : t.wf) (hi : i < 2 ^ 61) (hty : t.hasTy v) :
    t.app v (appendTag t.wt i) = render (recsOf t i v) := (encLaw_ty t hwf).2 i v hi hty

theorem fieldsApp_eq_render (fs : Fields) (vs : List Val) (hwf : fieldsWf fs) (hidx : ∀ f ∈ fs, f.1 < 2 ^ 61)
    (hty : fieldsHaveTy fs vs) : fieldsApp fs vs = render (fieldsOf fs vs) :=
  encLaw_fields fs hwf hidx vs hty

theorem marshal_eq_encode (t : Ty) (v : Val) (hwf : t.wf) (hty : t.hasTy v) :
    marshal t v = encode t v := by
  unfold marshal encode
  rw [omit_eq_absent t v hty]
  cases absent v
  · simp only [Bool.false_eq_true, ↓reduceIte]; exact app_nil_eq_payload t v hwf hty
  · rfl


/-! ## Part 2: the struct reader, one record at a time -/

/-- every record of a value written under index `i` carries index `i` and the
wire type of the field's codec. -/
theorem recsOf_index_wt : (t : Ty) → t.wf → ∀ (i : Nat) (v : Val), ∀ r ∈ recsOf t i v, r.index = i ∧ r.wt = t.wt
  | .ptr t => by
      intro hwf i v r hr
      simp only [Ty.wf] at hwf
      cases v with
      | ptr o =>
        cases o with
        | none => simp [recsOf_ptr_none] at hr
        | some x =>
          simp only [recsOf_ptr_some] at hr
          simp only [Ty.wt]
          exact recsOf_index_wt t hwf.1 i x r hr
      | _ => simp [recsOf, form] at hr
  | .pslice t => by
      intro hwf i v r hr
      simp only [Ty.wf] at hwf
      cases v with
      | slice vs =>
        simp only [recsOf_pslice_eq, List.mem_flatMap, orEmpty] at hr
        obtain ⟨a, _, hr⟩ := hr
        split at hr
        · simp only [List.mem_singleton] at hr; subst hr; exact ⟨rfl, rfl⟩
        · have := recsOf_index_wt t hwf.1 i a r hr
          rw [hwf.2.1] at this
          exact this
      | _ => simp [recsOf, form] at hr
  | .map k v true => by
      intro _ i x r hr
      cases x with
      | map o =>
        cases o with
        | none => simp [recsOf_pmap_none] at hr
        | some es =>
          simp only [recsOf_pmap_some, List.mem_map] at hr
          obtain ⟨e, _, rfl⟩ := hr
          exact ⟨rfl, rfl⟩
      | _ => simp [recsOf, form] at hr
  | .map k v false => by
      intro _ i x r hr
      cases x with
      | map o => cases o <;> (simp only [recsOf, form, one, List.mem_singleton] at hr; subst hr; exact ⟨rfl, rfl⟩)
      | _ => simp [recsOf, form] at hr
  | .bool | .int _ | .uint _ | .flat _ | .f32 | .f64 | .str _ | .bytes | .time _
  | .vslice _ | .fslice _ | .lslice _ | .struct _ _ => by
      intro _ i v r hr
      cases v <;> first
        | (simp [recsOf, form] at hr; done)
        | (simp only [recsOf, form, one, List.mem_singleton] at hr; subst hr; exact ⟨rfl, rfl⟩)

/-- the indexes of the records of a struct value are indexes of its fields. -/
theorem fieldsOf_index (fs : Fields) (hwf : fieldsWf fs) :
    ∀ (vs : List Val), ∀ r ∈ fieldsOf fs vs, r.index ∈ fs.map (·.1) := by
  induction fs with
  | nil => intro vs r hr; cases vs <;> simp [fieldsOf] at hr
  | cons f fs ih =>
    obtain ⟨i, n, t⟩ := f
    simp only [fieldsWf] at hwf
    intro vs r hr
    cases vs with
    | nil => simp [fieldsOf] at hr
    | cons v vs =>
      simp only [fieldsOf_cons', List.mem_append] at hr
      rcases hr with hr | hr
      · split at hr
        · simp at hr
        · simp [(recsOf_index_wt t hwf.1 i v r hr).1]
      · simp only [List.map_cons, List.mem_cons]
        exact Or.inr (ih hwf.2 vs r hr)


/-- the records of field index `i` in a message, in wire order. -/
def recsAt (i : Nat) (recs : List Rec) : List Rec := recs.filter (fun r => r.index == i)

/-- one iteration of the struct loop over the record `r` of a field with codec
`t` and index `i`: the field's value goes from `a` to `a'`, nothing else of the
accumulator changes (`put` places the field's value into the accumulator), and
exactly the bytes of the record are consumed. -/
def Step (t : Ty) (i : Nat) (r : Rec) (a a' : Val) : Prop :=
  ∀ (rd : Nat → WT → Bytes → List Val → Res (List Val × Nat)) (put : Val → List Val),
    (∀ wt body x, rd i wt body (put x) = Res.mapFst put (RT.fieldRead t wt body x)) →
    ∀ (fuel : Nat) (rest : Bytes) (off : Nat), (renderRec r ++ rest).length < fuel →
      structLoop rd fuel (renderRec r ++ rest) off (put a)
        = structLoop rd fuel rest (off + (renderRec r).length) (put a')

/-- the successive values of one field under the records addressed to it. -/
def Chain (t : Ty) (i : Nat) : Val → List Rec → Val → Prop
  | a, [], b => a = b
  | a, r :: rs, b => ∃ m, Step t i r a m ∧ Chain t i m rs b

/-- every field of the accumulator `acc` goes to the corresponding field of
`res` under the records of `recs` addressed to it. -/
def FieldChains (recs : List Rec) : Fields → List Val → List Val → Prop
  | [], [], [] => True
  | (i, _, t) :: fs, a :: acc, b :: res => Chain t i a (recsAt i recs) b ∧ FieldChains recs fs acc res
  | _, _, _ => False

theorem fieldChains_congr (R R' : List Rec) : ∀ (fs : Fields) (acc res : List Val),
    (∀ j ∈ fs.map (·.1), recsAt j R = recsAt j R') → FieldChains R fs acc res → FieldChains R' fs acc res := by
  intro fs
  induction fs with
  | nil => intro acc res _ h; cases acc <;> cases res <;> simp_all [FieldChains]
  | cons f fs ih =>
    obtain ⟨i, n, t⟩ := f
    intro acc res hj h
    cases acc with
    | nil => simp [FieldChains] at h
    | cons a acc =>
      cases res with
      | nil => simp [FieldChains] at h
      | cons b res =>
        simp only [FieldChains] at h ⊢
        refine ⟨?_, ih acc res (fun j hjm => hj j (by simp only [List.map_cons, List.mem_cons]; exact Or.inr hjm)) h.2⟩
        rw [← hj i (by simp)]
        exact h.1

theorem fieldChains_nil : ∀ (fs : Fields) (acc res : List Val), FieldChains [] fs acc res → acc = res := by
  intro fs
  induction fs with
  | nil => intro acc res h; cases acc <;> cases res <;> simp_all [FieldChains]
  | cons f fs ih =>
    obtain ⟨i, n, t⟩ := f
    intro acc res h
    cases acc with
    | nil => simp [FieldChains] at h
    | cons a acc =>
      cases res with
      | nil => simp [FieldChains] at h
      | cons b res =>
        simp only [FieldChains, recsAt, List.filter_nil, Chain] at h
        rw [h.1, ih acc res h.2]

theorem fieldChains_split (R : List Rec) (i : Nat) (n : String) (t : Ty) (suf : Fields) :
    ∀ (pre : Fields) (acc res : List Val), FieldChains R (pre ++ (i, n, t) :: suf) acc res →
      ∃ apre a asuf rpre b rsuf, acc = apre ++ a :: asuf ∧ res = rpre ++ b :: rsuf ∧ apre.length = pre.length ∧
        FieldChains R pre apre rpre ∧ Chain t i a (recsAt i R) b ∧ FieldChains R suf asuf rsuf := by
  intro pre
  induction pre with
  | nil =>
    intro acc res h
    cases acc with
    | nil => simp [FieldChains] at h
    | cons a acc =>
      cases res with
      | nil => simp [FieldChains] at h
      | cons b res =>
        simp only [List.nil_append, FieldChains] at h
        exact ⟨[], a, acc, [], b, res, rfl, rfl, rfl, by simp [FieldChains], h.1, h.2⟩
  | cons f pre ih =>
    obtain ⟨j, nj, tj⟩ := f
    intro acc res h
    cases acc with
    | nil => simp [FieldChains] at h
    | cons a0 acc =>
      cases res with
      | nil => simp [FieldChains] at h
      | cons b0 res =>
        simp only [List.cons_append, FieldChains] at h
        obtain ⟨apre, a, asuf, rpre, b, rsuf, h1, h2, h3, h4, h5, h6⟩ := ih acc res h.2
        refine ⟨a0 :: apre, a, asuf, b0 :: rpre, b, rsuf, by simp [h1], by simp [h2], by simp [h3], ?_, h5, h6⟩
        simp only [FieldChains]
        exact ⟨h.1, h4⟩

theorem fieldChains_join (R : List Rec) (i : Nat) (n : String) (t : Ty) (suf : Fields) (a b : Val)
    (asuf rsuf : List Val) (hc : Chain t i a (recsAt i R) b) (hs : FieldChains R suf asuf rsuf) :
    ∀ (pre : Fields) (apre rpre : List Val), FieldChains R pre apre rpre →
      FieldChains R (pre ++ (i, n, t) :: suf) (apre ++ a :: asuf) (rpre ++ b :: rsuf) := by
  intro pre
  induction pre with
  | nil =>
    intro apre rpre h
    cases apre <;> cases rpre <;> simp_all [FieldChains]
  | cons f pre ih =>
    obtain ⟨j, nj, tj⟩ := f
    intro apre rpre h
    cases apre with
    | nil => simp [FieldChains] at h
    | cons a0 apre =>
      cases rpre with
      | nil => simp [FieldChains] at h
      | cons b0 rpre =>
        simp only [FieldChains] at h
        simp only [List.cons_append, FieldChains]
        exact ⟨h.1, ih apre rpre h.2⟩

theorem recsAt_cons_ne (r : Rec) (rs : List Rec) (j : Nat) (h : r.index ≠ j) :
    recsAt j (r :: rs) = recsAt j rs := by
  simp [recsAt, h]

theorem recsAt_cons_eq (r : Rec) (rs : List Rec) : recsAt r.index (r :: rs) = r :: recsAt r.index rs := by
  simp [recsAt]

theorem render_cons (r : Rec) (rs : List Rec) : render (r :: rs) = renderRec r ++ render rs := by
  simp [render]

/-- the struct loop over the rendering of ANY list of records addressed to fields
of `fs`: the result is determined, field by field, by the records of that field
in their relative order. -/
theorem loop_chains (fs : Fields) (hnd : (fs.map (·.1)).Nodup) :
    ∀ (recs : List Rec) (acc res : List Val), (∀ r ∈ recs, r.index ∈ fs.map (·.1)) →
      FieldChains recs fs acc res → ∀ (fuel off : Nat), (render recs).length < fuel →
      structLoop (fun idx wt body acc => readField fs acc idx wt body) fuel (render recs) off acc
        = .ok (res, off + (render recs).length) := by
  intro recs
  induction recs with
  | nil =>
    intro acc res _ h fuel off hf
    rw [fieldChains_nil fs acc res h]
    simp only [render_nil, List.length_nil, Nat.add_zero]
    exact RT.structLoop_nil _ _ _ _ (by omega)
  | cons r rs ih =>
    intro acc res hidx h fuel off hf
    have hmem := hidx r (by simp)
    obtain ⟨f, hf_mem, hfi⟩ := List.mem_map.mp hmem
    obtain ⟨pre, suf, hfs⟩ := List.append_of_mem hf_mem
    obtain ⟨i, n, t⟩ := f
    simp only at hfi
    subst hfi
    rw [hfs] at hnd
    simp only [List.map_append, List.map_cons] at hnd
    have hnd' := List.nodup_append.mp hnd
    have hni : r.index ∉ pre.map (·.1) := fun hm => hnd'.2.2 _ hm _ (by simp) rfl
    have hns : r.index ∉ suf.map (·.1) := (List.nodup_cons.mp hnd'.2.1).1
    rw [hfs] at h
    obtain ⟨apre, a, asuf, rpre, b, rsuf, rfl, rfl, hl, hp, hc, hs⟩ := fieldChains_split _ _ n t suf pre acc res h
    rw [recsAt_cons_eq] at hc
    obtain ⟨m, hstep, hc'⟩ := hc
    rw [render_cons] at hf ⊢
    have := hstep (fun idx wt body acc => readField fs acc idx wt body) (fun x => apre ++ x :: asuf)
      (fun wt body x => by
        simp only [hfs]
        exact RT.readField_at pre r.index n t suf hni apre hl x asuf wt body)
      fuel (render rs) off hf
    rw [this]
    have hp' : FieldChains rs pre apre rpre :=
      fieldChains_congr _ _ pre apre rpre (fun j hj => recsAt_cons_ne r rs j (fun e => hni (e ▸ hj))) hp
    have hs' : FieldChains rs suf asuf rsuf :=
      fieldChains_congr _ _ suf asuf rsuf (fun j hj => recsAt_cons_ne r rs j (fun e => hns (e ▸ hj))) hs
    have hall := fieldChains_join rs r.index n t suf m b asuf rsuf hc' hs' pre apre rpre hp'
    rw [← hfs] at hall
    simp only [List.length_append] at hf
    rw [ih _ _ (fun x hx => hidx x (by simp [hx])) hall fuel _ (by omega)]
    simp only [List.length_append, Nat.add_assoc]


/-! ### the canonical chains: what each field's records do, in writing order -/

theorem recsOf_single (t : Ty) (i : Nat) (v : Val) (hs : Ty.rtShape false t) (hty : t.hasTy v)
    (hv : v ≠ .ptr none) : ∃ r, recsOf t i v = [r] := by
  by_cases hp : t.isPtr = false
  · exact ⟨_, recsOf_single_np t i v hp (isPtr_false_not_rep_of_shape t hs) hty⟩
  · cases t with
    | ptr u =>
      simp only [Ty.rtShape] at hs
      cases v with
      | ptr o =>
        cases o with
        | none => exact absurd rfl hv
        | some x =>
          simp only [Ty.hasTy] at hty
          simp only [recsOf_ptr_some]
          exact ⟨_, recsOf_single_np u i x hs.1 (isPtr_false_not_rep_of_shape u hs.2) hty⟩
      | _ => simp [Ty.hasTy] at hty
    | _ => simp [Ty.isPtr] at hp

/-- a field of a non-repeated kind has exactly one record; it takes the field
from its zero value to the normalised value. -/
theorem chain_single (t : Ty) (i : Nat) (v : Val) (hwf : t.wf) (hs : Ty.rtShape false t) (hi : i < 2 ^ 61)
    (hty : t.hasTy v) (ho : v.omit = false) (hsz : (render (recsOf t i v)).length < 2 ^ 64) :
    Chain t i t.zero (recsOf t i v) (t.norm v) := by
  have hrt : RTField t := (pp_ty t hwf).2 (shape_true_of_false t hs)
  have happ := app_tag_eq_recs t i v hwf hi hty
  obtain ⟨r, hr⟩ := recsOf_single t i v hs hty (ne_ptr_none_of_not_omit v ho)
  rw [hr, render_single] at happ hsz
  rw [hr]
  refine ⟨t.norm v, ?_, rfl⟩
  intro rd put hrd fuel rest off hf
  have := hrt i v hi hty ho (by rw [happ]; exact hsz) rd put hrd fuel rest off (by rw [happ]; exact hf)
  rw [happ] at this
  exact this


/-! #### protobuf repeated slice -/

/-- the record of one element of a repeated-form slice. -/
def elemRec (t : Ty) (i : Nat) (v : Val) : Rec := ⟨i, .len, payload t v⟩

theorem elemRecs_single (t : Ty) (i : Nat) (v : Val) (hs : Ty.rtShape false t) (hwt : t.wt = .len)
    (hty : t.hasTy v) : orEmpty i (recsOf t i v) = [elemRec t i v] := by
  by_cases hp : t.isPtr = false
  · rw [recsOf_single_np t i v hp (isPtr_false_not_rep_of_shape t hs) hty, wtOf_eq, hwt]
    rfl
  · cases t with
    | ptr u =>
      simp only [Ty.rtShape] at hs
      simp only [Ty.wt] at hwt
      cases v with
      | ptr o =>
        cases o with
        | none => simp [recsOf_ptr_none, orEmpty, elemRec, payload_ptr_none]
        | some x =>
          simp only [Ty.hasTy] at hty
          simp only [recsOf_ptr_some, elemRec, payload_ptr_some]
          rw [recsOf_single_np u i x hs.1 (isPtr_false_not_rep_of_shape u hs.2) hty, wtOf_eq, hwt]
          rfl
      | _ => simp [Ty.hasTy] at hty
    | _ => simp [Ty.isPtr] at hp

theorem flatMap_singleton' {α β : Type} (f : α → List β) (g : α → β) (l : List α)
    (h : ∀ a ∈ l, f a = [g a]) : l.flatMap f = l.map g := by
  induction l with
  | nil => rfl
  | cons a l ih =>
    simp only [List.flatMap_cons, List.map_cons, h a (by simp), List.singleton_append]
    rw [ih (fun x hx => h x (by simp [hx]))]

theorem recsOf_pslice (t : Ty) (i : Nat) (vs : List Val) (hs : Ty.rtShape false t) (hwt : t.wt = .len)
    (hty : ∀ v ∈ vs, t.hasTy v) : recsOf (.pslice t) i (.slice vs) = vs.map (elemRec t i) := by
  simp only [recsOf_pslice_eq]
  exact flatMap_singleton' _ _ vs (fun a ha => elemRecs_single t i a hs hwt (hty a ha))

theorem renderRec_elem (t : Ty) (i : Nat) (v : Val) (hwf : t.wf) (hi : i < 2 ^ 61) (hty : t.hasTy v) :
    renderRec (elemRec t i v) = elemFrame t v (appendTag .len i) := by
  rw [elemRec, renderRec_len i hi, elemFrame, app_nil_eq_payload t v hwf hty]

theorem step_pslice (t : Ty) (i : Nat) (v : Val) (done : List Val) (hwf : (Ty.pslice t).wf)
    (hs : Ty.rtShape false t) (hi : i < 2 ^ 61) (hty : t.hasTy v)
    (hsz : (renderRec (elemRec t i v)).length < 2 ^ 64) :
    Step (.pslice t) i (elemRec t i v) (.slice done) (.slice (done ++ [elemNorm t v])) := by
  simp only [Ty.wf] at hwf
  intro rd put hrd fuel rest off hf
  rw [renderRec_elem t i v hwf.1 hi hty] at hsz hf ⊢
  have := pslice_loop t hwf.1 hs hwf.2.1 hwf.2.2.1 ((pp_ty t hwf.1).1 hs) i hi rd put hrd [v] done fuel rest off
    (fun x hx => by simp only [List.mem_singleton] at hx; subst hx; exact hty)
    (by simpa using hsz) (by simpa using hf)
  simpa using this

theorem chain_pslice_aux (t : Ty) (i : Nat) (hwf : (Ty.pslice t).wf) (hs : Ty.rtShape false t)
    (hi : i < 2 ^ 61) : ∀ (vs done : List Val), (∀ v ∈ vs, t.hasTy v) →
      (∀ v ∈ vs, (renderRec (elemRec t i v)).length < 2 ^ 64) →
      Chain (.pslice t) i (.slice done) (vs.map (elemRec t i)) (.slice (done ++ vs.map (elemNorm t))) := by
  intro vs
  induction vs with
  | nil => intro done _ _; simp [Chain]
  | cons v vs ih =>
    intro done hty hsz
    simp only [List.map_cons, Chain]
    refine ⟨_, step_pslice t i v done hwf hs hi (hty v (by simp)) (hsz v (by simp)), ?_⟩
    have := ih (done ++ [elemNorm t v]) (fun x hx => hty x (by simp [hx])) (fun x hx => hsz x (by simp [hx]))
    simpa using this

theorem chain_pslice (t : Ty) (i : Nat) (vs : List Val) (hwf : (Ty.pslice t).wf) (hs : Ty.rtShape false t)
    (hi : i < 2 ^ 61) (hty : (Ty.pslice t).hasTy (.slice vs))
    (hsz : (render (recsOf (.pslice t) i (.slice vs))).length < 2 ^ 64) :
    Chain (.pslice t) i (Ty.pslice t).zero (recsOf (.pslice t) i (.slice vs)) ((Ty.pslice t).norm (.slice vs)) := by
  have hwt := hwf
  simp only [Ty.wf] at hwt
  simp only [Ty.hasTy] at hty
  rw [recsOf_pslice t i vs hs hwt.2.1 hty] at hsz ⊢
  rw [norm_pslice]
  have := chain_pslice_aux t i hwf hs hi vs [] hty (fun v hv => by
    rw [render_map] at hsz
    have := length_le_flatMap_of_mem (fun a => renderRec (elemRec t i a)) vs v hv
    omega)
  simpa [Ty.zero] using this


/-! #### protobuf map -/

/-- the record of one entry of a protobuf-form map. -/
def entryRec (k v : Ty) (i : Nat) (e : Val × Val) : Rec := ⟨i, .len, render (entryRecs k v e)⟩

theorem recsOf_pmap (k v : Ty) (i : Nat) (es : List (Val × Val)) :
    recsOf (.map k v true) i (.map (some es)) = es.map (entryRec k v i) := by
  simp only [recsOf_pmap_some]; rfl

/-- the value of a map field after the entries `l` have been stored: still the
nil map when there were none. -/
def mapAcc (l : List (Val × Val)) : Val := if l.isEmpty then .map none else .map (some l)

theorem read_pmap_acc (k v : Ty) (B : Bytes) (l l' : List (Val × Val)) (n : Nat)
    (h : readMapEntry (fun wt b => k.read wt b k.zero) (fun wt b s => v.read wt b s) k.zero v.zero B l
      = .ok (l', n)) :
    (Ty.map k v true).read .len B (mapAcc l) = .ok (.map (some l'), n) := by
  cases l with
  | nil => simp only [mapAcc, List.isEmpty_nil, ↓reduceIte, Ty.read, h]
  | cons x l => simp only [mapAcc, List.isEmpty_cons, Bool.false_eq_true, ↓reduceIte, Ty.read, h]

theorem chain_pmap_aux (k v : Ty) (i : Nat) (hwf : (Ty.map k v true).wf) (hi : i < 2 ^ 61)
    (es : List (Val × Val)) (hty : (Ty.map k v true).hasTy (.map (some es)))
    (H : ∀ pre e suf, es = pre ++ e :: suf →
      (entryBody k v e).length < 2 ^ 64 ∧
      readMapEntry (fun wt b => k.read wt b k.zero) (fun wt b s => v.read wt b s) k.zero v.zero
          (entryBody k v e) ([] ++ pre.map (entryNorm k v))
        = .ok ([] ++ pre.map (entryNorm k v) ++ [entryNorm k v e], (entryBody k v e).length)) :
    ∀ (suf pre : List (Val × Val)), es = pre ++ suf →
      Chain (.map k v true) i (mapAcc (pre.map (entryNorm k v))) (suf.map (entryRec k v i))
        (mapAcc (es.map (entryNorm k v))) := by
  simp only [Ty.wf] at hwf
  simp only [Ty.hasTy] at hty
  intro suf
  induction suf with
  | nil => intro pre h; simp only [List.append_nil] at h; subst h; simp [Chain]
  | cons e suf ih =>
    intro pre h
    obtain ⟨hl, hr⟩ := H pre e suf h
    simp only [List.nil_append] at hr
    have he : e ∈ es := by rw [h]; simp
    have hB : entryBody k v e = render (entryRecs k v e) :=
      entryBody_eq k v (encLaw_ty k) (encLaw_ty v) hwf.1 hwf.2.1 e (hty.1 e he).1 (hty.1 e he).2
    simp only [List.map_cons, Chain]
    refine ⟨mapAcc ((pre ++ [e]).map (entryNorm k v)), ?_, ?_⟩
    · intro rd put hrd fuel rest off hf
      have hread := read_pmap_acc k v _ _ _ _ hr
      have hacc : mapAcc ((pre ++ [e]).map (entryNorm k v))
          = .map (some (pre.map (entryNorm k v) ++ [entryNorm k v e])) := by
        simp [mapAcc]
      rw [hacc]
      have hrr : renderRec (entryRec k v i e)
          = appendTag .len i ++ (appendVarUint (entryBody k v e).length ++ entryBody k v e) := by
        rw [entryRec, renderRec_len i hi, ← hB, List.append_assoc]
      rw [hrr] at hf ⊢
      simp only [List.append_assoc] at hf ⊢
      rw [frame_step (.map k v true) i hi rd put hrd (entryBody k v e) rest hl _ _ hread fuel off hf]
      simp only [List.length_append]
    · exact ih (pre ++ [e]) (by simp [h])

theorem chain_pmap (k v : Ty) (i : Nat) (es : List (Val × Val)) (hwf : (Ty.map k v true).wf)
    (hks : k.keySafe) (hvs : Ty.rtShape false v) (hi : i < 2 ^ 61)
    (hty : (Ty.map k v true).hasTy (.map (some es)))
    (hsz : (render (recsOf (.map k v true) i (.map (some es)))).length < 2 ^ 64) :
    Chain (.map k v true) i (Ty.map k v true).zero (recsOf (.map k v true) i (.map (some es)))
      ((Ty.map k v true).norm (.map (some es))) := by
  have hwf' := hwf
  have hty' := hty
  simp only [Ty.wf] at hwf'
  simp only [Ty.hasTy] at hty'
  rw [recsOf_pmap] at hsz ⊢
  have hle : ∀ e ∈ es, (entryBody k v e).length < 2 ^ 64 := by
    intro e he
    rw [render_map] at hsz
    have h1 := length_le_flatMap_of_mem (fun a => renderRec (entryRec k v i a)) es e he
    have hB : entryBody k v e = render (entryRecs k v e) :=
      entryBody_eq k v (encLaw_ty k) (encLaw_ty v) hwf'.1 hwf'.2.1 e (hty'.1 e he).1 (hty'.1 e he).2
    have h2 : (entryBody k v e).length ≤ (renderRec (entryRec k v i e)).length := by
      rw [entryRec, renderRec_len i hi, ← hB]
      simp only [List.length_append]; omega
    omega
  have H := entries_rt k v hwf'.1 hwf'.2.1 hks hvs ((pp_ty k hwf'.1).1 (keySafe_shape k hks))
    ((pp_ty v hwf'.2.1).1 hvs) es hty'.1 hty'.2 hle
  have := chain_pmap_aux k v i hwf hi es hty H es [] rfl
  have hn : (Ty.map k v true).norm (.map (some es)) = mapAcc (es.map (entryNorm k v)) := by
    rw [norm_map]
    cases es <;> simp [mapAcc]
  rw [hn]
  simpa [mapAcc, Ty.zero] using this


/-- the records of one struct field (the omission rule applied). -/
def fieldRecs (t : Ty) (i : Nat) (v : Val) : List Rec := if absent v then [] else recsOf t i v

/-- the chain of any field allowed in a struct: from the zero value to the
normalised value of what was written. -/
theorem chain_field (t : Ty) (i : Nat) (v : Val) (hwf : t.wf) (hs : Ty.rtShape true t) (hi : i < 2 ^ 61)
    (hty : t.hasTy v) (hsz : (render (fieldRecs t i v)).length < 2 ^ 64) :
    Chain t i t.zero (fieldRecs t i v) (if v.omit then t.zero else t.norm v) := by
  unfold fieldRecs at hsz ⊢
  rw [omit_eq_absent t v hty]
  cases ha : absent v with
  | true => simp [Chain]
  | false =>
    have ho : v.omit = false := by rw [omit_eq_absent t v hty]; exact ha
    simp only [ha, Bool.false_eq_true, ↓reduceIte] at hsz ⊢
    cases hr : t.isProtoRep with
    | false => exact chain_single t i v hwf (shape_false_of_true t hr hs) hi hty ho hsz
    | true =>
      cases t with
      | pslice u =>
        simp only [Ty.rtShape, true_and] at hs
        cases v with
        | slice vs => exact chain_pslice u i vs hwf hs hi hty hsz
        | _ => simp [Ty.hasTy] at hty
      | map k x p =>
        cases p with
        | false => simp [Ty.isProtoRep] at hr
        | true =>
          simp only [Ty.rtShape] at hs
          cases v with
          | map o =>
            cases o with
            | none => simp [absent] at ha
            | some es => exact chain_pmap k x i es hwf hs.2.1 hs.2.2 hi hty hsz
          | _ => simp [Ty.hasTy] at hty
      | _ => simp [Ty.isProtoRep] at hr

theorem recsAt_append (i : Nat) (a b : List Rec) : recsAt i (a ++ b) = recsAt i a ++ recsAt i b := by
  simp [recsAt]

theorem recsAt_eq_nil (i : Nat) (R : List Rec) (h : ∀ r ∈ R, r.index ≠ i) : recsAt i R = [] := by
  simp only [recsAt, List.filter_eq_nil_iff, beq_iff_eq]
  exact h

theorem recsAt_eq_self (i : Nat) (R : List Rec) (h : ∀ r ∈ R, r.index = i) : recsAt i R = R := by
  simp only [recsAt, List.filter_eq_self, beq_iff_eq]
  exact h

theorem fieldRecs_index (t : Ty) (i : Nat) (v : Val) (hwf : t.wf) : ∀ r ∈ fieldRecs t i v, r.index = i := by
  intro r hr
  unfold fieldRecs at hr
  split at hr
  · simp at hr
  · exact (recsOf_index_wt t hwf i v r hr).1

theorem fieldsOf_cons (i : Nat) (n : String) (t : Ty) (fs : Fields) (v : Val) (vs : List Val) :
    fieldsOf ((i, n, t) :: fs) (v :: vs) = fieldRecs t i v ++ fieldsOf fs vs := by
  simp only [fieldsOf_cons', fieldRecs]

/-- the records addressed to index `j` in the canonical message. -/
theorem recsAt_fieldsOf_cons (i : Nat) (n : String) (t : Ty) (fs : Fields) (v : Val) (vs : List Val)
    (hwf : fieldsWf ((i, n, t) :: fs)) (hni : i ∉ fs.map (·.1)) (j : Nat) :
    recsAt j (fieldsOf ((i, n, t) :: fs) (v :: vs))
      = if j = i then fieldRecs t i v else recsAt j (fieldsOf fs vs) := by
  simp only [fieldsWf] at hwf
  rw [fieldsOf_cons, recsAt_append]
  by_cases hj : j = i
  · subst hj
    simp only [↓reduceIte]
    rw [recsAt_eq_self _ _ (fieldRecs_index t j v hwf.1), recsAt_eq_nil _ (fieldsOf fs vs), List.append_nil]
    intro r hr e
    exact hni (e ▸ fieldsOf_index fs hwf.2 vs r hr)
  · simp only [hj, ↓reduceIte]
    rw [recsAt_eq_nil _ (fieldRecs t i v), List.nil_append]
    intro r hr e
    exact hj ((fieldRecs_index t i v hwf.1 r hr) ▸ e.symm)

theorem fieldChains_canonical : ∀ (fs : Fields), (fs.map (·.1)).Nodup → (∀ f ∈ fs, f.1 < 2 ^ 61) →
    fieldsWf fs → fieldsRtShape fs → ∀ (vs : List Val), fieldsHaveTy fs vs →
    (render (fieldsOf fs vs)).length < 2 ^ 64 →
    FieldChains (fieldsOf fs vs) fs (zeros fs) (fieldsNorm fs vs) := by
  intro fs
  induction fs with
  | nil => intro _ _ _ _ vs hty _; cases vs <;> simp_all [fieldsHaveTy, FieldChains, zeros, fieldsNorm]
  | cons f fs ih =>
    obtain ⟨i, n, t⟩ := f
    intro hnd hidx hwf hs vs hty hsz
    cases vs with
    | nil => simp [fieldsHaveTy] at hty
    | cons v vs =>
      have hwf' := hwf
      simp only [fieldsWf] at hwf'
      simp only [fieldsRtShape] at hs
      simp only [fieldsHaveTy] at hty
      simp only [List.map_cons, List.nodup_cons] at hnd
      have hsz' := hsz
      rw [fieldsOf_cons, render_append, List.length_append] at hsz'
      simp only [zeros, fieldsNorm, FieldChains]
      constructor
      · rw [recsAt_fieldsOf_cons i n t fs v vs hwf hnd.1 i]
        simp only [↓reduceIte]
        exact chain_field t i v hwf'.1 hs.1 (hidx (i, n, t) (by simp)) hty.1 (by omega)
      · have := ih hnd.2 (fun f hf => hidx f (by simp [hf])) hwf'.2 hs.2 vs hty.2 (by omega)
        refine fieldChains_congr _ _ fs _ _ (fun j hj => ?_) this
        rw [recsAt_fieldsOf_cons i n t fs v vs hwf hnd.1 j]
        have hji : j ≠ i := fun e => hnd.1 (e ▸ hj)
        simp only [hji, ↓reduceIte]

/-- Reading ANY message whose records, field by field, are those of the
canonical message `fieldsOf fs vs` in the same relative order yields the
normalised struct value and consumes everything. -/
theorem read_records (n : String) (fs : Fields) (vs : List Val) (recs : List Rec)
    (hwf : (Ty.struct n fs).wf) (hs : fieldsRtShape fs) (hty : fieldsHaveTy fs vs)
    (hmem : ∀ r ∈ recs, r ∈ fieldsOf fs vs)
    (hord : ∀ i, recsAt i recs = recsAt i (fieldsOf fs vs))
    (hsz : (render (fieldsOf fs vs)).length < 2 ^ 64) :
    (Ty.struct n fs).read .len (render recs) (Ty.struct n fs).zero
      = .ok (.struct (fieldsNorm fs vs), (render recs).length) := by
  simp only [Ty.wf] at hwf
  have hcan := fieldChains_canonical fs hwf.1 hwf.2.1 hwf.2.2 hs vs hty hsz
  have hch := fieldChains_congr _ recs fs _ _ (fun j _ => (hord j).symm) hcan
  have := loop_chains fs hwf.1 recs _ _ (fun r hr => fieldsOf_index fs hwf.2.2 vs r (hmem r hr)) hch
    ((render recs).length + 1) 0 (by omega)
  simp only [Ty.read, Ty.zero, this, Nat.zero_add]


/-! ### permutations -/

/-- no field of the struct uses a protobuf repeated form (`proto`-tagged slice or
map): every field then has at most one record. -/
def noRepeated (fs : Fields) : Bool := fs.all fun f => !f.2.2.isProtoRep

theorem fieldRecs_le_one (t : Ty) (i : Nat) (v : Val) (hs : Ty.rtShape true t) (hr : t.isProtoRep = false)
    (hty : t.hasTy v) : (fieldRecs t i v).length ≤ 1 := by
  unfold fieldRecs
  cases ha : absent v with
  | true => simp
  | false =>
    have hv : v ≠ .ptr none := by intro e; subst e; simp [absent] at ha
    obtain ⟨r, hr⟩ := recsOf_single t i v (shape_false_of_true t hr hs) hty hv
    simp [hr]

theorem recsAt_fieldsOf_le_one : ∀ (fs : Fields), (fs.map (·.1)).Nodup → fieldsWf fs → fieldsRtShape fs →
    noRepeated fs = true → ∀ (vs : List Val), fieldsHaveTy fs vs →
    ∀ j, (recsAt j (fieldsOf fs vs)).length ≤ 1 := by
  intro fs
  induction fs with
  | nil => intro _ _ _ _ vs _ j; cases vs <;> simp [fieldsOf, recsAt]
  | cons f fs ih =>
    obtain ⟨i, n, t⟩ := f
    intro hnd hwf hs hnr vs hty j
    cases vs with
    | nil => simp [fieldsOf, recsAt]
    | cons v vs =>
      have hwf' := hwf
      simp only [fieldsWf] at hwf'
      simp only [fieldsRtShape] at hs
      simp only [fieldsHaveTy] at hty
      simp only [List.map_cons, List.nodup_cons] at hnd
      simp only [noRepeated, List.all_cons, Bool.and_eq_true, Bool.not_eq_eq_eq_not, Bool.not_true] at hnr
      rw [recsAt_fieldsOf_cons i n t fs v vs hwf hnd.1 j]
      split
      · exact fieldRecs_le_one t i v hs.1 hnr.1 hty.1
      · exact ih hnd.2 hwf'.2 hs.2 hnr.2 vs hty.2 j

theorem perm_recsAt_of_le_one (recs R : List Rec) (hp : recs.Perm R) (h1 : ∀ i, (recsAt i R).length ≤ 1) :
    ∀ i, recsAt i recs = recsAt i R := by
  intro i
  have hpf : (recsAt i recs).Perm (recsAt i R) := hp.filter _
  have hl := h1 i
  cases hR : recsAt i R with
  | nil => rw [hR] at hpf; exact List.perm_nil.mp hpf
  | cons a l =>
    cases l with
    | nil => rw [hR] at hpf; exact List.perm_singleton.mp hpf
    | cons b l => rw [hR] at hl; simp at hl

/-- every record of a struct value belongs to one of its fields: it carries that
field's index and the wire type of that field's codec. -/
theorem fieldsOf_field (fs : Fields) (hwf : fieldsWf fs) :
    ∀ (vs : List Val), ∀ r ∈ fieldsOf fs vs, ∃ f ∈ fs, r.index = f.1 ∧ r.wt = f.2.2.wt := by
  induction fs with
  | nil => intro vs r hr; cases vs <;> simp [fieldsOf] at hr
  | cons f fs ih =>
    obtain ⟨i, n, t⟩ := f
    simp only [fieldsWf] at hwf
    intro vs r hr
    cases vs with
    | nil => simp [fieldsOf] at hr
    | cons v vs =>
      rw [fieldsOf_cons, List.mem_append] at hr
      rcases hr with hr | hr
      · unfold fieldRecs at hr
        split at hr
        · simp at hr
        · exact ⟨(i, n, t), by simp, recsOf_index_wt t hwf.1 i v r hr⟩
      · obtain ⟨f, hf, h⟩ := ih hwf.2 vs r hr
        exact ⟨f, by simp [hf], h⟩

/-- it is enough to compare the per-field sub-sequences at the indexes that occur. -/
theorem sameOrder_of_all (a b : List Rec)
    (h : ∀ i ∈ (a ++ b).map (·.index), recsAt i a = recsAt i b) : ∀ i, recsAt i a = recsAt i b := by
  intro i
  by_cases hi : i ∈ (a ++ b).map (·.index)
  · exact h i hi
  · simp only [List.map_append, List.mem_append, List.mem_map, not_or, not_exists, not_and] at hi
    rw [recsAt_eq_nil i a (fun r hr e => hi.1 r hr e), recsAt_eq_nil i b (fun r hr e => hi.2 r hr e)]

/-- exchanging two adjacent records of different fields keeps every per-field
sub-sequence. -/
theorem sameOrder_swap (a b : List Rec) (r1 r2 : Rec) (h : r1.index ≠ r2.index) :
    ∀ i, recsAt i (a ++ r2 :: r1 :: b) = recsAt i (a ++ r1 :: r2 :: b) := by
  intro i
  simp only [recsAt, List.filter_append, List.filter_cons]
  by_cases h1 : r1.index = i <;> by_cases h2 : r2.index = i <;> simp [h1, h2]
  exact absurd (h1.trans h2.symm) h

end SpecP
