import Plenc.Alias
/-
  Proofs.Alias — the labelled decoder `readLP` refines the model decoder
  `Ty.read` (same values, same consumed counts, whatever the leaf policy), and
  it only ever produces the labels the policy hands out (plus `fresh` for zero
  values) — one induction for both facts (`Sim`).
-/
namespace Alias

/-! ### erase / lift / allQ -/

mutual
theorem erase_lift : (v : Val) → erase (lift v) = v
  | .bool _ | .int _ | .uint _ | .f32 _ | .f64 _ | .str _ | .bytes _ | .time _ _ => by
    simp only [lift, erase]
  | .ptr none => by simp only [lift, erase]
  | .ptr (some v) => by simp only [lift, erase, erase_lift v]
  | .slice vs => by simp only [lift, erase, eraseList_liftList vs]
  | .struct vs => by simp only [lift, erase, eraseList_liftList vs]
  | .map none => by simp only [lift, erase]
  | .map (some es) => by simp only [lift, erase, eraseEntries_liftEntries es]
theorem eraseList_liftList : (vs : List Val) → eraseList (liftList vs) = vs
  | [] => by simp only [liftList, eraseList]
  | v :: r => by simp only [liftList, eraseList, erase_lift v, eraseList_liftList r]
theorem eraseEntries_liftEntries : (es : List (Val × Val)) → eraseEntries (liftEntries es) = es
  | [] => by simp only [liftEntries, eraseEntries]
  | (k, v) :: r => by
    simp only [liftEntries, eraseEntries, erase_lift k, erase_lift v, eraseEntries_liftEntries r]
end

mutual
theorem allQ_lift (Q : Prov → Prop) (hQ : Q .fresh) : (v : Val) → allQ Q (lift v)
  | .bool _ | .int _ | .uint _ | .f32 _ | .f64 _ | .time _ _ => by simp only [lift, allQ]
  | .str _ | .bytes _ => by simp only [lift, allQ]; exact hQ
  | .ptr none => by simp only [lift, allQ]
  | .ptr (some v) => by simp only [lift, allQ]; exact allQ_lift Q hQ v
  | .slice vs => by simp only [lift, allQ]; exact allQL_liftList Q hQ vs
  | .struct vs => by simp only [lift, allQ]; exact allQL_liftList Q hQ vs
  | .map none => by simp only [lift, allQ]
  | .map (some es) => by simp only [lift, allQ]; exact allQE_liftEntries Q hQ es
theorem allQL_liftList (Q : Prov → Prop) (hQ : Q .fresh) : (vs : List Val) → allQL Q (liftList vs)
  | [] => by simp only [liftList, allQL]
  | v :: r => by simp only [liftList, allQL]; exact ⟨allQ_lift Q hQ v, allQL_liftList Q hQ r⟩
theorem allQE_liftEntries (Q : Prov → Prop) (hQ : Q .fresh) :
    (es : List (Val × Val)) → allQE Q (liftEntries es)
  | [] => by simp only [liftEntries, allQE]
  | (k, v) :: r => by
    simp only [liftEntries, allQE]
    exact ⟨allQ_lift Q hQ k, allQ_lift Q hQ v, allQE_liftEntries Q hQ r⟩
end

mutual
theorem allQ_true : (lv : LVal) → allQ (fun _ => True) lv
  | .bool _ | .int _ | .uint _ | .f32 _ | .f64 _ | .time _ _ | .str _ _ | .bytes _ _ => by simp only [allQ]
  | .ptr none => by simp only [allQ]
  | .ptr (some v) => by simp only [allQ]; exact allQ_true v
  | .slice vs => by simp only [allQ]; exact allQL_true vs
  | .struct vs => by simp only [allQ]; exact allQL_true vs
  | .map none => by simp only [allQ]
  | .map (some es) => by simp only [allQ]; exact allQE_true es
theorem allQL_true : (vs : List LVal) → allQL (fun _ => True) vs
  | [] => by simp only [allQL]
  | v :: r => by simp only [allQL]; exact ⟨allQ_true v, allQL_true r⟩
theorem allQE_true : (es : List (LVal × LVal)) → allQE (fun _ => True) es
  | [] => by simp only [allQE]
  | (k, v) :: r => by simp only [allQE]; exact ⟨allQ_true k, allQ_true v, allQE_true r⟩
end

theorem eraseList_append : ∀ (a b : List LVal), eraseList (a ++ b) = eraseList a ++ eraseList b
  | [], b => by simp only [List.nil_append, eraseList]
  | x :: a, b => by simp only [List.cons_append, eraseList, eraseList_append a b]

theorem allQL_append (Q : Prov → Prop) : ∀ (a b : List LVal), allQL Q a → allQL Q b → allQL Q (a ++ b)
  | [], _, _, hb => hb
  | x :: a, b, ha, hb => by
    simp only [List.cons_append, allQL] at ha ⊢
    exact ⟨ha.1, allQL_append Q a b ha.2 hb⟩

/-! ### observation of an all-fresh value -/

mutual
theorem observe_fresh (buf : Bytes) : (lv : LVal) → allFresh lv → observe buf lv = erase lv
  | .bool _, _ | .int _, _ | .uint _, _ | .f32 _, _ | .f64 _, _ | .time _ _, _ => by
    simp only [observe, erase]
  | .str s p, h => by
    simp only [allFresh, allQ] at h; subst h; simp only [observe, erase, Prov.read]
  | .bytes s p, h => by
    simp only [allFresh, allQ] at h; subst h; simp only [observe, erase, Prov.read]
  | .ptr none, _ => by simp only [observe, erase]
  | .ptr (some v), h => by
    simp only [allFresh, allQ] at h; simp only [observe, erase, observe_fresh buf v h]
  | .slice vs, h => by
    simp only [allFresh, allQ] at h; simp only [observe, erase, observeList_fresh buf vs h]
  | .struct vs, h => by
    simp only [allFresh, allQ] at h; simp only [observe, erase, observeList_fresh buf vs h]
  | .map none, _ => by simp only [observe, erase]
  | .map (some es), h => by
    simp only [allFresh, allQ] at h; simp only [observe, erase, observeEntries_fresh buf es h]
theorem observeList_fresh (buf : Bytes) : (vs : List LVal) → allQL (· = .fresh) vs →
    observeList buf vs = eraseList vs
  | [], _ => by simp only [observeList, eraseList]
  | v :: r, h => by
    simp only [allQL] at h
    simp only [observeList, eraseList, observe_fresh buf v h.1, observeList_fresh buf r h.2]
theorem observeEntries_fresh (buf : Bytes) : (es : List (LVal × LVal)) → allQE (· = .fresh) es →
    observeEntries buf es = eraseEntries es
  | [], _ => by simp only [observeEntries, eraseEntries]
  | (k, v) :: r, h => by
    simp only [allQE] at h
    simp only [observeEntries, eraseEntries, observe_fresh buf k h.1, observe_fresh buf v h.2.1,
      observeEntries_fresh buf r h.2.2]
end

/-! ### the simulation relation -/

/-- same outcome class, same consumed count, related payloads. -/
inductive Sim {α β : Type} (R : α → β → Prop) : Res (α × Nat) → Res (β × Nat) → Prop
  | ok {a : α} {b : β} {n : Nat} : R a b → Sim R (.ok (a, n)) (.ok (b, n))
  | err : Sim R .err .err
  | panic : Sim R .panic .panic
  | hang : Sim R .hang .hang

/-- value level: erases to, and carries only `Q` labels. -/
def RV (Q : Prov → Prop) (lv : LVal) (v : Val) : Prop := erase lv = v ∧ allQ Q lv
def RL (Q : Prov → Prop) (lvs : List LVal) (vs : List Val) : Prop := eraseList lvs = vs ∧ allQL Q lvs
def RE (Q : Prov → Prop) (les : List (LVal × LVal)) (es : List (Val × Val)) : Prop :=
  eraseEntries les = es ∧ allQE Q les

theorem sim_lift (Q : Prov → Prop) (hQ : Q .fresh) (r : Res (Val × Nat)) :
    Sim (RV Q) (Res.mapFst lift r) r := by
  cases r with
  | ok a => obtain ⟨v, n⟩ := a; exact Sim.ok ⟨erase_lift v, allQ_lift Q hQ v⟩
  | err => exact Sim.err
  | panic => exact Sim.panic
  | hang => exact Sim.hang

/-! ### map operations -/

theorem mapLookupL_sim (Q : Prov → Prop) (k : Val) : ∀ (les : List (LVal × LVal)), allQE Q les →
    (∀ lv, mapLookupL k les = some lv → mapLookup k (eraseEntries les) = some (erase lv) ∧ allQ Q lv) ∧
    (mapLookupL k les = none → mapLookup k (eraseEntries les) = none)
  | [], _ => by simp [mapLookupL, mapLookup, eraseEntries]
  | (k', v) :: r, h => by
    simp only [allQE] at h
    have ih := mapLookupL_sim Q k r h.2.2
    simp only [mapLookupL, mapLookup, eraseEntries]
    cases hb : (erase k').beq k
    · simpa using ih
    · simp only [↓reduceIte, Option.some.injEq, reduceCtorEq, false_implies, and_true]
      intro lv e; subst e; exact ⟨rfl, h.2.1⟩

theorem slot_sim (Q : Prov → Prop) (k : Val) (les : List (LVal × LVal)) (h : allQE Q les)
    (vz : LVal) (hz : allQ Q vz) :
    RV Q ((mapLookupL k les).getD vz) ((mapLookup k (eraseEntries les)).getD (erase vz)) := by
  have hl := mapLookupL_sim Q k les h
  cases e : mapLookupL k les with
  | none => rw [hl.2 e]; exact ⟨rfl, hz⟩
  | some lv => rw [(hl.1 lv e).1]; exact ⟨rfl, (hl.1 lv e).2⟩

theorem mapSetL_sim (Q : Prov → Prop) (k v : LVal) (hk : allQ Q k) (hv : allQ Q v) :
    ∀ (les : List (LVal × LVal)), allQE Q les →
    RE Q (mapSetL k v les) (mapSet (erase k) (erase v) (eraseEntries les))
  | [], _ => by
    simp only [mapSetL, mapSet, eraseEntries, RE, allQE, true_and, and_true]
    exact ⟨hk, hv⟩
  | (k', v') :: r, h => by
    simp only [allQE] at h
    have ih := mapSetL_sim Q k v hk hv r h.2.2
    simp only [mapSetL, mapSet, eraseEntries]
    cases hb : (erase k').beq (erase k)
    · simp only [Bool.false_eq_true, ↓reduceIte, RE, eraseEntries, allQE]
      exact ⟨by rw [ih.1], h.1, h.2.1, ih.2⟩
    · simp only [↓reduceIte, RE, eraseEntries, allQE, true_and]
      exact ⟨h.1, hv, h.2.2⟩

/-! ### the loop combinators -/

theorem structLoopL_sim (Q : Prov → Prop)
    (rdL : Nat → WT → Nat → Bytes → List LVal → Res (List LVal × Nat))
    (rd : Nat → WT → Bytes → List Val → Res (List Val × Nat))
    (h : ∀ idx wt base body acc, allQL Q acc →
      Sim (RL Q) (rdL idx wt base body acc) (rd idx wt body (eraseList acc))) :
    ∀ (fuel base : Nat) (data : Bytes) (off : Nat) (acc : List LVal), allQL Q acc →
      Sim (RL Q) (structLoopL rdL fuel base data off acc) (structLoop rd fuel data off (eraseList acc))
  | 0, _, _, _, _, _ => by simp only [structLoopL, structLoop]; exact Sim.hang
  | fuel+1, base, data, off, acc, hacc => by
    simp only [structLoopL, structLoop]
    by_cases hd : data.isEmpty = true
    · simp only [hd, ↓reduceIte]; exact Sim.ok ⟨rfl, hacc⟩
    · simp only [hd, Bool.false_eq_true, ↓reduceIte]
      cases ht : readTag data with
      | none => exact Sim.err
      | some x =>
        obtain ⟨wt, idx, n⟩ := x
        simp only []
        have hs := h idx wt (base + n) (data.drop n) acc hacc
        generalize rdL idx wt (base + n) (data.drop n) acc = a at hs ⊢
        generalize rd idx wt (data.drop n) (eraseList acc) = b at hs ⊢
        cases hs with
        | ok hr => obtain ⟨rfl, ha⟩ := hr; exact structLoopL_sim Q rdL rd h fuel _ _ _ _ ha
        | err => exact Sim.err
        | panic => exact Sim.panic
        | hang => exact Sim.hang

theorem elemLoopL_sim (Q : Prov → Prop) (rdL : Nat → Bytes → Res (LVal × Nat))
    (rd : Bytes → Res (Val × Nat)) (h : ∀ base b, Sim (RV Q) (rdL base b) (rd b)) :
    ∀ (count base : Nat) (data : Bytes), Sim (RL Q) (elemLoopL rdL count base data) (elemLoop rd count data)
  | 0, _, _ => by simp only [elemLoopL, elemLoop]; exact Sim.ok ⟨rfl, trivial⟩
  | c+1, base, data => by
    simp only [elemLoopL, elemLoop]
    cases hr : readU data with
    | none => exact Sim.err
    | some x =>
      obtain ⟨s, n⟩ := x
      simp only []
      by_cases hs : s > (data.drop n).length
      · simp only [hs, ↓reduceIte]; exact Sim.err
      · simp only [hs, ↓reduceIte]
        have h1 := h (base + n) ((data.drop n).take s)
        generalize rdL (base + n) ((data.drop n).take s) = a at h1 ⊢
        generalize rd ((data.drop n).take s) = b at h1 ⊢
        cases h1 with
        | ok hr1 =>
          rename_i lv v m
          have h2 := elemLoopL_sim Q rdL rd h c (base + (n + m)) (data.drop (n + m))
          simp only []
          generalize elemLoopL rdL c (base + (n + m)) (data.drop (n + m)) = a2 at h2 ⊢
          generalize elemLoop rd c (data.drop (n + m)) = b2 at h2 ⊢
          cases h2 with
          | ok hr2 =>
            refine Sim.ok ⟨?_, ?_⟩
            · simp only [eraseList, hr1.1, hr2.1]
            · simp only [allQL]; exact ⟨hr1.2, hr2.2⟩
          | err => exact Sim.err
          | panic => exact Sim.panic
          | hang => exact Sim.hang
        | err => exact Sim.err
        | panic => exact Sim.panic
        | hang => exact Sim.hang

theorem readNL_sim (Q : Prov → Prop) (rdL : Nat → Bytes → Res (LVal × Nat))
    (rd : Bytes → Res (Val × Nat)) (h : ∀ base b, Sim (RV Q) (rdL base b) (rd b)) :
    ∀ (count base : Nat) (data : Bytes), Sim (RL Q) (readNL rdL count base data) (readN rd count data)
  | 0, _, _ => by simp only [readNL, readN]; exact Sim.ok ⟨rfl, trivial⟩
  | c+1, base, data => by
    simp only [readNL, readN]
    have h1 := h base data
    generalize rdL base data = a at h1 ⊢
    generalize rd data = b at h1 ⊢
    cases h1 with
    | ok hr1 =>
      rename_i lv v m
      have h2 := readNL_sim Q rdL rd h c (base + m) (data.drop m)
      simp only []
      generalize readNL rdL c (base + m) (data.drop m) = a2 at h2 ⊢
      generalize readN rd c (data.drop m) = b2 at h2 ⊢
      cases h2 with
      | ok hr2 =>
        refine Sim.ok ⟨?_, ?_⟩
        · simp only [eraseList, hr1.1, hr2.1]
        · simp only [allQL]; exact ⟨hr1.2, hr2.2⟩
      | err => exact Sim.err
      | panic => exact Sim.panic
      | hang => exact Sim.hang
    | err => exact Sim.err
    | panic => exact Sim.panic
    | hang => exact Sim.hang

theorem mapLoopL_sim (Q : Prov → Prop)
    (rdL : Nat → Bytes → List (LVal × LVal) → Res (List (LVal × LVal) × Nat))
    (rd : Bytes → List (Val × Val) → Res (List (Val × Val) × Nat))
    (h : ∀ base b les, allQE Q les → Sim (RE Q) (rdL base b les) (rd b (eraseEntries les))) :
    ∀ (count base : Nat) (data : Bytes) (off : Nat) (les : List (LVal × LVal)), allQE Q les →
      Sim (RE Q) (mapLoopL rdL count base data off les) (mapLoop rd count data off (eraseEntries les))
  | 0, _, _, _, _, hles => by simp only [mapLoopL, mapLoop]; exact Sim.ok ⟨rfl, hles⟩
  | c+1, base, data, off, les, hles => by
    simp only [mapLoopL, mapLoop]
    cases hr : readU data with
    | none => exact Sim.err
    | some x =>
      obtain ⟨el, n⟩ := x
      simp only []
      by_cases hs : el > (data.drop n).length
      · simp only [hs, ↓reduceIte]; exact Sim.err
      · simp only [hs, ↓reduceIte]
        have h1 := h (base + n) ((data.drop n).take el) les hles
        generalize rdL (base + n) ((data.drop n).take el) les = a at h1 ⊢
        generalize rd ((data.drop n).take el) (eraseEntries les) = b at h1 ⊢
        cases h1 with
        | ok hr1 => obtain ⟨rfl, ha⟩ := hr1; exact mapLoopL_sim Q rdL rd h c _ _ _ _ ha
        | err => exact Sim.err
        | panic => exact Sim.panic
        | hang => exact Sim.hang

theorem readMapEntryL_sim (Q : Prov → Prop)
    (rdKL : WT → Nat → Bytes → Res (LVal × Nat)) (rdVL : WT → Nat → Bytes → LVal → Res (LVal × Nat))
    (rdK : WT → Bytes → Res (Val × Nat)) (rdV : WT → Bytes → Val → Res (Val × Nat))
    (kz vz : LVal) (hkz : allQ Q kz) (hvz : allQ Q vz)
    (hK : ∀ wt base b, Sim (RV Q) (rdKL wt base b) (rdK wt b))
    (hV : ∀ wt base b s, allQ Q s → Sim (RV Q) (rdVL wt base b s) (rdV wt b (erase s)))
    (base : Nat) (d : Bytes) (les : List (LVal × LVal)) (hles : allQE Q les) :
    Sim (RE Q) (readMapEntryL rdKL rdVL kz vz base d les)
      (readMapEntry rdK rdV (erase kz) (erase vz) d (eraseEntries les)) := by
  unfold readMapEntryL readMapEntry
  cases readTagAndLength d with
  | none => exact Sim.err
  | some x =>
    obtain ⟨wt, idx, off, fl⟩ := x
    simp only []
    by_cases hi : idx = 1
    · simp only [hi, ↓reduceIte]
      have h1 := hK wt (base + off) ((d.drop off).take fl)
      generalize rdKL wt (base + off) ((d.drop off).take fl) = a at h1 ⊢
      generalize rdK wt ((d.drop off).take fl) = b at h1 ⊢
      cases h1 with
      | ok hr =>
        rename_i k kv n
        obtain ⟨rfl, hk⟩ := hr
        simp only []
        have hslot := slot_sim Q (erase k) les hles vz hvz
        generalize (mapLookupL (erase k) les).getD vz = slot at hslot ⊢
        obtain ⟨hse, hsq⟩ := hslot
        rw [← hse]
        by_cases hc : off + n < d.length ∨ 1 = 2
        · simp only [hc, ↓reduceIte]
          cases readTagAndLength (d.drop (off + n)) with
          | none => exact Sim.err
          | some x =>
            obtain ⟨wt2, i2, off2, fl2⟩ := x
            simp only []
            have h1 := hV wt2 (base + (off + n + off2)) ((d.drop (off + n + off2)).take fl2) slot hsq
            generalize rdVL wt2 (base + (off + n + off2)) ((d.drop (off + n + off2)).take fl2) slot = a at h1 ⊢
            generalize rdV wt2 ((d.drop (off + n + off2)).take fl2) (erase slot) = b at h1 ⊢
            cases h1 with
            | ok hr => obtain ⟨rfl, hv⟩ := hr; exact Sim.ok (mapSetL_sim Q k _ hk hv les hles)
            | err => exact Sim.err
            | panic => exact Sim.panic
            | hang => exact Sim.hang
        · simp only [hc, ↓reduceIte]
          exact Sim.ok (mapSetL_sim Q k vz hk hvz les hles)
      | err => exact Sim.err
      | panic => exact Sim.panic
      | hang => exact Sim.hang
    · simp only [hi, ↓reduceIte]
      have hslot := slot_sim Q (erase kz) les hles vz hvz
      generalize (mapLookupL (erase kz) les).getD vz = slot at hslot ⊢
      obtain ⟨hse, hsq⟩ := hslot
      rw [← hse]
      have hk := hkz
      generalize kz = k at hk ⊢
      by_cases hc : off < d.length ∨ idx = 2
      · simp only [hc, ↓reduceIte]
        have h1 := hV wt (base + off) ((d.drop off).take fl) slot hsq
        generalize rdVL wt (base + off) ((d.drop off).take fl) slot = a at h1 ⊢
        generalize rdV wt ((d.drop off).take fl) (erase slot) = b at h1 ⊢
        cases h1 with
        | ok hr => obtain ⟨rfl, hv⟩ := hr; exact Sim.ok (mapSetL_sim Q k _ hk hv les hles)
        | err => exact Sim.err
        | panic => exact Sim.panic
        | hang => exact Sim.hang
      · simp only [hc, ↓reduceIte]
        exact Sim.ok (mapSetL_sim Q k vz hk hvz les hles)

/-! ### prior projections

Each wrapper arm of `Ty.read` first projects the prior value with a `match`;
these lemmas restate the projection with a definition of this file (a `match`
written here is a different constant from the one inside `Ty.read`). -/

def ptrPrior (z : Val) : Val → Val
  | .ptr (some x) => x
  | _ => z

def slicePrior : Val → List Val
  | .slice vs => vs
  | _ => []

def structPrior (zs : List Val) : Val → List Val
  | .struct vs => vs
  | _ => zs

def mapPrior : Val → List (Val × Val)
  | .map (some es) => es
  | _ => []

theorem read_ptr_norm (t : Ty) (wt : WT) (d : Bytes) (p : Val) :
    (Ty.ptr t).read wt d p = (Ty.ptr t).read wt d (.ptr (some (ptrPrior t.zero p))) := by
  cases p with
  | ptr o => cases o <;> simp only [Ty.read, ptrPrior]
  | _ => simp only [Ty.read, ptrPrior]

theorem read_lslice_norm (t : Ty) (wt : WT) (d : Bytes) (p : Val) :
    (Ty.lslice t).read wt d p = (Ty.lslice t).read wt d (.slice (slicePrior p)) := by
  cases p <;> simp only [Ty.read, slicePrior]

theorem read_pslice_norm (t : Ty) (wt : WT) (d : Bytes) (p : Val) :
    (Ty.pslice t).read wt d p = (Ty.pslice t).read wt d (.slice (slicePrior p)) := by
  cases p <;> simp only [Ty.read, slicePrior]

theorem read_struct_norm (nm : String) (fs : Fields) (wt : WT) (d : Bytes) (p : Val) :
    (Ty.struct nm fs).read wt d p = (Ty.struct nm fs).read wt d (.struct (structPrior (zeros fs) p)) := by
  cases p <;> simp only [Ty.read, structPrior]

theorem read_pmap_norm (k v : Ty) (wt : WT) (d : Bytes) (p : Val) :
    (Ty.map k v true).read wt d p = (Ty.map k v true).read wt d (.map (some (mapPrior p))) := by
  cases p with
  | map o => cases o <;> simp only [Ty.read, mapPrior]
  | _ => simp only [Ty.read, mapPrior]

theorem read_map_norm (k v : Ty) (wt : WT) (d : Bytes) (p : Val) (hd : d.isEmpty = false) :
    (Ty.map k v false).read wt d p = (Ty.map k v false).read wt d (.map (some (mapPrior p))) := by
  cases p with
  | map o => cases o <;> simp only [Ty.read, mapPrior, hd, Bool.false_eq_true, ↓reduceIte]
  | _ => simp only [Ty.read, mapPrior, hd, Bool.false_eq_true, ↓reduceIte]

theorem ptrPriorL_rv (Q : Prov → Prop) (hQ : Q .fresh) (z : Val) (lp : LVal) (h : allQ Q lp) :
    RV Q (ptrPriorL (lift z) lp) (ptrPrior z (erase lp)) := by
  cases lp with
  | ptr o =>
    cases o with
    | none => simp only [ptrPriorL, erase, ptrPrior]; exact ⟨erase_lift z, allQ_lift Q hQ z⟩
    | some x => simp only [ptrPriorL, erase, ptrPrior]; exact ⟨rfl, by simpa only [allQ] using h⟩
  | map o => cases o <;> simp only [ptrPriorL, erase, ptrPrior] <;> exact ⟨erase_lift z, allQ_lift Q hQ z⟩
  | _ => simp only [ptrPriorL, erase, ptrPrior]; exact ⟨erase_lift z, allQ_lift Q hQ z⟩

theorem slicePriorL_rl (Q : Prov → Prop) (lp : LVal) (h : allQ Q lp) :
    RL Q (slicePriorL lp) (slicePrior (erase lp)) := by
  cases lp with
  | slice vs => simp only [slicePriorL, erase, slicePrior]; exact ⟨rfl, by simpa only [allQ] using h⟩
  | ptr o => cases o <;> simp only [slicePriorL, erase, slicePrior] <;> exact ⟨rfl, trivial⟩
  | map o => cases o <;> simp only [slicePriorL, erase, slicePrior] <;> exact ⟨rfl, trivial⟩
  | _ => simp only [slicePriorL, erase, slicePrior]; exact ⟨rfl, trivial⟩

theorem structPriorL_rl (Q : Prov → Prop) (hQ : Q .fresh) (zs : List Val) (lp : LVal) (h : allQ Q lp) :
    RL Q (structPriorL (liftList zs) lp) (structPrior zs (erase lp)) := by
  cases lp with
  | struct vs => simp only [structPriorL, erase, structPrior]; exact ⟨rfl, by simpa only [allQ] using h⟩
  | ptr o =>
    cases o <;> simp only [structPriorL, erase, structPrior] <;>
      exact ⟨eraseList_liftList zs, allQL_liftList Q hQ zs⟩
  | map o =>
    cases o <;> simp only [structPriorL, erase, structPrior] <;>
      exact ⟨eraseList_liftList zs, allQL_liftList Q hQ zs⟩
  | _ => simp only [structPriorL, erase, structPrior]; exact ⟨eraseList_liftList zs, allQL_liftList Q hQ zs⟩

theorem mapPriorL_re (Q : Prov → Prop) (lp : LVal) (h : allQ Q lp) :
    RE Q (mapPriorL lp) (mapPrior (erase lp)) := by
  cases lp with
  | map o =>
    cases o with
    | none => simp only [mapPriorL, erase, mapPrior]; exact ⟨rfl, trivial⟩
    | some es => simp only [mapPriorL, erase, mapPrior]; exact ⟨rfl, by simpa only [allQ] using h⟩
  | ptr o => cases o <;> simp only [mapPriorL, erase, mapPrior] <;> exact ⟨rfl, trivial⟩
  | _ => simp only [mapPriorL, erase, mapPrior]; exact ⟨rfl, trivial⟩

/-! ### the main induction -/

/-- the policy only hands out labels satisfying `Q`. -/
def Policy.within (pol : Policy) (Q : Prov → Prop) : Prop :=
  ∀ off len, Q (pol.str off len) ∧ Q (pol.istr off len) ∧ Q (pol.bytes off len)

theorem sim_leaf (Q : Prov → Prop) (hQ : Q .fresh) (t : Ty) (wt : WT) (d : Bytes) (p : Val)
    (h : t.read wt d p = t.read wt d (.bool false)) :
    Sim (RV Q) (Res.mapFst lift (t.read wt d (.bool false))) (t.read wt d p) := by
  rw [h]; exact sim_lift Q hQ _

mutual
theorem readLP_sim (pol : Policy) (Q : Prov → Prop) (hQ : Q .fresh) (hp : pol.within Q) :
    (t : Ty) → ∀ (wt : WT) (base : Nat) (d : Bytes) (lp : LVal), allQ Q lp →
      Sim (RV Q) (readLP pol t wt base d lp) (t.read wt d (erase lp))
  | .bool => by
    intro wt base d lp _; simp only [readLP]
    exact sim_leaf Q hQ _ wt d _ (by simp only [Ty.read])
  | .int w => by
    intro wt base d lp _; simp only [readLP]
    exact sim_leaf Q hQ _ wt d _ (by simp only [Ty.read])
  | .uint w => by
    intro wt base d lp _; simp only [readLP]
    exact sim_leaf Q hQ _ wt d _ (by simp only [Ty.read])
  | .flat w => by
    intro wt base d lp _; simp only [readLP]
    exact sim_leaf Q hQ _ wt d _ (by simp only [Ty.read])
  | .f32 => by
    intro wt base d lp _; simp only [readLP]
    exact sim_leaf Q hQ _ wt d _ (by simp only [Ty.read])
  | .f64 => by
    intro wt base d lp _; simp only [readLP]
    exact sim_leaf Q hQ _ wt d _ (by simp only [Ty.read])
  | .time c => by
    intro wt base d lp _; simp only [readLP]
    exact sim_leaf Q hQ _ wt d _ (by simp only [Ty.read])
  | .str b => by
    intro wt base d lp _
    cases b <;> simp only [readLP, Ty.read]
    · exact Sim.ok ⟨by simp only [erase], by simp only [allQ]; exact (hp base d.length).1⟩
    · exact Sim.ok ⟨by simp only [erase], by simp only [allQ]; exact (hp base d.length).2.1⟩
  | .bytes => by
    intro wt base d lp _
    simp only [readLP, Ty.read]
    exact Sim.ok ⟨by simp only [erase], by simp only [allQ]; exact (hp base d.length).2.2⟩
  | .ptr t => by
    intro wt base d lp hlp
    rw [read_ptr_norm]
    simp only [readLP, Ty.read]
    obtain ⟨he, hq⟩ := ptrPriorL_rv Q hQ t.zero lp hlp
    have ih := readLP_sim pol Q hQ hp t wt base d _ hq
    rw [he] at ih
    generalize readLP pol t wt base d (ptrPriorL (lift t.zero) lp) = a at ih ⊢
    generalize t.read wt d (ptrPrior t.zero (erase lp)) = b at ih ⊢
    cases ih with
    | ok hr => exact Sim.ok ⟨by simp only [erase, hr.1], by simp only [allQ]; exact hr.2⟩
    | err => exact Sim.err
    | panic => exact Sim.panic
    | hang => exact Sim.hang
  | .vslice t => by
    intro wt base d lp _
    simp only [readLP, Ty.read]
    cases countVarints (d.length + 1) d 0 with
    | ok count =>
      simp only []
      have hrd : ∀ base b, Sim (RV Q) ((fun b x => readLP pol t .varint b x (lift t.zero)) base b)
          ((fun b => t.read .varint b t.zero) b) := by
        intro base b
        have := readLP_sim pol Q hQ hp t .varint base b (lift t.zero) (allQ_lift Q hQ _)
        rw [erase_lift] at this; exact this
      have h := readNL_sim Q _ _ hrd count base d
      generalize readNL (fun b x => readLP pol t .varint b x (lift t.zero)) count base d = a at h ⊢
      generalize readN (fun b => t.read .varint b t.zero) count d = b at h ⊢
      cases h with
      | ok hr => exact Sim.ok ⟨by simp only [erase, hr.1], by simp only [allQ]; exact hr.2⟩
      | err => exact Sim.err
      | panic => exact Sim.panic
      | hang => exact Sim.hang
    | err => exact Sim.err
    | panic => exact Sim.panic
    | hang => exact Sim.hang
  | .fslice t => by
    intro wt base d lp _
    simp only [readLP, Ty.read]
    by_cases hz : t.size t.zero [] = 0
    · simp only [hz, ↓reduceIte]; exact Sim.panic
    · simp only [hz, ↓reduceIte]
      have hrd : ∀ base b, Sim (RV Q) ((fun b x => readLP pol t t.wt b x (lift t.zero)) base b)
          ((fun b => t.read t.wt b t.zero) b) := by
        intro base b
        have := readLP_sim pol Q hQ hp t t.wt base b (lift t.zero) (allQ_lift Q hQ _)
        rw [erase_lift] at this; exact this
      have h := readNL_sim Q _ _ hrd (d.length / t.size t.zero []) base d
      generalize readNL (fun b x => readLP pol t t.wt b x (lift t.zero)) (d.length / t.size t.zero []) base d = a at h ⊢
      generalize readN (fun b => t.read t.wt b t.zero) (d.length / t.size t.zero []) d = b at h ⊢
      cases h with
      | ok hr => exact Sim.ok ⟨by simp only [erase, hr.1], by simp only [allQ]; exact hr.2⟩
      | err => exact Sim.err
      | panic => exact Sim.panic
      | hang => exact Sim.hang
  | .lslice t => by
    intro wt base d lp hlp
    rw [read_lslice_norm]
    simp only [readLP, Ty.read]
    obtain ⟨hpe, hpq⟩ := slicePriorL_rl Q lp hlp
    by_cases hw : wt = .len
    · simp only [hw, ↓reduceIte]
      have ih := readLP_sim pol Q hQ hp t .len base d (lift t.zero) (allQ_lift Q hQ _)
      rw [erase_lift] at ih
      generalize readLP pol t .len base d (lift t.zero) = a at ih ⊢
      generalize t.read .len d t.zero = b at ih ⊢
      cases ih with
      | ok hr =>
        refine Sim.ok ⟨?_, ?_⟩
        · simp only [erase, eraseList_append, eraseList, hpe, hr.1]
        · simp only [allQ]; exact allQL_append Q _ _ hpq ⟨hr.2, trivial⟩
      | err => exact Sim.err
      | panic => exact Sim.panic
      | hang => exact Sim.hang
    · simp only [hw, ↓reduceIte]
      by_cases h1 : (readVarUint d).2 < 0
      · simp only [h1, ↓reduceIte]; exact Sim.err
      · simp only [h1, ↓reduceIte]
        by_cases h2 : (readVarUint d).1 > d.length - (readVarUint d).2.toNat
        · simp only [h2, ↓reduceIte]; exact Sim.err
        · simp only [h2, ↓reduceIte]
          have hrd : ∀ base b, Sim (RV Q) ((fun b x => readLP pol t .len b x (lift t.zero)) base b)
              ((fun b => t.read .len b t.zero) b) := by
            intro base b
            have := readLP_sim pol Q hQ hp t .len base b (lift t.zero) (allQ_lift Q hQ _)
            rw [erase_lift] at this; exact this
          have h := elemLoopL_sim Q _ _ hrd (readVarUint d).1 (base + (readVarUint d).2.toNat)
            (d.drop (readVarUint d).2.toNat)
          generalize elemLoopL (fun b x => readLP pol t .len b x (lift t.zero)) (readVarUint d).1
            (base + (readVarUint d).2.toNat) (d.drop (readVarUint d).2.toNat) = a at h ⊢
          generalize elemLoop (fun b => t.read .len b t.zero) (readVarUint d).1
            (d.drop (readVarUint d).2.toNat) = b at h ⊢
          cases h with
          | ok hr => exact Sim.ok ⟨by simp only [erase, hr.1], by simp only [allQ]; exact hr.2⟩
          | err => exact Sim.err
          | panic => exact Sim.panic
          | hang => exact Sim.hang
  | .pslice t => by
    intro wt base d lp hlp
    rw [read_pslice_norm]
    simp only [readLP, Ty.read]
    obtain ⟨hpe, hpq⟩ := slicePriorL_rl Q lp hlp
    have ih := readLP_sim pol Q hQ hp t .len base d (lift t.zero) (allQ_lift Q hQ _)
    rw [erase_lift] at ih
    generalize readLP pol t .len base d (lift t.zero) = a at ih ⊢
    generalize t.read .len d t.zero = b at ih ⊢
    cases ih with
    | ok hr =>
      refine Sim.ok ⟨?_, ?_⟩
      · simp only [erase, eraseList_append, eraseList, hpe, hr.1]
      · simp only [allQ]; exact allQL_append Q _ _ hpq ⟨hr.2, trivial⟩
    | err => exact Sim.err
    | panic => exact Sim.panic
    | hang => exact Sim.hang
  | .struct nm fs => by
    intro wt base d lp hlp
    rw [read_struct_norm]
    simp only [readLP, Ty.read]
    obtain ⟨hpe, hpq⟩ := structPriorL_rl Q hQ (zeros fs) lp hlp
    have hrd : ∀ idx wt base body acc, allQL Q acc →
        Sim (RL Q) ((fun idx wt b body acc => readFieldL pol fs acc idx wt b body) idx wt base body acc)
          ((fun idx wt body acc => readField fs acc idx wt body) idx wt body (eraseList acc)) :=
      fun idx wt base body acc hacc => readFieldL_sim pol Q hQ hp fs acc idx wt base body hacc
    have h := structLoopL_sim Q (fun idx wt b body acc => readFieldL pol fs acc idx wt b body)
      (fun idx wt body acc => readField fs acc idx wt body) hrd (d.length + 1) base d 0 _ hpq
    rw [hpe] at h
    generalize structLoopL (fun idx wt b body acc => readFieldL pol fs acc idx wt b body)
      (d.length + 1) base d 0 (structPriorL (liftList (zeros fs)) lp) = a at h ⊢
    generalize structLoop (fun idx wt body acc => readField fs acc idx wt body)
      (d.length + 1) d 0 (structPrior (zeros fs) (erase lp)) = b at h ⊢
    cases h with
    | ok hr => exact Sim.ok ⟨by simp only [erase, hr.1], by simp only [allQ]; exact hr.2⟩
    | err => exact Sim.err
    | panic => exact Sim.panic
    | hang => exact Sim.hang
  | .map k v false => by
    intro wt base d lp hlp
    by_cases hd : d.isEmpty = true
    · simp only [readLP, Ty.read, hd, ↓reduceIte]; exact Sim.ok ⟨rfl, hlp⟩
    · have hd' : d.isEmpty = false := by simpa using hd
      rw [read_map_norm k v wt d _ hd']
      simp only [readLP, Ty.read, hd', Bool.false_eq_true, ↓reduceIte]
      cases readU d with
      | none => exact Sim.err
      | some x =>
        obtain ⟨count, n⟩ := x
        simp only []
        by_cases hc : count > d.length - n
        · simp only [hc, ↓reduceIte]; exact Sim.err
        · simp only [hc, ↓reduceIte]
          obtain ⟨hpe, hpq⟩ := mapPriorL_re Q lp hlp
          have hK : ∀ wt base b, Sim (RV Q) ((fun wt b x => readLP pol k wt b x (lift k.zero)) wt base b)
              ((fun wt b => k.read wt b k.zero) wt b) := by
            intro wt base b
            have := readLP_sim pol Q hQ hp k wt base b (lift k.zero) (allQ_lift Q hQ _)
            rw [erase_lift] at this; exact this
          have hV : ∀ wt base b s, allQ Q s →
              Sim (RV Q) ((fun wt b x s => readLP pol v wt b x s) wt base b s)
                ((fun wt b s => v.read wt b s) wt b (erase s)) :=
            fun wt base b s hs => readLP_sim pol Q hQ hp v wt base b s hs
          have hE := readMapEntryL_sim Q _ _ _ _ (lift k.zero) (lift v.zero)
            (allQ_lift Q hQ _) (allQ_lift Q hQ _) hK hV
          rw [erase_lift, erase_lift] at hE
          have h := mapLoopL_sim Q _ _ hE count (base + n) (d.drop n) n _ hpq
          rw [hpe] at h
          generalize mapLoopL (readMapEntryL (fun wt b x => readLP pol k wt b x (lift k.zero))
            (fun wt b x s => readLP pol v wt b x s) (lift k.zero) (lift v.zero))
            count (base + n) (d.drop n) n (mapPriorL lp) = a at h ⊢
          generalize mapLoop (readMapEntry (fun wt b => k.read wt b k.zero) (fun wt b s => v.read wt b s)
            k.zero v.zero) count (d.drop n) n (mapPrior (erase lp)) = b at h ⊢
          cases h with
          | ok hr => exact Sim.ok ⟨by simp only [erase, hr.1], by simp only [allQ]; exact hr.2⟩
          | err => exact Sim.err
          | panic => exact Sim.panic
          | hang => exact Sim.hang
  | .map k v true => by
    intro wt base d lp hlp
    rw [read_pmap_norm]
    simp only [readLP, Ty.read]
    obtain ⟨hpe, hpq⟩ := mapPriorL_re Q lp hlp
    have hK : ∀ wt base b, Sim (RV Q) ((fun wt b x => readLP pol k wt b x (lift k.zero)) wt base b)
        ((fun wt b => k.read wt b k.zero) wt b) := by
      intro wt base b
      have := readLP_sim pol Q hQ hp k wt base b (lift k.zero) (allQ_lift Q hQ _)
      rw [erase_lift] at this; exact this
    have hV : ∀ wt base b s, allQ Q s →
        Sim (RV Q) ((fun wt b x s => readLP pol v wt b x s) wt base b s)
          ((fun wt b s => v.read wt b s) wt b (erase s)) :=
      fun wt base b s hs => readLP_sim pol Q hQ hp v wt base b s hs
    have h := readMapEntryL_sim Q _ _ _ _ (lift k.zero) (lift v.zero)
      (allQ_lift Q hQ _) (allQ_lift Q hQ _) hK hV base d _ hpq
    rw [erase_lift, erase_lift, hpe] at h
    generalize readMapEntryL (fun wt b x => readLP pol k wt b x (lift k.zero))
      (fun wt b x s => readLP pol v wt b x s) (lift k.zero) (lift v.zero) base d (mapPriorL lp) = a at h ⊢
    generalize readMapEntry (fun wt b => k.read wt b k.zero) (fun wt b s => v.read wt b s)
      k.zero v.zero d (mapPrior (erase lp)) = b at h ⊢
    cases h with
    | ok hr => exact Sim.ok ⟨by simp only [erase, hr.1], by simp only [allQ]; exact hr.2⟩
    | err => exact Sim.err
    | panic => exact Sim.panic
    | hang => exact Sim.hang
theorem readFieldL_sim (pol : Policy) (Q : Prov → Prop) (hQ : Q .fresh) (hp : pol.within Q) :
    (fs : Fields) → ∀ (acc : List LVal) (idx : Nat) (wt : WT) (base : Nat) (body : Bytes), allQL Q acc →
      Sim (RL Q) (readFieldL pol fs acc idx wt base body) (readField fs (eraseList acc) idx wt body)
  | [] => by
    intro acc idx wt base body _
    simp only [readFieldL, readField]
    cases skip body wt with
    | ok n => exact Sim.ok ⟨rfl, trivial⟩
    | err => exact Sim.err
    | panic => exact Sim.panic
    | hang => exact Sim.hang
  | (i, nm, t) :: r => by
    intro acc idx wt base body hacc
    cases acc with
    | nil => simp only [readFieldL, readField, eraseList]; exact Sim.panic
    | cons a as =>
      simp only [allQL] at hacc
      simp only [readFieldL, readField, eraseList]
      by_cases hi : i = idx
      · simp only [hi, ↓reduceIte]
        by_cases hw : wt = .len
        · simp only [hw, ↓reduceIte]
          cases readU body with
          | none => exact Sim.err
          | some x =>
            obtain ⟨l, n⟩ := x
            simp only []
            by_cases hl : l > (body.drop n).length
            · simp only [hl, ↓reduceIte]; exact Sim.err
            · simp only [hl, ↓reduceIte]
              have ih := readLP_sim pol Q hQ hp t .len (base + n) ((body.drop n).take l) a hacc.1
              generalize readLP pol t .len (base + n) ((body.drop n).take l) a = x at ih ⊢
              generalize t.read .len ((body.drop n).take l) (erase a) = y at ih ⊢
              cases ih with
              | ok hr =>
                simp only [Res.mapFst, Res.addN]
                exact Sim.ok ⟨by simp only [eraseList, hr.1], by simp only [allQL]; exact ⟨hr.2, hacc.2⟩⟩
              | err => exact Sim.err
              | panic => exact Sim.panic
              | hang => exact Sim.hang
        · simp only [hw, ↓reduceIte]
          have ih := readLP_sim pol Q hQ hp t wt base body a hacc.1
          generalize readLP pol t wt base body a = x at ih ⊢
          generalize t.read wt body (erase a) = y at ih ⊢
          cases ih with
          | ok hr =>
            simp only [Res.mapFst]
            exact Sim.ok ⟨by simp only [eraseList, hr.1], by simp only [allQL]; exact ⟨hr.2, hacc.2⟩⟩
          | err => exact Sim.err
          | panic => exact Sim.panic
          | hang => exact Sim.hang
      · simp only [hi, ↓reduceIte]
        have ih := readFieldL_sim pol Q hQ hp r as idx wt base body hacc.2
        generalize readFieldL pol r as idx wt base body = x at ih ⊢
        generalize readField r (eraseList as) idx wt body = y at ih ⊢
        cases ih with
        | ok hr =>
          simp only [Res.mapFst]
          exact Sim.ok ⟨by simp only [eraseList, hr.1], by simp only [allQL]; exact ⟨hacc.1, hr.2⟩⟩
        | err => exact Sim.err
        | panic => exact Sim.panic
        | hang => exact Sim.hang
end

/-! ### consequences -/

theorem sim_erase {Q : Prov → Prop} {a : Res (LVal × Nat)} {b : Res (Val × Nat)} (h : Sim (RV Q) a b) :
    Res.mapFst erase a = b := by
  cases h with
  | ok hr => simp only [Res.mapFst, hr.1]
  | err => rfl
  | panic => rfl
  | hang => rfl

theorem sim_allQ {Q : Prov → Prop} {a : Res (LVal × Nat)} {b : Res (Val × Nat)} (h : Sim (RV Q) a b)
    {lv : LVal} {n : Nat} (e : a = .ok (lv, n)) : allQ Q lv := by
  cases h with
  | ok hr => injection e with e; injection e with e1 e2; subst e1; exact hr.2
  | err => cases e
  | panic => cases e
  | hang => cases e

theorem within_true (pol : Policy) : pol.within (fun _ => True) := fun _ _ => ⟨trivial, trivial, trivial⟩

theorem goPolicy_within_fresh : goPolicy.within (· = .fresh) := fun _ _ => ⟨rfl, rfl, rfl⟩

/-- the labelled decoder refines the model decoder, under every leaf policy:
same outcome, same value, same consumed count. -/
theorem erase_readLP (pol : Policy) (t : Ty) (wt : WT) (base : Nat) (d : Bytes) (lp : LVal) :
    Res.mapFst erase (readLP pol t wt base d lp) = t.read wt d (erase lp) :=
  sim_erase (readLP_sim pol (fun _ => True) trivial (within_true pol) t wt base d lp (allQ_true lp))

/-- every label in the decoded value comes from the policy, from the prior value,
or is `fresh`. -/
theorem readLP_labels (pol : Policy) (Q : Prov → Prop) (hQ : Q .fresh) (hp : pol.within Q)
    (t : Ty) (wt : WT) (base : Nat) (d : Bytes) (lp : LVal) (hlp : allQ Q lp) (lv : LVal) (n : Nat)
    (e : readLP pol t wt base d lp = .ok (lv, n)) : allQ Q lv :=
  sim_allQ (readLP_sim pol Q hQ hp t wt base d lp hlp) e

theorem erase_unmarshalLP (pol : Policy) (t : Ty) (d : Bytes) (lp : LVal) :
    Res.map erase (unmarshalLP pol t d lp) = unmarshal t d (erase lp) := by
  unfold unmarshalLP unmarshal
  rw [← erase_readLP pol t t.wt 0 d lp]
  cases readLP pol t t.wt 0 d lp with
  | ok a => obtain ⟨v, n⟩ := a; rfl
  | err => rfl
  | panic => rfl
  | hang => rfl

theorem unmarshalLP_labels (pol : Policy) (Q : Prov → Prop) (hQ : Q .fresh) (hp : pol.within Q)
    (t : Ty) (d : Bytes) (lp : LVal) (hlp : allQ Q lp) (lv : LVal)
    (e : unmarshalLP pol t d lp = .ok lv) : allQ Q lv := by
  unfold unmarshalLP at e
  cases h : readLP pol t t.wt 0 d lp with
  | ok a =>
    obtain ⟨v, n⟩ := a
    rw [h] at e
    injection e with e; subst e
    exact readLP_labels pol Q hQ hp t t.wt 0 d lp hlp v n h
  | err => rw [h] at e; cases e
  | panic => rw [h] at e; cases e
  | hang => rw [h] at e; cases e

end Alias
