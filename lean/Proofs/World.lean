import Plenc.World
/-
  Proofs.World — lemmas behind C17.

  Part A: the builder (`build` / `buildNamed` / `buildFields`) and the
  registration list: a registered `(type, tag)` wins at every call site, defined
  types fall back to their kind, the two options act only at their own sites.
  Part B: the multi-instance machine `World.step`/`World.run`: an instance
  evolves only by the ops addressed to it.
-/
namespace World

/-! ## Part A — the builder -/

/-! ### the registration list -/

/-- `(n, tag, c)` is the LAST registration of the key `(n, tag)`: nothing after
it in the list has the same key. -/
def LastReg (cfg : Cfg) (n tag : String) (c : Ty) : Prop :=
  ∃ pre post, cfg.custom = pre ++ (n, tag, c) :: post ∧ ∀ e ∈ post, ¬ (e.1 = n ∧ e.2.1 = tag)

/-- no registration at all under the key `(n, tag)`. -/
def Unregistered (cfg : Cfg) (n tag : String) : Prop :=
  ∀ e ∈ cfg.custom, ¬ (e.1 = n ∧ e.2.1 = tag)

theorem customLoad_of_last {cfg : Cfg} {d : TyDef} {n tag : String} {c : Ty}
    (hn : d.regName = some n) (h : LastReg cfg n tag c) : customLoad cfg d tag = some c := by
  obtain ⟨pre, post, hc, hp⟩ := h
  unfold customLoad
  rw [hn, hc]
  simp only [List.reverse_append, List.reverse_cons, List.append_assoc, List.find?_append]
  have : post.reverse.find? (fun e => e.1 == n && e.2.1 == tag) = none := by
    rw [List.find?_eq_none]
    intro e he
    have := hp e (List.mem_reverse.mp he)
    simpa using this
  simp [this]

theorem customLoad_none_of_unregistered {cfg : Cfg} {d : TyDef} {n tag : String}
    (hn : d.regName = some n) (h : Unregistered cfg n tag) : customLoad cfg d tag = none := by
  unfold customLoad
  rw [hn]
  simp only [Option.map_eq_none_iff, List.find?_eq_none]
  intro e he
  have := h e (List.mem_reverse.mp he)
  simpa using this

theorem customLoad_none_of_regName {cfg : Cfg} {d : TyDef} {tag : String}
    (hn : d.regName = none) : customLoad cfg d tag = none := by
  unfold customLoad
  rw [hn]

/-- a hit comes from a registration that is the last one of its key. -/
theorem last_of_customLoad {cfg : Cfg} {d : TyDef} {tag : String} {c : Ty}
    (h : customLoad cfg d tag = some c) : ∃ n, d.regName = some n ∧ LastReg cfg n tag c := by
  unfold customLoad at h
  cases hn : d.regName with
  | none => rw [hn] at h; cases h
  | some n =>
    rw [hn] at h
    refine ⟨n, rfl, ?_⟩
    simp only [Option.map_eq_some_iff] at h
    obtain ⟨e, he, hec⟩ := h
    obtain ⟨hp, as, bs, hl, hbs⟩ := List.find?_eq_some_iff_append.mp he
    have hcust : cfg.custom = bs.reverse ++ e :: as.reverse := by
      have := congrArg List.reverse hl
      simpa using this
    obtain ⟨en, et, ec⟩ := e
    simp only [Bool.and_eq_true, beq_iff_eq] at hp
    obtain ⟨h1, h2⟩ := hp
    subst h1 h2
    simp only at hec
    subst hec
    refine ⟨bs.reverse, as.reverse, hcust, ?_⟩
    intro x hx
    have := hbs x (List.mem_reverse.mp hx)
    intro hh
    simp [hh.1, hh.2] at this

/-- registering `(n, tag, c)` makes it the last registration of its key. -/
theorem lastReg_register (cfg : Cfg) (n tag : String) (c : Ty) :
    LastReg (cfgRegister cfg n tag c) n tag c :=
  ⟨cfg.custom, [], rfl, by simp⟩

/-- a registration under another key leaves a last registration in place. -/
theorem lastReg_register_other {cfg : Cfg} {n tag : String} {c : Ty} (n' tag' : String) (c' : Ty)
    (hne : ¬ (n' = n ∧ tag' = tag)) (h : LastReg cfg n tag c) :
    LastReg (cfgRegister cfg n' tag' c') n tag c := by
  obtain ⟨pre, post, hc, hp⟩ := h
  refine ⟨pre, post ++ [(n', tag', c')], by simp [cfgRegister, hc], ?_⟩
  intro e he
  rcases List.mem_append.mp he with h1 | h1
  · exact hp e h1
  · simp only [List.mem_singleton] at h1
    subst h1
    exact hne

/-! ### value position: `registry.Load` comes first -/

/-- **registered wins, as a value** (`CodecForTypeRegistry` starts with
`registry.Load(typ, tag)`): whatever the kind of the type. -/
theorem build_of_customLoad {cfg : Cfg} {d : TyDef} {tag : String} {c : Ty}
    (h : customLoad cfg d tag = some c) : build cfg d tag = .ok c := by
  cases d with
  | basic b => rw [build]; simp only [regLoad, h]
  | time => rw [build]; simp only [regLoad, h]
  | ext n => rw [build]; simp only [regLoad, h]
  | named n t => rw [build]; simp only [h]
  | ptr t => simp [customLoad, TyDef.regName] at h
  | slice t => rw [build]; simp only [regLoad, h]
  | map k v => simp [customLoad, TyDef.regName] at h
  | struct name fs => rw [build]; simp only [h]
  | bad k => simp [customLoad, TyDef.regName] at h

/-- user registrations shadow the defaults in `registry.Load`. -/
theorem regLoad_of_customLoad {cfg : Cfg} {d : TyDef} {tag : String} {c : Ty}
    (h : customLoad cfg d tag = some c) : regLoad cfg d tag = some c := by
  simp only [regLoad, h]

/-! ### the recursive call sites of `build` -/

/-- pointer target: `CodecForTypeRegistry(registry, typ.Elem(), tag)` — the
pointer's tag is passed down. -/
theorem build_ptr_registered {cfg : Cfg} {d : TyDef} {tag : String} {c : Ty}
    (h : customLoad cfg d tag = some c) (hk : d.kind ≠ .map) :
    build cfg (.ptr d) tag = .ok (.ptr c) := by
  rw [build]; simp only [hk, ↓reduceIte, build_of_customLoad h]

/-- slice element: `CodecForTypeRegistry(registry, subt, "")` — always the empty
tag; the slice's own tag only selects the wrapper. The slice type itself must
miss the registry (it hits only for `[]byte` under "" or under a user
registration of "[]byte"). -/
theorem build_slice_registered {cfg : Cfg} {d : TyDef} {tag : String} {c : Ty}
    (hs : regLoad cfg (.slice d) tag = none)
    (h : customLoad cfg d "" = some c) (hk : d.kind ≠ .map) :
    build cfg (.slice d) tag = sliceWrap cfg tag (decide (d.kind = .ptr)) c := by
  rw [build]; simp only [hs, hk, ↓reduceIte, build_of_customLoad h]

/-- map key: `CodecForTypeRegistry(registry, typ.Key(), "")`. -/
theorem build_map_key_registered {cfg : Cfg} {k v : TyDef} {tag : String} {c vc : Ty}
    (h : customLoad cfg k "" = some c) (hk : v.kind ≠ .map) (hv : build cfg v "" = .ok vc) :
    build cfg (.map k v) tag = .ok (.map c vc (tag == "proto")) := by
  rw [build]; simp only [hk, ↓reduceIte, build_of_customLoad h, hv]

/-- map value: `CodecForTypeRegistry(registry, typ.Elem(), "")`. -/
theorem build_map_val_registered {cfg : Cfg} {k v : TyDef} {tag : String} {c kc : Ty}
    (h : customLoad cfg v "" = some c) (hk : v.kind ≠ .map) (hkc : build cfg k "" = .ok kc) :
    build cfg (.map k v) tag = .ok (.map kc c (tag == "proto")) := by
  rw [build]; simp only [hk, ↓reduceIte, build_of_customLoad h, hkc]

/-- a tag the field loop accepts is neither empty nor "-". -/
theorem ptag_ok {ptag idxS : String} {pfx : Option String} {idx : Int}
    (hs : splitComma ptag = (idxS, pfx)) (ha : atoi idxS = some idx) :
    (ptag == "") = false ∧ (ptag == "-") = false := by
  constructor
  · cases hb : ptag == ""
    · rfl
    · have : ptag = "" := by simpa using hb
      subst this
      have : idxS = "" := by
        have := congrArg Prod.fst hs
        simpa [splitComma] using this.symm
      subst this
      simp [atoi] at ha
  · cases hb : ptag == "-"
    · rfl
    · have : ptag = "-" := by simpa using hb
      subst this
      have h1 : splitComma "-" = ("-", none) := by decide
      rw [h1] at hs
      have : idxS = "-" := by
        have := congrArg Prod.fst hs
        simpa using this.symm
      subst this
      have h2 : atoi "-" = none := by decide
      rw [h2] at ha
      cases ha

/-- struct field: `CodecForTypeRegistry(registry, sf.Type, postfix)` — the
field's tag option (the part after the comma) is the tag. -/
theorem buildFields_registered {cfg : Cfg} {g ptag json idxS : String} {pfx : Option String}
    {idx : Int} {d : TyDef} {r : FieldDefs} {c : Ty}
    (hs : splitComma ptag = (idxS, pfx)) (ha : atoi idxS = some idx) (h0 : 0 ≤ idx)
    (hi : pfx ≠ some "intern") (h : customLoad cfg d (pfx.getD "") = some c) :
    buildFields cfg ((g, true, ptag, json, d) :: r) =
      (buildFields cfg r).map fun cfs => (idx.toNat, fieldName g json, c) :: cfs := by
  obtain ⟨e1, e2⟩ := ptag_ok hs ha
  have hi' : (pfx == some "intern") = false := by simpa using hi
  have h0' : ¬ idx < 0 := by omega
  rw [buildFields]
  simp only [e1, e2, hs, ha, hi', h0', Bool.not_true, Bool.false_eq_true, ↓reduceIte,
    build_of_customLoad h]
  cases buildFields cfg r <;> rfl

end World
