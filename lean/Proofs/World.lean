import Plenc.World
/-
  Proofs.World — lemmas behind C17.

  Part A: the builder (`build` / `buildNamed` / `buildFields`) and the
  registration list: a registered `(type, tag)` wins at every call site, defined
  types fall back to their kind, the two options act only at their own sites.
  Part B: the multi-instance machine `World.step`/`World.run`: an instance
  evolves only by the ops addressed to it.
-/
namespace World

/-! ## Part A — the builder -/

/-! ### the registration list -/

/-- `(n, tag, c)` is the LAST registration of the key `(n, tag)`: nothing after
it in the list has the same key. -/
def LastReg (cfg : Cfg) (n tag : String) (c : Ty) : Prop :=
  ∃ pre post, cfg.custom = pre ++ (n, tag, c) :: post ∧ ∀ e ∈ post, ¬ (e.1 = n ∧ e.2.1 = tag)

/-- no registration at all under the key `(n, tag)`. -/
def Unregistered (cfg : Cfg) (n tag : String) : Prop :=
  ∀ e ∈ cfg.custom, ¬ (e.1 = n ∧ e.2.1 = tag)

theorem customLoad_of_last {cfg : Cfg} {d : TyDef} {n tag : String} {c : Ty}
    (hn : d.regName = some n) (h : LastReg cfg n tag c) : customLoad cfg d tag = some c := by
  obtain ⟨pre, post, hc, hp⟩ := h
  unfold customLoad
  rw [hn, hc]
  simp only [List.reverse_append, List.reverse_cons, List.append_assoc, List.find?_append]
  have : post.reverse.find? (fun e => e.1 == n && e.2.1 == tag) = none := by
    rw [List.find?_eq_none]
    intro e he
    have := hp e (List.mem_reverse.mp he)
    simpa using this
  simp [this]

theorem customLoad_none_of_unregistered {cfg : Cfg} {d : TyDef} {n tag : String}
    (hn : d.regName = some n) (h : Unregistered cfg n tag) : customLoad cfg d tag = none := by
  unfold customLoad
  rw [hn]
  simp only [Option.map_eq_none_iff, List.find?_eq_none]
  intro e he
  have := h e (List.mem_reverse.mp he)
  simpa using this

theorem customLoad_none_of_regName {cfg : Cfg} {d : TyDef} {tag : String}
    (hn : d.regName = none) : customLoad cfg d tag = none := by
  unfold customLoad
  rw [hn]

/-- a hit comes from a registration that is the last one of its key. -/
theorem last_of_customLoad {cfg : Cfg} {d : TyDef} {tag : String} {c : Ty}
    (h : customLoad cfg d tag = some c) : ∃ n, d.regName = some n ∧ LastReg cfg n tag c := by
  unfold customLoad at h
  cases hn : d.regName with
  | none => rw [hn] at h; cases h
  | some n =>
    rw [hn] at h
    refine ⟨n, rfl, ?_⟩
    simp only [Option.map_eq_some_iff] at h
    obtain ⟨e, he, hec⟩ := h
    obtain ⟨hp, as, bs, hl, hbs⟩ := List.find?_eq_some_iff_append.mp he
    have hcust : cfg.custom = bs.reverse ++ e :: as.reverse := by
      have := congrArg List.reverse hl
      simpa using this
    obtain ⟨en, et, ec⟩ := e
    simp only [Bool.and_eq_true, beq_iff_eq] at hp
    obtain ⟨h1, h2⟩ := hp
    subst h1 h2
    simp only at hec
    subst hec
    refine ⟨bs.reverse, as.reverse, hcust, ?_⟩
    intro x hx
    have := hbs x (List.mem_reverse.mp hx)
    intro hh
    simp [hh.1, hh.2] at this

/-- registering `(n, tag, c)` makes it the last registration of its key. -/
theorem lastReg_register (cfg : Cfg) (n tag : String) (c : Ty) :
    LastReg (cfgRegister cfg n tag c) n tag c :=
  ⟨cfg.custom, [], rfl, by simp⟩

/-- a registration under another key leaves a last registration in place. -/
theorem lastReg_register_other {cfg : Cfg} {n tag : String} {c : Ty} (n' tag' : String) (c' : Ty)
    (hne : ¬ (n' = n ∧ tag' = tag)) (h : LastReg cfg n tag c) :
    LastReg (cfgRegister cfg n' tag' c') n tag c := by
  obtain ⟨pre, post, hc, hp⟩ := h
  refine ⟨pre, post ++ [(n', tag', c')], by simp [cfgRegister, hc], ?_⟩
  intro e he
  rcases List.mem_append.mp he with h1 | h1
  · exact hp e h1
  · simp only [List.mem_singleton] at h1
    subst h1
    exact hne

/-! ### value position: `registry.Load` comes first -/

/-- **registered wins, as a value** (`CodecForTypeRegistry` starts with
`registry.Load(typ, tag)`): whatever the kind of the type. -/
theorem build_of_customLoad {cfg : Cfg} {d : TyDef} {tag : String} {c : Ty}
    (h : customLoad cfg d tag = some c) : build cfg d tag = .ok c := by
  cases d with
  | basic b => rw [build]; simp only [regLoad, h]
  | time => rw [build]; simp only [regLoad, h]
  | ext n => rw [build]; simp only [regLoad, h]
  | named n t => rw [build]; simp only [h]
  | ptr t => simp [customLoad, TyDef.regName] at h
  | slice t => rw [build]; simp only [regLoad, h]
  | map k v => simp [customLoad, TyDef.regName] at h
  | struct name fs => rw [build]; simp only [h]
  | bad k => simp [customLoad, TyDef.regName] at h

/-- user registrations shadow the defaults in `registry.Load`. -/
theorem regLoad_of_customLoad {cfg : Cfg} {d : TyDef} {tag : String} {c : Ty}
    (h : customLoad cfg d tag = some c) : regLoad cfg d tag = some c := by
  simp only [regLoad, h]

/-! ### the recursive call sites of `build` -/

/-- pointer target: `CodecForTypeRegistry(registry, typ.Elem(), tag)` — the
pointer's tag is passed down. -/
theorem build_ptr_registered {cfg : Cfg} {d : TyDef} {tag : String} {c : Ty}
    (h : customLoad cfg d tag = some c) (hk : d.kind ≠ .map) :
    build cfg (.ptr d) tag = .ok (.ptr c) := by
  rw [build]; simp only [hk, ↓reduceIte, build_of_customLoad h]

/-- slice element: `CodecForTypeRegistry(registry, subt, "")` — always the empty
tag; the slice's own tag only selects the wrapper. The slice type itself must
miss the registry (it hits only for `[]byte` under "" or under a user
registration of "[]byte"). -/
theorem build_slice_registered {cfg : Cfg} {d : TyDef} {tag : String} {c : Ty}
    (hs : regLoad cfg (.slice d) tag = none)
    (h : customLoad cfg d "" = some c) (hk : d.kind ≠ .map) :
    build cfg (.slice d) tag = sliceWrap cfg tag (!d.isFloatKind) c := by
  rw [build]; simp only [hs, hk, ↓reduceIte, build_of_customLoad h]

/-- map key: `CodecForTypeRegistry(registry, typ.Key(), "")`. -/
theorem build_map_key_registered {cfg : Cfg} {k v : TyDef} {tag : String} {c vc : Ty}
    (h : customLoad cfg k "" = some c) (hk : v.kind ≠ .map) (hv : build cfg v "" = .ok vc)
    (hps : vc.isProtoSlice = false) (hpk : c.isProtoSlice = false) :
    build cfg (.map k v) tag = .ok (.map c vc (tag == "proto")) := by
  rw [build]; simp [hk, build_of_customLoad h, hv, hps, hpk]

/-- map value: `CodecForTypeRegistry(registry, typ.Elem(), "")`. -/
theorem build_map_val_registered {cfg : Cfg} {k v : TyDef} {tag : String} {c kc : Ty}
    (h : customLoad cfg v "" = some c) (hk : v.kind ≠ .map) (hkc : build cfg k "" = .ok kc)
    (hps : c.isProtoSlice = false) (hpk : kc.isProtoSlice = false) :
    build cfg (.map k v) tag = .ok (.map kc c (tag == "proto")) := by
  rw [build]; simp [hk, build_of_customLoad h, hkc, hps, hpk]

/-- a tag the field loop accepts is neither empty nor "-". -/
theorem ptag_ok {ptag idxS : String} {pfx : Option String} {idx : Int}
    (hs : splitComma ptag = (idxS, pfx)) (ha : atoi idxS = some idx) :
    (ptag == "") = false ∧ (ptag == "-") = false := by
  constructor
  · cases hb : ptag == ""
    · rfl
    · have : ptag = "" := by simpa using hb
      subst this
      have h1 : splitComma "" = ("", none) := by decide
      rw [h1] at hs
      have : idxS = "" := by
        have := congrArg Prod.fst hs
        simpa using this.symm
      subst this
      have h2 : atoi "" = none := by decide
      rw [h2] at ha
      cases ha
  · cases hb : ptag == "-"
    · rfl
    · have : ptag = "-" := by simpa using hb
      subst this
      have h1 : splitComma "-" = ("-", none) := by decide
      rw [h1] at hs
      have : idxS = "-" := by
        have := congrArg Prod.fst hs
        simpa using this.symm
      subst this
      have h2 : atoi "-" = none := by decide
      rw [h2] at ha
      cases ha

/-- struct field: `CodecForTypeRegistry(registry, sf.Type, postfix)` — the
field's tag option (the part after the comma) is the tag. -/
theorem buildFields_registered {cfg : Cfg} {g ptag json idxS : String} {pfx : Option String}
    {idx : Int} {d : TyDef} {r : FieldDefs} {c : Ty}
    (hs : splitComma ptag = (idxS, pfx)) (ha : atoi idxS = some idx) (h0 : 0 ≤ idx) (hmax : idx ≤ 536870911)
    (hi : pfx ≠ some "intern") (h : customLoad cfg d (pfx.getD "") = some c) :
    buildFields cfg ((g, true, ptag, json, d) :: r) =
      (buildFields cfg r).map fun cfs => (idx.toNat, fieldName g json, c) :: cfs := by
  obtain ⟨e1, e2⟩ := ptag_ok hs ha
  have hi' : (pfx == some "intern") = false := by simpa using hi
  have h0' : ¬ (idx < 0 ∨ idx > 536870911) := by omega
  rw [buildFields.eq_def]
  simp only [e1, e2, hs, ha, hi', h0', Bool.not_true, Bool.false_eq_true, ↓reduceIte,
    build_of_customLoad h]
  cases buildFields cfg r <;> rfl

/-- struct field tagged `intern`: the option is stripped (the type is looked up
under ""), and the codec found is asked for `WithInterning()` — only
`StringCodec` (and the null.String codec) implement `Interner`, so a registered
codec that is neither is used as it is. -/
theorem buildFields_registered_intern {cfg : Cfg} {g ptag json idxS : String}
    {idx : Int} {d : TyDef} {r : FieldDefs} {c : Ty}
    (hs : splitComma ptag = (idxS, some "intern")) (ha : atoi idxS = some idx) (h0 : 0 ≤ idx) (hmax : idx ≤ 536870911)
    (h : customLoad cfg d "" = some c) (h1 : c ≠ .str false) (h2 : c ≠ .ptr (.str false)) :
    buildFields cfg ((g, true, ptag, json, d) :: r) =
      (buildFields cfg r).map fun cfs => (idx.toNat, fieldName g json, c) :: cfs := by
  obtain ⟨e1, e2⟩ := ptag_ok hs ha
  have h0' : ¬ (idx < 0 ∨ idx > 536870911) := by omega
  rw [buildFields.eq_def]
  simp only [e1, e2, hs, ha, h0', Bool.not_true, Bool.false_eq_true, ↓reduceIte, BEq.rfl,
    build_of_customLoad h]
  cases buildFields cfg r <;> rfl

/-- … and a type registered with the plain string codec gets the interning one. -/
theorem buildFields_registered_intern_str {cfg : Cfg} {g ptag json idxS : String}
    {idx : Int} {d : TyDef} {r : FieldDefs}
    (hs : splitComma ptag = (idxS, some "intern")) (ha : atoi idxS = some idx) (h0 : 0 ≤ idx) (hmax : idx ≤ 536870911)
    (h : customLoad cfg d "" = some (.str false)) :
    buildFields cfg ((g, true, ptag, json, d) :: r) =
      (buildFields cfg r).map fun cfs => (idx.toNat, fieldName g json, .str true) :: cfs := by
  obtain ⟨e1, e2⟩ := ptag_ok hs ha
  have h0' : ¬ (idx < 0 ∨ idx > 536870911) := by omega
  rw [buildFields.eq_def]
  simp only [e1, e2, hs, ha, h0', Bool.not_true, Bool.false_eq_true, ↓reduceIte, BEq.rfl,
    build_of_customLoad h]
  cases hb : buildFields cfg r <;> simp [Res.map]

/-- the struct arm: `BuildStructCodec` unless the struct type is itself registered
(under this tag: that codec; under "" only: error). -/
theorem build_struct_unregistered {cfg : Cfg} {name : String} {fs : FieldDefs} {tag : String}
    (h : customLoad cfg (.struct name fs) tag = none)
    (h' : tag = "" ∨ customLoad cfg (.struct name fs) "" = none) :
    build cfg (.struct name fs) tag =
      (buildFields cfg fs).bind fun cfs =>
        if hasDup (cfs.map (·.1)) then .err else .ok (.struct name cfs) := by
  rw [build]
  simp only [h]
  have : (tag != "" && (customLoad cfg (.struct name fs) "").isSome) = false := by
    rcases h' with h' | h'
    · subst h'; simp
    · simp [h']
  simp only [this, Bool.false_eq_true, ↓reduceIte]
  cases buildFields cfg fs <;> rfl

/-- a registered type as the only field of a struct: the one-field instance of
`buildFields_registered` through the struct arm. -/
theorem build_struct_field_registered {cfg : Cfg} {name g ptag json idxS : String}
    {pfx : Option String} {idx : Int} {d : TyDef} {c : Ty}
    (hn : Unregistered cfg name "")
    (hs : splitComma ptag = (idxS, pfx)) (ha : atoi idxS = some idx) (h0 : 0 ≤ idx) (hmax : idx ≤ 536870911)
    (hi : pfx ≠ some "intern") (h : customLoad cfg d (pfx.getD "") = some c) :
    build cfg (.struct name [(g, true, ptag, json, d)]) "" =
      .ok (.struct name [(idx.toNat, fieldName g json, c)]) := by
  have hcl : customLoad cfg (.struct name [(g, true, ptag, json, d)]) "" = none := by
    cases hr : (TyDef.struct name [(g, true, ptag, json, d)]).regName with
    | none => exact customLoad_none_of_regName hr
    | some n =>
      have : n = name := by
        simp only [TyDef.regName] at hr
        split at hr
        · cases hr
        · exact (Option.some.inj hr).symm
      subst this
      exact customLoad_none_of_unregistered hr hn
  rw [build_struct_unregistered hcl (Or.inl rfl), buildFields_registered hs ha h0 hmax hi h]
  simp [buildFields, Res.map, Res.bind, hasDup]

/-! ### the recursive call sites of `buildNamed`

`buildNamed` is the kind switch for a defined type; its pointer, slice and map
arms make the same recursive calls as `build`'s. -/

theorem buildNamed_basic (cfg : Cfg) (n : String) (b : Basic) (tag : String) :
    buildNamed cfg n (.basic b) tag = build cfg (.basic b) tag := by
  rw [buildNamed, build]

theorem buildNamed_ptr (cfg : Cfg) (n : String) (t : TyDef) (tag : String) :
    buildNamed cfg n (.ptr t) tag = build cfg (.ptr t) tag := by
  rw [buildNamed, build]

theorem buildNamed_map (cfg : Cfg) (n : String) (k v : TyDef) (tag : String) :
    buildNamed cfg n (.map k v) tag = build cfg (.map k v) tag := by
  rw [buildNamed, build]

/-- a defined slice type gets the wrapper its element codec calls for — the
exact-type entries of the registry (`[]byte ↦ BytesCodec`, a user registration
of "[]byte") do not apply to it. -/
theorem buildNamed_slice (cfg : Cfg) (n : String) (t : TyDef) (tag : String)
    (hs : regLoad cfg (.slice t) tag = none) :
    buildNamed cfg n (.slice t) tag = build cfg (.slice t) tag := by
  rw [buildNamed, build]; simp only [hs]

theorem buildNamed_named (cfg : Cfg) (n m : String) (t : TyDef) (tag : String) :
    buildNamed cfg n (.named m t) tag = buildNamed cfg n t tag := by
  rw [buildNamed]

theorem buildNamed_struct (cfg : Cfg) (n m : String) (fs : FieldDefs) (tag : String) :
    buildNamed cfg n (.struct m fs) tag =
      (buildFields cfg fs).bind fun cfs =>
        if hasDup (cfs.map (·.1)) then .err else .ok (.struct n cfs) := by
  rw [buildNamed]; cases buildFields cfg fs <;> rfl

/-- pointer target inside a defined pointer type. -/
theorem buildNamed_ptr_registered {cfg : Cfg} {n : String} {d : TyDef} {tag : String} {c : Ty}
    (h : customLoad cfg d tag = some c) (hk : d.kind ≠ .map) :
    buildNamed cfg n (.ptr d) tag = .ok (.ptr c) := by
  rw [buildNamed_ptr, build_ptr_registered h hk]

/-- slice element inside a defined slice type (no `[]byte` exception here). -/
theorem buildNamed_slice_registered {cfg : Cfg} {n : String} {d : TyDef} {tag : String} {c : Ty}
    (h : customLoad cfg d "" = some c) (hk : d.kind ≠ .map) :
    buildNamed cfg n (.slice d) tag = sliceWrap cfg tag (!d.isFloatKind) c := by
  rw [buildNamed]; simp only [hk, ↓reduceIte, build_of_customLoad h]

theorem buildNamed_map_key_registered {cfg : Cfg} {n : String} {k v : TyDef} {tag : String} {c vc : Ty}
    (h : customLoad cfg k "" = some c) (hk : v.kind ≠ .map) (hv : build cfg v "" = .ok vc)
    (hps : vc.isProtoSlice = false) (hpk : c.isProtoSlice = false) :
    buildNamed cfg n (.map k v) tag = .ok (.map c vc (tag == "proto")) := by
  rw [buildNamed_map, build_map_key_registered h hk hv hps hpk]

theorem buildNamed_map_val_registered {cfg : Cfg} {n : String} {k v : TyDef} {tag : String} {c kc : Ty}
    (h : customLoad cfg v "" = some c) (hk : v.kind ≠ .map) (hkc : build cfg k "" = .ok kc)
    (hps : c.isProtoSlice = false) (hpk : kc.isProtoSlice = false) :
    buildNamed cfg n (.map k v) tag = .ok (.map kc c (tag == "proto")) := by
  rw [buildNamed_map, build_map_val_registered h hk hkc hps hpk]

/-! ### when does a slice type hit the registry -/

theorem regName_slice_ne {t : TyDef} (h : t ≠ .basic (.uint 8)) : (TyDef.slice t).regName = none := by
  unfold TyDef.regName
  split <;> simp_all

theorem regLoad_slice_none {cfg : Cfg} {t : TyDef} {tag : String} (h : t ≠ .basic (.uint 8)) :
    regLoad cfg (.slice t) tag = none := by
  unfold regLoad
  rw [customLoad_none_of_regName (regName_slice_ne h)]
  simp only
  split <;> simp_all

/-! ### defined types fall back to their kind -/

/-- a defined type without a registration of its own under this tag: the kind switch. -/
theorem build_named_unregistered {cfg : Cfg} {n : String} {t : TyDef} {tag : String}
    (h : Unregistered cfg n tag) : build cfg (.named n t) tag = buildNamed cfg n t tag := by
  rw [build, customLoad_none_of_unregistered (d := .named n t) rfl h]

/-! ### the two options act only at their own sites

`ProtoCompatibleTime` is read once, in `RegisterDefaultCodecs`, to choose the
codec stored for `time.Time`; `ProtoCompatibleArrays` is read once, in the slice
arm of `CodecForTypeRegistry`, when the element codec is length-delimited. -/

mutual
/-- no `time.Time` anywhere in the definition. -/
def noTime : TyDef → Prop
  | .time => False
  | .basic _ | .bad _ | .ext _ => True
  | .named _ t | .ptr t | .slice t => noTime t
  | .map k v => noTime k ∧ noTime v
  | .struct _ fs => fieldsNoTime fs
def fieldsNoTime : FieldDefs → Prop
  | [] => True
  | (_, _, _, _, t) :: r => noTime t ∧ fieldsNoTime r
end

mutual
/-- no slice whose element codec (as built under `cfg`) is length-delimited. -/
def arraysStable (cfg : Cfg) : TyDef → Prop
  | .basic _ | .time | .bad _ | .ext _ => True
  | .named _ t | .ptr t => arraysStable cfg t
  | .slice t => arraysStable cfg t ∧ ∀ c, build cfg t "" = .ok c → c.wt ≠ .len
  | .map k v => arraysStable cfg k ∧ arraysStable cfg v
  | .struct _ fs => fieldsStable cfg fs
def fieldsStable (cfg : Cfg) : FieldDefs → Prop
  | [] => True
  | (_, _, _, _, t) :: r => arraysStable cfg t ∧ fieldsStable cfg r
end

theorem customLoad_options (cfg : Cfg) (a b : Bool) (d : TyDef) (tag : String) :
    customLoad { cfg with protoArrays := a, protoTime := b } d tag = customLoad cfg d tag := rfl

/-- `registry.Load` does not read `ProtoCompatibleArrays` at all … -/
theorem regLoad_protoArrays (cfg : Cfg) (a : Bool) (d : TyDef) (tag : String) :
    regLoad { cfg with protoArrays := a } d tag = regLoad cfg d tag := rfl

/-- … and sees `ProtoCompatibleTime` only in the entry of `time.Time` itself. -/
theorem regLoad_protoTime (cfg : Cfg) (b : Bool) (d : TyDef) (tag : String) (h : d ≠ .time) :
    regLoad { cfg with protoTime := b } d tag = regLoad cfg d tag := by
  unfold regLoad
  rw [show customLoad { cfg with protoTime := b } d tag = customLoad cfg d tag from rfl]
  cases customLoad cfg d tag with
  | some c => rfl
  | none =>
    simp only
    split <;> first | rfl | exact absurd rfl h

/-- the slice wrapper choice reads `ProtoCompatibleArrays` only for
length-delimited elements (and not even then under the `proto` tag). -/
theorem sliceWrap_protoArrays (cfg : Cfg) (a : Bool) (tag : String) (ep : Bool) (c : Ty)
    (h : c.wt ≠ .len ∨ tag = "proto") :
    sliceWrap { cfg with protoArrays := a } tag ep c = sliceWrap cfg tag ep c := by
  unfold sliceWrap
  rcases h with h | h
  · cases hw : c.wt <;> simp_all
  · subst h; cases hw : c.wt <;> simp

theorem sliceWrap_protoTime (cfg : Cfg) (b : Bool) (tag : String) (ep : Bool) (c : Ty) :
    sliceWrap { cfg with protoTime := b } tag ep c = sliceWrap cfg tag ep c := rfl

mutual
theorem build_protoTime (cfg : Cfg) (b : Bool) : ∀ (d : TyDef) (tag : String), noTime d →
    build { cfg with protoTime := b } d tag = build cfg d tag
  | .basic x, tag, _ => by
    rw [build, build, regLoad_protoTime cfg b _ tag (by simp)]
  | .time, _, h => by simp [noTime] at h
  | .ext n, tag, _ => by
    rw [build, build, regLoad_protoTime cfg b _ tag (by simp)]
  | .bad k, tag, _ => by rw [build, build]
  | .named n t, tag, h => by
    have ih := buildNamed_protoTime cfg b n t tag (by simpa [noTime] using h)
    rw [build, build, ih]; rfl
  | .ptr t, tag, h => by
    have ih := build_protoTime cfg b t tag (by simpa [noTime] using h)
    rw [build, build, ih]
  | .slice t, tag, h => by
    have ih := build_protoTime cfg b t "" (by simpa [noTime] using h)
    rw [build, build, ih, regLoad_protoTime cfg b _ tag (by simp)]; rfl
  | .map k v, tag, h => by
    have h' : noTime k ∧ noTime v := by simpa [noTime] using h
    have ih1 := build_protoTime cfg b k "" h'.1
    have ih2 := build_protoTime cfg b v "" h'.2
    rw [build, build, ih1, ih2]
  | .struct name fs, tag, h => by
    have ih := buildFields_protoTime cfg b fs (by simpa [noTime] using h)
    rw [build, build, ih]; rfl
theorem buildNamed_protoTime (cfg : Cfg) (b : Bool) (n : String) : ∀ (d : TyDef) (tag : String), noTime d →
    buildNamed { cfg with protoTime := b } n d tag = buildNamed cfg n d tag
  | .basic x, tag, _ => by
    rw [buildNamed, buildNamed, regLoad_protoTime cfg b _ tag (by simp)]
  | .time, _, h => by simp [noTime] at h
  | .ext _, tag, _ => by rw [buildNamed, buildNamed]
  | .bad k, tag, _ => by rw [buildNamed, buildNamed]
  | .named m t, tag, h => by
    have ih := buildNamed_protoTime cfg b n t tag (by simpa [noTime] using h)
    rw [buildNamed, buildNamed, ih]
  | .ptr t, tag, h => by
    have ih := build_protoTime cfg b t tag (by simpa [noTime] using h)
    rw [buildNamed, buildNamed, ih]
  | .slice t, tag, h => by
    have ih := build_protoTime cfg b t "" (by simpa [noTime] using h)
    rw [buildNamed, buildNamed, ih]; rfl
  | .map k v, tag, h => by
    have h' : noTime k ∧ noTime v := by simpa [noTime] using h
    have ih1 := build_protoTime cfg b k "" h'.1
    have ih2 := build_protoTime cfg b v "" h'.2
    rw [buildNamed, buildNamed, ih1, ih2]
  | .struct name fs, tag, h => by
    have ih := buildFields_protoTime cfg b fs (by simpa [noTime] using h)
    rw [buildNamed, buildNamed, ih]
theorem buildFields_protoTime (cfg : Cfg) (b : Bool) : ∀ (fs : FieldDefs), fieldsNoTime fs →
    buildFields { cfg with protoTime := b } fs = buildFields cfg fs
  | [], _ => by rw [buildFields, buildFields]
  | (g, e, ptag, json, t) :: r, h => by
    have h' : noTime t ∧ fieldsNoTime r := by simpa [fieldsNoTime] using h
    have ih1 := fun tag => build_protoTime cfg b t tag h'.1
    have ih2 := buildFields_protoTime cfg b r h'.2
    rw [buildFields.eq_def, buildFields.eq_def]
    simp only [ih1, ih2]
end

mutual
theorem build_protoArrays (cfg : Cfg) (a : Bool) : ∀ (d : TyDef) (tag : String), arraysStable cfg d →
    build { cfg with protoArrays := a } d tag = build cfg d tag
  | .basic x, tag, _ => by rw [build, build]; rfl
  | .time, tag, _ => by rw [build, build]; rfl
  | .ext n, tag, _ => by rw [build, build]; rfl
  | .bad k, tag, _ => by rw [build, build]
  | .named n t, tag, h => by
    have ih := buildNamed_protoArrays cfg a n t tag (by simpa [arraysStable] using h)
    rw [build, build, ih]; rfl
  | .ptr t, tag, h => by
    have ih := build_protoArrays cfg a t tag (by simpa [arraysStable] using h)
    rw [build, build, ih]
  | .slice t, tag, h => by
    have h' : arraysStable cfg t ∧ ∀ c, build cfg t "" = .ok c → c.wt ≠ .len := by
      simpa [arraysStable] using h
    have ih := build_protoArrays cfg a t "" h'.1
    rw [build, build, ih, regLoad_protoArrays]
    cases hb : build cfg t "" with
    | ok c => simp only [sliceWrap_protoArrays cfg a tag _ c (Or.inl (h'.2 c hb))]
    | _ => rfl
  | .map k v, tag, h => by
    have h' : arraysStable cfg k ∧ arraysStable cfg v := by simpa [arraysStable] using h
    have ih1 := build_protoArrays cfg a k "" h'.1
    have ih2 := build_protoArrays cfg a v "" h'.2
    rw [build, build, ih1, ih2]
  | .struct name fs, tag, h => by
    have ih := buildFields_protoArrays cfg a fs (by simpa [arraysStable] using h)
    rw [build, build, ih]; rfl
theorem buildNamed_protoArrays (cfg : Cfg) (a : Bool) (n : String) : ∀ (d : TyDef) (tag : String),
    arraysStable cfg d → buildNamed { cfg with protoArrays := a } n d tag = buildNamed cfg n d tag
  | .basic x, tag, _ => by rw [buildNamed, buildNamed]; rfl
  | .time, tag, _ => by rw [buildNamed, buildNamed]
  | .ext _, tag, _ => by rw [buildNamed, buildNamed]
  | .bad k, tag, _ => by rw [buildNamed, buildNamed]
  | .named m t, tag, h => by
    have ih := buildNamed_protoArrays cfg a n t tag (by simpa [arraysStable] using h)
    rw [buildNamed, buildNamed, ih]
  | .ptr t, tag, h => by
    have ih := build_protoArrays cfg a t tag (by simpa [arraysStable] using h)
    rw [buildNamed, buildNamed, ih]
  | .slice t, tag, h => by
    have h' : arraysStable cfg t ∧ ∀ c, build cfg t "" = .ok c → c.wt ≠ .len := by
      simpa [arraysStable] using h
    have ih := build_protoArrays cfg a t "" h'.1
    rw [buildNamed, buildNamed, ih]
    cases hb : build cfg t "" with
    | ok c => simp only [sliceWrap_protoArrays cfg a tag _ c (Or.inl (h'.2 c hb))]
    | _ => rfl
  | .map k v, tag, h => by
    have h' : arraysStable cfg k ∧ arraysStable cfg v := by simpa [arraysStable] using h
    have ih1 := build_protoArrays cfg a k "" h'.1
    have ih2 := build_protoArrays cfg a v "" h'.2
    rw [buildNamed, buildNamed, ih1, ih2]
  | .struct name fs, tag, h => by
    have ih := buildFields_protoArrays cfg a fs (by simpa [arraysStable] using h)
    rw [buildNamed, buildNamed, ih]
theorem buildFields_protoArrays (cfg : Cfg) (a : Bool) : ∀ (fs : FieldDefs), fieldsStable cfg fs →
    buildFields { cfg with protoArrays := a } fs = buildFields cfg fs
  | [], _ => by rw [buildFields, buildFields]
  | (g, e, ptag, json, t) :: r, h => by
    have h' : arraysStable cfg t ∧ fieldsStable cfg r := by simpa [fieldsStable] using h
    have ih1 := fun tag => build_protoArrays cfg a t tag h'.1
    have ih2 := buildFields_protoArrays cfg a r h'.2
    rw [buildFields.eq_def, buildFields.eq_def]
    simp only [ih1, ih2]
end

/-- **options are local**: a definition with no `time.Time` and no slice of
length-delimited elements builds to the same codec under all four option
combinations. -/
theorem build_options_local (cfg : Cfg) (a b : Bool) (d : TyDef) (tag : String)
    (ht : noTime d) (hs : arraysStable cfg d) :
    build { cfg with protoArrays := a, protoTime := b } d tag = build cfg d tag := by
  have h1 := build_protoTime { cfg with protoArrays := a } b d tag ht
  have h2 := build_protoArrays cfg a d tag hs
  exact h1.trans h2

/-! ## Part B — the multi-instance machine -/

theorem step_of_inst {w : World} {o : Op} {j : Nat} (h : o.inst = some j) : step w o = onInst w j o := by
  cases o <;> simp only [Op.inst, Option.some.injEq, reduceCtorEq] at h <;> subst h <;> rfl

theorem step_new (w : World) (a b : Bool) :
    step w (.newInstance a b) = (w ++ [Inst.fresh a b], .created w.length) := rfl

theorem inst_none {o : Op} (h : o.inst = none) : ∃ a b, o = .newInstance a b := by
  cases o <;> simp [Op.inst] at h
  exact ⟨_, _, rfl⟩

theorem onInst_length (w : World) (j : Nat) (o : Op) : (onInst w j o).1.length = w.length := by
  unfold onInst; split <;> simp

theorem onInst_get_ne (w : World) {i j : Nat} (o : Op) (h : j ≠ i) : (onInst w j o).1[i]? = w[i]? := by
  unfold onInst; split
  · rfl
  · simp [List.getElem?_set_ne h]

theorem onInst_get_self {w : World} {i : Nat} {s : Inst} (o : Op) (h : w[i]? = some s) :
    onInst w i o = (w.set i (apply s o).1, (apply s o).2) := by
  unfold onInst; rw [h]

/-- the id of the addressed instance plays no role in what the op does. -/
theorem apply_retarget (s : Inst) (o : Op) (j : Nat) : apply s (o.retarget j) = apply s o := by
  cases o <;> rfl

theorem retarget_inst {o : Op} {i : Nat} (h : o.inst = some i) (j : Nat) : (o.retarget j).inst = some j := by
  cases o <;> simp [Op.inst] at h <;> rfl

/-- **the local-run theorem**: an instance that exists evolves exactly as the
single-instance machine fed with the ops addressed to it — whatever else is in
the script (ops on other instances, creation of instances with any options). -/
theorem run_local (i : Nat) : ∀ (ops : List Op) (w : World) (s : Inst), w[i]? = some s →
    (run ops w).1[i]? = some (runInst s (ops.filter fun o => o.inst = some i)).1 ∧
    outsAt i ops (run ops w).2 = (runInst s (ops.filter fun o => o.inst = some i)).2
  | [], w, s, h => by simp [run, runInst, outsAt, h]
  | o :: ops, w, s, h => by
    cases ho : o.inst with
    | none =>
      obtain ⟨a, b, rfl⟩ := inst_none ho
      have hlt : i < w.length := by
        rcases Nat.lt_or_ge i w.length with h' | h'
        · exact h'
        · rw [List.getElem?_eq_none h'] at h; cases h
      have h' : (step w (.newInstance a b)).1[i]? = some s := by
        rw [step_new]; simp only; rw [List.getElem?_append_left hlt]; exact h
      have ih := run_local i ops _ s h'
      simp only [run, outsAt, ho, List.filter_cons, reduceCtorEq, decide_false, Bool.false_eq_true,
        ↓reduceIte]
      exact ih
    | some j =>
      rw [show run (o :: ops) w = ((run ops (step w o).1).1, (step w o).2 :: (run ops (step w o).1).2) from rfl,
        step_of_inst ho]
      by_cases hj : j = i
      · subst hj
        rw [onInst_get_self o h]
        have h' : (w.set j (apply s o).1)[j]? = some (apply s o).1 := by
          have hlt : j < w.length := by
            rcases Nat.lt_or_ge j w.length with h' | h'
            · exact h'
            · rw [List.getElem?_eq_none h'] at h; cases h
          simp [hlt]
        have ih := run_local j ops _ _ h'
        simp only [outsAt, ho, List.filter_cons, decide_true, ↓reduceIte, runInst]
        exact ⟨ih.1, by rw [ih.2]⟩
      · have h' : (onInst w j o).1[i]? = some s := by rw [onInst_get_ne w o hj]; exact h
        have ih := run_local i ops _ s h'
        have hne : ¬ (some j = some i) := fun e => hj (Option.some.inj e)
        simp only [outsAt, ho, List.filter_cons, hne, decide_false, Bool.false_eq_true, ↓reduceIte]
        exact ih

theorem filter_inst_idem (i : Nat) (ops : List Op) :
    (ops.filter fun o => o.inst = some i).filter (fun o => o.inst = some i) =
      ops.filter fun o => o.inst = some i := by
  simp [List.filter_filter]

/-- **instance isolation** for an instance that exists at the start: the ops
addressed to other instances, and the creation of other instances, are invisible. -/
theorem instance_isolation (i : Nat) (ops : List Op) (w : World) (hi : i < w.length) :
    outsAt i ops (run ops w).2 =
      outsAt i (ops.filter fun o => o.inst = some i) (run (ops.filter fun o => o.inst = some i) w).2 := by
  have hs : w[i]? = some w[i] := List.getElem?_eq_getElem hi
  rw [(run_local i ops w _ hs).2, (run_local i _ w _ hs).2, filter_inst_idem]

/-- … and its final state is the same too. -/
theorem instance_isolation_state (i : Nat) (ops : List Op) (w : World) (hi : i < w.length) :
    (run ops w).1[i]? = (run (ops.filter fun o => o.inst = some i) w).1[i]? := by
  have hs : w[i]? = some w[i] := List.getElem?_eq_getElem hi
  rw [(run_local i ops w _ hs).1, (run_local i _ w _ hs).1, filter_inst_idem]

theorem run_cons (o : Op) (ops : List Op) (w : World) :
    run (o :: ops) w = ((run ops (step w o).1).1, (step w o).2 :: (run ops (step w o).1).2) := rfl

theorem outsAt_cons_eq {i : Nat} {o : Op} (ops : List Op) (x : Out) (outs : List Out) (h : o.inst = some i) :
    outsAt i (o :: ops) (x :: outs) = x :: outsAt i ops outs := by
  simp only [outsAt, h, ↓reduceIte]

theorem outsAt_cons_ne {i : Nat} {o : Op} (ops : List Op) (x : Out) (outs : List Out) (h : o.inst ≠ some i) :
    outsAt i (o :: ops) (x :: outs) = outsAt i ops outs := by
  simp only [outsAt, h, ↓reduceIte]

/-- the general form, for instances created during the run as well: two worlds
that agree on the number of instances (ids are allocated in creation order) and
on instance `i`; on one side only the creations and the ops addressed to `i` run. -/
theorem isolation_two_worlds (i : Nat) : ∀ (ops : List Op) (w w' : World),
    w.length = w'.length → w[i]? = w'[i]? →
    outsAt i ops (run ops w).2 =
      outsAt i (ops.filter fun o => o.inst = some i || o.inst = none)
        (run (ops.filter fun o => o.inst = some i || o.inst = none) w').2
  | [], _, _, _, _ => by simp [run, outsAt]
  | o :: ops, w, w', hl, hg => by
    cases ho : o.inst with
    | none =>
      have hf : ((o :: ops).filter fun o => o.inst = some i || o.inst = none) =
          o :: ops.filter fun o => o.inst = some i || o.inst = none := by
        simp [ho]
      have hne : o.inst ≠ some i := by rw [ho]; exact fun e => by cases e
      obtain ⟨a, b, rfl⟩ := inst_none ho
      have hl' : (w ++ [Inst.fresh a b]).length = (w' ++ [Inst.fresh a b]).length := by simp [hl]
      have hg' : (w ++ [Inst.fresh a b])[i]? = (w' ++ [Inst.fresh a b])[i]? := by
        simp only [List.getElem?_append, hl, hg]
      have ih := isolation_two_worlds i ops _ _ hl' hg'
      rw [hf, run_cons, run_cons, outsAt_cons_ne _ _ _ hne, outsAt_cons_ne _ _ _ hne, step_new, step_new]
      exact ih
    | some j =>
      by_cases hj : j = i
      · subst hj
        have hf : ((o :: ops).filter fun o => o.inst = some j || o.inst = none) =
            o :: ops.filter fun o => o.inst = some j || o.inst = none := by
          simp [ho]
        rw [hf, run_cons, run_cons, outsAt_cons_eq _ _ _ ho, outsAt_cons_eq _ _ _ ho,
          step_of_inst ho, step_of_inst ho]
        cases hw : w[j]? with
        | none =>
          have hw' : w'[j]? = none := by rw [← hg]; exact hw
          have e1 : onInst w j o = (w, .noInst) := by unfold onInst; rw [hw]
          have e2 : onInst w' j o = (w', .noInst) := by unfold onInst; rw [hw']
          rw [e1, e2]
          simp only [isolation_two_worlds j ops w w' hl hg]
        | some s =>
          have hw' : w'[j]? = some s := by rw [← hg]; exact hw
          rw [onInst_get_self o hw, onInst_get_self o hw']
          have hl' : (w.set j (apply s o).1).length = (w'.set j (apply s o).1).length := by simp [hl]
          have hg' : (w.set j (apply s o).1)[j]? = (w'.set j (apply s o).1)[j]? := by
            simp [List.getElem?_set, hl]
          simp only [isolation_two_worlds j ops _ _ hl' hg']
      · have hne : o.inst ≠ some i := by rw [ho]; exact fun e => hj (Option.some.inj e)
        have hf : ((o :: ops).filter fun o => o.inst = some i || o.inst = none) =
            ops.filter fun o => o.inst = some i || o.inst = none := by
          have : ¬ (some j = some i) := fun e => hj (Option.some.inj e)
          simp [ho, this]
        rw [hf, run_cons, outsAt_cons_ne _ _ _ hne, step_of_inst ho]
        exact isolation_two_worlds i ops _ w' (by rw [onInst_length, hl])
          (by rw [onInst_get_ne w o hj, hg])

/-- **instance isolation, any instance** (also one the script itself creates):
drop every op addressed to another instance. -/
theorem instance_isolation_created (i : Nat) (ops : List Op) (w : World) :
    outsAt i ops (run ops w).2 =
      outsAt i (ops.filter fun o => o.inst = some i || o.inst = none)
        (run (ops.filter fun o => o.inst = some i || o.inst = none) w).2 :=
  isolation_two_worlds i ops w w rfl rfl

/-- the options given to OTHER instances at their creation are invisible too:
two scripts that differ only in the options of the instances they create, seen
from an instance that already exists. -/
theorem creation_options_invisible (i : Nat) (ops ops' : List Op) (w : World) (hi : i < w.length)
    (h : (ops.filter fun o => o.inst = some i) = ops'.filter fun o => o.inst = some i) :
    outsAt i ops (run ops w).2 = outsAt i ops' (run ops' w).2 := by
  rw [instance_isolation i ops w hi, instance_isolation i ops' w hi, h]

theorem runInst_retarget (j : Nat) : ∀ (ops : List Op) (s : Inst),
    runInst s (ops.map (Op.retarget j)) = runInst s ops
  | [], _ => rfl
  | o :: ops, s => by
    simp only [List.map_cons, runInst, apply_retarget, runInst_retarget j ops]

theorem filter_retarget (i j : Nat) : ∀ (ops : List Op),
    ((ops.filter fun o => o.inst = some i).map (Op.retarget j)).filter (fun o => o.inst = some j) =
      (ops.filter fun o => o.inst = some i).map (Op.retarget j)
  | [] => rfl
  | o :: ops => by
    by_cases h : o.inst = some i
    · simp only [List.filter_cons, h, decide_true, ↓reduceIte, List.map_cons, retarget_inst h j,
        filter_retarget i j ops]
    · simp only [List.filter_cons, h, decide_false, Bool.false_eq_true, ↓reduceIte, filter_retarget i j ops]

/-- **the package-level functions are a default-configured instance**: whatever a
script does (to the default instance and to others), the answers the
package-level functions give are the answers a freshly created instance with
both options off gives to the same calls. -/
theorem default_is_default (ops : List Op) :
    outsAt 0 ops (run ops init).2 =
      outsAt 1 (.newInstance false false :: (ops.filter fun o => o.inst = some 0).map (Op.retarget 1))
        (run (.newInstance false false :: (ops.filter fun o => o.inst = some 0).map (Op.retarget 1)) init).2 := by
  have h0 : init[0]? = some (Inst.fresh false false) := rfl
  rw [(run_local 0 ops init _ h0).2]
  have h1 : (step init (.newInstance false false)).1[1]? = some (Inst.fresh false false) := rfl
  have hne : (Op.newInstance false false).inst ≠ some 1 := fun e => by cases e
  rw [run_cons, outsAt_cons_ne _ _ _ hne, (run_local 1 _ _ _ h1).2, filter_retarget, runInst_retarget]

/-! ### the modelled fragment: registration before use -/

/-- every instance on which `CodecForType` has run is listed in `used`. -/
def UsedIn (used : List Nat) (w : World) : Prop :=
  ∀ i s, w[i]? = some s → s.used = true → i ∈ used

theorem usedIn_init : UsedIn [] init := by
  intro i s h hu
  cases i with
  | zero => simp only [init, List.getElem?_cons_zero, Option.some.injEq] at h; subst h; cases hu
  | succ k => simp [init] at h

theorem usedIn_append_fresh {used : List Nat} {w : World} (a b : Bool) (h : UsedIn used w) :
    UsedIn used (w ++ [Inst.fresh a b]) := by
  intro i s hs hu
  rw [List.getElem?_append] at hs
  split at hs
  · exact h i s hs hu
  · cases hk : i - w.length with
    | zero => rw [hk] at hs; simp only [List.getElem?_cons_zero, Option.some.injEq] at hs; subst hs; cases hu
    | succ k => rw [hk] at hs; simp at hs

theorem usedIn_set_same {used : List Nat} {w : World} {j : Nat} {s s' : Inst}
    (hj : w[j]? = some s) (hu : s'.used = s.used) (h : UsedIn used w) : UsedIn used (w.set j s') := by
  intro i t ht hut
  by_cases hij : j = i
  · subst hij
    have hlt : j < w.length := by
      rcases Nat.lt_or_ge j w.length with h' | h'
      · exact h'
      · rw [List.getElem?_eq_none h'] at hj; cases hj
    simp only [List.getElem?_set_self hlt, Option.some.injEq] at ht
    subst ht
    exact h j s hj (hu ▸ hut)
  · rw [List.getElem?_set_ne hij] at ht
    exact h i t ht hut

theorem usedIn_set_used {used : List Nat} {w : World} (j : Nat) (s' : Inst) (h : UsedIn used w) :
    UsedIn (j :: used) (w.set j s') := by
  intro i t ht hut
  by_cases hij : j = i
  · subst hij; exact List.mem_cons_self
  · rw [List.getElem?_set_ne hij] at ht
    exact List.mem_cons_of_mem _ (h i t ht hut)

theorem usedIn_cons {used : List Nat} {w : World} (j : Nat) (h : UsedIn used w) : UsedIn (j :: used) w :=
  fun i s hs hu => List.mem_cons_of_mem _ (h i s hs hu)

/-- a script that registers before use never leaves the modelled fragment: no
`register`/`addNull` answers `late`. -/
theorem no_late : ∀ (ops : List Op) (used : List Nat) (w : World),
    UsedIn used w → regBeforeUse used ops = true → Out.late ∉ (run ops w).2
  | [], _, _, _, _ => by simp [run]
  | o :: ops, used, w, hu, hr => by
    rw [run_cons]
    intro hmem
    rcases List.mem_cons.mp hmem with hhead | htail
    · -- the head output is `late`
      cases o with
      | newInstance a b => rw [step_new] at hhead; cases hhead
      | register i n tag c =>
        simp only [regBeforeUse, Bool.and_eq_true, Bool.not_eq_true', List.contains_eq_mem,
          decide_eq_false_iff_not] at hr
        rw [step_of_inst (j := i) rfl] at hhead
        unfold onInst at hhead
        cases hw : w[i]? with
        | none => rw [hw] at hhead; cases hhead
        | some s =>
          rw [hw] at hhead
          cases hsu : s.used with
          | false => simp [apply, hsu] at hhead
          | true => exact hr.1 (hu i s hw hsu)
      | addNull i =>
        simp only [regBeforeUse, Bool.and_eq_true, Bool.not_eq_true', List.contains_eq_mem,
          decide_eq_false_iff_not] at hr
        rw [step_of_inst (j := i) rfl] at hhead
        unfold onInst at hhead
        cases hw : w[i]? with
        | none => rw [hw] at hhead; cases hhead
        | some s =>
          rw [hw] at hhead
          cases hsu : s.used with
          | false => simp [apply, hsu] at hhead
          | true => exact hr.1 (hu i s hw hsu)
      | marshal i d v =>
        rw [step_of_inst (j := i) rfl] at hhead
        unfold onInst at hhead
        cases hw : w[i]? <;> rw [hw] at hhead <;> cases hhead
      | unmarshal i d b p =>
        rw [step_of_inst (j := i) rfl] at hhead
        unfold onInst at hhead
        cases hw : w[i]? <;> rw [hw] at hhead <;> cases hhead
      | codecFor i d tag =>
        rw [step_of_inst (j := i) rfl] at hhead
        unfold onInst at hhead
        cases hw : w[i]? <;> rw [hw] at hhead <;> cases hhead
    · -- the tail
      revert htail
      cases o with
      | newInstance a b =>
        rw [step_new]
        exact no_late ops used _ (usedIn_append_fresh a b hu) (by simpa [regBeforeUse] using hr)
      | register i n tag c =>
        simp only [regBeforeUse, Bool.and_eq_true] at hr
        rw [step_of_inst (j := i) rfl]
        unfold onInst
        cases hw : w[i]? with
        | none => exact no_late ops used w hu hr.2
        | some s => exact no_late ops used _ (usedIn_set_same hw rfl hu) hr.2
      | addNull i =>
        simp only [regBeforeUse, Bool.and_eq_true] at hr
        rw [step_of_inst (j := i) rfl]
        unfold onInst
        cases hw : w[i]? with
        | none => exact no_late ops used w hu hr.2
        | some s => exact no_late ops used _ (usedIn_set_same hw rfl hu) hr.2
      | marshal i d v =>
        simp only [regBeforeUse] at hr
        rw [step_of_inst (j := i) rfl]
        unfold onInst
        cases hw : w[i]? with
        | none => exact no_late ops _ w (usedIn_cons i hu) hr
        | some s => exact no_late ops _ _ (usedIn_set_used i _ hu) hr
      | unmarshal i d b p =>
        simp only [regBeforeUse] at hr
        rw [step_of_inst (j := i) rfl]
        unfold onInst
        cases hw : w[i]? with
        | none => exact no_late ops _ w (usedIn_cons i hu) hr
        | some s => exact no_late ops _ _ (usedIn_set_used i _ hu) hr
      | codecFor i d tag =>
        simp only [regBeforeUse] at hr
        rw [step_of_inst (j := i) rfl]
        unfold onInst
        cases hw : w[i]? with
        | none => exact no_late ops _ w (usedIn_cons i hu) hr
        | some s => exact no_late ops _ _ (usedIn_set_used i _ hu) hr

/-- from program start. -/
theorem no_late_init (ops : List Op) (h : regBeforeUse [] ops = true) : Out.late ∉ (run ops init).2 :=
  no_late ops [] init usedIn_init h

/-! ### registered wins, at the level of scripts -/

/-- does the op store something under the key `(n, tag)`. -/
def Op.touchesKey (n tag : String) : Op → Bool
  | .register _ n' tag' _ => n' == n && tag' == tag
  | .addNull _ => nullRegs.any fun e => e.1 == n && e.2.1 == tag
  | _ => false

theorem lastReg_append {cfg : Cfg} {n tag : String} {c : Ty} (more : List (String × String × Ty))
    (hm : ∀ e ∈ more, ¬ (e.1 = n ∧ e.2.1 = tag)) (cfg' : Cfg) (hc : cfg'.custom = cfg.custom ++ more)
    (h : LastReg cfg n tag c) : LastReg cfg' n tag c := by
  obtain ⟨pre, post, hcu, hp⟩ := h
  refine ⟨pre, post ++ more, by rw [hc, hcu]; simp, ?_⟩
  intro e he
  rcases List.mem_append.mp he with h1 | h1
  · exact hp e h1
  · exact hm e h1

theorem apply_lastReg {s : Inst} {o : Op} {n tag : String} {c : Ty}
    (ht : Op.touchesKey n tag o = false) (h : LastReg s.cfg n tag c) : LastReg (apply s o).1.cfg n tag c := by
  cases o with
  | newInstance a b => exact h
  | marshal i d v => exact h
  | unmarshal i d b p => exact h
  | codecFor i d t => exact h
  | register i n' tag' c' =>
    refine lastReg_append [(n', tag', c')] ?_ _ rfl h
    intro e he
    simp only [List.mem_singleton] at he
    subst he
    simpa [Op.touchesKey] using ht
  | addNull i =>
    refine lastReg_append nullRegs ?_ _ rfl h
    intro e he hk
    simp only [Op.touchesKey, List.any_eq_false, Bool.and_eq_true, beq_iff_eq] at ht
    exact ht e he hk

theorem runInst_lastReg {n tag : String} {c : Ty} : ∀ (ops : List Op) (s : Inst),
    (∀ o ∈ ops, Op.touchesKey n tag o = false) → LastReg s.cfg n tag c →
    LastReg (runInst s ops).1.cfg n tag c
  | [], _, _, h => h
  | o :: ops, s, ht, h => by
    rw [runInst]
    exact runInst_lastReg ops _ (fun x hx => ht x (List.mem_cons_of_mem _ hx))
      (apply_lastReg (ht o List.mem_cons_self) h)

/-- the state of instance `i` after `register i n tag c` followed by any ops
that do not store under the same key on that instance: `(n, tag, c)` is its
last registration of the key. -/
theorem lastReg_after_register (i : Nat) (w : World) (hi : i < w.length) (n tag : String) (c : Ty)
    (mid : List Op) (hmid : ∀ o ∈ mid, o.inst = some i → Op.touchesKey n tag o = false) :
    ∃ s, (run (.register i n tag c :: mid) w).1[i]? = some s ∧ LastReg s.cfg n tag c := by
  have hs : w[i]? = some w[i] := List.getElem?_eq_getElem hi
  refine ⟨_, (run_local i _ w _ hs).1, ?_⟩
  have hf : ((Op.register i n tag c :: mid).filter fun o => o.inst = some i) =
      .register i n tag c :: mid.filter fun o => o.inst = some i := by
    simp [Op.inst]
  rw [hf, runInst]
  refine runInst_lastReg _ _ ?_ (lastReg_register _ n tag c)
  intro o ho
  have := List.mem_filter.mp ho
  exact hmid o this.1 (by simpa using this.2)

/-- **registered wins in a world**: after `register i n tag c` — and whatever
happens on other instances, and on this one under other keys —
`CodecForTypeWithTag` of a type named `n` under `tag` answers `c`, and `Marshal`
of such a value (tag "") encodes with `c`. -/
theorem world_registered_wins (i : Nat) (w : World) (hi : i < w.length) (n tag : String) (c : Ty)
    (mid : List Op) (hmid : ∀ o ∈ mid, o.inst = some i → Op.touchesKey n tag o = false)
    (d : TyDef) (hd : d.regName = some n) :
    (step (run (.register i n tag c :: mid) w).1 (.codecFor i d tag)).2 = .codec (.ok c) := by
  obtain ⟨s, hs, hl⟩ := lastReg_after_register i w hi n tag c mid hmid
  rw [step_of_inst (j := i) rfl, onInst_get_self _ hs]
  simp only [apply, build_of_customLoad (customLoad_of_last hd hl)]

theorem world_registered_wins_marshal (i : Nat) (w : World) (hi : i < w.length) (n : String) (c : Ty)
    (mid : List Op) (hmid : ∀ o ∈ mid, o.inst = some i → Op.touchesKey n "" o = false)
    (d : TyDef) (hd : d.regName = some n) (v : Val) :
    (step (run (.register i n "" c :: mid) w).1 (.marshal i d v)).2 = .bytes (.ok (marshal c v)) := by
  obtain ⟨s, hs, hl⟩ := lastReg_after_register i w hi n "" c mid hmid
  rw [step_of_inst (j := i) rfl, onInst_get_self _ hs]
  simp only [apply, marshalWith, build_of_customLoad (customLoad_of_last hd hl)]

end World
