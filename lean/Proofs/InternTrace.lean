import Plenc.InternTrace
import Proofs.Intern
/-
  Proofs.InternTrace — a recorded trace that `conformT` follows is a path of
  `Intern.Reach`.
-/
namespace Intern

theorem reachI_trans {s0 s1 s2 : State} (h1 : Reach s0 s1) (h2 : Reach s1 s2) : Reach s0 s2 := by
  induction h2 with
  | refl => exact h1
  | step _ hs ih => exact .step ih hs

theorem runLabels_reach {s s' : State} {i : Nat} {ls : List Label}
    (h : runLabels s i ls = some s') : Reach s s' := by
  induction ls generalizing s with
  | nil => unfold runLabels at h; cases h; exact .refl
  | cons l ls ih =>
    unfold runLabels at h
    split at h
    · rename_i l' s1 hs
      split at h
      · rename_i hl
        subst hl
        exact reachI_trans (.step .refl (step_iff.mp hs)) (ih h)
      · cases h
    · cases h

theorem branch_reach {s s' : State} {i : Nat} {a b : Label} {ta tb : List Label}
    (h : branch s i a ta b tb = some s') : Reach s s' := by
  unfold branch at h
  split at h
  · rename_i l s1 hs
    have h1 : Reach s s1 := .step .refl (step_iff.mp hs)
    split at h
    · exact reachI_trans h1 (runLabels_reach h)
    · split at h
      · exact reachI_trans h1 (runLabels_reach h)
      · cases h
  · cases h

theorem doTEv_reach {s s' : State} {i : Nat} {e : TEv} (h : doTEv s i e = .ok s') : Reach s s' := by
  unfold doTEv at h
  simp only at h
  split at h
  · -- load
    split at h
    · rename_i s1 h1
      split at h
      · rename_i s2 h2
        cases h
        exact reachI_trans (runLabels_reach h1) (branch_reach h2)
      · cases h
    · cases h
  · cases h; exact .refl
  · split at h
    · rename_i s1 h1
      split at h
      · rename_i s2 h2
        cases h
        exact reachI_trans (runLabels_reach h1) (branch_reach h2)
      · cases h
    · cases h
  · split at h
    · rename_i s1 h1
      cases h
      exact runLabels_reach h1
    · cases h
  · cases h

theorem conformT_reach {s s' : State} {evs : List (Nat × TEv)} {k : Nat}
    (h : conformT s evs k = .ok s') : Reach s s' := by
  induction evs generalizing s k with
  | nil => unfold conformT at h; cases h; exact .refl
  | cons ev rest ih =>
    obtain ⟨i, e⟩ := ev
    unfold conformT at h
    split at h
    · rename_i s1 h1
      exact reachI_trans (doTEv_reach h1) (ih h)
    · cases h

end Intern
