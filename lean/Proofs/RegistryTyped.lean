import Proofs.Registry
/-
  Typing invariant for Plenc/Registry.lean: every codec in the shared registry,
  and every codec returned by a top-level call, has the shape of the type graph
  at its type, to every depth.  Used by Props/C07.lean
  (`result_agrees_with_sequential`).
-/
namespace Registry

/-- pointwise relation between two lists of the same length. -/
def All2 (R : Nat → Nat → Prop) : List Nat → List Nat → Prop
  | [], [] => True
  | a :: as, b :: bs => R a b ∧ All2 R as bs
  | _, _ => False

theorem All2.mono {R R' : Nat → Nat → Prop} :
    ∀ {as bs : List Nat}, (∀ a b, a ∈ as → R a b → R' a b) → All2 R as bs → All2 R' as bs
  | [], [], _, _ => trivial
  | [], _ :: _, _, h => h.elim
  | _ :: _, [], _, h => h.elim
  | a :: _, b :: _, hr, h =>
    ⟨hr a b List.mem_cons_self h.1,
     All2.mono (fun x y hx => hr x y (List.mem_cons_of_mem _ hx)) h.2⟩

theorem All2.snoc {R : Nat → Nat → Prop} {a b : Nat} (hab : R a b) :
    ∀ {as bs : List Nat}, All2 R as bs → All2 R (as ++ [a]) (bs ++ [b])
  | [], [], _ => ⟨hab, trivial⟩
  | [], _ :: _, h => h.elim
  | _ :: _, [], h => h.elim
  | _ :: _, _ :: _, h => ⟨h.1, All2.snoc hab h.2⟩

theorem All2.map_eq {α : Type} {R : Nat → Nat → Prop} {f f' : Nat → α}
    (hr : ∀ a b, R a b → f a = f' b) :
    ∀ {as bs : List Nat}, All2 R as bs → as.map f = bs.map f'
  | [], [], _ => rfl
  | [], _ :: _, h => h.elim
  | _ :: _, [], h => h.elim
  | a :: as, b :: bs, h => by
    simp only [List.map_cons]; rw [hr a b h.1, All2.map_eq hr h.2]

/-- codec node `nd` matches type node `tn` (of type id `ty`), children related by `R`. -/
def NodeT (R : Nat → Nat → Prop) : CNode → TNode → Nat → Prop
  | .basicC, .basic, _ => True
  | .ptrC c, .ptr e, _ => R c e
  | .sliceC c, .slice e, _ => R c e
  | .mapC kc vc, .map k v, _ => R kc k ∧ R vc v
  | .structC ty' fs true, .struct fts, ty => ty' = ty ∧ All2 R fs fts
  | _, _, _ => False

theorem NodeT.mono {R R' : Nat → Nat → Prop} {nd : CNode} {tn : TNode} {ty : Nat}
    (hr : ∀ c t, c ∈ nd.kids → R c t → R' c t) (h : NodeT R nd tn ty) : NodeT R' nd tn ty := by
  cases nd with
  | basicC => cases tn <;> first | exact h | exact h.elim
  | ptrC c => cases tn <;> first | exact hr _ _ (by simp [CNode.kids]) h | exact h.elim
  | sliceC c => cases tn <;> first | exact hr _ _ (by simp [CNode.kids]) h | exact h.elim
  | mapC kc vc =>
    cases tn <;> first
      | exact ⟨hr _ _ (by simp [CNode.kids]) h.1, hr _ _ (by simp [CNode.kids]) h.2⟩
      | exact h.elim
  | structC ty' fs b =>
    cases b with
    | false => cases tn <;> exact h.elim
    | true =>
      cases tn <;> first
        | exact ⟨h.1, All2.mono (fun a b ha => hr a b ha) h.2⟩
        | exact h.elim

theorem NodeT.ok {R : Nat → Nat → Prop} {nd : CNode} {tn : TNode} {ty : Nat}
    (h : NodeT R nd tn ty) : nd.ok = true := by
  cases nd with
  | structC ty' fs b => cases b with
    | false => cases tn <;> exact h.elim
    | true => rfl
  | _ => rfl

/-- `TypedL g h P n c ty`: to depth `n`, the codec at `c` has the shape of type
`ty`, where the walk stops at the pairs in `P` (type, node in progress). -/
def TypedL (g : Nat → TNode) (h : Heap) (P : List (Nat × Nat)) : Nat → Nat → Nat → Prop
  | 0, _, _ => True
  | n + 1, c, ty => c < h.length ∧ ((ty, c) ∈ P ∨ NodeT (TypedL g h P n) (get h c) (g ty) ty)

/-- typed to every depth. -/
def TAll (g : Nat → TNode) (h : Heap) (P : List (Nat × Nat)) (c ty : Nat) : Prop :=
  ∀ n, TypedL g h P n c ty

variable {g : Nat → TNode}

theorem TypedL.mono {h : Heap} {P P' : List (Nat × Nat)} (hp : ∀ e, e ∈ P → e ∈ P') :
    ∀ {n c ty}, TypedL g h P n c ty → TypedL g h P' n c ty
  | 0, _, _, _ => trivial
  | _ + 1, _, _, ht =>
    ⟨ht.1, ht.2.imp (hp _) (NodeT.mono fun _ _ _ h => TypedL.mono hp h)⟩

theorem TypedL.alloc {h : Heap} {P : List (Nat × Nat)} (nd : CNode) :
    ∀ {n c ty}, TypedL g h P n c ty → TypedL g (h ++ [nd]) P n c ty
  | 0, _, _, _ => trivial
  | _ + 1, _, _, ht => by
    refine ⟨by simp; have := ht.1; omega, ht.2.imp id ?_⟩
    rw [get_append_lt ht.1]
    exact NodeT.mono fun _ _ _ h => TypedL.alloc nd h

/-- overwriting an incomplete node: a typed walk never looks inside one. -/
theorem TypedL.set_inc {h : Heap} {P : List (Nat × Nat)} {a : Nat} (nd : CNode)
    (ha : okAt h a = false) :
    ∀ {n c ty}, TypedL g h P n c ty → TypedL g (h.set a nd) P n c ty
  | 0, _, _, _ => trivial
  | _ + 1, c, _, ht => by
    refine ⟨by simp; exact ht.1, ht.2.imp id fun hn => ?_⟩
    have hca : c ≠ a := by
      rintro rfl
      have := hn.ok
      unfold okAt at ha; rw [ha] at this; cases this
    rw [get_set_ne hca]
    exact NodeT.mono (fun _ _ _ h => TypedL.set_inc nd ha h) hn

/-- the node in progress becomes complete: walks that stopped at it now go
through it, and find its fields typed. -/
theorem TypedL.complete {h : Heap} {P : List (Nat × Nat)} {a tya : Nat} {fs fts : List Nat}
    (hg : get h a = .structC tya fs false) (hal : a < h.length) (hty : g tya = .struct fts)
    (hfs : All2 (TAll g h ((tya, a) :: P)) fs fts) :
    ∀ {n c ty}, TypedL g h ((tya, a) :: P) n c ty →
      TypedL g (h.set a (.structC tya fs true)) P n c ty
  | 0, _, _, _ => trivial
  | n + 1, c, ty, ht => by
    refine ⟨by simp; exact ht.1, ?_⟩
    rcases ht.2 with hm | hn
    · rcases List.mem_cons.1 hm with he | hm
      · cases he
        right
        rw [get_set_eq hal, hty]
        exact ⟨rfl, All2.mono (fun c t _ hc => TypedL.complete hg hal hty hfs (hc n)) hfs⟩
      · exact .inl hm
    · right
      have hca : c ≠ a := by
        rintro rfl
        have := hn.ok
        rw [hg] at this; cases this
      rw [get_set_ne hca]
      exact NodeT.mono (fun _ _ _ h => TypedL.complete hg hal hty hfs h) hn

theorem TAll.mono {h : Heap} {P P' : List (Nat × Nat)} {c ty : Nat} (hp : ∀ e, e ∈ P → e ∈ P')
    (ht : TAll g h P c ty) : TAll g h P' c ty := fun n => (ht n).mono hp

theorem TAll.of_nil {h : Heap} {P : List (Nat × Nat)} {c ty : Nat} (ht : TAll g h [] c ty) :
    TAll g h P c ty := ht.mono (fun _ h => by cases h)

theorem TAll.alloc {h : Heap} {P : List (Nat × Nat)} {c ty : Nat} (nd : CNode)
    (ht : TAll g h P c ty) : TAll g (h ++ [nd]) P c ty := fun n => (ht n).alloc nd

theorem TAll.set_inc {h : Heap} {P : List (Nat × Nat)} {a c ty : Nat} (nd : CNode)
    (ha : okAt h a = false) (ht : TAll g h P c ty) : TAll g (h.set a nd) P c ty :=
  fun n => (ht n).set_inc nd ha

/-! ### typing of frames and stacks -/

def Frame.ty : Frame → Nat
  | .call ty | .miss ty | .elemW ty _ | .mapK ty _ | .mapV ty _ | .structB ty _ _ _
  | .structP ty _ _ | .store ty _ | .ret ty _ => ty

/-- (type, node) of the structs in progress. -/
def progPairs : List Frame → List (Nat × Nat)
  | [] => []
  | .structB ty node _ _ :: r => (ty, node) :: progPairs r
  | _ :: r => progPairs r

theorem inProg_eq_progPairs : ∀ st : List Frame, inProg st = (progPairs st).map (·.2)
  | [] => rfl
  | f :: r => by
    cases f <;> simp [inProg, Frame.prog, progPairs, inProg_eq_progPairs r]

def PendT (g : Nat → TNode) (h : Heap) (P : List (Nat × Nat)) (pend : Reg) : Prop :=
  ∀ k c, (k, c) ∈ pend → TAll g h P c k

/-- `up` = type of the call the frame is waiting for (the frame above it). -/
def FrameT (g : Nat → TNode) (h : Heap) (P : List (Nat × Nat)) (up : Option Nat) : Frame → Prop
  | .call _ | .miss _ => True
  | .elemW ty sl => ∃ e, up = some e ∧ g ty = if sl then .slice e else .ptr e
  | .mapK ty v => ∃ k, up = some k ∧ g ty = .map k v
  | .mapV ty kc => ∃ k v, up = some v ∧ g ty = .map k v ∧ TAll g h P kc k
  | .structB ty node pend todo =>
    ∃ fs pre, get h node = .structC ty fs false ∧ All2 (TAll g h P) fs pre ∧
      g ty = .struct (pre ++ up.toList ++ todo) ∧ PendT g h P pend
  | .structP ty node pend => TAll g h P node ty ∧ PendT g h P pend
  | .store ty c => TAll g h P c ty
  | .ret ty c => TAll g h P c ty

/-- the bottom frame is the top-level call for type `cur`. -/
def StackT (g : Nat → TNode) (h : Heap) (P : List (Nat × Nat)) (cur : Nat) :
    Option Nat → List Frame → Prop
  | up, [] => ∀ u, up = some u → u = cur
  | up, f :: rest => FrameT g h P up f ∧ StackT g h P cur (some f.ty) rest

/-- transport along a heap / `P` change that keeps typed codecs typed and the
in-progress nodes of the stack untouched. -/
theorem StackT.imp {h h' : Heap} {P P' : List (Nat × Nat)} {cur : Nat}
    (ht : ∀ c ty, TAll g h P c ty → TAll g h' P' c ty) :
    ∀ {st : List Frame} {up : Option Nat}, (∀ a, a ∈ inProg st → get h' a = get h a) →
      StackT g h P cur up st → StackT g h' P' cur up st
  | [], _, _, hs => hs
  | f :: rest, up, hn, hs => by
    have hrest := StackT.imp ht (st := rest) (fun a ha => hn a (by simp [inProg, ha])) hs.2
    refine ⟨?_, hrest⟩
    have hf := hs.1
    cases f with
    | call _ => trivial
    | miss _ => trivial
    | elemW _ _ => exact hf
    | mapK _ _ => exact hf
    | mapV ty kc =>
      obtain ⟨k, v, h1, h2, h3⟩ := hf
      exact ⟨k, v, h1, h2, ht _ _ h3⟩
    | structB ty node pend todo =>
      obtain ⟨fs, pre, h1, h2, h3, h4⟩ := hf
      refine ⟨fs, pre, ?_, h2.mono (fun a b _ => ht a b), h3, fun k c hk => ht _ _ (h4 k c hk)⟩
      rw [hn node (by simp [inProg, Frame.prog])]; exact h1
    | structP ty node pend => exact ⟨ht _ _ hf.1, fun k c hk => ht _ _ (hf.2 k c hk)⟩
    | store _ _ => exact ht _ _ hf
    | ret _ _ => exact ht _ _ hf

/-! ### registry and view operations -/

def RegT (g : Nat → TNode) (h : Heap) (reg : Reg) : Prop :=
  ∀ ty c, (ty, c) ∈ reg → TAll g h [] c ty

theorem get_struct_lt {h : Heap} {a ty : Nat} {fs : List Nat} {b : Bool}
    (hg : get h a = .structC ty fs b) : a < h.length := by
  apply Classical.byContradiction
  intro hn
  have : h[a]? = none := List.getElem?_eq_none (Nat.le_of_not_lt hn)
  unfold get at hg; rw [this] at hg; cases hg

theorem viewLoad_typed {h : Heap} {reg : Reg} {P : List (Nat × Nat)} {cur ty c : Nat}
    (hreg : RegT g h reg) :
    ∀ {below : List Frame} {up : Option Nat}, StackT g h P cur up below →
      (∀ e, e ∈ progPairs below → e ∈ P) → viewLoad below reg ty = some c → TAll g h P c ty
  | [], _, _, _, hl => (hreg _ _ (lookup_mem hl)).of_nil
  | f :: rest, up, hs, hp, hl => by
    have hrec : (∀ e, e ∈ progPairs rest → e ∈ progPairs (f :: rest)) →
        viewLoad rest reg ty = some c → TAll g h P c ty := fun hsub hl' =>
      viewLoad_typed hreg hs.2 (fun e he => hp e (hsub e he)) hl'
    cases f with
    | structB t node pend todo =>
      obtain ⟨fs, pre, h1, _, _, h4⟩ := hs.1
      simp only [viewLoad] at hl
      split at hl
      · cases hl
        rename_i heq; subst heq
        intro n
        cases n with
        | zero => trivial
        | succ n => exact ⟨get_struct_lt h1, .inl (hp _ (by simp [progPairs]))⟩
      · split at hl
        · cases hl; rename_i hl'; exact h4 _ _ (lookup_mem hl')
        · exact hrec (fun e he => by simp [progPairs, he]) hl
    | _ => exact hrec (fun e he => by simpa [progPairs] using he) hl

theorem regT_loadOrStore {h : Heap} {reg : Reg} {ty c : Nat} (hreg : RegT g h reg)
    (hc : TAll g h [] c ty) :
    RegT g h (loadOrStore reg ty c).1 ∧ TAll g h [] (loadOrStore reg ty c).2 ty := by
  rcases loadOrStore_spec reg ty c with ⟨h1, h2⟩ | ⟨h1, h2⟩
  · rw [h1]; exact ⟨hreg, hreg _ _ h2⟩
  · rw [h1, h2]
    refine ⟨fun t x hm => ?_, hc⟩
    rcases List.mem_append.1 hm with hm | hm
    · exact hreg _ _ hm
    · simp only [List.mem_singleton, Prod.mk.injEq] at hm
      obtain ⟨rfl, rfl⟩ := hm; exact hc

theorem viewStore_typed {h : Heap} {reg : Reg} {P : List (Nat × Nat)} {cur ty c : Nat}
    (hreg : RegT g h reg) (hc : TAll g h P c ty) :
    ∀ {below : List Frame} {up : Option Nat}, StackT g h P cur up below →
      (progPairs below = [] → P = []) →
      progPairs (viewStore below reg ty c).1 = progPairs below ∧
      RegT g h (viewStore below reg ty c).2.1 ∧
      StackT g h P cur up (viewStore below reg ty c).1 ∧
      TAll g h P (viewStore below reg ty c).2.2 ty
  | [], _, hs, hp => by
    have : P = [] := hp rfl
    subst this
    have := regT_loadOrStore hreg hc
    exact ⟨rfl, this.1, hs, this.2⟩
  | f :: rest, up, hs, hp => by
    cases f with
    | structB t node pend todo =>
      obtain ⟨fs, pre, h1, h2, h3, h4⟩ := hs.1
      simp only [viewStore]
      split
      · rename_i c' hl
        exact ⟨rfl, hreg, hs, h4 _ _ (lookup_mem hl)⟩
      · refine ⟨rfl, hreg, ⟨⟨fs, pre, h1, h2, h3, ?_⟩, hs.2⟩, hc⟩
        intro k x hm
        rcases List.mem_append.1 hm with hm | hm
        · exact h4 _ _ hm
        · simp only [List.mem_singleton, Prod.mk.injEq] at hm
          obtain ⟨rfl, rfl⟩ := hm; exact hc
    | _ =>
      all_goals
        obtain ⟨i1, i2, i3, i4⟩ := viewStore_typed hreg hc hs.2
          (fun h0 => hp (by simpa [progPairs] using h0))
        exact ⟨by simpa [viewStore, progPairs] using i1, i2, ⟨hs.1, i3⟩, i4⟩

/-- the typing part of the thread invariant. -/
structure ThreadT (g : Nat → TNode) (h : Heap) (t : Thread) : Prop where
  stack : StackT g h (progPairs t.stack) t.cur none t.stack
  res : ∀ ty c, (ty, some c) ∈ t.results → TAll g h [] c ty

theorem ThreadT.alloc {h : Heap} {t : Thread} (nd : CNode) (hk : ThreadOK h t)
    (ht : ThreadT g h t) : ThreadT g (h ++ [nd]) t :=
  ⟨ht.stack.imp (fun _ _ => TAll.alloc nd) (fun a ha => get_append_lt (hk.prog a ha).1),
   fun ty c hm => (ht.res ty c hm).alloc nd⟩

theorem ThreadT.set_other {h : Heap} {t : Thread} {a : Nat} (nd : CNode)
    (ht : ThreadT g h t) (hn : NotOk h a) (ha : a ∉ inProg t.stack) :
    ThreadT g (h.set a nd) t :=
  ⟨ht.stack.imp (fun _ _ => TAll.set_inc nd hn.2)
     (fun _ hb => get_set_ne (fun e => ha (e ▸ hb))),
   fun ty c hm => (ht.res ty c hm).set_inc nd hn.2⟩

theorem RegT.alloc {h : Heap} {reg : Reg} (nd : CNode) (hr : RegT g h reg) :
    RegT g (h ++ [nd]) reg := fun ty c hm => (hr ty c hm).alloc nd

theorem RegT.set_inc {h : Heap} {reg : Reg} {a : Nat} (nd : CNode) (hr : RegT g h reg)
    (ha : okAt h a = false) : RegT g (h.set a nd) reg := fun ty c hm => (hr ty c hm).set_inc nd ha

/-! ### steps of the goroutine itself -/

theorem TAll.new {h : Heap} {P : List (Nat × Nat)} {nd : CNode} {ty : Nat}
    (hn : ∀ n, NodeT (TypedL g (h ++ [nd]) P n) nd (g ty) ty) : TAll g (h ++ [nd]) P h.length ty := by
  intro n
  cases n with
  | zero => trivial
  | succ n => exact ⟨by simp, .inr (by rw [get_append_len]; exact hn n)⟩

section
variable {h : Heap} {rq : List Nat} {cu : Nat} {rs : List (Nat × Option Nat)}
  {uq : List (Nat × Nat)} {f : Bool} {below : List Frame}

theorem t_complete {ty node : Nat} {pend : Reg} {reg : Reg} (hreg : RegT g h reg)
    (hk : ThreadOK h ⟨.structB ty node pend [] :: below, rq, cu, rs, uq, f⟩)
    (ht : ThreadT g h ⟨.structB ty node pend [] :: below, rq, cu, rs, uq, f⟩) :
    RegT g (setComplete h node) reg ∧
    ThreadT g (setComplete h node) ⟨.structP ty node pend :: below, rq, cu, rs, uq, f⟩ := by
  have hn : NotOk h node := hk.prog node (by simp [inProg, Frame.prog])
  have hnd := hk.nodup
  simp only [inProg, Frame.prog, List.cons_append, List.nil_append, List.nodup_cons] at hnd
  obtain ⟨⟨fs, pre, h1, h2, h3, h4⟩, hrest⟩ := ht.stack
  obtain ⟨ty', fs', h1', he⟩ := setComplete_eq hn
  rw [h1] at h1'; cases h1'
  rw [he]
  simp only [Option.toList, List.append_nil] at h3
  have tr : ∀ c t, TAll g h ((ty, node) :: progPairs below) c t →
      TAll g (h.set node (.structC ty fs true)) (progPairs below) c t :=
    fun c t hc n => TypedL.complete h1 hn.1 h3 h2 (hc n)
  have hnode : TAll g h ((ty, node) :: progPairs below) node ty := by
    intro n
    cases n with
    | zero => trivial
    | succ n => exact ⟨hn.1, .inl List.mem_cons_self⟩
  refine ⟨hreg.set_inc _ hn.2, ⟨⟨⟨tr _ _ hnode, fun k c hm => tr _ _ (h4 k c hm)⟩, ?_⟩, ?_⟩⟩
  · exact hrest.imp tr (fun a ha => get_set_ne (fun e => hnd.1 (e ▸ ha)))
  · exact fun t c hm => (ht.res t c hm).set_inc _ hn.2

theorem t_field {c tc ty node : Nat} {pend : Reg} {todo : List Nat} {reg : Reg}
    (hreg : RegT g h reg)
    (hk : ThreadOK h ⟨.ret tc c :: .structB ty node pend todo :: below, rq, cu, rs, uq, f⟩)
    (ht : ThreadT g h ⟨.ret tc c :: .structB ty node pend todo :: below, rq, cu, rs, uq, f⟩) :
    RegT g (addField h node c) reg ∧
    ThreadT g (addField h node c) ⟨.structB ty node pend todo :: below, rq, cu, rs, uq, f⟩ := by
  have hn : NotOk h node := hk.prog node (by simp [inProg, Frame.prog])
  have hnd := hk.nodup
  simp only [inProg, Frame.prog, List.cons_append, List.nil_append, List.nodup_cons] at hnd
  obtain ⟨hc, ⟨fs, pre, h1, h2, h3, h4⟩, hrest⟩ := ht.stack
  obtain ⟨ty', fs', h1', he⟩ := addField_eq c hn
  rw [h1] at h1'; cases h1'
  rw [he]
  have tr : ∀ x t, TAll g h ((ty, node) :: progPairs below) x t →
      TAll g (h.set node (.structC ty (fs ++ [c]) false)) ((ty, node) :: progPairs below) x t :=
    fun x t hx => hx.set_inc _ hn.2
  refine ⟨hreg.set_inc _ hn.2, ⟨⟨⟨fs ++ [c], pre ++ [tc], get_set_eq hn.1, ?_, ?_,
    fun k x hm => tr _ _ (h4 k x hm)⟩, ?_⟩, ?_⟩⟩
  · exact All2.snoc (tr _ _ hc) (h2.mono (fun a b _ => tr a b))
  · simpa [Frame.ty] using h3
  · exact hrest.imp tr (fun a ha => get_set_ne (fun e => hnd.1 (e ▸ ha)))
  · exact fun t x hm => (ht.res t x hm).set_inc _ hn.2

theorem t_store {ty c : Nat} {reg : Reg} (hreg : RegT g h reg)
    (ht : ThreadT g h ⟨.store ty c :: below, rq, cu, rs, uq, f⟩) :
    RegT g h (viewStore below reg ty c).2.1 ∧
    ThreadT g h ⟨.ret ty (viewStore below reg ty c).2.2 :: (viewStore below reg ty c).1,
      rq, cu, rs, uq, f⟩ := by
  obtain ⟨hc, hrest⟩ := ht.stack
  obtain ⟨i1, i2, i3, i4⟩ := viewStore_typed (ty := ty) hreg hc hrest id
  refine ⟨i2, ⟨?_, ht.res⟩⟩
  show StackT g h (progPairs (viewStore below reg ty c).1) cu none _
  rw [i1]
  exact ⟨i4, i3⟩

theorem t_publish {ty node k c : Nat} {pend : Reg} {reg : Reg} (hreg : RegT g h reg)
    (ht : ThreadT g h ⟨.structP ty node ((k, c) :: pend) :: below, rq, cu, rs, uq, f⟩) :
    RegT g h (viewStore below reg k c).2.1 ∧
    ThreadT g h ⟨.structP ty node pend :: (viewStore below reg k c).1, rq, cu, rs, uq, f⟩ := by
  obtain ⟨⟨hnode, hpend⟩, hrest⟩ := ht.stack
  obtain ⟨i1, i2, i3, _⟩ := viewStore_typed (ty := k) hreg (hpend k c List.mem_cons_self) hrest id
  refine ⟨i2, ⟨?_, ht.res⟩⟩
  show StackT g h (progPairs (viewStore below reg k c).1) cu none _
  rw [i1]
  exact ⟨⟨hnode, fun k' c' hm => hpend k' c' (List.mem_cons_of_mem _ hm)⟩, i3⟩

/-- allocation of an immutable node: the new frame `store ty n` replaces the
frames `drop`, the rest `keep` stays. -/
theorem t_alloc {st keep : List Frame} {nd : CNode} {ty : Nat} {reg : Reg} (hreg : RegT g h reg)
    (hk : ThreadOK h ⟨st, rq, cu, rs, uq, f⟩)
    (ht : ThreadT g h ⟨st, rq, cu, rs, uq, f⟩)
    (hkeep : StackT g h (progPairs st) cu (some ty) keep) (hpp : progPairs keep = progPairs st)
    (hsub : ∀ a, a ∈ inProg keep → a ∈ inProg st)
    (hn : ∀ n, NodeT (TypedL g (h ++ [nd]) (progPairs st) n) nd (g ty) ty) :
    RegT g (h ++ [nd]) reg ∧
    ThreadT g (h ++ [nd]) ⟨.store ty h.length :: keep, rq, cu, rs, uq, f⟩ := by
  refine ⟨hreg.alloc nd, ⟨?_, fun t c hm => (ht.res t c hm).alloc nd⟩⟩
  show StackT g (h ++ [nd]) (progPairs keep) cu none _
  rw [hpp]
  exact ⟨TAll.new hn, hkeep.imp (fun _ _ => TAll.alloc nd)
    (fun a ha => get_append_lt (hk.prog a (hsub a ha)).1)⟩

end
theorem stepCore_typed {depth : Nat} {reg reg' : Reg} {h h' : Heap} {t t' : Thread}
    (hreg : RegT g h reg) (hk : ThreadOK h t) (ht : ThreadT g h t)
    (hs : stepCore false g depth reg h t = some (reg', h', t')) :
    RegT g h' reg' ∧ ThreadT g h' t' := by
  obtain ⟨stack, requests, cur, results, useQ, fault⟩ := t
  unfold stepCore at hs
  simp only [Bool.false_eq_true, ↓reduceIte] at hs
  split at hs
  · split at hs
    · cases hs; exact ⟨hreg, ⟨ht.stack, ht.res⟩⟩
    · split at hs
      · cases hs
      · cases hs
        exact ⟨hreg, ⟨⟨trivial, fun u hu => by cases hu; rfl⟩, ht.res⟩⟩
  · split at hs
    · -- call
      obtain ⟨_, hrest⟩ := ht.stack
      split at hs
      · cases hs
        exact ⟨hreg, ⟨⟨viewLoad_typed hreg hrest (fun e he => he) ‹_›, hrest⟩, ht.res⟩⟩
      · cases hs; exact ⟨hreg, ⟨⟨trivial, hrest⟩, ht.res⟩⟩
    · -- miss
      obtain ⟨_, hrest⟩ := ht.stack
      split at hs
      · cases hs
        rename_i hg
        exact t_alloc hreg hk ht hrest rfl (fun a ha => ha) (fun n => by rw [hg]; trivial)
      · cases hs; rename_i hg
        exact ⟨hreg, ⟨⟨trivial, ⟨_, rfl, by simp [hg, Frame.ty]⟩, hrest⟩, ht.res⟩⟩
      · cases hs; rename_i hg
        exact ⟨hreg, ⟨⟨trivial, ⟨_, rfl, by simp [hg, Frame.ty]⟩, hrest⟩, ht.res⟩⟩
      · cases hs; rename_i hg
        exact ⟨hreg, ⟨⟨trivial, ⟨_, rfl, hg⟩, hrest⟩, ht.res⟩⟩
      · cases hs; rename_i hg
        refine ⟨hreg.alloc _, ⟨⟨⟨[], [], get_append_len _ _, trivial, by simp [hg],
          fun _ _ hm => by cases hm⟩, ?_⟩, fun t c hm => (ht.res t c hm).alloc _⟩⟩
        exact hrest.imp
          (fun _ _ hc => (hc.alloc _).mono (fun e he => List.mem_cons_of_mem _ he))
          (fun a ha => get_append_lt (hk.prog a ha).1)
      · cases hs
        exact ⟨hreg, ⟨fun u hu => (by cases hu), fun t c hm => ht.res t c (by
          simpa using hm)⟩⟩
    · -- structB
      split at hs
      · cases hs
        obtain ⟨⟨fs, pre, h1, h2, h3, h4⟩, hrest⟩ := ht.stack
        exact ⟨hreg, ⟨⟨trivial, ⟨fs, pre, h1, h2, by simpa [Frame.ty] using h3, h4⟩, hrest⟩, ht.res⟩⟩
      · cases hs; exact t_complete hreg hk ht
    · -- structP
      split at hs
      · cases hs; exact t_publish hreg ht
      · cases hs
        obtain ⟨⟨hnode, _⟩, hrest⟩ := ht.stack
        exact ⟨hreg, ⟨⟨hnode, hrest⟩, ht.res⟩⟩
    · -- store
      cases hs; exact t_store hreg ht
    · -- ret
      split at hs
      · cases hs
        obtain ⟨hc, hcur⟩ := ht.stack
        have : _ = cur := hcur _ rfl
        refine ⟨hreg, ⟨fun u hu => (by cases hu), fun t c hm => ?_⟩⟩
        rcases List.mem_cons.1 hm with he | hm
        · cases he; exact this ▸ hc
        · exact ht.res t c hm
      · split at hs
        · cases hs
          obtain ⟨hc, ⟨e, he, hg⟩, hrest⟩ := ht.stack
          cases he
          refine t_alloc hreg hk ht hrest rfl (fun a ha => ha) (fun n => ?_)
          rw [hg]
          split <;> exact (hc.alloc _) n
        · cases hs
          obtain ⟨hc, ⟨k, he, hg⟩, hrest⟩ := ht.stack
          cases he
          exact ⟨hreg, ⟨⟨trivial, ⟨_, _, rfl, hg, hc⟩, hrest⟩, ht.res⟩⟩
        · cases hs
          obtain ⟨hc, ⟨k, v, he, hg, hkc⟩, hrest⟩ := ht.stack
          cases he
          refine t_alloc hreg hk ht hrest rfl (fun a ha => ha) (fun n => ?_)
          rw [hg]
          exact ⟨(hkc.alloc _) n, (hc.alloc _) n⟩
        · cases hs; exact t_field hreg hk ht
        · cases hs
    · cases hs

/-! ### the global typing invariant -/

structure TInv (s : State) : Prop where
  reg : RegT s.graph s.heap s.registry
  thr : ∀ i, ThreadT s.graph s.heap (s.threads i)

theorem tinv_init (g : Nat → TNode) (reqs : List (List Nat)) (d : Nat) : TInv (init g reqs d) :=
  ⟨fun _ _ hm => (by cases hm), fun _ => ⟨fun _ hu => (by cases hu), fun _ _ hm => (by cases hm)⟩⟩

theorem step_tinv {s s' : State} {i : Nat} (hi : Inv s) (ht : TInv s)
    (hs : stepThread s i = some s') : TInv s' := by
  unfold stepThread stepGen at hs
  cases hc : stepCore false s.graph s.useDepth s.registry s.heap (s.threads i) with
  | none => rw [hc] at hs; cases hs
  | some r =>
    obtain ⟨reg', h', t'⟩ := r
    rw [hc] at hs
    cases hs
    obtain ⟨_, _, p3⟩ := stepCore_ok hi.reg (hi.thr i) hc
    obtain ⟨q1, q2⟩ := stepCore_typed ht.reg (hi.thr i) (ht.thr i) hc
    refine ⟨q1, fun j => ?_⟩
    show ThreadT s.graph h' (if j = i then t' else s.threads j)
    split
    · exact q2
    · rename_i hji
      rcases p3 with ⟨e, _⟩ | ⟨nd, e, _⟩ | ⟨a, nd, ha, e, _⟩
      · rw [e]; exact ht.thr j
      · rw [e]; exact (ht.thr j).alloc nd (hi.thr j)
      · rw [e]
        exact (ht.thr j).set_other nd ((hi.thr i).prog a ha) (hi.disj i j a (Ne.symm hji) ha)

theorem reorder_tinv {s s' : State} {i : Nat} (ht : TInv s) (hs : Reorder s i s') : TInv s' := by
  cases hs with
  | @mk ty node pend pend' below hst hperm =>
    refine ⟨ht.reg, fun j => ?_⟩
    show ThreadT s.graph s.heap (if j = i then _ else s.threads j)
    split
    · have h0 := ht.thr i
      have hst' := h0.stack
      rw [hst] at hst'
      obtain ⟨⟨hnode, hpend⟩, hrest⟩ := hst'
      exact ⟨⟨⟨hnode, fun k c hm => hpend k c (hperm.mem_iff.1 hm)⟩, hrest⟩, h0.res⟩
    · exact ht.thr j

theorem reach_graph {s0 s : State} (hr : Reach s0 s) : s.graph = s0.graph := by
  induction hr with
  | refl => rfl
  | @step s1 s2 i _ hs ih =>
    unfold stepThread stepGen at hs
    cases hc : stepCore false s1.graph s1.useDepth s1.registry s1.heap (s1.threads i) with
    | none => rw [hc] at hs; cases hs
    | some r => rw [hc] at hs; cases hs; exact ih
  | reorder _ hs ih => cases hs; exact ih

theorem reach_tinv {s0 s : State} (h0 : Inv s0) (t0 : TInv s0) (hr : Reach s0 s) : TInv s := by
  induction hr with
  | refl => exact t0
  | step hr' hs ih => exact step_tinv (reach_inv h0 hr') ih hs
  | reorder _ hs ih => exact reorder_tinv ih hs

/-! ### typed codecs unfold to the type graph -/

theorem typed_unfold {g : Nat → TNode} {h : Heap} :
    ∀ {n c ty}, TypedL g h [] n c ty → unfoldC h n c = unfoldT g n ty
  | 0, _, _, _ => rfl
  | n + 1, c, ty, ht => by
    rcases ht.2 with hm | hn
    · cases hm
    · have ih : ∀ a b, TypedL g h [] n a b → unfoldC h n a = unfoldT g n b :=
        fun _ _ hab => typed_unfold hab
      simp only [unfoldC, unfoldT]
      cases hc : get h c with
      | basicC => rw [hc] at hn; cases hg : g ty <;> rw [hg] at hn <;> first | rfl | exact hn.elim
      | ptrC x =>
        rw [hc] at hn
        cases hg : g ty <;> rw [hg] at hn <;> first | exact hn.elim | (simp only; rw [ih _ _ hn])
      | sliceC x =>
        rw [hc] at hn
        cases hg : g ty <;> rw [hg] at hn <;> first | exact hn.elim | (simp only; rw [ih _ _ hn])
      | mapC k v =>
        rw [hc] at hn
        cases hg : g ty <;> rw [hg] at hn <;> first
          | exact hn.elim
          | (simp only; rw [ih _ _ hn.1, ih _ _ hn.2])
      | structC ty' fs b =>
        rw [hc] at hn
        cases b with
        | false => cases hg : g ty <;> rw [hg] at hn <;> exact hn.elim
        | true =>
          cases hg : g ty <;> rw [hg] at hn <;> first
            | exact hn.elim
            | (simp only; rw [hn.1, All2.map_eq ih hn.2])

/-! ### the recorded call types are the requests, in order -/

/-- finished calls, the call in progress, the calls still to make. -/
def Thread.hist (t : Thread) : List Nat :=
  t.results.reverse.map (·.1) ++ (if t.stack.isEmpty then [] else [t.cur]) ++ t.requests

theorem stepCore_hist {g : Nat → TNode} {depth : Nat} {reg reg' : Reg} {h h' : Heap}
    {t t' : Thread} (hs : stepCore false g depth reg h t = some (reg', h', t')) :
    t'.hist = t.hist := by
  obtain ⟨stack, requests, cur, results, useQ, fault⟩ := t
  unfold stepCore at hs
  simp only [Bool.false_eq_true, ↓reduceIte] at hs
  repeat' split at hs
  all_goals first
    | (cases hs; done)
    | (cases hs; simp [Thread.hist])

theorem reach_hist {g : Nat → TNode} {reqs : List (List Nat)} {d : Nat} {s : State}
    (hr : Reach (init g reqs d) s) (i : Nat) : (s.threads i).hist = (reqs[i]?).getD [] := by
  induction hr with
  | refl => simp [init, Thread.idle, Thread.hist]
  | @step s1 s2 j _ hs ih =>
    unfold stepThread stepGen at hs
    cases hc : stepCore false s1.graph s1.useDepth s1.registry s1.heap (s1.threads j) with
    | none => rw [hc] at hs; cases hs
    | some r =>
      rw [hc] at hs; cases hs
      show (if i = j then r.2.2 else s1.threads i).hist = _
      split
      · rename_i e; subst e; rw [stepCore_hist hc]; exact ih
      · exact ih
  | @reorder s1 s2 j _ hs ih =>
    cases hs with
    | mk hst _ =>
      show (if i = j then _ else s1.threads i).hist = _
      split
      · rename_i e; subst e
        rw [← ih]; simp [Thread.hist, hst]
      · exact ih

end Registry
