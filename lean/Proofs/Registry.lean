import Plenc.Registry
/-
  Helper lemmas for Props/C07.lean: reachability in the codec heap, the
  thread-local invariant, and its preservation by every step of the repaired
  protocol (Plenc/Registry.lean).
-/
namespace Registry

/-! ### heap access -/

theorem get_append_lt {h : Heap} {nd : CNode} {a : Nat} (ha : a < h.length) :
    get (h ++ [nd]) a = get h a := by
  unfold get; rw [List.getElem?_append_left ha]

theorem get_append_len (h : Heap) (nd : CNode) : get (h ++ [nd]) h.length = nd := by
  unfold get; simp

theorem get_set_eq {h : Heap} {nd : CNode} {a : Nat} (ha : a < h.length) :
    get (h.set a nd) a = nd := by
  unfold get; simp [ha]

theorem get_set_ne {h : Heap} {nd : CNode} {a x : Nat} (hx : x ≠ a) :
    get (h.set a nd) x = get h x := by
  unfold get; rw [List.getElem?_set_ne (Ne.symm hx)]

/-- an in-range struct node that is not complete. -/
def NotOk (h : Heap) (a : Nat) : Prop := a < h.length ∧ okAt h a = false

theorem NotOk.struct {h : Heap} {a : Nat} (hn : NotOk h a) :
    ∃ ty fs, get h a = .structC ty fs false := by
  have h2 := hn.2
  unfold okAt at h2
  cases hg : get h a with
  | structC ty fs b =>
    cases b with
    | false => exact ⟨ty, fs, rfl⟩
    | true => rw [hg] at h2; simp [CNode.ok] at h2
  | _ => rw [hg] at h2; simp [CNode.ok] at h2

/-! ### reachability -/

/-- `RF h r x`: `x` is reachable from `r` along codec edges. -/
inductive RF (h : Heap) (r : Nat) : Nat → Prop where
  | root : RF h r r
  | step {a c : Nat} : RF h r a → c ∈ kids h a → RF h r c

theorem RF.head {h : Heap} {r c x : Nat} (hc : c ∈ kids h r) (hx : RF h c x) : RF h r x := by
  induction hx with
  | root => exact .step .root hc
  | step _ hk ih => exact .step ih hk

theorem RF.cases_head {h : Heap} {r x : Nat} (hx : RF h r x) :
    x = r ∨ ∃ c, c ∈ kids h r ∧ RF h c x := by
  induction hx with
  | root => exact .inl rfl
  | @step a c _ hk ih =>
    rcases ih with rfl | ⟨c0, hc0, hr⟩
    · exact .inr ⟨c, hk, .root⟩
    · exact .inr ⟨c0, hc0, .step hr hk⟩

/-- if the edges of every node reachable in `h` are unchanged or fewer in `h'`,
nothing new is reachable in `h'`. -/
theorem RF.congr {h h' : Heap} {r x : Nat}
    (hk : ∀ y, RF h r y → ∀ c, c ∈ kids h' y → c ∈ kids h y) (hx : RF h' r x) : RF h r x := by
  induction hx with
  | root => exact .root
  | step _ hc ih => exact .step ih (hk _ ih _ hc)

/-! ### "everything reachable is complete, except the nodes in `L`" -/

/-- every node reachable from `r` is in range and complete (or not a struct),
or is one of the addresses in `L` (the struct nodes the owning goroutine is
still building). -/
def Semi (h : Heap) (L : List Nat) (r : Nat) : Prop :=
  ∀ x, RF h r x → x < h.length ∧ (okAt h x = true ∨ x ∈ L)

/-- every node reachable from `r` is complete. -/
abbrev Good (h : Heap) (r : Nat) : Prop := Semi h [] r

theorem Semi.mono {h : Heap} {L L' : List Nat} {r : Nat} (hs : Semi h L r)
    (hl : ∀ a, a ∈ L → a ∈ L') : Semi h L' r := fun x hx =>
  ⟨(hs x hx).1, (hs x hx).2.imp id (hl x)⟩

theorem Semi.of_good {h : Heap} {L : List Nat} {r : Nat} (hs : Good h r) : Semi h L r :=
  hs.mono (fun _ h => by cases h)

theorem Semi.lt {h : Heap} {L : List Nat} {r : Nat} (hs : Semi h L r) : r < h.length :=
  (hs r .root).1

theorem Semi.kid {h : Heap} {L : List Nat} {r c : Nat} (hs : Semi h L r) (hc : c ∈ kids h r) :
    Semi h L c := fun x hx => hs x (RF.head hc hx)

theorem okAt_append_lt {h : Heap} {nd : CNode} {a : Nat} (ha : a < h.length) :
    okAt (h ++ [nd]) a = okAt h a := by unfold okAt; rw [get_append_lt ha]

theorem kids_append_lt {h : Heap} {nd : CNode} {a : Nat} (ha : a < h.length) :
    kids (h ++ [nd]) a = kids h a := by unfold kids; rw [get_append_lt ha]

theorem Semi.alloc {h : Heap} {L : List Nat} {r : Nat} (nd : CNode) (hs : Semi h L r) :
    Semi (h ++ [nd]) L r := by
  intro x hx
  have hx' : RF h r x := RF.congr (fun y hy c hc => by
    rw [kids_append_lt (hs y hy).1] at hc; exact hc) hx
  have := hs x hx'
  refine ⟨by simp; omega, ?_⟩
  rw [okAt_append_lt this.1]; exact this.2

/-- the freshly allocated node. -/
theorem Semi.new {h : Heap} {L : List Nat} {nd : CNode}
    (hk : ∀ c, c ∈ nd.kids → Semi (h ++ [nd]) L c)
    (ho : nd.ok = true ∨ h.length ∈ L) : Semi (h ++ [nd]) L h.length := by
  intro x hx
  rcases hx.cases_head with rfl | ⟨c, hc, hr⟩
  · refine ⟨by simp, ?_⟩
    unfold okAt; rw [get_append_len]; exact ho
  · unfold kids at hc; rw [get_append_len] at hc
    exact hk c hc x hr

theorem NotOk.alloc {h : Heap} {a : Nat} (nd : CNode) (hn : NotOk h a) : NotOk (h ++ [nd]) a :=
  ⟨by simp; have := hn.1; omega, by rw [okAt_append_lt hn.1]; exact hn.2⟩

/-- overwriting an incomplete node that is not in `L`: it was not reachable. -/
theorem Semi.set_other {h : Heap} {L : List Nat} {r a : Nat} (nd : CNode) (hs : Semi h L r)
    (hn : NotOk h a) (hl : a ∉ L) : Semi (h.set a nd) L r := by
  have hne : ∀ x, RF h r x → x ≠ a := by
    intro x hx hxa
    subst hxa
    rcases (hs x hx).2 with h1 | h1
    · rw [hn.2] at h1; cases h1
    · exact hl h1
  intro x hx
  have hx' : RF h r x := RF.congr (fun y hy c hc => by
    unfold kids at hc ⊢; rw [get_set_ne (hne y hy)] at hc; exact hc) hx
  refine ⟨by simp; exact (hs x hx').1, ?_⟩
  unfold okAt; rw [get_set_ne (hne x hx')]; exact (hs x hx').2

theorem NotOk.set_other {h : Heap} {a b : Nat} (nd : CNode) (hn : NotOk h b) (hne : b ≠ a) :
    NotOk (h.set a nd) b :=
  ⟨by simp; exact hn.1, by unfold okAt; rw [get_set_ne hne]; exact hn.2⟩

/-! ### the two mutations of a struct node -/

theorem RF.addkid {h : Heap} {a c ty : Nat} {fs : List Nat} {b : Bool}
    (hg : get h a = .structC ty fs b) (ha : a < h.length) {r x : Nat}
    (hx : RF (h.set a (.structC ty (fs ++ [c]) b)) r x) : RF h r x ∨ RF h c x := by
  induction hx with
  | root => exact .inl .root
  | @step y k _ hk ih =>
    by_cases hy : y = a
    · subst hy
      unfold kids at hk; rw [get_set_eq ha] at hk
      simp only [CNode.kids, List.mem_append, List.mem_singleton] at hk
      rcases hk with hk | rfl
      · have hk' : k ∈ kids h y := by unfold kids; rw [hg]; exact hk
        exact ih.imp (fun i => .step i hk') (fun i => .step i hk')
      · exact .inr .root
    · have hk' : k ∈ kids h y := by
        unfold kids at hk ⊢; rw [get_set_ne hy] at hk; exact hk
      exact ih.imp (fun i => .step i hk') (fun i => .step i hk')

theorem okAt_set_field {h : Heap} {a c ty : Nat} {fs : List Nat} {b : Bool}
    (hg : get h a = .structC ty fs b) (ha : a < h.length) (x : Nat) :
    okAt (h.set a (.structC ty (fs ++ [c]) b)) x = okAt h x := by
  unfold okAt
  by_cases hx : x = a
  · subst hx; rw [get_set_eq ha, hg]; cases b <;> rfl
  · rw [get_set_ne hx]

theorem Semi.addField' {h : Heap} {L : List Nat} {a c ty : Nat} {fs : List Nat} {b : Bool} {r : Nat}
    (hg : get h a = .structC ty fs b) (ha : a < h.length)
    (hr : Semi h L r) (hc : Semi h L c) : Semi (h.set a (.structC ty (fs ++ [c]) b)) L r := by
  intro x hx
  rw [okAt_set_field hg ha]
  simp only [List.length_set]
  rcases RF.addkid hg ha hx with h1 | h1
  · exact hr x h1
  · exact hc x h1

theorem addField_eq {h : Heap} {a : Nat} (c : Nat) (hn : NotOk h a) :
    ∃ ty fs, get h a = .structC ty fs false ∧
      addField h a c = h.set a (.structC ty (fs ++ [c]) false) := by
  obtain ⟨ty, fs, hg⟩ := hn.struct
  exact ⟨ty, fs, hg, by unfold addField; rw [hg]⟩

theorem Semi.addField {h : Heap} {L : List Nat} {a c r : Nat} (hn : NotOk h a)
    (hr : Semi h L r) (hc : Semi h L c) : Semi (addField h a c) L r := by
  obtain ⟨ty, fs, hg, he⟩ := addField_eq c hn
  rw [he]; exact Semi.addField' hg hn.1 hr hc

theorem NotOk.addField {h : Heap} {a b : Nat} (c : Nat) (hn : NotOk h a) (hb : NotOk h b) :
    NotOk (addField h a c) b := by
  obtain ⟨ty, fs, hg, he⟩ := addField_eq c hn
  rw [he]
  exact ⟨by simp; exact hb.1, by rw [okAt_set_field hg hn.1]; exact hb.2⟩

theorem setComplete_eq {h : Heap} {a : Nat} (hn : NotOk h a) :
    ∃ ty fs, get h a = .structC ty fs false ∧
      setComplete h a = h.set a (.structC ty fs true) := by
  obtain ⟨ty, fs, hg⟩ := hn.struct
  exact ⟨ty, fs, hg, by unfold setComplete; rw [hg]⟩

theorem Semi.complete {h : Heap} {L : List Nat} {a r : Nat} (hn : NotOk h a)
    (hr : Semi h (a :: L) r) : Semi (setComplete h a) L r := by
  obtain ⟨ty, fs, hg, he⟩ := setComplete_eq hn
  rw [he]
  have hkids : ∀ y, kids (h.set a (.structC ty fs true)) y = kids h y := by
    intro y
    unfold kids
    by_cases hy : y = a
    · subst hy; rw [get_set_eq hn.1, hg]; rfl
    · rw [get_set_ne hy]
  intro x hx
  have hx' : RF h r x := RF.congr (fun y _ c hc => by rw [hkids] at hc; exact hc) hx
  refine ⟨by simp; exact (hr x hx').1, ?_⟩
  by_cases hxa : x = a
  · subst hxa; left; unfold okAt; rw [get_set_eq hn.1]; rfl
  · unfold okAt; rw [get_set_ne hxa]
    rcases (hr x hx').2 with h1 | h1
    · exact .inl h1
    · right; simpa [hxa] using h1

theorem NotOk.complete_other {h : Heap} {a b : Nat} (hn : NotOk h a) (hb : NotOk h b)
    (hne : b ≠ a) : NotOk (setComplete h a) b := by
  obtain ⟨ty, fs, _, he⟩ := setComplete_eq hn
  rw [he]; exact hb.set_other _ hne

/-! ### what a goroutine holds privately -/

/-- codec addresses held in a frame (local variables and the overlay). -/
def Frame.roots : Frame → List Nat
  | .mapV _ kc => [kc]
  | .structB _ node pend _ => node :: pend.map (·.2)
  | .structP _ node pend => node :: pend.map (·.2)
  | .store _ c => [c]
  | .ret _ c => [c]
  | _ => []

/-- the struct node a frame is still building. -/
def Frame.prog : Frame → List Nat
  | .structB _ node _ _ => [node]
  | _ => []

def stackRoots : List Frame → List Nat
  | [] => []
  | f :: r => f.roots ++ stackRoots r

/-- the in-progress struct nodes of a stack. -/
def inProg : List Frame → List Nat
  | [] => []
  | f :: r => f.prog ++ inProg r

/-- codecs a goroutine got back from finished top-level calls. -/
def Thread.doneRoots (t : Thread) : List Nat := t.results.filterMap (·.2) ++ t.useQ.map (·.1)

theorem inProg_sub_roots {st : List Frame} {a : Nat} (h : a ∈ inProg st) : a ∈ stackRoots st := by
  induction st with
  | nil => cases h
  | cons f r ih =>
    simp only [inProg, stackRoots, List.mem_append] at h ⊢
    rcases h with h | h
    · left; cases f <;> simp_all [Frame.prog, Frame.roots]
    · exact .inr (ih h)

/-- every entry of the shared registry reaches complete nodes only. -/
def RegOK (h : Heap) (reg : Reg) : Prop := ∀ e, e ∈ reg → Good h e.2

/-- the thread-local invariant (I2). -/
structure ThreadOK (h : Heap) (t : Thread) : Prop where
  roots : ∀ r, r ∈ stackRoots t.stack → Semi h (inProg t.stack) r
  done : ∀ r, r ∈ t.doneRoots → Good h r
  prog : ∀ a, a ∈ inProg t.stack → NotOk h a
  nodup : (inProg t.stack).Nodup
  nofault : t.fault = false

theorem lookup_mem {r : Reg} {ty c : Nat} (h : lookup r ty = some c) : (ty, c) ∈ r := by
  induction r with
  | nil => cases h
  | cons e r ih =>
    obtain ⟨k, v⟩ := e
    simp only [lookup] at h
    split at h
    · cases h; subst_vars; exact List.mem_cons_self
    · exact List.mem_cons_of_mem _ (ih h)

theorem viewLoad_spec {below : List Frame} {reg : Reg} {ty c : Nat}
    (h : viewLoad below reg ty = some c) :
    c ∈ stackRoots below ∨ ∃ e, e ∈ reg ∧ e.2 = c := by
  induction below with
  | nil => exact .inr ⟨_, lookup_mem h, rfl⟩
  | cons f rest ih =>
    have hr : viewLoad rest reg ty = some c → c ∈ stackRoots (f :: rest) ∨ ∃ e, e ∈ reg ∧ e.2 = c :=
      fun h => (ih h).imp (fun h => by simp [stackRoots, h]) id
    cases f with
    | structB t node pend todo =>
      simp only [viewLoad] at h
      split at h
      · cases h; left; simp [stackRoots, Frame.roots]
      · split at h
        · cases h; rename_i hl
          left; simp only [stackRoots, Frame.roots, List.mem_append, List.mem_cons, List.mem_map]
          exact .inl (.inr ⟨_, lookup_mem hl, rfl⟩)
        · exact hr h
    | _ => exact hr h

theorem loadOrStore_spec (r : Reg) (ty c : Nat) :
    ((loadOrStore r ty c).1 = r ∧ (ty, (loadOrStore r ty c).2) ∈ r) ∨
    ((loadOrStore r ty c).1 = r ++ [(ty, c)] ∧ (loadOrStore r ty c).2 = c) := by
  unfold loadOrStore
  split
  · rename_i hl; exact .inl ⟨rfl, lookup_mem hl⟩
  · exact .inr ⟨rfl, rfl⟩

theorem regOK_loadOrStore {h : Heap} {reg : Reg} (ty : Nat) {c : Nat} (hreg : RegOK h reg)
    (hc : Good h c) : RegOK h (loadOrStore reg ty c).1 ∧ Good h (loadOrStore reg ty c).2 := by
  rcases loadOrStore_spec reg ty c with ⟨h1, h2⟩ | ⟨h1, h2⟩
  · rw [h1]; exact ⟨hreg, hreg _ h2⟩
  · rw [h1, h2]
    refine ⟨?_, hc⟩
    intro e he
    rcases List.mem_append.1 he with he | he
    · exact hreg e he
    · simp only [List.mem_singleton] at he; subst he; exact hc

/-- `StoreOrSwap` through the view keeps both invariants: it reaches the shared
registry only when no enclosing struct is in progress (`L = []`). -/
theorem viewStore_ok {h : Heap} {reg : Reg} {ty c : Nat} {L : List Nat} (hreg : RegOK h reg)
    (hc : Semi h L c) :
    ∀ {below : List Frame}, (∀ r, r ∈ stackRoots below → Semi h L r) →
      (inProg below = [] → L = []) →
      inProg (viewStore below reg ty c).1 = inProg below ∧
      RegOK h (viewStore below reg ty c).2.1 ∧
      (∀ r, r ∈ stackRoots (viewStore below reg ty c).1 → Semi h L r) ∧
      Semi h L (viewStore below reg ty c).2.2 := by
  intro below
  induction below with
  | nil =>
    intro _ hL
    have : L = [] := hL rfl
    subst this
    have := regOK_loadOrStore ty hreg hc
    refine ⟨rfl, this.1, ?_, this.2⟩
    intro r hr
    simp [viewStore, stackRoots] at hr
  | cons f rest ih =>
    intro hroots hL
    have hrest : ∀ r, r ∈ stackRoots rest → Semi h L r := fun r hr =>
      hroots r (by simp [stackRoots, hr])
    cases f with
    | structB t node pend todo =>
      simp only [viewStore]
      split
      · rename_i c' hl
        refine ⟨rfl, hreg, hroots, hroots _ ?_⟩
        simp only [stackRoots, Frame.roots, List.mem_append, List.mem_cons, List.mem_map]
        exact .inl (.inr ⟨_, lookup_mem hl, rfl⟩)
      · refine ⟨rfl, hreg, ?_, hc⟩
        intro r hr
        simp only [stackRoots, Frame.roots, List.mem_append, List.mem_cons, List.mem_map] at hr
        rcases hr with (rfl | ⟨e, he | rfl | he, rfl⟩) | hr
        · exact hroots _ (by simp [stackRoots, Frame.roots])
        · refine hroots _ ?_
          simp only [stackRoots, Frame.roots, List.mem_append, List.mem_cons, List.mem_map]
          exact .inl (.inr ⟨e, he, rfl⟩)
        · exact hc
        · cases he
        · exact hrest r hr
    | _ =>
      all_goals
        have hp : inProg rest = [] → L = [] := fun h0 => hL (by simp [inProg, Frame.prog, h0])
        obtain ⟨i1, i2, i3, i4⟩ := ih hrest hp
        refine ⟨by simp [viewStore, inProg, i1], i2, ?_, i4⟩
        intro r hr
        simp only [viewStore, stackRoots, List.mem_append] at hr
        rcases hr with hr | hr
        · exact hroots r (by simp [stackRoots, hr])
        · exact i3 r hr

/-! ### steps of other goroutines -/

theorem RegOK.alloc {h : Heap} {reg : Reg} (nd : CNode) (hr : RegOK h reg) : RegOK (h ++ [nd]) reg :=
  fun e he => (hr e he).alloc nd

theorem RegOK.set_other {h : Heap} {reg : Reg} {a : Nat} (nd : CNode) (hr : RegOK h reg)
    (hn : NotOk h a) : RegOK (h.set a nd) reg :=
  fun e he => (hr e he).set_other nd hn (by simp)

theorem ThreadOK.alloc {h : Heap} {t : Thread} (nd : CNode) (ht : ThreadOK h t) :
    ThreadOK (h ++ [nd]) t :=
  ⟨fun r hr => (ht.roots r hr).alloc nd, fun r hr => (ht.done r hr).alloc nd,
   fun a ha => (ht.prog a ha).alloc nd, ht.nodup, ht.nofault⟩

theorem ThreadOK.set_other {h : Heap} {t : Thread} {a : Nat} (nd : CNode) (ht : ThreadOK h t)
    (hn : NotOk h a) (ha : a ∉ inProg t.stack) : ThreadOK (h.set a nd) t :=
  ⟨fun r hr => (ht.roots r hr).set_other nd hn ha,
   fun r hr => (ht.done r hr).set_other nd hn (by simp),
   fun b hb => (ht.prog b hb).set_other nd (fun e => ha (e ▸ hb)), ht.nodup, ht.nofault⟩

/-- what a step of one goroutine does to the heap and to its own set `L` of
in-progress nodes — all that the other goroutines need to know. -/
def FrameRel (h h' : Heap) (L L' : List Nat) : Prop :=
  (h' = h ∧ ∀ a, a ∈ L' → a ∈ L) ∨
  (∃ nd, h' = h ++ [nd] ∧ ∀ a, a ∈ L' → a = h.length ∨ a ∈ L) ∨
  (∃ a nd, a ∈ L ∧ h' = h.set a nd ∧ ∀ a, a ∈ L' → a ∈ L)

/-! ### steps of the goroutine itself: generic cases -/

/-- heap unchanged, same in-progress nodes, no new private roots except
values read from the shared registry. -/
theorem ThreadOK.same {h : Heap} {t t' : Thread} (ht : ThreadOK h t)
    (hp : inProg t'.stack = inProg t.stack)
    (hr : ∀ r, r ∈ stackRoots t'.stack → r ∈ stackRoots t.stack ∨ Good h r)
    (hd : t'.doneRoots = t.doneRoots) (hf : t'.fault = t.fault) : ThreadOK h t' := by
  refine ⟨?_, by rw [hd]; exact ht.done, by rw [hp]; exact ht.prog, by rw [hp]; exact ht.nodup,
    by rw [hf]; exact ht.nofault⟩
  intro r h1
  rw [hp]
  rcases hr r h1 with h2 | h2
  · exact ht.roots r h2
  · exact h2.of_good

/-- allocation of an immutable node whose children the goroutine holds. -/
theorem ThreadOK.alloc_own {h : Heap} {t t' : Thread} {nd : CNode} (ht : ThreadOK h t)
    (hok : nd.ok = true) (hk : ∀ c, c ∈ nd.kids → c ∈ stackRoots t.stack)
    (hp : inProg t'.stack = inProg t.stack)
    (hr : ∀ r, r ∈ stackRoots t'.stack → r ∈ stackRoots t.stack ∨ r = h.length)
    (hd : t'.doneRoots = t.doneRoots) (hf : t'.fault = t.fault) : ThreadOK (h ++ [nd]) t' := by
  refine ⟨?_, by rw [hd]; exact (ht.alloc nd).done, by rw [hp]; exact (ht.alloc nd).prog,
    by rw [hp]; exact ht.nodup, by rw [hf]; exact ht.nofault⟩
  intro r h1
  rw [hp]
  rcases hr r h1 with h2 | rfl
  · exact (ht.roots r h2).alloc nd
  · exact Semi.new (fun c hc => (ht.roots c (hk c hc)).alloc nd) (.inl hok)

/-- allocation of a fresh, empty, incomplete struct node. -/
theorem ThreadOK.alloc_struct {h : Heap} {t t' : Thread} (ty : Nat) (ht : ThreadOK h t)
    (hp : inProg t'.stack = h.length :: inProg t.stack)
    (hr : ∀ r, r ∈ stackRoots t'.stack → r ∈ stackRoots t.stack ∨ r = h.length)
    (hd : t'.doneRoots = t.doneRoots) (hf : t'.fault = t.fault) :
    ThreadOK (h ++ [.structC ty [] false]) t' := by
  refine ⟨?_, by rw [hd]; exact (ht.alloc _).done, ?_, ?_, by rw [hf]; exact ht.nofault⟩
  · intro r h1
    rw [hp]
    rcases hr r h1 with h2 | rfl
    · exact ((ht.roots r h2).alloc _).mono (fun a ha => List.mem_cons_of_mem _ ha)
    · exact Semi.new (fun c hc => by cases hc) (.inr List.mem_cons_self)
  · intro a ha
    rw [hp] at ha
    rcases List.mem_cons.1 ha with rfl | ha
    · exact ⟨by simp, by unfold okAt; rw [get_append_len]; rfl⟩
    · exact (ht.prog a ha).alloc _
  · rw [hp]
    refine List.nodup_cons.2 ⟨fun hm => ?_, ht.nodup⟩
    exact Nat.lt_irrefl _ (ht.prog _ hm).1

/-! ### steps of the goroutine itself, one lemma per transition -/

/-- what one step must re-establish. -/
def Post (h : Heap) (_reg : Reg) (t : Thread) (h' : Heap) (reg' : Reg) (t' : Thread) : Prop :=
  RegOK h' reg' ∧ ThreadOK h' t' ∧ FrameRel h h' (inProg t.stack) (inProg t'.stack)

section
variable {h : Heap} {rq : List Nat} {cu : Nat} {rs : List (Nat × Option Nat)} {uq : List (Nat × Nat)}
  {f : Bool} {below : List Frame}

theorem ok_use {reg : Reg} {a d : Nat} {more : List (Nat × Nat)} (hreg : RegOK h reg)
    (ht : ThreadOK h ⟨[], rq, cu, rs, (a, d) :: uq, f⟩)
    (hm : ∀ e, e ∈ more → e.1 ∈ kids h a) :
    Post h reg ⟨[], rq, cu, rs, (a, d) :: uq, f⟩ h reg ⟨[], rq, cu, rs, uq ++ more, f || !okAt h a⟩ := by
  have hga : Good h a := ht.done a (by simp [Thread.doneRoots])
  refine ⟨hreg, ⟨fun r hr => (by cases hr), ?_, fun r hr => (by cases hr), List.nodup_nil, ?_⟩,
    .inl ⟨rfl, fun _ h => h⟩⟩
  · intro r hr
    simp only [Thread.doneRoots, List.mem_append, List.mem_map] at hr
    rcases hr with hr | ⟨e, he | he, rfl⟩
    · exact ht.done r (by simp [Thread.doneRoots, hr])
    · exact ht.done _ (by
        simp only [Thread.doneRoots, List.mem_append, List.mem_map, List.mem_cons]
        exact .inr ⟨e, .inr he, rfl⟩)
    · exact hga.kid (hm e he)
  · have h1 := ht.nofault
    have h2 := (hga a .root).2
    simp only at h1
    simp only [List.not_mem_nil, or_false] at h2
    simp [h1, h2]

theorem ok_start {reg : Reg} {r : Nat} (hreg : RegOK h reg) (ht : ThreadOK h ⟨[], r :: rq, cu, rs, [], f⟩) :
    Post h reg ⟨[], r :: rq, cu, rs, [], f⟩ h reg ⟨[.call r], rq, r, rs, [], f⟩ :=
  ⟨hreg, ht.same rfl (fun r hr => by simp [stackRoots, Frame.roots] at hr) rfl rfl,
    .inl ⟨rfl, fun _ h => h⟩⟩

theorem ok_loadHit {reg : Reg} {ty c : Nat} (hreg : RegOK h reg)
    (ht : ThreadOK h ⟨.call ty :: below, rq, cu, rs, uq, f⟩)
    (hl : viewLoad below reg ty = some c) :
    Post h reg ⟨.call ty :: below, rq, cu, rs, uq, f⟩ h reg ⟨.ret ty c :: below, rq, cu, rs, uq, f⟩ := by
  refine ⟨hreg, ht.same rfl ?_ rfl rfl, .inl ⟨rfl, fun _ h => h⟩⟩
  intro r hr
  simp only [stackRoots, Frame.roots, List.cons_append, List.nil_append, List.mem_cons] at hr ⊢
  rcases hr with rfl | hr
  · rcases viewLoad_spec hl with h1 | ⟨e, he, rfl⟩
    · exact .inl h1
    · exact .inr (hreg e he)
  · exact .inl hr

/-- steps that only rearrange frames holding no new codec address. -/
theorem ok_local {reg : Reg} {top : Frame} {st' : List Frame} (hreg : RegOK h reg)
    (ht : ThreadOK h ⟨top :: below, rq, cu, rs, uq, f⟩)
    (hp : inProg st' = inProg (top :: below))
    (hr : ∀ r, r ∈ stackRoots st' → r ∈ stackRoots (top :: below)) :
    Post h reg ⟨top :: below, rq, cu, rs, uq, f⟩ h reg ⟨st', rq, cu, rs, uq, f⟩ :=
  ⟨hreg, ht.same hp (fun r h => .inl (hr r h)) rfl rfl, .inl ⟨rfl, fun _ h => by rw [hp] at h; exact h⟩⟩

/-- the error path: the whole stack is dropped. -/
theorem ok_fail {reg : Reg} {st : List Frame} (hreg : RegOK h reg) (ht : ThreadOK h ⟨st, rq, cu, rs, uq, f⟩) :
    Post h reg ⟨st, rq, cu, rs, uq, f⟩ h reg ⟨[], rq, cu, (cu, none) :: rs, uq, f⟩ :=
  ⟨hreg, ⟨fun r hr => (by cases hr), fun r hr => ht.done r (by simpa [Thread.doneRoots] using hr),
    fun r hr => (by cases hr), List.nodup_nil, ht.nofault⟩, .inl ⟨rfl, fun _ h => by cases h⟩⟩

/-- allocation of an immutable node (basic codec, pointer/slice/map wrapper). -/
theorem ok_alloc {reg : Reg} {st st' : List Frame} {nd : CNode} (hreg : RegOK h reg)
    (ht : ThreadOK h ⟨st, rq, cu, rs, uq, f⟩) (hok : nd.ok = true)
    (hk : ∀ c, c ∈ nd.kids → c ∈ stackRoots st) (hp : inProg st' = inProg st)
    (hr : ∀ r, r ∈ stackRoots st' → r ∈ stackRoots st ∨ r = h.length) :
    Post h reg ⟨st, rq, cu, rs, uq, f⟩ (h ++ [nd]) reg ⟨st', rq, cu, rs, uq, f⟩ :=
  ⟨hreg.alloc nd, ht.alloc_own hok hk hp hr rfl rfl,
    .inr (.inl ⟨nd, rfl, fun a ha => .inr (by rw [hp] at ha; exact ha)⟩)⟩

theorem ok_allocStruct {reg : Reg} {ty ty' : Nat} {fs : List Nat} (hreg : RegOK h reg)
    (ht : ThreadOK h ⟨.miss ty :: below, rq, cu, rs, uq, f⟩) :
    Post h reg ⟨.miss ty :: below, rq, cu, rs, uq, f⟩ (h ++ [.structC ty' [] false]) reg
      ⟨.structB ty h.length [] fs :: below, rq, cu, rs, uq, f⟩ := by
  refine ⟨hreg.alloc _, ht.alloc_struct ty' rfl ?_ rfl rfl,
    .inr (.inl ⟨_, rfl, fun a ha => ?_⟩)⟩
  · intro r hr
    simp only [stackRoots, Frame.roots, List.map_nil, List.cons_append, List.nil_append,
      List.mem_cons] at hr ⊢
    rcases hr with rfl | hr
    · exact .inr rfl
    · exact .inl hr
  · simpa [inProg, Frame.prog] using ha

theorem ok_complete {reg : Reg} {ty node : Nat} {pend : Reg} (hreg : RegOK h reg)
    (ht : ThreadOK h ⟨.structB ty node pend [] :: below, rq, cu, rs, uq, f⟩) :
    Post h reg ⟨.structB ty node pend [] :: below, rq, cu, rs, uq, f⟩ (setComplete h node) reg
      ⟨.structP ty node pend :: below, rq, cu, rs, uq, f⟩ := by
  have hn : NotOk h node := ht.prog node (by simp [inProg, Frame.prog])
  have hnd := ht.nodup
  simp only [inProg, Frame.prog, List.cons_append, List.nil_append, List.nodup_cons] at hnd
  obtain ⟨ty', fs, _, he⟩ := setComplete_eq hn
  refine ⟨?_, ⟨?_, ?_, ?_, hnd.2, ht.nofault⟩, .inr (.inr ⟨node, _, ?_, he, ?_⟩)⟩
  · rw [he]; exact hreg.set_other _ hn
  · intro r hr
    exact Semi.complete hn (ht.roots r hr)
  · intro r hr
    rw [he]; exact (ht.done r hr).set_other _ hn (by simp)
  · intro a ha
    have ha' : a ∈ inProg below := ha
    exact NotOk.complete_other hn (ht.prog a (by simp [inProg, Frame.prog, ha']))
      (fun e => hnd.1 (e ▸ ha'))
  · simp [inProg, Frame.prog]
  · intro a ha
    have ha' : a ∈ inProg below := ha
    simp [inProg, Frame.prog, ha']

theorem ok_field {reg : Reg} {c tc ty node : Nat} {pend : Reg} {todo : List Nat} (hreg : RegOK h reg)
    (ht : ThreadOK h ⟨.ret tc c :: .structB ty node pend todo :: below, rq, cu, rs, uq, f⟩) :
    Post h reg ⟨.ret tc c :: .structB ty node pend todo :: below, rq, cu, rs, uq, f⟩ (addField h node c) reg
      ⟨.structB ty node pend todo :: below, rq, cu, rs, uq, f⟩ := by
  have hn : NotOk h node := ht.prog node (by simp [inProg, Frame.prog])
  have hc := ht.roots c (by simp [stackRoots, Frame.roots])
  obtain ⟨ty', fs, _, he⟩ := addField_eq c hn
  refine ⟨?_, ⟨?_, ?_, ?_, ht.nodup, ht.nofault⟩, .inr (.inr ⟨node, _, ?_, he, fun _ h => h⟩)⟩
  · rw [he]; exact hreg.set_other _ hn
  · intro r hr
    exact Semi.addField hn (ht.roots r (by
      simp only [stackRoots, List.mem_append] at hr ⊢; exact .inr hr)) hc
  · intro r hr
    rw [he]; exact (ht.done r hr).set_other _ hn (by simp)
  · intro a ha
    exact NotOk.addField c hn (ht.prog a ha)
  · simp [inProg, Frame.prog]

theorem ok_store {reg : Reg} {ty c : Nat} (hreg : RegOK h reg)
    (ht : ThreadOK h ⟨.store ty c :: below, rq, cu, rs, uq, f⟩) :
    Post h reg ⟨.store ty c :: below, rq, cu, rs, uq, f⟩ h (viewStore below reg ty c).2.1
      ⟨.ret ty (viewStore below reg ty c).2.2 :: (viewStore below reg ty c).1, rq, cu, rs, uq, f⟩ := by
  have hc : Semi h (inProg below) c := ht.roots c (by simp [stackRoots, Frame.roots])
  have hb : ∀ r, r ∈ stackRoots below → Semi h (inProg below) r := fun r hr =>
    ht.roots r (by simp only [stackRoots, List.mem_append]; exact .inr hr)
  obtain ⟨i1, i2, i3, i4⟩ := viewStore_ok (ty := ty) hreg hc hb id
  have hp : inProg (.ret ty (viewStore below reg ty c).2.2 :: (viewStore below reg ty c).1)
      = inProg below := i1
  refine ⟨i2, ⟨?_, ht.done, ?_, ?_, ht.nofault⟩, .inl ⟨rfl, fun a ha => ?_⟩⟩
  · intro r hr
    show Semi h (inProg (.ret ty (viewStore below reg ty c).2.2 :: (viewStore below reg ty c).1)) r
    rw [hp]
    simp only [stackRoots, Frame.roots, List.cons_append, List.nil_append, List.mem_cons] at hr
    rcases hr with rfl | hr
    · exact i4
    · exact i3 r hr
  · intro a ha
    exact ht.prog a (by rw [hp] at ha; exact ha)
  · show (inProg (.ret ty (viewStore below reg ty c).2.2 :: (viewStore below reg ty c).1)).Nodup
    rw [hp]; exact ht.nodup
  · rw [hp] at ha; exact ha

theorem ok_publish {reg : Reg} {ty node k c : Nat} {pend : Reg} (hreg : RegOK h reg)
    (ht : ThreadOK h ⟨.structP ty node ((k, c) :: pend) :: below, rq, cu, rs, uq, f⟩) :
    Post h reg ⟨.structP ty node ((k, c) :: pend) :: below, rq, cu, rs, uq, f⟩ h
      (viewStore below reg k c).2.1
      ⟨.structP ty node pend :: (viewStore below reg k c).1, rq, cu, rs, uq, f⟩ := by
  have hc : Semi h (inProg below) c := ht.roots c (by simp [stackRoots, Frame.roots])
  have hb : ∀ r, r ∈ stackRoots below → Semi h (inProg below) r := fun r hr =>
    ht.roots r (by simp only [stackRoots, List.mem_append]; exact .inr hr)
  obtain ⟨i1, i2, i3, _⟩ := viewStore_ok (ty := k) hreg hc hb id
  have hp : inProg (.structP ty node pend :: (viewStore below reg k c).1) = inProg below := i1
  refine ⟨i2, ⟨?_, ht.done, ?_, ?_, ht.nofault⟩, .inl ⟨rfl, fun a ha => ?_⟩⟩
  · intro r hr
    show Semi h (inProg (.structP ty node pend :: (viewStore below reg k c).1)) r
    rw [hp]
    simp only [stackRoots, Frame.roots, List.cons_append, List.mem_cons, List.mem_append,
      List.mem_map] at hr
    rcases hr with rfl | ⟨e, he, rfl⟩ | hr
    · exact ht.roots _ (by simp [stackRoots, Frame.roots])
    · refine ht.roots _ ?_
      have hm : e.2 ∈ pend.map (·.2) := List.mem_map.2 ⟨e, he, rfl⟩
      simp only [stackRoots, Frame.roots, List.cons_append, List.mem_cons, List.mem_append,
        List.map_cons]
      exact .inr (.inr (.inl hm))
    · exact i3 r hr
  · intro a ha
    exact ht.prog a (by rw [hp] at ha; exact ha)
  · show (inProg (.structP ty node pend :: (viewStore below reg k c).1)).Nodup
    rw [hp]; exact ht.nodup
  · rw [hp] at ha; exact ha

theorem ok_finish {reg : Reg} {c tc depth : Nat} (hreg : RegOK h reg)
    (ht : ThreadOK h ⟨[.ret tc c], rq, cu, rs, uq, f⟩) :
    Post h reg ⟨[.ret tc c], rq, cu, rs, uq, f⟩ h reg ⟨[], rq, cu, (cu, some c) :: rs, [(c, depth)], f⟩ := by
  have hc : Good h c := ht.roots c (by simp [stackRoots, Frame.roots])
  refine ⟨hreg, ⟨fun r hr => (by cases hr), ?_, fun r hr => (by cases hr), List.nodup_nil,
    ht.nofault⟩, .inl ⟨rfl, fun _ h => by cases h⟩⟩
  intro r hr
  simp only [Thread.doneRoots, List.filterMap_cons, List.map_cons, List.map_nil,
    List.mem_append, List.mem_cons] at hr
  rcases hr with (rfl | hr) | (rfl | hr)
  · exact hc
  · exact ht.done r (by simp [Thread.doneRoots, hr])
  · exact hc
  · cases hr

end
/-- every step of the repaired protocol re-establishes the registry invariant
and the invariant of the stepping goroutine. -/
theorem stepCore_ok {g : Nat → TNode} {depth : Nat} {reg reg' : Reg} {h h' : Heap} {t t' : Thread}
    (hreg : RegOK h reg) (ht : ThreadOK h t)
    (hs : stepCore false g depth reg h t = some (reg', h', t')) : Post h reg t h' reg' t' := by
  obtain ⟨stack, requests, cur, results, useQ, fault⟩ := t
  unfold stepCore at hs
  simp only [Bool.false_eq_true, ↓reduceIte] at hs
  split at hs
  · split at hs
    · cases hs
      refine ok_use hreg ht ?_
      intro e he
      split at he
      · cases he
      · obtain ⟨c, hc, rfl⟩ := List.mem_map.1 he; exact hc
    · split at hs
      · cases hs
      · cases hs; exact ok_start hreg ht
  · split at hs
    · -- call
      split at hs
      · cases hs; exact ok_loadHit hreg ht ‹_›
      · cases hs; exact ok_local hreg ht rfl (fun r hr => by simpa [stackRoots, Frame.roots] using hr)
    · -- miss
      split at hs
      · cases hs
        exact ok_alloc hreg ht rfl (fun c hc => by cases hc) rfl
          (fun r hr => by simpa [stackRoots, Frame.roots, or_comm] using hr)
      · cases hs; exact ok_local hreg ht rfl (fun r hr => by simpa [stackRoots, Frame.roots] using hr)
      · cases hs; exact ok_local hreg ht rfl (fun r hr => by simpa [stackRoots, Frame.roots] using hr)
      · cases hs; exact ok_local hreg ht rfl (fun r hr => by simpa [stackRoots, Frame.roots] using hr)
      · cases hs; exact ok_allocStruct hreg ht
      · cases hs; exact ok_fail hreg ht
    · -- structB
      split at hs
      · cases hs; exact ok_local hreg ht rfl (fun r hr => by simpa [stackRoots, Frame.roots] using hr)
      · cases hs; exact ok_complete hreg ht
    · -- structP
      split at hs
      · cases hs; exact ok_publish hreg ht
      · cases hs; exact ok_local hreg ht rfl (fun r hr => by simpa [stackRoots, Frame.roots] using hr)
    · -- store
      cases hs; exact ok_store hreg ht
    · -- ret
      split at hs
      · cases hs; exact ok_finish hreg ht
      · split at hs
        · cases hs
          refine ok_alloc hreg ht ?_ ?_ rfl
            (fun r hr => by
              simp [stackRoots, Frame.roots] at hr ⊢
              rcases hr with hr | hr <;> simp [hr])
          · split <;> rfl
          · intro c hc
            split at hc <;> simp only [CNode.kids, List.mem_singleton] at hc <;> subst hc <;>
              simp [stackRoots, Frame.roots]
        · cases hs; exact ok_local hreg ht rfl (fun r hr => by simpa [stackRoots, Frame.roots] using hr)
        · cases hs
          exact ok_alloc hreg ht rfl
            (fun c hc => by
              simp only [CNode.kids, List.mem_cons, List.not_mem_nil, or_false] at hc
              rcases hc with rfl | rfl <;> simp [stackRoots, Frame.roots])
            rfl (fun r hr => by
              simp [stackRoots, Frame.roots] at hr ⊢
              rcases hr with hr | hr <;> simp [hr])
        · cases hs; exact ok_field hreg ht
        · cases hs
    · cases hs

/-! ### the global invariant -/

/-- (I1) + (I2) + in-progress nodes are private to one goroutine. -/
structure Inv (s : State) : Prop where
  reg : RegOK s.heap s.registry
  thr : ∀ i, ThreadOK s.heap (s.threads i)
  disj : ∀ i j a, i ≠ j → a ∈ inProg (s.threads i).stack → a ∉ inProg (s.threads j).stack

theorem inv_init (g : Nat → TNode) (reqs : List (List Nat)) (d : Nat) : Inv (init g reqs d) :=
  ⟨fun e he => (by cases he),
   fun i => ⟨fun r hr => (by cases hr), fun r hr => (by cases hr), fun r hr => (by cases hr),
     List.nodup_nil, rfl⟩,
   fun i j a _ ha => (by cases ha)⟩

/-- from the local post-condition of goroutine `i` to the global invariant. -/
theorem inv_upd {s : State} {i : Nat} {reg' : Reg} {h' : Heap} {t' : Thread} (hi : Inv s)
    (hp : Post s.heap s.registry (s.threads i) h' reg' t') : Inv (s.upd i reg' h' t') := by
  obtain ⟨p1, p2, p3⟩ := hp
  have hnew : ∀ a, a ∈ inProg t'.stack → a ∈ inProg (s.threads i).stack ∨ a = s.heap.length := by
    intro a ha
    rcases p3 with ⟨_, q⟩ | ⟨_, _, q⟩ | ⟨_, _, _, _, q⟩
    · exact .inl (q a ha)
    · exact (q a ha).symm
    · exact .inl (q a ha)
  have hfresh : ∀ j a, a ∈ inProg (s.threads j).stack → a ≠ s.heap.length := fun j a ha e =>
    Nat.lt_irrefl _ (e ▸ ((hi.thr j).prog a ha).1)
  refine ⟨p1, fun j => ?_, fun j k a hjk ha hb => ?_⟩
  · show ThreadOK h' (if j = i then t' else s.threads j)
    split
    · exact p2
    · rename_i hji
      rcases p3 with ⟨e, _⟩ | ⟨nd, e, _⟩ | ⟨a, nd, ha, e, _⟩
      · rw [e]; exact hi.thr j
      · rw [e]; exact (hi.thr j).alloc nd
      · rw [e]
        exact (hi.thr j).set_other nd ((hi.thr i).prog a ha) (hi.disj i j a (Ne.symm hji) ha)
  · have ha' : a ∈ inProg (if j = i then t' else s.threads j).stack := ha
    have hb' : a ∈ inProg (if k = i then t' else s.threads k).stack := hb
    by_cases hj : j = i
    · have hk : ¬ k = i := fun e => hjk (hj.trans e.symm)
      rw [if_pos hj] at ha'; rw [if_neg hk] at hb'
      rcases hnew a ha' with h1 | h1
      · exact hi.disj i k a (Ne.symm hk) h1 hb'
      · exact hfresh k a hb' h1
    · rw [if_neg hj] at ha'
      by_cases hk : k = i
      · rw [if_pos hk] at hb'
        rcases hnew a hb' with h1 | h1
        · exact hi.disj i j a (Ne.symm hj) h1 ha'
        · exact hfresh j a ha' h1
      · rw [if_neg hk] at hb'
        exact hi.disj j k a hjk ha' hb'

theorem step_inv {s s' : State} {i : Nat} (hi : Inv s) (hs : stepThread s i = some s') : Inv s' := by
  unfold stepThread stepGen at hs
  cases hc : stepCore false s.graph s.useDepth s.registry s.heap (s.threads i) with
  | none => rw [hc] at hs; cases hs
  | some r =>
    obtain ⟨reg', h', t'⟩ := r
    rw [hc] at hs
    cases hs
    exact inv_upd hi (stepCore_ok hi.reg (hi.thr i) hc)

theorem reorder_inv {s s' : State} {i : Nat} (hi : Inv s) (hs : Reorder s i s') : Inv s' := by
  cases hs with
  | @mk ty node pend pend' below hst hperm =>
    refine inv_upd hi ⟨hi.reg, (hi.thr i).same ?_ ?_ rfl rfl, .inl ⟨rfl, ?_⟩⟩
    · rw [hst]; rfl
    · intro r hr
      left
      rw [hst]
      simp only [stackRoots, Frame.roots, List.cons_append, List.mem_cons, List.mem_append,
        List.mem_map] at hr ⊢
      rcases hr with rfl | ⟨e, he, rfl⟩ | hr
      · exact .inl rfl
      · exact .inr (.inl ⟨e, hperm.mem_iff.1 he, rfl⟩)
      · exact .inr (.inr hr)
    · intro a ha
      rw [hst]; exact ha

theorem reach_inv {s0 s : State} (h0 : Inv s0) (hr : Reach s0 s) : Inv s := by
  induction hr with
  | refl => exact h0
  | step _ hs ih => exact step_inv ih hs
  | reorder _ hs ih => exact reorder_inv ih hs

theorem Reach.trans {s0 s1 s2 : State} (h1 : Reach s0 s1) (h2 : Reach s1 s2) : Reach s0 s2 := by
  induction h2 with
  | refl => exact h1
  | step _ hs ih => exact .step ih hs
  | reorder _ hs ih => exact .reorder ih hs

theorem runSchedule_reach {s s' : State} {sched : List Nat}
    (h : runSchedule s sched = some s') : Reach s s' := by
  unfold runSchedule at h
  induction sched generalizing s with
  | nil => simp only [runWith] at h; cases h; exact .refl
  | cons i is ih =>
    simp only [runWith] at h
    split at h
    · cases h
    · rename_i s1 hs
      exact (Reach.step .refl hs).trans (ih h)

/-! ### the error step -/

/-- the only step that records a failed call drops the stack and touches
neither the registry nor the heap. -/
theorem stepCore_fail {g : Nat → TNode} {depth : Nat} {reg reg' : Reg} {h h' : Heap} {t t' : Thread}
    (hs : stepCore false g depth reg h t = some (reg', h', t'))
    (hf : t'.results = (t.cur, none) :: t.results) :
    reg' = reg ∧ h' = h ∧ t'.stack = [] ∧ t'.useQ = t.useQ ∧ t'.fault = t.fault := by
  obtain ⟨stack, requests, cur, results, useQ, fault⟩ := t
  unfold stepCore at hs
  simp only [Bool.false_eq_true, ↓reduceIte] at hs
  have hne : ∀ x : Nat × Option Nat, ¬ (results = x :: results) := fun x e => by
    have := congrArg List.length e; simp at this
  repeat' split at hs
  all_goals first
    | (cases hs; done)
    | (cases hs; exact absurd hf (hne _))
    | (cases hs; exact ⟨rfl, rfl, rfl, rfl, rfl⟩)
    | (cases hs; cases hf; done)

end Registry
