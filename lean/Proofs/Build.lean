import Plenc.Build
import Plenc.Typing
/-
  Proofs.Build — the builder (`build` / `buildNamed` / `buildFields`) is total,
  returns only "Accepted" (`Ty.wf`) codec trees, rejects each listed class of
  malformed definition, and never lets a skipped field reach a codec.
  Helper lemmas for property C08; the property theorems are in Props/C08.lean.
-/

namespace Build

/-! ### outcomes -/

theorem fine_cases {α : Type} {r : Res α} (h : r.fine) : (∃ a, r = .ok a) ∨ r = .err := by
  cases r with
  | ok a => exact .inl ⟨a, rfl⟩
  | err => exact .inr rfl
  | panic => exact absurd h (by simp [Res.fine])
  | hang => exact absurd h (by simp [Res.fine])

/-! ### the per-field step of `buildFields`, as a function of one field

`buildFields` is a right fold of `consRes ∘ encField` (`buildFields_cons`); all
later statements about field lists go through this form. -/

abbrev FieldDef := String × Bool × String × String × TyDef

/-- the tag option passed on to the field type's codec (`postfix` after the
`intern` special case). -/
def subTag (pfx : Option String) : String :=
  if pfx == some "intern" then "" else pfx.getD ""

def isNullStr : TyDef → Bool
  | .ext "null.String" => true
  | _ => false

/-- `fc.(Interner)` … `in.WithInterning()` when the option is `intern`. -/
def internFix (pfx : Option String) (t : TyDef) (c : Ty) : Ty :=
  if pfx == some "intern" then
    (match c with
     | .str false => .str true
     | .ptr (.str false) => if isNullStr t then .ptr (.str true) else c
     | c => c)
  else c

/-- a field is skipped (never reaches a codec): unexported, or tagged "-". -/
def skipped (f : FieldDef) : Bool := !f.2.1 || f.2.2.1 == "-"

/-- one iteration of the loop of `BuildStructCodec`: `none` = `continue`. -/
def encField (cfg : Cfg) : FieldDef → Option (Res (Nat × String × Ty))
  | (g, e, p, j, t) =>
    if !e then none else
    if p == "" then some .err else
    if p == "-" then none else
    match atoi (splitComma p).1 with
    | none => some .err
    | some idx =>
      if idx < 0 ∨ idx > 536870911 then some .err else
      match build cfg t (subTag (splitComma p).2) with
      | .ok c => some (.ok (idx.toNat, fieldName g j, internFix (splitComma p).2 t c))
      | .err => some .err
      | .panic => some .panic
      | .hang => some .hang

def consRes : Option (Res (Nat × String × Ty)) → Res Fields → Res Fields
  | none, r => r
  | some (.ok x), .ok cfs => .ok (x :: cfs)
  | some (.ok _), e => e
  | some .err, _ => .err
  | some .panic, _ => .panic
  | some .hang, _ => .hang

theorem buildFields_nil (cfg : Cfg) : buildFields cfg [] = .ok [] := by
  rw [buildFields]

theorem buildFields_cons (cfg : Cfg) (f : FieldDef) (r : FieldDefs) :
    buildFields cfg (f :: r) = consRes (encField cfg f) (buildFields cfg r) := by
  obtain ⟨g, e, p, j, t⟩ := f
  rw [buildFields.eq_def]
  simp only [encField, subTag]
  cases e
  · simp [consRes]
  · by_cases hp : p = ""
    · simp [hp, consRes]
    by_cases hm : p = "-"
    · simp [hm, consRes]
    simp only [Bool.not_true, Bool.false_eq_true, ↓reduceIte, beq_iff_eq, hp, hm]
    cases ha : atoi (splitComma p).1 with
    | none => simp [consRes]
    | some idx =>
      simp only []
      by_cases hneg : idx < 0 ∨ idx > 536870911
      · simp [hneg, consRes]
      · simp only [hneg, ↓reduceIte]
        generalize build cfg t _ = rb
        cases rb with
        | ok c =>
          simp only []
          cases buildFields cfg r with
          | ok cfs =>
            simp only [consRes, Res.ok.injEq, List.cons.injEq, Prod.mk.injEq, true_and, and_true]
            unfold internFix
            simp only [beq_iff_eq]
            split
            · split
              · rfl
              · split <;> simp_all [isNullStr]
              · split <;> simp_all
            · rfl
          | err => simp [consRes]
          | panic => simp [consRes]
          | hang => simp [consRes]
        | err => simp [consRes]
        | panic => simp [consRes]
        | hang => simp [consRes]

/-! ### the kind-switch arms shared by `build` and `buildNamed` -/

def ptrArm (t : TyDef) (r : Res Ty) : Res Ty :=
  if t.kind = .map then .err else
  match r with
  | .ok c => .ok (.ptr c)
  | e => e

def sliceArm (cfg : Cfg) (tag : String) (t : TyDef) (r : Res Ty) : Res Ty :=
  if t.kind = .map then .err else
  match r with
  | .ok c => sliceWrap cfg tag (!t.isFloatKind) c
  | e => e

def mapArm (tag : String) (v : TyDef) (rk rv : Res Ty) : Res Ty :=
  if v.kind = .map then .err else
  match rk, rv with
  | .ok kc, .ok vc => if vc.isProtoSlice || kc.isProtoSlice then .err else .ok (.map kc vc (tag == "proto"))
  | .ok _, e => e
  | e, _ => e

def structArm (name : String) (r : Res Fields) : Res Ty :=
  match r with
  | .ok cfs => if hasDup (cfs.map (·.1)) then .err else .ok (.struct name cfs)
  | .err => .err
  | .panic => .panic
  | .hang => .hang

theorem build_ptr (cfg : Cfg) (t : TyDef) (tag : String) :
    build cfg (.ptr t) tag = ptrArm t (build cfg t tag) := by
  rw [build]; unfold ptrArm
  by_cases h : t.kind = .map
  · simp only [if_pos h]
  · simp only [if_neg h]; cases build cfg t tag <;> rfl

theorem buildNamed_ptr (cfg : Cfg) (n : String) (t : TyDef) (tag : String) :
    buildNamed cfg n (.ptr t) tag = ptrArm t (build cfg t tag) := by
  rw [buildNamed]; unfold ptrArm
  by_cases h : t.kind = .map
  · simp only [if_pos h]
  · simp only [if_neg h]; cases build cfg t tag <;> rfl

theorem buildNamed_slice (cfg : Cfg) (n : String) (t : TyDef) (tag : String) :
    buildNamed cfg n (.slice t) tag = sliceArm cfg tag t (build cfg t "") := by
  rw [buildNamed]; unfold sliceArm
  by_cases h : t.kind = .map
  · simp only [if_pos h]
  · simp only [if_neg h]; cases build cfg t "" <;> rfl

theorem build_slice (cfg : Cfg) (t : TyDef) (tag : String) :
    build cfg (.slice t) tag =
      match regLoad cfg (.slice t) tag with
      | some c => .ok c
      | none => sliceArm cfg tag t (build cfg t "") := by
  rw [build]
  cases regLoad cfg (.slice t) tag with
  | some c => rfl
  | none =>
    simp only [sliceArm]
    by_cases h : t.kind = .map
    · simp only [if_pos h]
    · simp only [if_neg h]; cases build cfg t "" <;> rfl

theorem build_map (cfg : Cfg) (k v : TyDef) (tag : String) :
    build cfg (.map k v) tag = mapArm tag v (build cfg k "") (build cfg v "") := by
  rw [build]; unfold mapArm
  by_cases h : v.kind = .map
  · simp only [if_pos h]
  · simp only [if_neg h]; cases build cfg k "" <;> cases build cfg v "" <;> rfl

theorem buildNamed_map (cfg : Cfg) (n : String) (k v : TyDef) (tag : String) :
    buildNamed cfg n (.map k v) tag = mapArm tag v (build cfg k "") (build cfg v "") := by
  rw [buildNamed]; unfold mapArm
  by_cases h : v.kind = .map
  · simp only [if_pos h]
  · simp only [if_neg h]; cases build cfg k "" <;> cases build cfg v "" <;> rfl

theorem buildNamed_struct (cfg : Cfg) (n name : String) (fs : FieldDefs) (tag : String) :
    buildNamed cfg n (.struct name fs) tag = structArm n (buildFields cfg fs) := by
  rw [buildNamed]; unfold structArm
  cases buildFields cfg fs <;> rfl

theorem build_struct (cfg : Cfg) (name : String) (fs : FieldDefs) (tag : String) :
    build cfg (.struct name fs) tag =
      match customLoad cfg (.struct name fs) tag with
      | some c => .ok c
      | none =>
        if tag != "" && (customLoad cfg (.struct name fs) "").isSome then .err
        else structArm name (buildFields cfg fs) := by
  rw [build]
  cases customLoad cfg (.struct name fs) tag with
  | some c => rfl
  | none =>
    simp only [structArm]
    by_cases h : (tag != "" && (customLoad cfg (.struct name fs) "").isSome) = true
    · simp only [if_pos h]
    · simp only [if_neg h]; cases buildFields cfg fs <;> rfl

theorem build_named (cfg : Cfg) (n : String) (t : TyDef) (tag : String) :
    build cfg (.named n t) tag =
      match customLoad cfg (.named n t) tag with
      | some c => .ok c
      | none => buildNamed cfg n t tag := by
  rw [build]
  cases customLoad cfg (.named n t) tag <;> rfl

/-! ### 1. totality: `ok` or `err`, never `panic`, never `hang` -/

theorem sliceWrap_fine (cfg : Cfg) (tag : String) (b : Bool) (c : Ty) :
    (sliceWrap cfg tag b c).fine := by
  unfold sliceWrap
  split <;> (try split) <;> (try split) <;> trivial

theorem ptrArm_fine {t : TyDef} {r : Res Ty} (h : r.fine) : (ptrArm t r).fine := by
  unfold ptrArm; split
  · trivial
  · cases r <;> first | trivial | exact h

theorem sliceArm_fine {cfg : Cfg} {tag : String} {t : TyDef} {r : Res Ty} (h : r.fine) :
    (sliceArm cfg tag t r).fine := by
  unfold sliceArm; split
  · trivial
  · cases r <;> first | exact sliceWrap_fine _ _ _ _ | exact h

theorem mapArm_fine {tag : String} {v : TyDef} {rk rv : Res Ty} (hk : rk.fine) (hv : rv.fine) :
    (mapArm tag v rk rv).fine := by
  unfold mapArm; split
  · trivial
  · cases rk <;> cases rv <;> first | trivial | exact hk | exact hv | (simp only; split <;> trivial)

theorem structArm_fine {name : String} {r : Res Fields} (h : r.fine) : (structArm name r).fine := by
  unfold structArm
  cases r <;> first | exact h | skip
  simp only; split <;> trivial

/-- `encField` never panics or hangs when the field type's build does not. -/
def stepFine : Option (Res (Nat × String × Ty)) → Prop
  | none => True
  | some r => r.fine

theorem consRes_fine {o : Option (Res (Nat × String × Ty))} {r : Res Fields}
    (ho : stepFine o) (hr : r.fine) : (consRes o r).fine := by
  cases o with
  | none => exact hr
  | some x => cases x <;> cases r <;> first | trivial | exact ho | exact hr

theorem encField_fine (cfg : Cfg) (f : FieldDef)
    (h : ∀ tag, (build cfg f.2.2.2.2 tag).fine) : stepFine (encField cfg f) := by
  obtain ⟨g, e, p, j, t⟩ := f
  simp only [encField]
  split; · trivial
  split; · trivial
  split; · trivial
  split; · trivial
  split; · trivial
  have := h (subTag (splitComma p).2)
  simp only at this
  generalize build cfg t (subTag (splitComma p).2) = rb at this
  cases rb <;> first | trivial | exact this

mutual
theorem fine_both (cfg : Cfg) : (d : TyDef) →
    (∀ tag, (build cfg d tag).fine) ∧ (∀ n tag, (buildNamed cfg n d tag).fine)
  | .basic b => by
    constructor
    · intro tag; rw [build]; split <;> trivial
    · intro n tag; rw [buildNamed]; split <;> trivial
  | .time => by
    constructor
    · intro tag; rw [build]; split
      · trivial
      · split <;> trivial
    · intro n tag; rw [buildNamed]; trivial
  | .ext m => by
    constructor
    · intro tag; rw [build]; split <;> trivial
    · intro n tag; rw [buildNamed]; trivial
  | .bad k => by
    constructor
    · intro tag; rw [build]; trivial
    · intro n tag; rw [buildNamed]; trivial
  | .named m t => by
    have ih := fine_both cfg t
    constructor
    · intro tag; rw [build_named]; split
      · trivial
      · exact ih.2 m tag
    · intro n tag; rw [buildNamed]; exact ih.2 n tag
  | .ptr t => by
    have ih := fine_both cfg t
    constructor
    · intro tag; rw [build_ptr]; exact ptrArm_fine (ih.1 tag)
    · intro n tag; rw [buildNamed_ptr]; exact ptrArm_fine (ih.1 tag)
  | .slice t => by
    have ih := fine_both cfg t
    constructor
    · intro tag; rw [build_slice]; split
      · trivial
      · exact sliceArm_fine (ih.1 "")
    · intro n tag; rw [buildNamed_slice]; exact sliceArm_fine (ih.1 "")
  | .map k v => by
    have ihk := fine_both cfg k
    have ihv := fine_both cfg v
    constructor
    · intro tag; rw [build_map]; exact mapArm_fine (ihk.1 "") (ihv.1 "")
    · intro n tag; rw [buildNamed_map]; exact mapArm_fine (ihk.1 "") (ihv.1 "")
  | .struct name fs => by
    have ih := fine_fields cfg fs
    constructor
    · intro tag; rw [build_struct]; split
      · trivial
      · split
        · trivial
        · exact structArm_fine ih
    · intro n tag; rw [buildNamed_struct]; exact structArm_fine ih
theorem fine_fields (cfg : Cfg) : (fs : FieldDefs) → (buildFields cfg fs).fine
  | [] => by rw [buildFields_nil]; trivial
  | (g, e, p, j, t) :: r => by
    have iht := fine_both cfg t
    have ihr := fine_fields cfg r
    rw [buildFields_cons]
    exact consRes_fine (encField_fine cfg _ iht.1) ihr
end

theorem build_total (cfg : Cfg) (d : TyDef) (tag : String) : (build cfg d tag).fine :=
  (fine_both cfg d).1 tag

theorem buildNamed_total (cfg : Cfg) (n : String) (d : TyDef) (tag : String) :
    (buildNamed cfg n d tag).fine :=
  (fine_both cfg d).2 n tag

theorem buildFields_total (cfg : Cfg) (fs : FieldDefs) : (buildFields cfg fs).fine :=
  fine_fields cfg fs

/-! ### inversion lemmas for the arms -/

theorem ptrArm_ok {t : TyDef} {r : Res Ty} {c : Ty} (h : ptrArm t r = .ok c) :
    t.kind ≠ .map ∧ ∃ c', r = .ok c' ∧ c = .ptr c' := by
  unfold ptrArm at h
  by_cases hk : t.kind = .map
  · simp [hk] at h
  · simp only [if_neg hk] at h
    cases r <;> simp at h
    exact ⟨hk, _, rfl, h.symm⟩

theorem sliceArm_ok {cfg : Cfg} {tag : String} {t : TyDef} {r : Res Ty} {c : Ty}
    (h : sliceArm cfg tag t r = .ok c) :
    t.kind ≠ .map ∧ ∃ c', r = .ok c' ∧ sliceWrap cfg tag (!t.isFloatKind) c' = .ok c := by
  unfold sliceArm at h
  by_cases hk : t.kind = .map
  · simp [hk] at h
  · simp only [if_neg hk] at h
    cases r <;> simp at h
    exact ⟨hk, _, rfl, h⟩

theorem sliceWrap_ok {cfg : Cfg} {tag : String} {b : Bool} {c' c : Ty}
    (h : sliceWrap cfg tag b c' = .ok c) :
    (c'.wt = .varint ∧ c = .vslice c') ∨
    ((c'.wt = .w64 ∨ c'.wt = .w32) ∧ b = false ∧ c = .fslice c') ∨
    (c'.wt = .len ∧ c'.isProtoSlice = false ∧ (c = .pslice c' ∨ c = .lslice c')) := by
  unfold sliceWrap at h
  split at h
  · rename_i hw; simp at h; exact .inl ⟨hw, h.symm⟩
  · rename_i hw; cases b <;> simp at h; exact .inr (.inl ⟨.inl hw, rfl, h.symm⟩)
  · rename_i hw; cases b <;> simp at h; exact .inr (.inl ⟨.inr hw, rfl, h.symm⟩)
  · rename_i hw
    cases hp : c'.isProtoSlice
    · simp only [hp, Bool.false_eq_true, if_false] at h
      split at h <;> simp at h
      · exact .inr (.inr ⟨hw, rfl, .inl h.symm⟩)
      · exact .inr (.inr ⟨hw, rfl, .inr h.symm⟩)
    · simp [hp] at h
  · simp at h

theorem mapArm_ok {tag : String} {v : TyDef} {rk rv : Res Ty} {c : Ty}
    (h : mapArm tag v rk rv = .ok c) :
    v.kind ≠ .map ∧ ∃ kc vc, rk = .ok kc ∧ rv = .ok vc ∧ vc.isProtoSlice = false ∧
      kc.isProtoSlice = false ∧ c = .map kc vc (tag == "proto") := by
  unfold mapArm at h
  by_cases hk : v.kind = .map
  · simp [hk] at h
  · simp only [if_neg hk] at h
    cases rk <;> cases rv <;> simp at h
    rename_i kc vc
    cases hp : vc.isProtoSlice
    · cases hq : kc.isProtoSlice
      · simp [hp, hq] at h
        exact ⟨hk, _, _, rfl, rfl, hp, hq, h.symm⟩
      · simp [hp, hq] at h
    · simp [hp] at h

theorem structArm_ok {name : String} {r : Res Fields} {c : Ty} (h : structArm name r = .ok c) :
    ∃ cfs, r = .ok cfs ∧ hasDup (cfs.map (·.1)) = false ∧ c = .struct name cfs := by
  unfold structArm at h
  cases r <;> simp at h
  rename_i cfs
  by_cases hd : hasDup (cfs.map (·.1)) = true
  · simp [hd] at h
  · simp only [if_neg hd, Res.ok.injEq] at h
    exact ⟨cfs, rfl, by simpa using hd, h.symm⟩

theorem consRes_ok {o : Option (Res (Nat × String × Ty))} {r : Res Fields} {cfs : Fields}
    (h : consRes o r = .ok cfs) :
    (o = none ∧ r = .ok cfs) ∨ ∃ x cfs', o = some (.ok x) ∧ r = .ok cfs' ∧ cfs = x :: cfs' := by
  cases o with
  | none => exact .inl ⟨rfl, h⟩
  | some y =>
    cases y <;> cases r <;> simp [consRes] at h
    exact .inr ⟨_, _, rfl, rfl, h.symm⟩

theorem encField_ok {cfg : Cfg} {g : String} {e : Bool} {p j : String} {t : TyDef}
    {x : Nat × String × Ty} (h : encField cfg (g, e, p, j, t) = some (.ok x)) :
    e = true ∧ p ≠ "" ∧ p ≠ "-" ∧ ∃ idx c, atoi (splitComma p).1 = some idx ∧ 0 ≤ idx ∧ idx ≤ 536870911 ∧
      build cfg t (subTag (splitComma p).2) = .ok c ∧
      x = (idx.toNat, fieldName g j, internFix (splitComma p).2 t c) := by
  simp only [encField] at h
  split at h; · simp at h
  split at h; · simp at h
  split at h; · simp at h
  rename_i he hp hm
  split at h; · simp at h
  rename_i idx ha
  split at h; · simp at h
  rename_i hneg
  split at h <;> simp at h
  rename_i c hb
  refine ⟨by simpa using he, by simpa using hp, by simpa using hm, idx, c, ha, by omega, by omega, hb, h.symm⟩

theorem encField_none {cfg : Cfg} {f : FieldDef} : encField cfg f = none ↔ skipped f = true := by
  obtain ⟨g, e, p, j, t⟩ := f
  simp only [encField, skipped]
  cases e
  · simp
  · by_cases hp : p = ""
    · simp [hp]
    by_cases hm : p = "-"
    · simp [hm]
    simp only [Bool.not_true, Bool.false_eq_true, ↓reduceIte, beq_iff_eq, hp, hm, Bool.false_or]
    constructor
    · intro h
      split at h; · simp at h
      split at h; · simp at h
      split at h <;> simp at h
    · intro h; simp at h

/-! ### 2. soundness: hypotheses -/

/-- a pointer (chain) to a float: the one codec shape with a fixed-width wire
type that `WTFixedSliceWrapper` cannot take as element. -/
def _root_.Ty.isFloatPtr (t : Ty) : Bool := t.isPtr && (t.wt == .w32 || t.wt == .w64)

/-- what is assumed of the user's own registrations: each registered codec is
itself Accepted, is not a map codec (a registered type is never of kind map for
the builder's `Kind() == reflect.Map` guards) and is not a pointer-to-float
wrapper (a slice of a float-kinded defined type registered with such a codec
would still get the fixed-width wrapper). -/
def _root_.Cfg.wf (cfg : Cfg) : Prop :=
  ∀ e ∈ cfg.custom, e.2.2.wf ∧ e.2.2.isMap = false ∧ e.2.2.isFloatPtr = false

mutual
/-- `p` holds at every sub-definition and `q` at every field that the builder
looks at (skipped fields and their types are not constrained). -/
def _root_.TyDef.all (p : TyDef → Bool) (q : FieldDef → Bool) : TyDef → Bool
  | .basic b => p (.basic b)
  | .time => p .time
  | .named n t => p (.named n t) && t.all p q
  | .ptr t => p (.ptr t) && t.all p q
  | .slice t => p (.slice t) && t.all p q
  | .map k v => p (.map k v) && k.all p q && v.all p q
  | .struct n fs => p (.struct n fs) && allFields p q fs
  | .bad k => p (.bad k)
  | .ext n => p (.ext n)
def allFields (p : TyDef → Bool) (q : FieldDef → Bool) : FieldDefs → Bool
  | [] => true
  | (g, e, pt, j, t) :: r =>
      (skipped (g, e, pt, j, t) || (q (g, e, pt, j, t) && t.all p q)) && allFields p q r
end

def widthP : TyDef → Bool
  | .basic (.int w) => w == 8 || w == 16 || w == 32 || w == 64
  | .basic (.uint w) => w == 8 || w == 16 || w == 32 || w == 64
  | _ => true

def keyP : TyDef → Bool
  | .map k _ => decide (k.kind ≠ .map)
  | _ => true

/-- integer widths are Go's (8, 16, 32, 64). -/
def _root_.TyDef.widthsOK (d : TyDef) : Prop := d.all widthP (fun _ => true) = true
/-- no map key type is itself of kind map (Go rejects such a type at compile
time: map types are not comparable). -/
def _root_.TyDef.keysOK (d : TyDef) : Prop := d.all keyP (fun _ => true) = true
instance (d : TyDef) : Decidable d.widthsOK := by unfold TyDef.widthsOK; infer_instance
instance (d : TyDef) : Decidable d.keysOK := by unfold TyDef.keysOK; infer_instance

def nodeP (d : TyDef) : Bool := widthP d && keyP d

mutual
theorem all_and (p1 p2 : TyDef → Bool) (q1 q2 : FieldDef → Bool) : (d : TyDef) →
    d.all (fun x => p1 x && p2 x) (fun f => q1 f && q2 f) = (d.all p1 q1 && d.all p2 q2)
  | .basic b => by simp only [TyDef.all]
  | .time => by simp only [TyDef.all]
  | .bad k => by simp only [TyDef.all]
  | .ext n => by simp only [TyDef.all]
  | .named n t => by
    simp only [TyDef.all, all_and p1 p2 q1 q2 t]
    cases p1 (.named n t) <;> cases p2 (.named n t) <;> cases t.all p1 q1 <;> cases t.all p2 q2 <;> rfl
  | .ptr t => by
    simp only [TyDef.all, all_and p1 p2 q1 q2 t]
    cases p1 (.ptr t) <;> cases p2 (.ptr t) <;> cases t.all p1 q1 <;> cases t.all p2 q2 <;> rfl
  | .slice t => by
    simp only [TyDef.all, all_and p1 p2 q1 q2 t]
    cases p1 (.slice t) <;> cases p2 (.slice t) <;> cases t.all p1 q1 <;> cases t.all p2 q2 <;> rfl
  | .map k v => by
    simp only [TyDef.all, all_and p1 p2 q1 q2 k, all_and p1 p2 q1 q2 v]
    cases p1 (.map k v) <;> cases p2 (.map k v) <;> cases k.all p1 q1 <;> cases k.all p2 q2 <;>
      cases v.all p1 q1 <;> cases v.all p2 q2 <;> rfl
  | .struct n fs => by
    simp only [TyDef.all, allFields_and p1 p2 q1 q2 fs]
    cases p1 (.struct n fs) <;> cases p2 (.struct n fs) <;> cases allFields p1 q1 fs <;>
      cases allFields p2 q2 fs <;> rfl
theorem allFields_and (p1 p2 : TyDef → Bool) (q1 q2 : FieldDef → Bool) : (fs : FieldDefs) →
    allFields (fun x => p1 x && p2 x) (fun f => q1 f && q2 f) fs =
      (allFields p1 q1 fs && allFields p2 q2 fs)
  | [] => by simp only [allFields]; rfl
  | (g, e, pt, j, t) :: r => by
    simp only [allFields, all_and p1 p2 q1 q2 t, allFields_and p1 p2 q1 q2 r]
    cases skipped (g, e, pt, j, t) <;> cases q1 (g, e, pt, j, t) <;> cases q2 (g, e, pt, j, t) <;>
      cases t.all p1 q1 <;> cases t.all p2 q2 <;> cases allFields p1 q1 r <;>
      cases allFields p2 q2 r <;> rfl
end

/-- the two hypotheses on a definition, as the single traversal the induction uses. -/
theorem valid_of (d : TyDef) (hw : d.widthsOK) (hk : d.keysOK) :
    d.all nodeP (fun _ => true) = true := by
  have h1 := all_and widthP keyP (fun _ => true) (fun _ => true) d
  unfold TyDef.widthsOK at hw; unfold TyDef.keysOK at hk
  rw [hw, hk] at h1
  have e1 : nodeP = (fun x => widthP x && keyP x) := rfl
  rw [e1]
  simpa using h1

/-! ### the registry -/

theorem customLoad_mem {cfg : Cfg} {d : TyDef} {tag : String} {c : Ty}
    (h : customLoad cfg d tag = some c) : ∃ e ∈ cfg.custom, e.2.2 = c := by
  unfold customLoad at h
  split at h
  · simp at h
  · simp only [Option.map_eq_some_iff] at h
    obtain ⟨e, he, hc⟩ := h
    exact ⟨e, List.mem_reverse.mp (List.mem_of_find?_eq_some he), hc⟩

theorem regLoad_cases {cfg : Cfg} {d : TyDef} {tag : String} {c : Ty}
    (h : regLoad cfg d tag = some c) :
    customLoad cfg d tag = some c ∨
    (∃ b, d = .basic b ∧ regBasic b tag = some c) ∨
    (d = .slice (.basic (.uint 8)) ∧ c = .bytes) ∨
    (d = .time ∧ c = .time cfg.protoTime) ∨
    (∃ n, d = .ext n ∧ cfg.nullCodecs = true ∧ nullCodec n = some c) := by
  unfold regLoad at h
  split at h
  · rename_i c' hc; simp at h; subst h; exact .inl hc
  · split at h
    · exact .inr (.inl ⟨_, rfl, h⟩)
    · simp at h; exact .inr (.inr (.inl ⟨rfl, h.symm⟩))
    · simp at h; exact .inr (.inr (.inr (.inl ⟨rfl, h.symm⟩)))
    · split at h
      · rename_i hn; exact .inr (.inr (.inr (.inr ⟨_, rfl, hn, h⟩)))
      · simp at h
    · simp at h

theorem regBasic_wf {b : Basic} {tag : String} {c : Ty} (h : regBasic b tag = some c)
    (hw : widthP (.basic b) = true) : c.wf ∧ c.isMap = false ∧ c.isPtr = false := by
  unfold regBasic at h
  split at h <;> simp at h <;> subst h <;> simp [Ty.wf, Ty.isMap, Ty.isPtr]
  all_goals (simp [widthP] at hw; simp only [validWidth]; omega)

theorem nullCodec_wf {n : String} {c : Ty} (h : nullCodec n = some c) :
    c.wf ∧ c.isMap = false ∧ (c.isFloatPtr = true → n = "null.Float") := by
  unfold nullCodec at h
  split at h <;> simp at h <;> subst h <;>
    simp [Ty.wf, Ty.isMap, Ty.isFloatPtr, Ty.isPtr, Ty.wt, validWidth]

theorem float_of_wt {c : Ty} (hw : c.wt = .w64 ∨ c.wt = .w32) (hp : c.isFloatPtr = false) :
    c = .f32 ∨ c = .f64 := by
  cases c <;> simp [Ty.wt, Ty.isFloatPtr, Ty.isPtr] at hw hp ⊢
  all_goals (try (rename_i p; cases p <;> simp [Ty.wt] at hw))
  rcases hw with hw | hw <;> simp [hw] at hp

theorem hasDup_false : (l : List Nat) → hasDup l = false → l.Nodup
  | [], _ => List.nodup_nil
  | a :: r, h => by
    simp only [hasDup, Bool.or_eq_false_iff] at h
    refine List.nodup_cons.mpr ⟨?_, hasDup_false r h.2⟩
    intro hm
    have := List.contains_iff_mem.mpr hm
    rw [h.1] at this; exact absurd this (by simp)

theorem hasDup_true : (l : List Nat) → ¬ l.Nodup → hasDup l = true
  | l, h => by
    cases hd : hasDup l
    · exact absurd (hasDup_false l hd) h
    · rfl

theorem hasDup_iff (l : List Nat) : hasDup l = true ↔ ¬ l.Nodup := by
  constructor
  · intro h hn
    induction l with
    | nil => simp [hasDup] at h
    | cons a r ih =>
      simp only [hasDup, Bool.or_eq_true] at h
      have hn' := List.nodup_cons.mp hn
      rcases h with h | h
      · exact hn'.1 (List.contains_iff_mem.mp h)
      · exact ih h hn'.2
  · exact hasDup_true l

theorem internFix_wf (pfx : Option String) (t : TyDef) (c : Ty) (h : c.wf) :
    (internFix pfx t c).wf := by
  unfold internFix
  split
  · split
    · simp [Ty.wf]
    · split
      · simp [Ty.wf, Ty.isMap]
      · exact h
    · exact h
  · exact h

/-! ### 2. soundness: the invariant and the arms -/

/-- what the induction carries about `build cfg d tag = ok c` (and about
`buildNamed cfg n d tag = ok c`, the codec of `type n d`): Accepted, a map codec
only for a definition of kind map, a pointer-to-float codec never for a
definition of kind float. -/
structure Inv (d : TyDef) (c : Ty) : Prop where
  wf : c.wf
  map : c.isMap = true → d.kind = .map
  fptr : c.isFloatPtr = true → d.isFloatKind = false

theorem custom_ok {cfg : Cfg} (hc : cfg.wf) {d : TyDef} {tag : String} {c : Ty}
    (h : customLoad cfg d tag = some c) : c.wf ∧ c.isMap = false ∧ c.isFloatPtr = false := by
  obtain ⟨e, he, rfl⟩ := customLoad_mem h
  exact hc e he

theorem inv_of_plain {d : TyDef} {c : Ty}
    (h : c.wf ∧ c.isMap = false ∧ c.isFloatPtr = false) : Inv d c :=
  ⟨h.1, fun hm => by rw [h.2.1] at hm; exact absurd hm (by simp),
    fun hf => by rw [h.2.2] at hf; exact absurd hf (by simp)⟩

theorem floatPtr_false_of_isPtr {c : Ty} (h : c.isPtr = false) : c.isFloatPtr = false := by
  simp [Ty.isFloatPtr, h]

theorem ptrArm_sound {t : TyDef} {r : Res Ty} {c : Ty}
    (ih : ∀ c', r = .ok c' → Inv t c') (h : ptrArm t r = .ok c) :
    c.wf ∧ c.isMap = false ∧ c.isPtr = true := by
  obtain ⟨hk, c', hr, rfl⟩ := ptrArm_ok h
  have i := ih c' hr
  refine ⟨⟨i.wf, ?_⟩, rfl, rfl⟩
  cases hm : c'.isMap
  · rfl
  · exact absurd (i.map hm) hk

theorem sliceArm_sound {cfg : Cfg} {tag : String} {t : TyDef} {r : Res Ty} {c : Ty}
    (ih : ∀ c', r = .ok c' → Inv t c') (h : sliceArm cfg tag t r = .ok c) :
    c.wf ∧ c.isMap = false ∧ c.isFloatPtr = false := by
  obtain ⟨hk, c', hr, hw⟩ := sliceArm_ok h
  have i := ih c' hr
  have hnm : c'.isMap = false := by
    cases hm : c'.isMap
    · rfl
    · exact absurd (i.map hm) hk
  rcases sliceWrap_ok hw with ⟨hwt, rfl⟩ | ⟨hwt, hb, rfl⟩ | ⟨hwt, hps, rfl | rfl⟩
  · exact ⟨⟨i.wf, hwt, hnm⟩, rfl, rfl⟩
  · refine ⟨?_, rfl, rfl⟩
    simp only [Ty.wf]
    apply float_of_wt hwt
    cases hf : c'.isFloatPtr
    · rfl
    · simp [i.fptr hf] at hb
  · exact ⟨⟨i.wf, hwt, hnm, hps⟩, rfl, rfl⟩
  · exact ⟨⟨i.wf, hwt, hnm, hps⟩, rfl, rfl⟩

theorem mapArm_sound {tag : String} {k v : TyDef} {rk rv : Res Ty} {c : Ty}
    (hkey : k.kind ≠ .map)
    (ihk : ∀ c', rk = .ok c' → Inv k c') (ihv : ∀ c', rv = .ok c' → Inv v c')
    (h : mapArm tag v rk rv = .ok c) : c.wf ∧ c.isMap = true ∧ c.isFloatPtr = false := by
  obtain ⟨hk, kc, vc, hrk, hrv, hpv, hpk, rfl⟩ := mapArm_ok h
  have ik := ihk kc hrk
  have iv := ihv vc hrv
  refine ⟨⟨ik.wf, iv.wf, ?_, ?_, hpv, hpk⟩, rfl, rfl⟩
  · cases hm : kc.isMap
    · rfl
    · exact absurd (ik.map hm) hkey
  · cases hm : vc.isMap
    · rfl
    · exact absurd (iv.map hm) hk

theorem structArm_sound {name : String} {r : Res Fields} {c : Ty}
    (ih : ∀ cfs, r = .ok cfs → fieldsWf cfs ∧ ∀ f ∈ cfs, f.1 < 2 ^ 61)
    (h : structArm name r = .ok c) : c.wf ∧ c.isMap = false ∧ c.isFloatPtr = false := by
  obtain ⟨cfs, hr, hd, rfl⟩ := structArm_ok h
  have i := ih cfs hr
  exact ⟨⟨hasDup_false _ hd, i.2, i.1⟩, rfl, rfl⟩

theorem nodeP_spec {d : TyDef} (h : nodeP d = true) : widthP d = true ∧ keyP d = true := by
  simpa [nodeP] using h

/-! ### 2. soundness: the induction -/

theorem basic_sound {cfg : Cfg} (hc : cfg.wf) {b : Basic} {tag : String} {c : Ty}
    (hv : nodeP (.basic b) = true) (h : regLoad cfg (.basic b) tag = some c) :
    c.wf ∧ c.isMap = false ∧ c.isFloatPtr = false := by
  rcases regLoad_cases h with h | ⟨b', hb, h⟩ | ⟨hb, _⟩ | ⟨hb, _⟩ | ⟨n, hb, _⟩
  · exact custom_ok hc h
  · cases hb
    have := regBasic_wf h (nodeP_spec hv).1
    exact ⟨this.1, this.2.1, floatPtr_false_of_isPtr this.2.2⟩
  · cases hb
  · cases hb
  · cases hb

mutual
theorem sound_both (cfg : Cfg) (hc : cfg.wf) : (d : TyDef) → d.all nodeP (fun _ => true) = true →
    (∀ tag c, build cfg d tag = .ok c → Inv d c) ∧
    (∀ n tag c, buildNamed cfg n d tag = .ok c → Inv d c)
  | .basic b, hv => by
    simp only [TyDef.all] at hv
    constructor
    · intro tag c h; rw [build] at h
      split at h <;> simp at h
      subst h; rename_i hr
      exact inv_of_plain (basic_sound hc hv hr)
    · intro n tag c h; rw [buildNamed] at h
      split at h <;> simp at h
      subst h; rename_i hr
      exact inv_of_plain (basic_sound hc hv hr)
  | .time, _ => by
    constructor
    · intro tag c h; rw [build] at h
      split at h
      · simp at h; subst h; rename_i hr
        rcases regLoad_cases hr with h | ⟨b', hb, h⟩ | ⟨hb, _⟩ | ⟨_, rfl⟩ | ⟨n, hb, _⟩
        · exact inv_of_plain (custom_ok hc h)
        · cases hb
        · cases hb
        · exact inv_of_plain ⟨trivial, rfl, rfl⟩
        · cases hb
      · split at h <;> simp at h
        subst h
        exact inv_of_plain ⟨⟨List.nodup_nil, by simp, trivial⟩, rfl, rfl⟩
    · intro n tag c h; rw [buildNamed] at h
      simp at h; subst h
      exact inv_of_plain ⟨⟨List.nodup_nil, by simp, trivial⟩, rfl, rfl⟩
  | .ext m, _ => by
    constructor
    · intro tag c h; rw [build] at h
      split at h <;> simp at h
      subst h; rename_i hr
      rcases regLoad_cases hr with h | ⟨b', hb, h⟩ | ⟨hb, _⟩ | ⟨hb, _⟩ | ⟨n, hb, hn, h⟩
      · exact inv_of_plain (custom_ok hc h)
      · cases hb
      · cases hb
      · cases hb
      · cases hb
        have := nullCodec_wf h
        refine ⟨this.1, fun hm => ?_, fun _ => rfl⟩
        rw [this.2.1] at hm; exact absurd hm (by simp)
    · intro n tag c h; rw [buildNamed] at h; simp at h
  | .bad k, _ => by
    constructor
    · intro tag c h; rw [build] at h; simp at h
    · intro n tag c h; rw [buildNamed] at h; simp at h
  | .named m t, hv => by
    simp only [TyDef.all, Bool.and_eq_true] at hv
    have ih := sound_both cfg hc t hv.2
    constructor
    · intro tag c h; rw [build_named] at h
      split at h
      · simp at h; subst h; rename_i hr
        exact inv_of_plain (custom_ok hc hr)
      · have i := ih.2 m tag c h
        exact ⟨i.wf, i.map, i.fptr⟩
    · intro n tag c h; rw [buildNamed] at h
      have i := ih.2 n tag c h
      exact ⟨i.wf, i.map, i.fptr⟩
  | .ptr t, hv => by
    simp only [TyDef.all, Bool.and_eq_true] at hv
    have ih := sound_both cfg hc t hv.2
    constructor
    · intro tag c h; rw [build_ptr] at h
      have := ptrArm_sound (fun c' hr => ih.1 tag c' hr) h
      refine ⟨this.1, fun hm => ?_, fun _ => rfl⟩
      rw [this.2.1] at hm; exact absurd hm (by simp)
    · intro n tag c h; rw [buildNamed_ptr] at h
      have := ptrArm_sound (fun c' hr => ih.1 tag c' hr) h
      refine ⟨this.1, fun hm => ?_, fun _ => rfl⟩
      rw [this.2.1] at hm; exact absurd hm (by simp)
  | .slice t, hv => by
    simp only [TyDef.all, Bool.and_eq_true] at hv
    have ih := sound_both cfg hc t hv.2
    constructor
    · intro tag c h; rw [build_slice] at h
      split at h
      · simp at h; subst h; rename_i hr
        rcases regLoad_cases hr with h | ⟨b', hb, h⟩ | ⟨_, rfl⟩ | ⟨hb, _⟩ | ⟨n, hb, _⟩
        · exact inv_of_plain (custom_ok hc h)
        · cases hb
        · exact inv_of_plain ⟨trivial, rfl, rfl⟩
        · cases hb
        · cases hb
      · exact inv_of_plain (sliceArm_sound (fun c' hr => ih.1 "" c' hr) h)
    · intro n tag c h; rw [buildNamed_slice] at h
      exact inv_of_plain (sliceArm_sound (fun c' hr => ih.1 "" c' hr) h)
  | .map k v, hv => by
    simp only [TyDef.all, Bool.and_eq_true] at hv
    have ihk := sound_both cfg hc k hv.1.2
    have ihv := sound_both cfg hc v hv.2
    have hkey : k.kind ≠ .map := by
      have := (nodeP_spec hv.1.1).2
      simpa [keyP] using this
    constructor
    · intro tag c h; rw [build_map] at h
      have := mapArm_sound hkey (fun c' hr => ihk.1 "" c' hr) (fun c' hr => ihv.1 "" c' hr) h
      exact ⟨this.1, fun _ => rfl, fun hf => by rw [this.2.2] at hf; exact absurd hf (by simp)⟩
    · intro n tag c h; rw [buildNamed_map] at h
      have := mapArm_sound hkey (fun c' hr => ihk.1 "" c' hr) (fun c' hr => ihv.1 "" c' hr) h
      exact ⟨this.1, fun _ => rfl, fun hf => by rw [this.2.2] at hf; exact absurd hf (by simp)⟩
  | .struct name fs, hv => by
    simp only [TyDef.all, Bool.and_eq_true] at hv
    have ih := sound_fields cfg hc fs hv.2
    constructor
    · intro tag c h; rw [build_struct] at h
      split at h
      · simp at h; subst h; rename_i hr
        exact inv_of_plain (custom_ok hc hr)
      · split at h
        · simp at h
        · exact inv_of_plain (structArm_sound ih h)
    · intro n tag c h; rw [buildNamed_struct] at h
      exact inv_of_plain (structArm_sound ih h)
theorem sound_fields (cfg : Cfg) (hc : cfg.wf) : (fs : FieldDefs) →
    allFields nodeP (fun _ => true) fs = true →
    ∀ cfs, buildFields cfg fs = .ok cfs → fieldsWf cfs ∧ ∀ f ∈ cfs, f.1 < 2 ^ 61
  | [], _ => by
    intro cfs h; rw [buildFields_nil] at h; simp at h; subst h
    exact ⟨trivial, by simp⟩
  | (g, e, p, j, t) :: r, hv => by
    simp only [allFields, Bool.and_eq_true, Bool.or_eq_true] at hv
    have ihr := sound_fields cfg hc r hv.2
    intro cfs h
    rw [buildFields_cons] at h
    rcases consRes_ok h with ⟨_, hr⟩ | ⟨x, cfs', hx, hr, rfl⟩
    · exact ihr cfs hr
    · have hns : skipped (g, e, p, j, t) ≠ true := by
        intro hs; rw [encField_none.mpr hs] at hx; simp at hx
      rcases hv.1 with hs | hq
      · exact absurd hs hns
      · have iht := sound_both cfg hc t hq.2
        obtain ⟨_, _, _, idx, c, ha, hpos, hmax, hb, rfl⟩ := encField_ok hx
        have i := iht.1 _ c hb
        have i2 := ihr cfs' hr
        refine ⟨⟨internFix_wf _ _ _ i.wf, i2.1⟩, ?_⟩
        intro f hf
        rcases List.mem_cons.mp hf with rfl | hf
        · simp only; omega
        · exact i2.2 f hf
end

/-- THE key theorem: everything the builder returns is Accepted. -/
theorem build_sound {cfg : Cfg} (hc : cfg.wf) {d : TyDef} (hw : d.widthsOK) (hk : d.keysOK)
    {tag : String} {t : Ty} (h : build cfg d tag = .ok t) : t.wf :=
  ((sound_both cfg hc d (valid_of d hw hk)).1 tag t h).wf

/-- a map codec only for a definition of kind map. -/
theorem build_isMap {cfg : Cfg} (hc : cfg.wf) {d : TyDef} (hw : d.widthsOK) (hk : d.keysOK)
    {tag : String} {t : Ty} (h : build cfg d tag = .ok t) (hm : t.isMap = true) : d.kind = .map :=
  ((sound_both cfg hc d (valid_of d hw hk)).1 tag t h).map hm

theorem buildNamed_sound {cfg : Cfg} (hc : cfg.wf) {d : TyDef} (hw : d.widthsOK) (hk : d.keysOK)
    {n tag : String} {t : Ty} (h : buildNamed cfg n d tag = .ok t) : t.wf :=
  ((sound_both cfg hc d (valid_of d hw hk)).2 n tag t h).wf

theorem buildFields_sound {cfg : Cfg} (hc : cfg.wf) {name : String} {fs : FieldDefs}
    (hw : (TyDef.struct name fs).widthsOK) (hk : (TyDef.struct name fs).keysOK)
    {cfs : Fields} (h : buildFields cfg fs = .ok cfs) :
    fieldsWf cfs ∧ (∀ f ∈ cfs, f.1 < 2 ^ 61) := by
  have hv := valid_of _ hw hk
  simp only [TyDef.all, Bool.and_eq_true] at hv
  exact sound_fields cfg hc fs hv.2 cfs h

/-- a definition of kind map whose own name carries no user registration
builds a map codec or fails. -/
theorem buildNamed_kind_map (cfg : Cfg) (n : String) : (d : TyDef) → (tag : String) → (c : Ty) →
    d.kind = .map → buildNamed cfg n d tag = .ok c → c.isMap = true
  | .map k v, tag, c, _, h => by
    rw [buildNamed_map] at h
    obtain ⟨_, kc, vc, _, _, _, _, rfl⟩ := mapArm_ok h; rfl
  | .named m t, tag, c, hk, h => by
    rw [buildNamed] at h
    exact buildNamed_kind_map cfg n t tag c hk h
  | .basic _, _, _, hk, _ => by simp [TyDef.kind] at hk
  | .time, _, _, hk, _ => by simp [TyDef.kind] at hk
  | .ptr _, _, _, hk, _ => by simp [TyDef.kind] at hk
  | .slice _, _, _, hk, _ => by simp [TyDef.kind] at hk
  | .struct _ _, _, _, hk, _ => by simp [TyDef.kind] at hk
  | .bad _, _, _, hk, _ => by simp [TyDef.kind] at hk
  | .ext _, _, _, hk, _ => by simp [TyDef.kind] at hk

theorem build_kind_map {cfg : Cfg} {d : TyDef} {tag : String} {c : Ty} (hk : d.kind = .map)
    (hreg : customLoad cfg d tag = none) (h : build cfg d tag = .ok c) : c.isMap = true := by
  cases d with
  | map k v =>
    rw [build_map] at h
    obtain ⟨_, kc, vc, _, _, _, _, rfl⟩ := mapArm_ok h; rfl
  | named m t =>
    rw [build_named, hreg] at h
    exact buildNamed_kind_map cfg m t tag c hk h
  | _ => simp [TyDef.kind] at hk

/-! ### 3. rejection: an error anywhere in a built position is an error of the whole -/

theorem ptrArm_err (t : TyDef) : ptrArm t .err = .err := by
  unfold ptrArm; split <;> rfl

theorem sliceArm_err (cfg : Cfg) (tag : String) (t : TyDef) : sliceArm cfg tag t .err = .err := by
  unfold sliceArm; split <;> rfl

theorem mapArm_err_key (tag : String) (v : TyDef) (rv : Res Ty) : mapArm tag v .err rv = .err := by
  unfold mapArm; split
  · rfl
  · cases rv <;> rfl

theorem mapArm_err_val (tag : String) (v : TyDef) {rk : Res Ty} (hk : rk.fine) :
    mapArm tag v rk .err = .err := by
  unfold mapArm; split
  · rfl
  · cases rk <;> first | rfl | exact absurd hk (by simp [Res.fine])

theorem structArm_err (name : String) : structArm name .err = .err := rfl

theorem consRes_err_tail {o : Option (Res (Nat × String × Ty))} (ho : stepFine o) :
    consRes o .err = .err := by
  cases o with
  | none => rfl
  | some x => cases x <;> first | rfl | exact absurd ho (by simp [stepFine, Res.fine])

/-- one failing field fails the field loop, wherever it stands. -/
theorem buildFields_err_of_mem (cfg : Cfg) {f : FieldDef} : (fs : FieldDefs) → f ∈ fs →
    encField cfg f = some .err → buildFields cfg fs = .err
  | [], hm, _ => by simp at hm
  | f' :: r, hm, he => by
    rw [buildFields_cons]
    rcases List.mem_cons.mp hm with rfl | hm
    · rw [he]; rfl
    · rw [buildFields_err_of_mem cfg r hm he]
      exact consRes_err_tail (encField_fine cfg f' (fun tag => build_total cfg _ tag))

/-- a struct with a failing field is rejected (unless the struct type itself
carries a user registration, which is consulted first). -/
theorem struct_err_of_field {cfg : Cfg} {name tag : String} {fs : FieldDefs} {f : FieldDef}
    (hm : f ∈ fs) (he : encField cfg f = some .err)
    (hreg : customLoad cfg (.struct name fs) tag = none) :
    build cfg (.struct name fs) tag = .err := by
  rw [build_struct, hreg]
  simp only
  split
  · rfl
  · rw [buildFields_err_of_mem cfg fs hm he]; rfl

theorem namedStruct_err_of_field {cfg : Cfg} {n name tag : String} {fs : FieldDefs} {f : FieldDef}
    (hm : f ∈ fs) (he : encField cfg f = some .err) :
    buildNamed cfg n (.struct name fs) tag = .err := by
  rw [buildNamed_struct, buildFields_err_of_mem cfg fs hm he]; rfl

/-! the per-field error classes -/

theorem encField_noTag (cfg : Cfg) (g j : String) (t : TyDef) :
    encField cfg (g, true, "", j, t) = some .err := by
  simp [encField]

theorem encField_atoi {cfg : Cfg} {g p j : String} {t : TyDef} (hp : p ≠ "-")
    (ha : atoi (splitComma p).1 = none) : encField cfg (g, true, p, j, t) = some .err := by
  simp only [encField, Bool.not_true, Bool.false_eq_true, ↓reduceIte, beq_iff_eq, hp, ha]
  split <;> rfl

theorem encField_range {cfg : Cfg} {g p j : String} {t : TyDef} {idx : Int} (hp : p ≠ "-")
    (ha : atoi (splitComma p).1 = some idx) (hr : idx < 0 ∨ idx > 536870911) :
    encField cfg (g, true, p, j, t) = some .err := by
  simp only [encField, Bool.not_true, Bool.false_eq_true, ↓reduceIte, beq_iff_eq, hp, ha, hr]
  split <;> rfl

theorem encField_negative {cfg : Cfg} {g p j : String} {t : TyDef} {idx : Int} (hp : p ≠ "-")
    (ha : atoi (splitComma p).1 = some idx) (hneg : idx < 0) :
    encField cfg (g, true, p, j, t) = some .err :=
  encField_range hp ha (.inl hneg)

/-- beyond `maxFieldIndex = 1<<29 - 1`, the protobuf field number range. -/
theorem encField_huge {cfg : Cfg} {g p j : String} {t : TyDef} {idx : Int} (hp : p ≠ "-")
    (ha : atoi (splitComma p).1 = some idx) (hbig : idx > 536870911) :
    encField cfg (g, true, p, j, t) = some .err :=
  encField_range hp ha (.inr hbig)

theorem encField_err_of_build {cfg : Cfg} {g p j : String} {t : TyDef} (hp0 : p ≠ "") (hp : p ≠ "-")
    (hb : build cfg t (subTag (splitComma p).2) = .err) :
    encField cfg (g, true, p, j, t) = some .err := by
  simp only [encField, Bool.not_true, Bool.false_eq_true, ↓reduceIte, beq_iff_eq, hp0, hp, hb]
  split
  · rfl
  · split <;> rfl

/-- `bld cfg none` is `build`, `bld cfg (some n)` is `buildNamed cfg n`. -/
def bld (cfg : Cfg) : Option String → TyDef → String → Res Ty
  | none, d, tag => build cfg d tag
  | some n, d, tag => buildNamed cfg n d tag

/-- `Reach cfg d' t' m d tag`: building `d` with option `tag` (as an unnamed
type when `m = none`, as the underlying type of `type n …` when `m = some n`)
calls `build cfg d' t'` — `d'` is the field type, pointer target, slice element,
map key, map value, underlying type or nested struct field at some depth, and
no registry hit short-cuts the descent. -/
inductive Reach (cfg : Cfg) (d' : TyDef) (t' : String) : Option String → TyDef → String → Prop
  | here : Reach cfg d' t' none d' t'
  | ptr {m t tag} : Reach cfg d' t' none t tag → Reach cfg d' t' m (.ptr t) tag
  | slice {m t tag} : (m = none → regLoad cfg (.slice t) tag = none) →
      Reach cfg d' t' none t "" → Reach cfg d' t' m (.slice t) tag
  | mapKey {m k v tag} : Reach cfg d' t' none k "" → Reach cfg d' t' m (.map k v) tag
  | mapVal {m k v tag} : Reach cfg d' t' none v "" → Reach cfg d' t' m (.map k v) tag
  | named {n t tag} : customLoad cfg (.named n t) tag = none →
      Reach cfg d' t' (some n) t tag → Reach cfg d' t' none (.named n t) tag
  | renamed {n n' t tag} : Reach cfg d' t' (some n) t tag → Reach cfg d' t' (some n) (.named n' t) tag
  | field {m name fs tag g p j t} : (m = none → customLoad cfg (.struct name fs) tag = none) →
      (g, true, p, j, t) ∈ fs → p ≠ "" → p ≠ "-" →
      Reach cfg d' t' none t (subTag (splitComma p).2) → Reach cfg d' t' m (.struct name fs) tag

/-- if a sub-definition in a built position fails, the whole fails. -/
theorem build_propagates_err {cfg : Cfg} {d' : TyDef} {t' : String} {m : Option String}
    {d : TyDef} {tag : String} (hr : Reach cfg d' t' m d tag) (he : build cfg d' t' = .err) :
    bld cfg m d tag = .err := by
  induction hr with
  | here => exact he
  | @ptr m t tag _ ih =>
    simp only [bld] at ih
    cases m <;> simp only [bld]
    · rw [build_ptr, ih, ptrArm_err]
    · rw [buildNamed_ptr, ih, ptrArm_err]
  | @slice m t tag hreg _ ih =>
    simp only [bld] at ih
    cases m <;> simp only [bld]
    · rw [build_slice, hreg rfl]; simp only; rw [ih, sliceArm_err]
    · rw [buildNamed_slice, ih, sliceArm_err]
  | @mapKey m k v tag _ ih =>
    simp only [bld] at ih
    cases m <;> simp only [bld]
    · rw [build_map, ih, mapArm_err_key]
    · rw [buildNamed_map, ih, mapArm_err_key]
  | @mapVal m k v tag _ ih =>
    simp only [bld] at ih
    cases m <;> simp only [bld]
    · rw [build_map, ih, mapArm_err_val _ _ (build_total cfg k "")]
    · rw [buildNamed_map, ih, mapArm_err_val _ _ (build_total cfg k "")]
  | @named n t tag hreg _ ih =>
    simp only [bld] at ih ⊢
    rw [build_named, hreg]; exact ih
  | @renamed n n' t tag _ ih =>
    simp only [bld] at ih ⊢
    rw [buildNamed]; exact ih
  | @field m name fs tag g p j t hreg hm hp0 hp _ ih =>
    simp only [bld] at ih
    have hf := encField_err_of_build (cfg := cfg) (g := g) (j := j) hp0 hp ih
    cases m <;> simp only [bld]
    · exact struct_err_of_field hm hf (hreg rfl)
    · exact namedStruct_err_of_field hm hf

/-! the encoded fields, read off the definition alone -/

/-- index and wire name of a field that reaches a codec (`none`: skipped or unparsable). -/
def encKey (f : FieldDef) : Option (Nat × String) :=
  if skipped f then none else
  (atoi (splitComma f.2.2.1).1).map fun i => (i.toNat, fieldName f.1 f.2.2.2.1)

/-- the codec's field list has exactly the non-skipped fields of the
definition, in order, under their tag indexes and json/Go names. -/
theorem buildFields_keys (cfg : Cfg) : (fs : FieldDefs) → (cfs : Fields) →
    buildFields cfg fs = .ok cfs → cfs.map (fun c => (c.1, c.2.1)) = fs.filterMap encKey
  | [], cfs, h => by
    rw [buildFields_nil] at h; simp at h; subst h; rfl
  | (g, e, p, j, t) :: r, cfs, h => by
    rw [buildFields_cons] at h
    rcases consRes_ok h with ⟨ho, hr⟩ | ⟨x, cfs', hx, hr, rfl⟩
    · have hs := encField_none.mp ho
      rw [List.filterMap_cons]
      simp only [encKey, hs, ↓reduceIte]
      exact buildFields_keys cfg r cfs hr
    · have hns : skipped (g, e, p, j, t) = false := by
        cases hs : skipped (g, e, p, j, t)
        · rfl
        · rw [encField_none.mpr hs] at hx; simp at hx
      obtain ⟨_, _, _, idx, c, ha, _, _, _, rfl⟩ := encField_ok hx
      rw [List.filterMap_cons]
      simp only [encKey, hns, Bool.false_eq_true, ↓reduceIte, ha, Option.map_some, List.map_cons]
      rw [buildFields_keys cfg r cfs' hr]

theorem atoi_dash : atoi (splitComma "-").1 = none := by decide

/-- a field that is exported and whose tag starts with a parsable index is not skipped. -/
theorem encKey_of_atoi {g p j : String} {t : TyDef} {i : Int}
    (ha : atoi (splitComma p).1 = some i) :
    encKey (g, true, p, j, t) = some (i.toNat, fieldName g j) := by
  have hp : p ≠ "-" := by
    rintro rfl; rw [atoi_dash] at ha; simp at ha
  simp [encKey, skipped, hp, ha]

theorem structArm_dup {name : String} {r : Res Fields} (hf : r.fine)
    (hd : ∀ cfs, r = .ok cfs → ¬ (cfs.map (·.1)).Nodup) : structArm name r = .err := by
  rcases fine_cases hf with ⟨cfs, rfl⟩ | rfl
  · simp only [structArm, hasDup_true _ (hd cfs rfl), ↓reduceIte]
  · rfl

theorem not_nodup_of_two {α : Type} (a b c : List α) (x : α) : ¬ (a ++ x :: b ++ x :: c).Nodup := by
  intro h
  rw [List.append_assoc] at h
  have h2 := (List.nodup_append.mp h).2.1
  have h3 := (List.nodup_cons.mp h2).1
  exact h3 (by simp)

/-- two encoded fields with the same index: the field loop fails or returns a
list the duplicate check rejects. -/
theorem fields_dup {cfg : Cfg} {a b c : FieldDefs} {f1 f2 : FieldDef} {i : Nat} {n1 n2 : String}
    (h1 : encKey f1 = some (i, n1)) (h2 : encKey f2 = some (i, n2)) (name : String) :
    structArm name (buildFields cfg (a ++ f1 :: b ++ f2 :: c)) = .err := by
  apply structArm_dup (buildFields_total cfg _)
  intro cfs h
  have hk := buildFields_keys cfg _ cfs h
  have : cfs.map (·.1) = (cfs.map (fun c => (c.1, c.2.1))).map (·.1) := by
    rw [List.map_map]; rfl
  rw [this, hk]
  simp only [List.filterMap_append, List.filterMap_cons, h1, h2, List.map_append, List.map_cons]
  exact not_nodup_of_two _ _ _ _

theorem struct_dup {cfg : Cfg} {a b c : FieldDefs} {f1 f2 : FieldDef} {i : Nat} {n1 n2 : String}
    (h1 : encKey f1 = some (i, n1)) (h2 : encKey f2 = some (i, n2)) (name tag : String)
    (hreg : customLoad cfg (.struct name (a ++ f1 :: b ++ f2 :: c)) tag = none) :
    build cfg (.struct name (a ++ f1 :: b ++ f2 :: c)) tag = .err := by
  rw [build_struct, hreg]
  simp only
  split
  · rfl
  · exact fields_dup h1 h2 name

theorem namedStruct_dup {cfg : Cfg} {a b c : FieldDefs} {f1 f2 : FieldDef} {i : Nat}
    {n1 n2 : String} (h1 : encKey f1 = some (i, n1)) (h2 : encKey f2 = some (i, n2))
    (n name tag : String) :
    buildNamed cfg n (.struct name (a ++ f1 :: b ++ f2 :: c)) tag = .err := by
  rw [buildNamed_struct]; exact fields_dup h1 h2 n

/-! unknown tag option, unsupported kinds and nestings -/

theorem regLoad_basic_none {cfg : Cfg} {b : Basic} {tag : String}
    (hc : customLoad cfg (.basic b) tag = none) (hb : regBasic b tag = none) :
    regLoad cfg (.basic b) tag = none := by
  unfold regLoad; rw [hc]; exact hb

theorem build_basic_err {cfg : Cfg} {b : Basic} {tag : String}
    (hc : customLoad cfg (.basic b) tag = none) (hb : regBasic b tag = none) :
    build cfg (.basic b) tag = .err := by
  rw [build, regLoad_basic_none hc hb]

theorem build_bad (cfg : Cfg) (k tag : String) : build cfg (.bad k) tag = .err := by
  rw [build]

theorem build_ptr_map {cfg : Cfg} {t : TyDef} (tag : String) (h : t.kind = .map) :
    build cfg (.ptr t) tag = .err := by
  rw [build_ptr]; simp [ptrArm, h]

theorem build_map_map {cfg : Cfg} (k : TyDef) {v : TyDef} (tag : String) (h : v.kind = .map) :
    build cfg (.map k v) tag = .err := by
  rw [build_map]; simp [mapArm, h]

/-- a map whose value codec is (a pointer to) the protobuf repeated form: rejected. -/
theorem build_map_protoslice {cfg : Cfg} (k : TyDef) {v : TyDef} {vc : Ty} (tag : String)
    (hb : build cfg v "" = .ok vc) (hp : vc.isProtoSlice = true) :
    build cfg (.map k v) tag = .err := by
  rw [build_map, hb]
  unfold mapArm
  split
  · rfl
  · have hk := build_total cfg k ""
    cases hkr : build cfg k "" <;> simp [hkr, Res.fine, hp] at hk ⊢

/-- only `[]byte` has a registry entry among the slice types. -/
theorem regLoad_slice_none {cfg : Cfg} {t : TyDef} (tag : String)
    (h : t ≠ .basic (.uint 8)) : regLoad cfg (.slice t) tag = none := by
  have hn : (TyDef.slice t).regName = none := by
    unfold TyDef.regName
    split <;> simp_all
  have hc : customLoad cfg (.slice t) tag = none := by
    unfold customLoad; rw [hn]
  unfold regLoad; rw [hc]
  simp only
  split <;> simp_all

theorem build_slice_map {cfg : Cfg} {t : TyDef} (tag : String) (h : t.kind = .map) :
    build cfg (.slice t) tag = .err := by
  have hne : t ≠ .basic (.uint 8) := by
    rintro rfl; simp [TyDef.kind] at h
  rw [build_slice, regLoad_slice_none tag hne]
  simp [sliceArm, h]

/-- `[]*float32`, `[]*float64`, `[]null.Float`: an element type that is not of
kind float32/float64 but whose codec has a fixed-width wire type. -/
theorem build_slice_nonfloat {cfg : Cfg} {t : TyDef} {c : Ty} (tag : String)
    (hk : t.isFloatKind = false) (hne : t ≠ .basic (.uint 8))
    (hb : build cfg t "" = .ok c) (hw : c.wt = .w64 ∨ c.wt = .w32) :
    build cfg (.slice t) tag = .err := by
  rw [build_slice, regLoad_slice_none tag hne, hb]
  simp only [sliceArm, hk]
  split
  · rfl
  · rcases hw with hw | hw <;> simp [sliceWrap, hw]

theorem isFloatKind_of_ptr {t : TyDef} (hk : t.kind = .ptr) : t.isFloatKind = false := by
  simp [TyDef.isFloatKind, hk]

theorem build_slice_ptr_float {cfg : Cfg} {t : TyDef} {c : Ty} (tag : String)
    (hk : t.kind = .ptr) (hb : build cfg t "" = .ok c) (hw : c.wt = .w64 ∨ c.wt = .w32) :
    build cfg (.slice t) tag = .err :=
  build_slice_nonfloat tag (isFloatKind_of_ptr hk)
    (by rintro rfl; simp [TyDef.kind] at hk) hb hw

/-- a slice whose element codec has plenc's WTSlice wire type. -/
theorem build_slice_wtslice {cfg : Cfg} {t : TyDef} {c : Ty} (tag : String)
    (hne : t ≠ .basic (.uint 8)) (hb : build cfg t "" = .ok c) (hw : c.wt = .slice) :
    build cfg (.slice t) tag = .err := by
  rw [build_slice, regLoad_slice_none tag hne, hb]
  simp only [sliceArm]
  split
  · rfl
  · simp [sliceWrap, hw]

theorem isProtoSlice_wt : ∀ {c : Ty}, c.isProtoSlice = true → c.wt = .len
  | .pslice _, _ => rfl
  | .ptr t, h => by
      have : t.isProtoSlice = true := by simpa [Ty.isProtoSlice] using h
      simpa [Ty.wt] using isProtoSlice_wt this
  | .bool, h | .int _, h | .uint _, h | .flat _, h | .f32, h | .f64, h | .str _, h | .bytes, h
  | .time _, h | .vslice _, h | .fslice _, h | .lslice _, h | .struct _ _, h | .map _ _ _, h => by
      simp [Ty.isProtoSlice] at h

/-- a slice whose element codec is (a pointer to) the protobuf repeated form: rejected,
whatever the options (the repaired `isProtoSlice` check). -/
theorem build_slice_protoslice {cfg : Cfg} {t : TyDef} {c : Ty} (tag : String)
    (hne : t ≠ .basic (.uint 8)) (hb : build cfg t "" = .ok c) (hp : c.isProtoSlice = true) :
    build cfg (.slice t) tag = .err := by
  rw [build_slice, regLoad_slice_none tag hne, hb]
  simp only [sliceArm]
  split
  · rfl
  · simp [sliceWrap, isProtoSlice_wt hp, hp]

/-- `[][]T` with a length-delimited `T` (strings, structs, times, `[]byte`,
slices of numbers …): rejected under every option combination (with
ProtoCompatibleArrays this is the repaired case: the inner slice would be in the
repeated form, which is not self-delimiting). -/
theorem build_slice_slice_len {cfg : Cfg} {t : TyDef} {c : Ty} (tag : String)
    (hne : t ≠ .basic (.uint 8))
    (hb : build cfg t "" = .ok c) (hw : c.wt = .len) :
    build cfg (.slice (.slice t)) tag = .err := by
  have hinner : build cfg (.slice t) "" = .err ∨ build cfg (.slice t) "" = .ok (.lslice c)
      ∨ build cfg (.slice t) "" = .ok (.pslice c) := by
    rw [build_slice, regLoad_slice_none "" hne, hb]
    simp only [sliceArm]
    split
    · exact .inl rfl
    · simp only [sliceWrap, hw]
      cases c.isProtoSlice
      · cases cfg.protoArrays <;> simp
      · simp
  have hne2 : TyDef.slice t ≠ .basic (.uint 8) := by intro h; cases h
  rcases hinner with h | h | h
  · rw [build_slice, regLoad_slice_none tag hne2, h]
    exact sliceArm_err _ _ _
  · exact build_slice_wtslice tag hne2 h rfl
  · exact build_slice_protoslice tag hne2 h rfl

/-! ### 4. skipped fields -/

theorem buildFields_skip (cfg : Cfg) {f : FieldDef} (hs : skipped f = true) (post : FieldDefs) :
    (pre : FieldDefs) → buildFields cfg (pre ++ f :: post) = buildFields cfg (pre ++ post)
  | [] => by
    rw [List.nil_append, List.nil_append, buildFields_cons, encField_none.mpr hs]; rfl
  | f' :: pre => by
    rw [List.cons_append, List.cons_append, buildFields_cons, buildFields_cons,
      buildFields_skip cfg hs post pre]

theorem customLoad_struct (cfg : Cfg) (name : String) (fs fs' : FieldDefs) (tag : String) :
    customLoad cfg (.struct name fs) tag = customLoad cfg (.struct name fs') tag := by
  simp only [customLoad, TyDef.regName]

theorem build_skip (cfg : Cfg) {f : FieldDef} (hs : skipped f = true) (name : String)
    (pre post : FieldDefs) (tag : String) :
    build cfg (.struct name (pre ++ f :: post)) tag = build cfg (.struct name (pre ++ post)) tag := by
  rw [build_struct, build_struct, buildFields_skip cfg hs post pre,
    customLoad_struct cfg name (pre ++ f :: post) (pre ++ post) tag,
    customLoad_struct cfg name (pre ++ f :: post) (pre ++ post) ""]

theorem buildNamed_skip (cfg : Cfg) {f : FieldDef} (hs : skipped f = true) (n name : String)
    (pre post : FieldDefs) (tag : String) :
    buildNamed cfg n (.struct name (pre ++ f :: post)) tag =
      buildNamed cfg n (.struct name (pre ++ post)) tag := by
  rw [buildNamed_struct, buildNamed_struct, buildFields_skip cfg hs post pre]

/-! ### `atoi` -/

theorem atoi_aux {neg : Bool} {ds : List Char} {v : Int}
    (h : (if ds.isEmpty then none else
          if ds.all Char.isDigit then
            let n : Nat := ds.foldl (fun a c => a * 10 + (c.toNat - 48)) 0
            let w : Int := if neg then -(n : Int) else n
            if w < -(2 ^ 63 : Int) ∨ w ≥ (2 ^ 63 : Int) then none else some w
          else none) = some v) :
    -(2 ^ 63 : Int) ≤ v ∧ v < (2 ^ 63 : Int) := by
  generalize ds.foldl (fun a c => a * 10 + (c.toNat - 48)) 0 = n at h
  split at h
  · simp at h
  · split at h
    · cases neg <;> simp at h <;> omega
    · simp at h

/-- a parsed index is a Go `int`. -/
theorem atoi_range {s : String} {v : Int} (h : atoi s = some v) :
    -(2 ^ 63 : Int) ≤ v ∧ v < (2 ^ 63 : Int) := by
  unfold atoi at h
  simp only at h
  split at h
  · exact atoi_aux (neg := true) h
  · exact atoi_aux (neg := false) h
  · exact atoi_aux (neg := false) h

/-- every index of a built field list is at most `maxFieldIndex = 2^29 - 1`. -/
theorem buildFields_idx_le (cfg : Cfg) : (fs : FieldDefs) → (cfs : Fields) →
    buildFields cfg fs = .ok cfs → ∀ f ∈ cfs, f.1 ≤ 536870911
  | [], cfs, h => by
    rw [buildFields_nil] at h; simp at h; subst h; simp
  | (g, e, p, j, t) :: r, cfs, h => by
    rw [buildFields_cons] at h
    rcases consRes_ok h with ⟨_, hr⟩ | ⟨x, cfs', hx, hr, rfl⟩
    · exact buildFields_idx_le cfg r cfs hr
    · obtain ⟨_, _, _, idx, c, ha, hpos, hmax, _, rfl⟩ := encField_ok hx
      intro f hf
      rcases List.mem_cons.mp hf with rfl | hf
      · simp only; omega
      · exact buildFields_idx_le cfg r cfs' hr f hf

theorem buildFields_idx_lt (cfg : Cfg) (fs : FieldDefs) (cfs : Fields)
    (h : buildFields cfg fs = .ok cfs) : ∀ f ∈ cfs, f.1 < 2 ^ 61 := by
  intro f hf
  have := buildFields_idx_le cfg fs cfs h f hf
  omega

/-! ### small facts used by the property file -/

theorem customLoad_nil {cfg : Cfg} (h : cfg.custom = []) (d : TyDef) (tag : String) :
    customLoad cfg d tag = none := by
  unfold customLoad; split
  · rfl
  · simp [h]

theorem cfg_wf_nil {cfg : Cfg} (h : cfg.custom = []) : cfg.wf := by
  intro e he; rw [h] at he; simp at he

/-- a failing field type fails the struct (the one-step instance of `build_propagates_err`). -/
theorem struct_err_of_field_type {cfg : Cfg} {name tag : String} {fs : FieldDefs}
    {g p j : String} {t : TyDef} (hm : (g, true, p, j, t) ∈ fs) (hp0 : p ≠ "") (hp : p ≠ "-")
    (hb : build cfg t (subTag (splitComma p).2) = .err)
    (hreg : customLoad cfg (.struct name fs) tag = none) :
    build cfg (.struct name fs) tag = .err :=
  struct_err_of_field hm (encField_err_of_build hp0 hp hb) hreg

end Build
