import Proofs.Wire
import Plenc.Typing
/-
  Proofs.SizeApp — the codec laws behind C05: `Size` predicts `Append`, the
  framing shape of `Append` with a tag, and exact consumption of the scalar
  readers.
-/

/-! ### list / byte helpers -/

theorem leBytes_length : ∀ (n v : Nat), (leBytes n v).length = n
  | 0, _ => rfl
  | n+1, v => by simp [leBytes, leBytes_length n]

theorem sum_map_eq_length_flatMap {α : Type} (f : α → Nat) (g : α → Bytes) :
    ∀ (l : List α), (∀ a ∈ l, f a = (g a).length) → (l.map f).sum = (l.flatMap g).length
  | [], _ => by simp
  | a :: l, h => by
    have ih := sum_map_eq_length_flatMap f g l (fun x hx => h x (by simp [hx]))
    have ha := h a (by simp)
    simp only [List.map_cons, List.sum_cons, List.flatMap_cons, List.length_append, ih, ha]

theorem flatMap_congr' {α β : Type} (f g : α → List β) :
    ∀ (l : List α), (∀ a ∈ l, f a = g a) → l.flatMap f = l.flatMap g
  | [], _ => by simp
  | a :: l, h => by
    have ih := flatMap_congr' f g l (fun x hx => h x (by simp [hx]))
    simp only [List.flatMap_cons, ih, h a (by simp)]

theorem isEmpty_iff_length {α : Type} (l : List α) : l.isEmpty = true ↔ l.length = 0 := by
  cases l <;> simp

/-! ### frames -/

theorem frame_length (tag body : Bytes) (sz : Nat) (h : sz = body.length) :
    frameSize tag sz = (frame tag body sz).length := by
  subst h
  unfold frameSize frame
  split
  · rfl
  · simp only [List.length_append, size_eq_len]; omega

theorem frame_nil (body : Bytes) (sz : Nat) : frame [] body sz = body := by
  simp [frame]

theorem frame_cons (tag body : Bytes) (sz : Nat) (h : tag ≠ []) :
    frame tag body sz = tag ++ appendVarUint sz ++ body := by
  cases tag with
  | nil => exact absurd rfl h
  | cons a r => simp [frame]

theorem timeBody_length (c : Bool) (sec : Int) (nsec : Nat) :
    timeBodySize c sec nsec = (timeBody c sec nsec).length := by
  unfold timeBodySize timeBody
  cases c <;> simp only [sizeVarInt, appendVarInt, size_eq_len] <;> simp <;> omega

/-! ### law 1: `Size` = length of `Append` -/

def SizeLaw (t : Ty) : Prop :=
  ∀ (v : Val) (tag : Bytes), t.wf → t.hasTy v → t.size v tag = (t.app v tag).length

def FieldsSizeLaw (fs : Fields) : Prop :=
  ∀ (vs : List Val), fieldsWf fs → fieldsHaveTy fs vs → fieldsSize fs vs = (fieldsApp fs vs).length

theorem sizeLaw_bool : SizeLaw .bool := by
  intro v tag _ hty
  cases v with
  | bool b =>
    simp only [Ty.size, Ty.app, List.length_append]
    cases b <;> simp [len_append_small] <;> omega
  | _ => simp [Ty.hasTy] at hty

theorem sizeLaw_int (w : Nat) : SizeLaw (.int w) := by
  intro v tag _ hty
  cases v with
  | int i =>
    simp only [Ty.size, Ty.app, List.length_append, sizeVarInt, appendVarInt, size_eq_len]; omega
  | _ => simp [Ty.hasTy] at hty

theorem sizeLaw_uint (w : Nat) : SizeLaw (.uint w) := by
  intro v tag _ hty
  cases v with
  | uint i =>
    simp only [Ty.size, Ty.app, List.length_append, size_eq_len]; omega
  | _ => simp [Ty.hasTy] at hty

theorem sizeLaw_flat (w : Nat) : SizeLaw (.flat w) := by
  intro v tag _ hty
  cases v with
  | int i =>
    simp only [Ty.size, Ty.app, List.length_append, size_eq_len]; omega
  | _ => simp [Ty.hasTy] at hty

theorem sizeLaw_f32 : SizeLaw .f32 := by
  intro v tag _ hty
  cases v with
  | f32 b =>
    simp only [Ty.size, Ty.app, List.length_append, leBytes_length]; omega
  | _ => simp [Ty.hasTy] at hty

theorem sizeLaw_f64 : SizeLaw .f64 := by
  intro v tag _ hty
  cases v with
  | f64 b =>
    simp only [Ty.size, Ty.app, List.length_append, leBytes_length]; omega
  | _ => simp [Ty.hasTy] at hty

theorem sizeLaw_str (i : Bool) : SizeLaw (.str i) := by
  intro v tag _ hty
  cases v with
  | str s => simp only [Ty.size, Ty.app]; exact frame_length _ _ _ rfl
  | _ => simp [Ty.hasTy] at hty

theorem sizeLaw_bytes : SizeLaw .bytes := by
  intro v tag _ hty
  cases v with
  | bytes s => simp only [Ty.size, Ty.app]; exact frame_length _ _ _ rfl
  | _ => simp [Ty.hasTy] at hty

theorem sizeLaw_time (c : Bool) : SizeLaw (.time c) := by
  intro v tag _ hty
  cases v with
  | time s n => simp only [Ty.size, Ty.app]; exact frame_length _ _ _ (timeBody_length c s n)
  | _ => simp [Ty.hasTy] at hty

theorem sizeLaw_ptr (t : Ty) (ih : SizeLaw t) : SizeLaw (.ptr t) := by
  intro v tag hwf hty
  cases v with
  | ptr o =>
    cases o with
    | none => simp [Ty.size, Ty.app]
    | some x =>
      simp only [Ty.wf] at hwf
      simp only [Ty.hasTy] at hty
      simp only [Ty.size, Ty.app]
      exact ih x tag hwf.1 hty
  | _ => simp [Ty.hasTy] at hty

theorem sizeLaw_vslice (t : Ty) (ih : SizeLaw t) : SizeLaw (.vslice t) := by
  intro v tag hwf hty
  cases v with
  | slice vs =>
    simp only [Ty.wf] at hwf
    simp only [Ty.hasTy] at hty
    simp only [Ty.size, Ty.app]
    exact frame_length _ _ _
      (sum_map_eq_length_flatMap _ _ vs (fun a ha => ih a [] hwf.1 (hty a ha)))
  | _ => simp [Ty.hasTy] at hty

theorem sizeLaw_fslice (t : Ty) : SizeLaw (.fslice t) := by
  intro v tag hwf hty
  cases v with
  | slice vs =>
    simp only [Ty.wf] at hwf
    simp only [Ty.hasTy] at hty
    simp only [Ty.size, Ty.app]
    apply frame_length
    have key : ∀ a ∈ vs, t.size t.zero [] = (t.app a []).length := by
      intro a ha
      have h := hty a ha
      rcases hwf with rfl | rfl
      · cases a with
        | f32 b => simp [Ty.size, Ty.app, Ty.zero, leBytes_length]
        | _ => simp [Ty.hasTy] at h
      · cases a with
        | f64 b => simp [Ty.size, Ty.app, Ty.zero, leBytes_length]
        | _ => simp [Ty.hasTy] at h
    rw [← sum_map_eq_length_flatMap (fun _ => t.size t.zero []) _ vs key]
    clear key hty
    induction vs with
    | nil => simp
    | cons a l ih => simp only [List.length_cons, List.map_cons, List.sum_cons, ← ih, Nat.mul_succ]; omega
  | _ => simp [Ty.hasTy] at hty

theorem sizeLaw_lslice (t : Ty) (ih : SizeLaw t) : SizeLaw (.lslice t) := by
  intro v tag hwf hty
  cases v with
  | slice vs =>
    simp only [Ty.wf] at hwf
    simp only [Ty.hasTy] at hty
    simp only [Ty.size, Ty.app, List.length_append]
    rw [sum_map_eq_length_flatMap _ (fun v => appendVarUint (t.size v []) ++ t.app v []) vs
      (fun a ha => by
        simp only [List.length_append, size_eq_len, ih a [] hwf.1 (hty a ha)]; omega)]
    rw [size_eq_len]; omega
  | _ => simp [Ty.hasTy] at hty

theorem sizeLaw_pslice (t : Ty) (ih : SizeLaw t) : SizeLaw (.pslice t) := by
  intro v tag hwf hty
  cases v with
  | slice vs =>
    simp only [Ty.wf] at hwf
    simp only [Ty.hasTy] at hty
    simp only [Ty.size, Ty.app]
    apply sum_map_eq_length_flatMap
    intro a ha
    have h := ih a tag hwf.1 (hty a ha)
    simp only [h]
    by_cases he : (t.app a tag).length = 0
    · have he' : (t.app a tag).isEmpty = true := (isEmpty_iff_length _).mpr he
      by_cases ht : tag.isEmpty = true
      · simp [he, he', ht]
      · simp [he, he', ht]
    · have he' : ¬ (t.app a tag).isEmpty = true := fun h => he ((isEmpty_iff_length _).mp h)
      simp [he, he']
  | _ => simp [Ty.hasTy] at hty

/-- the bytes of one map entry after its length prefix: key under index 1,
value under index 2, each left out when `Omit` says so. -/
def entryBody (k v : Ty) (e : Val × Val) : Bytes :=
  (if e.1.omit then [] else k.app e.1 (appendTag k.wt 1))
    ++ (if e.2.omit then [] else v.app e.2 (appendTag v.wt 2))

def entrySize (k v : Ty) (e : Val × Val) : Nat :=
  (if e.1.omit then 0 else k.size e.1 (appendTag k.wt 1))
    + (if e.2.omit then 0 else v.size e.2 (appendTag v.wt 2))

theorem entrySize_eq (k v : Ty) (ihk : SizeLaw k) (ihv : SizeLaw v) (hk : k.wf) (hv : v.wf)
    (e : Val × Val) (h1 : k.hasTy e.1) (h2 : v.hasTy e.2) :
    entrySize k v e = (entryBody k v e).length := by
  unfold entrySize entryBody
  rw [List.length_append, ihk e.1 _ hk h1, ihv e.2 _ hv h2]
  cases e.1.omit <;> cases e.2.omit <;> simp

theorem sizeLaw_map (k v : Ty) (p : Bool) (ihk : SizeLaw k) (ihv : SizeLaw v) : SizeLaw (.map k v p) := by
  intro x tag hwf hty
  simp only [Ty.wf] at hwf
  cases x with
  | map o =>
    cases o with
    | none =>
      cases p with
      | false => simp [Ty.size, Ty.app, len_append_small]; omega
      | true => simp [Ty.size, Ty.app]
    | some es =>
      simp only [Ty.hasTy] at hty
      have hes : ∀ e ∈ es, entrySize k v e = (entryBody k v e).length :=
        fun e he => entrySize_eq k v ihk ihv hwf.1 hwf.2.1 e (hty.1 e he).1 (hty.1 e he).2
      cases p with
      | false =>
        simp only [Ty.size, Ty.app, List.length_append]
        show (sizeVarUint es.length + (es.map fun e => sizeVarUint (entrySize k v e) + entrySize k v e).sum) + tag.length
          = tag.length + ((appendVarUint es.length).length
              + (es.flatMap fun e => appendVarUint (entrySize k v e) ++ entryBody k v e).length)
        rw [sum_map_eq_length_flatMap _ (fun e => appendVarUint (entrySize k v e) ++ entryBody k v e) es
          (fun e he => by simp only [List.length_append, size_eq_len, hes e he])]
        rw [size_eq_len]; omega
      | true =>
        simp only [Ty.size, Ty.app]
        show (es.map fun e => tag.length + sizeVarUint (entrySize k v e) + entrySize k v e).sum
          = (es.flatMap fun e => tag ++ (appendVarUint (entrySize k v e) ++ entryBody k v e)).length
        exact sum_map_eq_length_flatMap _ _ es
          (fun e he => by simp only [List.length_append, size_eq_len, hes e he]; omega)
  | _ => simp [Ty.hasTy] at hty

theorem sizeLaw_struct (n : String) (fs : Fields) (ih : FieldsSizeLaw fs) : SizeLaw (.struct n fs) := by
  intro v tag hwf hty
  cases v with
  | struct vs =>
    simp only [Ty.wf] at hwf
    simp only [Ty.hasTy] at hty
    simp only [Ty.size, Ty.app]
    exact frame_length _ _ _ (ih vs hwf.2.2 hty)
  | _ => simp [Ty.hasTy] at hty

theorem fieldsSizeLaw_nil : FieldsSizeLaw [] := by
  intro vs _ _
  simp [fieldsSize, fieldsApp]

theorem fieldsSizeLaw_cons (i : Nat) (n : String) (t : Ty) (r : Fields)
    (iht : SizeLaw t) (ihr : FieldsSizeLaw r) : FieldsSizeLaw ((i, n, t) :: r) := by
  intro vs hwf hty
  cases vs with
  | nil => simp [fieldsHaveTy] at hty
  | cons v vs =>
    simp only [fieldsWf] at hwf
    simp only [fieldsHaveTy] at hty
    simp only [fieldsSize, fieldsApp, List.length_append, ihr vs hwf.2 hty.2, iht v _ hwf.1 hty.1]
    cases v.omit <;> simp

mutual
theorem sizeLaw_ty : (t : Ty) → SizeLaw t
  | .bool => sizeLaw_bool
  | .int w => sizeLaw_int w
  | .uint w => sizeLaw_uint w
  | .flat w => sizeLaw_flat w
  | .f32 => sizeLaw_f32
  | .f64 => sizeLaw_f64
  | .str i => sizeLaw_str i
  | .bytes => sizeLaw_bytes
  | .time c => sizeLaw_time c
  | .ptr t => sizeLaw_ptr t (sizeLaw_ty t)
  | .vslice t => sizeLaw_vslice t (sizeLaw_ty t)
  | .fslice t => sizeLaw_fslice t
  | .lslice t => sizeLaw_lslice t (sizeLaw_ty t)
  | .pslice t => sizeLaw_pslice t (sizeLaw_ty t)
  | .struct n fs => sizeLaw_struct n fs (sizeLaw_fields fs)
  | .map k v p => sizeLaw_map k v p (sizeLaw_ty k) (sizeLaw_ty v)
theorem sizeLaw_fields : (fs : Fields) → FieldsSizeLaw fs
  | [] => fieldsSizeLaw_nil
  | (i, n, t) :: r => fieldsSizeLaw_cons i n t r (sizeLaw_ty t) (sizeLaw_fields r)
end

/-- C05 law 1: the reported size is the number of bytes appended, for every
accepted codec, every value of its type and every tag (empty or not). -/
theorem size_eq_app_len (t : Ty) (v : Val) (tag : Bytes) (hwf : t.wf) (hty : t.hasTy v) :
    t.size v tag = (t.app v tag).length :=
  sizeLaw_ty t v tag hwf hty

theorem fieldsSize_eq_app_len (fs : Fields) (vs : List Val) (hwf : fieldsWf fs) (hty : fieldsHaveTy fs vs) :
    fieldsSize fs vs = (fieldsApp fs vs).length :=
  sizeLaw_fields fs vs hwf hty


/-! ### law 2: framing -/

/-- the value reaches a non-pointer codec: no nil pointer along its chain of
`PointerWrapper`s (`PointerWrapper.Append` writes nothing at all for nil). -/
def Val.present : Val → Bool
  | .ptr none => false
  | .ptr (some v) => v.present
  | _ => true

/-- the codec behind a chain of `PointerWrapper`s. -/
def Ty.deref : Ty → Ty
  | .ptr t => t.deref
  | t => t

/-- an Accepted codec that is neither a map nor (a pointer to) a
`ProtoSliceWrapper` is not a repeated form behind its pointers: a pointer's
target is never a map, and `isProtoSlice` looks through pointers. -/
theorem deref_not_protoRep_of_wf : (t : Ty) → t.wf → t.isMap = false → t.isProtoSlice = false →
    t.deref.isProtoRep = false
  | .ptr t => by
      intro hwf _ hp
      simp only [Ty.wf] at hwf
      simp only [Ty.isProtoSlice] at hp
      simp only [Ty.deref]
      exact deref_not_protoRep_of_wf t hwf.1 hwf.2 hp
  | .pslice _ => by intro _ _ hp; simp [Ty.isProtoSlice] at hp
  | .map _ _ _ => by intro _ hm; simp [Ty.isMap] at hm
  | .bool | .int _ | .uint _ | .flat _ | .f32 | .f64 | .str _ | .bytes | .time _ | .vslice _ | .fslice _
  | .lslice _ | .struct _ _ => by intro _ _ _; simp [Ty.deref, Ty.isProtoRep]

/-- the element of an Accepted `ProtoSliceWrapper` is not a repeated form, directly
or behind pointers (the builder's `isProtoSlice` check). -/
theorem wf_pslice_elem_not_protoRep {t : Ty} (h : (Ty.pslice t).wf) : t.deref.isProtoRep = false := by
  simp only [Ty.wf] at h
  exact deref_not_protoRep_of_wf t h.1 h.2.2.1 h.2.2.2

/-- likewise for the element of an Accepted `WTLengthSliceWrapper`. -/
theorem wf_lslice_elem_not_protoRep {t : Ty} (h : (Ty.lslice t).wf) : t.deref.isProtoRep = false := by
  simp only [Ty.wf] at h
  exact deref_not_protoRep_of_wf t h.1 h.2.2.1 h.2.2.2

/-- likewise for the value and the key of an Accepted map codec. -/
theorem wf_map_value_not_protoRep {k v : Ty} {p : Bool} (h : (Ty.map k v p).wf) :
    v.deref.isProtoRep = false := by
  simp only [Ty.wf] at h
  exact deref_not_protoRep_of_wf v h.2.1 h.2.2.2.1 h.2.2.2.2.1

theorem wf_map_key_not_protoRep {k v : Ty} {p : Bool} (h : (Ty.map k v p).wf) :
    k.deref.isProtoRep = false := by
  simp only [Ty.wf] at h
  exact deref_not_protoRep_of_wf k h.1 h.2.2.1 h.2.2.2.2.2

theorem appendVarUint_zero : appendVarUint 0 = [0] := by
  rw [appendVarUint]; simp

theorem frame_shape (tag body : Bytes) (sz : Nat) (h : sz = body.length) (ht : tag ≠ []) :
    frame tag body sz = tag ++ appendVarUint (frame [] body sz).length ++ frame [] body sz := by
  rw [frame_nil, frame_cons tag body sz ht, h]

/-- from law 1 at the empty tag: the `sz` argument a length-delimited codec
passes to `frame` is the length of its body. -/
theorem frame_sz_of_size {sz : Nat} {body : Bytes} (h : frameSize [] sz = (frame [] body sz).length) :
    sz = body.length := by
  simpa [frameSize, frame] using h

/-- a nil pointer (at any depth) appends nothing, whatever the codec and tag. -/
theorem app_absent : (t : Ty) → ∀ (v : Val) (tag : Bytes), v.present = false → t.app v tag = []
  | .ptr t => by
      intro v tag h
      cases v with
      | ptr o =>
        cases o with
        | none => simp [Ty.app]
        | some x =>
          simp only [Val.present] at h
          simp only [Ty.app]
          exact app_absent t x tag h
      | _ => simp [Ty.app]
  | .bool | .int _ | .uint _ | .flat _ | .f32 | .f64 | .str _ | .bytes | .time _
  | .vslice _ | .fslice _ | .lslice _ | .pslice _ | .struct _ _ | .map _ _ _ => by
      intro v tag h
      cases v <;> first | simp [Val.present] at h | simp [Ty.app]

def FrameLaw (t : Ty) : Prop :=
  ∀ (v : Val) (tag : Bytes), t.wf → t.hasTy v → v.present = true →
    (t.wt = .len → t.deref.isProtoRep = false → tag ≠ [] →
        t.app v tag = tag ++ appendVarUint (t.app v []).length ++ t.app v []) ∧
    (t.wt ≠ .len → t.app v tag = tag ++ t.app v [])

theorem frameLaw_ty : (t : Ty) → FrameLaw t
  | .bool => by
      intro v tag _ hty _
      cases v with
      | bool b => exact ⟨fun h => by simp [Ty.wt] at h, fun _ => by simp [Ty.app]⟩
      | _ => simp [Ty.hasTy] at hty
  | .int w => by
      intro v tag _ hty _
      cases v with
      | int b => exact ⟨fun h => by simp [Ty.wt] at h, fun _ => by simp [Ty.app]⟩
      | _ => simp [Ty.hasTy] at hty
  | .uint w => by
      intro v tag _ hty _
      cases v with
      | uint b => exact ⟨fun h => by simp [Ty.wt] at h, fun _ => by simp [Ty.app]⟩
      | _ => simp [Ty.hasTy] at hty
  | .flat w => by
      intro v tag _ hty _
      cases v with
      | int b => exact ⟨fun h => by simp [Ty.wt] at h, fun _ => by simp [Ty.app]⟩
      | _ => simp [Ty.hasTy] at hty
  | .f32 => by
      intro v tag _ hty _
      cases v with
      | f32 b => exact ⟨fun h => by simp [Ty.wt] at h, fun _ => by simp [Ty.app]⟩
      | _ => simp [Ty.hasTy] at hty
  | .f64 => by
      intro v tag _ hty _
      cases v with
      | f64 b => exact ⟨fun h => by simp [Ty.wt] at h, fun _ => by simp [Ty.app]⟩
      | _ => simp [Ty.hasTy] at hty
  | .str i => by
      intro v tag hwf hty _
      cases v with
      | str s =>
        refine ⟨fun _ _ ht => ?_, fun h => by simp [Ty.wt] at h⟩
        simp only [Ty.app]; exact frame_shape _ _ _ rfl ht
      | _ => simp [Ty.hasTy] at hty
  | .bytes => by
      intro v tag hwf hty _
      cases v with
      | bytes s =>
        refine ⟨fun _ _ ht => ?_, fun h => by simp [Ty.wt] at h⟩
        simp only [Ty.app]; exact frame_shape _ _ _ rfl ht
      | _ => simp [Ty.hasTy] at hty
  | .time c => by
      intro v tag hwf hty _
      cases v with
      | time s n =>
        refine ⟨fun _ _ ht => ?_, fun h => by simp [Ty.wt] at h⟩
        simp only [Ty.app]; exact frame_shape _ _ _ (timeBody_length c s n) ht
      | _ => simp [Ty.hasTy] at hty
  | .ptr t => by
      intro v tag hwf hty hp
      cases v with
      | ptr o =>
        cases o with
        | none => simp [Val.present] at hp
        | some x =>
          simp only [Val.present] at hp
          simp only [Ty.wf] at hwf
          simp only [Ty.hasTy] at hty
          simp only [Ty.app, Ty.wt, Ty.deref]
          exact frameLaw_ty t x tag hwf.1 hty hp
      | _ => simp [Ty.hasTy] at hty
  | .vslice t => by
      intro v tag hwf hty _
      cases v with
      | slice vs =>
        refine ⟨fun _ _ ht => ?_, fun h => by simp [Ty.wt] at h⟩
        have hs := size_eq_app_len _ _ [] hwf hty
        simp only [Ty.size, Ty.app] at hs ⊢
        exact frame_shape _ _ _ (frame_sz_of_size hs) ht
      | _ => simp [Ty.hasTy] at hty
  | .fslice t => by
      intro v tag hwf hty _
      cases v with
      | slice vs =>
        refine ⟨fun _ _ ht => ?_, fun h => by simp [Ty.wt] at h⟩
        have hs := size_eq_app_len _ _ [] hwf hty
        simp only [Ty.size, Ty.app] at hs ⊢
        exact frame_shape _ _ _ (frame_sz_of_size hs) ht
      | _ => simp [Ty.hasTy] at hty
  | .lslice t => by
      intro v tag _ hty _
      cases v with
      | slice vs => exact ⟨fun h => by simp [Ty.wt] at h, fun _ => by simp [Ty.app]⟩
      | _ => simp [Ty.hasTy] at hty
  | .pslice t => by
      intro v tag _ hty _
      cases v with
      | slice vs =>
        exact ⟨fun _ h => by simp [Ty.deref, Ty.isProtoRep] at h, fun h => by simp [Ty.wt] at h⟩
      | _ => simp [Ty.hasTy] at hty
  | .struct n fs => by
      intro v tag hwf hty _
      cases v with
      | struct vs =>
        refine ⟨fun _ _ ht => ?_, fun h => by simp [Ty.wt] at h⟩
        have hs := size_eq_app_len _ _ [] hwf hty
        simp only [Ty.size, Ty.app] at hs ⊢
        exact frame_shape _ _ _ (frame_sz_of_size hs) ht
      | _ => simp [Ty.hasTy] at hty
  | .map k v false => by
      intro x tag _ hty _
      cases x with
      | map o =>
        cases o with
        | none => exact ⟨fun h => by simp [Ty.wt] at h, fun _ => by simp [Ty.app]⟩
        | some es => exact ⟨fun h => by simp [Ty.wt] at h, fun _ => by simp [Ty.app]⟩
      | _ => simp [Ty.hasTy] at hty
  | .map k v true => by
      intro x tag _ hty _
      cases x with
      | map o =>
        exact ⟨fun _ h => by simp [Ty.deref, Ty.isProtoRep] at h, fun h => by simp [Ty.wt] at h⟩
      | _ => simp [Ty.hasTy] at hty

/-- C05 law 2a: a present value of a length-delimited, non-repeated codec is
appended under a non-empty tag as tag, varint length, body — the body being what
the codec appends with no tag. -/
theorem app_frame_len (t : Ty) (v : Val) (tag : Bytes) (hwf : t.wf) (hty : t.hasTy v)
    (hp : v.present = true) (hl : t.wt = .len) (hr : t.deref.isProtoRep = false) (ht : tag ≠ []) :
    t.app v tag = tag ++ appendVarUint (t.app v []).length ++ t.app v [] :=
  (frameLaw_ty t v tag hwf hty hp).1 hl hr ht

/-- C05 law 2b: for every other wire type the tag is simply prepended. -/
theorem app_frame_other (t : Ty) (v : Val) (tag : Bytes) (hwf : t.wf) (hty : t.hasTy v)
    (hp : v.present = true) (hl : t.wt ≠ .len) :
    t.app v tag = tag ++ t.app v [] :=
  (frameLaw_ty t v tag hwf hty hp).2 hl

/-- the frame `ProtoSliceWrapper` writes for one element. For a nil pointer
element the body is empty and this is `tag ++ [0]` (`elemFrame_absent`). -/
def elemFrame (t : Ty) (v : Val) (tag : Bytes) : Bytes :=
  tag ++ appendVarUint (t.app v []).length ++ t.app v []

theorem elemFrame_absent (t : Ty) (v : Val) (tag : Bytes) (h : v.present = false) :
    elemFrame t v tag = tag ++ [0] := by
  simp [elemFrame, app_absent t v [] h, appendVarUint_zero]

/-- C05 law 2c: `ProtoSliceWrapper` under a non-empty tag writes one frame per
element (protobuf repeated field); nil pointer elements get an empty frame. -/
theorem pslice_frames (t : Ty) (vs : List Val) (tag : Bytes)
    (hwf : (Ty.pslice t).wf) (hty : (Ty.pslice t).hasTy (.slice vs))
    (hr : t.deref.isProtoRep = false) (ht : tag ≠ []) :
    (Ty.pslice t).app (.slice vs) tag = vs.flatMap fun v => elemFrame t v tag := by
  simp only [Ty.wf] at hwf
  simp only [Ty.hasTy] at hty
  simp only [Ty.app]
  apply flatMap_congr'
  intro a ha
  have hte : tag.isEmpty = false := by cases tag <;> simp_all
  cases hp : a.present with
  | false =>
    rw [elemFrame_absent t a tag hp]
    simp [app_absent t a tag hp, hte]
  | true =>
    have hf := app_frame_len t a tag hwf.1 (hty a ha) hp hwf.2.1 hr ht
    have hne : (t.app a tag).isEmpty = false := by
      rw [hf]; cases tag <;> simp_all
    have hc : ¬ ((t.app a tag).isEmpty = true ∧ ¬ tag.isEmpty = true) := by simp [hne]
    simp only [hc, ↓reduceIte, elemFrame]
    exact hf

/-- C05 law 2d: `ProtoMapCodec` writes one frame per entry under the caller's
tag (any tag), the entry body being key (index 1) then value (index 2). -/
theorem pmap_frames (k v : Ty) (es : List (Val × Val)) (tag : Bytes)
    (hwf : (Ty.map k v true).wf) (hty : (Ty.map k v true).hasTy (.map (some es))) :
    (Ty.map k v true).app (.map (some es)) tag
      = es.flatMap fun e => tag ++ appendVarUint (entryBody k v e).length ++ entryBody k v e := by
  simp only [Ty.wf] at hwf
  simp only [Ty.hasTy] at hty
  simp only [Ty.app]
  apply flatMap_congr'
  intro e he
  have := entrySize_eq k v (sizeLaw_ty k) (sizeLaw_ty v) hwf.1 hwf.2.1 e (hty.1 e he).1 (hty.1 e he).2
  simp only [entrySize, entryBody] at this ⊢
  simp only [this, List.append_assoc]

/-- a nil proto map appends nothing. -/
theorem pmap_nil (k v : Ty) (tag : Bytes) : (Ty.map k v true).app (.map none) tag = [] := by
  simp [Ty.app]

/-- the plenc map form: tag, entry count, then each entry with its length. -/
theorem map_entries (k v : Ty) (es : List (Val × Val)) (tag : Bytes)
    (hwf : (Ty.map k v false).wf) (hty : (Ty.map k v false).hasTy (.map (some es))) :
    (Ty.map k v false).app (.map (some es)) tag
      = tag ++ appendVarUint es.length
          ++ es.flatMap fun e => appendVarUint (entryBody k v e).length ++ entryBody k v e := by
  simp only [Ty.wf] at hwf
  simp only [Ty.hasTy] at hty
  simp only [Ty.app, List.append_assoc]
  congr 2
  apply flatMap_congr'
  intro e he
  have := entrySize_eq k v (sizeLaw_ty k) (sizeLaw_ty v) hwf.1 hwf.2.1 e (hty.1 e he).1 (hty.1 e he).2
  simp only [entrySize, entryBody] at this ⊢
  simp only [this]

/-- the plenc slice form (`WTLengthSliceWrapper`): tag, element count, then each
element with its length. -/
theorem lslice_entries (t : Ty) (vs : List Val) (tag : Bytes)
    (hwf : (Ty.lslice t).wf) (hty : (Ty.lslice t).hasTy (.slice vs)) :
    (Ty.lslice t).app (.slice vs) tag
      = tag ++ appendVarUint vs.length
          ++ vs.flatMap fun v => appendVarUint (t.app v []).length ++ t.app v [] := by
  simp only [Ty.wf] at hwf
  simp only [Ty.hasTy] at hty
  simp only [Ty.app, List.append_assoc]
  congr 2
  apply flatMap_congr'
  intro a ha
  rw [size_eq_app_len t a [] hwf.1 (hty a ha)]

/-- the body of a struct is the concatenation of its non-omitted fields, each
appended under its own tag (so laws 2a–2d describe every field). -/
theorem struct_body (n : String) (fs : Fields) (vs : List Val) :
    (Ty.struct n fs).app (.struct vs) [] = fieldsApp fs vs := by
  simp [Ty.app, frame]


/-- a value of a non-pointer codec is always present … -/
theorem present_of_not_ptr (t : Ty) (v : Val) (h : t.isPtr = false) (hty : t.hasTy v) :
    v.present = true := by
  cases t <;> cases v <;> simp_all [Ty.hasTy, Val.present, Ty.isPtr]

/-- … and under a single pointer "present" is just "not nil". Under a pointer to
a pointer it is not: `.ptr (some (.ptr none))` appends nothing. -/
theorem present_of_ne_nil (t : Ty) (v : Val) (h : t.isPtr = false) (hty : (Ty.ptr t).hasTy v)
    (hv : v ≠ .ptr none) : v.present = true := by
  cases v with
  | ptr o =>
    cases o with
    | none => exact absurd rfl hv
    | some x =>
      simp only [Ty.hasTy] at hty
      simp only [Val.present]
      exact present_of_not_ptr t x h hty
  | _ => simp [Ty.hasTy] at hty

/-! ### law 3: the scalar readers consume exactly what was appended -/

theorem leVal_leBytes : ∀ (n v : Nat), leVal (leBytes n v) = v % 256 ^ n
  | 0, v => by simp [leBytes, leVal]; omega
  | n+1, v => by
    have hb : ((v % 256).toUInt8).toNat = v % 256 := toUInt8_toNat_lt _ (Nat.mod_lt _ (by omega))
    simp only [leBytes, leVal, hb, leVal_leBytes n (v / 256)]
    rw [Nat.pow_succ, Nat.mul_comm (256 ^ n) 256, Nat.mod_mul]

theorem take_leBytes (n v : Nat) (rest : Bytes) : (leBytes n v ++ rest).take n = leBytes n v := by
  have := leBytes_length n v
  exact List.take_left' this

def Ty.isScalar : Ty → Bool
  | .bool | .int _ | .uint _ | .flat _ | .f32 | .f64 => true
  | _ => false

theorem wrapS_id (w : Nat) (i : Int) (hw : validWidth w) (h : intRange w i) : wrapS w i = i := by
  unfold intRange at h
  unfold wrapS
  rcases hw with rfl | rfl | rfl | rfl <;> simp only [Nat.reduceSub, Int.reducePow] at h ⊢ <;> split <;> omega

theorem wrapU_natCast (w n : Nat) (hw : validWidth w) (h : n < 2 ^ w) : wrapU w (n : Int) = n := by
  unfold wrapU
  rcases hw with rfl | rfl | rfl | rfl <;> simp only [Nat.reducePow, Int.reducePow] at h ⊢ <;> omega

theorem wrapU_lt (w : Nat) (i : Int) (hw : validWidth w) : wrapU w i < 2 ^ 64 := by
  unfold wrapU
  rcases hw with rfl | rfl | rfl | rfl <;> simp only [Nat.reducePow, Int.reducePow] <;> omega

theorem wrapS_wrapU (w : Nat) (i : Int) (hw : validWidth w) (h : intRange w i) :
    wrapS w (wrapU w i : Int) = i := by
  unfold intRange at h
  unfold wrapS wrapU
  rcases hw with rfl | rfl | rfl | rfl <;> simp only [Nat.reduceSub, Int.reducePow] at h ⊢ <;> split <;> omega

theorem zigZag_lt_of_range (w : Nat) (i : Int) (hw : validWidth w) (h : intRange w i) :
    zigZag i < 2 ^ 64 := by
  unfold intRange at h
  apply zigZag_lt
  all_goals rcases hw with rfl | rfl | rfl | rfl <;> simp only [Nat.reduceSub, Int.reducePow] at h ⊢ <;> omega

/-- reading back a varint that was appended: value and exact length. -/
theorem readVarUint_app (x : Nat) (hx : x < 2 ^ 64) (rest : Bytes) :
    ¬ ((readVarUint (appendVarUint x ++ rest)).2 < 0) ∧
    (readVarUint (appendVarUint x ++ rest)).1 = x ∧
    (readVarUint (appendVarUint x ++ rest)).2.toNat = (appendVarUint x).length := by
  rw [read_append x hx rest]
  simp only [Int.ofNat_eq_natCast, Int.toNat_natCast, and_self, and_true]
  omega

/-- C05 law 3 (with the value): each self-delimiting scalar codec, reading what
it appended (no tag) followed by arbitrary bytes, returns the value and consumes
exactly the appended length — whatever wire type and prior value it is given. -/
theorem scalar_read_exact (t : Ty) (v : Val) (wt : WT) (rest : Bytes) (p : Val)
    (hs : t.isScalar = true) (hwf : t.wf) (hty : t.hasTy v) :
    t.read wt (t.app v [] ++ rest) p = .ok (v, (t.app v []).length) := by
  cases t with
  | bool =>
    cases v with
    | bool b =>
      have ⟨h1, h2, h3⟩ := readVarUint_app (if b then 1 else 0) (by cases b <;> simp) rest
      simp only [Ty.app, Ty.read, List.nil_append, h1, h2, h3, ↓reduceIte]
      cases b <;> simp
    | _ => simp [Ty.hasTy] at hty
  | int w =>
    cases v with
    | int i =>
      simp only [Ty.wf] at hwf
      simp only [Ty.hasTy] at hty
      have ⟨h1, h2, h3⟩ := readVarUint_app (zigZag i) (zigZag_lt_of_range w i hwf hty) rest
      simp only [Ty.app, Ty.read, List.nil_append, appendVarInt, h1, h2, h3, ↓reduceIte,
        zagZig_zigZag, wrapS_id w i hwf hty]
    | _ => simp [Ty.hasTy] at hty
  | uint w =>
    cases v with
    | uint n =>
      simp only [Ty.wf] at hwf
      simp only [Ty.hasTy] at hty
      have hn : n < 2 ^ 64 := by
        rcases hwf with rfl | rfl | rfl | rfl <;> simp only [Nat.reducePow] at hty ⊢ <;> omega
      have ⟨h1, h2, h3⟩ := readVarUint_app n hn rest
      simp only [Ty.app, Ty.read, List.nil_append, h1, h2, h3, ↓reduceIte, wrapU_natCast w n hwf hty]
    | _ => simp [Ty.hasTy] at hty
  | flat w =>
    cases v with
    | int i =>
      simp only [Ty.wf] at hwf
      simp only [Ty.hasTy] at hty
      have ⟨h1, h2, h3⟩ := readVarUint_app (wrapU w i) (wrapU_lt w i hwf) rest
      simp only [Ty.app, Ty.read, List.nil_append, h1, h2, h3, ↓reduceIte, wrapS_wrapU w i hwf hty]
    | _ => simp [Ty.hasTy] at hty
  | f32 =>
    cases v with
    | f32 b =>
      simp only [Ty.hasTy] at hty
      have hl : ¬ ((leBytes 4 b ++ rest).length < 4) := by
        simp only [List.length_append, leBytes_length]; omega
      simp only [Ty.app, Ty.read, List.nil_append, hl, ↓reduceIte, take_leBytes, leVal_leBytes,
        leBytes_length]
      rw [Nat.mod_eq_of_lt (by simpa using hty)]
    | _ => simp [Ty.hasTy] at hty
  | f64 =>
    cases v with
    | f64 b =>
      simp only [Ty.hasTy] at hty
      have hl : ¬ ((leBytes 8 b ++ rest).length < 8) := by
        simp only [List.length_append, leBytes_length]; omega
      simp only [Ty.app, Ty.read, List.nil_append, hl, ↓reduceIte, take_leBytes, leVal_leBytes,
        leBytes_length]
      rw [Nat.mod_eq_of_lt (by simpa using hty)]
    | _ => simp [Ty.hasTy] at hty
  | _ => simp [Ty.isScalar] at hs


/-! ### framing agrees with `Skip`: a generic walker steps over a field exactly -/

theorem entriesBytes_map {α : Type} (g : α → Bytes) : ∀ (l : List α),
    entriesBytes (l.map g) = l.flatMap fun a => appendVarUint (g a).length ++ g a
  | [] => by simp [entriesBytes]
  | a :: l => by
    have ih := entriesBytes_map g l
    simp only [entriesBytes] at ih
    simp [entriesBytes, ih]

theorem entriesBytes_count_le : ∀ (es : List Bytes), es.length ≤ (entriesBytes es).length
  | [] => by simp
  | b :: es => by
    have ih := entriesBytes_count_le es
    have := append_len_pos b.length
    simp only [entriesBytes] at ih
    simp only [entriesBytes, List.flatMap_cons, List.length_append, List.length_cons]
    omega

theorem entriesBytes_elem_le : ∀ (es : List Bytes), ∀ b ∈ es, b.length ≤ (entriesBytes es).length
  | [], _, h => by simp at h
  | c :: es, b, h => by
    have ih := entriesBytes_elem_le es b
    simp only [entriesBytes] at ih
    simp only [entriesBytes, List.flatMap_cons, List.length_append]
    rcases List.mem_cons.mp h with rfl | h
    · omega
    · have := ih h; omega

/-- `Skip` over `count ++ entries` when the whole thing is shorter than 2^64. -/
theorem skip_slice_of_total (es : List Bytes) (rest : Bytes)
    (h : (appendVarUint es.length ++ entriesBytes es).length < 2 ^ 64) :
    skip (appendVarUint es.length ++ entriesBytes es ++ rest) .slice
      = .ok (appendVarUint es.length ++ entriesBytes es).length := by
  simp only [List.length_append] at h
  have h1 := entriesBytes_count_le es
  rw [skip_slice_exact es rest (by omega) (fun b hb => by have := entriesBytes_elem_le es b hb; omega)]
  simp

def SkipLaw (t : Ty) : Prop :=
  ∀ (v : Val) (rest : Bytes), t.wf → t.hasTy v → v.present = true → t.wt ≠ .len →
    (t.app v []).length < 2 ^ 64 →
    skip (t.app v [] ++ rest) t.wt = .ok (t.app v []).length

theorem skipLaw_ty : (t : Ty) → SkipLaw t
  | .bool => by
      intro v rest _ hty _ _ _
      cases v with
      | bool b =>
        simp only [Ty.app, Ty.wt, List.nil_append]
        exact skip_varint_exact _ (by cases b <;> simp) rest
      | _ => simp [Ty.hasTy] at hty
  | .int w => by
      intro v rest hwf hty _ _ _
      cases v with
      | int i =>
        simp only [Ty.wf] at hwf
        simp only [Ty.hasTy] at hty
        simp only [Ty.app, Ty.wt, List.nil_append, appendVarInt]
        exact skip_varint_exact _ (zigZag_lt_of_range w i hwf hty) rest
      | _ => simp [Ty.hasTy] at hty
  | .uint w => by
      intro v rest hwf hty _ _ _
      cases v with
      | uint n =>
        simp only [Ty.wf] at hwf
        simp only [Ty.hasTy] at hty
        have hn : n < 2 ^ 64 := by
          rcases hwf with rfl | rfl | rfl | rfl <;> simp only [Nat.reducePow] at hty ⊢ <;> omega
        simp only [Ty.app, Ty.wt, List.nil_append]
        exact skip_varint_exact _ hn rest
      | _ => simp [Ty.hasTy] at hty
  | .flat w => by
      intro v rest hwf hty _ _ _
      cases v with
      | int i =>
        simp only [Ty.wf] at hwf
        simp only [Ty.app, Ty.wt, List.nil_append]
        exact skip_varint_exact _ (wrapU_lt w i hwf) rest
      | _ => simp [Ty.hasTy] at hty
  | .f32 => by
      intro v rest _ hty _ _ _
      cases v with
      | f32 b =>
        simp only [Ty.app, Ty.wt, List.nil_append, leBytes_length]
        exact skip_w32_exact _ rest (leBytes_length 4 b)
      | _ => simp [Ty.hasTy] at hty
  | .f64 => by
      intro v rest _ hty _ _ _
      cases v with
      | f64 b =>
        simp only [Ty.app, Ty.wt, List.nil_append, leBytes_length]
        exact skip_w64_exact _ rest (leBytes_length 8 b)
      | _ => simp [Ty.hasTy] at hty
  | .ptr t => by
      intro v rest hwf hty hp hl hsz
      cases v with
      | ptr o =>
        cases o with
        | none => simp [Val.present] at hp
        | some x =>
          simp only [Val.present] at hp
          simp only [Ty.wf] at hwf
          simp only [Ty.hasTy] at hty
          simp only [Ty.app, Ty.wt] at hsz hl ⊢
          exact skipLaw_ty t x rest hwf.1 hty hp hl hsz
      | _ => simp [Ty.hasTy] at hty
  | .lslice t => by
      intro v rest hwf hty _ _ hsz
      cases v with
      | slice vs =>
        rw [lslice_entries t vs [] hwf hty] at hsz ⊢
        rw [← entriesBytes_map (fun v => t.app v []) vs] at hsz ⊢
        have hlen : vs.length = (vs.map fun v => t.app v []).length := by simp
        rw [hlen] at hsz ⊢
        simp only [List.nil_append, Ty.wt] at hsz ⊢
        exact skip_slice_of_total _ rest hsz
      | _ => simp [Ty.hasTy] at hty
  | .map k v false => by
      intro x rest hwf hty _ _ hsz
      cases x with
      | map o =>
        cases o with
        | none =>
          simp only [Ty.app, Ty.wt, List.nil_append] at hsz ⊢
          have := skip_slice_of_total [] rest (by simpa [entriesBytes] using hsz)
          simpa [entriesBytes] using this
        | some es =>
          rw [map_entries k v es [] hwf hty] at hsz ⊢
          rw [← entriesBytes_map (entryBody k v) es] at hsz ⊢
          have hlen : es.length = (es.map (entryBody k v)).length := by simp
          rw [hlen] at hsz ⊢
          simp only [List.nil_append, Ty.wt] at hsz ⊢
          exact skip_slice_of_total _ rest hsz
      | _ => simp [Ty.hasTy] at hty
  | .str _ | .bytes | .time _ | .vslice _ | .fslice _ | .pslice _ | .struct _ _ | .map _ _ true => by
      intro v rest _ _ _ hl _
      simp [Ty.wt] at hl

/-- a present value of a non-repeated codec, appended under a non-empty tag, is
`tag ++ payload` where `Skip` with the codec's wire type steps over exactly
`payload`, whatever follows. (`2^64`: the bound on a Go slice length.) -/
theorem field_skip_exact (t : Ty) (v : Val) (tag rest : Bytes) (hwf : t.wf) (hty : t.hasTy v)
    (hp : v.present = true) (hr : t.deref.isProtoRep = false) (ht : tag ≠ [])
    (hsz : (t.app v []).length < 2 ^ 64) :
    ∃ payload, t.app v tag = tag ++ payload ∧ skip (payload ++ rest) t.wt = .ok payload.length := by
  by_cases hl : t.wt = .len
  · refine ⟨appendVarUint (t.app v []).length ++ t.app v [], ?_, ?_⟩
    · rw [app_frame_len t v tag hwf hty hp hl hr ht, List.append_assoc]
    · rw [hl, skip_len_exact _ rest hsz]; simp
  · exact ⟨t.app v [], app_frame_other t v tag hwf hty hp hl,
      skipLaw_ty t v rest hwf hty hp hl hsz⟩

